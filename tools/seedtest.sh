#!/bin/bash
# tools/seedtest.sh <src_dir_with patch.diff+demo_test.go> <name> [checks...]
# 1. validates a seeded change in a scratch worktree (suite green with it, demo fails with it, passes without)
# 2. applies it to /repo, runs the given checks (default: all registered), restores /repo
# Results: /verif/work/seed-<name>.log ; prints a one-line summary per check.
set -u
export GOFLAGS=-mod=mod GOPROXY=off GOSUMDB=off GOTOOLCHAIN=local
SRC=$1; NAME=$2; shift 2
CHECKS="$@"
[ -z "$CHECKS" ] && CHECKS=$(python3 -c "import json;print(' '.join(c['property_id'] for c in json.load(open('/verif/MANIFEST.json'))['checks']))")
LOG=/verif/work/seed-$NAME.log; mkdir -p /verif/work; : > $LOG
WT=$(mktemp -d /tmp/seedchk.XXXXXX)
git -C /repo worktree add -q --detach $WT HEAD >>$LOG 2>&1
ok=1
( cd $WT && git apply $SRC/patch.diff ) >>$LOG 2>&1 || { echo "$NAME: patch does not apply"; ok=0; }
if [ $ok = 1 ]; then
  ( cd $WT && go build ./... && go test -vet=off -count=1 ./... ) >>$LOG 2>&1 && suite=green || suite=RED
  cp $SRC/demo_test.go $WT/zz_demo_test.go
  DEMO=$(grep -o 'func Test[A-Za-z0-9_]*' $WT/zz_demo_test.go | sed 's/func //' | paste -sd'|')
  ( cd $WT && go test -vet=off -count=1 -run "^($DEMO)\$" . ) >>$LOG 2>&1 && with=pass || with=FAIL
  ( cd $WT && git apply -R $SRC/patch.diff && go test -vet=off -count=1 -run "^($DEMO)\$" . ) >>$LOG 2>&1 && without=pass || without=FAIL
  echo "$NAME: suite-with-change=$suite demo-with-change=$with demo-without=$without"
fi
git -C /repo worktree remove --force $WT >>$LOG 2>&1; rm -rf $WT
[ $ok = 1 ] || exit 1
# apply to /repo and run the checks
git -C /repo apply $SRC/patch.diff || { echo "cannot apply to /repo"; exit 1; }
trap 'git -C /repo checkout -- . ; git -C /repo clean -fdq' EXIT
for c in $CHECKS; do
  out=$(cd /verif && timeout 1500 ./check $c quick 2>&1); rc=$?
  v=$(echo "$out" | grep -c '^VIOLATION')
  echo "  $c: exit=$rc violations=$v $(echo "$out" | grep '^VIOLATION' | head -1 | cut -c1-160)"
  echo "== $c rc=$rc" >>$LOG; echo "$out" >>$LOG
done
