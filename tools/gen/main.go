// gen — the translator: reads the Go source of gkvlite (working tree) with
// go/parser + go/types and prints coq/Generated.v: format constants, record
// layouts (field orders as they appear in the encode/decode functions) and
// the package call graph with I/O and lock facts per function.
package main

import (
	"fmt"
	"go/ast"
	"go/constant"
	"go/importer"
	"go/parser"
	"go/token"
	"go/types"
	"os"
	"path/filepath"
	"sort"
	"strconv"
	"strings"
)

type fn struct {
	name      string
	calls     map[string]bool
	under     map[string]bool // callees invoked while a lock is held
	writes    bool            // calls WriteAt / Truncate
	reads     bool            // calls ReadAt / Stat
	locks     bool
	dynamic   bool // calls through a function value (visitor, choice function, ...)
	dynSigs   map[string]bool // signatures of the function values it calls
	dynUnderS map[string]bool
	sig       string // own signature (for address-taken matching)
	dynUnder  bool // ... while a lock is held
	ioUnder   bool // file I/O while a lock is held
	callback  bool // calls a StoreCallbacks field
	acq       map[string]bool            // locks this function acquires itself
	heldCalls map[string]map[string]bool // lock name -> callees invoked while it is held
	edges     map[[2]string]bool         // direct nesting: lock A held while lock B is acquired
	user      bool // calls a value of a user-supplied function type (ItemVisitor, ItemVisitorEx, KeyCompare, BlockMangler)
	userUnder bool // ... while a lock is held
	addrTaken bool
}

var fset = token.NewFileSet()

func die(format string, a ...interface{}) {
	fmt.Fprintf(os.Stderr, "gen: "+format+"\n", a...)
	os.Exit(1)
}

func loadPkg(dir, path string, imp types.Importer) (*types.Package, *types.Info, []*ast.File) {
	pkgs, err := parser.ParseDir(fset, dir, func(fi os.FileInfo) bool {
		return !strings.HasSuffix(fi.Name(), "_test.go") && fi.Name() != "verif_hooks.go"
	}, parser.ParseComments)
	if err != nil {
		die("parse %s: %v", dir, err)
	}
	var files []*ast.File
	for _, p := range pkgs {
		var names []string
		for n := range p.Files {
			names = append(names, n)
		}
		sort.Strings(names)
		for _, n := range names {
			files = append(files, p.Files[n])
		}
	}
	info := &types.Info{Types: map[ast.Expr]types.TypeAndValue{}, Uses: map[*ast.Ident]types.Object{}, Defs: map[*ast.Ident]types.Object{}, Selections: map[*ast.SelectorExpr]*types.Selection{}}
	conf := types.Config{Importer: imp, Error: func(err error) {}}
	pkg, _ := conf.Check(path, fset, files, info)
	return pkg, info, files
}

func funcName(f *types.Func) string {
	sig := f.Type().(*types.Signature)
	if r := sig.Recv(); r != nil {
		t := r.Type()
		if p, ok := t.(*types.Pointer); ok {
			t = p.Elem()
		}
		if n, ok := t.(*types.Named); ok {
			return n.Obj().Name() + "." + f.Name()
		}
	}
	return f.Name()
}

const gk = "github.com/cbehopkins/gkvlite"

// sigKey renders a function type without parameter names.
func sigKey(t types.Type) string {
	sg, ok := t.Underlying().(*types.Signature)
	if !ok {
		return "?"
	}
	var ps, rs []string
	for i := 0; i < sg.Params().Len(); i++ {
		ps = append(ps, types.TypeString(sg.Params().At(i).Type(), func(p *types.Package) string { return p.Name() }))
	}
	for i := 0; i < sg.Results().Len(); i++ {
		rs = append(rs, types.TypeString(sg.Results().At(i).Type(), func(p *types.Package) string { return p.Name() }))
	}
	v := ""
	if sg.Variadic() {
		v = "..."
	}
	return "func(" + strings.Join(ps, ",") + v + ")(" + strings.Join(rs, ",") + ")"
}

func main() {
	if len(os.Args) < 2 {
		die("usage: gen <repo>")
	}
	repo := os.Args[1]
	os.Chdir(repo) // module-aware import resolution (tools/view imports gkvlite)
	imp := importer.ForCompiler(fset, "source", nil)
	pkg, info, files := loadPkg(repo, gk, imp)
	if pkg == nil {
		die("type check failed")
	}
	var sb strings.Builder
	w := func(format string, a ...interface{}) { fmt.Fprintf(&sb, format, a...) }
	w("(* Generated.v — written by tools/gen from the Go source in %s on every run. Do not edit. *)\n", repo)
	w("From Coq Require Import ZArith NArith List String.\nFrom GK Require Import GExpr.\nImport ListNotations.\nOpen Scope Z_scope.\nOpen Scope string_scope.\n\n")

	// ---- constants
	constZ := func(name string) string {
		o := pkg.Scope().Lookup(name)
		if c, ok := o.(*types.Const); ok {
			if v, ok := constant.Int64Val(constant.ToInt(c.Val())); ok {
				return strconv.FormatInt(v, 10)
			}
		}
		return "(-1)"
	}
	for _, c := range [][2]string{{"g_version", "Version"}, {"g_ploc_length", "plocLength"}, {"g_item_hdr_length", "itemLocHdrLength"},
		{"g_len_loc", "lenLoc"}, {"g_key_loc", "keyLoc"}, {"g_val_loc", "valLoc"}, {"g_pri_loc", "priLoc"}, {"g_pri_sz", "priSz"},
		{"g_keyp_size", "keyPSize"}, {"g_max_block_cnt", "MaxBlockCnt"}} {
		w("Definition %s : Z := %s.\n", c[0], constZ(c[1]))
	}
	// byte-slice variables initialised from a string literal, and derived lengths
	varBytes := map[string]string{}
	varExpr := map[string]ast.Expr{}
	for _, f := range files {
		for _, d := range f.Decls {
			gd, ok := d.(*ast.GenDecl)
			if !ok || gd.Tok != token.VAR {
				continue
			}
			for _, s := range gd.Specs {
				vs := s.(*ast.ValueSpec)
				for i, n := range vs.Names {
					if i < len(vs.Values) {
						varExpr[n.Name] = vs.Values[i]
						if ce, ok := vs.Values[i].(*ast.CallExpr); ok && len(ce.Args) == 1 {
							if bl, ok := ce.Args[0].(*ast.BasicLit); ok && bl.Kind == token.STRING {
								s, _ := strconv.Unquote(bl.Value)
								varBytes[n.Name] = s
							}
						}
					}
				}
			}
		}
	}
	bytesList := func(s string) string {
		var p []string
		for i := 0; i < len(s); i++ {
			p = append(p, strconv.Itoa(int(s[i])))
		}
		return "[" + strings.Join(p, "; ") + "]%N"
	}
	w("Definition g_magic_beg : list N := %s.\n", bytesList(varBytes["MagicBeg"]))
	w("Definition g_magic_end : list N := %s.\n", bytesList(varBytes["MagicEnd"]))
	// evaluate simple integer expressions over len(MagicBeg/MagicEnd), constants and other vars
	var eval func(e ast.Expr) (int64, bool)
	eval = func(e ast.Expr) (int64, bool) {
		if tv, ok := info.Types[e]; ok && tv.Value != nil {
			if v, ok := constant.Int64Val(constant.ToInt(tv.Value)); ok {
				return v, true
			}
		}
		switch x := e.(type) {
		case *ast.ParenExpr:
			return eval(x.X)
		case *ast.BinaryExpr:
			a, ok1 := eval(x.X)
			b, ok2 := eval(x.Y)
			if !ok1 || !ok2 {
				return 0, false
			}
			switch x.Op {
			case token.ADD:
				return a + b, true
			case token.SUB:
				return a - b, true
			case token.MUL:
				return a * b, true
			}
		case *ast.CallExpr:
			if id, ok := x.Fun.(*ast.Ident); ok && len(x.Args) == 1 {
				if id.Name == "len" {
					if a, ok := x.Args[0].(*ast.Ident); ok {
						if s, ok := varBytes[a.Name]; ok {
							return int64(len(s)), true
						}
					}
				}
				if id.Name == "int64" || id.Name == "int" || id.Name == "uint32" {
					return eval(x.Args[0])
				}
			}
		case *ast.Ident:
			if ex, ok := varExpr[x.Name]; ok {
				return eval(ex)
			}
		}
		return 0, false
	}
	for _, v := range [][2]string{{"g_roots_end_len", "rootsEndLen"}, {"g_roots_len", "rootsLen"}} {
		if ex, ok := varExpr[v[1]]; ok {
			if n, ok := eval(ex); ok {
				w("Definition %s : Z := %d.\n", v[0], n)
				continue
			}
		}
		w("Definition %s : Z := (-1).\n", v[0])
	}

	// ---- layouts: the order in which encode/decode functions touch fields
	seqOf := func(fname string, pick func(ast.Node) string) []string {
		var res []string
		for _, f := range files {
			for _, d := range f.Decls {
				fd, ok := d.(*ast.FuncDecl)
				if !ok || fd.Body == nil {
					continue
				}
				o, _ := info.Defs[fd.Name].(*types.Func)
				if o == nil || funcName(o) != fname {
					continue
				}
				ast.Inspect(fd.Body, func(n ast.Node) bool {
					if s := pick(n); s != "" {
						res = append(res, s)
					}
					return true
				})
			}
		}
		return res
	}
	selChain := func(e ast.Expr) string {
		var parts []string
		for {
			switch x := e.(type) {
			case *ast.SelectorExpr:
				parts = append([]string{x.Sel.Name}, parts...)
				e = x.X
				continue
			case *ast.CallExpr:
				e = x.Fun
				continue
			case *ast.Ident:
				parts = append([]string{x.Name}, parts...)
			}
			break
		}
		return strings.Join(parts, ".")
	}
	strList := func(l []string) string {
		var q []string
		for _, s := range l {
			q = append(q, strconv.Quote(s))
		}
		return "[" + strings.Join(q, "; ") + "]"
	}
	// node record: populateDiskStruct (encode) and populateNode (decode)
	nodeEnc := seqOf("node.populateDiskStruct", func(n ast.Node) string {
		if ce, ok := n.(*ast.CallExpr); ok {
			c := selChain(ce.Fun)
			switch {
			case strings.HasSuffix(c, ".Loc.write"):
				return strings.Split(c, ".")[1] + ":ploc"
			case strings.Contains(c, "BigEndian.PutUint64"):
				return selChain(ce.Args[1])[2:] + ":u64be"
			case strings.Contains(c, "LittleEndian"):
				return "LITTLE-ENDIAN"
			}
		}
		return ""
	})
	nodeDec := seqOf("populateNode", func(n ast.Node) string {
		switch x := n.(type) {
		case *ast.AssignStmt:
			if len(x.Lhs) == 1 && len(x.Rhs) == 1 {
				l := selChain(x.Lhs[0])
				if strings.HasSuffix(l, ".loc") && strings.HasPrefix(l, "n.") {
					return strings.Split(l, ".")[1] + ":ploc"
				}
			}
		case *ast.CallExpr:
			c := selChain(x.Fun)
			if c == "n.setNumNodes" {
				return "numNodes:u64be"
			}
			if c == "n.setNumBytes" {
				return "numBytes:u64be"
			}
		}
		return ""
	})
	w("Definition g_node_enc : list string := %s.\n", strList(nodeEnc))
	w("Definition g_node_dec : list string := %s.\n", strList(nodeDec))
	plocEnc := seqOf("ploc.write", func(n ast.Node) string {
		if ce, ok := n.(*ast.CallExpr); ok {
			c := selChain(ce.Fun)
			if strings.Contains(c, "BigEndian.PutUint64") {
				return "Offset:u64be"
			}
			if strings.Contains(c, "BigEndian.PutUint32") {
				return "Length:u32be"
			}
			if strings.Contains(c, "LittleEndian") {
				return "LITTLE-ENDIAN"
			}
		}
		return ""
	})
	w("Definition g_ploc_enc : list string := %s.\n", strList(plocEnc))
	itemEnc := seqOf("itemBa.render", func(n ast.Node) string {
		if ce, ok := n.(*ast.CallExpr); ok {
			c := selChain(ce.Fun)
			if strings.Contains(c, "BigEndian.PutUint32") || strings.Contains(c, "BigEndian.PutUint16") {
				if se, ok := ce.Args[0].(*ast.SliceExpr); ok {
					return selChain(ce.Args[1]) + "@" + selChain(se.Low) + ":" + c[strings.LastIndex(c, ".")+1:]
				}
			}
			if strings.Contains(c, "LittleEndian") {
				return "LITTLE-ENDIAN"
			}
		}
		return ""
	})
	w("Definition g_item_enc : list string := %s.\n", strList(itemEnc))
	rootEnc := seqOf("Store.writeRoots", func(n ast.Node) string {
		if ce, ok := n.(*ast.CallExpr); ok {
			c := selChain(ce.Fun)
			if c == "b.Write" {
				return selChain(ce.Args[0])
			}
			if c == "binary.Write" {
				return selChain(ce.Args[1]) + ":" + selChain(ce.Args[2])
			}
		}
		return ""
	})
	w("Definition g_root_enc : list string := %s.\n\n", strList(rootEnc))

	// ---- call graph
	fns := map[string]*fn{}
	get := func(n string) *fn {
		if f, ok := fns[n]; ok {
			return f
		}
		f := &fn{name: n, calls: map[string]bool{}, under: map[string]bool{}, dynSigs: map[string]bool{}, dynUnderS: map[string]bool{}, acq: map[string]bool{}, heldCalls: map[string]map[string]bool{}, edges: map[[2]string]bool{}}
		fns[n] = f
		return f
	}
	analyse := func(prefix string, info *types.Info, files []*ast.File, selfPath string) {
		for _, f := range files {
			for _, d := range f.Decls {
				fd, ok := d.(*ast.FuncDecl)
				if !ok || fd.Body == nil {
					continue
				}
				o, _ := info.Defs[fd.Name].(*types.Func)
				if o == nil {
					continue
				}
				cur := get(prefix + funcName(o))
				callPos := map[*ast.Ident]bool{}
				depth := 0
				deferred := false
				var held []string // names of the locks held at this point (linear scan)
				lockName := func(c string) string {
					// "t.rootLock.Lock" -> "rootLock"; "s.m.RLock" -> "Store.m"; "freeNodeLock.Lock" -> "freeNodeLock"
					parts := strings.Split(c, ".")
					if len(parts) < 2 {
						return c
					}
					n := parts[len(parts)-2]
					if n == "m" {
						return "Store.m"
					}
					return n
				}
				var visit func(n ast.Node) bool
				visit = func(n ast.Node) bool {
					switch x := n.(type) {
					case *ast.DeferStmt:
						c := selChain(x.Call.Fun)
						if strings.HasSuffix(c, ".Unlock") || strings.HasSuffix(c, ".RUnlock") {
							deferred = true
							return false
						}
					case *ast.CallExpr:
						c := selChain(x.Fun)
						last := c[strings.LastIndex(c, ".")+1:]
						switch last {
						case "Lock", "RLock":
							cur.locks = true
							depth++
							ln := lockName(c)
							cur.acq[ln] = true
							for _, h := range held {
								if h != ln {
									cur.edges[[2]string{h, ln}] = true
								}
							}
							held = append(held, ln)
						case "Unlock", "RUnlock":
							if depth > 0 {
								depth--
							}
							ln := lockName(c)
							for q := len(held) - 1; q >= 0; q-- {
								if held[q] == ln {
									held = append(held[:q:q], held[q+1:]...)
									break
								}
							}
						case "WriteAt", "Truncate":
							cur.writes = true
							if depth > 0 || deferred {
								cur.ioUnder = true
							}
						case "ReadAt", "Stat":
							cur.reads = true
							if depth > 0 || deferred {
								cur.ioUnder = true
							}
						}
						heldNames := append([]string{}, heldList(&cur.acq, held, deferred)...)
						held := depth > 0 || (deferred && cur.locks)
						// resolve the callee
						var id *ast.Ident
						switch fx := x.Fun.(type) {
						case *ast.Ident:
							id = fx
						case *ast.SelectorExpr:
							id = fx.Sel
						}
						resolved := false
						if id != nil {
							callPos[id] = true
							if fo, ok := info.Uses[id].(*types.Func); ok && fo.Pkg() != nil {
								switch fo.Pkg().Path() {
								case selfPath:
									cur.calls[prefix+funcName(fo)] = true
									if held {
										cur.under[prefix+funcName(fo)] = true
									}
									for _, h := range heldNames {
										if cur.heldCalls[h] == nil {
											cur.heldCalls[h] = map[string]bool{}
										}
										cur.heldCalls[h][prefix+funcName(fo)] = true
									}
									resolved = true
								case gk:
									cur.calls[funcName(fo)] = true
									resolved = true
								case "encoding/json":
									if strings.HasPrefix(fo.Name(), "Marshal") {
										cur.calls["<json.Marshal>"] = true
									}
									if strings.HasPrefix(fo.Name(), "Unmarshal") {
										cur.calls["<json.Unmarshal>"] = true
									}
									resolved = true
								default:
									resolved = true
								}
							} else if _, ok := info.Uses[id].(*types.Builtin); ok {
								resolved = true
							} else if _, ok := info.Uses[id].(*types.TypeName); ok {
								resolved = true // conversion
							} else if v, ok := info.Uses[id].(*types.Var); ok {
								// a call through a function value
								if _, isSig := v.Type().Underlying().(*types.Signature); isSig {
									tn := ""
									if nt, ok := v.Type().(*types.Named); ok {
										tn = nt.Obj().Name()
									}
									if strings.Contains(c, "callbacks.") {
										cur.callback = true
									} else if tn == "ItemVisitor" || tn == "ItemVisitorEx" || tn == "KeyCompare" || tn == "BlockMangler" || tn == "ItemCallback" {
										cur.user = true
										if held {
											cur.userUnder = true
										}
									} else {
										cur.dynamic = true
										sg := sigKey(v.Type())
										cur.dynSigs[sg] = true
										if held {
											cur.dynUnder = true
											cur.dynUnderS[sg] = true
										}
									}
									resolved = true
								}
							}
						}
						if !resolved {
							if _, ok := x.Fun.(*ast.FuncLit); ok {
								// immediately invoked literal: its body is visited as part of this function
							} else if tv, ok := info.Types[x.Fun]; ok && tv.IsType() {
								// conversion
							} else {
								cur.dynamic = true
								sg := "?"
								if tv, ok := info.Types[x.Fun]; ok && tv.Type != nil {
									sg = sigKey(tv.Type)
								}
								cur.dynSigs[sg] = true
								if held {
									cur.dynUnder = true
									cur.dynUnderS[sg] = true
								}
							}
						}
					}
					return true
				}
				ast.Inspect(fd.Body, visit)
				// every function literal is also a function of its own whose value is taken
				// (it may be invoked elsewhere, e.g. under a lock, through a function value)
				nlit := 0
				outer := cur
				ast.Inspect(fd.Body, func(n ast.Node) bool {
					if fl, ok := n.(*ast.FuncLit); ok {
						nlit++
						lit := get(fmt.Sprintf("<lit:%s#%d>", outer.name, nlit))
						lit.addrTaken = true
						if tv, ok := info.Types[fl]; ok && tv.Type != nil {
							lit.sig = sigKey(tv.Type)
						}
						cur = lit
						depth, deferred = 0, false
						held = nil
						ast.Inspect(fl.Body, visit)
						cur = outer
					}
					return true
				})
				// functions whose value is taken (not called)
				ast.Inspect(fd.Body, func(n ast.Node) bool {
					if id, ok := n.(*ast.Ident); ok && !callPos[id] {
						if fo, ok := info.Uses[id].(*types.Func); ok && fo.Pkg() != nil && fo.Pkg().Path() == selfPath {
							g := get(prefix + funcName(fo))
							g.addrTaken = true
							g.sig = sigKey(fo.Type())
						}
					}
					return true
				})
			}
		}
	}
	analyse("", info, files, gk)
	// tools/view (package main): calls into gkvlite are resolved through the source importer
	if vdir := filepath.Join(repo, "tools", "view"); dirExists(vdir) {
		if vp, vinfo, vfiles := loadPkg(vdir, "view", imp); vp != nil {
			analyse("view.", vinfo, vfiles, "view")
		}
	}
	// pseudo nodes: json -> (Un)MarshalJSON methods; dynamic calls -> address-taken functions
	jm, ju := get("<json.Marshal>"), get("<json.Unmarshal>")
	for n := range fns {
		if strings.HasSuffix(n, ".MarshalJSON") {
			jm.calls[n] = true
		}
		if strings.HasSuffix(n, ".UnmarshalJSON") {
			ju.calls[n] = true
		}
	}
	// a call through a function value of signature S may reach every function or literal of
	// signature S whose value is taken somewhere in the package
	var cur0 []*fn
	for _, f := range fns {
		cur0 = append(cur0, f)
	}
	for _, f := range cur0 {
		for sg := range f.dynSigs {
			d := get("<dynamic:" + sg + ">")
			f.calls[d.name] = true
			for n, g := range fns {
				if g.addrTaken && g.sig == sg {
					d.calls[n] = true
				}
			}
		}
		for sg := range f.dynUnderS {
			f.under["<dynamic:"+sg+">"] = true
		}
	}
	// callees without a body in the package (interface methods such as StoreFile.Stat or
	// ByteAble.ToBa) become leaf nodes
	for _, f := range cur0 {
		for c := range f.calls {
			if _, ok := fns[c]; !ok {
				get(c)
			}
		}
	}
	var names []string
	for n := range fns {
		names = append(names, n)
	}
	sort.Strings(names)
	keys := func(m map[string]bool) []string {
		var k []string
		for n := range m {
			k = append(k, n)
		}
		sort.Strings(k)
		return k
	}
	b := func(x bool) string {
		if x {
			return "true"
		}
		return "false"
	}
	w("(* name, callees, callees invoked while a lock is held, writes file, reads file, takes lock,\n   calls an (internal) function value, file I/O under lock, calls a StoreCallbacks field,\n   calls a user-supplied function (visitor, comparator, block mangler), ... while a lock is held *)\n")
	w("Record gfn := mkGfn { g_name : string; g_calls : list string; g_under : list string; g_writes : bool; g_reads : bool; g_locks : bool; g_dynamic : bool; g_io_under : bool; g_callback : bool; g_user : bool; g_user_under : bool }.\n")
	w("Definition g_funcs : list gfn := [\n")
	for i, n := range names {
		f := fns[n]
		sep := ";"
		if i == len(names)-1 {
			sep = ""
		}
		w("  mkGfn %s %s %s %s %s %s %s %s %s %s %s%s\n", strconv.Quote(n), strList(keys(f.calls)), strList(keys(f.under)), b(f.writes), b(f.reads), b(f.locks), b(f.dynamic), b(f.ioUnder), b(f.callback), b(f.user), b(f.userUnder), sep)
	}
	w("].\n\n")
	// untrusted closure certificates (checked in Coq): reachable sets
	reach := func(starts []string, edges func(*fn) []string) []string {
		seen := map[string]bool{}
		var stack []string
		for _, s := range starts {
			if _, ok := fns[s]; ok && !seen[s] {
				seen[s] = true
				stack = append(stack, s)
			}
		}
		for len(stack) > 0 {
			n := stack[len(stack)-1]
			stack = stack[:len(stack)-1]
			for _, c := range edges(fns[n]) {
				if _, ok := fns[c]; ok && !seen[c] {
					seen[c] = true
					stack = append(stack, c)
				}
			}
		}
		return keys(seen)
	}
	allCalls := func(f *fn) []string { return keys(f.calls) }
	var all []string
	all = append(all, names...)
	// certificate for the read-only entry points: computed for the entry list kept in CallGraph.v;
	// the translator simply emits, for every function, its reachable set (small graph)
	w("Definition g_reach : list (string * list string) := [\n")
	for i, n := range names {
		sep := ";"
		if i == len(names)-1 {
			sep = ""
		}
		w("  (%s, %s)%s\n", strconv.Quote(n), strList(reach([]string{n}, allCalls)), sep)
	}
	w("].\n")
	_ = all
	// lock order: A -> B when B is acquired (directly, or somewhere below a callee) while A is held
	acqStar := map[string]map[string]bool{}
	for _, n := range names {
		set := map[string]bool{}
		for _, m := range reach([]string{n}, allCalls) {
			for l := range fns[m].acq {
				set[l] = true
			}
		}
		acqStar[n] = set
	}
	order := map[[2]string]bool{}
	for _, n := range names {
		f := fns[n]
		for e := range f.edges {
			order[e] = true
		}
		for a, callees := range f.heldCalls {
			for g := range callees {
				for b := range acqStar[g] {
					if a != b {
						order[[2]string{a, b}] = true
					}
				}
			}
		}
	}
	var oe []string
	for e := range order {
		oe = append(oe, fmt.Sprintf("(%s, %s)", strconv.Quote(e[0]), strconv.Quote(e[1])))
	}
	sort.Strings(oe)
	fmt.Fprintf(&sb, "\n(* lock order: (A, B) = lock B is acquired, directly or below a callee, while lock A is held *)\nDefinition g_lock_order : list (string * string) := [%s].\n", strings.Join(oe, "; "))
	emitCode(w, info, files)
	fmt.Print(sb.String())
}

// heldList: the locks held now; a deferred unlock keeps every lock the function has acquired so far.
func heldList(acq *map[string]bool, held []string, deferred bool) []string {
	if !deferred {
		return held
	}
	seen := map[string]bool{}
	var r []string
	for _, h := range held {
		if !seen[h] {
			seen[h] = true
			r = append(r, h)
		}
	}
	for a := range *acq {
		if !seen[a] {
			seen[a] = true
			r = append(r, a)
		}
	}
	sort.Strings(r)
	return r
}

func dirExists(p string) bool {
	st, err := os.Stat(p)
	return err == nil && st.IsDir()
}
