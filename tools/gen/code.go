package main

// code.go — translation of the function bodies of the gkvlite package into the
// small statement / expression language of coq/GExpr.v (gexpr, gstmt).  Every
// function and every function literal becomes one entry of g_code; what the
// language does not cover is kept as an opaque node carrying its source text.
// The Coq side (Decisions.v) evaluates the translated decision conditions and
// the translated bodies of the small pure functions and proves them equal to
// the hand-written model's decisions.

import (
	"bytes"
	"fmt"
	"go/ast"
	"go/constant"
	"go/printer"
	"go/token"
	"go/types"
	"sort"
	"strconv"
	"strings"
)

func cq(s string) string {
	s = strings.ReplaceAll(s, "\n", " ")
	s = strings.ReplaceAll(s, "\t", " ")
	return `"` + strings.ReplaceAll(s, `"`, `""`) + `"`
}

type coder struct {
	info *types.Info
	lits map[string][]string // function literals found: name -> rendered body
	cur  string
	nlit int
}

func (c *coder) src(n ast.Node) string {
	var b bytes.Buffer
	printer.Fprint(&b, fset, n)
	return b.String()
}

// path renders x.y.z (identifiers and selectors only)
func path(e ast.Expr) (string, bool) {
	switch x := e.(type) {
	case *ast.Ident:
		return x.Name, true
	case *ast.SelectorExpr:
		if p, ok := path(x.X); ok {
			return p + "." + x.Sel.Name, true
		}
	case *ast.ParenExpr:
		return path(x.X)
	}
	return "", false
}

func (c *coder) exprs(es []ast.Expr) string {
	var p []string
	for _, e := range es {
		p = append(p, c.expr(e))
	}
	return "[" + strings.Join(p, "; ") + "]"
}

func (c *coder) expr(e ast.Expr) string {
	if e == nil {
		return "GNil"
	}
	// integer constants (named or literal) become numbers
	if tv, ok := c.info.Types[e]; ok && tv.Value != nil && tv.Value.Kind() == constant.Int {
		if v, ok := constant.Int64Val(tv.Value); ok {
			if v < 0 {
				return fmt.Sprintf("(GInt (%d))", v)
			}
			return fmt.Sprintf("(GInt %d)", v)
		}
	}
	switch x := e.(type) {
	case *ast.ParenExpr:
		return c.expr(x.X)
	case *ast.Ident:
		if x.Name == "nil" {
			return "GNil"
		}
		return "(GVar " + cq(x.Name) + ")"
	case *ast.SelectorExpr:
		if p, ok := path(x); ok {
			return "(GVar " + cq(p) + ")"
		}
		return "(GSel " + c.expr(x.X) + " " + cq(x.Sel.Name) + ")"
	case *ast.BasicLit:
		return "(GLit " + cq(x.Value) + ")"
	case *ast.BinaryExpr:
		return "(GBin " + cq(x.Op.String()) + " " + c.expr(x.X) + " " + c.expr(x.Y) + ")"
	case *ast.UnaryExpr:
		return "(GUn " + cq(x.Op.String()) + " " + c.expr(x.X) + ")"
	case *ast.StarExpr:
		return "(GUn " + cq("*") + " " + c.expr(x.X) + ")"
	case *ast.CallExpr:
		fn := ""
		if p, ok := path(x.Fun); ok {
			fn = p
		} else {
			fn = c.src(x.Fun)
		}
		return "(GCall " + cq(fn) + " " + c.exprs(x.Args) + ")"
	case *ast.IndexExpr:
		return "(GCall " + cq("[]") + " " + c.exprs([]ast.Expr{x.X, x.Index}) + ")"
	case *ast.SliceExpr:
		return "(GCall " + cq("[:]") + " " + c.exprs([]ast.Expr{x.X, x.Low, x.High}) + ")"
	case *ast.FuncLit:
		c.nlit++
		name := fmt.Sprintf("<lit:%s#%d>", c.cur, c.nlit)
		c.lits[name] = []string{c.block(x.Body.List)}
		return "(GFun " + cq(name) + ")"
	case *ast.CompositeLit:
		return "(GOther " + cq(c.src(x)) + ")"
	case *ast.TypeAssertExpr:
		return "(GOther " + cq(c.src(x)) + ")"
	}
	return "(GOther " + cq(c.src(e)) + ")"
}

func (c *coder) block(ss []ast.Stmt) string {
	var p []string
	for _, s := range ss {
		p = append(p, c.stmt(s))
	}
	return "[" + strings.Join(p, ";\n    ") + "]"
}

func (c *coder) optStmt(s ast.Stmt) string {
	if s == nil {
		return "[]"
	}
	return "[" + c.stmt(s) + "]"
}

func (c *coder) stmt(s ast.Stmt) string {
	switch x := s.(type) {
	case *ast.AssignStmt:
		return "SAssign " + c.exprs(x.Lhs) + " " + cq(x.Tok.String()) + " " + c.exprs(x.Rhs)
	case *ast.IncDecStmt:
		return "SIncDec " + c.expr(x.X) + " " + map[bool]string{true: "true", false: "false"}[x.Tok == token.INC]
	case *ast.IfStmt:
		els := "[]"
		if x.Else != nil {
			switch e := x.Else.(type) {
			case *ast.BlockStmt:
				els = c.block(e.List)
			default:
				els = "[" + c.stmt(e) + "]"
			}
		}
		return "SIf " + c.optStmt(x.Init) + " " + c.expr(x.Cond) + " " + c.block(x.Body.List) + " " + els
	case *ast.ForStmt:
		cond := "None"
		if x.Cond != nil {
			cond = "(Some " + c.expr(x.Cond) + ")"
		}
		return "SFor " + c.optStmt(x.Init) + " " + cond + " " + c.optStmt(x.Post) + " " + c.block(x.Body.List)
	case *ast.RangeStmt:
		return "SRange " + c.expr(x.Key) + " " + c.expr(x.Value) + " " + c.expr(x.X) + " " + c.block(x.Body.List)
	case *ast.ReturnStmt:
		return "SReturn " + c.exprs(x.Results)
	case *ast.ExprStmt:
		return "SExpr " + c.expr(x.X)
	case *ast.DeferStmt:
		return "SDefer " + c.expr(x.Call)
	case *ast.GoStmt:
		return "SGo " + c.expr(x.Call)
	case *ast.BlockStmt:
		return "SBlock " + c.block(x.List)
	case *ast.DeclStmt:
		if gd, ok := x.Decl.(*ast.GenDecl); ok && gd.Tok == token.VAR {
			var p []string
			for _, sp := range gd.Specs {
				vs := sp.(*ast.ValueSpec)
				for i, n := range vs.Names {
					init := "None"
					if i < len(vs.Values) {
						init = "(Some " + c.expr(vs.Values[i]) + ")"
					}
					p = append(p, "SVar "+cq(n.Name)+" "+init)
				}
			}
			if len(p) == 1 {
				return p[0]
			}
			return "SBlock [" + strings.Join(p, "; ") + "]"
		}
		return "SOther " + cq(c.src(x))
	case *ast.SwitchStmt:
		tag := "GNil"
		if x.Tag != nil {
			tag = c.expr(x.Tag)
		}
		var cases []string
		for _, cc := range x.Body.List {
			cl := cc.(*ast.CaseClause)
			cases = append(cases, "("+c.exprs(cl.List)+", "+c.block(cl.Body)+")")
		}
		return "SSwitch " + c.optStmt(x.Init) + " " + tag + " [" + strings.Join(cases, "; ") + "]"
	case *ast.BranchStmt:
		return "SBranch " + cq(x.Tok.String())
	case *ast.EmptyStmt:
		return "SBlock []"
	}
	return "SOther " + cq(c.src(s))
}

// emitCode writes g_code: (name, body) for every function and function literal of the package.
func emitCode(w func(string, ...interface{}), info *types.Info, files []*ast.File) {
	c := &coder{info: info, lits: map[string][]string{}}
	entries := map[string]string{}
	for _, f := range files {
		for _, d := range f.Decls {
			fd, ok := d.(*ast.FuncDecl)
			if !ok || fd.Body == nil {
				continue
			}
			obj, _ := info.Defs[fd.Name].(*types.Func)
			if obj == nil {
				continue
			}
			name := funcName(obj)
			c.cur, c.nlit = name, 0
			entries[name] = c.block(fd.Body.List)
		}
	}
	for n, b := range c.lits {
		entries[n] = b[0]
	}
	var names []string
	for n := range entries {
		names = append(names, n)
	}
	sort.Strings(names)
	w("\n(* the function bodies, translated statement by statement (GExpr.v); opaque nodes keep their source text *)\n")
	w("Definition g_code : list (string * list gstmt) := [\n")
	for i, n := range names {
		sep := ";"
		if i == len(names)-1 {
			sep = ""
		}
		w("  (%s,\n    %s)%s\n", strconv.Quote(n), entries[n], sep)
	}
	w("].\n")
}
