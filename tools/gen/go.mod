module verifgen

go 1.21
