#!/usr/bin/env python3
"""Writes /verif/MANIFEST.json from the table below (kept in one place so that
the manifest always matches what ./check can actually run)."""
import json, os, sys

V = os.path.dirname(os.path.dirname(os.path.abspath(__file__)))

# property -> (built?, technique, level text, level note, design ref)
P = {
 "C01": ("Coq proof: treap model (split/join/union/insert/delete/lookup/min/max/totals) refines a strictly sorted association list, lifted over operation lists (Store.run); correspondence: extracted model + sorted-map reference vs implementation on seeded histories; the decisions, call orders and call sites of the source that the model rests on are proved from function bodies regenerated from the Go source on every run (Dec*.v)",
         "Theorems (Props/C01.v) hold for every comparator satisfying the laws, every tree and every operation list; the model is tied to the Go code by running the extracted Store.run and the implementation on the same histories (every return value compared).",
         "Model is hand-written Gallina following treap.go/collection.go; the cache (lazy loading, eviction) is exercised on the implementation, not modelled in Store.v; toBa/*Any wrappers not modelled."),
 "C02": ("Coq proof: the byte-level store DStore (Flush = appended records, re-open = independent decoder, FlushRevert = backward scan + truncate) refines the abstract store with a stack of flushed states over whole histories (dstore_refines_store_exact), plus the one-step flush/decode round trip; tie: byte-exact (length + MD5) comparison of the predicted file with the implementation's file after every Flush / FlushRevert / re-open, a fresh Store on a copy of the image after every step vs the reference, and the boolean hypothesis history_ok evaluated on every generated history; the decisions, call orders and call sites of the source that the model rests on are proved from function bodies regenerated from the Go source on every run (Dec*.v)",
         "Theorem over all operation lists meeting a boolean side condition that is evaluated on every run (hypothesis monitoring); every step of every history re-opens a copy of the image.",
         "encoding/json modelled for canonical output and ASCII names (names that are not valid UTF-8: known limitation D6); in-memory StoreFile."),
 "C03": ("Coq proof: backward root scan finds the greatest valid root end; any prefix/cut/junk of a disciplined append sequence recovers the previous root; correspondence: crash images rebuilt from the implementation's write log (every write boundary, byte cuts, junk) re-opened and compared; the decisions, call orders and call sites of the source that the model rests on are proved from function bodies regenerated from the Go source on every run (Dec*.v)",
         "Theorem quantifies over all files, all append sequences of the stated shape, all cut points and junk; the implementation's write log is checked against the discipline and thousands of crash images per run are opened.",
         "Go's encoding/json accepts more than the model's JSON decoder; junk that only Go accepts as a root is outside the model."),
 "C04": ("Coq proof: multi-handle store model MStore (original + snapshots, snapshots of snapshots, closes in any order): what an open snapshot answers is a function of the state at its creation for every operation list (snapshot_isolated), mutations through it are refused; version/recycling protocol model (Proto.v: a pinned version's cells are never freed and its tree never changes); tie: extracted MStore.mrun vs implementation on every history, contents of every open snapshot after every step, heap-dump invariants; the decisions, call orders and call sites of the source that the model rests on are proved from function bodies regenerated from the Go source on every run (Dec*.v)",
         "Isolation proved for every operation list on the multi-handle model and for every action sequence of the protocol model; every history step re-reads the original and every open snapshot against frozen reference maps and the extracted model.",
         "FlushRevert on the original while snapshots are open is outside the property's listed operations (it truncates bytes a snapshot may need) and is not generated."),
 "C05": ("Coq proof: protocol invariant over every interleaving of atomic pin/build/cas/unpin actions (Proto.v) and lock-order facts over the regenerated call graph; tie: concurrent runs (1 mutator, 1 flusher, N readers) with reader results checked against the published versions",
         "Partial: the theorem is about atomic actions at lock granularity; Go memory-model effects inside a phase are only reached by stress runs (testing).",
         "Go scheduler, memory model, unsynchronised cache fields are outside the model; race detector is not an oracle."),
 "C06": ("Coq proof: visit (ascending/descending, early stop, depth) delivers exactly the first j+1 items of the requested range of the sorted list with true depths; differential: delivered sequences vs reference and model, depths vs the implementation's own tree; the decisions, call orders and call sites of the source that the model rests on are proved from function bodies regenerated from the Go source on every run (Dec*.v)",
         "Theorem covers every tree, comparator, target, stop position; ties to code via extracted model on seeded contents x targets x modes x stops x cache states.",
         "In-visit eviction/re-fetch is exercised on the implementation (cache states), not in the pure visit model."),
 "C07": ("Coq proof: Store.Flush on bytes with ONE failing WriteAt call at any call number and any torn length (DiskFault.flush_fault): it fails, damages nothing durable, leaves contents and representation intact, and the retried Flush produces exactly the file of a Flush that never failed; over whole histories failed Flush calls anywhere are invisible to every completed call (DFaultRefine: C02's refinement generalised to dirty stores; the two excluded situations are proved necessary and are the known finding / the documented no-roots error); a key-only lookup with a failing ReadAt and its retry (LazyFault); a failed mutation restores the reclaim marks (Proto.v); order of effects in the source regenerated on every run (Decisions.v). Tie: fault enumeration on the implementation — every file call k of chosen API calls made to fail (writes torn) — with byte-exact comparison of the file after every failed and completed Flush against the fault model, exact ReadAt lists of failed lookups and their retries against LazyFault, and the model-free oracles for all other calls",
         "Theorems for every call number, torn length and history (side conditions boolean, evaluated on the runs); for each enumerated fault on the implementation: error returned, no panic/hang, durable bytes unchanged, contents equal pre-fault reference, fresh Store on the image shows the last Flush, heap-dump invariant (no stale reclaim marks), fault-free continuation matches the reference, file bytes / read lists equal to the fault models.",
         "Known findings: Exist/ExistAny cannot report errors; FlushRevert right after a partially written failed Flush. Fault positions are enumerated per call, not per history exhaustively in quick tier."),
 "C08": ("Coq proof: the modelled backward scan / revert terminates for every file (fuel bound proved) and returns the previous valid root; history-level refinement of the byte-level store (runs of reverts, also past the first flush); the necessary side condition (no committed value that is itself a position-consistent root record) is proved necessary by a refutation witness, replayed on the implementation (known finding); differential on histories with 0..many flushes and runs of reverts, byte-exact file comparison, watchdog for termination; the decisions, call orders and call sites of the source that the model rests on are proved from function bodies regenerated from the Go source on every run (Dec*.v)",
         "Termination and walk-back proved on the scan model for all files and over whole histories; histories compare contents, names, file length, file bytes and a re-open of the image after every revert.",
         "The scan model follows store.go readRootsScan/scanBackwardsForMagicEnd byte for byte on lists of bytes. Known finding value-is-valid-root-record (format has no escaping/checksum)."),
 "C09": ("Coq proof over the call graph regenerated from the Go source on every run (closure certificate checked in Coq: no path from read-only entry points to a writer; exact set of write sites) + monitor on every WriteAt/Truncate the implementation issues",
         "Static theorem is re-checked against the current source on every run; the write/truncate log of every history of every check is checked against the append discipline.",
         "Translator (go/parser+go/types, over-approximating call graph) is trusted; CopyTo destination writes excluded statically, covered dynamically."),
 "C10": ("Coq proof: proto_safe — no cell of a live version's tree is ever freed, for every sequence of valid protocol actions (Proto.v, std++); tie: model-free heap-dump invariant after every step + contents after forced reuse; the decisions, call orders and call sites of the source that the model rests on are proved from function bodies regenerated from the Go source on every run (Dec*.v)",
         "Invariant over arbitrary action sequences covers every order of acquire/release; implementation checked after every step for freed-but-reachable nodes and stale marks, with unrelated allocation forcing reuse.",
         "Protocol model abstracts nodes to ids; its actions are matched to the code by the heap-dump monitors, not by proof."),
 "C11": ("Coq proof: copy = fold of insert over the ascending visit yields the same sorted list, shape and aggregates (uses C06+C01 lemmas); on bytes, CopyTo as the history of calls it makes on the destination store (CopyRun: all calls succeed, the destination holds exactly the source's collections and items, nothing left unflushed, the byte-level store agrees); flush schedule and structure regenerated from the source; tie: the destination file of every copy compared byte for byte with the model's, sources (writable, snapshot, re-opened) x flushEvery values, destination decoded by the Coq decoder (each key once), one transient destination fault at every call position",
         "Theorems for every source meeting src_ok and every flushEvery; destination contents, re-open, compactness and file bytes checked per case.",
         "CopyTo's interleaved EvictSomeItems/Flush calls are exercised on the implementation."),
 "C12": ("Coq proof: collection-map laws of Store.step (new empty, existing keeps items, remove+create empty, names sorted, others untouched) + differential on histories with flushes and re-opens; the decisions, call orders and call sites of the source that the model rests on are proved from function bodies regenerated from the Go source on every run (Dec*.v)",
         "Laws proved on the store model; names and full contents compared after every step and after re-open of the image.",
         "Collection names that are not valid UTF-8 are a known limitation of the JSON root record (D6)."),
 "C13": ("Coq proof: bst and exact aggregates preserved by every operation, heap order preserved unless a key is overwritten with a lower priority (counter-example proved), treap_unique (shape determined by contents when priorities are distinct); tie: implementation's own tree checked after every step, depths vs model, exhaustive insertion orders x rankings for small key sets; the decisions, call orders and call sites of the source that the model rests on are proved from function bodies regenerated from the Go source on every run (Dec*.v)",
         "Invariants proved for all trees; canonical shape theorem; implementation's cached tree and persisted records checked.",
         "Persisted aggregates are checked by the extracted decoder on the implementation's files."),
 "C14": ("Coq proof: codec round trips (item, node, root record) and layout constants regenerated from the Go source equal the v4 layout; tie: the extracted Coq decoder (no code shared with gkvlite) decodes every file the implementation flushes and the result is compared with the reference state",
         "Layout obligation re-checked against the source on every run; decoder runs on real files of all key/value sizes and name sets.",
         "JSON of the root record modelled for gkvlite's canonical output."),
 "C15": ("Coq proof: reference-count bookkeeping model (count = owners) + callback-log oracle: per-item counts never negative, positive while reachable or handed out, zero after everything is closed (the callbacks are a recycling allocator: buffers of items whose count reached zero are overwritten at once, so a use after release changes a result; a deterministic parked two-reader reload scenario); the decisions, call orders and call sites of the source that the model rests on are proved from function bodies regenerated from the Go source on every run (Dec*.v)",
         "Counts tracked through the real callbacks on seeded histories incl. snapshots and closes in varying order.",
         "Known finding: Get/GetAny keep a reference the caller cannot release (probed separately)."),
 "C16": ("Coq proof: block arithmetic and the two-pass block visit / random visit deliver a permutation of the items for every n; tie: exhaustive small n and sizes around k*1024 on the implementation; the decisions, call orders and call sites of the source that the model rests on are proved from function bodies regenerated from the Go source on every run (Dec*.v)",
         "All n in 0..70 and around 1024/2048/3072 per run (thorough: 0..300, k<=5); every item exactly once under five block manglers.",
         "math/rand's shuffle is taken as an arbitrary permutation."),
 "C17": ("the C01/C02/C06/C14 correspondences re-run under every subset (quick: none, all, each alone) of behaviourally neutral callbacks; Coq: the models are independent of the callbacks by construction (neutrality = identity on the modelled observables); the decisions, call orders and call sites of the source that the model rests on are proved from function bodies regenerated from the Go source on every run (Dec*.v)",
         "Same histories, same expected observations, with callbacks installed; chunked value reader/writer.",
         "Neutrality of the harness's callbacks is by inspection."),
 "C18": ("Coq proof: iterator handshake LTS (consumer/producer/two rendezvous channels) terminates with the producer exited for every n, command list and schedule; tie: goroutine exit and pin release observed on the implementation for all stop positions; nested calls in visitors with watchdog; the decisions, call orders and call sites of the source that the model rests on are proved from function bodies regenerated from the Go source on every run (Dec*.v)",
         "Partial: the LTS abstracts Go channels and scheduling; goroutine exit is observed, not proved, on the implementation.",
         "Go runtime semantics of channels assumed as in the LTS."),
 "C19": ("Coq proof over the read-event models: NewStore reads the root record only; GetItem/MinItem/MaxItem/visits (Lazy.v) and SetItem/Delete (LazyMut.v: union/split/join/numInfo instrumented with every record they touch, proved to compute the same trees) read node records, item headers and keys only, for any cache state; the reload rule of itemLoc.read regenerated from the source (Decisions.v). whole runs of calls with a memory of what is loaded and what visits evicted (LazySeq/LazySeq2) and with Store.Flush inside the run (LazySeq3: the file the run writes, offsets of the records it flushes; a Flush reads nothing, keeps everything in memory, is invisible to the next lookup's reads; no key-only call of such a run reads a value byte). Tie: the EXACT list of ReadAt calls of every NewStore, of the first lookup, visit, SetItem or Delete after it, and of every call of every run of lookups, mutations, visits, Len, GetTotals and Flush on one collection after a re-open equals the model's (the file after each Flush of a run compared by length and MD5); model-free oracle: every ReadAt of every key-only call intersected with all value byte ranges",
         "Theorems for every tree, key, comparator and cache state; every read of every key-only call in every history is checked; exact read lists compared ~5,000 times per run.",
         "Value ranges derived from the implementation's own write log."),
}

BUILT = set(sys.argv[1:]) if len(sys.argv) > 1 else None

def main():
    built = BUILT
    if built is None:
        built = set(json.load(open(os.path.join(V, "tools", "built.json"))))
    checks, na = [], []
    for pid in sorted(P):
        tech, text, note = P[pid]
        if pid in built:
            checks.append({
                "property_id": pid,
                "quick_cmd": "./check %s quick" % pid,
                "thorough_cmd": "./check %s thorough" % pid,
                "evidence_file": "/verif/evidence/%s.json" % pid,
                "replay_cmd_template": "./check %s --replay {path}" % pid,
                "engine": "coq+harness",
                "level_claimed": {"category": "proof", "text": text, "design_ref": "DESIGN.md section 5, " + pid},
                "level_note": note,
                "technique": tech,
            })
        else:
            na.append({"property_id": pid, "reason": "check under construction in this session (machine-checked proof in Coq applies; see DESIGN.md section 5); not yet registered"})
    m = {
        "version": 1,
        "setup_cmd": "./setup.sh",
        "hooks": {
            "guard": "verif",
            "enable": "go build -tags verif (harness module with replace github.com/cbehopkins/gkvlite => /repo)",
            "baseline_off_cmd": "cd /repo && GOFLAGS=-mod=mod GOPROXY=off GOSUMDB=off GOTOOLCHAIN=local go test -vet=off -count=1 -timeout 25m ./...",
            "source_commits": ["f29ec69", "2a67cf2", "068a57f", "b3c009d"],
            "add_only": True,
        },
        "engines": [
            {"name": "coq", "path": "/verif/coq", "serves_properties": sorted(P), "kind_free_text": "Coq 8.16.1 development: executable Gallina models + theorems; Generated.v regenerated from /repo by tools/gen on every run"},
            {"name": "runner", "path": "/verif/runner", "serves_properties": sorted(P), "kind_free_text": "OCaml extraction of the models (ExtrOcamlBasic) + driver"},
            {"name": "harness", "path": "/verif/harness", "serves_properties": sorted(P), "kind_free_text": "Go correspondence harness (-tags verif) with instrumented StoreFile, generators, reference oracle, shrinker"},
        ],
        "checks": checks,
        "not_applicable": na,
        "notes": "All 19 properties are decided by machine-checked proof in Coq over hand-written executable models tied to the code by a per-run correspondence check; see DESIGN.md. Known findings: known_findings.txt.",
    }
    json.dump(m, open(os.path.join(V, "MANIFEST.json"), "w"), indent=1)
    print("MANIFEST.json:", len(checks), "checks,", len(na), "not yet registered")

main()
