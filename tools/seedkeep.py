#!/usr/bin/env python3
"""tools/seedkeep.py <src_dir> <name> <property> [checks...]
Validates a seeded change (tools/seedtest.sh), runs the checks against it and
stores it under /verif/seeded/<name>/ with meta.json (which checks caught it)."""
import json, os, re, shutil, subprocess, sys
src, name, prop = sys.argv[1:4]
checks = sys.argv[4:] or [prop]
out = subprocess.run(["/verif/tools/seedtest.sh", src, name] + checks, stdout=subprocess.PIPE, stderr=subprocess.STDOUT, text=True).stdout
print(out, end="")
m = re.search(r"suite-with-change=(\w+) demo-with-change=(\w+) demo-without=(\w+)", out)
valid = bool(m) and m.groups() == ("green", "FAIL", "pass")
res = {}
for c, rc, v, rest in re.findall(r"^\s+(C\d+): exit=(\d+) violations=(\d+)(.*)$", out, flags=re.M):
    res[c] = {"exit": int(rc), "violations": int(v), "no_failing_input": "no-failing-input-found" in rest}
d = os.path.join("/verif/seeded", name)
os.makedirs(d, exist_ok=True)
try:    # keep the results of checks run earlier against the same patch
    old = json.load(open(os.path.join(d, "meta.json")))
    if open(os.path.join(d, "patch.diff")).read() == open(os.path.join(src, "patch.diff")).read():
        res = {**old.get("checks", {}), **res}
except Exception:
    pass
shutil.copy(os.path.join(src, "patch.diff"), d)
shutil.copy(os.path.join(src, "demo_test.go"), os.path.join(d, "demo_test.go"))
notes = open(os.path.join(src, "notes.md")).read() if os.path.exists(os.path.join(src, "notes.md")) else ""
open(os.path.join(d, "notes.md"), "w").write(notes)
meta = {"name": name, "breaks_property": prop, "validated": valid,
        "validation": dict(zip(("suite_with_change", "demo_with_change", "demo_without_change"), m.groups())) if m else None,
        "what_it_needs": (re.search(r"(?is)(needs?|manifest)[^\n]*\n(.{0,600})", notes).group(0)[:700] if re.search(r"(?i)needs?|manifest", notes) else ""),
        "ran": "tools/seedtest.sh: scratch worktree (git apply, go test ./..., demo with/without), then git -C /repo apply; ./check <id> quick for each check; git -C /repo checkout -- .",
        "checks": res,
        "caught_by": sorted(c for c, r in res.items() if r["exit"] != 0)}
json.dump(meta, open(os.path.join(d, "meta.json"), "w"), indent=1)
print("=>", name, "valid" if valid else "INVALID", "caught by", meta["caught_by"])

# the evidence files were rewritten by runs against the CHANGED tree: restore the committed (clean-tree) ones
subprocess.run(["git", "-C", "/verif", "checkout", "--", "evidence"])
