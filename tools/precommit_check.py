#!/usr/bin/env python3
"""tools/precommit_check.py — refuses evidence that does not come from a clean, passing run
(obligations == discharged, no violations, /repo's working tree clean)."""
import json, glob, subprocess, sys
bad = []
if subprocess.run(['git', '-C', '/repo', 'status', '--short'], stdout=subprocess.PIPE, text=True).stdout.strip():
    bad.append('/repo working tree is not clean')
for f in sorted(glob.glob('/verif/evidence/C*.json')):
    d = json.load(open(f)); c = d['coverage']
    if c.get('obligations') != c.get('discharged') or d.get('violations'):
        bad.append('%s: obligations=%s discharged=%s violations=%s' % (f, c.get('obligations'), c.get('discharged'), d.get('violations')))
print('\n'.join(bad) if bad else 'evidence ok')
sys.exit(1 if bad else 0)
