(* driver.ml — hand-written glue around the extracted model (model.ml):
   reads requests from stdin, evaluates the model, prints canonical
   observation strings.  No model logic lives here. *)
open Model

let rec pos_of_int (n : int) : positive =
  if n <= 1 then XH
  else if n land 1 = 0 then XO (pos_of_int (n lsr 1))
  else XI (pos_of_int (n lsr 1))

let n_of_int (n : int) : n = if n = 0 then N0 else Npos (pos_of_int n)
let z_of_int (n : int) : z =
  if n = 0 then Z0 else if n > 0 then Zpos (pos_of_int n) else Zneg (pos_of_int (-n))
let rec nat_of_int (n : int) : nat = if n <= 0 then O else S (nat_of_int (n - 1))

let rec int_of_pos (p : positive) : int =
  match p with XH -> 1 | XO q -> 2 * int_of_pos q | XI q -> 2 * int_of_pos q + 1
let int_of_n (n : n) : int = match n with N0 -> 0 | Npos p -> int_of_pos p
let int_of_z (z : z) : int =
  match z with Z0 -> 0 | Zpos p -> int_of_pos p | Zneg p -> - (int_of_pos p)
let rec int_of_nat (n : nat) : int = match n with O -> 0 | S m -> 1 + int_of_nat m

(* bytes <-> hex ("-" = nil, "e" = empty) *)
let bytes_of_hex (s : string) : n list =
  if s = "-" || s = "e" then []
  else begin
    let l = String.length s / 2 in
    let rec go i acc =
      if i < 0 then acc
      else go (i - 1) (n_of_int (int_of_string ("0x" ^ String.sub s (2 * i) 2)) :: acc) in
    go (l - 1) []
  end

let hex_of_bytes (b : n list) : string =
  match b with
  | [] -> "e"
  | _ ->
    let buf = Buffer.create 16 in
    List.iter (fun x -> Buffer.add_string buf (Printf.sprintf "%02x" (int_of_n x))) b;
    Buffer.contents buf

let item_str (i : item) (wv : bool) : string =
  Printf.sprintf "i:%s:%s:%d" (hex_of_bytes i.ikey) (if wv then hex_of_bytes i.ival else "*") (int_of_z i.iprio)

let out_str (o : out) : string =
  match o with
  | RNoColl -> "nocoll"
  | RNoFile -> "nofile"
  | ROk -> "ok"
  | RErr -> "err"
  | RBool b -> if b then "true" else "false"
  | RVal None -> "nil"
  | RVal (Some v) -> "v:" ^ hex_of_bytes v
  | RItem (None, _) -> "nil"
  | RItem (Some i, wv) -> item_str i wv
  | RTotals (n, b) -> Printf.sprintf "t:%d:%d" (int_of_z n) (int_of_z b)
  | RNames l -> "n:" ^ String.concat "," (List.map hex_of_bytes l)
  | RVisit (l, wv) ->
    String.concat " " ("vs" :: List.map (fun (i, d) ->
      Printf.sprintf "%s/%s/%d/%d" (hex_of_bytes i.ikey) (if wv then hex_of_bytes i.ival else "*")
        (int_of_z i.iprio) (int_of_z d)) l)
  | RLen n -> Printf.sprintf "l:%d" (int_of_z n)

exception Unsupported of string

let parse_op (line : string) : op =
  match String.split_on_char ' ' line with
  | [k; _h; name; key; value; prio; wv; n] ->
    let name = bytes_of_hex name and keyb = bytes_of_hex key in
    let wv = (wv = "t") and n = int_of_string n and prio = int_of_string prio in
    let stop = if n < 0 then None else Some (nat_of_int n) in
    (match k with
     | "coll" -> OColl (name, nat_of_int n)
     | "rmcoll" -> ORmColl name
     | "names" -> ONames
     | "set" -> OSet (name, keyb, (if value = "-" then None else Some (bytes_of_hex value)), z_of_int prio)
     | "del" -> ODel (name, keyb)
     | "get" -> OGet (name, keyb)
     | "geti" -> OGetItem (name, keyb, wv)
     | "exist" -> OExist (name, keyb)
     | "min" -> OMin (name, wv)
     | "max" -> OMax (name, wv)
     | "tot" -> OTotals name
     | "flush" -> OFlush
     | "evict" -> OEvict name
     | "reopen" -> OReopen
     | "revert" -> ORevert
     | "asc" | "ascx" | "itasc" | "nasc" | "nit" -> OVisit (true, name, keyb, wv, stop)
     | "desc" | "descx" | "itdesc" | "ndesc" -> OVisit (false, name, keyb, wv, stop)
     | "junk" -> OReopen
     | "len" -> OLen name
     | _ -> raise (Unsupported k))
  | _ -> raise (Unsupported line)

let () =
  try
    while true do
      let line = input_line stdin in
      match String.split_on_char ' ' line with
      | ["run"; fb; nops] ->
        let nops = int_of_string nops in
        let ops = List.init nops (fun _ -> parse_op (input_line stdin)) in
        let outs = run (init (fb = "1")) ops in
        List.iter (fun o -> print_endline (out_str o)) outs;
        print_endline "END";
        flush stdout
      | ["decode"; hexfile] ->
        let f = bytes_of_hex hexfile in
        (match decode_store f with
         | OpEmpty -> print_endline "empty"
         | OpNoRoots -> print_endline "noroots"
         | OpBad -> print_endline "bad"
         | OpOk (size, cs) ->
           let buf = Buffer.create 256 in
           Buffer.add_string buf (Printf.sprintf "ok %d " (int_of_z size));
           List.iter (fun (name, t) ->
             Buffer.add_string buf (Printf.sprintf "[%s n=%d b=%d" (hex_of_bytes name) (int_of_z (num t)) (int_of_z (nby t)));
             List.iter (fun (i : item) ->
               Buffer.add_string buf (Printf.sprintf " %s/%s/%d" (hex_of_bytes i.ikey) (hex_of_bytes i.ival) (int_of_z i.iprio)))
               (elems t);
             Buffer.add_string buf "]") cs;
           print_endline (Buffer.contents buf));
        flush stdout
      | ["conforms"; cmps; hexfile] ->
        (* cmps: comma separated hexname:id pairs ("-" for none) *)
        let tbl = if cmps = "-" then [] else
          List.map (fun p -> match String.split_on_char ':' p with
            | [n; i] -> (bytes_of_hex n, nat_of_int (int_of_string i))
            | _ -> failwith "bad cmps") (String.split_on_char ',' cmps) in
        let cmpid name = (try List.assoc name tbl with Not_found -> O) in
        print_endline (if conforms_v4 cmpid (bytes_of_hex hexfile) then "true" else "false");
        flush stdout
      | ["roots"; hexfile] ->
        (* every end position at which a valid root record ends *)
        let f = bytes_of_hex hexfile in
        let n = List.length f in
        let buf = Buffer.create 64 in
        for e = 45 to n do
          (match root_at f (z_of_int e) with Some _ -> Buffer.add_string buf (string_of_int e ^ " ") | None -> ())
        done;
        print_endline ("roots " ^ Buffer.contents buf);
        flush stdout
      | ["reads"; kind; cmpid; name; key; wv; hexfile] ->
        (* predicted ReadAt calls of GetItem / MinItem / MaxItem on a freshly opened store *)
        let f = bytes_of_hex hexfile in
        let name = bytes_of_hex name in
        let show rs = String.concat " " ("r" :: List.map (fun (Rd (o, n)) -> Printf.sprintf "%d:%d" (int_of_z o) (int_of_z n)) rs) in
        (match scan f (blen f) with
         | ScanFound (_, m) ->
           (match List.assoc_opt name m with
            | None -> print_endline "nocoll"
            | Some root ->
              let (rs, _) =
                (match kind with
                 | "get" -> get_reads (S (nat_of_int (List.length f))) (cmp_of (nat_of_int (int_of_string cmpid))) f root (bytes_of_hex key) (wv = "t")
                 | "asc" | "desc" ->
                   (* key carries the target; budget after a dash in kind is passed via cmpid? no: separate request below *)
                   ([], None)
                 | "min" -> minmax_reads f root true (wv = "t")
                 | _ -> minmax_reads f root false (wv = "t")) in
              print_endline (show rs))
         | _ -> print_endline "noroots");
        flush stdout
      | ["visitreads"; dir; cmpid; name; key; wv; budget; hexfile] ->
        let f = bytes_of_hex hexfile in
        let name = bytes_of_hex name in
        (match scan f (blen f) with
         | ScanFound (_, m) ->
           (match List.assoc_opt name m with
            | None -> print_endline "nocoll"
            | Some root ->
              let ((rs, _), _) = visit_reads (S (nat_of_int (List.length f))) (cmp_of (nat_of_int (int_of_string cmpid)))
                  (dir = "asc") f root (bytes_of_hex key) (wv = "t") (nat_of_int (int_of_string budget)) in
              print_endline (String.concat " " ("r" :: List.map (fun (Rd (o, n)) -> Printf.sprintf "%d:%d" (int_of_z o) (int_of_z n)) rs)))
         | _ -> print_endline "noroots");
        flush stdout
      | ["mutreads"; kind; cmpid; name; key; prio; hexfile] ->
        (* predicted ReadAt calls of SetItem / Delete on a freshly opened store *)
        let f = bytes_of_hex hexfile in
        let name = bytes_of_hex name in
        (match scan f (blen f) with
         | ScanFound (e, m) ->
           (match List.assoc_opt name m with
            | None -> print_endline "nocoll"
            | Some root ->
              (match mut_reads_file (cmp_of (nat_of_int (int_of_string cmpid))) f root e (kind = "set") (bytes_of_hex key) (z_of_int (int_of_string prio)) with
               | Some rs -> print_endline (String.concat " " ("r" :: List.map (fun (Rd (o, n)) -> Printf.sprintf "%d:%d" (int_of_z o) (int_of_z n)) rs))
               | None -> print_endline "undecodable"))
         | _ -> print_endline "noroots");
        flush stdout
      | ["faultreads"; cmpid; name; key; k; hexfile] ->
        (* GetItem(key, false) on a freshly opened store whose k-th ReadAt (from 0) fails, then the retried call *)
        let f = bytes_of_hex hexfile in
        let name = bytes_of_hex name in
        let show rs = String.concat " " ("r" :: List.map (fun (Rd (o, n)) -> Printf.sprintf "%d:%d" (int_of_z o) (int_of_z n)) rs) in
        (match scan f (blen f) with
         | ScanFound (e, m) ->
           (match List.assoc_opt name m with
            | None -> print_endline "nocoll"
            | Some root ->
              (match get_fault_file (cmp_of (nat_of_int (int_of_string cmpid))) f root e (bytes_of_hex key) (nat_of_int (int_of_string k)) with
               | Some ((a, r), failed) -> print_endline ((if failed then "failed " else "ok ") ^ show a ^ " | " ^ show r)
               | None -> print_endline "undecodable"))
         | _ -> print_endline "noroots");
        flush stdout
      | ["seqreads"; cmpid; name; nops; hexfile] ->
        (* the ReadAt calls of a sequence of lookups / mutations on a freshly opened store, call by call *)
        let f = bytes_of_hex hexfile in
        let name = bytes_of_hex name in
        let nops = int_of_string nops in
        let ops = List.init nops (fun _ ->
          match String.split_on_char ' ' (input_line stdin) with
          | ["get"; k; wv] -> SGet (bytes_of_hex k, wv = "t")
          | ["min"; wv] -> SMin (wv = "t")
          | ["max"; wv] -> SMax (wv = "t")
          | ["set"; k; v; prio] -> SSet (bytes_of_hex k, bytes_of_hex v, z_of_int (int_of_string prio))
          | ["del"; k] -> SDel (bytes_of_hex k)
          | _ -> raise (Unsupported "seqreads op")) in
        let show rs = String.concat " " ("r" :: List.map (fun (Rd (o, n)) -> Printf.sprintf "%d:%d" (int_of_z o) (int_of_z n)) rs) in
        (match scan f (blen f) with
         | ScanFound (e, m) ->
           (match List.assoc_opt name m with
            | None -> print_endline "nocoll"
            | Some root ->
              (match seq_reads_file (cmp_of (nat_of_int (int_of_string cmpid))) f root e ops with
               | Some rss -> List.iter (fun rs -> print_endline (show rs)) rss
               | None -> print_endline "undecodable"))
         | _ -> print_endline "noroots");
        print_endline "END";
        flush stdout
      | ["seq2reads"; cmpid; name; nops; hexfile] ->
        (* as seqreads, with whole visits, Len and GetTotals *)
        let f = bytes_of_hex hexfile in
        let name = bytes_of_hex name in
        let nops = int_of_string nops in
        let ops = List.init nops (fun _ ->
          match String.split_on_char ' ' (input_line stdin) with
          | ["get"; k; wv] -> S1 (SGet (bytes_of_hex k, wv = "t"))
          | ["min"; wv] -> S1 (SMin (wv = "t"))
          | ["max"; wv] -> S1 (SMax (wv = "t"))
          | ["set"; k; v; prio] -> S1 (SSet (bytes_of_hex k, bytes_of_hex v, z_of_int (int_of_string prio)))
          | ["del"; k] -> S1 (SDel (bytes_of_hex k))
          | ["vis"; dir; k; wv; b] -> SVis (dir = "asc", bytes_of_hex k, wv = "t", nat_of_int (int_of_string b))
          | ["len"] -> SLen
          | ["tot"] -> STot
          | _ -> raise (Unsupported "seq2reads op")) in
        let show rs = String.concat " " ("r" :: List.map (fun (Rd (o, n)) -> Printf.sprintf "%d:%d" (int_of_z o) (int_of_z n)) rs) in
        (match scan f (blen f) with
         | ScanFound (e, m) ->
           (match List.assoc_opt name m with
            | None -> print_endline "nocoll"
            | Some root ->
              (match seq2_reads_file (cmp_of (nat_of_int (int_of_string cmpid))) f root e ops with
               | Some rss -> List.iter (fun rs -> print_endline (show rs)) rss
               | None -> print_endline "undecodable"))
         | _ -> print_endline "noroots");
        print_endline "END";
        flush stdout
      | ["seq3reads"; cmpid; name; nops; hexfile] ->
        (* as seq2reads, with Store.Flush inside the run; the last line is length + MD5 of the predicted file *)
        let f = bytes_of_hex hexfile in
        let name = bytes_of_hex name in
        let nops = int_of_string nops in
        let ops = List.init nops (fun _ ->
          match String.split_on_char ' ' (input_line stdin) with
          | ["get"; k; wv] -> S2 (S1 (SGet (bytes_of_hex k, wv = "t")))
          | ["min"; wv] -> S2 (S1 (SMin (wv = "t")))
          | ["max"; wv] -> S2 (S1 (SMax (wv = "t")))
          | ["set"; k; v; prio] -> S2 (S1 (SSet (bytes_of_hex k, bytes_of_hex v, z_of_int (int_of_string prio))))
          | ["del"; k] -> S2 (S1 (SDel (bytes_of_hex k)))
          | ["vis"; dir; k; wv; b] -> S2 (SVis (dir = "asc", bytes_of_hex k, wv = "t", nat_of_int (int_of_string b)))
          | ["len"] -> S2 SLen
          | ["tot"] -> S2 STot
          | ["flush"] -> SFlush
          | _ -> raise (Unsupported "seq3reads op")) in
        let show rs = String.concat " " ("r" :: List.map (fun (Rd (o, n)) -> Printf.sprintf "%d:%d" (int_of_z o) (int_of_z n)) rs) in
        (match decode_store f with
         | OpOk (e, cs) when int_of_z e = List.length f && List.exists (fun (n, _) -> n = name) cs ->
           (match seq3_reads_file (cmp_of (nat_of_int (int_of_string cmpid))) f name ops with
            | Some (rss, f') ->
              List.iter (fun rs -> print_endline (show rs)) rss;
              let b = Bytes.create (List.length f') in
              List.iteri (fun i x -> Bytes.set b i (Char.chr (int_of_n x))) f';
              print_endline ("file " ^ string_of_int (Bytes.length b) ^ " " ^ Digest.to_hex (Digest.bytes b))
            | None -> print_endline "undecodable")
         | _ -> print_endline "unsupported");
        print_endline "END";
        flush stdout
      | ["openreads"; hexfile] ->
        let rs = open_reads (bytes_of_hex hexfile) in
        print_endline (String.concat " " ("r" :: List.map (fun (Rd (o, n)) -> Printf.sprintf "%d:%d" (int_of_z o) (int_of_z n)) rs));
        flush stdout
      | ["blockvisit"; mangler; n] ->
        (* the order in which VisitItemsAscendBlockEx delivers the positions 0..n-1 of a collection of n items *)
        let n = int_of_string n in
        let l = List.init n (fun i -> nat_of_int i) in
        let rec rotate = function [] -> [] | x :: xs -> xs @ [x] in
        let mangle = (match mangler with
          | "reverse" -> List.rev
          | "rotate" -> rotate
          | _ -> (fun x -> x)) in
        let out = block_visit mangle l in
        print_endline (String.concat " " ("b" :: List.map (fun x -> string_of_int (int_of_nat x)) out));
        flush stdout
      | ["drun"; nops] ->
        (* the byte-level store model: observations, and an MD5 of the predicted file after every step *)
        let nops = int_of_string nops in
        let ops = List.init nops (fun _ -> parse_op (input_line stdin)) in
        let outs = drun dinit ops in
        let files = dfiles dinit ops in
        print_endline (if dhist_ok dinit ops then "history_ok true" else "history_ok false");
        List.iter2 (fun o f ->
          let b = Bytes.create (List.length f) in
          List.iteri (fun i x -> Bytes.set b i (Char.chr (int_of_n x))) f;
          print_endline (out_str o ^ " | " ^ string_of_int (Bytes.length b) ^ " " ^ Digest.to_hex (Digest.bytes b))) outs files;
        print_endline "END";
        flush stdout
      | ["dfrun"; nops] ->
        (* DStore with failing Flush calls (DiskFault.flush_fault): observation and file digest after every step *)
        let nops = int_of_string nops in
        let ops = List.init nops (fun _ ->
          let line = input_line stdin in
          match String.split_on_char ' ' line with
          | ["flushfail"; k; torn] -> FFlushFail (nat_of_int (int_of_string k), nat_of_int (int_of_string torn))
          | _ -> FOp (parse_op line)) in
        (* the side condition of theorem c07_failed_flush_invisible_anywhere, evaluated on this faulted history *)
        print_endline (if fhist_okb dinit Z0 ops then "fhistory_ok true" else "fhistory_ok false");
        List.iter (fun (o, f) ->
          let b = Bytes.create (List.length f) in
          List.iteri (fun i x -> Bytes.set b i (Char.chr (int_of_n x))) f;
          print_endline (out_str o ^ " | " ^ string_of_int (Bytes.length b) ^ " " ^ Digest.to_hex (Digest.bytes b))) (dfrun dinit ops);
        print_endline "END";
        flush stdout
      | ["copyrun"; fe; n] ->
        (* CopyTo as a history of the destination store: n lines "coll <name> <cmpid>" / "item <key> <val> <prio>";
           prints the answers' summary and length + MD5 of the predicted destination file *)
        let n = int_of_string n in
        let colls = ref [] in
        for _ = 1 to n do
          (match String.split_on_char ' ' (input_line stdin) with
           | ["coll"; name; cmpid] -> colls := ((bytes_of_hex name, nat_of_int (int_of_string cmpid)), []) :: !colls
           | ["item"; key; v; prio] ->
             (match !colls with
              | ((nm, c), items) :: rest ->
                colls := ((nm, c), { ikey = bytes_of_hex key; ival = bytes_of_hex v; iprio = z_of_int (int_of_string prio) } :: items) :: rest
              | [] -> ())
           | _ -> ())
        done;
        let src = List.rev_map (fun ((nm, c), items) -> ((nm, c), List.rev items)) !colls in
        let (outs, f) = copy_result src (z_of_int (int_of_string fe)) in
        let allok = List.for_all (fun o -> match o with ROk -> true | _ -> false) outs in
        let b = Bytes.create (List.length f) in
        List.iteri (fun i x -> Bytes.set b i (Char.chr (int_of_n x))) f;
        print_endline ((if allok then "ok " else "notok ") ^ string_of_int (Bytes.length b) ^ " " ^ Digest.to_hex (Digest.bytes b));
        flush stdout
      | ["mrun"; fb; nops] ->
        (* several handles: "snap" and "close" lines are handle operations, everything else goes through handle H *)
        let nops = int_of_string nops in
        let mops = List.init nops (fun _ ->
          let line = input_line stdin in
          match String.split_on_char ' ' line with
          | k :: h :: _ when k = "snap" -> MSnap (nat_of_int (int_of_string h))
          | k :: h :: _ when k = "close" -> MClose (nat_of_int (int_of_string h))
          | _ :: h :: _ -> MOp (nat_of_int (int_of_string h), parse_op line)
          | _ -> raise (Unsupported line)) in
        let outs = mrun (minit (fb = "1")) mops in
        List.iter (fun o -> print_endline (match o with MSkip -> "skip" | MOut r -> out_str r)) outs;
        print_endline "END";
        flush stdout
      | ["quit"] -> exit 0
      | _ -> print_endline ("ERR unknown request: " ^ line); flush stdout
    done
  with End_of_file -> ()
