#!/bin/bash
# setup.sh — build the whole framework offline from files on disk (MANIFEST.setup_cmd).
set -e
cd "$(dirname "$0")"
export GOFLAGS=-mod=mod GOPROXY=off GOSUMDB=off GOTOOLCHAIN=local CARGO_NET_OFFLINE=true PIP_NO_INDEX=1
mkdir -p bin evidence replays work
# forbidden constructs anywhere in the development
if grep -rnE '\b(Admitted|admit|Axiom|Parameter|Conjecture|Admit Obligations|Unset Guard Checking|bypass_check)\b' coq --include=*.v | grep -v '^\S*:\s*[0-9]*:\s*(\*' ; then
  echo "setup: forbidden construct in the Coq development" >&2; exit 1
fi
# translator -> Generated.v
if [ -d tools/gen ]; then
  (cd tools/gen && go build -o ../../bin/gen .)
  ./bin/gen /repo > coq/Generated.v.new
  cmp -s coq/Generated.v.new coq/Generated.v || mv coq/Generated.v.new coq/Generated.v
  rm -f coq/Generated.v.new
fi
# Coq: full .vo build
(cd coq && coq_makefile -f _CoqProject -o Makefile >/dev/null && timeout 3000 make -j16)
# property files (Print Assumptions)
for f in coq/Props/C*.v; do [ -e "$f" ] && (cd coq && timeout 600 coqc -Q . GK Props/$(basename $f) >/dev/null); done
# extraction + OCaml runner
(cd runner && timeout 600 coqc -Q ../coq GK ../coq/Extract.v >/dev/null && timeout 600 ocamlfind ocamlopt -w -a -package str model.mli model.ml driver.ml -o model)
# Go harness against /repo's working tree
cp /repo/go.sum harness/go.sum
(cd harness && go build -tags verif -o ../bin/harness .)
echo "setup done"
