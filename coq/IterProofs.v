(* IterProofs.v -- proofs about the iterator LTS of Iter.v *)

From Coq Require Import List Bool Arith Lia.
Import ListNotations.
From GK Require Import Iter.

(* ------------------------------------------------------------------ *)
(* 0. step <-> succs                                                    *)
(* ------------------------------------------------------------------ *)

Lemma step_succs : forall n s s', step n s s' -> In s' (succs n s).
Proof.
  intros n s s' H. destruct H; unfold succs;
    repeat rewrite in_app_iff; simpl; try (destruct cp); intuition.
Qed.

Lemma succs_step : forall n s s', In s' (succs n s) -> step n s s'.
Proof.
  intros n [cs cl r cp pp pin nc ic pk] s' H. unfold succs in H.
  repeat rewrite in_app_iff in H.
  destruct H as [H | [H | [H | [H | H]]]].
  - destruct cp; try (simpl in H; contradiction).
    destruct cs as [| [|] cs']; try (simpl in H; contradiction);
      destruct cl; simpl in H; destruct H as [H | []]; subst; constructor.
  - destruct cp, pp; simpl in H; try contradiction;
      destruct H as [H | []]; subst; constructor.
  - destruct nc; [| simpl in H; contradiction].
    destruct pp; simpl in H; try contradiction;
      destruct H as [H | []]; subst; constructor.
  - destruct pp; simpl in H; try contradiction.
    destruct H as [H | []]; subst; constructor.
  - destruct cp; simpl in H; try contradiction.
    destruct ic; simpl in H; try contradiction.
    destruct H as [H | []]; subst; constructor.
Qed.

Theorem step_iff_succs : forall n s s', step n s s' <-> In s' (succs n s).
Proof. split; [apply step_succs | apply succs_step]. Qed.

Lemma finalb_final : forall s, finalb s = true <-> final s.
Proof.
  intros [cs cl r cp pp pin nc ic pk]; unfold finalb, final; simpl. split.
  - destruct cs; [| discriminate]. destruct cp; try discriminate.
    destruct pp; try discriminate; intros H.
    + apply negb_true_iff in H. repeat split; auto.
    + apply negb_true_iff in H. repeat split; auto. right. split; eauto.
    + repeat split; auto.
  - intros (Hc & Hp & H). subst.
    destruct H as [H | (Hcl & [H | [k H]])]; subst; reflexivity.
Qed.

Lemma reachable_steps : forall n cs0 s s',
  reachable n cs0 s -> steps n s s' -> reachable n cs0 s'.
Proof.
  intros n cs0 s s' Hr Hs. induction Hs; auto.
  apply IHHs. eapply R_step; eauto.
Qed.

Lemma steps_trans : forall n a b c, steps n a b -> steps n b c -> steps n a c.
Proof. intros n a b c H. induction H; intros; auto. econstructor; eauto. Qed.

Lemma reachable_iff_steps : forall n cs0 s,
  reachable n cs0 s <-> steps n (init cs0) s.
Proof.
  intros; split.
  - induction 1. constructor. eapply steps_trans; eauto. econstructor; eauto. constructor.
  - intros. eapply reachable_steps; eauto. constructor.
Qed.

(* ------------------------------------------------------------------ *)
(* 1. The specification functions                                       *)
(* ------------------------------------------------------------------ *)

(* Once closed, every Next returns None, whatever n and k are. *)
Definition closedout (cs : list cmd) : list (option nat) := expect 0 0 true cs.

Lemma expect_true : forall n k cs, expect n k true cs = closedout cs.
Proof.
  unfold closedout. intros n k cs. induction cs as [| [|] cs IH]; simpl; auto.
  f_equal; auto.
Qed.

(* ------------------------------------------------------------------ *)
(* 2. The invariant                                                     *)
(* ------------------------------------------------------------------ *)

Definition pinned_of (p : pphase) : bool :=
  match p with PSend _ | PWaitNext _ => true | _ => false end.

Definition ic_of (p : pphase) : bool :=
  match p with PDrain | PDone => true | _ => false end.

(* [Spec n c0 R l f]: the complete expected result list is the results so far
   followed by [l]; the open/closed outcome of the whole run is [f]. *)
Definition Spec (n : nat) (c0 : list cmd) (R l : list (option nat)) (f : option nat) : Prop :=
  expected n c0 = R ++ l /\ openfin n 0 c0 = f.

Definition Inv (n : nat) (c0 : list cmd) (s : state) : Prop :=
  panicked s = false /\
  next_closed s = closed s /\
  pinned s = pinned_of (pph s) /\
  items_closed s = ic_of (pph s) /\
  let R := results s in
  let C := cmds s in
  match cph s, closed s, pph s with
  (* consumer idle, iterator open: producer waits for a Next *)
  | CIdle, false, PWaitFirst  => Spec n c0 R (expect n 0 false C) (openfin n 0 C)
  | CIdle, false, PWaitNext k => k < n /\ Spec n c0 R (expect n (S k) false C) (openfin n (S k) C)
  (* consumer idle, iterator closed: producer is on its way out *)
  | CIdle, true, PWaitFirst   => Spec n c0 R (closedout C) None
  | CIdle, true, PWaitNext k  => Spec n c0 R (closedout C) None
  | CIdle, true, PClosing     => Spec n c0 R (closedout C) None
  | CIdle, true, PDrain       => Spec n c0 R (closedout C) None
  | CIdle, true, PDone        => Spec n c0 R (closedout C) None
  (* consumer inside Next, blocked sending on next *)
  | CSending, false, PWaitFirst  =>
      Spec n c0 R (expect n 0 false (CNext :: C)) (openfin n 0 (CNext :: C))
  | CSending, false, PWaitNext k =>
      k < n /\ Spec n c0 R (expect n (S k) false (CNext :: C)) (openfin n (S k) (CNext :: C))
  (* consumer inside Next, blocked receiving on items *)
  | CReceiving, false, PSend k  =>
      k < n /\ Spec n c0 R (expect n k false (CNext :: C)) (openfin n k (CNext :: C))
  | CReceiving, false, PClosing => Spec n c0 R (None :: closedout C) None
  | CReceiving, false, PDrain   => Spec n c0 R (None :: closedout C) None
  (* everything else is unreachable *)
  | _, _, _ => False
  end.

Lemma Inv_init : forall n c0, Inv n c0 (init c0).
Proof. intros. unfold Inv, init, Spec, expected; simpl. repeat split; reflexivity. Qed.

Lemma Spec_snoc : forall n c0 R x l f,
  Spec n c0 R (x :: l) f -> Spec n c0 (R ++ [x]) l f.
Proof. unfold Spec. intros. rewrite <- app_assoc. simpl. auto. Qed.

Lemma ltb_true : forall a b, a < b -> (a <? b) = true.
Proof. intros. apply Nat.ltb_lt; auto. Qed.

Ltac spec_simp :=
  cbn [expect openfin closedout] in *;
  repeat rewrite expect_true in *.

Ltac flags := (split; [ | split; [ | split; [ | split ] ] ]); auto.

Lemma Inv_step : forall n c0 s s', Inv n c0 s -> step n s s' -> Inv n c0 s'.
Proof.
  intros n c0 s s' HI Hs.
  destruct Hs; unfold Inv in *; cbn [panicked next_closed pinned items_closed results cmds cph closed pph] in *;
    destruct HI as (Hpk & Hnc & Hpin & Hic & HS); subst.
  - (* Next on closed *)
    destruct pp; try contradiction; cbn [pinned_of ic_of] in *; flags;
      apply Spec_snoc; exact HS.
  - (* Next on open *)
    destruct pp; try contradiction; cbn [pinned_of ic_of orb] in *; flags.
  - (* Close on closed *)
    destruct pp; try contradiction; cbn [pinned_of ic_of] in *; flags.
  - (* Close on open *)
    destruct pp; try contradiction; cbn [pinned_of ic_of orb] in *; flags;
      unfold Spec in *; spec_simp; tauto.
  - (* rendezvous next / PWaitFirst *)
    destruct cl; try contradiction.
    destruct n as [| n]; cbn [Nat.eqb panicked next_closed pinned items_closed results cmds cph closed pph pinned_of ic_of orb] in *;
      subst; flags.
    split; [lia | exact HS].
  - (* rendezvous next / PWaitNext *)
    destruct cl; try contradiction. destruct HS as (Hk & HS).
    destruct (S k <? n) eqn:E;
      cbn [panicked next_closed pinned items_closed results cmds cph closed pph pinned_of ic_of orb] in *;
      subst; flags.
    + split; [apply Nat.ltb_lt; auto | exact HS].
    + unfold Spec in *; spec_simp. rewrite E in HS. spec_simp. exact HS.
  - (* rendezvous next / PDrain: unreachable *)
    destruct cl; contradiction.
  - (* next closed / PWaitFirst *)
    destruct cp; try contradiction; cbn [pinned_of ic_of] in *; flags.
  - (* next closed / PWaitNext *)
    destruct cp; try contradiction; cbn [pinned_of ic_of] in *; flags.
  - (* next closed / PDrain *)
    destruct cp; try contradiction; cbn [pinned_of ic_of] in *; flags.
  - (* rendezvous items *)
    destruct cl; try contradiction. destruct HS as (Hk & HS).
    cbn [pinned_of ic_of] in *; flags. split; auto.
    apply Spec_snoc. unfold Spec in *; spec_simp.
    rewrite (ltb_true _ _ Hk) in HS. exact HS.
  - (* close(items) *)
    destruct cp, cl; try contradiction; cbn [pinned_of ic_of orb] in *; flags.
  - (* receive from closed items *)
    destruct cl; try contradiction.
    destruct pp; try contradiction; cbn [pinned_of ic_of orb] in *; try discriminate;
      flags.
    apply Spec_snoc; exact HS.
Qed.

Theorem Inv_reachable : forall n c0 s, reachable n c0 s -> Inv n c0 s.
Proof.
  intros n c0 s H. induction H. apply Inv_init. eapply Inv_step; eauto.
Qed.

(* ------------------------------------------------------------------ *)
(* T1. No panic                                                         *)
(* ------------------------------------------------------------------ *)

Theorem T1_no_panic : forall n cmds0 s,
  reachable n cmds0 s -> panicked s = false.
Proof. intros n c0 s H. apply Inv_reachable in H. apply H. Qed.

(* The suspicious transition "CSending meets PDrain" (the drain loop swallowing a
   Next request) is never enabled in a reachable state. *)
Theorem drain_never_swallows : forall n cmds0 s,
  reachable n cmds0 s -> ~ (cph s = CSending /\ pph s = PDrain).
Proof.
  intros n c0 s H [Hc Hp]. apply Inv_reachable in H.
  destruct H as (_ & _ & _ & _ & H). rewrite Hc, Hp in H.
  destruct (closed s); exact H.
Qed.

(* closed mirrors next_closed; a consumer blocked inside Next is never closed. *)
Theorem closed_iff_next_closed : forall n cmds0 s,
  reachable n cmds0 s -> next_closed s = closed s.
Proof. intros n c0 s H. apply Inv_reachable in H. apply H. Qed.

(* ------------------------------------------------------------------ *)
(* T2. Progress                                                         *)
(* ------------------------------------------------------------------ *)

Lemma Inv_progress : forall n c0 s, Inv n c0 s -> finalb s = false -> succs n s <> [].
Proof.
  intros n c0 [cs cl r cp pp pin nc ic pk] (Hpk & Hnc & Hpin & Hic & HS) Hf.
  unfold finalb in Hf.
  cbn [panicked next_closed pinned items_closed results cmds cph closed pph] in *. subst.
  destruct cp, cl, pp; try contradiction; cbn [ic_of] in *;
    destruct cs as [| [|] cs]; try discriminate;
    unfold succs; cbn -[Nat.eqb Nat.ltb]; discriminate.
Qed.

Theorem T2_progress : forall n cmds0 s,
  reachable n cmds0 s -> ~ final s -> exists s', step n s s'.
Proof.
  intros n c0 s H Hnf.
  assert (Hf : finalb s = false).
  { destruct (finalb s) eqn:E; auto. apply finalb_final in E. contradiction. }
  pose proof (Inv_progress n c0 s (Inv_reachable _ _ _ H) Hf) as Hne.
  destruct (succs n s) as [| s' l] eqn:E; [congruence |].
  exists s'. apply succs_step. rewrite E. left; reflexivity.
Qed.

(* Conversely, reachable final states are terminal: nothing is enabled. *)
Theorem final_terminal : forall n cmds0 s,
  reachable n cmds0 s -> final s -> forall s', ~ step n s s'.
Proof.
  intros n c0 s H Hf s' Hs. apply Inv_reachable in H. apply step_succs in Hs.
  destruct s as [cs cl r cp pp pin nc ic pk].
  destruct H as (Hpk & Hnc & Hpin & Hic & HS).
  destruct Hf as (Hc & Hp & Hf).
  cbn [panicked next_closed pinned items_closed results cmds cph closed pph] in *. subst.
  destruct Hf as [Hf | (Hcl & [Hf | [k Hf]])]; subst; simpl in Hs; try tauto.
  destruct cl; simpl in Hs; tauto.
Qed.

(* ------------------------------------------------------------------ *)
(* T3. Termination                                                      *)
(* ------------------------------------------------------------------ *)

Definition cweight (c : cphase) : nat :=
  match c with CIdle => 0 | CReceiving => 1 | CSending => 2 end.

Definition pweight (n : nat) (p : pphase) : nat :=
  match p with
  | PWaitFirst  => 2 * n + 5
  | PSend k     => 2 * (n - k) + 4
  | PWaitNext k => 2 * (n - k) + 3
  | PClosing    => 2
  | PDrain      => 1
  | PDone       => 0
  end.

Definition measure (n : nat) (s : state) : nat :=
  3 * length (cmds s) + cweight (cph s) + pweight n (pph s).

(* Every step (from ANY state, reachable or not) strictly decreases the measure. *)
Theorem T3_measure_decreases : forall n s s',
  step n s s' -> measure n s' < measure n s.
Proof.
  intros n s s' H. destruct H; unfold measure;
    try (destruct (n =? 0) eqn:E; [apply Nat.eqb_eq in E | apply Nat.eqb_neq in E]);
    try (destruct (S k <? n) eqn:E'; [apply Nat.ltb_lt in E' | apply Nat.ltb_ge in E']);
    cbn [cmds cph pph cweight pweight length]; lia.
Qed.

Corollary T3_steps_bounded : forall n s s',
  steps n s s' -> measure n s' <= measure n s.
Proof.
  intros n s s' H. induction H; auto.
  apply T3_measure_decreases in H. lia.
Qed.

(* No infinite execution. *)
Theorem T3_no_infinite_path : forall n (f : nat -> state),
  ~ (forall i, step n (f i) (f (S i))).
Proof.
  intros n f H.
  assert (B : forall i, measure n (f i) + i <= measure n (f 0)).
  { induction i; [lia |]. specialize (H i). apply T3_measure_decreases in H. lia. }
  specialize (B (S (measure n (f 0)))). lia.
Qed.

(* The transition relation is well-founded (converse step is Acc everywhere). *)
Theorem T3_well_founded : forall n, well_founded (fun s' s => step n s s').
Proof.
  intros n.
  apply (well_founded_lt_compat state (measure n)).
  intros; apply T3_measure_decreases; auto.
Qed.

(* Every execution can be (and, by T3_no_infinite_path, eventually must be)
   extended to a final state; a maximal execution ends in a final state. *)
Theorem T3_reaches_final : forall n cmds0 s,
  reachable n cmds0 s -> exists s', steps n s s' /\ final s'.
Proof.
  intros n c0 s. induction s as [s IH] using (well_founded_induction (T3_well_founded n)).
  intros Hr. destruct (finalb s) eqn:E.
  - exists s. split. constructor. apply finalb_final; auto.
  - destruct (T2_progress n c0 s Hr) as [s' Hs].
    { intro Hf. apply finalb_final in Hf. congruence. }
    destruct (IH s' Hs) as (s'' & Hss & Hf). { eapply R_step; eauto. }
    exists s''. split; auto. econstructor; eauto.
Qed.

Theorem T3_stuck_is_final : forall n cmds0 s,
  reachable n cmds0 s -> (forall s', ~ step n s s') -> final s.
Proof.
  intros n c0 s Hr Hstuck. destruct (finalb s) eqn:E.
  - apply finalb_final; auto.
  - destruct (T2_progress n c0 s Hr) as [s' Hs].
    { intro Hf. apply finalb_final in Hf. congruence. }
    exfalso. eapply Hstuck; eauto.
Qed.

(* ------------------------------------------------------------------ *)
(* T4. Results                                                          *)
(* ------------------------------------------------------------------ *)

Ltac drop_lt H :=
  match type of H with
  | _ < _ /\ _ => destruct H as (_ & H)
  | _ => idtac
  end.

Theorem T4_results : forall n cmds0 s,
  reachable n cmds0 s -> final s -> results s = expected n cmds0.
Proof.
  intros n c0 s H Hf. apply Inv_reachable in H.
  destruct s as [cs cl r cp pp pin nc ic pk].
  destruct H as (Hpk & Hnc & Hpin & Hic & HS).
  destruct Hf as (Hc & Hp & Hf).
  cbn [panicked next_closed pinned items_closed results cmds cph closed pph] in *. subst.
  unfold Spec in HS.
  destruct cl, pp; try contradiction; cbn [expect closedout] in HS;
    drop_lt HS; destruct HS as (HS & _);
    rewrite app_nil_r in HS; auto.
Qed.

(* In every reachable state (not only final ones) the results so far are a prefix
   of the expected results. *)
Theorem T4_results_prefix : forall n cmds0 s,
  reachable n cmds0 s -> exists l, expected n cmds0 = results s ++ l.
Proof.
  intros n c0 s H. apply Inv_reachable in H.
  destruct s as [cs cl r cp pp pin nc ic pk].
  destruct H as (Hpk & Hnc & Hpin & Hic & HS).
  cbn [panicked next_closed pinned items_closed results cmds cph closed pph] in *.
  unfold Spec in HS.
  destruct cp, cl, pp; try contradiction;
    drop_lt HS; destruct HS as (HS & _); eauto.
Qed.

(* ------------------------------------------------------------------ *)
(* T5. The producer exits and releases its pin                          *)
(* ------------------------------------------------------------------ *)

Theorem T5_producer_exits : forall n cmds0 s,
  reachable n cmds0 s -> final s -> closed s = true ->
  pph s = PDone /\ pinned s = false.
Proof.
  intros n c0 s H Hf Hcl. apply Inv_reachable in H.
  destruct H as (_ & _ & Hpin & _).
  destruct Hf as (_ & _ & [Hf | (Hcl' & _)]); [| congruence].
  rewrite Hpin, Hf. auto.
Qed.

Theorem T5_unpinned : forall n cmds0 s,
  reachable n cmds0 s ->
  (pph s = PClosing \/ pph s = PDrain \/ pph s = PDone \/ pph s = PWaitFirst) ->
  pinned s = false.
Proof.
  intros n c0 s H Hp. apply Inv_reachable in H.
  destruct H as (_ & _ & Hpin & _). rewrite Hpin.
  destruct Hp as [Hp | [Hp | [Hp | Hp]]]; rewrite Hp; reflexivity.
Qed.

(* Exact characterisation: the pin is held iff the producer is inside the visit. *)
Theorem T5_pinned_exact : forall n cmds0 s,
  reachable n cmds0 s ->
  pinned s = match pph s with PSend _ | PWaitNext _ => true | _ => false end.
Proof. intros n c0 s H. apply Inv_reachable in H. apply H. Qed.

(* Liveness form: once the iterator is closed, every execution leads to PDone. *)
Theorem T5_closed_leads_to_done : forall n cmds0 s,
  reachable n cmds0 s -> closed s = true ->
  forall s', steps n s s' -> (forall s'', ~ step n s' s'') ->
  pph s' = PDone /\ pinned s' = false /\ closed s' = true.
Proof.
  intros n c0 s Hr Hcl s' Hss Hstuck.
  assert (Hcl' : closed s' = true).
  { clear Hstuck Hr. induction Hss; auto. apply IHHss.
    destruct H; cbn [closed] in *; auto;
      try (destruct (n =? 0)); try (destruct (S k <? n)); cbn [closed]; auto;
      discriminate. }
  assert (Hr' : reachable n c0 s') by (eapply reachable_steps; eauto).
  pose proof (T3_stuck_is_final n c0 s' Hr' Hstuck) as Hf.
  destruct (T5_producer_exits n c0 s' Hr' Hf Hcl'). auto.
Qed.

(* ------------------------------------------------------------------ *)
(* T6. Confluence: the final state is unique                            *)
(* ------------------------------------------------------------------ *)

Theorem T6_unique_final : forall n cmds0 s,
  reachable n cmds0 s -> final s -> s = final_state n cmds0.
Proof.
  intros n c0 s H Hf.
  pose proof (T4_results n c0 s H Hf) as HR.
  apply Inv_reachable in H.
  destruct s as [cs cl r cp pp pin nc ic pk].
  destruct H as (Hpk & Hnc & Hpin & Hic & HS).
  destruct Hf as (Hc & Hp & Hf).
  cbn [panicked next_closed pinned items_closed results cmds cph closed pph] in *. subst.
  unfold Spec, final_state in *.
  destruct Hf as [Hf | (Hcl & [Hf | [k Hf]])]; subst; cbn [pinned_of ic_of].
  - destruct cl; [| contradiction]. destruct HS as (_ & HS). rewrite HS. reflexivity.
  - destruct HS as (_ & HS). cbn [openfin] in HS. rewrite HS. reflexivity.
  - destruct HS as (_ & _ & HS). cbn [openfin] in HS. rewrite HS. reflexivity.
Qed.

Corollary T6_confluence : forall n cmds0 s1 s2,
  reachable n cmds0 s1 -> final s1 -> reachable n cmds0 s2 -> final s2 -> s1 = s2.
Proof.
  intros. rewrite (T6_unique_final n cmds0 s1), (T6_unique_final n cmds0 s2); auto.
Qed.

(* Readable characterisation of [openfin]: the run ends with the iterator still open
   iff the client only issued Next calls, and no more than there are items. *)
Lemma openfin_spec : forall n cs k d, k <= n ->
  (openfin n k cs = Some d <->
   ((forall c, In c cs -> c = CNext) /\ k + length cs <= n /\ d = k + length cs)).
Proof.
  intros n cs. induction cs as [| [|] cs IH]; intros k d Hk; cbn [openfin length].
  - split.
    + intros H; inversion H; subst. repeat split; try lia. intros c [].
    + intros (_ & _ & H). subst. f_equal. lia.
  - destruct (k <? n) eqn:E.
    + apply Nat.ltb_lt in E. rewrite IH by lia. split.
      * intros (Hc & Hl & Hd). repeat split; try lia.
        intros c [Hc' | Hc']; auto.
      * intros (Hc & Hl & Hd). repeat split; try lia.
        intros c Hc'. apply Hc. right; auto.
    + apply Nat.ltb_ge in E. split; [discriminate |]. intros (_ & Hl & _). lia.
  - split; [discriminate |]. intros (Hc & _). specialize (Hc CClose (or_introl eq_refl)).
    discriminate.
Qed.

(* Exactly when does a finished run leave the producer blocked with its pin held?
   Iff the client issued between 1 and n Next calls and never Close. *)
Theorem leak_characterisation : forall n cmds0 s,
  reachable n cmds0 s -> final s ->
  (pinned s = true <->
   ((forall c, In c cmds0 -> c = CNext) /\ 1 <= length cmds0 <= n)).
Proof.
  intros n c0 s H Hf. rewrite (T6_unique_final n c0 s H Hf). unfold final_state.
  destruct (openfin n 0 c0) as [[| k] |] eqn:E; cbn [pinned].
  - apply openfin_spec in E; [| lia]. destruct E as (Hc & Hl & Hd). split; [discriminate |].
    intros (_ & Hl'). simpl in Hd. lia.
  - apply openfin_spec in E; [| lia]. destruct E as (Hc & Hl & Hd). simpl in *. split; auto.
    intros _. split; auto. lia.
  - split; [discriminate |]. intros (Hc & Hl).
    assert (E' : openfin n 0 c0 = Some (length c0)).
    { apply openfin_spec; [lia |]. repeat split; auto; lia. }
    congruence.
Qed.

(* ------------------------------------------------------------------ *)
(* Sanity examples (vm_compute)                                         *)
(* ------------------------------------------------------------------ *)

Definition obs (s : state) := (results s, pph s, pinned s, closed s, panicked s).

Example ex1 : obs (run_first 100 3 (init [CNext; CNext; CClose; CNext]))
              = ([Some 0; Some 1; None], PDone, false, true, false).
Proof. vm_compute. reflexivity. Qed.

Example ex1' : obs (run_last 100 3 (init [CNext; CNext; CClose; CNext]))
              = ([Some 0; Some 1; None], PDone, false, true, false).
Proof. vm_compute. reflexivity. Qed.

Example ex2 : obs (run_first 100 0 (init [CNext])) = ([None], PDone, false, true, false).
Proof. vm_compute. reflexivity. Qed.

Example ex3 : obs (run_first 100 2 (init [CClose; CClose])) = ([], PDone, false, true, false).
Proof. vm_compute. reflexivity. Qed.

Example ex4 : obs (run_first 100 1 (init [CNext; CNext; CNext]))
              = ([Some 0; None; None], PDone, false, true, false).
Proof. vm_compute. reflexivity. Qed.

Example ex_expected :
  expected 3 [CNext; CNext; CClose; CNext] = [Some 0; Some 1; None] /\
  expected 0 [CNext] = [None] /\ expected 2 [CClose; CClose] = [] /\
  expected 1 [CNext; CNext; CNext] = [Some 0; None; None].
Proof. vm_compute. auto. Qed.

(* The schedulers really stop in a terminal state (not because of the fuel). *)
Example ex1_terminal :
  succs 3 (run_first 100 3 (init [CNext; CNext; CClose; CNext])) = [] /\
  finalb (run_first 100 3 (init [CNext; CNext; CClose; CNext])) = true.
Proof. vm_compute. auto. Qed.

(* The "abandoned iterator" outcome permitted by the definition of [final]:
   n = 2 and a single Next, never closed.  The producer goroutine stays blocked in
   <-it.next forever and KEEPS ITS PIN.  This is not a violation of T5 (closed = false)
   but it is the one way the model leaks. *)
Example ex_abandoned :
  run_first 100 2 (init [CNext])
  = mkState [] false [Some 0] CIdle (PWaitNext 0) true false false false.
Proof. vm_compute. reflexivity. Qed.

(* Even after ALL n items were delivered by exactly n Next calls the pin is still held:
   exhaustion is only noticed by the (n+1)-th Next. *)
Example ex_all_delivered_still_pinned :
  run_first 100 2 (init [CNext; CNext])
  = mkState [] false [Some 0; Some 1] CIdle (PWaitNext 1) true false false false.
Proof. vm_compute. reflexivity. Qed.

(* Brute force over ALL interleavings, n <= 3, all command lists of length <= 5:
   every end state is terminal, final, un-panicked and equals final_state. *)
Definition state_eqb (a b : state) : bool :=
  let oeq (x y : option nat) :=
    match x, y with Some i, Some j => i =? j | None, None => true | _, _ => false end in
  let fix leq (x y : list (option nat)) :=
    match x, y with
    | [], [] => true | u :: x', v :: y' => oeq u v && leq x' y' | _, _ => false end in
  let peq (p q : pphase) :=
    match p, q with
    | PWaitFirst, PWaitFirst | PClosing, PClosing | PDrain, PDrain | PDone, PDone => true
    | PSend i, PSend j | PWaitNext i, PWaitNext j => i =? j
    | _, _ => false end in
  let ceq (p q : cphase) :=
    match p, q with
    | CIdle, CIdle | CSending, CSending | CReceiving, CReceiving => true | _, _ => false end in
  (length (cmds a) =? length (cmds b)) && eqb (closed a) (closed b) &&
  leq (results a) (results b) && ceq (cph a) (cph b) && peq (pph a) (pph b) &&
  eqb (pinned a) (pinned b) && eqb (next_closed a) (next_closed b) &&
  eqb (items_closed a) (items_closed b) && eqb (panicked a) (panicked b).

Definition check_all (maxn len : nat) : bool :=
  forallb (fun n =>
    forallb (fun cs =>
      forallb (fun s => match succs n s with [] => true | _ => false end
                        && finalb s && negb (panicked s)
                        && state_eqb s (final_state n cs))
              (all_ends 60 n (init cs)) &&
      forallb (fun s => negb (panicked s) &&
                        (finalb s || match succs n s with [] => false | _ => true end))
              (all_states 60 n (init cs)))
      (cmdlists_upto len))
    (seq 0 (S maxn)).

Example brute_force : check_all 3 5 = true.
Proof. vm_compute. reflexivity. Qed.
