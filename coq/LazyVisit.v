(* LazyVisit.v — the ReadAt calls of a whole visit (VisitItemsAscend / Descend) on an
   uncached persisted tree (property C19).  Technique of LazyProofs.v: recompute the reads on
   the tree itself (visit_treads), show that Lazy.visit_reads equals it under rep / persisted
   (visit_reads_tree), then reason on the tree.

   B1  visit_reads_keyonly          withValue = false: only node records, item headers, keys
   B2  visit_never_reads_values     ... hence no byte of any value (records_disjoint)
   B3  visit_reads_agree_with_visit budget and keepGoing = those of Treap.visit
       visit_value_reads_count      withValue = true: exactly one (header, key, value) re-read
                                    per delivery on top of the key-only reads
   B4  visit_reads_true_all         withValue = true: node records, headers, keys, values only *)
From GK Require Import Base Treap TreapSpec Store Codec CodecProofs Disk DiskProofs Lazy LazyProofs.
From Coq Require Import Lia ZArith NArith List Bool.
Import ListNotations.
Open Scope Z_scope.

(* ------------------------------------------------------------------ *)
(* 1. the reads, computed on the tree *)

(* ascendChoice / descendChoice *)
Definition vchoice (cmp : bytes -> bytes -> comparison) (asc : bool) (target : bytes) (it : item) : bool :=
  if asc then match cmp target (ikey it) with Gt => false | _ => true end
  else match cmp target (ikey it) with Gt => true | _ => false end.

(* the reads of a visit, as a function of the (persisted) tree *)
Fixpoint visit_treads (cmp : bytes -> bytes -> comparison) (asc : bool) (t : tree)
         (target : bytes) (wv : bool) (b : nat) : list rd * nat * bool :=
  match t with
  | E => ([], b, true)
  | T (Some p) l (Some q) it _ _ r =>
    let r0 := node_reads p ++ item_reads q it false in
    let choiceT := if asc then l else r in
    let choiceF := if asc then r else l in
    if vchoice cmp asc target it then
      let '(r1, b1, k1) := visit_treads cmp asc choiceT target wv b in
      if k1 then
        let rv := if wv then item_reads q it true else [] in
        match b1 with
        | O => (r0 ++ r1 ++ rv, O, false)
        | S b' =>
          let '(r2, b2, k2) := visit_treads cmp asc choiceF target wv b' in
          (r0 ++ r1 ++ rv ++ r2, b2, k2)
        end
      else (r0 ++ r1, b1, false)
    else
      let '(r2, b2, k2) := visit_treads cmp asc choiceF target wv b in
      (r0 ++ r2, b2, k2)
  | T _ _ _ _ _ _ _ => ([], b, true)
  end.

(* Treap.visit at a node, with the choice folded *)
Lemma visit_T cmp asc nl l il it nn nb r target d b :
  visit cmp asc (T nl l il it nn nb r) target d b =
  if vchoice cmp asc target it then
    let '(d1, b1, k1) := visit cmp asc (if asc then l else r) target (d + 1) b in
    if k1 then
      match b1 with
      | O => (d1 ++ [(it, d)], O, false)
      | S b' =>
        let '(d2, b2, k2) := visit cmp asc (if asc then r else l) target (d + 1) b' in
        (d1 ++ (it, d) :: d2, b2, k2)
      end
    else (d1, b1, false)
  else visit cmp asc (if asc then r else l) target (d + 1) b.
Proof. reflexivity. Qed.

(* the file-level function computes the tree-level one *)
Lemma visit_reads_tree cmp asc f target wv : forall t fuel b,
  rep f t -> persisted t -> (height t <= fuel)%nat ->
  visit_reads fuel cmp asc f (root_loc t) target wv b = visit_treads cmp asc t target wv b.
Proof.
  induction t as [|nl l IHl il it nn nb r IHr]; intros fuel b Hrep Hper Hh.
  - destruct fuel; reflexivity.
  - destruct (rep_node_inv _ _ _ _ _ _ _ _ Hrep Hper)
      as (p & q & -> & -> & Hpl & Hdn & Hql & Hdi & Rl & Rr & Pl & Pr).
    cbn [height] in Hh. destruct fuel as [|k]; [lia|].
    assert (HT : forall b', visit_reads k cmp asc f (if asc then root_loc l else root_loc r) target wv b' =
                            visit_treads cmp asc (if asc then l else r) target wv b').
    { intro b'. destruct asc; [apply IHl | apply IHr]; auto; lia. }
    assert (HF : forall b', visit_reads k cmp asc f (if asc then root_loc r else root_loc l) target wv b' =
                            visit_treads cmp asc (if asc then r else l) target wv b').
    { intro b'. destruct asc; [apply IHr | apply IHl]; auto; lia. }
    cbn [root_loc visit_reads visit_treads]. rewrite Hdn. cbn [nr_item nr_left nr_right].
    rewrite Hdi. fold (vchoice cmp asc target it).
    destruct (vchoice cmp asc target it).
    + rewrite HT.
      destruct (visit_treads cmp asc (if asc then l else r) target wv b) as [[r1 b1] k1].
      destruct k1; [|reflexivity]. destruct b1 as [|b']; [reflexivity|].
      rewrite HF. reflexivity.
    + rewrite HF. reflexivity.
Qed.

(* ------------------------------------------------------------------ *)
(* 2. classification of the reads (B1, B4) *)

(* a read is key-only, or -- only when values are asked for -- the value of a located item *)
Definition vk (wv : bool) (t : tree) (x : rd) : Prop := key_only t x \/ (wv = true /\ in_value t x).

Lemma in_value_l nl l il it nn nb r x : in_value l x -> in_value (T nl l il it nn nb r) x.
Proof. intros (q & i & Hq & Hr). exists q, i. split; [now apply item_locs_l|assumption]. Qed.
Lemma in_value_r nl l il it nn nb r x : in_value r x -> in_value (T nl l il it nn nb r) x.
Proof. intros (q & i & Hq & Hr). exists q, i. split; [now apply item_locs_r|assumption]. Qed.

Lemma vk_l wv nl l il it nn nb r x : vk wv l x -> vk wv (T nl l il it nn nb r) x.
Proof. intros [H|[Hw H]]; [left; now apply key_only_l | right; split; [assumption | now apply in_value_l]]. Qed.
Lemma vk_r wv nl l il it nn nb r x : vk wv r x -> vk wv (T nl l il it nn nb r) x.
Proof. intros [H|[Hw H]]; [left; now apply key_only_r | right; split; [assumption | now apply in_value_r]]. Qed.

Lemma vk_key_only wv t l : Forall (key_only t) l -> Forall (vk wv t) l.
Proof. intro H. eapply Forall_impl; [|exact H]. intros x Hx. left. exact Hx. Qed.

(* the re-read of the item just before it is delivered *)
Lemma vk_deliver wv nl l q it nn nb r :
  Forall (vk wv (T nl l (Some q) it nn nb r)) (if wv then item_reads q it true else []).
Proof.
  destruct wv; [|constructor]. rewrite item_reads_true_false.
  apply Forall_app_intro; [apply vk_key_only; apply key_only_item|].
  apply Forall_cons; [|apply Forall_nil]. right. split; [reflexivity|].
  exists q, it. split; [apply item_locs_here | reflexivity].
Qed.

Lemma visit_treads_vk cmp asc target wv : forall t b,
  Forall (vk wv t) (fst (fst (visit_treads cmp asc t target wv b))).
Proof.
  induction t as [|nl l IHl il it nn nb r IHr]; intro b; [constructor|].
  cbn [visit_treads]. destruct nl as [p|]; [|constructor]. destruct il as [q|]; [|constructor].
  set (t := T (Some p) l (Some q) it nn nb r).
  assert (HT : forall b', Forall (vk wv t) (fst (fst (visit_treads cmp asc (if asc then l else r) target wv b')))).
  { intro b'. destruct asc; (eapply Forall_impl; [|apply IHl || apply IHr]); intro x;
      [apply vk_l | apply vk_r]. }
  assert (HF : forall b', Forall (vk wv t) (fst (fst (visit_treads cmp asc (if asc then r else l) target wv b')))).
  { intro b'. destruct asc; (eapply Forall_impl; [|apply IHr || apply IHl]); intro x;
      [apply vk_r | apply vk_l]. }
  assert (H0 : Forall (vk wv t) (node_reads p ++ item_reads q it false)).
  { apply vk_key_only. apply Forall_app_intro; [apply key_only_node | apply key_only_item]. }
  pose proof (vk_deliver wv (Some p) l q it nn nb r) as Hv. fold t in Hv.
  destruct (vchoice cmp asc target it).
  - pose proof (HT b) as H1.
    destruct (visit_treads cmp asc (if asc then l else r) target wv b) as [[r1 b1] k1].
    cbn [fst] in H1. destruct k1.
    + destruct b1 as [|b'].
      * cbn [fst]. apply Forall_app_intro; [exact H0|]. apply Forall_app_intro; [exact H1 | exact Hv].
      * pose proof (HF b') as H2.
        destruct (visit_treads cmp asc (if asc then r else l) target wv b') as [[r2 b2] k2].
        cbn [fst] in H2 |- *. apply Forall_app_intro; [exact H0|]. apply Forall_app_intro; [exact H1|].
        apply Forall_app_intro; [exact Hv | exact H2].
    + cbn [fst]. apply Forall_app_intro; assumption.
  - pose proof (HF b) as H2.
    destruct (visit_treads cmp asc (if asc then r else l) target wv b) as [[r2 b2] k2].
    cbn [fst] in H2 |- *. apply Forall_app_intro; assumption.
Qed.

Lemma visit_treads_key_only cmp asc target : forall t b,
  Forall (key_only t) (fst (fst (visit_treads cmp asc t target false b))).
Proof.
  intros t b. eapply Forall_impl; [|apply (visit_treads_vk cmp asc target false t b)].
  intros x [H|[H _]]; [exact H | discriminate H].
Qed.

(* B1 (C19): a key-only visit reads node records, item headers and keys, nothing else *)
Theorem visit_reads_keyonly cmp asc f t l target b fuel :
  rep f t -> persisted t -> root_loc t = l -> (height t <= fuel)%nat ->
  Forall (fun r => in_node t r \/ in_keypart t r)
         (fst (fst (visit_reads fuel cmp asc f l target false b))).
Proof.
  intros Hrep Hper <- Hh. rewrite (visit_reads_tree cmp asc f target false t fuel b) by auto.
  apply visit_treads_key_only.
Qed.

(* B4: with values, every read is a node record, an item header, a key or a value of the tree *)
Theorem visit_reads_true_all cmp asc f t l target b fuel :
  rep f t -> persisted t -> root_loc t = l -> (height t <= fuel)%nat ->
  Forall (fun r => in_node t r \/ in_keypart t r \/ in_value t r)
         (fst (fst (visit_reads fuel cmp asc f l target true b))).
Proof.
  intros Hrep Hper <- Hh. rewrite (visit_reads_tree cmp asc f target true t fuel b) by auto.
  eapply Forall_impl; [|apply (visit_treads_vk cmp asc target true t b)].
  intros x [[H|H]|[_ H]]; [left | right; left | right; right]; exact H.
Qed.

(* ------------------------------------------------------------------ *)
(* B2 (C19): a key-only visit never reads a byte of any value *)
Theorem visit_never_reads_values cmp asc f t l target b fuel :
  rep f t -> persisted t -> root_loc t = l -> (height t <= fuel)%nat -> records_disjoint t ->
  forall r, In r (fst (fst (visit_reads fuel cmp asc f l target false b))) ->
  forall q it, In (q, it) (item_locs t) -> rd_disjoint r (value_range q it).
Proof.
  intros Hrep Hper Hl Hh Hd r Hr q it Hin.
  pose proof (visit_reads_keyonly cmp asc f t l target b fuel Hrep Hper Hl Hh) as H2.
  rewrite Forall_forall in H2.
  apply (key_only_disjoint_value t Hd); auto.
  intros q' it' Hin'. apply (rep_item_lens f t Hrep q' it' Hin').
Qed.

(* ------------------------------------------------------------------ *)
(* 3. agreement with the pure visit (B3) *)

(* on a persisted tree the budget and keepGoing results are those of Treap.visit (at any depth
   and whether or not values are read), and every delivery costs exactly one re-read of the item:
   three ReadAt calls (header, key, value) when values are asked for, none otherwise *)
Lemma visit_treads_visit cmp asc target wv : forall t, persisted t -> forall d b,
  snd (fst (visit_treads cmp asc t target wv b)) = snd (fst (visit cmp asc t target d b)) /\
  snd (visit_treads cmp asc t target wv b) = snd (visit cmp asc t target d b).
Proof.
  induction t as [|nl l IHl il it nn nb r IHr]; intros Hper d b; [split; reflexivity|].
  cbn [persisted] in Hper. destruct Hper as (Hnl & Hil & Pl & Pr).
  destruct nl as [p|]; [|congruence]. destruct il as [q|]; [|congruence].
  assert (HT : forall d' b',
    snd (fst (visit_treads cmp asc (if asc then l else r) target wv b')) =
      snd (fst (visit cmp asc (if asc then l else r) target d' b')) /\
    snd (visit_treads cmp asc (if asc then l else r) target wv b') =
      snd (visit cmp asc (if asc then l else r) target d' b')).
  { intros d' b'. destruct asc; [apply IHl | apply IHr]; assumption. }
  assert (HF : forall d' b',
    snd (fst (visit_treads cmp asc (if asc then r else l) target wv b')) =
      snd (fst (visit cmp asc (if asc then r else l) target d' b')) /\
    snd (visit_treads cmp asc (if asc then r else l) target wv b') =
      snd (visit cmp asc (if asc then r else l) target d' b')).
  { intros d' b'. destruct asc; [apply IHr | apply IHl]; assumption. }
  rewrite visit_T. cbn [visit_treads].
  destruct (vchoice cmp asc target it).
  - destruct (HT (d + 1) b) as [H1 H2].
    destruct (visit_treads cmp asc (if asc then l else r) target wv b) as [[r1 b1] k1].
    destruct (visit cmp asc (if asc then l else r) target (d + 1) b) as [[d1 b1'] k1'].
    cbn [fst snd] in H1, H2. subst b1' k1'.
    destruct k1; [|split; reflexivity]. destruct b1 as [|b']; [split; reflexivity|].
    destruct (HF (d + 1) b') as [H3 H4].
    destruct (visit_treads cmp asc (if asc then r else l) target wv b') as [[r2 b2] k2].
    destruct (visit cmp asc (if asc then r else l) target (d + 1) b') as [[d2 b2'] k2'].
    cbn [fst snd] in H3, H4 |- *. split; assumption.
  - destruct (HF (d + 1) b) as [H3 H4].
    destruct (visit_treads cmp asc (if asc then r else l) target wv b) as [[r2 b2] k2].
    cbn [fst snd] in H3, H4 |- *. split; assumption.
Qed.

(* B3: the budget and keepGoing results of visit_reads are those of the pure visit *)
Theorem visit_reads_agree_with_visit cmp asc f t l target wv b fuel d :
  rep f t -> persisted t -> root_loc t = l -> (height t <= fuel)%nat ->
  let '(_, b', k') := visit_reads fuel cmp asc f l target wv b in
  let '(_, b'', k'') := visit cmp asc t target d b in
  b' = b'' /\ k' = k''.
Proof.
  intros Hrep Hper <- Hh. rewrite (visit_reads_tree cmp asc f target wv t fuel b) by auto.
  pose proof (visit_treads_visit cmp asc target wv t Hper d b) as H.
  destruct (visit_treads cmp asc t target wv b) as [[r1 b1] k1].
  destruct (visit cmp asc t target d b) as [[d2 b2] k2].
  exact H.
Qed.

(* B3, optional part: the number of reads.  With withValue = true the visit issues exactly the
   reads of the key-only visit plus three more (header, key, value: one itemLoc.read with the
   value) per delivery; so the number of value reads equals the number of deliveries. *)
Lemma visit_treads_count cmp asc target : forall t, persisted t -> forall d b,
  length (fst (fst (visit_treads cmp asc t target true b))) =
  (length (fst (fst (visit_treads cmp asc t target false b))) +
   3 * length (fst (fst (visit cmp asc t target d b))))%nat.
Proof.
  induction t as [|nl l IHl il it nn nb r IHr]; intros Hper d b; [reflexivity|].
  assert (Hper' := Hper). cbn [persisted] in Hper'. destruct Hper' as (Hnl & Hil & Pl & Pr).
  destruct nl as [p|]; [|congruence]. destruct il as [q|]; [|congruence].
  assert (PT : persisted (if asc then l else r)) by (destruct asc; assumption).
  assert (PF : persisted (if asc then r else l)) by (destruct asc; assumption).
  assert (HT : forall d' b',
    length (fst (fst (visit_treads cmp asc (if asc then l else r) target true b'))) =
    (length (fst (fst (visit_treads cmp asc (if asc then l else r) target false b'))) +
     3 * length (fst (fst (visit cmp asc (if asc then l else r) target d' b'))))%nat).
  { intros d' b'. destruct asc; [apply IHl | apply IHr]; assumption. }
  assert (HF : forall d' b',
    length (fst (fst (visit_treads cmp asc (if asc then r else l) target true b'))) =
    (length (fst (fst (visit_treads cmp asc (if asc then r else l) target false b'))) +
     3 * length (fst (fst (visit cmp asc (if asc then r else l) target d' b'))))%nat).
  { intros d' b'. destruct asc; [apply IHr | apply IHl]; assumption. }
  rewrite visit_T. cbn [visit_treads].
  destruct (vchoice cmp asc target it).
  - pose proof (HT (d + 1) b) as H1.
    destruct (visit_treads_visit cmp asc target true _ PT (d + 1) b) as [A1 A2].
    destruct (visit_treads_visit cmp asc target false _ PT (d + 1) b) as [A3 A4].
    destruct (visit_treads cmp asc (if asc then l else r) target true b) as [[r1 b1] k1].
    destruct (visit_treads cmp asc (if asc then l else r) target false b) as [[r1' b1'] k1'].
    destruct (visit cmp asc (if asc then l else r) target (d + 1) b) as [[d1 b1''] k1''].
    cbn [fst snd] in H1, A1, A2, A3, A4. subst b1'' k1'' b1' k1'.
    destruct k1.
    + destruct b1 as [|b'].
      * cbn [fst]. unfold item_reads. rewrite ?app_length. cbn [length app]. rewrite ?app_length. cbn [length]. lia.
      * pose proof (HF (d + 1) b') as H2.
        destruct (visit_treads cmp asc (if asc then r else l) target true b') as [[r2 b2] k2].
        destruct (visit_treads cmp asc (if asc then r else l) target false b') as [[r2' b2'] k2'].
        destruct (visit cmp asc (if asc then r else l) target (d + 1) b') as [[d2 b2''] k2''].
        cbn [fst snd] in H2. cbn [fst]. unfold item_reads.
        rewrite ?app_length. cbn [length app]. rewrite ?app_length. cbn [length]. lia.
    + cbn [fst]. rewrite !app_length. lia.
  - pose proof (HF (d + 1) b) as H2.
    destruct (visit_treads cmp asc (if asc then r else l) target true b) as [[r2 b2] k2].
    destruct (visit_treads cmp asc (if asc then r else l) target false b) as [[r2' b2'] k2'].
    destruct (visit cmp asc (if asc then r else l) target (d + 1) b) as [[d2 b2''] k2''].
    cbn [fst snd] in H2 |- *. rewrite !app_length. lia.
Qed.

Theorem visit_value_reads_count cmp asc f t l target b fuel d :
  rep f t -> persisted t -> root_loc t = l -> (height t <= fuel)%nat ->
  length (fst (fst (visit_reads fuel cmp asc f l target true b))) =
  (length (fst (fst (visit_reads fuel cmp asc f l target false b))) +
   3 * length (fst (fst (visit cmp asc t target d b))))%nat.
Proof.
  intros Hrep Hper <- Hh. rewrite !(visit_reads_tree cmp asc f target _ t fuel b) by auto.
  apply visit_treads_count. exact Hper.
Qed.
