(* DecIter.v — part of the decision theorems (see DecBase.v): each file serves a few properties, so that a change of
   the source breaks only the theorems -- and the properties -- it concerns. *)
From GK Require Import Base Treap Codec Blocks GExpr Generated DecBase.
From Coq Require Import ZArith NArith List String Bool Lia.
Import ListNotations.
Open Scope string_scope.
Open Scope list_scope.
Open Scope Z_scope.

Local Arguments Z.gtb : simpl never.
Local Arguments Z.ltb : simpl never.
Local Arguments Z.leb : simpl never.
Local Arguments Z.geb : simpl never.
Local Arguments Z.eqb : simpl never.
Local Arguments Z.quot : simpl never.
Local Arguments Z.rem : simpl never.
Local Arguments Z.add : simpl never.
Local Arguments Z.sub : simpl never.
Local Arguments Z.of_nat : simpl never.

(* 18. iterators (Iter.v): Next on a closed iterator answers false without touching the channels; Close is idempotent *)
Theorem iterator_closed_guards :
  match body "iterator.Next" with SIf [] (GVar "it.closed") [SReturn [GVar "false"]] [] :: _ => True | _ => False end /\
  match body "iterator.Close" with
  | [SIf [] (GVar "it.closed") [SReturn []] []; SExpr (GCall "close" [GVar "it.next"]); SAssign [GVar "it.closed"] "=" [GVar "true"]] => True
  | _ => False
  end.
Proof. split; vm_compute; exact I. Qed.


(* the iterator's two goroutines, statement by statement (the transition system of Iter.v):
   producer (iterate): waits for the first token on `next`; runs the visit, whose visitor sends the item on `items` and
   waits for the next token (a closed `next` ends the visit); at the end closes `items` and drains `next`;
   consumer (Next): a closed iterator answers false; otherwise sends a token, receives an item; a closed `items` or a
   visit error closes `next`, marks the iterator closed and answers false; both channels are unbuffered *)
Theorem iterator_functions :
  body "Collection.iterate" =
    [SDefer (GCall "func() {  close(it.items)   for range it.next {  } }" []);
     SIf [SAssign [GVar "_"; GVar "ok"] ":=" [GUn "<-" (GVar "it.next")]] (GUn "!" (GVar "ok")) [SReturn []] [];
     SAssign [GVar "it.err"] "=" [GCall "v" [GVar "t"; GFun "<lit:Collection.iterate#1>"]]] /\
  body "<lit:Collection.iterate#1>" =
    [SOther "it.items <- i";
     SAssign [GVar "_"; GVar "ok"] ":=" [GUn "<-" (GVar "it.next")];
     SReturn [GVar "ok"]] /\
  body "iterator.Next" =
    [SIf [] (GVar "it.closed") [SReturn [GVar "false"]] [];
     SOther "it.next <- true";
     SAssign [GVar "i"; GVar "ok"] ":=" [GUn "<-" (GVar "it.items")];
     SIf [] (GBin "||" (GUn "!" (GVar "ok")) (GBin "!=" (GVar "it.err") GNil))
       [SExpr (GCall "close" [GVar "it.next"]); SAssign [GVar "it.closed"] "=" [GVar "true"]; SReturn [GVar "false"]] [];
     SAssign [GVar "it.result"] "=" [GVar "i"];
     SReturn [GVar "true"]] /\
  body "newIterator" =
    [SAssign [GVar "it"] ":=" [GOther "iterator{}"];
     SAssign [GVar "it.target"] "=" [GVar "target"];
     SAssign [GVar "it.withValue"] "=" [GVar "withValue"];
     SAssign [GVar "it.next"] "=" [GCall "make" [GOther "chan bool"]];
     SAssign [GVar "it.items"] "=" [GCall "make" [GOther "chan *Item"]];
     SReturn [GUn "&" (GVar "it")]] /\
  body "Collection.IterateAscend" =
    [SAssign [GVar "it"] ":=" [GCall "newIterator" [GVar "target"; GVar "withValue"]];
     SGo (GCall "t.iteratorVisitorAscend" [GVar "it"]);
     SReturn [GVar "it"]].
Proof. repeat split; vm_compute; reflexivity. Qed.
