(* DecIter.v — part of the decision theorems (see DecBase.v): each file serves a few properties, so that a change of
   the source breaks only the theorems -- and the properties -- it concerns. *)
From GK Require Import Base Treap Codec Blocks GExpr Generated DecBase.
From Coq Require Import ZArith NArith List String Bool Lia.
Import ListNotations.
Open Scope string_scope.
Open Scope list_scope.
Open Scope Z_scope.

Local Arguments Z.gtb : simpl never.
Local Arguments Z.ltb : simpl never.
Local Arguments Z.leb : simpl never.
Local Arguments Z.geb : simpl never.
Local Arguments Z.eqb : simpl never.
Local Arguments Z.quot : simpl never.
Local Arguments Z.rem : simpl never.
Local Arguments Z.add : simpl never.
Local Arguments Z.sub : simpl never.
Local Arguments Z.of_nat : simpl never.

(* 18. iterators (Iter.v): Next on a closed iterator answers false without touching the channels; Close is idempotent *)
Theorem iterator_closed_guards :
  match body "iterator.Next" with SIf [] (GVar "it.closed") [SReturn [GVar "false"]] [] :: _ => True | _ => False end /\
  match body "iterator.Close" with
  | [SIf [] (GVar "it.closed") [SReturn []] []; SExpr (GCall "close" [GVar "it.next"]); SAssign [GVar "it.closed"] "=" [GVar "true"]] => True
  | _ => False
  end.
Proof. split; vm_compute; exact I. Qed.

