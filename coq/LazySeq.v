(* LazySeq.v — M4e: the ReadAt calls of a whole SEQUENCE of lookups and mutations on a store that has just been opened:
   what one call loaded stays in memory for the next ("whatever is cached", property C19).
   State: the current tree (persisted records carry their locations, nodes built by mutations none) and, per record
   offset, whether it is in memory and -- for items -- whether with its value.  Every call performs the touches of
   LazyMut (nodeLoc.read / itemLoc.read in the order of the code); a touch costs ReadAt calls only when the record
   is not in memory in the form asked for.  Executable; compared call by call with the implementation. *)
From GK Require Import Base Treap Codec Disk Lazy LazyMut.
From Coq Require Import ZArith List Bool.
Import ListNotations.
Open Scope Z_scope.

(* a touch, possibly asking for the item's value *)
Inductive vtouch := VN (p : ploc) | VI (q : ploc) (it : item) (wv : bool).

Definition of_touch (x : touch) : vtouch := match x with TN p => VN p | TI q it => VI q it false end.

(* memory: record offsets in memory; the flag says "item loaded with its value" (false for nodes and key-only items) *)
Definition mem := list (Z * bool).

Fixpoint mem_find (o : Z) (m : mem) : option bool :=
  match m with
  | [] => None
  | (o', b) :: r => if o =? o' then Some b else mem_find o r
  end.

(* itemLoc.read(withValue): nothing when the item is cached in the form asked for; otherwise header, key and, when asked
   for, the value (a key-only cached item whose value is wanted is read again in full) *)
Fixpoint vreads (m : mem) (ts : list vtouch) : list rd * mem :=
  match ts with
  | [] => ([], m)
  | VN p :: r =>
    match mem_find (poff p) m with
    | Some _ => vreads m r
    | None => let '(rs, m') := vreads ((poff p, false) :: m) r in (node_reads p ++ rs, m')
    end
  | VI q it wv :: r =>
    match mem_find (poff q) m with
    | Some hasv =>
      if negb wv || hasv then vreads m r
      else let '(rs, m') := vreads ((poff q, true) :: m) r in (item_reads q it true ++ rs, m')
    | None => let '(rs, m') := vreads ((poff q, wv) :: m) r in (item_reads q it wv ++ rs, m')
    end
  end.

(* Store.walk (MinItem / MaxItem): node records down one spine, then the item of the last node *)
Fixpoint walk_t (left wv : bool) (t : tree) : list vtouch :=
  match t with
  | E => []
  | T nl l il it _ _ r =>
    let here := match il with Some q => [VI q it wv] | None => [] end in
    (match nl with Some p => [VN p] | None => [] end) ++
    (if left then match l with E => here | _ => walk_t left wv l end
     else match r with E => here | _ => walk_t left wv r end)
  end.

(* GetItem(key, withValue): the key-only touches of the search path, then the found item again with its value *)
Fixpoint getv_t (cmp : bytes -> bytes -> comparison) (t : tree) (k : bytes) (wv : bool) : list vtouch :=
  match t with
  | E => []
  | T nl l il it _ _ r =>
    (match nl with Some p => [VN p] | None => [] end) ++
    (match il with Some q => [VI q it false] | None => [] end) ++
    match cmp k (ikey it) with
    | Lt => getv_t cmp l k wv
    | Gt => getv_t cmp r k wv
    | Eq => if wv then (match il with Some q => [VI q it true] | None => [] end) else []
    end
  end.

Inductive sop :=
| SGet (k : bytes) (wv : bool)          (* GetItem / Get / Exist *)
| SMin (wv : bool) | SMax (wv : bool)
| SSet (k v : bytes) (prio : Z)
| SDel (k : bytes).

(* one call: its ReadAt calls, the memory and the tree afterwards *)
Definition sstep (cmp : bytes -> bytes -> comparison) (t : tree) (m : mem) (o : sop) : list rd * tree * mem :=
  match o with
  | SGet k wv => let '(rs, m') := vreads m (getv_t cmp t k wv) in (rs, t, m')
  | SMin wv => let '(rs, m') := vreads m (walk_t true wv t) in (rs, t, m')
  | SMax wv => let '(rs, m') := vreads m (walk_t false wv t) in (rs, t, m')
  | SSet k v prio =>
    let '(rs, m') := vreads m (map of_touch (set_touches cmp t k (Some v) prio)) in
    (rs, match set_item cmp t k (Some v) prio with Some t' => t' | None => t end, m')
  | SDel k =>
    let '(rs, m') := vreads m (map of_touch (del_touches cmp t k)) in
    (rs, fst (delete cmp t k), m')
  end.

Fixpoint srun_reads (cmp : bytes -> bytes -> comparison) (t : tree) (m : mem) (ops : list sop) : list (list rd) :=
  match ops with
  | [] => []
  | o :: r => let '(rs, t', m') := sstep cmp t m o in rs :: srun_reads cmp t' m' r
  end.

(* from the file: the tree of collection root l as the independent decoder loads it, nothing in memory *)
Definition seq_reads_file (cmp : bytes -> bytes -> comparison) (f : file) (l : option ploc) (b : Z) (ops : list sop)
  : option (list (list rd)) :=
  match load (S (length f)) f l b (S (length f)) with
  | Some (t, _) => Some (srun_reads cmp t [] ops)
  | None => None
  end.
