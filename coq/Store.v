(* Store.v — the store-level step function run against the implementation:
   collections by name, each a treap under its comparator; the stack of
   flushed states stands for the durable file contents (its byte-level
   refinement is Disk.v's business). *)
From GK Require Import Base Treap.

Inductive op :=
| OColl (name : bytes) (cmpid : nat)
| ORmColl (name : bytes)
| ONames
| OSet (name key : bytes) (val : option bytes) (prio : Z)
| ODel (name key : bytes)
| OGet (name key : bytes)
| OGetItem (name key : bytes) (wv : bool)
| OExist (name key : bytes)
| OMin (name : bytes) (wv : bool)
| OMax (name : bytes) (wv : bool)
| OTotals (name : bytes)
| OFlush
| OEvict (name : bytes)
| OReopen
| ORevert
| OVisit (asc : bool) (name target : bytes) (wv : bool) (stop : option nat)
| OLen (name : bytes).

Inductive out :=
| RNoColl | RNoFile | ROk | RErr
| RBool (b : bool)
| RVal (v : option bytes)
| RItem (i : option item) (wv : bool)
| RTotals (n b : Z)
| RNames (l : list bytes)
| RVisit (l : list (item * Z)) (wv : bool)
| RLen (n : Z).

Record coll := mkColl { c_cmp : nat; c_tree : tree }.

Definition colls := list (bytes * coll).   (* kept sorted by name (bytewise) *)

Fixpoint cget {A} (m : list (bytes * A)) (n : bytes) : option A :=
  match m with
  | [] => None
  | (k, v) :: m' => match cmp_bytes n k with Eq => Some v | _ => cget m' n end
  end.

Fixpoint cset {A} (m : list (bytes * A)) (n : bytes) (c : A) : list (bytes * A) :=
  match m with
  | [] => [(n, c)]
  | (k, v) :: m' =>
    match cmp_bytes n k with
    | Eq => (n, c) :: m'
    | Lt => (n, c) :: (k, v) :: m'
    | Gt => (k, v) :: cset m' n c
    end
  end.

Fixpoint cdel {A} (m : list (bytes * A)) (n : bytes) : list (bytes * A) :=
  match m with
  | [] => []
  | (k, v) :: m' => match cmp_bytes n k with Eq => m' | _ => (k, v) :: cdel m' n end
  end.

Record store := mkStore {
  s_file : bool;                 (* file-backed? *)
  s_cur : colls;                 (* current collections *)
  s_flushed : list colls;        (* states of the successful flushes, newest first *)
  s_cmpreg : list (bytes * nat)  (* comparator the application supplies per name on re-open *)
}.

Definition init (file : bool) : store := mkStore file [] [] [].

Definition recmp (reg : list (bytes * nat)) (cs : colls) : colls :=
  map (fun nc => (fst nc, mkColl (match cget reg (fst nc) with Some i => i | None => O end)
                                 (c_tree (snd nc)))) cs.

Definition with_cur (s : store) (c : colls) : store :=
  mkStore (s_file s) c (s_flushed s) (s_cmpreg s).

Definition visit_budget (t : tree) (stop : option nat) : nat :=
  match stop with Some n => n | None => size t end.

Definition step (s : store) (o : op) : store * out :=
  let on (name : bytes) (f : coll -> store * out) : store * out :=
    match cget (s_cur s) name with None => (s, RNoColl) | Some c => f c end in
  match o with
  | OColl name id =>
    let t := match cget (s_cur s) name with Some c => c_tree c | None => E end in
    (mkStore (s_file s) (cset (s_cur s) name (mkColl id t)) (s_flushed s) (cset (s_cmpreg s) name id), ROk)
  | ORmColl name => (with_cur s (cdel (s_cur s) name), ROk)
  | ONames => (s, RNames (map fst (s_cur s)))
  | OSet name key val prio => on name (fun c =>
      match set_item (cmp_of (c_cmp c)) (c_tree c) key val prio with
      | Some t' => (with_cur s (cset (s_cur s) name (mkColl (c_cmp c) t')), ROk)
      | None => (s, RErr)
      end)
  | ODel name key => on name (fun c =>
      let '(t', b) := delete (cmp_of (c_cmp c)) (c_tree c) key in
      (with_cur s (cset (s_cur s) name (mkColl (c_cmp c) t')), RBool b))
  | OGet name key => on name (fun c =>
      (s, RVal (option_map ival (lookup (cmp_of (c_cmp c)) (c_tree c) key))))
  | OGetItem name key wv => on name (fun c => (s, RItem (lookup (cmp_of (c_cmp c)) (c_tree c) key) wv))
  | OExist name key => on name (fun c =>
      (s, RBool (match lookup (cmp_of (c_cmp c)) (c_tree c) key with Some _ => true | None => false end)))
  | OMin name wv => on name (fun c => (s, RItem (tmin (c_tree c)) wv))
  | OMax name wv => on name (fun c => (s, RItem (tmax (c_tree c)) wv))
  | OTotals name => on name (fun c => let '(n, b) := totals (c_tree c) in (s, RTotals n b))
  | OFlush =>
    if s_file s then (mkStore true (s_cur s) (s_cur s :: s_flushed s) (s_cmpreg s), ROk)
    else (s, RErr)
  | OEvict name => on name (fun _ => (s, ROk))
  | OReopen =>
    if s_file s then
      (with_cur s (recmp (s_cmpreg s) (match s_flushed s with c :: _ => c | [] => [] end)), ROk)
    else (s, RNoFile)
  | ORevert =>
    if s_file s then
      let fl := tl (s_flushed s) in
      (mkStore true (recmp (s_cmpreg s) (match fl with c :: _ => c | [] => [] end)) fl (s_cmpreg s), ROk)
    else (s, RErr)
  | OVisit asc name target wv stop => on name (fun c =>
      let '(d, _, _) := visit (cmp_of (c_cmp c)) asc (c_tree c) target 0 (visit_budget (c_tree c) stop) in
      (s, RVisit d wv))
  | OLen name => on name (fun c => (s, RLen (Z.of_nat (size (c_tree c)))))
  end.

Fixpoint run (s : store) (ops : list op) : list out :=
  match ops with
  | [] => []
  | o :: ops' => let '(s', r) := step s o in r :: run s' ops'
  end.
