(* Base.v — shared types: bytes, items, comparators and their laws. *)
From Coq Require Export List ZArith NArith Lia Bool.
Export ListNotations.
Open Scope Z_scope.

(* A byte is an N below 256; keys, values, names and files are lists of bytes. *)
Definition bytes := list N.

Fixpoint byte_ok (b : bytes) : bool :=
  match b with [] => true | x :: xs => (x <? 256)%N && byte_ok xs end.

Definition blen (b : bytes) : Z := Z.of_nat (length b).

Record item := mkItem { ikey : bytes; ival : bytes; iprio : Z }.

Definition item_bytes (i : item) : Z := blen (ikey i) + blen (ival i).

(* ------------------------------------------------------------------ *)
(* Comparators: total preorders given as a three-way comparison.       *)

Record cmp_laws (cmp : bytes -> bytes -> comparison) : Prop := {
  cmp_refl : forall a, cmp a a = Eq;
  cmp_opp : forall a b, cmp b a = CompOpp (cmp a b);
  cmp_lt_trans : forall a b c, cmp a b = Lt -> cmp b c = Lt -> cmp a c = Lt;
  cmp_eq_l : forall a b c, cmp a b = Eq -> cmp a c = cmp b c
}.

(* bytes.Compare: lexicographic, shorter is smaller *)
Fixpoint cmp_bytes (a b : bytes) : comparison :=
  match a, b with
  | [], [] => Eq
  | [], _ :: _ => Lt
  | _ :: _, [] => Gt
  | x :: xs, y :: ys =>
    match (x ?= y)%N with
    | Eq => cmp_bytes xs ys
    | c => c
    end
  end.

Definition cmp_rev (a b : bytes) : comparison := cmp_bytes b a.

Definition cmp_len (a b : bytes) : comparison :=
  match Nat.compare (length a) (length b) with
  | Eq => cmp_bytes a b
  | c => c
  end.

(* ASCII lower-casing of one byte: 'A'..'Z' -> 'a'..'z' *)
Definition lower (x : N) : N :=
  if ((65 <=? x) && (x <=? 90))%N then (x + 32)%N else x.

Definition cmp_fold (a b : bytes) : comparison := cmp_bytes (map lower a) (map lower b).

(* comparator ids shared with the harness: 0 bytes.Compare, 1 reversed,
   2 length-then-bytes, 3 ASCII case-insensitive *)
Definition cmp_of (id : nat) : bytes -> bytes -> comparison :=
  match id with
  | 1%nat => cmp_rev
  | 2%nat => cmp_len
  | 3%nat => cmp_fold
  | _ => cmp_bytes
  end.
