(* DecRecord.v — part of the decision theorems (see DecBase.v): each file serves a few properties, so that a change of
   the source breaks only the theorems -- and the properties -- it concerns. *)
From GK Require Import Base Treap Codec Blocks GExpr Generated DecBase.
From Coq Require Import ZArith NArith List String Bool Lia.
Import ListNotations.
Open Scope string_scope.
Open Scope list_scope.
Open Scope Z_scope.

Local Arguments Z.gtb : simpl never.
Local Arguments Z.ltb : simpl never.
Local Arguments Z.leb : simpl never.
Local Arguments Z.geb : simpl never.
Local Arguments Z.eqb : simpl never.
Local Arguments Z.quot : simpl never.
Local Arguments Z.rem : simpl never.
Local Arguments Z.add : simpl never.
Local Arguments Z.sub : simpl never.
Local Arguments Z.of_nat : simpl never.

(* 6. ploc.isEmpty: a location is empty iff it is nil or offset = 0 and length = 0: what Codec.dec_ploc decodes as None *)
Theorem ploc_is_empty_decision :
  exists c, choice_of "ploc.isEmpty" = Some c /\
    forall o l : Z, gtrue (upd (upd (upd env0 "p" 1) "p.Offset" o) "p.Length" l) c = Some ((o =? 0) && (l =? 0)).
Proof.
  eexists. split; [vm_compute; reflexivity|]. intros o l. unfold gtrue. cbn.
  destruct (o =? 0); destruct (l =? 0); reflexivity.
Qed.

Theorem item_length_check_decision :
  exists c, decisions "itemLoc.read" "ds.getLength" = [c] /\
    forall len kl vl : Z,
      gtrue (upd (upd (upd env0 "ds.getLength()" len) "uint32(keyLength)" kl) "valLength" vl) c =
      Some (negb (len =? item_hdr_len + kl + vl)).
Proof.
  eexists. split; [vm_compute; reflexivity|]. intros len kl vl. unfold gtrue. cbn.
  change item_hdr_len with 16. destruct (len =? 16 + kl + vl); reflexivity.
Qed.

Theorem item_short_loc_decision :
  exists c, decisions "itemLoc.read" "loc.Length" = [c] /\
    forall l : Z, gtrue (upd env0 "loc.Length" l) c = Some (l <? item_hdr_len).
Proof.
  eexists. split; [vm_compute; reflexivity|]. intro l. unfold gtrue. cbn. change item_hdr_len with 16.
  destruct (l <? 16); reflexivity.
Qed.

(* 9. root record checks (store.go checkAndReadRoots / validateAndSetCollections) as in Codec.root_at: version, the two
   length fields, and the recorded offset with the length it implies *)
Theorem root_version_decision :
  exists c, decisions "Store.validateAndSetCollections" "version" = [c] /\
    forall v : Z, gtrue (upd env0 "version" v) c = Some (negb (v =? version)).
Proof.
  eexists. split; [vm_compute; reflexivity|]. intro v. unfold gtrue. cbn. change version with 4.
  destruct (v =? 4); reflexivity.
Qed.

Theorem root_length_decision :
  exists c, decisions "Store.validateAndSetCollections" "length0" = [c] /\
    forall a b : Z, gtrue (upd (upd env0 "length0" a) "length" b) c = Some (negb (a =? b)).
Proof.
  eexists. split; [vm_compute; reflexivity|]. intros a b. unfold gtrue. cbn. destruct (a =? b); reflexivity.
Qed.

