(* DecCallbacks.v — part of the decision theorems (see DecBase.v): each file serves a few properties, so that a change of
   the source breaks only the theorems -- and the properties -- it concerns. *)
From GK Require Import Base Treap Codec Blocks GExpr Generated DecBase.
From Coq Require Import ZArith NArith List String Bool Lia.
Import ListNotations.
Open Scope string_scope.
Open Scope list_scope.
Open Scope Z_scope.

Local Arguments Z.gtb : simpl never.
Local Arguments Z.ltb : simpl never.
Local Arguments Z.leb : simpl never.
Local Arguments Z.geb : simpl never.
Local Arguments Z.eqb : simpl never.
Local Arguments Z.quot : simpl never.
Local Arguments Z.rem : simpl never.
Local Arguments Z.add : simpl never.
Local Arguments Z.sub : simpl never.
Local Arguments Z.of_nat : simpl never.

(* ------------------------------------------------------------------------------------------- *)
(* 22. the StoreCallbacks wrappers (C17): when a callback is installed its result is used verbatim, with the arguments
   the wrapper was given; otherwise the default is one WriteAt of Item.Val / a fresh buffer of valLength bytes filled by
   one ReadAt / len(Item.Val) / a fresh Item with a key buffer; the reference hooks do nothing unless installed *)
Theorem callback_wrappers :
  body "Store.ItemValWrite" =
    [SIf [] (GBin "!=" (GVar "s.callbacks.ItemValWrite") GNil)
       [SReturn [GCall "s.callbacks.ItemValWrite" [GVar "c"; GVar "i"; GVar "w"; GVar "offset"]]] [];
     SAssign [GVar "_"; GVar "err"] ":=" [GCall "w.WriteAt" [GVar "i.Val"; GVar "offset"]];
     SReturn [GVar "err"]] /\
  body "Store.ItemValRead" =
    [SIf [] (GBin "!=" (GVar "s.callbacks.ItemValRead") GNil)
       [SReturn [GCall "s.callbacks.ItemValRead" [GVar "c"; GVar "i"; GVar "r"; GVar "offset"; GVar "valLength"]]] [];
     SAssign [GVar "i.Val"] "=" [GCall "make" [GOther "[]byte"; GVar "valLength"]];
     SAssign [GVar "_"; GVar "err"] ":=" [GCall "r.ReadAt" [GVar "i.Val"; GVar "offset"]];
     SReturn [GVar "err"]] /\
  body "Item.NumValBytes" =
    [SIf [] (GBin "!=" (GVar "c.store.callbacks.ItemValLength") GNil)
       [SReturn [GCall "c.store.callbacks.ItemValLength" [GVar "c"; GVar "i"]]] [];
     SReturn [GCall "len" [GVar "i.Val"]]] /\
  body "Store.ItemAlloc" =
    [SIf [] (GBin "!=" (GVar "s.callbacks.ItemAlloc") GNil)
       [SReturn [GCall "s.callbacks.ItemAlloc" [GVar "c"; GVar "keyLength"]]] [];
     SReturn [GUn "&" (GOther "Item{Key: make([]byte, keyLength)}")]] /\
  body "Store.ItemAddRef" =
    [SIf [] (GBin "!=" (GVar "s.callbacks.ItemAddRef") GNil) [SExpr (GCall "s.callbacks.ItemAddRef" [GVar "c"; GVar "i"])] []] /\
  body "Store.ItemDecRef" =
    [SIf [] (GBin "!=" (GVar "s.callbacks.ItemDecRef") GNil) [SExpr (GCall "s.callbacks.ItemDecRef" [GVar "c"; GVar "i"])] []].
Proof. repeat split; vm_compute; reflexivity. Qed.

(* before-write / after-read hooks: used only when installed, on the item about to be written / just read *)
Theorem item_hooks_guarded :
  In (GBin "!=" (GVar "c.store.callbacks.BeforeItemWrite") GNil) (conds 400 (body "itemLoc.write")) /\
  In (GBin "!=" (GVar "c.store.callbacks.AfterItemRead") GNil) (conds 400 (body "itemLoc.read")) /\
  In ("c.store.callbacks.BeforeItemWrite", [GVar "c"; GVar "iItem"]) (calls_a 400 (body "itemLoc.write")) /\
  In ("c.store.callbacks.AfterItemRead", [GVar "c"; GVar "i"]) (calls_a 400 (body "itemLoc.read")).
Proof. repeat split; in_tac. Qed.

