(* DFaultHist.v — whole histories in which Flush calls fail at a WriteAt call and are retried
   (DFaultRun.dfrun): the failed attempts are invisible.  The retried Flush leaves the byte-level
   store in exactly the state of a Flush that never failed (H2), so a history with failed and
   retried Flush calls answers on every completed call, and leaves the same files, as the history
   without the failed attempts (H3); with DStoreRefine's history theorem this is the abstract
   store (H4).  The failed attempts themselves all return an error (H5). *)
From GK Require Import Base Treap Store StoreSpec StoreRefine Codec CodecProofs Disk DiskProofs DStore DStoreRefine DiskFault DiskFaultProofs DFaultRun.
From Coq Require Import Lia ZArith NArith List Bool.
Import ListNotations.
Open Scope Z_scope.

(* ------------------------------------------------------------------ *)
(* definitions *)

(* the retry discipline: a failed Flush is followed by further failed attempts and then the Flush again *)
Fixpoint retried (ops : list fop) : Prop :=
  match ops with
  | [] => True
  | FOp _ :: r => retried r
  | FFlushFail _ _ :: r =>
    match r with
    | FFlushFail _ _ :: _ => retried r
    | FOp OFlush :: _ => retried r
    | _ => False
    end
  end.

(* every planned fault really fires (its call number lies inside the Flush it is planned for) *)
Fixpoint faults_fire (s : dstore) (ops : list fop) : Prop :=
  match ops with
  | [] => True
  | o :: r =>
    (match o with FFlushFail k _ => (k < flush_calls (d_cur s))%nat | FOp _ => True end) /\
    faults_fire (fst (dfstep s o)) r
  end.

(* size stays inside the file *)
Definition dsz (s : dstore) : Prop := 0 <= d_size s <= blen (d_file s).

(* the answers and files of the calls that are not failed attempts *)
Fixpoint completed (ops : list fop) (res : list (out * file)) : list (out * file) :=
  match ops, res with
  | FOp _ :: ops', x :: res' => x :: completed ops' res'
  | FFlushFail _ _ :: ops', _ :: res' => completed ops' res'
  | _, _ => []
  end.

(* ------------------------------------------------------------------ *)
(* H1: dstep / dfstep keep size inside the file *)

Lemma flush_bytes_dsz f size cs f' size' cs' :
  0 <= size <= blen f -> flush_bytes f size cs = (f', size', cs') -> 0 <= size' <= blen f'.
Proof.
  intros Hs E.
  pose proof (flush_fault_none (flush_calls cs) 0 f size cs ltac:(lia) (le_n _)) as N.
  rewrite E in N.
  destruct (flush_fault_durable _ _ _ _ _ _ _ _ _ Hs N) as (_ & D). lia.
Qed.

Lemma nondisk_dsz s o :
  dsz s ->
  dsz (fst (let '(s', r) := step (mkStore true (d_cur s) [] (d_cmpreg s)) o in
            (mkDStore (d_file s) (d_size s) (s_cur s') (s_cmpreg s'), r))).
Proof.
  intros H. destruct (step (mkStore true (d_cur s) [] (d_cmpreg s)) o) as [s1 r1].
  exact H.
Qed.

Lemma dstep_dsz s o : dsz s -> dsz (fst (dstep s o)).
Proof.
  intros H.
  destruct o;
    try (unfold dstep; apply (nondisk_dsz s _ H)).
  - (* OFlush *)
    unfold dstep.
    destruct (flush_bytes (d_file s) (d_size s) (d_cur s)) as [[f' size'] cs'] eqn:E.
    cbn [fst]. unfold dsz. cbn [d_size d_file].
    eapply flush_bytes_dsz; [exact H | exact E].
  - (* OReopen *)
    unfold dstep. destruct (decode_store (d_file s)) as [| | |e cs] eqn:E; cbn [fst]; try exact H.
    + unfold dsz. cbn [d_size d_file]. pose proof (blen_nonneg (d_file s)). lia.
    + unfold dsz. cbn [d_size d_file].
      unfold decode_store in E.
      destruct (blen (d_file s) =? 0); [discriminate|].
      destruct (scan (d_file s) (blen (d_file s))) as [| |e1 m] eqn:Es; try discriminate.
      destruct (load_all (d_file s) m e1); [|discriminate].
      injection E as E1 E2. subst e1.
      destruct (scan_found _ _ _ _ Es) as (S1 & S2 & _).
      change roots_len with 44 in S2. lia.
  - (* ORevert *)
    unfold dstep.
    destruct (revert_bytes (d_file s) (d_size s)) as [[f' e] m] eqn:E.
    destruct (load_all f' m e); cbn [fst]; [|exact H].
    unfold dsz. cbn [d_size d_file].
    unfold revert_bytes in E.
    set (size1 := if roots_len <? d_size s then d_size s - 1 else d_size s) in E.
    destruct (scan (d_file s) size1) as [| |e1 m1] eqn:Es.
    + injection E as <- <- <-. rewrite blen_nil. lia.
    + injection E as <- <- <-. rewrite blen_nil. lia.
    + injection E as <- <- <-.
      destruct (scan_found _ _ _ _ Es) as (S1 & S2 & S3 & _).
      pose proof (root_at_le_blen _ _ _ S3) as S4.
      change roots_len with 44 in S2.
      unfold blen in *. rewrite firstn_length. lia.
Qed.

Lemma dfstep_dsz s o : dsz s -> dsz (fst (dfstep s o)).
Proof.
  intros H. destruct o as [o|k torn]; [apply dstep_dsz; exact H|].
  unfold dfstep.
  destruct (flush_fault k torn (d_file s) (d_size s) (d_cur s)) as [[[f' size'] cs'] b] eqn:E.
  cbn [fst]. unfold dsz. cbn [d_size d_file].
  destruct (flush_fault_durable _ _ _ _ _ _ _ _ _ H E) as (_ & D). unfold dsz in H. lia.
Qed.

Print Assumptions dstep_dsz.
Print Assumptions dfstep_dsz.

(* ------------------------------------------------------------------ *)
(* one failed attempt whose fault fires: it returns an error, and a Flush after it is the Flush
   before it *)

Lemma dfstep_fail_err s k torn :
  (k < flush_calls (d_cur s))%nat -> snd (dfstep s (FFlushFail k torn)) = RErr.
Proof.
  intros Hk. unfold dfstep.
  destruct (flush_fault k torn (d_file s) (d_size s) (d_cur s)) as [[[f' size'] cs'] b] eqn:E.
  rewrite (flush_fault_fails _ _ _ _ _ _ _ _ _ Hk E). reflexivity.
Qed.

Lemma dfstep_fail_flush s k torn :
  dsz s -> (k < flush_calls (d_cur s))%nat ->
  dstep (fst (dfstep s (FFlushFail k torn))) OFlush = dstep s OFlush.
Proof.
  intros Hs Hk. unfold dfstep.
  destruct (flush_fault k torn (d_file s) (d_size s) (d_cur s)) as [[[f' size'] cs'] b] eqn:E.
  pose proof (flush_fault_fails _ _ _ _ _ _ _ _ _ Hk E) as ->.
  cbn [fst]. unfold dstep. cbn [d_file d_size d_cur d_cmpreg].
  rewrite (flush_retry_same _ _ _ _ _ _ _ _ Hs E). reflexivity.
Qed.

(* ------------------------------------------------------------------ *)
(* H2 (main): failed attempts followed by the retry are invisible *)
Theorem failed_attempts_then_flush : forall attempts s,
  dsz s ->
  Forall (fun o => exists k torn, o = FFlushFail k torn) attempts ->
  faults_fire s attempts ->
  let s1 := fold_left (fun st o => fst (dfstep st o)) attempts s in
  dstep s1 OFlush = dstep s OFlush.
Proof.
  induction attempts as [|a attempts IH]; intros s Hs Hall Hf; [reflexivity|].
  cbn [fold_left].
  inversion Hall as [|? ? (k & torn & Ha) Hall']; subst.
  cbn [faults_fire] in Hf. destruct Hf as (Hk & Hf).
  pose proof (IH _ (dfstep_dsz s _ Hs) Hall' Hf) as IH'. cbv zeta in IH'.
  rewrite IH'. apply dfstep_fail_flush; assumption.
Qed.
Print Assumptions failed_attempts_then_flush.

(* ------------------------------------------------------------------ *)
(* H3: the whole history *)

(* what may follow a failed attempt *)
Definition pending (ops : list fop) : Prop :=
  match ops with
  | FFlushFail _ _ :: _ => True
  | FOp OFlush :: _ => True
  | _ => False
  end.

Lemma retried_fail_inv k torn r : retried (FFlushFail k torn :: r) -> retried r /\ pending r.
Proof.
  destruct r as [|[o|k' t'] r'].
  - intros H. exact (False_ind _ H).
  - destruct o; intros H; try exact (False_ind _ H). split; [exact H|exact I].
  - intros H. split; [exact H|exact I].
Qed.

(* the faulted run is in state s' (after some failed attempts), the stripped run in state s *)
Lemma dfrun_retry_gen : forall ops s' s,
  dsz s' -> retried ops -> faults_fire s' ops ->
  (s' = s \/ (dstep s' OFlush = dstep s OFlush /\ pending ops)) ->
  completed ops (dfrun s' ops) = combine (drun s (strip ops)) (dfiles s (strip ops)).
Proof.
  induction ops as [|o ops IH]; intros s' s Hs Hr Hf Hrel; [reflexivity|].
  cbn [faults_fire] in Hf. destruct Hf as (Hk & Hf).
  destruct o as [o|k torn].
  - (* a completed call *)
    assert (Hstep : dstep s' o = dstep s o).
    { destruct Hrel as [->|(He & Hp)]; [reflexivity|].
      cbn [pending] in Hp. destruct o; try contradiction. exact He. }
    cbn [retried] in Hr.
    pose proof (dfstep_dsz s' (FOp o) Hs) as Hs1.
    cbn [dfrun strip drun dfiles]. cbn [dfstep] in Hf, Hs1 |- *.
    rewrite Hstep in Hf, Hs1 |- *.
    destruct (dstep s o) as [s1 r1]. cbn [fst] in Hf, Hs1.
    cbn [completed combine]. f_equal.
    apply IH; auto.
  - (* a failed attempt *)
    destruct (retried_fail_inv _ _ _ Hr) as (Hr' & Hp).
    pose proof (dfstep_dsz s' (FFlushFail k torn) Hs) as Hs1.
    pose proof (dfstep_fail_flush s' k torn Hs Hk) as He.
    cbn [dfrun strip].
    destruct (dfstep s' (FFlushFail k torn)) as [s1 r1]. cbn [fst] in Hf, Hs1, He.
    cbn [completed].
    apply IH; auto. right. split; [|exact Hp].
    rewrite He. destruct Hrel as [->|(He' & _)]; [reflexivity|exact He'].
Qed.

Theorem dfrun_retry_invisible : forall ops s,
  dsz s -> retried ops -> faults_fire s ops ->
  completed ops (dfrun s ops) = combine (drun s (strip ops)) (dfiles s (strip ops)).
Proof. intros ops s Hs Hr Hf. apply dfrun_retry_gen; auto. Qed.
Print Assumptions dfrun_retry_invisible.

(* ------------------------------------------------------------------ *)
(* H5: the failed attempts themselves all return an error *)
Theorem failed_attempts_err : forall ops s i k torn,
  faults_fire s ops -> nth_error ops i = Some (FFlushFail k torn) ->
  exists f, nth_error (dfrun s ops) i = Some (RErr, f).
Proof.
  induction ops as [|o ops IH]; intros s i k torn Hf Hn.
  - destruct i; discriminate.
  - cbn [faults_fire] in Hf. destruct Hf as (Hk & Hf).
    destruct i as [|i]; cbn [nth_error] in Hn.
    + injection Hn as ->. pose proof (dfstep_fail_err s k torn Hk) as He.
      cbn [dfrun]. destruct (dfstep s (FFlushFail k torn)) as [s1 r1]. cbn [snd] in He. subst r1.
      exists (d_file s1). reflexivity.
    + cbn [dfrun]. destruct (dfstep s o) as [s1 r1]. cbn [fst] in Hf.
      cbn [nth_error]. eapply IH; eauto.
Qed.
Print Assumptions failed_attempts_err.

(* ------------------------------------------------------------------ *)
(* H4: with C02's history theorem, the abstract store *)
Lemma map_fst_combine_run : forall ops s, map fst (combine (drun s ops) (dfiles s ops)) = drun s ops.
Proof.
  induction ops as [|o ops IH]; intros s; [reflexivity|].
  cbn [drun dfiles]. destruct (dstep s o) as [s1 r1]. cbn [combine map fst]. now rewrite IH.
Qed.

Theorem dfrun_refines_store : forall ops,
  retried ops -> faults_fire dinit ops ->
  ops_ok [] (strip ops) -> history_ok (strip ops) ->
  map fst (completed ops (dfrun dinit ops)) = run (init true) (strip ops).
Proof.
  intros ops Hr Hf Hops Hh.
  assert (Hs : dsz dinit) by (unfold dsz; cbn [dinit d_size d_file]; rewrite blen_nil; lia).
  rewrite (dfrun_retry_invisible ops dinit Hs Hr Hf), map_fst_combine_run.
  apply dstore_refines_store_exact; assumption.
Qed.
Print Assumptions dfrun_refines_store.

(* ------------------------------------------------------------------ *)
(* non-vacuity: DStoreRefine.ex_history with two failed attempts before the first Flush (the first
   call fails after 3 bytes; then the second call, the value of the first item, fails at once) and one
   failed attempt before the second Flush *)
Definition ex_fhistory : list fop :=
  [ FOp (OColl [97]%N 0); FOp (OColl [98]%N 1);
    FOp (OSet [97]%N [107; 49]%N (Some [118; 49]%N) 5);
    FOp (OSet [98]%N [107; 50]%N (Some [118; 50; 0; 255]%N) 7);
    FFlushFail 0 3; FFlushFail 1 0;
    FOp OFlush;
    FOp (OSet [97]%N [107; 51]%N (Some [118; 51]%N) 3);
    FOp (ODel [98]%N [107; 50]%N);
    FFlushFail 0 3;
    FOp OFlush;
    FOp OReopen;
    FOp (OGet [97]%N [107; 51]%N); FOp (OGet [98]%N [107; 50]%N);
    FOp ORevert;
    FOp (OGet [97]%N [107; 51]%N); FOp (OGet [98]%N [107; 50]%N); FOp (OGet [97]%N [107; 49]%N);
    FOp ORevert;
    FOp ONames ].

Lemma ex_fhistory_strip : strip ex_fhistory = ex_history.
Proof. reflexivity. Qed.

Example ex_retried : exists ops, retried ops /\ faults_fire dinit ops /\ (2 <= length (filter (fun o => match o with FFlushFail _ _ => true | _ => false end) ops))%nat
   /\ ops_ok [] (strip ops) /\ history_ok (strip ops).
Proof.
  exists ex_fhistory.
  split; [cbn; exact I|].
  split; [vm_compute; repeat split; lia|].
  split; [vm_compute; lia|].
  rewrite ex_fhistory_strip. exact ex_history_ok.
Qed.
Print Assumptions ex_retried.

(* what the example does: the three failed attempts answer RErr, the completed calls answer like
   ex_history, and the files after the two retried Flush calls are those of the unfailed run *)
Example ex_fhistory_run :
  map fst (dfrun dinit ex_fhistory) =
  [ ROk; ROk; ROk; ROk; RErr; RErr; ROk; ROk; RBool true; RErr; ROk; ROk;
    RVal (Some [118; 51]%N); RVal None;
    ROk;
    RVal None; RVal (Some [118; 50; 0; 255]%N); RVal (Some [118; 49]%N);
    ROk;
    RNames [] ] /\
  map fst (completed ex_fhistory (dfrun dinit ex_fhistory)) = drun dinit ex_history /\
  map snd (completed ex_fhistory (dfrun dinit ex_fhistory)) = dfiles dinit ex_history.
Proof. vm_compute. repeat split. Qed.
Print Assumptions ex_fhistory_run.
