(* DecRoot.v — part of the decision theorems (see DecBase.v): each file serves a few properties, so that a change of
   the source breaks only the theorems -- and the properties -- it concerns. *)
From GK Require Import Base Treap Codec Blocks GExpr Generated DecBase.
From Coq Require Import ZArith NArith List String Bool Lia.
Import ListNotations.
Open Scope string_scope.
Open Scope list_scope.
Open Scope Z_scope.

Local Arguments Z.gtb : simpl never.
Local Arguments Z.ltb : simpl never.
Local Arguments Z.leb : simpl never.
Local Arguments Z.geb : simpl never.
Local Arguments Z.eqb : simpl never.
Local Arguments Z.quot : simpl never.
Local Arguments Z.rem : simpl never.
Local Arguments Z.add : simpl never.
Local Arguments Z.sub : simpl never.
Local Arguments Z.of_nat : simpl never.

Theorem root_offset_decision :
  exists c, decisions "Store.checkAndReadRoots" "offset" = [c] /\
    forall offset size len len32 : Z,
      let rho := upd (upd (upd (upd (upd env0 "offset" offset) "atomic.LoadInt64(&s.size)" size) "rootsLen" roots_len)
                          "length" len) "uint32((atomic.LoadInt64(&s.size)-offset))" len32 in
      gtrue rho c = Some ((offset >=? 0) && (offset <? size - roots_len) && (len =? len32)).
Proof.
  eexists. split; [vm_compute; reflexivity|]. intros offset size len len32 rho. unfold rho, gtrue. cbn.
  change roots_len with 44.
  destruct (offset >=? 0); destruct (offset <? size - 44); destruct (len =? len32); reflexivity.
Qed.

Theorem scan_stop_decision :
  exists c, hd_error (conds 400 scan_loop) = Some c /\
    forall size : Z, gtrue (upd (upd env0 "atomic.LoadInt64(&s.size)" size) "rootsLen" roots_len) c = Some (size <=? roots_len).
Proof. eexists. split; [vm_compute; reflexivity|]. intro size. unfold gtrue. cbn. change roots_len with 44.
  destruct (size <=? 44); reflexivity. Qed.

Theorem scan_step_is_one : last scan_loop (SOther "") = SExpr (GCall "atomic.AddInt64" [GUn "&" (GVar "s.size"); GInt (-1)]).
Proof. vm_compute. reflexivity. Qed.

Theorem scan_magic_offsets :
  exists c, nth_error (conds 400 scan_loop) 3 = Some c /\
    c = GBin "&&" (GCall "bytes.Equal" [GVar "MagicEnd"; GCall "[:]" [GVar "rootsEnd"; GInt 12; GBin "+" (GInt 12) (GCall "len" [GVar "MagicEnd"])]])
                  (GCall "bytes.Equal" [GVar "MagicEnd"; GCall "[:]" [GVar "rootsEnd"; GBin "+" (GInt 12) (GCall "len" [GVar "MagicEnd"]); GNil]]) /\
    geval (upd env0 "len(MagicEnd)" (Z.of_nat (List.length g_magic_end))) (GBin "+" (GInt 12) (GCall "len" [GVar "MagicEnd"])) = Some 18 /\
    roots_end_len = 24.
Proof. eexists. split; [vm_compute; reflexivity|]. split; [reflexivity|]. split; reflexivity. Qed.

