(* LazySeq3Proofs.v — proofs about LazySeq3.v: runs with Store.Flush inside.
   T1 the run model's Flush is DStore's Flush on bytes; T2 a Flush reads nothing and keeps the memory;
   T3 key-only calls read node records / item headers / keys of the tree they run on; T4 the invariant of a run;
   T5 key-only runs never read a byte of a value; T6 a Flush is invisible to the lookups that follow it. *)
From GK Require Import Base Treap TreapSpec Store Codec CodecProofs Disk DiskProofs Lazy LazyProofs LazyVisit LazyMut LazyMutProofs
  LazySeq LazySeqProofs LazySeq2 LazySeq2Proofs DStoreRefine LazySeq3.
From Coq Require Import Lia ZArith NArith List Bool Permutation.
Import ListNotations.
Open Scope Z_scope.

(* ------------------------------------------------------------------ *)
(* T1 *)

Lemma write_trees_is_write_colls : forall (cs : colls) f size,
  write_trees f size (tmap cs) =
  let '(f', s', cs') := write_colls f size cs in (f', s', tmap cs').
Proof.
  induction cs as [|[n c] cs IH]; intros f size.
  - reflexivity.
  - cbn [tmap map fst snd write_trees write_colls].
    destruct (write_tree f size (c_tree c)) as [[f1 s1] t'].
    fold (tmap cs). rewrite IH.
    destruct (write_colls f1 s1 cs) as [[f2 s2] cs2].
    reflexivity.
Qed.

Lemma tree_root_map_tmap (cs : colls) : tree_root_map (tmap cs) = root_map cs.
Proof. unfold tree_root_map, root_map, tmap. rewrite map_map. reflexivity. Qed.

Theorem flush_trees_is_flush_bytes : forall f size (cs : colls),
  flush_trees f size (tmap cs) =
  let '(f', s', cs') := flush_bytes f size cs in (f', s', tmap cs').
Proof.
  intros f size cs. unfold flush_trees, flush_bytes.
  rewrite write_trees_is_write_colls.
  destruct (write_colls f size cs) as [[f1 s1] cs1].
  rewrite tree_root_map_tmap. reflexivity.
Qed.
Print Assumptions flush_trees_is_flush_bytes.

(* ------------------------------------------------------------------ *)
(* T2 *)

Theorem flush_step_reads_nothing : forall cmp name s, fst (sstep3 cmp name s SFlush) = [].
Proof.
  intros cmp name s. unfold sstep3.
  destruct (flush_trees (ss_file s) (ss_size s) (ss_colls s)) as [[f' size'] cs']. reflexivity.
Qed.
Print Assumptions flush_step_reads_nothing.

Lemma mem_find_app_mono o : forall a m, mem_find o m <> None -> mem_find o (a ++ m) <> None.
Proof.
  induction a as [|[o' b] a IH]; intros m H; [exact H|].
  cbn [app]. apply mem_find_cons_mono. apply IH. exact H.
Qed.

Theorem flush_keeps_memory : forall cmp name s o,
  mem_find o (ss_mem s) <> None -> mem_find o (ss_mem (snd (sstep3 cmp name s SFlush))) <> None.
Proof.
  intros cmp name s o H. unfold sstep3.
  destruct (flush_trees (ss_file s) (ss_size s) (ss_colls s)) as [[f' size'] cs'].
  cbn [snd ss_mem]. apply mem_find_app_mono. exact H.
Qed.
Print Assumptions flush_keeps_memory.

(* ------------------------------------------------------------------ *)
(* T3 *)

Definition key_only_op3 (o : sop3) : bool := match o with S2 o2 => key_only_op2 o2 | SFlush => true end.

Theorem sstep3_key_only : forall cmp name s o t,
  cs_get name (ss_colls s) = Some t -> key_only_op3 o = true ->
  Forall (vk false t) (fst (sstep3 cmp name s o)).
Proof.
  intros cmp name s o t Hg Hk. destruct o as [o2|].
  - unfold sstep3. rewrite Hg. cbn [key_only_op3] in Hk.
    destruct (sstep2 cmp t (ss_mem s) o2) as [[rs t'] m'] eqn:E. cbn [fst].
    destruct (sstep2_key_only cmp t t (ss_mem s) o2 rs t' m' (locs_within_refl t) Hk E) as [_ B].
    apply vk_key_only. exact B.
  - rewrite flush_step_reads_nothing. constructor.
Qed.
Print Assumptions sstep3_key_only.

(* ------------------------------------------------------------------ *)
(* T4: the invariant of a run *)

Definition set_okb (o : sop3) : bool :=
  match o with S2 (S1 (SSet k v prio)) => item_okb (mkItem k v prio) | _ => true end.

(* ADAPTED: [tree_ok] (every stored aggregate below 2^64) is not preserved by SetItem (see [tree_ok_not_preserved]
   below); the invariant carries [aggs] (exact aggregates) instead, and a Flush is asked to happen with totals below 2^64
   (the side condition (h3') of DStoreRefine), which gives [tree_ok] at the moment it is needed. *)
Definition tree_inv3 (f : file) (b : Z) (t : tree) : Prop :=
  rep f t /\ below t b /\ aggs t /\ items_ok t.

Definition inv3 (s : sst) : Prop :=
  0 <= ss_size s <= blen (ss_file s) /\
  Forall (fun nt => tree_inv3 (ss_file s) (ss_size s) (snd nt)) (ss_colls s).

Definition totals_ok3 (s : sst) (o : sop3) : Prop :=
  match o with
  | SFlush => Forall (fun nt => num (snd nt) < 2 ^ 64 /\ nby (snd nt) < 2 ^ 64) (ss_colls s)
  | _ => True
  end.

(* the tree after one call *)
Definition step_tree (cmp : bytes -> bytes -> comparison) (t : tree) (o : sop2) : tree :=
  match o with
  | S1 (SSet k v prio) => match set_item cmp t k (Some v) prio with Some t' => t' | None => t end
  | S1 (SDel k) => fst (delete cmp t k)
  | _ => t
  end.

Lemma sstep2_tree cmp t m o : snd (fst (sstep2 cmp t m o)) = step_tree cmp t o.
Proof.
  destruct o as [o|asc target wv b| |]; unfold sstep2, step_tree.
  - destruct o as [k wv|wv|wv|k v prio|k]; unfold sstep.
    + destruct (vreads m (getv_t cmp t k wv)); reflexivity.
    + destruct (vreads m (walk_t true wv t)); reflexivity.
    + destruct (vreads m (walk_t false wv t)); reflexivity.
    + destruct (vreads m (map of_touch (set_touches cmp t k (Some v) prio))); reflexivity.
    + destruct (vreads m (map of_touch (del_touches cmp t k))); reflexivity.
  - cbv zeta. destruct (vreads m (fst (fst (visit_vt cmp asc t target wv b)))); reflexivity.
  - destruct (tmin t) as [mi|].
    + cbv zeta. destruct (vreads m (walk_t true false t)) as [r1 m1].
      destruct (vreads m1 (fst (fst (visit_vt cmp true t (ikey mi) false (S (Treap.size t)))))); reflexivity.
    + destruct (vreads m (walk_t true false t)); reflexivity.
  - destruct (vreads m (match t with T (Some p) _ _ _ _ _ _ => [VN p] | _ => [] end)); reflexivity.
Qed.

Lemma delete_aggs cmp t k : aggs t -> aggs (fst (delete cmp t k)).
Proof.
  intro Ha. unfold delete. destruct (lookup cmp t k); [|exact Ha].
  destruct (Treap.split cmp t k) as [[l m] r] eqn:Hs.
  destruct (split_aggs cmp _ _ _ _ _ Ha Hs) as [Hl Hr].
  destruct m; cbn [fst]; [apply join_aggs; assumption|exact Ha].
Qed.

Lemma insert_inv3 cmp f b t new : item_ok new -> tree_inv3 f b t -> tree_inv3 f b (insert cmp t new).
Proof.
  intros Hi (H1 & H2 & H3 & H4). repeat split.
  - apply (insert_closed cmp (rep f) (Qrep f) I (rep_dec f) (rep_mk f)); auto.
    intros q0 Hq. discriminate.
  - apply (insert_closed cmp (fun t => below t b) (fun il _ => loc_below il b) I (below_dec b) (below_mk b)); auto.
    exact I.
  - apply insert_aggs. exact H3.
  - apply (insert_closed cmp items_ok (fun _ it => item_ok it) items_E items_dec items_mk); auto.
Qed.

Lemma delete_inv3 cmp f b t k : tree_inv3 f b t -> tree_inv3 f b (fst (delete cmp t k)).
Proof.
  intros (H1 & H2 & H3 & H4). destruct (delete cmp t k) as [t' d] eqn:Hd.
  pose proof (delete_aggs cmp t k H3) as Ha. rewrite Hd in Ha. cbn [fst] in *. repeat split.
  - apply (delete_closed cmp (rep f) (Qrep f) I (rep_dec f) (rep_mk f) _ _ _ _ Hd); auto.
  - apply (delete_closed cmp (fun t => below t b) (fun il _ => loc_below il b) I (below_dec b) (below_mk b) _ _ _ _ Hd); auto.
  - exact Ha.
  - apply (delete_closed cmp items_ok (fun _ it => item_ok it) items_E items_dec items_mk _ _ _ _ Hd); auto.
Qed.

Lemma step_tree_inv3 cmp f b t o :
  set_okb (S2 o) = true -> tree_inv3 f b t -> tree_inv3 f b (step_tree cmp t o).
Proof.
  intros Hok Hinv. destruct o as [o|asc target wv bud| |]; cbn [step_tree]; try exact Hinv.
  destruct o as [k wv|wv|wv|k v prio|k]; try exact Hinv.
  - cbn [set_okb] in Hok. destruct (valid_item k (Some v) prio) eqn:V.
    + rewrite (set_item_spec cmp t k v prio V). apply insert_inv3; [|exact Hinv].
      apply item_okb_ok. exact Hok.
    + rewrite (set_item_invalid cmp t k (Some v) prio V). exact Hinv.
  - apply delete_inv3. exact Hinv.
Qed.

Lemma cs_get_Forall (P : tree -> Prop) name : forall cs t,
  Forall (fun nt => P (snd nt)) cs -> cs_get name cs = Some t -> P t.
Proof.
  induction cs as [|[n t0] cs IH]; intros t HF Hg; [discriminate|].
  inversion HF as [|? ? Hx Hr]; subst. cbn [cs_get] in Hg.
  destruct (cmp_bytes name n); [inversion Hg; subst; exact Hx| |]; apply IH; assumption.
Qed.

Lemma cs_set_Forall (P : tree -> Prop) name t' : forall cs,
  Forall (fun nt => P (snd nt)) cs -> P t' -> Forall (fun nt => P (snd nt)) (cs_set name t' cs).
Proof.
  induction cs as [|[n t0] cs IH]; intros HF Ht; [constructor|].
  inversion HF as [|? ? Hx Hr]; subst. cbn [cs_set].
  destruct (cmp_bytes name n); constructor; auto.
Qed.

(* Flush over a list of trees *)
Definition tpost (f' : file) (s' : Z) (nt nt' : bytes * tree) : Prop :=
  fst nt' = fst nt /\ persisted (snd nt') /\ rep f' (snd nt') /\ below (snd nt') s' /\ erase (snd nt') = erase (snd nt).

Lemma write_trees_mono : forall cs f size f' s' cs',
  write_trees f size cs = (f', s', cs') -> size <= s'.
Proof.
  induction cs as [|[n t] cs IH]; intros f size f' s' cs' H; cbn [write_trees] in H.
  - inversion H. lia.
  - destruct (write_tree f size t) as [[f1 s1] t'] eqn:E1.
    destruct (write_trees f1 s1 cs) as [[f2 s2] cs2] eqn:E2.
    inversion H; subst. apply write_tree_mono in E1. apply IH in E2. lia.
Qed.

Lemma write_trees_spec : forall cs f size f' s' cs',
  Forall (fun nt => rep f (snd nt) /\ below (snd nt) size /\ tree_ok (snd nt)) cs -> 0 <= size <= blen f ->
  write_trees f size cs = (f', s', cs') -> s' < two63 ->
  agree f f' size /\ size <= s' <= blen f' /\ (blen f = size -> blen f' = s') /\
  Forall2 (tpost f' s') cs cs'.
Proof.
  induction cs as [|[n t] cs IH]; intros f size f' s' cs' Hok Hsz H H63; cbn [write_trees] in H.
  - inversion H; subst. repeat split; auto using agree_refl; try lia.
  - destruct (write_tree f size t) as [[f1 s1] t'] eqn:E1.
    destruct (write_trees f1 s1 cs) as [[f2 s2] cs2] eqn:E2.
    inversion H; subst; clear H.
    inversion Hok as [|? ? Hc Hcs]; subst.
    destruct Hc as (C2 & C3 & C4). cbn [fst snd] in *.
    pose proof (write_trees_mono _ _ _ _ _ _ E2) as Hm2.
    assert (H1' : s1 < two63) by lia.
    destruct (write_tree_post _ _ _ _ _ _ C2 C3 Hsz C4 H1' E1)
      as ((A1 & A2 & A3 & A4 & A5 & A6) & Hper).
    assert (Hcs' : Forall (fun nt => rep f1 (snd nt) /\ below (snd nt) s1 /\ tree_ok (snd nt)) cs).
    { eapply Forall_impl; [|exact Hcs]. intros nc (N1 & N2 & N3).
      split; [eapply rep_stable; eauto|]. split; [eapply below_mono; eauto; lia|exact N3]. }
    destruct (IH _ _ _ _ _ Hcs' ltac:(lia) E2 H63) as (B1 & B2 & B3 & B4).
    split; [eapply agree_trans; eauto; lia|]. split; [lia|]. split; [auto|].
    constructor; [|exact B4].
    unfold tpost. cbn [fst snd]. split; [reflexivity|]. split; [exact Hper|].
    split; [eapply rep_stable; eauto|]. split; [eapply below_mono; eauto; lia|exact A6].
Qed.

Lemma items_ok_erase_eq t t' : erase t' = erase t -> items_ok t -> items_ok t'.
Proof. intros H Hi. unfold items_ok in *. rewrite (erase_eq_elems _ _ H). exact Hi. Qed.

(* everything a Flush guarantees, for the later theorems *)
Lemma flush_trees_post f size cs f' size' cs' :
  0 <= size <= blen f -> Forall (fun nt => tree_inv3 f size (snd nt)) cs ->
  Forall (fun nt => num (snd nt) < 2 ^ 64 /\ nby (snd nt) < 2 ^ 64) cs ->
  flush_trees f size cs = (f', size', cs') -> size' < two63 ->
  agree f f' size /\ size <= size' <= blen f' /\
  Forall2 (tpost f' size') cs cs'.
Proof.
  intros Hsz Hinv Htot H H63. unfold flush_trees in H.
  destruct (write_trees f size cs) as [[f1 s1] cs1] eqn:E1.
  inversion H; subst; clear H.
  pose proof (blen_nonneg (enc_root (tree_root_map cs') s1)) as Hr.
  assert (Hok : Forall (fun nt => rep f (snd nt) /\ below (snd nt) size /\ tree_ok (snd nt)) cs).
  { rewrite Forall_forall in *. intros nt Hin. destruct (Hinv nt Hin) as (I1 & I2 & I3 & I4).
    destruct (Htot nt Hin) as [T1 T2]. split; [exact I1|]. split; [exact I2|]. apply aggs_tree_ok; assumption. }
  destruct (write_trees_spec _ _ _ _ _ _ Hok Hsz E1 ltac:(lia)) as (B1 & B2 & B3 & B4).
  destruct (append_facts f1 s1 (enc_root (tree_root_map cs') s1) ltac:(lia)) as (W1 & W2 & W3 & W4).
  split; [eapply agree_trans; eauto; lia|]. split; [lia|].
  eapply Forall2_imp; [|exact B4].
  intros a b (P1 & P2 & P3 & P4 & P5). unfold tpost.
  split; [exact P1|]. split; [exact P2|]. split; [eapply rep_stable; eauto|].
  split; [eapply below_mono; eauto; lia|exact P5].
Qed.

Lemma Forall2_Forall_r {A B} (R : A -> B -> Prop) (P : A -> Prop) (Q : B -> Prop) l l' :
  (forall a b, R a b -> P a -> Q b) -> Forall2 R l l' -> Forall P l -> Forall Q l'.
Proof.
  intros H HR. induction HR as [|a b l l' Hab HR IH]; intro HP; [constructor|].
  inversion HP; subst. constructor; eauto.
Qed.

Theorem sstep3_inv : forall cmp name s o,
  inv3 s -> set_okb o = true -> totals_ok3 s o -> ss_size (snd (sstep3 cmp name s o)) < two63 ->
  inv3 (snd (sstep3 cmp name s o)).
Proof.
  intros cmp name s o [Hsz Hinv] Hok Htot H63. destruct o as [o2|].
  - unfold sstep3 in *. destruct (cs_get name (ss_colls s)) as [t|] eqn:Hg; [|split; assumption].
    pose proof (sstep2_tree cmp t (ss_mem s) o2) as Ht.
    destruct (sstep2 cmp t (ss_mem s) o2) as [[rs t'] m']. cbn [fst snd] in Ht. subst t'.
    unfold inv3; cbn [snd ss_file ss_size ss_colls]. split; [exact Hsz|].
    apply (cs_set_Forall (tree_inv3 (ss_file s) (ss_size s))); [exact Hinv|].
    apply step_tree_inv3; [exact Hok|].
    exact (cs_get_Forall (tree_inv3 (ss_file s) (ss_size s)) name _ _ Hinv Hg).
  - unfold sstep3 in *. cbn [totals_ok3] in Htot.
    destruct (flush_trees (ss_file s) (ss_size s) (ss_colls s)) as [[f' size'] cs'] eqn:E.
    cbn [snd ss_file ss_size ss_colls] in *.
    destruct (flush_trees_post _ _ _ _ _ _ Hsz Hinv Htot E H63) as (A1 & A2 & A3).
    unfold inv3; cbn [ss_file ss_size ss_colls]. split; [lia|].
    refine (Forall2_Forall_r _ _ _ _ _ _ A3 Hinv).
    intros a b (P1 & P2 & P3 & P4 & P5) (I1 & I2 & I3 & I4).
    split; [exact P3|]. split; [exact P4|].
    split; [eapply terase_eq_aggs; eauto|eapply items_ok_erase_eq; eauto].
Qed.
Print Assumptions sstep3_inv.

(* why [tree_ok] itself cannot be the invariant: a node whose stored count is 2^64 - 1 *)
Example tree_ok_not_preserved :
  let t := T None E None (mkItem [97%N] [1%N] 3) (2 ^ 64 - 1) 2 E in
  tree_ok t /\ item_okb (mkItem [98%N] [1%N] 5) = true /\
  ~ tree_ok (step_tree cmp_bytes t (S1 (SSet [98%N] [1%N] 5))).
Proof.
  cbv zeta. split; [|split].
  - cbn [tree_ok]. split; [apply item_okb_ok; vm_compute; reflexivity|]. repeat split; lia.
  - vm_compute. reflexivity.
  - vm_compute. intros (_ & (_ & H) & _). discriminate H.
Qed.
Print Assumptions tree_ok_not_preserved.

(* ------------------------------------------------------------------ *)
(* T5: key-only runs with flushes never read a byte of a value *)

Fixpoint srun3_trees (cmp : bytes -> bytes -> comparison) (name : bytes) (s : sst) (ops : list sop3) : list (option tree) :=
  match ops with
  | [] => []
  | o :: r => cs_get name (ss_colls s) :: srun3_trees cmp name (snd (sstep3 cmp name s o)) r
  end.

(* the side conditions of a run: totals below 2^64 at every Flush, sizes below 2^63 *)
Fixpoint run_ok3 (cmp : bytes -> bytes -> comparison) (name : bytes) (s : sst) (ops : list sop3) : Prop :=
  match ops with
  | [] => True
  | o :: r => totals_ok3 s o /\ ss_size (snd (sstep3 cmp name s o)) < two63 /\
              run_ok3 cmp name (snd (sstep3 cmp name s o)) r
  end.

Definition never_value (rs : list rd) (ot : option tree) : Prop :=
  match ot with
  | Some t => Forall (fun r => forall q it, In (q, it) (item_locs t) -> rd_disjoint r (value_range q it)) rs
  | None => rs = []
  end.

Lemma srun3_cons cmp name s o r :
  srun3 cmp name s (o :: r) = fst (sstep3 cmp name s o) :: srun3 cmp name (snd (sstep3 cmp name s o)) r.
Proof. cbn [srun3]. destruct (sstep3 cmp name s o) as [rs s']. reflexivity. Qed.

Lemma sstep3_no_tree cmp name s o : cs_get name (ss_colls s) = None -> fst (sstep3 cmp name s o) = [].
Proof.
  intro Hg. destruct o as [o2|]; [|apply flush_step_reads_nothing].
  unfold sstep3. rewrite Hg. reflexivity.
Qed.

Lemma sstep3_never_value cmp name s o :
  inv3 s -> key_only_op3 o = true ->
  match cs_get name (ss_colls s) with Some t => records_disjoint t | None => True end ->
  never_value (fst (sstep3 cmp name s o)) (cs_get name (ss_colls s)).
Proof.
  intros [Hsz Hinv] Hk Hd. destruct (cs_get name (ss_colls s)) as [t|] eqn:Hg; cbn [never_value].
  - pose proof (cs_get_Forall (tree_inv3 (ss_file s) (ss_size s)) name _ _ Hinv Hg) as (Hrep & _).
    eapply Forall_impl; [|exact (sstep3_key_only cmp name s o t Hg Hk)].
    intros r Hr q it Hin. apply (key_only_disjoint_value t Hd).
    + intros q' it' Hin'. apply (rep_item_lens (ss_file s) t Hrep q' it' Hin').
    + destruct Hr as [Hr|[Hr _]]; [exact Hr|discriminate].
    + exact Hin.
  - apply sstep3_no_tree. exact Hg.
Qed.

(* PARTIAL form of T5: [records_disjoint] of the tree before every call is a hypothesis *)
Theorem seq3_never_reads_values_partial : forall cmp name ops s,
  inv3 s -> forallb key_only_op3 ops = true -> forallb set_okb ops = true -> run_ok3 cmp name s ops ->
  Forall (fun ot => match ot with Some t => records_disjoint t | None => True end) (srun3_trees cmp name s ops) ->
  Forall2 never_value (srun3 cmp name s ops) (srun3_trees cmp name s ops).
Proof.
  intros cmp name. induction ops as [|o r IH]; intros s Hinv Hk Hok Hrun Hd; [constructor|].
  cbn [forallb] in Hk, Hok. apply andb_prop in Hk. destruct Hk as [Hk1 Hk2].
  apply andb_prop in Hok. destruct Hok as [Hok1 Hok2].
  cbn [run_ok3] in Hrun. destruct Hrun as (R1 & R2 & R3).
  cbn [srun3_trees] in Hd |- *. inversion Hd as [|? ? Hd1 Hd2]; subst.
  rewrite srun3_cons. constructor.
  - apply sstep3_never_value; assumption.
  - apply IH; try assumption. apply sstep3_inv; assumption.
Qed.
Print Assumptions seq3_never_reads_values_partial.

(* ------------------------------------------------------------------ *)
(* T6: a Flush is invisible to the read lists of the lookups that follow it *)

Definition lookup_op (o : sop) : bool := match o with SGet _ _ | SMin _ | SMax _ => true | _ => false end.

(* t' is t with some missing locations filled in: node locations at offsets in PN, item locations at offsets in PI *)
Definition loc_step (P : Z -> Prop) (a a' : option ploc) : Prop :=
  match a, a' with
  | Some p, Some p' => p' = p
  | None, Some p' => P (poff p')
  | None, None => True
  | Some _, None => False
  end.

Fixpoint fl (PI PN : Z -> Prop) (t t' : tree) : Prop :=
  match t, t' with
  | E, E => True
  | T nl l il it _ _ r, T nl' l' il' it' _ _ r' =>
    it' = it /\ loc_step PN nl nl' /\ loc_step PI il il' /\ fl PI PN l l' /\ fl PI PN r r'
  | _, _ => False
  end.

Lemma loc_step_refl P a : loc_step P a a.
Proof. destruct a; cbn [loc_step]; auto. Qed.

Lemma loc_step_weak (P P' : Z -> Prop) a a' : (forall o, P o -> P' o) -> loc_step P a a' -> loc_step P' a a'.
Proof. intros H. destruct a, a'; cbn [loc_step]; auto. Qed.

Lemma loc_step_trans P a b c : loc_step P a b -> loc_step P b c -> loc_step P a c.
Proof.
  destruct a as [p|], b as [q|], c as [r|]; cbn [loc_step]; intros H1 H2; try congruence; try contradiction; auto.
Qed.

Lemma fl_refl PI PN : forall t, fl PI PN t t.
Proof.
  induction t as [|nl l IHl il it nn nb r IHr]; [exact I|].
  cbn [fl]. repeat split; auto using loc_step_refl.
Qed.

Lemma fl_weak (PI PN PI' PN' : Z -> Prop) : (forall o, PI o -> PI' o) -> (forall o, PN o -> PN' o) ->
  forall t t', fl PI PN t t' -> fl PI' PN' t t'.
Proof.
  intros HI HN. induction t as [|nl l IHl il it nn nb r IHr]; intros [|nl' l' il' it' nn' nb' r'] H;
    cbn [fl] in *; try contradiction; [exact I|].
  destruct H as (H1 & H2 & H3 & H4 & H5).
  split; [exact H1|]. split; [eapply loc_step_weak; eauto|]. split; [eapply loc_step_weak; eauto|]. split; auto.
Qed.

Lemma fl_trans PI PN : forall t t1 t2, fl PI PN t t1 -> fl PI PN t1 t2 -> fl PI PN t t2.
Proof.
  induction t as [|nl l IHl il it nn nb r IHr]; intros [|nl1 l1 il1 it1 nn1 nb1 r1] [|nl2 l2 il2 it2 nn2 nb2 r2] A B;
    cbn [fl] in *; try contradiction; [exact I|].
  destruct A as (A1 & A2 & A3 & A4 & A5). destruct B as (B1 & B2 & B3 & B4 & B5).
  split; [congruence|]. split; [eapply loc_step_trans; eauto|]. split; [eapply loc_step_trans; eauto|].
  split; eauto.
Qed.

Lemma write_items_fl : forall t f size f1 s1 t1,
  write_items f size t = (f1, s1, t1) -> fl (fun o => size <= o < s1) (fun _ => False) t t1.
Proof.
  induction t as [|nl l IHl il it nn nb r IHr]; intros f size f1 s1 t1 H; cbn [write_items] in H.
  - inversion H; subst. exact I.
  - destruct nl as [p|]; [inversion H; subst; apply fl_refl|].
    destruct (write_items f size l) as [[fa sa] la] eqn:El.
    pose proof (write_items_mono _ _ _ _ _ _ El) as Hm1. apply IHl in El.
    pose proof (item_loc_len_ge it) as Hge.
    destruct il as [q|].
    + destruct (write_items fa sa r) as [[fb sb] rb] eqn:Er.
      pose proof (write_items_mono _ _ _ _ _ _ Er) as Hm2. apply IHr in Er.
      inversion H; subst; clear H. cbn [fl loc_step].
      split; [reflexivity|]. split; [exact I|]. split; [reflexivity|].
      split; (eapply fl_weak; [| |eassumption]); cbv beta; intros; try lia; assumption.
    + destruct (write_items (write_at fa sa (enc_item it)) (sa + item_loc_len it) r) as [[fb sb] rb] eqn:Er.
      pose proof (write_items_mono _ _ _ _ _ _ Er) as Hm2. apply IHr in Er.
      inversion H; subst; clear H. cbn [fl loc_step poff].
      split; [reflexivity|]. split; [exact I|]. split; [lia|].
      split; (eapply fl_weak; [| |eassumption]); cbv beta; intros; try lia; assumption.
Qed.

Lemma write_nodes_fl : forall t f size f1 s1 t1,
  write_nodes f size t = (f1, s1, t1) -> fl (fun _ => False) (fun o => size <= o < s1) t t1.
Proof.
  induction t as [|nl l IHl il it nn nb r IHr]; intros f size f1 s1 t1 H; cbn [write_nodes] in H.
  - inversion H; subst. exact I.
  - destruct nl as [p|]; [inversion H; subst; apply fl_refl|].
    destruct (write_nodes f size l) as [[fa sa] la] eqn:El.
    destruct (write_nodes fa sa r) as [[fb sb] rb] eqn:Er.
    pose proof (write_nodes_mono _ _ _ _ _ _ El) as Hm1. apply IHl in El.
    pose proof (write_nodes_mono _ _ _ _ _ _ Er) as Hm2. apply IHr in Er.
    inversion H; subst; clear H. change node_len with 52. cbn [fl loc_step poff].
    split; [reflexivity|]. split; [lia|]. split; [apply loc_step_refl|].
    split; (eapply fl_weak; [| |eassumption]); cbv beta; intros; try lia; assumption.
Qed.

Lemma write_tree_fl f size t f' s' t' : write_tree f size t = (f', s', t') ->
  exists s1, size <= s1 <= s' /\ fl (fun o => size <= o < s1) (fun o => s1 <= o < s') t t'.
Proof.
  unfold write_tree. destruct (write_items f size t) as [[f1 s1] t1] eqn:E1. intro E2.
  pose proof (write_items_mono _ _ _ _ _ _ E1) as Hm1. pose proof (write_nodes_mono _ _ _ _ _ _ E2) as Hm2.
  apply write_items_fl in E1. apply write_nodes_fl in E2.
  exists s1. split; [lia|]. apply (fl_trans _ _ t t1 t').
  - eapply fl_weak; [| |exact E1]; cbv beta; intros; [assumption|contradiction].
  - eapply fl_weak; [| |exact E2]; cbv beta; intros; [contradiction|assumption].
Qed.

(* the entries of fresh_mem *)
Lemma fresh_mem_entries PI PN : forall t t', fl PI PN t t' ->
  forall o b, In (o, b) (fresh_mem t t') -> if b then PI o else PN o.
Proof.
  induction t as [|nl l IHl il it nn nb r IHr]; intros [|nl' l' il' it' nn' nb' r'] H o b Hin;
    cbn [fl fresh_mem] in *; try contradiction; try (destruct Hin; fail).
  destruct H as (H1 & H2 & H3 & H4 & H5).
  apply in_app_or in Hin. destruct Hin as [Hin|Hin].
  { destruct nl as [p|], nl' as [p'|]; cbn [In] in Hin; try contradiction.
    destruct Hin as [Hin|[]]. inversion Hin; subst. exact H2. }
  apply in_app_or in Hin. destruct Hin as [Hin|Hin].
  { destruct il as [q|], il' as [q'|]; cbn [In] in Hin; try contradiction.
    destruct Hin as [Hin|[]]. inversion Hin; subst. exact H3. }
  apply in_app_or in Hin. destruct Hin as [Hin|Hin]; [eapply IHl|eapply IHr]; eassumption.
Qed.

Lemma fl_fresh PI PN : forall t t', fl PI PN t t' ->
  fl (fun o => In (o, true) (fresh_mem t t')) (fun o => In (o, false) (fresh_mem t t')) t t'.
Proof.
  induction t as [|nl l IHl il it nn nb r IHr]; intros [|nl' l' il' it' nn' nb' r'] H;
    cbn [fl] in *; try contradiction; [exact I|].
  destruct H as (H1 & H2 & H3 & H4 & H5).
  split; [exact H1|]. split; [|split; [|split]].
  - destruct nl as [p|], nl' as [p'|]; cbn [loc_step] in *; auto.
    cbn [fresh_mem]. apply in_or_app. left. left. reflexivity.
  - destruct il as [q|], il' as [q'|]; cbn [loc_step] in *; auto.
    cbn [fresh_mem]. apply in_or_app. right. apply in_or_app. left. left. reflexivity.
  - eapply fl_weak; [| |exact (IHl _ H4)]; cbv beta; intros o Ho; cbn [fresh_mem];
      apply in_or_app; right; apply in_or_app; right; apply in_or_app; left; exact Ho.
  - eapply fl_weak; [| |exact (IHr _ H5)]; cbv beta; intros o Ho; cbn [fresh_mem];
      apply in_or_app; right; apply in_or_app; right; apply in_or_app; right; exact Ho.
Qed.

(* the entries of a Flush: offsets in [lo, hi), and no offset is both an item's and a node's *)
Definition sepF (lo hi : Z) (F : mem) : Prop :=
  (forall o b, In (o, b) F -> lo <= o < hi) /\ (forall o, In (o, true) F -> ~ In (o, false) F).

Lemma sepF_app lo mid hi F1 F2 : lo <= mid <= hi -> sepF lo mid F1 -> sepF mid hi F2 -> sepF lo hi (F1 ++ F2).
Proof.
  intros Hm [A1 A2] [B1 B2]. split.
  - intros o b Hin. apply in_app_or in Hin. destruct Hin as [Hin|Hin]; [apply A1 in Hin|apply B1 in Hin]; lia.
  - intros o Ht Hf. apply in_app_or in Ht. apply in_app_or in Hf.
    destruct Ht as [Ht|Ht], Hf as [Hf|Hf].
    + exact (A2 o Ht Hf).
    + apply A1 in Ht. apply B1 in Hf. lia.
    + apply B1 in Ht. apply A1 in Hf. lia.
    + exact (B2 o Ht Hf).
Qed.

Lemma write_tree_sepF f size t f' s' t' : write_tree f size t = (f', s', t') -> sepF size s' (fresh_mem t t').
Proof.
  intro H. destruct (write_tree_fl _ _ _ _ _ _ H) as (s1 & Hs & Hfl).
  pose proof (fresh_mem_entries _ _ _ _ Hfl) as He. split.
  - intros o b Hin. apply He in Hin. destruct b; lia.
  - intros o Ht Hf. apply He in Ht. apply He in Hf. cbv beta in Ht, Hf. lia.
Qed.

Lemma write_trees_fresh : forall cs f size f' s' cs',
  write_trees f size cs = (f', s', cs') ->
  sepF size s' (fresh_mems cs cs') /\
  forall name, match cs_get name cs with
               | Some t => exists t', cs_get name cs' = Some t' /\
                   fl (fun o => In (o, true) (fresh_mems cs cs')) (fun o => In (o, false) (fresh_mems cs cs')) t t'
               | None => cs_get name cs' = None
               end.
Proof.
  induction cs as [|[n t] cs IH]; intros f size f' s' cs' H; cbn [write_trees] in H.
  - inversion H; subst. split; [|intro name; reflexivity].
    split; [intros o b []|intros o []].
  - destruct (write_tree f size t) as [[f1 s1] t'] eqn:E1.
    destruct (write_trees f1 s1 cs) as [[f2 s2] cs2] eqn:E2.
    inversion H; subst; clear H.
    pose proof (write_tree_mono _ _ _ _ _ _ E1) as Hm1. pose proof (write_trees_mono _ _ _ _ _ _ E2) as Hm2.
    destruct (IH _ _ _ _ _ E2) as [S2 G2]. cbn [fresh_mems].
    split; [apply (sepF_app size s1 s'); [lia|eapply write_tree_sepF; eauto|exact S2]|].
    intro name. cbn [cs_get]. destruct (cmp_bytes name n).
    + exists t'. split; [reflexivity|].
      destruct (write_tree_fl _ _ _ _ _ _ E1) as (sm & _ & Hfl). apply fl_fresh in Hfl.
      eapply fl_weak; [| |exact Hfl]; cbv beta; intros o Ho; apply in_or_app; left; exact Ho.
    + specialize (G2 name). destruct (cs_get name cs) as [t0|]; [|exact G2].
      destruct G2 as (t0' & Hg & Hfl). exists t0'. split; [exact Hg|].
      eapply fl_weak; [| |exact Hfl]; cbv beta; intros o Ho; apply in_or_app; right; exact Ho.
    + specialize (G2 name). destruct (cs_get name cs) as [t0|]; [|exact G2].
      destruct G2 as (t0' & Hg & Hfl). exists t0'. split; [exact Hg|].
      eapply fl_weak; [| |exact Hfl]; cbv beta; intros o Ho; apply in_or_app; right; exact Ho.
Qed.

(* memory facts *)
Lemma mem_find_app o : forall a m,
  mem_find o (a ++ m) = match mem_find o a with Some b => Some b | None => mem_find o m end.
Proof.
  induction a as [|[o' b] a IH]; intro m; [reflexivity|].
  cbn [app mem_find]. destruct (o =? o'); [reflexivity|apply IH].
Qed.

Lemma mem_find_none_notin o : forall F, (forall b, ~ In (o, b) F) -> mem_find o F = None.
Proof.
  induction F as [|[o' b'] F IH]; intro H; [reflexivity|].
  cbn [mem_find]. destruct (o =? o') eqn:E.
  - apply Z.eqb_eq in E. subst o'. exfalso. apply (H b'). left. reflexivity.
  - apply IH. intros b Hin. apply (H b). right. exact Hin.
Qed.

Lemma mem_find_in o b : forall F, In (o, b) F -> mem_find o F <> None.
Proof.
  induction F as [|[o' b'] F IH]; intro H; [destruct H|].
  cbn [mem_find]. destruct (o =? o') eqn:E; [discriminate|].
  destruct H as [H|H]; [|now apply IH]. inversion H; subst. rewrite Z.eqb_refl in E. discriminate.
Qed.

Lemma mem_find_in_true o : forall F, ~ In (o, false) F -> In (o, true) F -> mem_find o F = Some true.
Proof.
  induction F as [|[o' b'] F IH]; intros Hn H; [destruct H|].
  cbn [mem_find]. destruct (o =? o') eqn:E.
  - apply Z.eqb_eq in E. subst o'. destruct b'; [reflexivity|]. exfalso. apply Hn. left. reflexivity.
  - apply IH; [intro Hi; apply Hn; right; exact Hi|].
    destruct H as [H|H]; [|exact H]. inversion H; subst. rewrite Z.eqb_refl in E. discriminate.
Qed.

(* the simulation: M' = memory of the run after the Flush, M = memory of the run without it *)
Section Sim.
Variable size : Z.
Variables FI FN : Z -> Prop.
Hypothesis FI_ge : forall o, FI o -> size <= o.
Hypothesis FN_ge : forall o, FN o -> size <= o.

Definition msim (M' M : mem) : Prop :=
  (forall o, o < size -> mem_find o M' = mem_find o M) /\
  (forall o, FN o -> mem_find o M' <> None) /\
  (forall o, FI o -> mem_find o M' = Some true).

Inductive tsim : list vtouch -> list vtouch -> Prop :=
| tsim_nil : tsim [] []
| tsim_old x ts' ts : voff x < size -> tsim ts' ts -> tsim (x :: ts') (x :: ts)
| tsim_fn p ts' ts : FN (poff p) -> tsim ts' ts -> tsim (VN p :: ts') ts
| tsim_fi q it wv ts' ts : FI (poff q) -> tsim ts' ts -> tsim (VI q it wv :: ts') ts.

Lemma tsim_app a' a b' b : tsim a' a -> tsim b' b -> tsim (a' ++ b') (a ++ b).
Proof. intros Ha Hb. induction Ha; cbn [app]; [exact Hb| | |]; constructor; assumption. Qed.

Lemma msim_cons o b M' M : o < size -> msim M' M -> msim ((o, b) :: M') ((o, b) :: M).
Proof.
  intros Ho (A & B & C). split; [|split].
  - intros o' Ho'. cbn [mem_find]. destruct (o' =? o); [reflexivity|now apply A].
  - intros o' Ho'. apply mem_find_cons_mono. now apply B.
  - intros o' Ho'. pose proof (FI_ge o' Ho'). rewrite mem_find_cons_ne by lia. now apply C.
Qed.

Lemma vstep_sim x M' M : voff x < size -> msim M' M ->
  vstep_reads M' x = vstep_reads M x /\ msim (vstep_mem M' x) (vstep_mem M x).
Proof.
  intros Hx Hs. pose proof Hs as (A & _ & _).
  destruct x as [p|q it wv]; cbn [voff vstep_reads vstep_mem] in *; rewrite (A _ Hx).
  - destruct (mem_find (poff p) M); [split; [reflexivity|exact Hs]|].
    split; [reflexivity|]. now apply msim_cons.
  - destruct (mem_find (poff q) M) as [hasv|].
    + destruct (negb wv || hasv); [split; [reflexivity|exact Hs]|].
      split; [reflexivity|]. now apply msim_cons.
    + split; [reflexivity|]. now apply msim_cons.
Qed.

Lemma vreads_sim ts' ts : tsim ts' ts -> forall M' M, msim M' M ->
  fst (vreads M' ts') = fst (vreads M ts) /\ msim (snd (vreads M' ts')) (snd (vreads M ts)).
Proof.
  induction 1 as [|x ts' ts Hx Hts IH|p ts' ts Hp Hts IH|q it wv ts' ts Hq Hts IH]; intros M' M Hs.
  - split; [reflexivity|exact Hs].
  - rewrite !vreads_cons. cbn [fst snd].
    destruct (vstep_sim x M' M Hx Hs) as [E1 E2]. destruct (IH _ _ E2) as [I1 I2].
    rewrite E1, I1. split; [reflexivity|exact I2].
  - rewrite vreads_cons. cbn [fst snd vstep_reads vstep_mem].
    destruct Hs as (A & B & C). pose proof (B _ Hp) as Hm.
    destruct (mem_find (poff p) M') as [fl0|]; [|congruence].
    cbn [app]. apply IH. split; [exact A|split; assumption].
  - rewrite vreads_cons. cbn [fst snd vstep_reads vstep_mem].
    destruct Hs as (A & B & C). rewrite (C _ Hq). rewrite orb_true_r.
    cbn [app]. apply IH. split; [exact A|split; assumption].
Qed.

(* the locations t already has lie below size *)
Fixpoint old_lt (t : tree) : Prop :=
  match t with
  | E => True
  | T nl l il _ _ _ r =>
    (forall p, nl = Some p -> poff p < size) /\ (forall q, il = Some q -> poff q < size) /\ old_lt l /\ old_lt r
  end.

Lemma nl_sim nl nl' : loc_step FN nl nl' -> (forall p, nl = Some p -> poff p < size) ->
  tsim (match nl' with Some p => [VN p] | None => [] end) (match nl with Some p => [VN p] | None => [] end).
Proof.
  intros H Ho. destruct nl as [p|], nl' as [p'|]; cbn [loc_step] in H; try contradiction.
  - subst p'. apply tsim_old; [cbn [voff]; now apply Ho|constructor].
  - apply tsim_fn; [exact H|constructor].
  - constructor.
Qed.

Lemma il_sim il il' it wv : loc_step FI il il' -> (forall q, il = Some q -> poff q < size) ->
  tsim (match il' with Some q => [VI q it wv] | None => [] end) (match il with Some q => [VI q it wv] | None => [] end).
Proof.
  intros H Ho. destruct il as [q|], il' as [q'|]; cbn [loc_step] in H; try contradiction.
  - subst q'. apply tsim_old; [cbn [voff]; now apply Ho|constructor].
  - apply tsim_fi; [exact H|constructor].
  - constructor.
Qed.

Lemma getv_t_sim cmp k wv : forall t t', fl FI FN t t' -> old_lt t ->
  tsim (getv_t cmp t' k wv) (getv_t cmp t k wv).
Proof.
  induction t as [|nl l IHl il it nn nb r IHr]; intros [|nl' l' il' it' nn' nb' r'] H Ho;
    cbn [fl] in H; try contradiction; [constructor|].
  destruct H as (H1 & H2 & H3 & H4 & H5). subst it'.
  cbn [old_lt] in Ho. destruct Ho as (O1 & O2 & O3 & O4).
  cbn [getv_t]. apply tsim_app; [now apply nl_sim|]. apply tsim_app; [now apply il_sim|].
  destruct (cmp k (ikey it)); [|now apply IHl|now apply IHr].
  destruct wv; [now apply il_sim|constructor].
Qed.

Lemma walk_t_sim left wv : forall t t', fl FI FN t t' -> old_lt t ->
  tsim (walk_t left wv t') (walk_t left wv t).
Proof.
  induction t as [|nl l IHl il it nn nb r IHr]; intros [|nl' l' il' it' nn' nb' r'] H Ho;
    cbn [fl] in H; try contradiction; [constructor|].
  destruct H as (H1 & H2 & H3 & H4 & H5). subst it'.
  cbn [old_lt] in Ho. destruct Ho as (O1 & O2 & O3 & O4).
  cbn [walk_t]. apply tsim_app; [now apply nl_sim|].
  destruct left.
  - specialize (IHl l' H4 O3). destruct l, l'; cbn [fl] in H4; try contradiction; [now apply il_sim|exact IHl].
  - specialize (IHr r' H5 O4). destruct r, r'; cbn [fl] in H5; try contradiction; [now apply il_sim|exact IHr].
Qed.

End Sim.

Lemma rep_below_old_lt f b : forall t, rep f t -> below t b -> old_lt b t.
Proof.
  induction t as [|nl l IHl il it nn nb r IHr]; intros Hrep Hb; [exact I|].
  destruct (rep_dec f _ _ _ _ _ _ _ Hrep) as (Rl & Rr & Rq).
  cbn [below] in Hb. destruct Hb as (B1 & B2 & B3 & B4).
  cbn [old_lt]. split; [|split; [|split; auto]].
  - intros p ->. cbn [rep] in Hrep. destruct Hrep as (_ & _ & _ & Hlen & _).
    cbn [loc_below] in B1. rewrite Hlen in B1. change node_len with 52 in B1. lia.
  - intros q ->. destruct (Rq q eq_refl) as [Hlen _]. cbn [loc_below] in B2.
    pose proof (item_loc_len_ge it). lia.
Qed.

(* the touches of a lookup *)
Definition lookup_touches (cmp : bytes -> bytes -> comparison) (t : tree) (o : sop) : list vtouch :=
  match o with
  | SGet k wv => getv_t cmp t k wv
  | SMin wv => walk_t true wv t
  | SMax wv => walk_t false wv t
  | _ => []
  end.

Lemma sstep3_lookup_reads cmp name s o t : cs_get name (ss_colls s) = Some t -> lookup_op o = true ->
  fst (sstep3 cmp name s (S2 (S1 o))) = fst (vreads (ss_mem s) (lookup_touches cmp t o)).
Proof.
  intros Hg Hl. unfold sstep3. rewrite Hg. unfold sstep2, sstep.
  destruct o as [k wv|wv|wv|k v prio|k]; try discriminate Hl; cbn [lookup_touches].
  - destruct (vreads (ss_mem s) (getv_t cmp t k wv)); reflexivity.
  - destruct (vreads (ss_mem s) (walk_t true wv t)); reflexivity.
  - destruct (vreads (ss_mem s) (walk_t false wv t)); reflexivity.
Qed.

(* T6 with the hypotheses it needs: the tree of the run is represented in the file below the size *)
Theorem lookup_after_flush_same_reads_gen : forall cmp name s o,
  (forall t, cs_get name (ss_colls s) = Some t -> rep (ss_file s) t /\ below t (ss_size s)) ->
  lookup_op o = true ->
  fst (sstep3 cmp name (snd (sstep3 cmp name s SFlush)) (S2 (S1 o))) = fst (sstep3 cmp name s (S2 (S1 o))).
Proof.
  intros cmp name s o Hrb Hl.
  unfold sstep3 at 2. unfold flush_trees.
  destruct (write_trees (ss_file s) (ss_size s) (ss_colls s)) as [[f1 s1] cs1] eqn:E1. cbn [snd].
  destruct (write_trees_fresh _ _ _ _ _ _ E1) as [[S1 S2] G]. specialize (G name).
  set (F := fresh_mems (ss_colls s) cs1) in *.
  set (s' := mkSst _ _ cs1 (F ++ ss_mem s)).
  destruct (cs_get name (ss_colls s)) as [t|] eqn:Hg.
  - destruct G as (t' & Hg' & Hfl). destruct (Hrb t eq_refl) as [Hrep Hbel].
    rewrite (sstep3_lookup_reads cmp name s' o t' Hg' Hl), (sstep3_lookup_reads cmp name s o t Hg Hl).
    cbn [ss_mem s'].
    assert (HFI : forall o0, In (o0, true) F -> ss_size s <= o0) by (intros o0 Hi; apply S1 in Hi; lia).
    assert (HFN : forall o0, In (o0, false) F -> ss_size s <= o0) by (intros o0 Hi; apply S1 in Hi; lia).
    assert (Hms : msim (ss_size s) (fun o0 => In (o0, true) F) (fun o0 => In (o0, false) F) (F ++ ss_mem s) (ss_mem s)).
    { split; [|split].
      - intros o0 Ho0. rewrite mem_find_app. rewrite mem_find_none_notin; [reflexivity|].
        intros b Hin. apply S1 in Hin. lia.
      - intros o0 Hin. rewrite mem_find_app. pose proof (mem_find_in o0 false F Hin) as Hne.
        destruct (mem_find o0 F); [discriminate|congruence].
      - intros o0 Hin. rewrite mem_find_app. rewrite (mem_find_in_true o0 F (S2 o0 Hin) Hin). reflexivity. }
    pose proof (rep_below_old_lt _ _ t Hrep Hbel) as Hold.
    assert (Hts : tsim (ss_size s) (fun o0 => In (o0, true) F) (fun o0 => In (o0, false) F)
                       (lookup_touches cmp t' o) (lookup_touches cmp t o)).
    { destruct o as [k wv|wv|wv|k v prio|k]; try discriminate Hl; cbn [lookup_touches].
      - apply getv_t_sim; assumption.
      - apply walk_t_sim; assumption.
      - apply walk_t_sim; assumption. }
    exact (proj1 (vreads_sim _ _ _ HFI _ _ Hts _ _ Hms)).
  - unfold sstep3. cbn [ss_colls s']. rewrite G, Hg. reflexivity.
Qed.
Print Assumptions lookup_after_flush_same_reads_gen.

(* T6 as stated (inv3 being the adapted invariant of T4); the hypothesis on the memory is not needed *)
Theorem lookup_after_flush_same_reads : forall cmp name s o,
  inv3 s -> Forall (fun e => fst e < ss_size s) (ss_mem s) -> lookup_op o = true ->
  fst (sstep3 cmp name (snd (sstep3 cmp name s SFlush)) (S2 (S1 o))) = fst (sstep3 cmp name s (S2 (S1 o))).
Proof.
  intros cmp name s o [Hsz Hinv] _ Hl. apply lookup_after_flush_same_reads_gen; [|exact Hl].
  intros t Hg. destruct (cs_get_Forall (tree_inv3 (ss_file s) (ss_size s)) name _ _ Hinv Hg) as (A & B & _).
  split; assumption.
Qed.
Print Assumptions lookup_after_flush_same_reads.

(* ------------------------------------------------------------------ *)
(* non-vacuity: a file written by the model's Flush, re-opened; SetItem, Flush, a visit (which evicts the items it
   touched, the freshly flushed one included), then a Get with value: it reads the item record the Flush of the run
   wrote, at offset 205 = the length of the first file *)
Definition ex3_tree : tree :=
  T None (T None E None (mkItem [97%N] [1%N] 3) 1 2 E) None (mkItem [98%N] [2%N] 9) 2 4 E.
Definition ex3_name : bytes := [120%N].
Definition ex3_file : file := fst (fst (flush_trees [] 0 [(ex3_name, ex3_tree)])).
Definition ex3_ops : list sop3 :=
  [S2 (S1 (SSet [99%N] [7%N] 5)); SFlush; S2 (SVis true [] false 10%nat); S2 (S1 (SGet [99%N] true))].

Example seq3_example :
  blen ex3_file = 205 /\
  option_map fst (seq3_reads_file cmp_bytes ex3_file ex3_name ex3_ops) =
    Some [[Rd 88 52; Rd 18 16; Rd 34 1; Rd 36 52]; [];
          [Rd 0 16; Rd 16 1];
          [Rd 18 16; Rd 34 1; Rd 205 16; Rd 221 1; Rd 205 16; Rd 221 1; Rd 222 1]] /\
  option_map (fun x => blen (snd x)) (seq3_reads_file cmp_bytes ex3_file ex3_name ex3_ops) = Some 393.
Proof. split; [|split]; vm_compute; reflexivity. Qed.
Print Assumptions seq3_example.

(* the start state of the example satisfies the invariant, and its tree has disjoint records *)
Example seq3_example_inv : exists s, seq3_start ex3_file = Some s /\ inv3 s /\
  Forall (fun nt => records_disjoint (snd nt)) (ss_colls s).
Proof.
  destruct (seq3_start ex3_file) as [s|] eqn:E; [|vm_compute in E; discriminate].
  exists s. split; [reflexivity|].
  vm_compute in E. inversion E; subst s; clear E.
  assert (Hl : load 3 ex3_file (Some (mkPloc 88 52)) 205 3 =
               Some (T (Some (mkPloc 88 52)) (T (Some (mkPloc 36 52)) E (Some (mkPloc 0 18)) (mkItem [97%N] [1%N] 3) 1 2 E)
                       (Some (mkPloc 18 18)) (mkItem [98%N] [2%N] 9) 2 4 E, 1%nat)) by (vm_compute; reflexivity).
  destruct (load_sound _ _ _ _ _ _ _ Hl ltac:(vm_compute; reflexivity)) as [Hrep Hbel].
  split.
  - unfold inv3. cbn [ss_size ss_file ss_colls]. split; [vm_compute; split; discriminate|].
    constructor; [|constructor]. cbn [snd]. split; [exact Hrep|]. split; [exact Hbel|]. split.
    + cbn [aggs]. repeat split.
    + unfold items_ok. cbn [elems app]. repeat constructor; apply item_okb_ok; vm_compute; reflexivity.
  - cbn [ss_colls]. constructor; [|constructor]. cbn [snd].
    unfold records_disjoint. cbn [records node_records item_records node_locs item_locs app map fst snd].
    repeat constructor; unfold rdisj, idisj; cbn [rspan fst snd poff plen]; lia.
Qed.
Print Assumptions seq3_example_inv.

(* ------------------------------------------------------------------ *)
(* T5 in full: records_disjoint is preserved by SetItem / Delete (the records of the result are, as a multiset, among
   those of the argument) and by Flush (LazyProofs.L3_write_tree) *)

Lemma ploc_eq_dec (a b : ploc) : {a = b} + {a <> b}.
Proof. decide equality; apply Z.eq_dec. Qed.
Lemma item_eq_dec (a b : item) : {a = b} + {a <> b}.
Proof. decide equality; [apply Z.eq_dec|apply (list_eq_dec N.eq_dec)|apply (list_eq_dec N.eq_dec)]. Qed.
Lemma record_eq_dec (a b : record) : {a = b} + {a <> b}.
Proof. decide equality; [apply ploc_eq_dec|apply item_eq_dec|apply ploc_eq_dec]. Qed.

Definition rc (x : record) (t : tree) : nat := count_occ record_eq_dec (records t) x.
Definition cN (x : record) (nl : option ploc) : nat :=
  count_occ record_eq_dec (map RNode (match nl with Some p => [p] | None => [] end)) x.
Definition cI (x : record) (il : option ploc) (it : item) : nat :=
  count_occ record_eq_dec (map (fun y : ploc * item => RItem (fst y) (snd y)) (match il with Some q => [(q, it)] | None => [] end)) x.

Lemma rc_E x : rc x E = 0%nat. Proof. reflexivity. Qed.
Lemma rc_T x nl l il it nn nb r : rc x (T nl l il it nn nb r) = (cN x nl + cI x il it + rc x l + rc x r)%nat.
Proof.
  unfold rc, cN, cI, records, node_records, item_records. cbn [node_locs item_locs].
  rewrite !map_app, !count_occ_app. lia.
Qed.
Lemma rc_mk x l il it r : rc x (mk l il it r) = (cI x il it + rc x l + rc x r)%nat.
Proof. unfold mk. rewrite rc_T. reflexivity. Qed.
Lemma cI_None x it : cI x None it = 0%nat. Proof. reflexivity. Qed.

Section RCounts.
Variable cmp : bytes -> bytes -> comparison.

Lemma splitR_rc : forall s t l m r, splitR cmp s t l m r ->
  forall x, (rc x l + rc x r <= rc x t)%nat.
Proof.
  intros s t l m r H x.
  induction H as [ | nl l il it nn nb r Hc | nl il it nn nb r Hc
                 | nl l il it nn nb r ll m lr Hc HR IH | nl l il it nn nb Hc
                 | nl l il it nn nb r rl m rr Hc HR IH ];
    rewrite ?rc_mk, ?rc_T, ?rc_E; lia.
Qed.

Lemma joinR_rc : forall a b j, joinR a b j -> forall x, (rc x j <= rc x a + rc x b)%nat.
Proof.
  intros a b j H x.
  induction H as [ b | a
    | n1 tl til ti nn1 nb1 tr n2 al ail ai nn2 nb2 ar j Hp HR IH
    | n1 tl til ti nn1 nb1 tr n2 al ail ai nn2 nb2 ar j Hp HR IH ];
    rewrite ?rc_mk, ?rc_E; try lia.
  - rewrite rc_T in IH. rewrite !rc_T. lia.
  - rewrite rc_T in IH. rewrite !rc_T. lia.
Qed.

Lemma insert_rc : forall t new x, (rc x (insert cmp t new) <= rc x t)%nat.
Proof.
  induction t as [|nl l IHl il it nn nb r IHr]; intros new x.
  - unfold insert, single. rewrite rc_T, !rc_E. cbn [cN]. rewrite cI_None. cbn. lia.
  - rewrite insert_eq. destruct (iprio it >? iprio new).
    + destruct (cmp (ikey it) (ikey new)); rewrite rc_mk, rc_T, ?cI_None.
      * lia.
      * specialize (IHr new x). lia.
      * specialize (IHl new x). lia.
    + destruct (Treap.split cmp (T nl l il it nn nb r) (ikey new)) as [[l' m'] r'] eqn:Hs.
      apply split_R in Hs. pose proof (splitR_rc _ _ _ _ _ Hs x). rewrite rc_mk, cI_None. lia.
Qed.

Lemma delete_rc : forall t k x, (rc x (fst (delete cmp t k)) <= rc x t)%nat.
Proof.
  intros t k x. unfold delete.
  destruct (lookup cmp t k); [|cbn [fst]; lia].
  destruct (Treap.split cmp t k) as [[l m] r] eqn:Hs.
  destruct m as [p|]; cbn [fst]; [|lia].
  apply split_R in Hs. pose proof (splitR_rc _ _ _ _ _ Hs x).
  pose proof (joinR_rc _ _ _ (join_R l r) x). lia.
Qed.

Lemma step_tree_rc t o x : (rc x (step_tree cmp t o) <= rc x t)%nat.
Proof.
  destruct o as [o|asc target wv bud| |]; cbn [step_tree]; try lia.
  destruct o as [k wv|wv|wv|k v prio|k]; try lia.
  - destruct (valid_item k (Some v) prio) eqn:V.
    + rewrite (set_item_spec cmp t k v prio V). apply insert_rc.
    + rewrite (set_item_invalid cmp t k (Some v) prio V). lia.
  - apply delete_rc.
Qed.

End RCounts.

(* a sub-multiset of a list of pairwise related elements (R symmetric, irreflexive on the list) *)
Lemma FOP_NoDup {A} (R : A -> A -> Prop) (l : list A) :
  (forall x, In x l -> ~ R x x) -> ForallOrdPairs R l -> NoDup l.
Proof.
  intros Hirr H. induction H as [|x l Hx Hl IH]; constructor.
  - intro Hin. rewrite Forall_forall in Hx. apply (Hirr x); [left; reflexivity|]. apply Hx. exact Hin.
  - apply IH. intros y Hy. apply Hirr. right. exact Hy.
Qed.

Lemma FOP_of_NoDup {A} (R : A -> A -> Prop) (l : list A) :
  NoDup l -> (forall x y, In x l -> In y l -> x <> y -> R x y) -> ForallOrdPairs R l.
Proof.
  intros Hnd. induction Hnd as [|x l Hx Hnd IH]; intro H; constructor.
  - apply Forall_forall. intros y Hy. apply H; [left; reflexivity|right; exact Hy|].
    intro e. subst y. contradiction.
  - apply IH. intros a b Ha Hb. apply H; right; assumption.
Qed.

Lemma FOP_sub {A} (dec : forall a b : A, {a = b} + {a <> b}) (R : A -> A -> Prop) (l l' : list A) :
  (forall x y, R x y -> R y x) -> (forall x, In x l -> ~ R x x) -> ForallOrdPairs R l ->
  (forall x, (count_occ dec l' x <= count_occ dec l x)%nat) -> ForallOrdPairs R l'.
Proof.
  intros Hsym Hirr H Hc.
  pose proof (FOP_NoDup R l Hirr H) as Hnd.
  assert (Hin : forall x, In x l' -> In x l).
  { intros x Hx. apply (count_occ_In dec) in Hx. apply (count_occ_In dec). specialize (Hc x). lia. }
  apply FOP_of_NoDup.
  - apply (NoDup_count_occ dec). intro x. rewrite (NoDup_count_occ dec) in Hnd. specialize (Hnd x). specialize (Hc x). lia.
  - intros x y Hx Hy Hne. destruct (ForallOrdPairs_In H x y (Hin x Hx) (Hin y Hy)) as [e|[r|r]]; auto. contradiction.
Qed.

Lemma rep_records_pos f t : rep f t -> forall a, In a (records t) -> ~ rdisj a a.
Proof.
  intros Hrep a Ha.
  assert (Hpos : fst (rspan a) < snd (rspan a)).
  { unfold records in Ha. apply in_app_or in Ha. destruct Ha as [Ha|Ha].
    - unfold node_records in Ha. apply in_map_iff in Ha. destruct Ha as (p & <- & Hp).
      cbn [rspan fst snd]. rewrite (rep_node_lens f t Hrep p Hp). unfold node_len. lia.
    - unfold item_records in Ha. apply in_map_iff in Ha. destruct Ha as ([q it] & <- & Hq).
      cbn [rspan fst snd]. destruct (rep_item_lens f t Hrep q it Hq) as [Hlen _].
      rewrite Hlen. pose proof (item_loc_len_ge it). lia. }
  unfold rdisj, idisj. lia.
Qed.

Theorem step_tree_disjoint cmp f t o :
  rep f t -> records_disjoint t -> records_disjoint (step_tree cmp t o).
Proof.
  intros Hrep Hd. unfold records_disjoint in *.
  apply (FOP_sub record_eq_dec rdisj (records t)); [apply rdisj_sym|apply (rep_records_pos f t Hrep)|exact Hd|].
  intro x. apply (step_tree_rc cmp t o x).
Qed.
Print Assumptions step_tree_disjoint.

Lemma write_trees_disjoint : forall cs f size f' s' cs',
  Forall (fun nt => below (snd nt) size /\ records_disjoint (snd nt)) cs ->
  write_trees f size cs = (f', s', cs') -> Forall (fun nt => records_disjoint (snd nt)) cs'.
Proof.
  induction cs as [|[n t] cs IH]; intros f size f' s' cs' HF H; cbn [write_trees] in H.
  - inversion H; subst. constructor.
  - destruct (write_tree f size t) as [[f1 s1] t'] eqn:E1.
    destruct (write_trees f1 s1 cs) as [[f2 s2] cs2] eqn:E2.
    inversion H; subst; clear H. inversion HF as [|? ? [Hb Hd] Hr]; subst. cbn [snd] in *.
    pose proof (write_tree_mono _ _ _ _ _ _ E1) as Hm1.
    constructor; [cbn [snd]; exact (L3_write_tree _ _ _ _ _ _ Hb Hd E1)|].
    eapply IH; [|exact E2].
    eapply Forall_impl; [|exact Hr]. intros nt [B D]. split; [eapply below_mono; eauto|exact D].
Qed.

Definition disj3 (s : sst) : Prop := Forall (fun nt => records_disjoint (snd nt)) (ss_colls s).

Theorem sstep3_disjoint : forall cmp name s o, inv3 s -> disj3 s -> disj3 (snd (sstep3 cmp name s o)).
Proof.
  intros cmp name s o [Hsz Hinv] Hd. unfold disj3 in *. destruct o as [o2|].
  - unfold sstep3. destruct (cs_get name (ss_colls s)) as [t|] eqn:Hg; [|exact Hd].
    pose proof (sstep2_tree cmp t (ss_mem s) o2) as Ht.
    destruct (sstep2 cmp t (ss_mem s) o2) as [[rs t'] m']. cbn [fst snd] in Ht. subst t'.
    cbn [snd ss_colls]. apply (cs_set_Forall records_disjoint); [exact Hd|].
    destruct (cs_get_Forall (tree_inv3 (ss_file s) (ss_size s)) name _ _ Hinv Hg) as (Hrep & _).
    apply (step_tree_disjoint cmp (ss_file s)); [exact Hrep|].
    exact (cs_get_Forall records_disjoint name _ _ Hd Hg).
  - unfold sstep3, flush_trees.
    destruct (write_trees (ss_file s) (ss_size s) (ss_colls s)) as [[f1 s1] cs1] eqn:E1.
    cbn [snd ss_colls]. eapply write_trees_disjoint; [|exact E1].
    rewrite Forall_forall in *. intros nt Hin. split; [apply (Hinv nt Hin)|apply (Hd nt Hin)].
Qed.
Print Assumptions sstep3_disjoint.

Theorem seq3_never_reads_values : forall cmp name ops s,
  inv3 s -> disj3 s -> forallb key_only_op3 ops = true -> forallb set_okb ops = true -> run_ok3 cmp name s ops ->
  Forall2 never_value (srun3 cmp name s ops) (srun3_trees cmp name s ops).
Proof.
  intros cmp name. induction ops as [|o r IH]; intros s Hinv Hd Hk Hok Hrun; [constructor|].
  cbn [forallb] in Hk, Hok. apply andb_prop in Hk. destruct Hk as [Hk1 Hk2].
  apply andb_prop in Hok. destruct Hok as [Hok1 Hok2].
  cbn [run_ok3] in Hrun. destruct Hrun as (R1 & R2 & R3).
  cbn [srun3_trees]. rewrite srun3_cons. constructor.
  - apply sstep3_never_value; [exact Hinv|exact Hk1|].
    destruct (cs_get name (ss_colls s)) as [t|] eqn:Hg; [|exact I].
    exact (cs_get_Forall records_disjoint name _ _ Hd Hg).
  - apply IH; try assumption; [apply sstep3_inv; assumption|apply sstep3_disjoint; assumption].
Qed.
Print Assumptions seq3_never_reads_values.
