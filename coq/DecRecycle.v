(* DecRecycle.v — part of the decision theorems (see DecBase.v): no use of an Item after its release.
   An application may recycle an Item's buffers the moment its count reaches zero (ItemDecRef); the visit releases an
   item when it leaves the node.  Pinned, from the function bodies regenerated from the Go source on every run:
   what the visits keep across deliveries is a COPY of a key, never the item or its key slice, and visitNodes holds a
   reference of its own from before the visitor is called until after the last use of the item's key. *)
From GK Require Import Base Treap Codec Blocks GExpr Generated DecBase.
From Coq Require Import ZArith NArith List String Bool Lia.
Import ListNotations.
Open Scope string_scope.
Open Scope list_scope.
Open Scope Z_scope.

Local Arguments Z.gtb : simpl never.
Local Arguments Z.ltb : simpl never.
Local Arguments Z.leb : simpl never.
Local Arguments Z.geb : simpl never.
Local Arguments Z.eqb : simpl never.
Local Arguments Z.add : simpl never.
Local Arguments Z.sub : simpl never.
Local Arguments Z.of_nat : simpl never.

(* the out-of-order guard of ascending visits compares with a copy of the previous key *)
Theorem visit_guard_keeps_a_copy :
  body "<lit:Collection.VisitItemsAscendEx#1>" =
    [SIf [] (GBin "&&" (GVar "havePrevVisitKey")
                (GBin ">" (GCall "t.compare" [GVar "prevVisitKey"; GVar "i.Key"]) (GInt 0)))
       [SAssign [GVar "errCheckedVisitor"] "="
          [GCall "fmt.Errorf"
             [GBin "+" (GLit """corrupted / out-of-order index""")
                (GLit """, key: %s vs %s, coll: %p, collName: %s, store: %p, storeFile: %v""");
              GCall "string" [GVar "prevVisitKey"]; GCall "string" [GVar "i.Key"]; GVar "t";
              GVar "t.name"; GVar "t.store"; GVar "t.store.file"]];
        SReturn [GVar "false"]] [];
     SAssign [GVar "prevVisitKey"] "="
       [GCall "append" [GCall "[:]" [GVar "prevVisitKey"; GNil; GInt 0]; GVar "i.Key"]];
     SAssign [GVar "havePrevVisitKey"] "=" [GVar "true"];
     SReturn [GCall "visitor" [GVar "i"; GVar "depth"]]].
Proof. vm_compute. reflexivity. Qed.

(* the block start keys of both whole-collection enumerations are copies *)
Definition copy_of (e : string) : gexpr := GCall "append" [GCall "[]byte" [GNil]; GVar e].

Theorem block_keys_are_copies :
  hd (SReturn []) (body "<lit:Collection.VisitItemsAscendBlockEx#1>") =
    SIf [] (GBin "==" (GVar "j") (GInt 0))
      [SAssign [GVar "blockStore"] "=" [GCall "append" [GVar "blockStore"; copy_of "i.Key"]];
       SAssign [GVar "j"] "=" [GInt 1]]
      [SIf [] (GBin ">=" (GVar "j") (GVar "lenBlock")) [SAssign [GVar "j"] "=" [GInt 0]] [SIncDec (GVar "j") true]] /\
  body "<lit:Collection.VisitItemsRandom#1>" = body "<lit:Collection.VisitItemsAscendBlockEx#1>" /\
  In (SAssign [GCall "[]" [GVar "blockStore"; GVar "i"]] "=" [copy_of "itm.Key"])
     (body "<lit:Collection.VisitItemsRandom#2>").
Proof. repeat split; try (vm_compute; reflexivity). vm_compute. tauto. Qed.

(* visitNodes: own reference from before the visitor call until after the comparison that uses the item's key;
   released on both ways out *)
Theorem visit_holds_item_while_used :
  call_list "Store.visitNodes" =
    ["n.read"; "n.isEmpty";
     "func(evictNode *node) {  if i := evictNode.Evict(); i != nil {   o.ItemDecRef(t, i)  } }";
     "nItemLoc.read"; "panic"; "fmt.Sprintf"; "choiceFunc"; "t.compare";
     "o.visitNodes"; "n.read"; "nItemLoc.read"; "o.ItemAddRef"; "visitor";
     "o.ItemDecRef"; "n.read"; "choiceFunc"; "t.compare"; "o.ItemDecRef";
     "o.visitNodes"] /\
  count_occ string_dec (call_list "Store.visitNodes") "o.ItemAddRef" = 1%nat.
Proof. split; vm_compute; reflexivity. Qed.
