(* DecSnapshot.v — part of the decision theorems (see DecBase.v): each file serves a few properties, so that a change of
   the source breaks only the theorems -- and the properties -- it concerns. *)
From GK Require Import Base Treap Codec Blocks GExpr Generated DecBase.
From Coq Require Import ZArith NArith List String Bool Lia.
Import ListNotations.
Open Scope string_scope.
Open Scope list_scope.
Open Scope Z_scope.

Local Arguments Z.gtb : simpl never.
Local Arguments Z.ltb : simpl never.
Local Arguments Z.leb : simpl never.
Local Arguments Z.geb : simpl never.
Local Arguments Z.eqb : simpl never.
Local Arguments Z.quot : simpl never.
Local Arguments Z.rem : simpl never.
Local Arguments Z.add : simpl never.
Local Arguments Z.sub : simpl never.
Local Arguments Z.of_nat : simpl never.

(* Snapshot = Proto's snapshot: a read-only store with the SAME callbacks, file and lock objects, holding for every
   collection (in name order) one more reference on its current version *)
Theorem snapshot_function :
  body "Store.Snapshot" =
    [SAssign [GVar "coll"] ":=" [GCall "copyColl" [GUn "*" (GCall "s.getColl" [])]];
     SAssign [GVar "res"] ":="
       [GUn "&" (GOther "Store{  coll:  &coll,  file:  s.file,  size:  atomic.LoadInt64(&s.size),  readOnly: true,  callbacks: s.callbacks, }")];
     SRange (GVar "_") (GVar "name") (GCall "collNames" [GVar "coll"])
       [SAssign [GVar "collOrig"] ":=" [GCall "[]" [GVar "coll"; GVar "name"]];
        SAssign [GCall "[]" [GVar "coll"; GVar "name"]] "="
          [GUn "&" (GOther "Collection{  store:  res,  compare: collOrig.compare,  rootLock: collOrig.rootLock,  root:  collOrig.rootAddRef(), }")]];
     SReturn [GVar "res"]].
Proof. vm_compute. reflexivity. Qed.

(* 15. mutations and Flush are refused on a read-only store, Flush also without a file (MStore.snapshot_refuses) *)
Theorem readonly_refuses :
  hd_error (conds 400 (body "Collection.SetItem")) = Some (GVar "t.store.readOnly") /\
  hd_error (conds 400 (body "Collection.Delete")) = Some (GVar "t.store.readOnly") /\
  hd_error (conds 400 (body "Store.Flush")) = Some (GVar "s.readOnly") /\
  nth_error (conds 400 (body "Store.Flush")) 1 = Some (GBin "==" (GVar "s.file") GNil) /\
  (forall f, In f ["Collection.SetItem"; "Collection.Delete"; "Store.Flush"] ->
     match body f with SIf [] _ (SReturn _ :: _) [] :: _ => True | _ => False end).
Proof. repeat split; try (vm_compute; reflexivity). intros f [<-|[<-|[<-|[]]]]; vm_compute; exact I. Qed.

