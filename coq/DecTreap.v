(* DecTreap.v — part of the decision theorems (see DecBase.v): each file serves a few properties, so that a change of
   the source breaks only the theorems -- and the properties -- it concerns. *)
From GK Require Import Base Treap Codec Blocks GExpr Generated DecBase.
From Coq Require Import ZArith NArith List String Bool Lia.
Import ListNotations.
Open Scope string_scope.
Open Scope list_scope.
Open Scope Z_scope.

Local Arguments Z.gtb : simpl never.
Local Arguments Z.ltb : simpl never.
Local Arguments Z.leb : simpl never.
Local Arguments Z.geb : simpl never.
Local Arguments Z.eqb : simpl never.
Local Arguments Z.quot : simpl never.
Local Arguments Z.rem : simpl never.
Local Arguments Z.add : simpl never.
Local Arguments Z.sub : simpl never.
Local Arguments Z.of_nat : simpl never.

Theorem union_priority_decision :
  exists c, decisions "Store.union" "thisItem.Priority" = [c] /\
            forall x y, gtrue (prio_env x y) c = Some (x >? y).
Proof. eexists. split; [vm_compute; reflexivity|]. intros x y. cbn. destruct (x >? y); reflexivity. Qed.

Theorem join_priority_decision :
  exists c, decisions "Store.join" "thisItem.Priority" = [c] /\
            forall x y, gtrue (prio_env x y) c = Some (x >? y).
Proof. eexists. split; [vm_compute; reflexivity|]. intros x y. cbn. destruct (x >? y); reflexivity. Qed.

Theorem split_compare_decisions :
  exists c1 c2, decisions "Store.split" "c" = [c1; c2] /\
    forall o : comparison,
      gtrue (c_env (cmpz o)) c1 = Some (match o with Eq => true | _ => false end) /\
      gtrue (c_env (cmpz o)) c2 = Some (match o with Lt => true | _ => false end).
Proof. do 2 eexists. split; [vm_compute; reflexivity|]. intros [ | | ]; split; reflexivity. Qed.

Theorem getitem_compare_decisions :
  exists c1 c2, decisions "Collection.GetItem" "c" = [c1; c2] /\
    forall o : comparison,
      gtrue (c_env (cmpz o)) c1 = Some (match o with Lt => true | _ => false end) /\
      gtrue (c_env (cmpz o)) c2 = Some (match o with Gt => true | _ => false end).
Proof. do 2 eexists. split; [vm_compute; reflexivity|]. intros [ | | ]; split; reflexivity. Qed.

Lemma valid_item_spec key val prio :
  valid_item key val prio =
  negb (Z.of_nat (List.length key) =? 0) && (match val with Some _ => true | None => false end) &&
  (Z.of_nat (List.length key) <=? 65535) && (0 <=? prio).
Proof.
  destruct key as [|k ks]; [destruct val; reflexivity|].
  assert (E : (Z.of_nat (List.length (k :: ks)) =? 0) = false) by (apply Z.eqb_neq; cbn [List.length]; lia).
  rewrite E. destruct val; reflexivity.
Qed.

Theorem setitem_validation_decisions :
  exists c1 c2,
    decisions "Collection.SetItem" "item.Key" = [c1] /\ decisions "Collection.SetItem" "item.Priority" = [c2] /\
    forall keynil key val prio, (keynil = true -> key = []) ->
      exists b1 b2, gtrue (item_env keynil key val prio) c1 = Some b1 /\
                    gtrue (item_env keynil key val prio) c2 = Some b2 /\
                    valid_item key val prio = negb b1 && negb b2.
Proof.
  do 2 eexists. split; [vm_compute; reflexivity|]. split; [vm_compute; reflexivity|].
  intros keynil key val prio Hnil.
  rewrite valid_item_spec.
  remember (Z.of_nat (List.length key)) as n eqn:En.
  assert (Hn0 : keynil = true -> n = 0) by (intro H; rewrite (Hnil H) in En; exact En).
  assert (Hn : 0 <= n) by (subst n; lia).
  unfold item_env, gtrue. rewrite <- En. clear En Hnil key.
  destruct keynil.
  - rewrite (Hn0 eq_refl). cbn. do 2 eexists. split; [reflexivity|]. split; [reflexivity|]. reflexivity.
  - clear Hn0. cbn.
    destruct (n >? 65535) eqn:E1; cbn.
    + do 2 eexists. split; [reflexivity|]. split; [reflexivity|].
      assert (n <=? 65535 = false) as -> by (apply Z.leb_gt; apply Z.gtb_lt in E1; lia).
      cbn. rewrite !andb_false_r. reflexivity.
    + assert (n <=? 65535 = true) as -> by (apply Z.leb_le; rewrite Z.gtb_ltb in E1; apply Z.ltb_ge in E1; lia).
      destruct (n =? 0) eqn:E0; cbn.
      * do 2 eexists. split; [reflexivity|]. split; [reflexivity|]. reflexivity.
      * destruct val as [v|]; cbn.
        -- do 2 eexists. split; [reflexivity|]. split; [reflexivity|].
           destruct (prio <? 0) eqn:E2; cbn.
           ++ assert (0 <=? prio = false) as -> by (apply Z.leb_gt; apply Z.ltb_lt in E2; lia). reflexivity.
           ++ assert (0 <=? prio = true) as -> by (apply Z.leb_le; apply Z.ltb_ge in E2; lia). reflexivity.
        -- do 2 eexists. split; [reflexivity|]. split; [reflexivity|]. reflexivity.
Qed.

Theorem node_aggregates_are_mk :
  aggs_ok None (agg_calls "Store.union") = true /\ aggs_ok None (agg_calls "Store.split") = true /\
  aggs_ok None (agg_calls "Store.join") = true /\
  List.length (filter (fun c => String.eqb (fst c) "t.mkNode") (agg_calls "Store.union")) = 3%nat /\
  List.length (filter (fun c => String.eqb (fst c) "t.mkNode") (agg_calls "Store.split")) = 2%nat /\
  List.length (filter (fun c => String.eqb (fst c) "t.mkNode") (agg_calls "Store.join")) = 2%nat /\
  (forall ln rn lb rb ib : Z,
     let rho := upd (upd (upd (upd (upd env0 "leftNum" ln) "rightNum" rn) "leftBytes" lb) "rightBytes" rb) "x.NumBytes(t)" ib in
     geval rho (GBin "+" (GBin "+" (GVar "leftNum") (GVar "rightNum")) (GInt 1)) = Some (ln + rn + 1) /\
     geval rho (GBin "+" (GBin "+" (GVar "leftBytes") (GVar "rightBytes")) (GCall "uint64" [GCall "x.NumBytes" [GVar "t"]])) = Some (lb + rb + ib)).
Proof.
  repeat split; try (vm_compute; reflexivity); intros; cbn; reflexivity.
Qed.

Theorem new_node_is_single :
  agg_calls "Collection.SetItem" =
  [("t.mkNode", [GNil; GNil; GNil; GInt 1;
                 GBin "+" (GCall "uint64" [GCall "len" [GVar "item.Key"]]) (GCall "uint64" [GCall "item.NumValBytes" [GVar "t"]])])].
Proof. vm_compute. reflexivity. Qed.

