(* DiskFaultProofs.v — M4d: a Flush in which one WriteAt call fails (DiskFault.v) can be retried:
   the retried Flush produces exactly the file, size and collections of a Flush that never failed. *)
From GK Require Import Base Treap TreapSpec Store Codec CodecProofs Disk DiskProofs DiskFault.
From Coq Require Import Lia ZArith NArith List Bool.
Import ListNotations.
Open Scope Z_scope.

(* [inversion] on an equation between pairs normalises the record encoders; this does not *)
Ltac pinv H :=
  apply pair_equal_spec in H;
  let H1 := fresh in let H2 := fresh in
  destruct H as [H1 H2];
  match type of H1 with _ = ?x => subst x end;
  match type of H2 with _ = ?y => subst y end.

(* ------------------------------------------------------------------ *)
(* bytes: overwriting a torn write, and two adjacent writes are one *)
Lemma firstn_app_len {A} (a x : list A) n : length a = n -> firstn n (a ++ x) = a.
Proof.
  intros <-. rewrite firstn_app, Nat.sub_diag, firstn_all. cbn [firstn]. apply app_nil_r.
Qed.

Lemma skipn_app_len {A} (a x : list A) n m : length a = n -> skipn (n + m) (a ++ x) = skipn m x.
Proof.
  intros <-. rewrite skipn_app. rewrite skipn_all2 by lia.
  replace (length a + m - length a)%nat with m by lia. reflexivity.
Qed.

Lemma write_at_over g off p d : 0 <= off <= blen g -> (length p <= length d)%nat ->
  write_at (write_at g off p) off d = write_at g off d.
Proof.
  intros Ho Hp. unfold write_at. set (o := Z.to_nat off).
  assert (Ha : length (firstn o g) = o) by (rewrite firstn_length; unfold blen in Ho; lia).
  rewrite (firstn_app_len _ _ o Ha). f_equal. f_equal.
  rewrite (skipn_app_len _ _ o _ Ha).
  replace (length d) with (length p + (length d - length p))%nat at 1 by lia.
  rewrite (skipn_app_len _ _ (length p) _ eq_refl). rewrite skipn_skipn'. f_equal. lia.
Qed.

Lemma write_at_app g off a v : 0 <= off ->
  write_at (write_at g off a) (off + blen a) v = write_at g off (a ++ v).
Proof.
  intros Ho. unfold write_at.
  replace (Z.to_nat (off + blen a)) with (Z.to_nat off + length a)%nat by (unfold blen; lia).
  set (o := Z.to_nat off). rewrite app_length.
  destruct (le_lt_dec o (length g)) as [L|L].
  - assert (Ha : length (firstn o g ++ a) = (o + length a)%nat)
      by (rewrite app_length, firstn_length; lia).
    rewrite (app_assoc (firstn o g) a). rewrite (firstn_app_len _ _ _ Ha).
    rewrite (skipn_app_len _ _ _ _ Ha). rewrite skipn_skipn'.
    rewrite <- !app_assoc. f_equal. f_equal. f_equal. f_equal. lia.
  - rewrite (firstn_all2 g) by lia.
    rewrite (skipn_all2 g (n := (o + length a)%nat)) by lia.
    rewrite (skipn_all2 g (n := (o + (length a + length v))%nat)) by lia.
    rewrite !app_nil_r. rewrite (app_assoc g a).
    rewrite firstn_all2 by (rewrite app_length; lia).
    rewrite skipn_all2 by (rewrite app_length; lia).
    rewrite <- !app_assoc. now rewrite app_nil_r.
Qed.

Lemma blen_hdr it : blen (enc_item_hdr it) = 16.
Proof. unfold blen. rewrite enc_item_hdr_length. reflexivity. Qed.

Lemma blen_hdr_key it : blen (enc_item_hdr it ++ ikey it) = item_hdr_len + blen (ikey it).
Proof. rewrite blen_app, blen_hdr. reflexivity. Qed.

Lemma enc_item_split it : enc_item it = (enc_item_hdr it ++ ikey it) ++ ival it.
Proof. unfold enc_item. now rewrite app_assoc. Qed.

Lemma len_torn_hk torn it :
  (length (firstn torn (enc_item_hdr it ++ ikey it)) <= length (enc_item it))%nat.
Proof.
  rewrite enc_item_split, firstn_length.
  rewrite (app_length (enc_item_hdr it ++ ikey it) (ival it)). lia.
Qed.

Lemma len_torn_val torn it :
  (length ((enc_item_hdr it ++ ikey it) ++ firstn torn (ival it)) <= length (enc_item it))%nat.
Proof.
  rewrite enc_item_split.
  rewrite (app_length (enc_item_hdr it ++ ikey it) (ival it)).
  rewrite (app_length (enc_item_hdr it ++ ikey it) (firstn torn (ival it))), firstn_length. lia.
Qed.

(* ------------------------------------------------------------------ *)
(* one item: both calls succeed, or the first or the second one fails *)
Lemma write_item_f_spec torn f s k it w1 o :
  write_item_f torn (mkW f s k false) it = (w1, o) ->
  (exists k' F, k = S (S k') /\ w1 = mkW F (s + item_loc_len it) k' false /\
       o = Some (mkPloc s (item_loc_len it)) /\ (0 <= s -> F = write_at f s (enc_item it)))
  \/ ((k < 2)%nat /\ w_failed w1 = true /\ o = None /\ w_size w1 = s /\
      (0 <= s <= blen f -> agree f (w_file w1) s /\ s <= blen (w_file w1) /\
          write_at (w_file w1) s (enc_item it) = write_at f s (enc_item it))).
Proof.
  intros H. unfold write_item_f, fwrite in H. cbn [w_failed w_left w_file w_size] in H.
  pose proof (blen_hdr_key it) as Hhk. pose proof (blen_nonneg (ikey it)) as Hk0.
  destruct k as [|[|k']]; cbn [w_failed w_left w_file w_size set_size] in H.
  - right. pinv H. cbn [w_failed w_size w_file].
    split; [lia|]. split; [reflexivity|]. split; [reflexivity|]. split; [reflexivity|].
    intros Hs. split; [now apply agree_write_at|]. split.
    + rewrite blen_write_at by assumption. lia.
    + apply write_at_over; [assumption|]. apply len_torn_hk.
  - right. pinv H. cbn [w_failed w_size w_file].
    split; [lia|]. split; [reflexivity|]. split; [reflexivity|]. split; [reflexivity|].
    intros Hs. change item_hdr_len with 16 in *.
    set (g1 := write_at f s (enc_item_hdr it ++ ikey it)).
    assert (B1 : blen g1 = Z.max (blen f) (s + (16 + blen (ikey it)))).
    { subst g1. rewrite blen_write_at by assumption. now rewrite Hhk. }
    split; [|split].
    + apply (agree_trans f g1 _ s (s + 16 + blen (ikey it))); [now apply agree_write_at| |lia].
      apply agree_write_at. lia.
    + rewrite blen_write_at by lia. lia.
    + subst g1. replace (s + 16 + blen (ikey it)) with (s + blen (enc_item_hdr it ++ ikey it)) by lia.
      rewrite write_at_app by lia. apply write_at_over; [assumption|].
      apply len_torn_val.
  - left. exists k', (write_at (write_at f s (enc_item_hdr it ++ ikey it))
                           (s + item_hdr_len + blen (ikey it)) (ival it)).
    pinv H. split; [reflexivity|]. split; [reflexivity|]. split; [reflexivity|].
    intros Hs. replace (s + item_hdr_len + blen (ikey it)) with (s + blen (enc_item_hdr it ++ ikey it)) by lia.
    rewrite write_at_app by lia. now rewrite enc_item_split.
Qed.

(* ------------------------------------------------------------------ *)
(* what the fault-free functions leave behind is skipped by a second run *)
Definition done (t : tree) : Prop := match t with T None _ _ _ _ _ _ => False | _ => True end.

Lemma located_items_id : forall t f s, located t -> write_items f s t = (f, s, t).
Proof.
  induction t as [|nl l IHl il it nn nb r IHr]; intros f s H; [reflexivity|].
  destruct nl as [p|]; [reflexivity|]. cbn [located] in H. destruct H as (Hil & Hl & Hr).
  destruct il as [q|]; [|congruence]. cbn [write_items]. rewrite IHl, IHr by assumption. reflexivity.
Qed.

Lemma write_items_located : forall t f s f1 s1 t1, write_items f s t = (f1, s1, t1) -> located t1.
Proof.
  induction t as [|nl l IHl il it nn nb r IHr]; intros f s f1 s1 t1 H; cbn [write_items] in H.
  - inversion H. exact I.
  - destruct nl as [p|]; [inversion H; exact I|].
    destruct (write_items f s l) as [[fa sa] la] eqn:El. apply IHl in El.
    destruct il as [q|].
    + destruct (write_items fa sa r) as [[fb sb] rb] eqn:Er. apply IHr in Er. inversion H; subst.
      cbn [located]. split; [discriminate|]. split; assumption.
    + destruct (write_items (write_at fa sa (enc_item it)) (sa + item_loc_len it) r)
        as [[fb sb] rb] eqn:Er. apply IHr in Er. inversion H; subst.
      cbn [located]. split; [discriminate|]. split; assumption.
Qed.

Lemma done_located t : done t -> located t.
Proof. destruct t as [|[p|] l il it nn nb r]; cbn [done located]; tauto. Qed.

Lemma done_items_id t f s : done t -> write_items f s t = (f, s, t).
Proof. destruct t as [|[p|] l il it nn nb r]; cbn [done]; [reflexivity|reflexivity|tauto]. Qed.

Lemma done_nodes_id t f s : done t -> write_nodes f s t = (f, s, t).
Proof. destruct t as [|[p|] l il it nn nb r]; cbn [done]; [reflexivity|reflexivity|tauto]. Qed.

Lemma done_tree_id t f s : done t -> write_tree f s t = (f, s, t).
Proof. intros H. unfold write_tree. rewrite done_items_id by assumption. now apply done_nodes_id. Qed.

Lemma write_nodes_done t f s f1 s1 t1 : write_nodes f s t = (f1, s1, t1) -> done t1.
Proof.
  destruct t as [|[p|] l il it nn nb r]; cbn [write_nodes]; intros H.
  - inversion H. exact I.
  - inversion H. exact I.
  - destruct (write_nodes f s l) as [[fa sa] la]. destruct (write_nodes fa sa r) as [[fb sb] rb].
    inversion H. exact I.
Qed.

Lemma write_tree_done t f s f1 s1 t1 : write_tree f s t = (f1, s1, t1) -> done t1.
Proof.
  unfold write_tree. destruct (write_items f s t) as [[fa sa] ta]. apply write_nodes_done.
Qed.

Definition all_done (cs : colls) : Prop := Forall (fun nc => done (c_tree (snd nc))) cs.

Lemma write_colls_done : forall cs f s f1 s1 cs1, write_colls f s cs = (f1, s1, cs1) -> all_done cs1.
Proof.
  induction cs as [|[n c] cs IH]; intros f s f1 s1 cs1 H; cbn [write_colls] in H.
  - inversion H. constructor.
  - destruct (write_tree f s (c_tree c)) as [[fa sa] t'] eqn:E1.
    destruct (write_colls fa sa cs) as [[fb sb] cs2] eqn:E2.
    inversion H; subst. constructor; [|eapply IH; eauto].
    cbn [snd c_tree]. eapply write_tree_done; eauto.
Qed.

Lemma all_done_colls_id : forall cs f s, all_done cs -> write_colls f s cs = (f, s, cs).
Proof.
  induction cs as [|[n c] cs IH]; intros f s H; [reflexivity|].
  inversion H as [|? ? Hc Hcs]; subst. cbn [snd] in Hc. cbn [write_colls].
  rewrite done_tree_id by assumption. rewrite IH by assumption. destruct c; reflexivity.
Qed.

(* the faulted writeNodes keeps the item locations *)
Lemma write_nodes_f_located torn : forall t w w1 t1,
  located t -> write_nodes_f torn w t = (w1, t1) -> located t1.
Proof.
  induction t as [|nl l IHl il it nn nb r IHr]; intros w w1 t1 Hloc H; cbn [write_nodes_f] in H.
  - inversion H. exact I.
  - destruct nl as [p|]; [inversion H; subst; exact I|].
    cbn [located] in Hloc. destruct Hloc as (Hil & Hl & Hr).
    destruct (write_nodes_f torn w l) as [wa la] eqn:El. apply IHl in El; [|assumption].
    destruct (w_failed wa).
    { inversion H; subst. cbn [located]. auto. }
    destruct (write_nodes_f torn wa r) as [wb rb] eqn:Er. apply IHr in Er; [|assumption].
    destruct (w_failed wb).
    { inversion H; subst. cbn [located]. auto. }
    destruct (fwrite torn wb (w_size wb) (enc_node il (root_loc la) (root_loc rb) nn nb)) as [w3 ok].
    destruct ok; inversion H; subst; cbn [located]; auto.
Qed.

(* the faulted writeItems does not touch node locations *)
Lemma write_items_f_node_calls torn : forall t w w1 t1,
  write_items_f torn w t = (w1, t1) -> node_calls t1 = node_calls t.
Proof.
  induction t as [|nl l IHl il it nn nb r IHr]; intros w w1 t1 H; cbn [write_items_f] in H.
  - inversion H. reflexivity.
  - destruct nl as [p|]; [inversion H; subst; reflexivity|].
    destruct (write_items_f torn w l) as [wa la] eqn:El. apply IHl in El.
    destruct (w_failed wa).
    { inversion H; subst. cbn [node_calls]. now rewrite El. }
    destruct (match il with Some _ => (wa, il) | None => write_item_f torn wa it end) as [w2 il'].
    destruct (w_failed w2).
    { inversion H; subst. cbn [node_calls]. now rewrite El. }
    destruct (write_items_f torn w2 r) as [wb rb] eqn:Er. apply IHr in Er.
    inversion H; subst. cbn [node_calls]. now rewrite El, Er.
Qed.

(* ------------------------------------------------------------------ *)
(* the simulation: a faulted run either did not reach the failing call, and then is the
   fault-free run, or failed, and then the fault-free run from where it stopped gives what the
   fault-free run from the start gives *)
Definition sim {A} (run : file -> Z -> A -> file * Z * A) (calls : nat)
    (f : file) (s : Z) (k : nat) (a : A) (w1 : wst) (a1 : A) : Prop :=
  (0 <= s <= blen f -> agree f (w_file w1) s /\ s <= w_size w1 <= blen (w_file w1)) /\
  (if w_failed w1
   then (k < calls)%nat /\ (0 <= s <= blen f -> run (w_file w1) (w_size w1) a1 = run f s a)
   else k = (w_left w1 + calls)%nat /\ (0 <= s -> run f s a = (w_file w1, w_size w1, a1))).

Lemma sim_id {A} (run : file -> Z -> A -> file * Z * A) f s k a :
  run f s a = (f, s, a) -> sim run 0 f s k a (mkW f s k false) a.
Proof.
  intros H. unfold sim. cbn [w_failed w_file w_size w_left].
  split; [intros; split; [apply agree_refl|lia]|]. split; [lia|intros; assumption].
Qed.

Lemma write_items_f_sim torn : forall t f s k w1 t1,
  write_items_f torn (mkW f s k false) t = (w1, t1) ->
  sim write_items (item_calls t) f s k t w1 t1.
Proof.
  induction t as [|nl l IHl il it nn nb r IHr]; intros f s k w1 t1 H; cbn [write_items_f] in H.
  - pinv H. now apply sim_id.
  - destruct nl as [p|]; [pinv H; now apply sim_id|].
    destruct (write_items_f torn (mkW f s k false) l) as [wa la] eqn:El.
    apply IHl in El. destruct El as (Ba & Ca).
    destruct wa as [fa sa ka fla]. cbn [w_failed w_file w_size w_left] in Ba, Ca, H.
    destruct fla.
    { (* failed in the left subtree *)
      pinv H. destruct Ca as (Ck & Cr). unfold sim. cbn [w_failed w_file w_size w_left item_calls].
      split; [exact Ba|]. split; [lia|]. intros Hs. cbn [write_items]. now rewrite (Cr Hs). }
    destruct Ca as (Ck & Ce).
    assert (Hla : 0 <= s -> write_items fa sa la = (fa, sa, la)).
    { intros Hs. apply located_items_id. eapply write_items_located. apply (Ce Hs). }
    assert (Hsa : 0 <= s -> 0 <= sa).
    { intros Hs. pose proof (write_items_mono _ _ _ _ _ _ (Ce Hs)). lia. }
    destruct il as [q|].
    + (* the item is already persisted *)
      destruct (write_items_f torn (mkW fa sa ka false) r) as [wb rb] eqn:Er.
      cbn [w_failed] in H. apply IHr in Er. destruct Er as (Bb & Cb). pinv H.
      unfold sim. cbn [item_calls]. split.
      { intros Hs. destruct (Ba Hs) as (A1 & A2). destruct (Bb ltac:(lia)) as (A3 & A4).
        split; [eapply agree_trans; eauto; lia|lia]. }
      destruct (w_failed wb).
      * destruct Cb as (Dk & Dr). split; [lia|]. intros Hs.
        destruct (Ba Hs) as (A1 & A2). destruct (Bb ltac:(lia)) as (A3 & A4).
        cbn [write_items]. rewrite (Ce ltac:(lia)).
        rewrite (located_items_id la) by (eapply write_items_located; apply (Ce ltac:(lia))).
        now rewrite (Dr ltac:(lia)).
      * destruct Cb as (Dk & De). split; [lia|]. intros Hs.
        cbn [write_items]. rewrite (Ce Hs). now rewrite (De (Hsa Hs)).
    + (* the item is written by two calls *)
      destruct (write_item_f torn (mkW fa sa ka false) it) as [w2 il'] eqn:Ei.
      apply write_item_f_spec in Ei.
      destruct Ei as [(k' & F & -> & -> & -> & HF)|(Hk2 & Hf2 & -> & Hs2 & Hr2)].
      * cbn [w_failed] in H.
        destruct (write_items_f torn (mkW F (sa + item_loc_len it) k' false) r) as [wb rb] eqn:Er.
        apply IHr in Er. destruct Er as (Bb & Cb). pinv H.
        pose proof (item_loc_len_ge it) as Hge.
        unfold sim. cbn [item_calls]. split.
        { intros Hs. destruct (Ba Hs) as (A1 & A2). rewrite (HF ltac:(lia)) in *.
          destruct (append_facts fa sa (enc_item it) ltac:(lia)) as (W1 & W2 & _).
          rewrite blen_enc_item in W2.
          destruct (Bb ltac:(lia)) as (A3 & A4).
          split; [|lia].
          apply (agree_trans f fa _ s sa); [assumption| |lia].
          eapply agree_trans; eauto; lia. }
        destruct (w_failed wb).
        -- destruct Cb as (Dk & Dr). split; [lia|]. intros Hs.
           destruct (Ba Hs) as (A1 & A2). rewrite (HF ltac:(lia)) in *.
           destruct (append_facts fa sa (enc_item it) ltac:(lia)) as (W1 & W2 & _).
           rewrite blen_enc_item in W2.
           cbn [write_items]. rewrite (Ce ltac:(lia)).
           rewrite (located_items_id la) by (eapply write_items_located; apply (Ce ltac:(lia))).
           now rewrite (Dr ltac:(lia)).
        -- destruct Cb as (Dk & De). split; [lia|]. intros Hs.
           rewrite (HF (Hsa Hs)) in *.
           cbn [write_items]. rewrite (Ce Hs). now rewrite (De ltac:(specialize (Hsa Hs); lia)).
      * rewrite Hf2 in H. pinv H. unfold sim. rewrite Hf2, Hs2. cbn [item_calls]. split.
        { intros Hs. destruct (Ba Hs) as (A1 & A2). destruct (Hr2 ltac:(lia)) as (R1 & R2 & R3).
          split; [eapply agree_trans; eauto; lia|lia]. }
        split; [lia|]. intros Hs.
        destruct (Ba Hs) as (A1 & A2). destruct (Hr2 ltac:(lia)) as (R1 & R2 & R3).
        cbn [write_items]. rewrite (Ce ltac:(lia)).
        rewrite (located_items_id la) by (eapply write_items_located; apply (Ce ltac:(lia))).
        now rewrite R3.
Qed.

Lemma write_nodes_f_sim torn : forall t f s k w1 t1,
  write_nodes_f torn (mkW f s k false) t = (w1, t1) ->
  sim write_nodes (node_calls t) f s k t w1 t1.
Proof.
  induction t as [|nl l IHl il it nn nb r IHr]; intros f s k w1 t1 H; cbn [write_nodes_f] in H.
  - pinv H. now apply sim_id.
  - destruct nl as [p|]; [pinv H; now apply sim_id|].
    destruct (write_nodes_f torn (mkW f s k false) l) as [wa la] eqn:El.
    apply IHl in El. destruct El as (Ba & Ca).
    destruct wa as [fa sa ka fla]. cbn [w_failed w_file w_size w_left] in Ba, Ca, H.
    destruct fla.
    { (* failed in the left subtree *)
      pinv H. destruct Ca as (Ck & Cr). unfold sim. cbn [w_failed w_file w_size w_left node_calls].
      split; [exact Ba|]. split; [lia|]. intros Hs. cbn [write_nodes]. now rewrite (Cr Hs). }
    destruct Ca as (Ck & Ce).
    assert (Hla : 0 <= s -> forall g z, write_nodes g z la = (g, z, la)).
    { intros Hs g z. apply done_nodes_id. eapply write_nodes_done. apply (Ce Hs). }
    assert (Hsa : 0 <= s -> 0 <= sa).
    { intros Hs. pose proof (write_nodes_mono _ _ _ _ _ _ (Ce Hs)). lia. }
    destruct (write_nodes_f torn (mkW fa sa ka false) r) as [wb rb] eqn:Er.
    apply IHr in Er. destruct Er as (Bb & Cb).
    destruct wb as [fb sb kb flb]. cbn [w_failed w_file w_size w_left] in Bb, Cb, H.
    destruct flb.
    { (* failed in the right subtree *)
      pinv H. destruct Cb as (Dk & Dr). unfold sim. cbn [w_failed w_file w_size w_left node_calls].
      split.
      { intros Hs. destruct (Ba Hs) as (A1 & A2). destruct (Bb ltac:(lia)) as (A3 & A4).
        split; [eapply agree_trans; eauto; lia|lia]. }
      split; [lia|]. intros Hs. destruct (Ba Hs) as (A1 & A2).
      cbn [write_nodes]. rewrite (Ce ltac:(lia)), (Hla ltac:(lia)). now rewrite (Dr ltac:(lia)). }
    destruct Cb as (Dk & De).
    assert (Hrb : 0 <= s -> forall g z, write_nodes g z rb = (g, z, rb)).
    { intros Hs g z. apply done_nodes_id. eapply write_nodes_done. apply (De (Hsa Hs)). }
    set (d := enc_node il (root_loc la) (root_loc rb) nn nb) in *.
    assert (Hd : blen d = node_len) by apply blen_enc_node.
    unfold fwrite, set_size in H. cbn [w_failed w_left w_file w_size] in H.
    destruct kb as [|kc]; cbn [w_failed w_left w_file w_size] in H; pinv H;
      unfold sim; cbn [w_failed w_file w_size w_left node_calls].
    + (* the node's call fails *)
      split.
      { intros Hs. destruct (Ba Hs) as (A1 & A2). destruct (Bb ltac:(lia)) as (A3 & A4).
        split.
        - apply (agree_trans f fb _ s sb); [eapply agree_trans; eauto; lia| |lia].
          apply agree_write_at. lia.
        - rewrite blen_write_at by lia. lia. }
      split; [lia|]. intros Hs. destruct (Ba Hs) as (A1 & A2). destruct (Bb ltac:(lia)) as (A3 & A4).
      cbn [write_nodes]. rewrite (Ce ltac:(lia)), (De ltac:(lia)), !(Hla ltac:(lia)), !(Hrb ltac:(lia)).
      fold d. rewrite write_at_over; [reflexivity|lia|]. rewrite firstn_length. lia.
    + split.
      { intros Hs. destruct (Ba Hs) as (A1 & A2). destruct (Bb ltac:(lia)) as (A3 & A4).
        destruct (append_facts fb sb d ltac:(lia)) as (W1 & W2 & _). rewrite Hd in W2.
        change node_len with 52 in *.
        split; [|lia]. apply (agree_trans f fb _ s sb); [eapply agree_trans; eauto; lia|assumption|lia]. }
      split; [lia|]. intros Hs.
      cbn [write_nodes]. rewrite (Ce Hs), (De (Hsa Hs)). reflexivity.
Qed.

Definition tree_calls (t : tree) : nat := (item_calls t + node_calls t)%nat.

Lemma write_tree_f_sim torn t f s k w1 t1 :
  write_tree_f torn (mkW f s k false) t = (w1, t1) ->
  sim write_tree (tree_calls t) f s k t w1 t1.
Proof.
  intros H. unfold write_tree_f in H. unfold tree_calls.
  destruct (write_items_f torn (mkW f s k false) t) as [wa ta] eqn:Ei.
  pose proof (write_items_f_node_calls _ _ _ _ _ Ei) as Hnc.
  apply write_items_f_sim in Ei. destruct Ei as (Ba & Ca).
  destruct wa as [fa sa ka fla]. cbn [w_failed w_file w_size w_left] in Ba, Ca, H.
  destruct fla.
  { pinv H. destruct Ca as (Ck & Cr). unfold sim. cbn [w_failed w_file w_size w_left].
    split; [exact Ba|]. split; [lia|]. intros Hs. unfold write_tree. now rewrite (Cr Hs). }
  destruct Ca as (Ck & Ce).
  assert (Hl1 : 0 <= s -> located t1).
  { intros Hs. eapply write_nodes_f_located; [|exact H]. eapply write_items_located. apply (Ce Hs). }
  assert (Hsa : 0 <= s -> 0 <= sa).
  { intros Hs. pose proof (write_items_mono _ _ _ _ _ _ (Ce Hs)). lia. }
  apply write_nodes_f_sim in H. destruct H as (Bb & Cb). rewrite Hnc in Cb.
  unfold sim. split.
  { intros Hs. destruct (Ba Hs) as (A1 & A2). destruct (Bb ltac:(lia)) as (A3 & A4).
    split; [eapply agree_trans; eauto; lia|lia]. }
  destruct (w_failed w1).
  - destruct Cb as (Dk & Dr). split; [lia|]. intros Hs. destruct (Ba Hs) as (A1 & A2).
    unfold write_tree. rewrite (located_items_id t1) by (apply Hl1; lia).
    rewrite (Ce ltac:(lia)). apply Dr. lia.
  - destruct Cb as (Dk & De). split; [lia|]. intros Hs.
    unfold write_tree. rewrite (Ce Hs). apply De. auto.
Qed.

Definition colls_calls (cs : colls) : nat :=
  fold_right (fun nc a => item_calls (c_tree (snd nc)) + node_calls (c_tree (snd nc)) + a)%nat O cs.

Lemma flush_calls_eq cs : flush_calls cs = (colls_calls cs + 1)%nat.
Proof. reflexivity. Qed.

Lemma write_colls_f_sim torn : forall cs f s k w1 cs1,
  write_colls_f torn (mkW f s k false) cs = (w1, cs1) ->
  sim write_colls (colls_calls cs) f s k cs w1 cs1.
Proof.
  induction cs as [|[n c] cs IH]; intros f s k w1 cs1 H; cbn [write_colls_f] in H.
  - pinv H. now apply sim_id.
  - destruct (write_tree_f torn (mkW f s k false) (c_tree c)) as [wa t'] eqn:Et.
    apply write_tree_f_sim in Et. destruct Et as (Ba & Ca). unfold tree_calls in Ca.
    destruct wa as [fa sa ka fla]. cbn [w_failed w_file w_size w_left] in Ba, Ca, H.
    destruct fla.
    { pinv H. destruct Ca as (Ck & Cr). unfold sim.
      cbn [w_failed w_file w_size w_left colls_calls fold_right snd].
      split; [exact Ba|]. split; [lia|]. intros Hs.
      cbn [write_colls c_tree c_cmp]. now rewrite (Cr Hs). }
    destruct Ca as (Ck & Ce).
    assert (Hsa : 0 <= s -> 0 <= sa).
    { intros Hs. pose proof (write_tree_mono _ _ _ _ _ _ (Ce Hs)). lia. }
    destruct (write_colls_f torn (mkW fa sa ka false) cs) as [wb cs2] eqn:Ec.
    apply IH in Ec. destruct Ec as (Bb & Cb). pinv H.
    unfold sim. cbn [colls_calls fold_right snd]. fold (colls_calls cs). split.
    { intros Hs. destruct (Ba Hs) as (A1 & A2). destruct (Bb ltac:(lia)) as (A3 & A4).
      split; [eapply agree_trans; eauto; lia|lia]. }
    destruct (w_failed wb).
    + destruct Cb as (Dk & Dr). split; [lia|]. intros Hs. destruct (Ba Hs) as (A1 & A2).
      cbn [write_colls c_tree c_cmp].
      rewrite (done_tree_id t') by (eapply write_tree_done; apply (Ce ltac:(lia))).
      rewrite (Ce ltac:(lia)). now rewrite (Dr ltac:(lia)).
    + destruct Cb as (Dk & De). split; [lia|]. intros Hs.
      cbn [write_colls]. rewrite (Ce Hs). now rewrite (De (Hsa Hs)).
Qed.

Ltac qinv H :=
  apply pair_equal_spec in H;
  let H1 := fresh in let H2 := fresh in
  destruct H as [H1 H2];
  apply pair_equal_spec in H1;
  let H3 := fresh in let H4 := fresh in
  destruct H1 as [H3 H4];
  apply pair_equal_spec in H3;
  let H5 := fresh in let H6 := fresh in
  destruct H3 as [H5 H6];
  match type of H5 with _ = ?x => subst x end;
  match type of H6 with _ = ?x => subst x end;
  match type of H4 with _ = ?x => subst x end;
  match type of H2 with _ = ?x => subst x end.

Lemma flush_fault_sim k torn f size cs f1 s1 cs1 b :
  flush_fault k torn f size cs = (f1, s1, cs1, b) ->
  (0 <= size <= blen f -> agree f f1 size /\ size <= s1 <= blen f1) /\
  (if b then (k < flush_calls cs)%nat /\
             (0 <= size <= blen f -> flush_bytes f1 s1 cs1 = flush_bytes f size cs)
   else (flush_calls cs <= k)%nat /\ (0 <= size -> flush_bytes f size cs = (f1, s1, cs1))).
Proof.
  intros H. unfold flush_fault in H. rewrite flush_calls_eq.
  destruct (write_colls_f torn (mkW f size k false) cs) as [wa ca] eqn:Ec.
  apply write_colls_f_sim in Ec. destruct Ec as (Ba & Ca).
  destruct wa as [fa sa ka fla]. cbn [w_failed w_file w_size w_left] in Ba, Ca, H.
  destruct fla.
  { qinv H. destruct Ca as (Ck & Cr). split; [exact Ba|]. split; [lia|].
    intros Hs. unfold flush_bytes. now rewrite (Cr Hs). }
  destruct Ca as (Ck & Ce).
  set (r := enc_root (root_map ca) sa) in *.
  unfold fwrite in H. cbn [w_failed w_left w_file w_size] in H.
  destruct ka as [|kb]; cbn [w_failed w_left w_file w_size] in H; qinv H.
  - (* the root record's call fails *)
    split.
    { intros Hs. destruct (Ba Hs) as (A1 & A2). split.
      - apply (agree_trans f fa _ size sa); [assumption| |lia]. apply agree_write_at. lia.
      - rewrite blen_write_at by lia. lia. }
    split; [lia|]. intros Hs. destruct (Ba Hs) as (A1 & A2).
    unfold flush_bytes. rewrite (Ce ltac:(lia)).
    rewrite (all_done_colls_id ca) by (eapply write_colls_done; apply (Ce ltac:(lia))).
    fold r. rewrite write_at_over; [reflexivity|lia|]. rewrite firstn_length. lia.
  - split.
    { intros Hs. destruct (Ba Hs) as (A1 & A2).
      destruct (append_facts fa sa r ltac:(lia)) as (W1 & W2 & _). pose proof (blen_nonneg r).
      split; [|lia]. eapply agree_trans; eauto; lia. }
    split; [lia|]. intros Hs. unfold flush_bytes. rewrite (Ce Hs). reflexivity.
Qed.

(* ------------------------------------------------------------------ *)
(* F0: a plan whose call number is not reached is the fault-free Flush.
   CHANGED w.r.t. STATEMENTS_DiskFault.md: the hypothesis [0 <= size] is ADDED.  Without it the
   statement is false (flush_fault_none_cex below): itemLoc.write's second call goes to
   size + 16 + len(key), which for a negative size is not where the one-call model of
   flush_bytes puts the value (write_at clamps a negative offset to 0). *)
Theorem flush_fault_none k torn f size cs :
  0 <= size ->
  (flush_calls cs <= k)%nat ->
  flush_fault k torn f size cs = (flush_bytes f size cs, false).
Proof.
  intros Hs Hk. destruct (flush_fault k torn f size cs) as [[[f1 s1] cs1] b] eqn:E.
  destruct (flush_fault_sim _ _ _ _ _ _ _ _ _ E) as (_ & C). destruct b.
  - destruct C as (C1 & _). lia.
  - destruct C as (_ & C2). now rewrite (C2 Hs).
Qed.
Print Assumptions flush_fault_none.

(* the statement without [0 <= size] fails: size = -1, one unpersisted item with a one-byte value *)
Example flush_fault_none_cex :
  let cs : colls := [([], mkColl O (T None E None (mkItem [] [1%N] 0) 1 1 E))] in
  (flush_calls cs <= 10)%nat /\
  flush_fault 10 0 [] (-1) cs <> (flush_bytes [] (-1) cs, false) /\
  (let '(f1, _, _, _) := flush_fault 10 0 [] (-1) cs in
   let '(f2, _, _) := flush_bytes [] (-1) cs in (beq f1 f2, nth 15 f1 0%N, nth 15 f2 0%N)) = (false, 1%N, 0%N).
Proof.
  cbv zeta. split; [vm_compute; lia|]. split; [|vm_compute; reflexivity].
  intros H. vm_compute in H. discriminate H.
Qed.

(* F1: a plan inside the Flush makes it fail *)
Theorem flush_fault_fails k torn f size cs f1 s1 cs1 b :
  (k < flush_calls cs)%nat -> flush_fault k torn f size cs = (f1, s1, cs1, b) -> b = true.
Proof.
  intros Hk E. destruct (flush_fault_sim _ _ _ _ _ _ _ _ _ E) as (_ & C). destruct b; [reflexivity|].
  destruct C as (C1 & _). lia.
Qed.
Print Assumptions flush_fault_fails.

(* F2: the failed Flush changes nothing below the old size, never moves size backwards, and size
   stays inside the file *)
Theorem flush_fault_durable k torn f size cs f1 s1 cs1 b :
  0 <= size <= blen f -> flush_fault k torn f size cs = (f1, s1, cs1, b) ->
  agree f f1 size /\ size <= s1 <= blen f1.
Proof. intros Hs E. destruct (flush_fault_sim _ _ _ _ _ _ _ _ _ E) as (B & _). exact (B Hs). Qed.
Print Assumptions flush_fault_durable.

(* ------------------------------------------------------------------ *)
(* F3: the visible contents are untouched *)
Lemma write_items_f_erase torn : forall t w w1 t1,
  write_items_f torn w t = (w1, t1) -> erase t1 = erase t.
Proof.
  induction t as [|nl l IHl il it nn nb r IHr]; intros w w1 t1 H; cbn [write_items_f] in H.
  - pinv H. reflexivity.
  - destruct nl as [p|]; [pinv H; reflexivity|].
    destruct (write_items_f torn w l) as [wa la] eqn:El. apply IHl in El.
    destruct (w_failed wa).
    { pinv H. cbn [erase]. now rewrite El. }
    destruct (match il with Some _ => (wa, il) | None => write_item_f torn wa it end) as [w2 il'].
    destruct (w_failed w2).
    { pinv H. cbn [erase]. now rewrite El. }
    destruct (write_items_f torn w2 r) as [wb rb] eqn:Er. apply IHr in Er.
    pinv H. cbn [erase]. now rewrite El, Er.
Qed.

Lemma write_nodes_f_erase torn : forall t w w1 t1,
  write_nodes_f torn w t = (w1, t1) -> erase t1 = erase t.
Proof.
  induction t as [|nl l IHl il it nn nb r IHr]; intros w w1 t1 H; cbn [write_nodes_f] in H.
  - pinv H. reflexivity.
  - destruct nl as [p|]; [pinv H; reflexivity|].
    destruct (write_nodes_f torn w l) as [wa la] eqn:El. apply IHl in El.
    destruct (w_failed wa).
    { pinv H. cbn [erase]. now rewrite El. }
    destruct (write_nodes_f torn wa r) as [wb rb] eqn:Er. apply IHr in Er.
    destruct (w_failed wb).
    { pinv H. cbn [erase]. now rewrite El, Er. }
    destruct (fwrite torn wb (w_size wb) (enc_node il (root_loc la) (root_loc rb) nn nb)) as [w3 ok].
    destruct ok; pinv H; cbn [erase]; now rewrite El, Er.
Qed.

Lemma write_tree_f_erase torn t w w1 t1 : write_tree_f torn w t = (w1, t1) -> erase t1 = erase t.
Proof.
  unfold write_tree_f. destruct (write_items_f torn w t) as [wa ta] eqn:Ei.
  apply write_items_f_erase in Ei. destruct (w_failed wa).
  - intros H. pinv H. exact Ei.
  - intros H. apply write_nodes_f_erase in H. congruence.
Qed.

Lemma write_colls_f_contents torn : forall cs w w1 cs1,
  write_colls_f torn w cs = (w1, cs1) ->
  map fst cs1 = map fst cs /\
  map (fun nc => c_cmp (snd nc)) cs1 = map (fun nc => c_cmp (snd nc)) cs /\
  map (fun nc => erase (c_tree (snd nc))) cs1 = map (fun nc => erase (c_tree (snd nc))) cs.
Proof.
  induction cs as [|[n c] cs IH]; intros w w1 cs1 H; cbn [write_colls_f] in H.
  - pinv H. repeat split.
  - destruct (write_tree_f torn w (c_tree c)) as [wa t'] eqn:Et. apply write_tree_f_erase in Et.
    destruct (w_failed wa).
    { pinv H. cbn [map fst snd c_cmp c_tree]. now rewrite Et. }
    destruct (write_colls_f torn wa cs) as [wb cs2] eqn:Ec. apply IH in Ec.
    destruct Ec as (E1 & E2 & E3). pinv H. cbn [map fst snd c_cmp c_tree].
    now rewrite Et, E1, E2, E3.
Qed.

Theorem flush_fault_contents k torn f size cs f1 s1 cs1 b :
  flush_fault k torn f size cs = (f1, s1, cs1, b) ->
  map fst cs1 = map fst cs /\
  map (fun nc => c_cmp (snd nc)) cs1 = map (fun nc => c_cmp (snd nc)) cs /\
  map (fun nc => erase (c_tree (snd nc))) cs1 = map (fun nc => erase (c_tree (snd nc))) cs.
Proof.
  intros H. unfold flush_fault in H.
  destruct (write_colls_f torn (mkW f size k false) cs) as [wa ca] eqn:Ec.
  apply write_colls_f_contents in Ec.
  destruct (w_failed wa); [qinv H; exact Ec|].
  destruct (fwrite torn wa (w_size wa) (enc_root (root_map ca) (w_size wa))) as [w2 ok].
  destruct ok; qinv H; exact Ec.
Qed.
Print Assumptions flush_fault_contents.

(* ------------------------------------------------------------------ *)
(* F4 (main): retrying the Flush after the failure produces exactly the file, size and collections
   of a Flush that never failed -- for every call number k and every torn length *)
Theorem flush_retry_same k torn f size cs f1 s1 cs1 :
  0 <= size <= blen f ->
  flush_fault k torn f size cs = (f1, s1, cs1, true) ->
  flush_bytes f1 s1 cs1 = flush_bytes f size cs.
Proof.
  intros Hs E. destruct (flush_fault_sim _ _ _ _ _ _ _ _ _ E) as (_ & _ & C). exact (C Hs).
Qed.
Print Assumptions flush_retry_same.

(* F5: so any number of failed attempts followed by a successful one is one Flush *)
Theorem flush_retry_twice k1 t1 k2 t2 f size cs fa sa csa fb sb csb :
  0 <= size <= blen f ->
  flush_fault k1 t1 f size cs = (fa, sa, csa, true) ->
  flush_fault k2 t2 fa sa csa = (fb, sb, csb, true) ->
  flush_bytes fb sb csb = flush_bytes f size cs.
Proof.
  intros Hs E1 E2. destruct (flush_fault_durable _ _ _ _ _ _ _ _ _ Hs E1) as (_ & Hsa).
  assert (Hsa' : 0 <= sa <= blen fa) by lia.
  rewrite (flush_retry_same _ _ _ _ _ _ _ _ Hsa' E2).
  exact (flush_retry_same _ _ _ _ _ _ _ _ Hs E1).
Qed.
Print Assumptions flush_retry_twice.

(* F6: the failed Flush does not damage the durable state: a re-open sees the previous Flush.
   (The node count is written Treap.size: the bound variable [size] of the statement shadows it.) *)
Theorem flush_fault_reopen k torn f size cs f1 s1 cs1 b e0 m0 ts :
  0 <= size <= blen f -> e0 <= size ->
  flush_fault k torn f size cs = (f1, s1, cs1, b) ->
  scan f (blen f) = ScanFound e0 m0 ->
  (forall e', e0 < e' <= blen f1 -> root_at f1 e' = None) ->
  load_all f m0 e0 = Some ts ->
  Forall (fun nt => rep f (snd nt) /\ below (snd nt) e0 /\ (Treap.size (snd nt) <= S (length f1))%nat) ts ->
  decode_store f1 = OpOk e0 ts.
Proof.
  intros Hs He E Hscan Hno Hload Hts.
  destruct (flush_fault_durable _ _ _ _ _ _ _ _ _ Hs E) as (Hag & Hle).
  apply (crash_decode_store f f1 e0 m0 ts); auto.
  - eapply agree_mono; eauto.
  - lia.
Qed.
Print Assumptions flush_fault_reopen.

(* non-vacuity / sanity *)
Example ex_fault_retry :
  let it k p := mkItem [k] [k; k; k] p in
  let t0 := insert cmp_bytes (insert cmp_bytes (insert cmp_bytes E (it 97%N 5)) (it 98%N 9)) (it 99%N 2) in
  let cs0 : colls := [([120%N], mkColl O t0)] in
  forallb (fun k => forallb (fun torn =>
     let '(f1, s1, cs1, failed) := flush_fault k torn [] 0 cs0 in
     let '(f2, s2, _) := flush_bytes f1 s1 cs1 in
     let '(f3, s3, _) := flush_bytes [] 0 cs0 in
     failed && beq f2 f3 && (s2 =? s3)) [0; 1; 7; 30]%nat) (seq 0 (flush_calls cs0)) = true.
Proof. vm_compute. reflexivity. Qed.

(* ------------------------------------------------------------------ *)
(* F7: the in-memory store is still represented by the file after the failed Flush *)
Definition fpost (f : file) (s : Z) (t : tree) (f1 : file) (s1 : Z) (t1 : tree) : Prop :=
  agree f f1 s /\ s <= s1 <= blen f1 /\ rep f1 t1 /\ below t1 s1 /\ erase t1 = erase t.

Lemma fpost_trans f s t f1 s1 t1 f2 s2 t2 :
  fpost f s t f1 s1 t1 -> fpost f1 s1 t1 f2 s2 t2 -> fpost f s t f2 s2 t2.
Proof.
  intros (A1 & A2 & A4 & A5 & A6) (B1 & B2 & B4 & B5 & B6).
  unfold fpost. split; [eapply agree_trans; eauto; lia|]. split; [lia|].
  split; [assumption|]. split; [assumption|congruence].
Qed.

(* an unpersisted node over represented subtrees, its item (if located) from the old file *)
Lemma rep_below_dirty f g s z la il it nn nb rb :
  agree f g s -> s <= z ->
  (forall q, il = Some q -> plen q = item_loc_len it /\ dec_item f q = Some it) -> loc_below il s ->
  rep g la -> rep g rb -> below la z -> below rb z ->
  rep g (T None la il it nn nb rb) /\ below (T None la il it nn nb rb) z.
Proof.
  intros Hag Hle Hit Hib Hla Hrb Bla Brb. split.
  - cbn [rep]. split; [assumption|]. split; [assumption|].
    intros q Hq. destruct (Hit q Hq) as (Q1 & Q2). split; [exact Q1|]. subst il.
    cbn [loc_below] in Hib. apply (dec_item_agree f g q it s); auto; lia.
  - cbn [below]. split; [exact I|]. split; [eapply loc_below_mono; eauto|]. split; assumption.
Qed.

Lemma write_items_f_post torn : forall t f s k w1 t1,
  rep f t -> below t s -> 0 <= s <= blen f -> tree_ok t ->
  write_items_f torn (mkW f s k false) t = (w1, t1) ->
  fpost f s t (w_file w1) (w_size w1) t1.
Proof.
  induction t as [|nl l IHl il it nn nb r IHr]; intros f s k w1 t1 Hrep Hbl Hsz Hok H;
    cbn [write_items_f] in H.
  - pinv H. cbn [w_file w_size]. unfold fpost. repeat split; auto using agree_refl; lia.
  - destruct nl as [p|].
    { pinv H. cbn [w_file w_size]. unfold fpost. split; [apply agree_refl|]. split; [lia|].
      split; [exact Hrep|]. split; [exact Hbl|reflexivity]. }
    cbn [rep] in Hrep. destruct Hrep as (Hl & Hr & Hit).
    cbn [below] in Hbl. destruct Hbl as (_ & Hib & Hlb & Hrb).
    cbn [tree_ok] in Hok. destruct Hok as (Hiok & Hnn & Hnb & Hlok & Hrok).
    destruct (write_items_f torn (mkW f s k false) l) as [wa la] eqn:El.
    pose proof (IHl _ _ _ _ _ Hl Hlb Hsz Hlok El) as (A1 & A2 & A4 & A5 & A6).
    destruct wa as [fa sa ka fla]. cbn [w_failed w_file w_size w_left] in A1, A2, A4, A5, H.
    assert (Hr' : rep fa r) by (eapply rep_stable; eauto).
    assert (Hrb' : below r sa) by (eapply below_mono; eauto; lia).
    destruct fla.
    { pinv H. cbn [w_file w_size].
      destruct (rep_below_dirty f fa s sa la il it nn nb r) as (R1 & R2); auto; try lia.
      unfold fpost. split; [exact A1|]. split; [lia|]. split; [exact R1|]. split; [exact R2|].
      cbn [erase]. now rewrite A6. }
    destruct il as [q|].
    + destruct (write_items_f torn (mkW fa sa ka false) r) as [wb rb] eqn:Er. cbn [w_failed] in H.
      pose proof (IHr _ _ _ _ _ Hr' Hrb' ltac:(lia) Hrok Er) as (B1 & B2 & B4 & B5 & B6).
      pinv H.
      assert (Hag : agree f (w_file wb) s) by (eapply agree_trans; eauto; lia).
      destruct (rep_below_dirty f (w_file wb) s (w_size wb) la (Some q) it nn nb rb) as (R1 & R2);
        auto; try lia.
      { eapply rep_stable; eauto. }
      { eapply below_mono; eauto; lia. }
      unfold fpost. split; [exact Hag|]. split; [lia|]. split; [exact R1|]. split; [exact R2|].
      cbn [erase]. now rewrite A6, B6.
    + destruct (write_item_f torn (mkW fa sa ka false) it) as [w2 il'] eqn:Ei.
      apply write_item_f_spec in Ei.
      destruct Ei as [(k' & F & -> & -> & -> & HF)|(Hk2 & Hf2 & -> & Hs2 & Hr2)].
      * cbn [w_failed] in H. specialize (HF ltac:(lia)). subst F.
        destruct (write_items_f torn (mkW (write_at fa sa (enc_item it)) (sa + item_loc_len it) k' false) r)
          as [wb rb] eqn:Er.
        pose proof (item_loc_len_ge it) as Hge.
        destruct (append_facts fa sa (enc_item it) ltac:(lia)) as (W1 & W2 & W3 & W4).
        rewrite blen_enc_item in W2, W4.
        set (f2 := write_at fa sa (enc_item it)) in *.
        assert (Hag2 : agree f f2 s) by (eapply agree_trans; eauto; lia).
        assert (Hr2' : rep f2 r) by (eapply rep_stable; eauto).
        assert (Hrb2 : below r (sa + item_loc_len it)) by (eapply below_mono; eauto; lia).
        pose proof (IHr _ _ _ _ _ Hr2' Hrb2 ltac:(lia) Hrok Er) as (B1 & B2 & B4 & B5 & B6).
        pinv H.
        assert (Hd2 : dec_item f2 (mkPloc sa (item_loc_len it)) = Some it)
          by (apply dec_item_enc; auto; lia).
        unfold fpost. split; [eapply agree_trans; eauto; lia|]. split; [lia|]. split; [|split].
        -- cbn [rep]. split; [apply (rep_stable fa _ la sa); auto; eapply agree_trans; eauto; lia|].
           split; [exact B4|].
           intros q' Hq'. inversion Hq'; subst q'. cbn [plen]. split; [reflexivity|].
           apply (dec_item_agree f2 _ _ it (sa + item_loc_len it)); cbn [poff plen]; auto; lia.
        -- cbn [below loc_below poff plen]. split; [exact I|]. split; [lia|].
           split; [eapply below_mono; eauto; lia|exact B5].
        -- cbn [erase]. now rewrite A6, B6.
      * rewrite Hf2 in H. pinv H. destruct (Hr2 ltac:(lia)) as (R1 & R2 & _). rewrite Hs2.
        assert (Hag : agree f (w_file w2) s) by (eapply agree_trans; eauto; lia).
        destruct (rep_below_dirty f (w_file w2) s sa la None it nn nb r) as (R3 & R4); auto; try lia.
        { eapply rep_stable; eauto. }
        { eapply rep_stable; eauto. }
        unfold fpost. split; [exact Hag|]. split; [lia|]. split; [exact R3|]. split; [exact R4|].
        cbn [erase]. now rewrite A6.
Qed.

Lemma write_nodes_f_post torn : forall t f s k w1 t1,
  rep f t -> below t s -> located t -> 0 <= s <= blen f -> tree_ok t ->
  write_nodes_f torn (mkW f s k false) t = (w1, t1) -> w_size w1 < two63 ->
  fpost f s t (w_file w1) (w_size w1) t1 /\ (w_failed w1 = false -> persisted t1).
Proof.
  induction t as [|nl l IHl il it nn nb r IHr]; intros f s k w1 t1 Hrep Hbl Hloc Hsz Hok H H63;
    cbn [write_nodes_f] in H.
  - pinv H. cbn [w_file w_size]. split; [|intros _; exact I].
    unfold fpost. repeat split; auto using agree_refl; lia.
  - destruct nl as [p|].
    { pinv H. cbn [w_file w_size]. split; [|intros _; cbn [rep] in Hrep; apply Hrep].
      unfold fpost. split; [apply agree_refl|]. split; [lia|].
      split; [exact Hrep|]. split; [exact Hbl|reflexivity]. }
    cbn [rep] in Hrep. destruct Hrep as (Hl & Hr & Hit).
    cbn [below] in Hbl. destruct Hbl as (_ & Hib & Hlb & Hrb).
    cbn [located] in Hloc. destruct Hloc as (Hil & Hlloc & Hrloc).
    cbn [tree_ok] in Hok. destruct Hok as (Hiok & Hnn & Hnb & Hlok & Hrok).
    destruct (write_nodes_f torn (mkW f s k false) l) as [wa la] eqn:El.
    destruct (write_nodes_f_sim _ _ _ _ _ _ _ El) as (Ma & _). specialize (Ma Hsz).
    destruct wa as [fa sa ka fla]. cbn [w_failed w_file w_size w_left] in Ma, H.
    destruct Ma as (Ma1 & Ma2).
    assert (Hr' : rep fa r) by (eapply rep_stable; eauto).
    assert (Hrb' : below r sa) by (eapply below_mono; eauto; lia).
    destruct fla.
    { (* failed in the left subtree *)
      pinv H. cbn [w_file w_size w_failed] in *.
      destruct (IHl _ _ _ _ _ Hl Hlb Hlloc Hsz Hlok El H63) as ((A1 & A2 & A4 & A5 & A6) & _).
      cbn [w_file w_size] in A1, A2, A4, A5.
      split; [|intros Hf; discriminate Hf].
      destruct (rep_below_dirty f fa s sa la il it nn nb r) as (R1 & R2); auto; try lia.
      unfold fpost. split; [exact A1|]. split; [lia|]. split; [exact R1|]. split; [exact R2|].
      cbn [erase]. now rewrite A6. }
    destruct (write_nodes_f torn (mkW fa sa ka false) r) as [wb rb] eqn:Er.
    destruct (write_nodes_f_sim _ _ _ _ _ _ _ Er) as (Mb & _). specialize (Mb ltac:(lia)).
    destruct wb as [fb sb kb flb]. cbn [w_failed w_file w_size w_left] in Mb, H.
    destruct Mb as (Mb1 & Mb2).
    destruct flb.
    { (* failed in the right subtree *)
      pinv H. cbn [w_file w_size w_failed] in *.
      destruct (IHl _ _ _ _ _ Hl Hlb Hlloc Hsz Hlok El ltac:(cbn [w_size]; lia))
        as ((A1 & A2 & A4 & A5 & A6) & _).
      cbn [w_file w_size] in A1, A2, A4, A5.
      destruct (IHr _ _ _ _ _ Hr' Hrb' Hrloc ltac:(lia) Hrok Er H63) as ((B1 & B2 & B4 & B5 & B6) & _).
      cbn [w_file w_size] in B1, B2, B4, B5.
      split; [|intros Hf; discriminate Hf].
      assert (Hag : agree f fb s) by (eapply agree_trans; eauto; lia).
      destruct (rep_below_dirty f fb s sb la il it nn nb rb) as (R1 & R2); auto; try lia.
      { eapply rep_stable; eauto. }
      { eapply below_mono; eauto; lia. }
      unfold fpost. split; [exact Hag|]. split; [lia|]. split; [exact R1|]. split; [exact R2|].
      cbn [erase]. now rewrite A6, B6. }
    set (d := enc_node il (root_loc la) (root_loc rb) nn nb) in *.
    assert (Hbd : blen d = 52) by (subst d; apply blen_enc_node).
    unfold fwrite, set_size in H. cbn [w_failed w_left w_file w_size] in H.
    change node_len with 52 in *.
    destruct kb as [|kc]; cbn [w_failed w_left w_file w_size] in H; pinv H;
      cbn [w_file w_size w_failed] in *.
    + (* the node's call fails *)
      destruct (IHl _ _ _ _ _ Hl Hlb Hlloc Hsz Hlok El ltac:(cbn [w_size]; lia))
        as ((A1 & A2 & A4 & A5 & A6) & _).
      cbn [w_file w_size] in A1, A2, A4, A5.
      destruct (IHr _ _ _ _ _ Hr' Hrb' Hrloc ltac:(lia) Hrok Er ltac:(cbn [w_size]; lia))
        as ((B1 & B2 & B4 & B5 & B6) & _).
      cbn [w_file w_size] in B1, B2, B4, B5.
      split; [|intros Hf; discriminate Hf].
      set (f3 := write_at fb sb (firstn torn d)).
      assert (W1 : agree fb f3 sb) by (apply agree_write_at; lia).
      assert (W2 : sb <= blen f3) by (subst f3; rewrite blen_write_at by lia; lia).
      assert (Hagb : agree f fb s) by (eapply agree_trans; eauto; lia).
      assert (Hag : agree f f3 s) by (eapply agree_trans; eauto; lia).
      destruct (rep_below_dirty f f3 s sb la il it nn nb rb) as (R1 & R2); auto; try lia.
      { apply (rep_stable fa f3 la sa); auto. eapply agree_trans; eauto; lia. }
      { apply (rep_stable fb f3 rb sb); auto. }
      { eapply below_mono; eauto; lia. }
      unfold fpost. split; [exact Hag|]. split; [lia|]. split; [exact R1|]. split; [exact R2|].
      cbn [erase]. now rewrite A6, B6.
    + (* the node record is written *)
      destruct (IHl _ _ _ _ _ Hl Hlb Hlloc Hsz Hlok El ltac:(cbn [w_size]; lia))
        as ((A1 & A2 & A4 & A5 & A6) & A7).
      cbn [w_file w_size w_failed] in A1, A2, A4, A5, A7.
      destruct (IHr _ _ _ _ _ Hr' Hrb' Hrloc ltac:(lia) Hrok Er ltac:(cbn [w_size]; lia))
        as ((B1 & B2 & B4 & B5 & B6) & B7).
      cbn [w_file w_size w_failed] in B1, B2, B4, B5, B7.
      destruct (append_facts fb sb d ltac:(lia)) as (W1 & W2 & W3 & W4).
      rewrite Hbd in W2, W3, W4.
      set (f' := write_at fb sb d) in *.
      assert (Hagb : agree f fb s) by (eapply agree_trans; eauto; lia).
      assert (Hag : agree f f' s) by (eapply agree_trans; eauto; lia).
      destruct il as [q|]; [|congruence]. destruct (Hit q eq_refl) as (Q1 & Q2).
      cbn [loc_below] in Hib.
      assert (Hper : persisted (T (Some (mkPloc sb 52)) la (Some q) it nn nb rb)).
      { cbn [persisted]. repeat split; try discriminate; auto. }
      assert (Hdn : dec_node f' (mkPloc sb node_len) =
                    Some (mkNodeRec (Some q) (root_loc la) (root_loc rb) nn nb)).
      { apply dec_node_enc; auto; try lia.
        - cbn [oploc_ok]. unfold ploc_ok. destruct Hiok as (_ & _ & Hi32 & _).
          pose proof (item_loc_len_ge it). rewrite Q1. rewrite two63_eq in *. lia.
        - apply (root_loc_ok fa la sa); auto. lia.
        - apply (root_loc_ok fb rb sb); auto. lia. }
      split; [|intros _; exact Hper].
      unfold fpost. split; [exact Hag|]. split; [lia|]. split; [|split].
      * cbn [rep]. split; [exact Hper|].
        split; [apply (rep_stable fa f' la sa); auto; eapply agree_trans; eauto; lia|].
        split; [apply (rep_stable fb f' rb sb); auto|].
        split; [reflexivity|]. split; [exact Hdn|]. cbn [poff plen].
        split; [|split].
        -- intros q' Hq'. inversion Hq'; subst q'. split; [exact Q1|]. split; [|lia].
           apply (dec_item_agree f f' q it s); auto; lia.
        -- intros ql Hql. pose proof (below_root _ _ A5 ql Hql). lia.
        -- intros qr Hqr. pose proof (below_root _ _ B5 qr Hqr). lia.
      * cbn [below loc_below poff plen]. split; [lia|]. split; [lia|].
        split; eapply below_mono; eauto; lia.
      * cbn [erase]. now rewrite A6, B6.
Qed.

Lemma write_tree_f_post torn t f s k w1 t1 :
  rep f t -> below t s -> 0 <= s <= blen f -> tree_ok t ->
  write_tree_f torn (mkW f s k false) t = (w1, t1) -> w_size w1 < two63 ->
  fpost f s t (w_file w1) (w_size w1) t1.
Proof.
  intros Hrep Hbl Hsz Hok H H63. unfold write_tree_f in H.
  destruct (write_items_f torn (mkW f s k false) t) as [wa ta] eqn:Ei.
  pose proof (write_items_f_post _ _ _ _ _ _ _ Hrep Hbl Hsz Hok Ei) as P1.
  destruct (write_items_f_sim _ _ _ _ _ _ _ Ei) as (_ & Ca).
  destruct wa as [fa sa ka fla]. cbn [w_failed w_file w_size w_left] in P1, Ca, H.
  destruct fla; [pinv H; exact P1|].
  destruct Ca as (_ & Ce). specialize (Ce ltac:(lia)).
  pose proof P1 as (A1 & A2 & A4 & A5 & A6).
  destruct (write_nodes_f_post _ _ _ _ _ _ _ A4 A5 (write_items_located _ _ _ _ _ _ Ce) ltac:(lia)
              (erase_eq_tree_ok _ _ A6 Hok) H H63) as (P2 & _).
  eapply fpost_trans; eauto.
Qed.

Lemma write_colls_f_post torn : forall cs f s k w1 cs1,
  Forall (coll_ok f s) cs -> 0 <= s <= blen f ->
  write_colls_f torn (mkW f s k false) cs = (w1, cs1) -> w_size w1 < two63 ->
  agree f (w_file w1) s /\ s <= w_size w1 <= blen (w_file w1) /\
  Forall (coll_ok (w_file w1) (w_size w1)) cs1.
Proof.
  induction cs as [|[n c] cs IH]; intros f s k w1 cs1 Hok Hsz H H63; cbn [write_colls_f] in H.
  - pinv H. cbn [w_file w_size]. split; [apply agree_refl|]. split; [lia|constructor].
  - inversion Hok as [|? ? Hc Hcs]; subst. destruct Hc as (C1 & C2 & C3 & C4). cbn [fst snd] in *.
    destruct (write_tree_f torn (mkW f s k false) (c_tree c)) as [wa t'] eqn:Et.
    destruct (write_tree_f_sim _ _ _ _ _ _ _ Et) as (Ma & _). specialize (Ma Hsz).
    destruct wa as [fa sa ka fla]. cbn [w_failed w_file w_size w_left] in Ma, H.
    destruct Ma as (Ma1 & Ma2).
    assert (Hcs' : Forall (coll_ok fa sa) cs).
    { eapply Forall_impl; [|exact Hcs]. intros nc Hnc. eapply coll_ok_stable; eauto. lia. }
    destruct fla.
    { pinv H. cbn [w_file w_size] in *.
      destruct (write_tree_f_post _ _ _ _ _ _ _ C2 C3 Hsz C4 Et H63) as (A1 & A2 & A4 & A5 & A6).
      cbn [w_file w_size] in A1, A2, A4, A5.
      split; [exact A1|]. split; [lia|]. constructor; [|exact Hcs'].
      unfold coll_ok. cbn [fst snd c_tree]. repeat split; auto. eapply erase_eq_tree_ok; eauto. }
    destruct (write_colls_f torn (mkW fa sa ka false) cs) as [wb cs2] eqn:Ec.
    destruct (write_colls_f_sim _ _ _ _ _ _ _ Ec) as (Mb & _). specialize (Mb ltac:(lia)).
    destruct Mb as (Mb1 & Mb2). pinv H.
    destruct (write_tree_f_post _ _ _ _ _ _ _ C2 C3 Hsz C4 Et ltac:(cbn [w_size]; lia))
      as (A1 & A2 & A4 & A5 & A6).
    cbn [w_file w_size] in A1, A2, A4, A5.
    destruct (IH _ _ _ _ _ Hcs' ltac:(lia) Ec H63) as (B1 & B2 & B3).
    split; [eapply agree_trans; eauto; lia|]. split; [lia|]. constructor; [|exact B3].
    apply (coll_ok_stable fa _ sa); [|assumption|lia].
    unfold coll_ok. cbn [fst snd c_tree]. repeat split; auto. eapply erase_eq_tree_ok; eauto.
Qed.

Theorem flush_fault_coll_ok k torn f size cs f1 s1 cs1 b :
  0 <= size <= blen f -> Forall (coll_ok f size) cs ->
  flush_fault k torn f size cs = (f1, s1, cs1, b) ->
  s1 < two63 ->
  Forall (coll_ok f1 s1) cs1.
Proof.
  intros Hsz Hok H H63. unfold flush_fault in H.
  destruct (write_colls_f torn (mkW f size k false) cs) as [wa ca] eqn:Ec.
  destruct (write_colls_f_sim _ _ _ _ _ _ _ Ec) as (Ma & _). specialize (Ma Hsz).
  destruct wa as [fa sa ka fla]. cbn [w_failed w_file w_size w_left] in Ma, H.
  destruct Ma as (Ma1 & Ma2).
  destruct fla.
  { qinv H. destruct (write_colls_f_post _ _ _ _ _ _ _ Hok Hsz Ec H63) as (_ & _ & P). exact P. }
  set (r := enc_root (root_map ca) sa) in *. pose proof (blen_nonneg r) as Hr.
  unfold fwrite in H. cbn [w_failed w_left w_file w_size] in H.
  destruct ka as [|kb]; cbn [w_failed w_left w_file w_size] in H; qinv H.
  - destruct (write_colls_f_post _ _ _ _ _ _ _ Hok Hsz Ec H63) as (_ & _ & P).
    cbn [w_file w_size] in P.
    eapply Forall_impl; [|exact P]. intros nc Hnc.
    apply (coll_ok_stable fa _ sa sa); [assumption| |lia]. apply agree_write_at. lia.
  - destruct (write_colls_f_post _ _ _ _ _ _ _ Hok Hsz Ec ltac:(cbn [w_size]; lia)) as (_ & _ & P).
    cbn [w_file w_size] in P.
    eapply Forall_impl; [|exact P]. intros nc Hnc.
    apply (coll_ok_stable fa _ sa); [assumption| |lia]. apply agree_write_at. lia.
Qed.
Print Assumptions flush_fault_coll_ok.
