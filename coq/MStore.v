(* MStore.v — several handles on one store: handle 0 is the writable store, the others are
   snapshots (Store.Snapshot(): a read-only copy of the current collections, unflushed changes
   included).  Each handle's behaviour is Store.step; a snapshot refuses Set / Delete / Flush,
   keeps what it saw when it was taken whatever happens to the other handles, and its Close
   only ends that handle. *)
From GK Require Import Base Treap Store.

Inductive mop :=
| MOp (h : nat) (o : op)        (* an operation through handle h *)
| MSnap (h : nat)               (* Snapshot() of handle h: a new handle at the end of the list *)
| MClose (h : nat).             (* Close() of handle h *)

Record hstate := mkH { h_store : store; h_ro : bool; h_closed : bool }.

Definition mstate := list hstate.

Definition minit (file : bool) : mstate := [mkH (init file) false false].

Inductive mout := MSkip | MOut (r : out).

Fixpoint set_nth {A} (l : list A) (n : nat) (x : A) : list A :=
  match l, n with
  | [], _ => []
  | _ :: t, O => x :: t
  | a :: t, S k => a :: set_nth t k x
  end.

(* what a read-only snapshot store answers to mutating calls *)
Definition refused (o : op) : bool :=
  match o with
  | OSet _ _ _ _ | ODel _ _ | OFlush => true
  | _ => false
  end.

Definition mstep (s : mstate) (m : mop) : mstate * mout :=
  match m with
  | MOp h o =>
    match nth_error s h with
    | None => (s, MSkip)
    | Some hs =>
      if h_closed hs then (s, MSkip)
      else if h_ro hs && refused o then
        (s, MOut (match o with
                  | OSet name _ _ _ | ODel name _ =>
                      match cget (s_cur (h_store hs)) name with None => RNoColl | Some _ => RErr end
                  | _ => RErr
                  end))
      else
        let '(st', r) := step (h_store hs) o in
        (set_nth s h (mkH st' (h_ro hs) false), MOut r)
    end
  | MSnap h =>
    match nth_error s h with
    | None => (s, MSkip)
    | Some hs =>
      if h_closed hs then (s, MSkip)
      else (s ++ [mkH (mkStore (s_file (h_store hs)) (s_cur (h_store hs)) (s_flushed (h_store hs)) (s_cmpreg (h_store hs))) true false],
            MOut ROk)
    end
  | MClose h =>
    match nth_error s h with
    | None => (s, MSkip)
    | Some hs => (set_nth s h (mkH (h_store hs) (h_ro hs) true), MOut ROk)
    end
  end.

Fixpoint mrun (s : mstate) (ops : list mop) : list mout :=
  match ops with
  | [] => []
  | m :: ops' => let '(s', r) := mstep s m in r :: mrun s' ops'
  end.

(* the handle an operation goes through *)
Definition mop_handle (m : mop) : nat := match m with MOp h _ | MSnap h | MClose h => h end.

(* ---------------- isolation (C04 at the level of contents) ---------------- *)

Lemma nth_error_set_nth_other {A} (l : list A) n k x : n <> k -> nth_error (set_nth l n x) k = nth_error l k.
Proof.
  revert n k. induction l as [|a l IH]; intros n k H; destruct n, k; cbn; try reflexivity; try congruence.
  apply IH. congruence.
Qed.

Lemma nth_error_app_keep {A} (l : list A) x k : (k < length l)%nat -> nth_error (l ++ [x]) k = nth_error l k.
Proof. intros H. apply nth_error_app1. exact H. Qed.

(* one step through handle h leaves every other existing handle exactly as it was *)
Theorem mstep_isolated : forall s m s' r k, mstep s m = (s', r) -> k <> mop_handle m ->
  (k < length s)%nat -> nth_error s' k = nth_error s k.
Proof.
  intros s m s' r k H Hk Hlen. destruct m as [h o|h|h]; cbn [mstep mop_handle] in *.
  - destruct (nth_error s h) as [hs|] eqn:Hh; [|injection H as <- _; reflexivity].
    destruct (h_closed hs); [injection H as <- _; reflexivity|].
    destruct (h_ro hs && refused o); [injection H as <- _; reflexivity|].
    destruct (step (h_store hs) o) as [st' r0]. injection H as <- _.
    apply nth_error_set_nth_other. congruence.
  - destruct (nth_error s h) as [hs|] eqn:Hh; [|injection H as <- _; reflexivity].
    destruct (h_closed hs); injection H as <- _; [reflexivity|].
    apply nth_error_app_keep. exact Hlen.
  - destruct (nth_error s h) as [hs|] eqn:Hh; injection H as <- _; [|reflexivity].
    apply nth_error_set_nth_other. congruence.
Qed.

Fixpoint mexec (s : mstate) (ops : list mop) : mstate :=
  match ops with [] => s | m :: ops' => mexec (fst (mstep s m)) ops' end.

Lemma mstep_length : forall s m, (length s <= length (fst (mstep s m)))%nat.
Proof.
  intros s m. destruct m as [h o|h|h]; cbn [mstep].
  - destruct (nth_error s h) as [hs|]; [|cbn; lia].
    destruct (h_closed hs); [cbn; lia|]. destruct (h_ro hs && refused o); [cbn; lia|].
    destruct (step (h_store hs) o). cbn [fst].
    clear. revert h. induction s as [|a s IH]; intros h; destruct h; cbn; try lia. specialize (IH h). lia.
  - destruct (nth_error s h) as [hs|]; [|cbn; lia]. destruct (h_closed hs); cbn; [lia|]. rewrite app_length. cbn. lia.
  - destruct (nth_error s h) as [hs|]; [|cbn; lia]. cbn [fst].
    clear. revert h. induction s as [|a s IH]; intros h; destruct h; cbn; try lia. specialize (IH h). lia.
Qed.

(* over a whole history: a handle that no operation of the history goes through is unchanged --
   in particular a snapshot keeps exactly the contents it had when it was taken, whatever is done
   to the original (mutations, flushes, collection removal or replacement, Close) or to other snapshots *)
Theorem snapshot_isolated : forall ops s k, (k < length s)%nat ->
  (forall m, In m ops -> mop_handle m <> k) -> nth_error (mexec s ops) k = nth_error s k.
Proof.
  induction ops as [|m ops IH]; intros s k Hk Hno; cbn [mexec]; [reflexivity|].
  destruct (mstep s m) as [s' r] eqn:Hs. cbn [fst].
  rewrite IH.
  - eapply mstep_isolated; eauto. intro He. apply (Hno m (or_introl eq_refl)). auto.
  - pose proof (mstep_length s m) as Hl. rewrite Hs in Hl. cbn [fst] in Hl. lia.
  - intros m' Hin. apply Hno. right. exact Hin.
Qed.

(* a snapshot starts with the current collections of its source (unflushed changes included) *)
Theorem snapshot_sees_current : forall s h hs s' r, nth_error s h = Some hs -> h_closed hs = false ->
  mstep s (MSnap h) = (s', r) ->
  exists sn, nth_error s' (length s) = Some sn /\ s_cur (h_store sn) = s_cur (h_store hs) /\ h_ro sn = true.
Proof.
  intros s h hs s' r Hh Hc H. cbn [mstep] in H. rewrite Hh, Hc in H. injection H as <- _.
  eexists. split; [rewrite nth_error_app2, Nat.sub_diag by lia; reflexivity|]. cbn. auto.
Qed.

(* snapshots refuse Set, Delete and Flush and are not changed by the refusal *)
Theorem snapshot_refuses : forall s h hs o s' r, nth_error s h = Some hs -> h_closed hs = false ->
  h_ro hs = true -> refused o = true -> mstep s (MOp h o) = (s', r) ->
  s' = s /\ (r = MOut RErr \/ r = MOut RNoColl).
Proof.
  intros s h hs o s' r Hh Hc Hro Hrf H. cbn [mstep] in H. rewrite Hh, Hc, Hro, Hrf in H. cbn [andb] in H.
  injection H as <- <-. split; [reflexivity|].
  destruct o; try discriminate; cbn; try (left; reflexivity);
    destruct (cget (s_cur (h_store hs)) name); auto.
Qed.
