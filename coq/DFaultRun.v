(* DFaultRun.v — DStore histories in which Flush calls may fail at a chosen WriteAt call
   (DiskFault.flush_fault).  Executable: compared with the implementation under fault injection (C07). *)
From GK Require Import Base Treap Store Codec Disk DStore DiskFault.
From Coq Require Import ZArith List Bool.
Import ListNotations.

Inductive fop :=
| FOp (o : op)
| FFlushFail (k torn : nat).     (* Store.Flush whose k-th WriteAt call writes torn bytes and fails *)

Definition dfstep (s : dstore) (o : fop) : dstore * out :=
  match o with
  | FOp o => dstep s o
  | FFlushFail k torn =>
    let '(f', size', cs', failed) := flush_fault k torn (d_file s) (d_size s) (d_cur s) in
    (mkDStore f' size' cs' (d_cmpreg s), if failed then RErr else ROk)
  end.

Fixpoint dfrun (s : dstore) (ops : list fop) : list (out * file) :=
  match ops with
  | [] => []
  | o :: ops' => let '(s', r) := dfstep s o in (r, d_file s') :: dfrun s' ops'
  end.

(* the history with the failed attempts removed *)
Fixpoint strip (ops : list fop) : list op :=
  match ops with
  | [] => []
  | FOp o :: r => o :: strip r
  | FFlushFail _ _ :: r => strip r
  end.
