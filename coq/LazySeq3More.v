(* LazySeq3More.v — more about a Flush inside a run (LazySeq3.v):
   M1 a Flush is invisible to the read lists of a whole LIST of lookups / GetTotals that follow it;
   M2 a Flush is invisible to the read list of one whole visit that follows it;
   M3 but not to the call AFTER such a visit (the visit evicts the flushed items it touched). *)
From GK Require Import Base Treap TreapSpec Store Codec CodecProofs Disk DiskProofs Lazy LazyProofs LazyVisit LazyMut LazyMutProofs
  LazySeq LazySeqProofs LazySeq2 LazySeq2Proofs DStoreRefine LazySeq3 LazySeq3Proofs.
From Coq Require Import Lia ZArith NArith List Bool Permutation.
Import ListNotations.
Open Scope Z_scope.

(* ------------------------------------------------------------------ *)
(* M1 *)

Definition lookup_op2 (o : sop2) : bool :=
  match o with S1 (SGet _ _) | S1 (SMin _) | S1 (SMax _) | STot => true | _ => false end.

Definition tot_touches (t : tree) : list vtouch :=
  match t with T (Some p) _ _ _ _ _ _ => [VN p] | _ => [] end.

Definition lookup2_touches (cmp : bytes -> bytes -> comparison) (t : tree) (o : sop2) : list vtouch :=
  match o with
  | S1 o1 => lookup_touches cmp t o1
  | STot => tot_touches t
  | _ => []
  end.

Lemma cs_set_same name : forall cs t, cs_get name cs = Some t -> cs_set name t cs = cs.
Proof.
  induction cs as [|[n t0] cs IH]; intros t Hg; [reflexivity|].
  cbn [cs_get] in Hg. cbn [cs_set].
  destruct (cmp_bytes name n); [inversion Hg; reflexivity| |]; rewrite (IH t Hg); reflexivity.
Qed.

(* a lookup: its reads are those of its touches, the trees stay, the memory is the one after the touches *)
Lemma sstep3_lookup2 cmp name s o t : cs_get name (ss_colls s) = Some t -> lookup_op2 o = true ->
  sstep3 cmp name s (S2 o) =
  (fst (vreads (ss_mem s) (lookup2_touches cmp t o)),
   mkSst (ss_file s) (ss_size s) (ss_colls s) (snd (vreads (ss_mem s) (lookup2_touches cmp t o)))).
Proof.
  intros Hg Hl. unfold sstep3. rewrite Hg.
  destruct o as [o|asc target wv b| |]; try discriminate Hl.
  - unfold sstep2, sstep. destruct o as [k wv|wv|wv|k v prio|k]; try discriminate Hl;
      cbn [lookup2_touches lookup_touches].
    + destruct (vreads (ss_mem s) (getv_t cmp t k wv)) as [rs m']. cbn [fst snd].
      rewrite (cs_set_same name _ _ Hg). reflexivity.
    + destruct (vreads (ss_mem s) (walk_t true wv t)) as [rs m']. cbn [fst snd].
      rewrite (cs_set_same name _ _ Hg). reflexivity.
    + destruct (vreads (ss_mem s) (walk_t false wv t)) as [rs m']. cbn [fst snd].
      rewrite (cs_set_same name _ _ Hg). reflexivity.
  - unfold sstep2. cbn [lookup2_touches]. fold (tot_touches t).
    destruct (vreads (ss_mem s) (tot_touches t)) as [rs m']. cbn [fst snd].
    rewrite (cs_set_same name _ _ Hg). reflexivity.
Qed.

Section Sim2.
Variable size : Z.
Variables FI FN : Z -> Prop.
Hypothesis FI_ge : forall o, FI o -> size <= o.

Lemma tot_touches_sim : forall t t', fl FI FN t t' -> old_lt size t ->
  tsim size FI FN (tot_touches t') (tot_touches t).
Proof.
  intros [|nl l il it nn nb r] [|nl' l' il' it' nn' nb' r'] H Ho; cbn [fl] in H; try contradiction.
  - constructor.
  - destruct H as (H1 & H2 & H3 & H4 & H5). cbn [old_lt] in Ho. destruct Ho as (O1 & O2 & O3 & O4).
    pose proof (nl_sim size FI FN nl nl' H2 O1) as Hs.
    unfold tot_touches. destruct nl as [p|], nl' as [p'|]; exact Hs.
Qed.

Lemma lookup2_touches_sim cmp o : forall t t', lookup_op2 o = true -> fl FI FN t t' -> old_lt size t ->
  tsim size FI FN (lookup2_touches cmp t' o) (lookup2_touches cmp t o).
Proof.
  intros t t' Hl Hfl Ho. destruct o as [o|asc target wv b| |]; try discriminate Hl.
  - destruct o as [k wv|wv|wv|k v prio|k]; try discriminate Hl; cbn [lookup2_touches lookup_touches].
    + apply getv_t_sim; assumption.
    + apply walk_t_sim; assumption.
    + apply walk_t_sim; assumption.
  - cbn [lookup2_touches]. apply tot_touches_sim; assumption.
Qed.

(* the relation between the run after the Flush (s') and the run without it (s) *)
Definition ssim (name : bytes) (s' s : sst) : Prop :=
  match cs_get name (ss_colls s) with
  | Some t => exists t', cs_get name (ss_colls s') = Some t' /\ fl FI FN t t' /\ old_lt size t
  | None => cs_get name (ss_colls s') = None
  end /\ msim size FI FN (ss_mem s') (ss_mem s).

(* one lookup: equal reads, and the relation persists *)
Lemma sstep3_lookup2_sim cmp name s' s o : lookup_op2 o = true -> ssim name s' s ->
  fst (sstep3 cmp name s' (S2 o)) = fst (sstep3 cmp name s (S2 o)) /\
  ssim name (snd (sstep3 cmp name s' (S2 o))) (snd (sstep3 cmp name s (S2 o))).
Proof.
  intros Hl [Hrel Hms]. unfold ssim in *.
  destruct (cs_get name (ss_colls s)) as [t|] eqn:Hg.
  - destruct Hrel as (t' & Hg' & Hfl & Hold).
    rewrite (sstep3_lookup2 cmp name s' o t' Hg' Hl), (sstep3_lookup2 cmp name s o t Hg Hl).
    cbn [fst snd ss_colls ss_mem].
    destruct (vreads_sim size FI FN FI_ge _ _ (lookup2_touches_sim cmp o t t' Hl Hfl Hold) _ _ Hms) as [E1 E2].
    split; [exact E1|]. split; [|exact E2].
    rewrite Hg. exists t'. split; [exact Hg'|]. split; assumption.
  - unfold sstep3. rewrite Hg, Hrel. cbn [fst snd]. split; [reflexivity|].
    rewrite Hg. split; assumption.
Qed.

Lemma lookups_sim cmp name : forall ops s' s, forallb lookup_op2 ops = true -> ssim name s' s ->
  srun3 cmp name s' (map S2 ops) = srun3 cmp name s (map S2 ops).
Proof.
  induction ops as [|o r IH]; intros s' s Hall Hs; [reflexivity|].
  cbn [forallb] in Hall. apply andb_prop in Hall. destruct Hall as [H1 H2].
  cbn [map]. rewrite !srun3_cons.
  destruct (sstep3_lookup2_sim cmp name s' s o H1 Hs) as [E1 E2].
  rewrite E1. f_equal. apply IH; assumption.
Qed.

End Sim2.

(* the state after a Flush is related to the state before it *)
Lemma flush_ssim cmp name s :
  (forall t, cs_get name (ss_colls s) = Some t -> rep (ss_file s) t /\ below t (ss_size s)) ->
  exists FI FN : Z -> Prop, (forall o, FI o -> ss_size s <= o) /\
    ssim (ss_size s) FI FN name (snd (sstep3 cmp name s SFlush)) s.
Proof.
  intro Hrb. unfold sstep3, flush_trees.
  destruct (write_trees (ss_file s) (ss_size s) (ss_colls s)) as [[f1 s1] cs1] eqn:E1. cbn [snd].
  destruct (write_trees_fresh _ _ _ _ _ _ E1) as [[S1 S2] G]. specialize (G name).
  set (F := fresh_mems (ss_colls s) cs1) in *.
  exists (fun o0 => In (o0, true) F), (fun o0 => In (o0, false) F).
  split; [intros o0 Hi; apply S1 in Hi; lia|].
  unfold ssim. cbn [ss_colls ss_mem]. split.
  - destruct (cs_get name (ss_colls s)) as [t|] eqn:Hg; [|exact G].
    destruct G as (t' & Hg' & Hfl). destruct (Hrb t eq_refl) as [Hrep Hbel].
    exists t'. split; [exact Hg'|]. split; [exact Hfl|].
    exact (rep_below_old_lt _ _ t Hrep Hbel).
  - split; [|split].
    + intros o0 Ho0. rewrite mem_find_app. rewrite mem_find_none_notin; [reflexivity|].
      intros b Hin. apply S1 in Hin. lia.
    + intros o0 Hin. rewrite mem_find_app. pose proof (mem_find_in o0 false F Hin) as Hne.
      destruct (mem_find o0 F); [discriminate|congruence].
    + intros o0 Hin. rewrite mem_find_app. rewrite (mem_find_in_true o0 F (S2 o0 Hin) Hin). reflexivity.
Qed.

Theorem lookups_after_flush_same_reads : forall cmp name s ops,
  (forall t, cs_get name (ss_colls s) = Some t -> rep (ss_file s) t /\ below t (ss_size s)) ->
  forallb lookup_op2 ops = true ->
  srun3 cmp name (snd (sstep3 cmp name s SFlush)) (map S2 ops) = srun3 cmp name s (map S2 ops).
Proof.
  intros cmp name s ops Hrb Hall.
  destruct (flush_ssim cmp name s Hrb) as (FI & FN & HFI & Hs).
  exact (lookups_sim (ss_size s) FI FN HFI cmp name ops _ _ Hall Hs).
Qed.
Print Assumptions lookups_after_flush_same_reads.

(* ------------------------------------------------------------------ *)
(* M2 *)

Section SimVisit.
Variable size : Z.
Variables FI FN : Z -> Prop.
Variable cmp : bytes -> bytes -> comparison.

(* related trees: related touches, the same budget left, the same keepGoing *)
Lemma visit_vt_sim asc target wv : forall t t', fl FI FN t t' -> old_lt size t -> forall b,
  tsim size FI FN (fst (fst (visit_vt cmp asc t' target wv b))) (fst (fst (visit_vt cmp asc t target wv b))) /\
  snd (fst (visit_vt cmp asc t' target wv b)) = snd (fst (visit_vt cmp asc t target wv b)) /\
  snd (visit_vt cmp asc t' target wv b) = snd (visit_vt cmp asc t target wv b).
Proof.
  induction t as [|nl l IHl il it nn nb r IHr]; intros [|nl' l' il' it' nn' nb' r'] H Ho b;
    cbn [fl] in H; try contradiction.
  { cbn [visit_vt fst snd]. split; [constructor|split; reflexivity]. }
  destruct H as (H1 & H2 & H3 & H4 & H5). subst it'.
  cbn [old_lt] in Ho. destruct Ho as (O1 & O2 & O3 & O4).
  pose proof (nl_sim size FI FN nl nl' H2 O1) as Sn.
  pose proof (il_sim size FI FN il il' it false H3 O2) as Sk.
  pose proof (il_sim size FI FN il il' it wv H3 O2) as Sv.
  pose proof (tsim_app size FI FN _ _ _ _ Sn Sk) as S0.
  specialize (IHl l' H4 O3). specialize (IHr r' H5 O4).
  destruct asc; cbn [visit_vt]; destruct (vch cmp _ target it).
  - destruct (IHl b) as (A1 & A2 & A3).
    destruct (visit_vt cmp true l' target wv b) as [[r1' b1'] k1'].
    destruct (visit_vt cmp true l target wv b) as [[r1 b1] k1].
    cbn [fst snd] in A1, A2, A3. subst b1' k1'.
    destruct k1.
    + destruct b1 as [|b1].
      * cbn [fst snd]. split; [|split; reflexivity].
        apply tsim_app; [exact S0|]. apply tsim_app; assumption.
      * destruct (IHr b1) as (B1 & B2 & B3).
        destruct (visit_vt cmp true r' target wv b1) as [[r2' b2'] k2'].
        destruct (visit_vt cmp true r target wv b1) as [[r2 b2] k2].
        cbn [fst snd] in B1, B2, B3 |- *. split; [|split; assumption].
        apply tsim_app; [exact S0|]. apply tsim_app; [exact A1|]. apply tsim_app; assumption.
    + cbn [fst snd]. split; [|split; reflexivity]. apply tsim_app; assumption.
  - destruct (IHr b) as (B1 & B2 & B3).
    destruct (visit_vt cmp true r' target wv b) as [[r2' b2'] k2'].
    destruct (visit_vt cmp true r target wv b) as [[r2 b2] k2].
    cbn [fst snd] in B1, B2, B3 |- *. split; [|split; assumption]. apply tsim_app; assumption.
  - destruct (IHr b) as (A1 & A2 & A3).
    destruct (visit_vt cmp false r' target wv b) as [[r1' b1'] k1'].
    destruct (visit_vt cmp false r target wv b) as [[r1 b1] k1].
    cbn [fst snd] in A1, A2, A3. subst b1' k1'.
    destruct k1.
    + destruct b1 as [|b1].
      * cbn [fst snd]. split; [|split; reflexivity].
        apply tsim_app; [exact S0|]. apply tsim_app; assumption.
      * destruct (IHl b1) as (B1 & B2 & B3).
        destruct (visit_vt cmp false l' target wv b1) as [[r2' b2'] k2'].
        destruct (visit_vt cmp false l target wv b1) as [[r2 b2] k2].
        cbn [fst snd] in B1, B2, B3 |- *. split; [|split; assumption].
        apply tsim_app; [exact S0|]. apply tsim_app; [exact A1|]. apply tsim_app; assumption.
    + cbn [fst snd]. split; [|split; reflexivity]. apply tsim_app; assumption.
  - destruct (IHl b) as (B1 & B2 & B3).
    destruct (visit_vt cmp false l' target wv b) as [[r2' b2'] k2'].
    destruct (visit_vt cmp false l target wv b) as [[r2 b2] k2].
    cbn [fst snd] in B1, B2, B3 |- *. split; [|split; assumption]. apply tsim_app; assumption.
Qed.

End SimVisit.

Lemma sstep3_vis_reads cmp name s t asc target wv b : cs_get name (ss_colls s) = Some t ->
  fst (sstep3 cmp name s (S2 (SVis asc target wv b))) =
  fst (vreads (ss_mem s) (fst (fst (visit_vt cmp asc t target wv b)))).
Proof.
  intro Hg. unfold sstep3. rewrite Hg. unfold sstep2. cbv zeta.
  destruct (vreads (ss_mem s) (fst (fst (visit_vt cmp asc t target wv b)))) as [rs m']. reflexivity.
Qed.

Theorem visit_after_flush_same_reads : forall cmp name s asc target wv b,
  (forall t, cs_get name (ss_colls s) = Some t -> rep (ss_file s) t /\ below t (ss_size s)) ->
  fst (sstep3 cmp name (snd (sstep3 cmp name s SFlush)) (S2 (SVis asc target wv b))) =
  fst (sstep3 cmp name s (S2 (SVis asc target wv b))).
Proof.
  intros cmp name s asc target wv b Hrb.
  destruct (flush_ssim cmp name s Hrb) as (FI & FN & HFI & [Hrel Hms]).
  destruct (cs_get name (ss_colls s)) as [t|] eqn:Hg.
  - destruct Hrel as (t' & Hg' & Hfl & Hold).
    rewrite (sstep3_vis_reads cmp name _ t' asc target wv b Hg'), (sstep3_vis_reads cmp name s t asc target wv b Hg).
    destruct (visit_vt_sim (ss_size s) FI FN cmp asc target wv t t' Hfl Hold b) as (Hts & _ & _).
    exact (proj1 (vreads_sim (ss_size s) FI FN HFI _ _ Hts _ _ Hms)).
  - rewrite (sstep3_no_tree cmp name _ _ Hrel), (sstep3_no_tree cmp name s _ Hg). reflexivity.
Qed.
Print Assumptions visit_after_flush_same_reads.

(* ------------------------------------------------------------------ *)
(* M3: M1 cannot be extended to sequences containing visits.  The state: ex3_file re-opened, then SetItem "c"
   (so the tree has an item without a location, and satisfies the hypothesis of M1 / M2).  After a Flush the visit
   touches the flushed item (in memory, nothing read -- M2) and evicts it, so the Get that follows reads it back at the
   offset the Flush gave it (205); without the Flush the item has no location and is never read. *)

Definition ex4_ops : list sop3 := [S2 (SVis true [] false 10%nat); S2 (S1 (SGet [99%N] true))].

Example visit_after_flush_then_lookup_rereads :
  exists cmp name s asc target wv b k wv',
    (forall t, cs_get name (ss_colls s) = Some t -> rep (ss_file s) t /\ below t (ss_size s)) /\
    srun3 cmp name (snd (sstep3 cmp name s SFlush)) [S2 (SVis asc target wv b); S2 (S1 (SGet k wv'))] <>
    srun3 cmp name s [S2 (SVis asc target wv b); S2 (S1 (SGet k wv'))].
Proof.
  destruct seq3_example_inv as (s0 & Hs0 & Hinv & _).
  exists cmp_bytes, ex3_name, (snd (sstep3 cmp_bytes ex3_name s0 (S2 (S1 (SSet [99%N] [7%N] 5))))),
    true, [], false, 10%nat, [99%N], true.
  vm_compute in Hs0. inversion Hs0; subst s0; clear Hs0. split.
  - match goal with |- forall t, cs_get _ (ss_colls ?s) = _ -> _ => assert (Hinv' : inv3 s) end.
    { apply sstep3_inv; [exact Hinv|vm_compute; reflexivity|exact I|vm_compute; reflexivity]. }
    destruct Hinv' as [_ HF]. intros t Hg.
    destruct (cs_get_Forall (tree_inv3 _ _) ex3_name _ _ HF Hg) as (A & B & _). split; assumption.
  - vm_compute. intro H. discriminate H.
Qed.
Print Assumptions visit_after_flush_then_lookup_rereads.

(* the two runs of the example, explicitly *)
Example visit_after_flush_then_lookup_rereads_values :
  option_map (fun s0 =>
    let s := snd (sstep3 cmp_bytes ex3_name s0 (S2 (S1 (SSet [99%N] [7%N] 5)))) in
    (srun3 cmp_bytes ex3_name (snd (sstep3 cmp_bytes ex3_name s SFlush)) ex4_ops, srun3 cmp_bytes ex3_name s ex4_ops))
    (seq3_start ex3_file) =
  Some ([[Rd 0 16; Rd 16 1]; [Rd 18 16; Rd 34 1; Rd 205 16; Rd 221 1; Rd 205 16; Rd 221 1; Rd 222 1]],
        [[Rd 0 16; Rd 16 1]; [Rd 18 16; Rd 34 1]]).
Proof. vm_compute. reflexivity. Qed.
Print Assumptions visit_after_flush_then_lookup_rereads_values.
