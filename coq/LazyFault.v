(* LazyFault.v — a key-only lookup when ONE ReadAt call fails (property C07, read side).
   The lookup performs the touches of LazyMut.get_t; a record is in memory only when ALL its ReadAt calls
   succeeded (a node record: one call; an item read key-only: header, then key).  The call whose k-th ReadAt
   (from 0) fails stops there and returns the error; what was completely read stays cached, so the retried call
   reads only the rest.  Executable; attempt and retry are compared call by call with the implementation under
   fault injection. *)
From GK Require Import Base Treap Codec Disk Lazy LazyMut.
From Coq Require Import ZArith List Bool.
Import ListNotations.
Open Scope Z_scope.

Definition toff (x : touch) : Z := match x with TN p => poff p | TI q _ => poff q end.
Definition treads (x : touch) : list rd :=
  match x with TN p => node_reads p | TI q it => item_reads q it false end.

(* the ReadAt calls issued (the failing one included), the records in memory afterwards, whether the fault fired *)
Fixpoint run_fault (k : nat) (s : list Z) (ts : list touch) : list rd * list Z * bool :=
  match ts with
  | [] => ([], s, false)
  | x :: r =>
    if seen (toff x) s then run_fault k s r else
    let rs := treads x in
    if (k <? length rs)%nat then (firstn (S k) rs, s, true)
    else let '(rr, s', f) := run_fault (k - length rs) (toff x :: s) r in (rs ++ rr, s', f)
  end.

(* GetItem(key, false) on a store just opened, failing at its k-th ReadAt, then called again *)
Definition get_fault_reads (cmp : bytes -> bytes -> comparison) (t : tree) (key : bytes) (k : nat)
  : list rd * list rd * bool :=
  let ts := get_t cmp t key in
  let '(attempt, s', failed) := run_fault k [] ts in
  (attempt, reads_of s' ts, failed).

Definition get_fault_file (cmp : bytes -> bytes -> comparison) (f : file) (l : option ploc) (b : Z)
           (key : bytes) (k : nat) : option (list rd * list rd * bool) :=
  match load (S (length f)) f l b (S (length f)) with
  | Some (t, _) => Some (get_fault_reads cmp t key k)
  | None => None
  end.
