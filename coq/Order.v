(* Order.v — the four comparators of Base.v satisfy cmp_laws. *)
From GK Require Import Base.

(* ---------- cmp_bytes ---------- *)
Lemma cmp_bytes_refl : forall a, cmp_bytes a a = Eq.
Proof.
  induction a as [|x xs IH]; cbn; [reflexivity|].
  rewrite N.compare_refl. exact IH.
Qed.

Lemma cmp_bytes_opp : forall a b, cmp_bytes b a = CompOpp (cmp_bytes a b).
Proof.
  induction a as [|x xs IH]; destruct b as [|y ys]; cbn; try reflexivity.
  rewrite (N.compare_antisym x y).
  destruct (x ?= y)%N; cbn; auto.
Qed.

Lemma cmp_bytes_eq : forall a b, cmp_bytes a b = Eq -> a = b.
Proof.
  induction a as [|x xs IH]; destruct b as [|y ys]; cbn; try discriminate; auto.
  destruct (x ?= y)%N eqn:E; try discriminate.
  intro H. apply N.compare_eq_iff in E. subst y. f_equal. auto.
Qed.

Lemma cmp_bytes_lt_trans : forall a b c,
  cmp_bytes a b = Lt -> cmp_bytes b c = Lt -> cmp_bytes a c = Lt.
Proof.
  induction a as [|x xs IH]; intros [|y ys] [|z zs]; cbn; try discriminate; auto.
  intros H1 H2.
  destruct (N.compare_spec x y) as [E1|E1|E1]; try discriminate;
  destruct (N.compare_spec y z) as [E2|E2|E2]; try discriminate.
  - assert ((x ?= z)%N = Eq) as -> by (apply N.compare_eq_iff; congruence).
    eapply IH; eauto.
  - assert ((x ?= z)%N = Lt) as -> by (apply N.compare_lt_iff; lia). reflexivity.
  - assert ((x ?= z)%N = Lt) as -> by (apply N.compare_lt_iff; lia). reflexivity.
  - assert ((x ?= z)%N = Lt) as -> by (apply N.compare_lt_iff; lia). reflexivity.
Qed.

Lemma cmp_bytes_eq_l : forall a b c, cmp_bytes a b = Eq -> cmp_bytes a c = cmp_bytes b c.
Proof. intros a b c H. apply cmp_bytes_eq in H. subst. reflexivity. Qed.

Theorem cmp_bytes_laws : cmp_laws cmp_bytes.
Proof.
  constructor.
  - exact cmp_bytes_refl.
  - exact cmp_bytes_opp.
  - exact cmp_bytes_lt_trans.
  - exact cmp_bytes_eq_l.
Qed.

(* ---------- cmp_rev ---------- *)
Theorem cmp_rev_laws : cmp_laws cmp_rev.
Proof.
  constructor; unfold cmp_rev.
  - exact cmp_bytes_refl.
  - intros a b. apply cmp_bytes_opp.
  - intros a b c H1 H2. eapply cmp_bytes_lt_trans; eauto.
  - intros a b c H. apply cmp_bytes_eq in H. subst. reflexivity.
Qed.

(* ---------- cmp_len ---------- *)
Lemma cmp_len_eq : forall a b, cmp_len a b = Eq -> a = b.
Proof.
  unfold cmp_len. intros a b.
  destruct (Nat.compare (length a) (length b)); try discriminate.
  apply cmp_bytes_eq.
Qed.

Theorem cmp_len_laws : cmp_laws cmp_len.
Proof.
  constructor.
  - intro a. unfold cmp_len. rewrite Nat.compare_refl. apply cmp_bytes_refl.
  - intros a b. unfold cmp_len.
    rewrite (Nat.compare_antisym (length a) (length b)).
    destruct (Nat.compare (length a) (length b)); cbn; auto using cmp_bytes_opp.
  - intros a b c. unfold cmp_len.
    destruct (Nat.compare_spec (length a) (length b)) as [E1|E1|E1]; try discriminate;
    destruct (Nat.compare_spec (length b) (length c)) as [E2|E2|E2]; try discriminate;
    intros H1 H2;
    destruct (Nat.compare_spec (length a) (length c)) as [E3|E3|E3];
    try lia; try reflexivity.
    eapply cmp_bytes_lt_trans; eauto.
  - intros a b c H. apply cmp_len_eq in H. subst. reflexivity.
Qed.

(* ---------- cmp_fold ---------- *)
Theorem cmp_fold_laws : cmp_laws cmp_fold.
Proof.
  constructor; unfold cmp_fold.
  - intro a. apply cmp_bytes_refl.
  - intros a b. apply cmp_bytes_opp.
  - intros a b c. apply cmp_bytes_lt_trans.
  - intros a b c H. apply cmp_bytes_eq in H. rewrite H. reflexivity.
Qed.

(* ---------- cmp_of ---------- *)
Theorem cmp_of_laws : forall id, cmp_laws (cmp_of id).
Proof.
  intros [|[|[|[|n]]]]; cbn [cmp_of].
  - exact cmp_bytes_laws.
  - exact cmp_rev_laws.
  - exact cmp_len_laws.
  - exact cmp_fold_laws.
  - exact cmp_bytes_laws.
Qed.
