(* CopyTo.v — property C11: Store.CopyTo produces an equivalent copy.
   CopyTo visits the source collection in ascending key order and SetItem's
   every item (with its own priority) into an empty destination collection. *)
From GK Require Import Base Treap TreapSpec.

(* the model of CopyTo: insert the items of [src], in ascending order, into E *)
Definition copy_tree (cmp : bytes -> bytes -> comparison) (src : tree) : tree :=
  fold_left (fun t it => insert cmp t it) (elems src) E.

(* an option-monad left fold, for the variant that goes through SetItem's validation *)
Fixpoint fold_opt {A B : Type} (f : A -> B -> option A) (l : list B) (a : A) : option A :=
  match l with
  | [] => Some a
  | x :: xs => match f a x with Some a' => fold_opt f xs a' | None => None end
  end.

Definition set_item_of (cmp : bytes -> bytes -> comparison) (t : tree) (it : item) : option tree :=
  set_item cmp t (ikey it) (Some (ival it)) (iprio it).

Definition copy_tree_set (cmp : bytes -> bytes -> comparison) (src : tree) : option tree :=
  fold_opt (set_item_of cmp) (elems src) E.

Definition item_valid (it : item) : Prop :=
  valid_item (ikey it) (Some (ival it)) (iprio it) = true.

Section Copy.
Variable cmp : bytes -> bytes -> comparison.
Hypothesis laws : cmp_laws cmp.

(* A1: inserting a key greater than all keys appends *)
Lemma ins_append : forall l it, sorted cmp (l ++ [it]) -> ins cmp it l = l ++ [it].
Proof.
  intros l it H. apply (sorted_app cmp laws) in H. destruct H as (_ & _ & Hlt & _).
  rewrite <- (app_nil_r l) at 1. rewrite (ins_app cmp laws) by exact Hlt. reflexivity.
Qed.

Lemma find_all_lt : forall k l, all_lt cmp l k -> find cmp k l = None.
Proof.
  intros k l H. rewrite <- (app_nil_r l). rewrite (find_app cmp laws) by exact H. reflexivity.
Qed.

(* the fold, from any accumulator whose keys are all below the keys still to come *)
Lemma fold_insert_gen : forall l t,
  bst cmp t -> sorted cmp (elems t ++ l) ->
  let t' := fold_left (fun t it => insert cmp t it) l t in
  elems t' = elems t ++ l /\ (heap t -> heap t').
Proof.
  induction l as [|it l IH]; intros t Hb Hs; cbn zeta.
  - cbn. rewrite app_nil_r. auto.
  - cbn [fold_left].
    assert (Hs' : sorted cmp ((elems t ++ [it]) ++ l)).
    { rewrite <- app_assoc. exact Hs. }
    assert (Hlt : all_lt cmp (elems t) (ikey it)).
    { apply (sorted_app cmp laws) in Hs. tauto. }
    assert (He : elems (insert cmp t it) = elems t ++ [it]).
    { rewrite (insert_elems cmp laws) by exact Hb.
      apply ins_append. apply (sorted_app cmp laws).
      apply (sorted_app cmp laws) in Hs. destruct Hs as (H1 & _ & H3 & _).
      repeat split; auto. constructor. }
    specialize (IH (insert cmp t it) (insert_bst cmp laws t it Hb)).
    rewrite He in IH. specialize (IH Hs'). cbn zeta in IH. destruct IH as [IH1 IH2].
    split.
    + rewrite IH1, <- app_assoc. reflexivity.
    + intro Hh. apply IH2. apply (insert_heap cmp laws); auto.
      intros old Hf. rewrite (find_all_lt _ _ Hlt) in Hf. discriminate.
Qed.

Lemma fold_insert_bst : forall l t, bst cmp t ->
  bst cmp (fold_left (fun t it => insert cmp t it) l t).
Proof.
  induction l as [|it l IH]; intros t Hb; cbn; auto.
  apply IH. apply (insert_bst cmp laws). exact Hb.
Qed.

Lemma fold_insert_aggs : forall l t, aggs t ->
  aggs (fold_left (fun t it => insert cmp t it) l t).
Proof.
  induction l as [|it l IH]; intros t Ha; cbn; auto.
  apply IH. apply (insert_aggs cmp). exact Ha.
Qed.

(* A2 *)
Theorem copy_elems : forall src, bst cmp src -> elems (copy_tree cmp src) = elems src.
Proof.
  intros src Hb. unfold copy_tree.
  destruct (fold_insert_gen (elems src) E) as [H _].
  - exact I.
  - cbn. apply (bst_sorted cmp laws). exact Hb.
  - exact H.
Qed.

(* A3: no hypothesis on src is needed *)
Theorem copy_bst : forall src, bst cmp (copy_tree cmp src).
Proof. intro src. apply fold_insert_bst. exact I. Qed.

Theorem copy_aggs : forall src, aggs (copy_tree cmp src).
Proof. intro src. apply fold_insert_aggs. exact I. Qed.

(* A4: the keys are inserted in strictly ascending order, so no insertion
   overwrites anything; [bst cmp src] is what gives the ascending order. *)
Theorem copy_heap : forall src, bst cmp src -> heap (copy_tree cmp src).
Proof.
  intros src Hb. unfold copy_tree.
  destruct (fold_insert_gen (elems src) E) as [_ H].
  - exact I.
  - cbn. apply (bst_sorted cmp laws). exact Hb.
  - apply H. exact I.
Qed.

(* A5 *)
Theorem copy_shape : forall src, bst cmp src -> heap src ->
  NoDup (map iprio (elems src)) -> shape_of (copy_tree cmp src) = shape_of src.
Proof.
  intros src Hb Hh Hnd. apply (treap_unique cmp); auto.
  - apply copy_bst.
  - apply copy_heap; exact Hb.
  - apply copy_elems; exact Hb.
  - rewrite copy_elems by exact Hb. exact Hnd.
Qed.

(* A6 *)
Theorem copy_totals : forall src, bst cmp src ->
  totals (copy_tree cmp src) = (Z.of_nat (length (elems src)), sum_bytes (elems src)).
Proof.
  intros src Hb. rewrite (totals_exact _ (copy_aggs src)).
  rewrite copy_elems by exact Hb. reflexivity.
Qed.

(* the variant through SetItem's validation *)
Lemma set_item_of_spec : forall t it, item_valid it ->
  set_item_of cmp t it = Some (insert cmp t it).
Proof.
  intros t it Hv. unfold set_item_of. rewrite (set_item_spec cmp) by exact Hv.
  destruct it; reflexivity.
Qed.

Lemma fold_opt_set_item : forall l t, Forall item_valid l ->
  fold_opt (set_item_of cmp) l t = Some (fold_left (fun t it => insert cmp t it) l t).
Proof.
  induction l as [|it l IH]; intros t Hv; cbn [fold_opt fold_left]; [reflexivity|].
  inversion Hv; subst. rewrite set_item_of_spec by assumption. apply IH. assumption.
Qed.

Theorem copy_via_set_item : forall src, Forall item_valid (elems src) ->
  copy_tree_set cmp src = Some (copy_tree cmp src).
Proof. intros src Hv. apply fold_opt_set_item. exact Hv. Qed.

(* conversely, one invalid item makes the SetItem fold fail (CopyTo returns the error) *)
Theorem copy_via_set_item_invalid : forall src,
  ~ Forall item_valid (elems src) -> copy_tree_set cmp src = None.
Proof.
  intros src. unfold copy_tree_set. generalize E.
  induction (elems src) as [|it l IH]; intros t Hn.
  - exfalso. apply Hn. constructor.
  - cbn [fold_opt]. destruct (valid_item (ikey it) (Some (ival it)) (iprio it)) eqn:Ev.
    + rewrite set_item_of_spec by exact Ev. apply IH. intro Hl. apply Hn. constructor; assumption.
    + unfold set_item_of. rewrite (set_item_invalid cmp) by exact Ev. reflexivity.
Qed.

(* everything together *)
Theorem copy_equivalent : forall src, bst cmp src ->
  let dst := copy_tree cmp src in
  elems dst = elems src /\ bst cmp dst /\ aggs dst /\ heap dst /\
  totals dst = (Z.of_nat (length (elems src)), sum_bytes (elems src)) /\
  (forall k, lookup cmp dst k = lookup cmp src k).
Proof.
  intros src Hb dst. subst dst.
  repeat split; auto using copy_elems, copy_bst, copy_aggs, copy_heap, copy_totals.
  intro k. rewrite !(lookup_spec cmp laws) by auto using copy_bst.
  rewrite copy_elems by exact Hb. reflexivity.
Qed.

End Copy.
