(* Extract.v — extraction of the executable models (ExtrOcamlBasic only). *)
From GK Require Import Base Treap Store MStore Codec Disk Lazy LazyMut LazyFault LazySeq LazySeq2 LazySeq3 Blocks DStore DStoreRefine DiskFault DFaultRun DFaultRefine CopyRun.
Require Extraction.
Require Import ExtrOcamlBasic.
Extraction Language OCaml.
Extraction "model.ml" Store.run Store.init Store.step Base.cmp_of Treap.elems
  Disk.decode_store Disk.conforms_v4 Disk.contents Codec.root_at Disk.scan Disk.flush_bytes Disk.revert_bytes Treap.num Treap.nby
  Lazy.get_reads Lazy.minmax_reads Lazy.visit_reads Lazy.open_reads LazyMut.mut_reads_file LazyFault.get_fault_file LazySeq.seq_reads_file LazySeq2.seq2_reads_file LazySeq3.seq3_reads_file Base.blen
  MStore.mrun MStore.minit
  CopyRun.copy_result DFaultRun.dfrun DFaultRefine.fhist_okb DStore.drun DStore.dfiles DStore.dinit DStoreRefine.dhist_ok
  Blocks.block_visit Blocks.random_visit Blocks.len_visit Blocks.determine_blocks.
