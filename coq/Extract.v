(* Extract.v — extraction of the executable models (ExtrOcamlBasic only). *)
From GK Require Import Base Treap Store.
Require Extraction.
Require Import ExtrOcamlBasic.
Extraction Language OCaml.
Extraction "model.ml" Store.run Store.init Store.step Base.cmp_of Treap.elems.
