(* DecPublish.v — part of the decision theorems (see DecBase.v): each file serves a few properties, so that a change of
   the source breaks only the theorems -- and the properties -- it concerns. *)
From GK Require Import Base Treap Codec Blocks GExpr Generated DecBase.
From Coq Require Import ZArith NArith List String Bool Lia.
Import ListNotations.
Open Scope string_scope.
Open Scope list_scope.
Open Scope Z_scope.

Local Arguments Z.gtb : simpl never.
Local Arguments Z.ltb : simpl never.
Local Arguments Z.leb : simpl never.
Local Arguments Z.geb : simpl never.
Local Arguments Z.eqb : simpl never.
Local Arguments Z.quot : simpl never.
Local Arguments Z.rem : simpl never.
Local Arguments Z.add : simpl never.
Local Arguments Z.sub : simpl never.
Local Arguments Z.of_nat : simpl never.

(* SetItem / Delete publish only through rootCAS after the whole rebuild, and restore the marks when it failed *)
Theorem mutation_publish_order :
  before "t.rootAddRef" "t.store.union" (call_list "Collection.SetItem") = true /\
  before "t.store.union" "t.unmarkReclaimable" (call_list "Collection.SetItem") = true /\
  before "t.store.union" "t.rootCAS" (call_list "Collection.SetItem") = true /\
  before "t.rootAddRef" "t.store.split" (call_list "Collection.Delete") = true /\
  before "t.store.split" "t.store.join" (call_list "Collection.Delete") = true /\
  before "t.store.join" "t.rootCAS" (call_list "Collection.Delete") = true /\
  count_occ string_dec (call_list "Collection.Delete") "t.unmarkReclaimable" = 2%nat /\
  count_occ string_dec (call_list "Collection.SetItem") "t.rootCAS" = 1%nat /\
  count_occ string_dec (call_list "Collection.Delete") "t.rootCAS" = 1%nat.
Proof. repeat split; vm_compute; reflexivity. Qed.

