(* CodecProofs.v — Part I: round trips of the codecs of Codec.v. *)
From GK Require Import Base Treap Codec.
From Coq Require Import Lia ZArith NArith List Bool.
Import ListNotations.
Open Scope Z_scope.

(* ------------------------------------------------------------------ *)
(* constants *)
Lemma two32_eq : two32 = 4294967296. Proof. reflexivity. Qed.
Lemma two31_eq : two31 = 2147483648. Proof. reflexivity. Qed.
Lemma two63_eq : two63 = 9223372036854775808. Proof. reflexivity. Qed.
Lemma pow256_4 : 256 ^ Z.of_nat 4 = 4294967296. Proof. reflexivity. Qed.
Lemma pow256_8 : 256 ^ Z.of_nat 8 = 18446744073709551616. Proof. reflexivity. Qed.

(* ------------------------------------------------------------------ *)
(* generic list facts *)
Lemma skipn_skipn' {A} : forall (a b : nat) (l : list A), skipn a (skipn b l) = skipn (b + a) l.
Proof.
  intros a b; revert a. induction b as [|b IH]; intros a l; [reflexivity|].
  destruct l as [|x l]; [now rewrite !skipn_nil|]. simpl. apply IH.
Qed.

Lemma blen_app a b : blen (a ++ b) = blen a + blen b.
Proof. unfold blen. rewrite app_length. lia. Qed.

Lemma blen_nonneg b : 0 <= blen b.
Proof. unfold blen. lia. Qed.

Lemma blen_nil : blen [] = 0. Proof. reflexivity. Qed.
Lemma blen_cons x b : blen (x :: b) = 1 + blen b.
Proof. unfold blen. simpl length. lia. Qed.

Lemma blen_0_nil b : blen b = 0 -> b = [].
Proof. unfold blen. destruct b; simpl; [reflexivity|lia]. Qed.

Lemma byte_ok_app a b : byte_ok (a ++ b) = byte_ok a && byte_ok b.
Proof. induction a as [|x a IH]; simpl; [reflexivity|]. rewrite IH. now rewrite andb_assoc. Qed.

(* ---------- sub ---------- *)
Lemma sub_length b off len : (off + len <= length b)%nat -> length (sub b off len) = len.
Proof. intros H. unfold sub. rewrite firstn_length, skipn_length. lia. Qed.

Lemma sub_app_l a x off len : (off + len <= length a)%nat -> sub (a ++ x) off len = sub a off len.
Proof.
  intros H. unfold sub. rewrite skipn_app.
  replace (off - length a)%nat with 0%nat by lia. simpl skipn at 2.
  rewrite firstn_app, skipn_length.
  replace (len - (length a - off))%nat with 0%nat by lia. simpl. apply app_nil_r.
Qed.

Lemma sub_app_r a x k n : sub (a ++ x) (length a + k) n = sub x k n.
Proof.
  unfold sub. rewrite skipn_app. rewrite skipn_all2 by lia.
  replace (length a + k - length a)%nat with k by lia. reflexivity.
Qed.

Lemma sub_app_r0 a x n : sub (a ++ x) (length a) n = sub x 0 n.
Proof. rewrite <- (sub_app_r a x 0 n). f_equal. lia. Qed.

Lemma sub_all a : sub a 0 (length a) = a.
Proof. unfold sub. simpl. apply firstn_all. Qed.

Lemma sub_app_exact a x : sub (a ++ x) 0 (length a) = a.
Proof. rewrite sub_app_l by lia. apply sub_all. Qed.

Lemma sub_sub b o len o' len' : (o' + len' <= len)%nat ->
  sub (sub b o len) o' len' = sub b (o + o') len'.
Proof.
  intros H. unfold sub. rewrite skipn_firstn_comm, firstn_firstn, skipn_skipn'.
  f_equal. lia.
Qed.

Lemma sub_0 b o : sub b o 0 = [].
Proof. reflexivity. Qed.

(* ------------------------------------------------------------------ *)
(* I.1 big-endian integers *)
Lemma be_length n z : length (be n z) = n.
Proof.
  revert z. induction n as [|n IH]; intros z; simpl; [reflexivity|].
  rewrite app_length, IH. simpl. lia.
Qed.

Lemma blen_be n z : blen (be n z) = Z.of_nat n.
Proof. unfold blen. now rewrite be_length. Qed.

Lemma be_byte_ok n z : 0 <= z -> byte_ok (be n z) = true.
Proof.
  revert z. induction n as [|n IH]; intros z Hz; simpl; [reflexivity|].
  rewrite byte_ok_app, IH by (apply Z.div_pos; lia). simpl.
  rewrite andb_true_r. apply N.ltb_lt.
  assert (0 <= z mod 256 < 256) by (apply Z.mod_pos_bound; lia). lia.
Qed.

Lemma de_acc_app a b acc : de_acc acc (a ++ b) = de_acc (de_acc acc a) b.
Proof. revert acc. induction a as [|x a IH]; intros acc; simpl; [reflexivity|]. apply IH. Qed.

Lemma de_acc_be n : forall z acc, 0 <= z < 256 ^ Z.of_nat n ->
  de_acc acc (be n z) = acc * 256 ^ Z.of_nat n + z.
Proof.
  induction n as [|n IH]; intros z acc Hz.
  - simpl in *. lia.
  - rewrite Nat2Z.inj_succ, Z.pow_succ_r in * by lia.
    cbn [be]. rewrite de_acc_app, IH.
    + cbn [de_acc]. rewrite Z2N.id by (apply Z.mod_pos_bound; lia).
      pose proof (Z.div_mod z 256). lia.
    + split; [apply Z.div_pos; lia|]. apply Z.div_lt_upper_bound; lia.
Qed.

Lemma de_be n z : 0 <= z < 256 ^ Z.of_nat n -> de (be n z) = z.
Proof. intros H. unfold de. rewrite de_acc_be by assumption. lia. Qed.

Lemma de_acc_nonneg b : forall acc, 0 <= acc -> 0 <= de_acc acc b.
Proof. induction b as [|x b IH]; intros acc H; simpl; [assumption|]. apply IH. lia. Qed.

Lemma de_nonneg b : 0 <= de b.
Proof. apply de_acc_nonneg. lia. Qed.

(* ------------------------------------------------------------------ *)
(* I.2 read_at / write_at *)
Lemma read_at_eq f o len : 0 <= o -> 0 <= len -> o + len <= blen f ->
  read_at f o len = Some (sub f (Z.to_nat o) (Z.to_nat len)).
Proof.
  intros Ho Hl H. unfold read_at.
  destruct (len =? 0) eqn:E.
  - apply Z.eqb_eq in E. subst len. reflexivity.
  - replace (0 <=? o) with true by (symmetry; apply Z.leb_le; lia).
    replace (o + len <=? blen f) with true by (symmetry; apply Z.leb_le; lia).
    reflexivity.
Qed.

Lemma read_at_inv f o len b : read_at f o len = Some b ->
  b = sub f (Z.to_nat o) (Z.to_nat len) /\ (len = 0 \/ (0 <= o /\ o + len <= blen f)).
Proof.
  unfold read_at. destruct (len =? 0) eqn:E.
  - apply Z.eqb_eq in E. subst len. intros H; inversion H. split; [reflexivity|now left].
  - destruct (0 <=? o) eqn:E1; [|discriminate]. destruct (o + len <=? blen f) eqn:E2; [|discriminate].
    simpl. intros H; inversion H. apply Z.leb_le in E1, E2. split; [reflexivity|right; lia].
Qed.

Lemma read_at_length f o len b : read_at f o len = Some b -> length b = Z.to_nat len.
Proof.
  intros H. apply read_at_inv in H. destruct H as [-> [->|[H1 H2]]]; [reflexivity|].
  destruct (Z_le_gt_dec len 0).
  - replace (Z.to_nat len) with 0%nat by lia. reflexivity.
  - apply sub_length. unfold blen in H2. lia.
Qed.

Lemma read_at_blen f o len b : read_at f o len = Some b -> 0 <= len -> blen b = len.
Proof. intros H Hl. apply read_at_length in H. unfold blen. lia. Qed.

Lemma read_at_0 f o : read_at f o 0 = Some [].
Proof. reflexivity. Qed.

Lemma read_at_app_l a x o len : 0 <= o -> o + len <= blen a ->
  read_at (a ++ x) o len = read_at a o len.
Proof.
  intros Ho H. destruct (Z_le_gt_dec len 0) as [L|L].
  - unfold read_at. destruct (len =? 0); [reflexivity|].
    replace (0 <=? o) with true by (symmetry; apply Z.leb_le; lia).
    replace (o + len <=? blen (a ++ x)) with true
      by (symmetry; apply Z.leb_le; rewrite blen_app; pose proof (blen_nonneg x); lia).
    replace (o + len <=? blen a) with true by (symmetry; apply Z.leb_le; lia).
    replace (Z.to_nat len) with 0%nat by lia. reflexivity.
  - rewrite !read_at_eq; try lia.
    + f_equal. apply sub_app_l. unfold blen in H. lia.
    + rewrite blen_app. pose proof (blen_nonneg x). lia.
Qed.

Lemma read_at_firstn f n o len : 0 <= o -> o + len <= Z.of_nat n ->
  read_at (firstn n f) o len = read_at f o len.
Proof.
  intros Ho H. destruct (le_lt_dec (length f) n) as [L|L].
  - now rewrite firstn_all2.
  - rewrite <- (firstn_skipn n f) at 2. symmetry. apply read_at_app_l; [assumption|].
    unfold blen. rewrite firstn_length. lia.
Qed.

Lemma write_at_split f off d : 0 <= off <= blen f ->
  exists a c, write_at f off d = a ++ d ++ c /\ a = firstn (Z.to_nat off) f /\ blen a = off.
Proof.
  intros H. unfold write_at. eexists _, _. split; [reflexivity|]. split; [reflexivity|].
  unfold blen in *. rewrite firstn_length. lia.
Qed.

Lemma blen_write_at f off d : 0 <= off <= blen f ->
  blen (write_at f off d) = Z.max (blen f) (off + blen d).
Proof.
  intros H. unfold write_at, blen in *. rewrite !app_length, firstn_length, skipn_length. lia.
Qed.

Lemma read_at_mid a d c : read_at (a ++ d ++ c) (blen a) (blen d) = Some d.
Proof.
  rewrite read_at_eq; try apply blen_nonneg.
  - f_equal. unfold blen. rewrite !Nat2Z.id. rewrite sub_app_r0. apply sub_app_exact.
  - rewrite !blen_app. pose proof (blen_nonneg c). lia.
Qed.

Lemma read_write_same f off d : 0 <= off <= blen f ->
  read_at (write_at f off d) off (blen d) = Some d.
Proof.
  intros H. destruct (write_at_split f off d H) as (a & c & -> & _ & Ha).
  rewrite <- Ha. apply read_at_mid.
Qed.

Lemma read_write_below f off d o len : 0 <= off <= blen f -> 0 <= o -> o + len <= off ->
  read_at (write_at f off d) o len = read_at f o len.
Proof.
  intros H Ho Hl. destruct (write_at_split f off d H) as (a & c & -> & Ha & Hb).
  rewrite read_at_app_l by lia. subst a. apply read_at_firstn; lia.
Qed.

Lemma read_sub f o len b o' len' : read_at f o len = Some b -> 0 <= o' -> o' + len' <= len -> 0 <= len' ->
  read_at f (o + o') len' = Some (sub b (Z.to_nat o') (Z.to_nat len')).
Proof.
  intros H Ho' Hl Hl'. destruct (Z.eq_dec len' 0) as [->|N]; [reflexivity|].
  apply read_at_inv in H. destruct H as [-> [->|[H1 H2]]]; [lia|].
  rewrite read_at_eq by lia. f_equal. rewrite sub_sub by lia. f_equal. lia.
Qed.

(* ------------------------------------------------------------------ *)
(* lists of known length are explicit *)
Lemma len4 (l : bytes) : length l = 4%nat -> exists a b c d, l = [a; b; c; d].
Proof. destruct l as [|a [|b [|c [|d [|e l]]]]]; try discriminate. eauto. Qed.
Lemma len8 (l : bytes) : length l = 8%nat -> exists a b c d e f g h, l = [a; b; c; d; e; f; g; h].
Proof.
  destruct l as [|a [|b [|c [|d [|e [|f [|g [|h [|i l]]]]]]]]]; try discriminate.
  intros _. now exists a, b, c, d, e, f, g, h.
Qed.

Ltac expl4 x z :=
  let H := fresh in let E := fresh "E" in
  pose proof (be_length 4 z) as H; remember (be 4 z) as x eqn:E;
  apply len4 in H; destruct H as (? & ? & ? & ? & H); rewrite H in *; clear H.
Ltac expl8 x z :=
  let H := fresh in let E := fresh "E" in
  pose proof (be_length 8 z) as H; remember (be 8 z) as x eqn:E;
  apply len8 in H; destruct H as (? & ? & ? & ? & ? & ? & ? & ? & H); rewrite H in *; clear H.

(* ------------------------------------------------------------------ *)
(* I.3 items *)
Definition item_ok (it : item) : Prop :=
  byte_ok (ikey it) = true /\ byte_ok (ival it) = true /\
  item_loc_len it < two32 /\ - two31 <= iprio it < two31.

Lemma hdr_fields a b c d :
  let h := be 4 a ++ be 4 b ++ be 4 c ++ be 4 d in
  sub h 0 4 = be 4 a /\ sub h 4 4 = be 4 b /\ sub h 8 4 = be 4 c /\ sub h 12 4 = be 4 d.
Proof.
  expl4 x a. expl4 y b. expl4 z c. expl4 w d. cbv zeta. repeat split; reflexivity.
Qed.

Lemma enc_item_hdr_length it : length (enc_item_hdr it) = 16%nat.
Proof. unfold enc_item_hdr. rewrite !app_length, !be_length. reflexivity. Qed.

Lemma item_loc_len_eq it : item_loc_len it = 16 + blen (ikey it) + blen (ival it).
Proof. reflexivity. Qed.

Lemma blen_enc_item it : blen (enc_item it) = item_loc_len it.
Proof.
  unfold enc_item. rewrite !blen_app. unfold blen at 1. rewrite enc_item_hdr_length.
  rewrite item_loc_len_eq. lia.
Qed.

Lemma item_loc_len_ge it : 16 <= item_loc_len it.
Proof. rewrite item_loc_len_eq. pose proof (blen_nonneg (ikey it)). pose proof (blen_nonneg (ival it)). lia. Qed.

Lemma prio_signed p : - two31 <= p < two31 ->
  (if p mod two32 <? two31 then p mod two32 else p mod two32 - two32) = p.
Proof.
  rewrite two31_eq, two32_eq. intros H.
  destruct (Z_lt_ge_dec p 0) as [L|L].
  - assert (E : p mod 4294967296 = p + 4294967296).
    { symmetry. apply (Z.mod_unique_pos p 4294967296 (-1)); lia. }
    rewrite E. destruct (Z.ltb_spec (p + 4294967296) 2147483648); lia.
  - rewrite Z.mod_small by lia. destruct (Z.ltb_spec p 2147483648); lia.
Qed.

Theorem dec_item_enc f o it : item_ok it -> 0 <= o ->
  read_at f o (item_loc_len it) = Some (enc_item it) ->
  dec_item f (mkPloc o (item_loc_len it)) = Some it.
Proof.
  intros (Hk & Hv & Hlen & Hp) Ho Hr.
  pose proof (item_loc_len_ge it) as Hge.
  pose proof (blen_nonneg (ikey it)) as Hkn. pose proof (blen_nonneg (ival it)) as Hvn.
  pose proof (item_loc_len_eq it) as Hll.
  unfold dec_item. cbn [plen poff].
  change item_hdr_len with 16.
  replace (item_loc_len it <? 16) with false by (symmetry; apply Z.ltb_ge; lia).
  (* header *)
  assert (Hh : read_at f o 16 = Some (enc_item_hdr it)).
  { pose proof (read_sub _ _ _ _ 0 16 Hr) as H. rewrite Z.add_0_r in H. rewrite H by lia.
    reflexivity. }
  rewrite Hh.
  destruct (hdr_fields (item_hdr_len + blen (ikey it) + blen (ival it)) (blen (ikey it))
              (blen (ival it)) (iprio it mod two32)) as (F1 & F2 & F3 & F4).
  cbv zeta in F1, F2, F3, F4. unfold enc_item_hdr. rewrite F1, F2, F3, F4.
  change item_hdr_len with 16.
  assert (Hm : 0 <= iprio it mod two32 < two32) by (apply Z.mod_pos_bound; rewrite two32_eq; lia).
  rewrite (de_be 4 (iprio it mod two32)) by (rewrite pow256_4, <- two32_eq; exact Hm).
  rewrite two32_eq in Hlen, Hm.
  rewrite !de_be by (rewrite pow256_4; lia).
  rewrite two32_eq at 1. rewrite Z.mod_small by lia. rewrite Z.eqb_refl. cbn [negb].
  (* key *)
  assert (Hrk : read_at f (o + 16) (blen (ikey it)) = Some (ikey it)).
  { rewrite (read_sub _ _ _ _ 16 (blen (ikey it)) Hr) by lia. f_equal.
    change (Z.to_nat 16) with 16%nat. unfold blen. rewrite Nat2Z.id.
    unfold enc_item. rewrite <- (enc_item_hdr_length it). rewrite sub_app_r0. apply sub_app_exact. }
  rewrite Hrk.
  assert (Hrv : read_at f (o + 16 + blen (ikey it)) (blen (ival it)) = Some (ival it)).
  { rewrite <- Z.add_assoc. rewrite (read_sub _ _ _ _ (16 + blen (ikey it)) (blen (ival it)) Hr) by lia.
    f_equal. unfold enc_item. rewrite app_assoc.
    replace (Z.to_nat (16 + blen (ikey it))) with (length (enc_item_hdr it ++ ikey it))
      by (rewrite app_length, enc_item_hdr_length; unfold blen; lia).
    rewrite sub_app_r0. unfold blen. rewrite Nat2Z.id. apply sub_all. }
  rewrite Hrv. rewrite prio_signed by assumption. now destruct it.
Qed.

(* ------------------------------------------------------------------ *)
(* I.4 plocs and nodes *)
Definition ploc_ok (p : ploc) : Prop :=
  0 <= poff p < two63 /\ 0 <= plen p < two32 /\ ~ (poff p = 0 /\ plen p = 0).
Definition oploc_ok (o : option ploc) : Prop :=
  match o with Some p => ploc_ok p | None => True end.

Lemma sub_mid pre x post k n : length pre = k -> length x = n -> sub (pre ++ x ++ post) k n = x.
Proof. intros <- <-. rewrite sub_app_r0. apply sub_app_exact. Qed.

Lemma sub_pre x post n : length x = n -> sub (x ++ post) 0 n = x.
Proof. intros <-. apply sub_app_exact. Qed.

Lemma sub_post pre x k n : length pre = k -> length x = n -> sub (pre ++ x) k n = x.
Proof. intros <- <-. rewrite sub_app_r0. apply sub_all. Qed.

Lemma enc_ploc_length p : length (enc_ploc p) = 12%nat.
Proof. destruct p; unfold enc_ploc; rewrite app_length, !be_length; reflexivity. Qed.

Lemma dec_ploc_enc p : oploc_ok p -> dec_ploc (enc_ploc p) = p.
Proof.
  intros H. unfold dec_ploc, enc_ploc. destruct p as [[o l]|].
  - destruct H as (Ho & Hl & Hn). cbn [poff plen] in *. rewrite two63_eq in Ho. rewrite two32_eq in Hl.
    rewrite (sub_pre (be 8 o) (be 4 l) 8) by apply be_length.
    rewrite (sub_post (be 8 o) (be 4 l) 8 4) by apply be_length.
    rewrite !de_be by (rewrite ?pow256_4, ?pow256_8; lia).
    destruct (Z.eqb_spec o 0); destruct (Z.eqb_spec l 0); simpl; try reflexivity. exfalso; tauto.
  - rewrite (sub_pre (be 8 0) (be 4 0) 8) by apply be_length.
    rewrite (sub_post (be 8 0) (be 4 0) 8 4) by apply be_length.
    reflexivity.
Qed.

Lemma node_fields p1 p2 p3 a b :
  length p1 = 12%nat -> length p2 = 12%nat -> length p3 = 12%nat -> length a = 8%nat -> length b = 8%nat ->
  let n := p1 ++ p2 ++ p3 ++ a ++ b in
  sub n 0 12 = p1 /\ sub n 12 12 = p2 /\ sub n 24 12 = p3 /\ sub n 36 8 = a /\ sub n 44 8 = b.
Proof.
  intros H1 H2 H3 Ha Hb n. subst n. repeat split.
  - now apply sub_pre.
  - now apply sub_mid.
  - replace (p1 ++ p2 ++ p3 ++ a ++ b) with ((p1 ++ p2) ++ p3 ++ a ++ b) by (now rewrite <- !app_assoc).
    apply sub_mid; [rewrite app_length; lia|assumption].
  - replace (p1 ++ p2 ++ p3 ++ a ++ b) with ((p1 ++ p2 ++ p3) ++ a ++ b) by (now rewrite <- !app_assoc).
    apply sub_mid; [rewrite !app_length; lia|assumption].
  - replace (p1 ++ p2 ++ p3 ++ a ++ b) with ((p1 ++ p2 ++ p3 ++ a) ++ b) by (now rewrite <- !app_assoc).
    apply sub_post; [rewrite !app_length; lia|assumption].
Qed.

Lemma enc_node_length il ll rl nn nb : length (enc_node il ll rl nn nb) = 52%nat.
Proof. unfold enc_node. rewrite !app_length, !enc_ploc_length, !be_length. reflexivity. Qed.

Lemma blen_enc_node il ll rl nn nb : blen (enc_node il ll rl nn nb) = node_len.
Proof. unfold blen. rewrite enc_node_length. reflexivity. Qed.

Theorem dec_node_enc f o il ll rl nn nb :
  oploc_ok il -> oploc_ok ll -> oploc_ok rl -> 0 <= nn < 2 ^ 64 -> 0 <= nb < 2 ^ 64 -> 0 <= o ->
  read_at f o node_len = Some (enc_node il ll rl nn nb) ->
  dec_node f (mkPloc o node_len) = Some (mkNodeRec il ll rl nn nb).
Proof.
  intros Hil Hll Hrl Hnn Hnb Ho Hr. unfold dec_node. cbn [plen poff].
  rewrite Z.eqb_refl. cbn [negb]. rewrite Hr.
  destruct (node_fields (enc_ploc il) (enc_ploc ll) (enc_ploc rl) (be 8 nn) (be 8 nb))
    as (F1 & F2 & F3 & F4 & F5); try apply enc_ploc_length; try apply be_length.
  unfold enc_node. rewrite F1, F2, F3, F4, F5.
  rewrite !dec_ploc_enc by assumption.
  change (2 ^ 64) with 18446744073709551616 in *.
  rewrite !de_be by (rewrite pow256_8; lia). reflexivity.
Qed.

(* ------------------------------------------------------------------ *)
(* I.5 JSON *)
Definition name_ok (n : bytes) : Prop := Forall (fun c => (c < 128)%N) n.

(* CHANGED w.r.t. STATEMENTS.md: the offsets and lengths must be below 10^40,
   because [decimal] emits at most 40 digits.  Counterexample without the bound:
     dec_json (enc_json [([97], Some (mkPloc (10^40) 1))]) = None   (vm_compute). *)
Definition entry_ok (e : bytes * option ploc) : Prop :=
  let '(n, p) := e in
  name_ok n /\
  match p with
  | Some q => 0 <= poff q < 10 ^ 40 /\ 0 <= plen q < 10 ^ 40 /\ ~ (poff q = 0 /\ plen q = 0)
  | None => True
  end.

(* --- strings --- *)
Lemma dec_string_esc_byte c : (c < 128)%N -> forall k rest acc,
  dec_string (S k) (esc_byte c ++ rest) acc = dec_string k rest (c :: acc).
Proof.
  intros H. destruct c as [|p]; [reflexivity|].
  do 7 (try destruct p as [p|p|]); try (exfalso; lia); intros; reflexivity.
Qed.

Lemma esc_byte_length c : (1 <= length (esc_byte c))%nat.
Proof.
  unfold esc_byte.
  repeat match goal with |- context [if ?b then _ else _] => destruct b end; simpl; lia.
Qed.

Lemma esc_string_cons c n : esc_string (c :: n) = esc_byte c ++ esc_string n.
Proof. reflexivity. Qed.

Lemma dec_string_esc n : name_ok n -> forall k rest acc, (length (esc_string n) < k)%nat ->
  dec_string k (esc_string n ++ 34%N :: rest) acc = Some (rev acc ++ n, rest).
Proof.
  induction 1 as [|c n Hc Hn IH]; intros k rest acc Hk.
  - destruct k as [|k]; [inversion Hk|]. simpl. now rewrite app_nil_r.
  - rewrite esc_string_cons in *. rewrite app_length in Hk. pose proof (esc_byte_length c).
    destruct k as [|k]; [inversion Hk|].
    rewrite <- app_assoc, dec_string_esc_byte by assumption.
    rewrite IH by lia. simpl. now rewrite <- app_assoc.
Qed.

(* --- numbers --- *)
Definition is_digit (c : N) : bool := ((48 <=? c) && (c <=? 57))%N.
Definition no_digit_head (b : bytes) : Prop :=
  match b with [] => True | c :: _ => is_digit c = false end.

Fixpoint dna (b : bytes) (acc : Z) (seen : bool) : option (Z * bytes) :=
  match b with
  | c :: rest =>
    if is_digit c then dna rest (acc * 10 + Z.of_N (c - 48)) true
    else if seen then Some (acc, b) else None
  | [] => if seen then Some (acc, []) else None
  end.

Lemma dec_number_acc_dna : forall b fuel acc seen, (length b < fuel)%nat ->
  dec_number_acc fuel b acc seen = dna b acc seen.
Proof.
  induction b as [|c b IH]; intros fuel acc seen H; (destruct fuel as [|fuel]; [inversion H|]).
  - reflexivity.
  - cbn [dec_number_acc dna]. fold (is_digit c). destruct (is_digit c); [|reflexivity].
    apply IH. simpl in H. lia.
Qed.

Lemma dna_stop rest a : no_digit_head rest -> dna rest a true = Some (a, rest).
Proof. destruct rest as [|c r]; simpl; [reflexivity|]. now intros ->. Qed.

Lemma is_digit_48 m : (m < 10)%N -> is_digit (48 + m) = true.
Proof.
  intros H. unfold is_digit. apply andb_true_intro. split; apply N.leb_le; lia.
Qed.

Lemma add48_sub m : (48 + m - 48 = m)%N.
Proof. lia. Qed.

Lemma digits_acc_dna : forall fuel n acc, (n < 10 ^ N.of_nat fuel)%N -> (0 < fuel)%nat ->
  exists d, 0 <= d /\ forall rest a s,
    dna (digits_acc fuel n acc ++ rest) a s = dna (acc ++ rest) (a * 10 ^ d + Z.of_N n) true.
Proof.
  induction fuel as [|k IH]; intros n acc Hn Hf; [inversion Hf|].
  cbn [digits_acc]. destruct (N.ltb_spec n 10) as [L|L].
  - exists 1. split; [lia|]. intros rest a s. cbn [app dna].
    rewrite N.mod_small by assumption. rewrite is_digit_48 by assumption.
    rewrite add48_sub, Z.pow_1_r. reflexivity.
  - assert (Hk : (0 < k)%nat).
    { destruct k; [|lia]. simpl in Hn. lia. }
    assert (Hd : (n / 10 < 10 ^ N.of_nat k)%N).
    { apply N.div_lt_upper_bound; [lia|]. rewrite Nat2N.inj_succ, N.pow_succ_r' in Hn. exact Hn. }
    destruct (IH (n / 10)%N ((48 + n mod 10)%N :: acc) Hd Hk) as (d & Hd0 & Hdna).
    exists (d + 1). split; [lia|]. intros rest a s. rewrite Hdna. cbn [app dna].
    assert (Hm : (n mod 10 < 10)%N) by (apply N.mod_lt; lia).
    rewrite is_digit_48 by assumption.
    rewrite add48_sub.
    f_equal. rewrite Z.pow_add_r, Z.pow_1_r by lia.
    rewrite N2Z.inj_div, N2Z.inj_mod. pose proof (Z.div_mod (Z.of_N n) 10). lia.
Qed.

Lemma digits_acc_head : forall fuel n acc, (0 < n)%N -> (n < 10 ^ N.of_nat fuel)%N ->
  exists c tl, digits_acc fuel n acc = c :: tl /\ c <> 48%N.
Proof.
  induction fuel as [|k IH]; intros n acc H0 Hn.
  - simpl in Hn. lia.
  - cbn [digits_acc]. destruct (N.ltb_spec n 10) as [L|L].
    + eexists _, _. split; [reflexivity|]. rewrite N.mod_small by assumption. lia.
    + apply IH.
      * apply N.div_str_pos. lia.
      * apply N.div_lt_upper_bound; [lia|]. rewrite Nat2N.inj_succ, N.pow_succ_r' in Hn. exact Hn.
Qed.

Lemma dec_number_nz c tl : c <> 48%N ->
  dec_number (c :: tl) = dec_number_acc (S (length (c :: tl))) (c :: tl) 0 false.
Proof.
  intros H. unfold dec_number. destruct c as [|p]; [reflexivity|].
  do 6 (try destruct p as [p|p|]); try reflexivity. exfalso. now apply H.
Qed.

Lemma decimal_0 : decimal 0 = [48%N].
Proof. reflexivity. Qed.

Lemma dec_number_decimal z rest : 0 <= z < 10 ^ 40 -> no_digit_head rest ->
  dec_number (decimal z ++ rest) = Some (z, rest).
Proof.
  intros Hz Hr. destruct (Z.eq_dec z 0) as [->|Nz].
  - rewrite decimal_0. cbn [app]. unfold dec_number. destruct rest as [|c r]; [reflexivity|].
    simpl in Hr. unfold is_digit in Hr. now rewrite Hr.
  - unfold decimal.
    assert (H0 : (0 < Z.to_N z)%N) by lia.
    assert (Hn : (Z.to_N z < 10 ^ N.of_nat 40)%N).
    { change (10 ^ N.of_nat 40)%N with (Z.to_N (10 ^ 40)). apply Z2N.inj_lt; lia. }
    destruct (digits_acc_head 40 (Z.to_N z) [] H0 Hn) as (c & tl & E & Hc).
    destruct (digits_acc_dna 40 (Z.to_N z) [] Hn) as (d & Hd & Hdna); [lia|].
    specialize (Hdna rest 0 false).
    rewrite E in *. cbn [app] in *. rewrite dec_number_nz by assumption.
    rewrite dec_number_acc_dna by lia. rewrite Hdna, dna_stop by assumption.
    rewrite Z2N.id by lia. f_equal.
Qed.

Global Opaque decimal esc_string.

(* --- entries --- *)
Lemma dec_json_entry_gen (S1 D1 D2 : bytes) n o l rest :
  (forall k r acc, (length S1 < k)%nat -> dec_string k (S1 ++ 34%N :: r) acc = Some (rev acc ++ n, r)) ->
  (forall r, no_digit_head r -> dec_number (D1 ++ r) = Some (o, r)) ->
  (forall r, no_digit_head r -> dec_number (D2 ++ r) = Some (l, r)) ->
  dec_json_entry (34%N :: S1 ++ 34%N :: 58%N :: 123%N :: 34%N :: 111%N :: 34%N :: 58%N ::
                  D1 ++ 44%N :: 34%N :: 108%N :: 34%N :: 58%N :: D2 ++ 125%N :: rest)
  = Some (n, (if (o =? 0) && (l =? 0) then None else Some (mkPloc o l)), rest).
Proof.
  intros HS HD1 HD2. unfold dec_json_entry. cbn [expect N.eqb Pos.eqb].
  rewrite HS by (rewrite app_length; simpl; lia). cbn [rev app expect N.eqb Pos.eqb].
  rewrite HD1 by reflexivity. cbn [expect N.eqb Pos.eqb].
  rewrite HD2 by reflexivity. cbn [expect N.eqb Pos.eqb]. reflexivity.
Qed.

Lemma enc_json_entry_eq n p :
  enc_json_entry (n, p) =
  let '(o, l) := match p with Some x => (poff x, plen x) | None => (0, 0) end in
  34%N :: esc_string n ++ 34%N :: 58%N :: 123%N :: 34%N :: 111%N :: 34%N :: 58%N ::
  decimal o ++ 44%N :: 34%N :: 108%N :: 34%N :: 58%N :: decimal l ++ [125%N].
Proof. unfold enc_json_entry. destruct p; reflexivity. Qed.

Lemma dec_json_entry_enc n p rest : entry_ok (n, p) ->
  dec_json_entry (enc_json_entry (n, p) ++ rest) = Some (n, p, rest).
Proof.
  intros (Hn & Hp). rewrite enc_json_entry_eq.
  set (ol := match p with Some x => (poff x, plen x) | None => (0, 0) end).
  assert (Hol : 0 <= fst ol < 10 ^ 40 /\ 0 <= snd ol < 10 ^ 40 /\
                (if (fst ol =? 0) && (snd ol =? 0) then None else Some (mkPloc (fst ol) (snd ol))) = p).
  { subst ol. destruct p as [[o l]|]; cbn [fst snd poff plen] in *.
    - destruct Hp as (Ho & Hl & Hnz). repeat split; try lia.
      destruct (Z.eqb_spec o 0); destruct (Z.eqb_spec l 0); simpl; try reflexivity. exfalso; tauto.
    - repeat split; try lia; reflexivity. }
  destruct ol as [o l]. cbn [fst snd] in Hol. destruct Hol as (Ho & Hl & Hp').
  cbv beta iota zeta.
  repeat (rewrite <- app_assoc || rewrite <- app_comm_cons). cbn [app].
  rewrite (dec_json_entry_gen (esc_string n) (decimal o) (decimal l) n o l rest).
  - now rewrite Hp'.
  - intros. now apply dec_string_esc.
  - intros. now apply dec_number_decimal.
  - intros. now apply dec_number_decimal.
Qed.

Lemma enc_json_entry_head e : exists tl, enc_json_entry e = 34%N :: tl.
Proof. destruct e as [n p]. rewrite enc_json_entry_eq. destruct p; cbv beta iota zeta; eauto. Qed.

Lemma join_comma_cons2 x y l : join_comma (x :: y :: l) = x ++ [44%N] ++ join_comma (y :: l).
Proof. reflexivity. Qed.

Lemma dec_json_entries_enc : forall m k acc, Forall entry_ok m -> m <> [] -> (length m <= k)%nat ->
  dec_json_entries k (join_comma (map enc_json_entry m) ++ [125%N]) acc = Some (rev acc ++ m).
Proof.
  induction m as [|e m IH]; intros k acc Hm Hne Hk; [congruence|].
  inversion Hm as [|? ? He Hm']; subst. destruct e as [n p].
  destruct k as [|k]; [simpl in Hk; lia|].
  destruct m as [|e' m'].
  - cbn [map join_comma dec_json_entries]. rewrite dec_json_entry_enc by assumption.
    cbn [rev]. reflexivity.
  - cbn [map]. rewrite join_comma_cons2. cbn [dec_json_entries].
    rewrite <- !app_assoc. rewrite dec_json_entry_enc by assumption. cbn [app].
    change (enc_json_entry e' :: map enc_json_entry m') with (map enc_json_entry (e' :: m')).
    rewrite IH; [|assumption|discriminate|simpl in *; lia].
    cbn [rev]. now rewrite <- app_assoc.
Qed.

Lemma join_comma_length m : (length m <= length (join_comma (map enc_json_entry m)))%nat.
Proof.
  induction m as [|e m IH]; [simpl; lia|].
  destruct (enc_json_entry_head e) as (tl & E).
  destruct m as [|e' m'].
  - cbn [map join_comma]. rewrite E. simpl. lia.
  - cbn [map]. rewrite join_comma_cons2. cbn [map] in IH. rewrite !app_length. rewrite E. simpl in *. lia.
Qed.

Theorem dec_json_enc m : Forall entry_ok m -> dec_json (enc_json m) = Some m.
Proof.
  intros Hm. unfold enc_json. destruct m as [|e m]; [reflexivity|].
  assert (Hh : exists tl, join_comma (map enc_json_entry (e :: m)) ++ [125%N] = 34%N :: tl).
  { destruct (enc_json_entry_head e) as (tl & E). destruct m as [|e' m'].
    - cbn [map join_comma]. rewrite E. simpl. eauto.
    - cbn [map]. rewrite join_comma_cons2, E. simpl. eauto. }
  destruct Hh as (tl & E). cbn [app]. rewrite E.
  change (dec_json (123%N :: 34%N :: tl)) with (dec_json_entries (S (length (34%N :: tl))) (34%N :: tl) []).
  rewrite <- E. rewrite dec_json_entries_enc; [reflexivity|assumption|discriminate|].
  pose proof (join_comma_length (e :: m)). rewrite app_length. simpl length in *. lia.
Qed.

(* ------------------------------------------------------------------ *)
(* I.6 root records *)
Lemma blen_enc_root m off : blen (enc_root m off) = roots_len + blen (enc_json m).
Proof.
  unfold enc_root. rewrite !blen_app, !blen_be. change (blen magic_beg) with 6.
  change (blen magic_end) with 6. change roots_len with 44. lia.
Qed.

Lemma root_head_fields (v l j : bytes) : length v = 4%nat -> length l = 4%nat ->
  let h := magic_beg ++ magic_beg ++ v ++ l ++ j in
  sub h 0 6 = magic_beg /\ sub h 6 6 = magic_beg /\ sub h 12 4 = v /\ sub h 16 4 = l /\ skipn 20 h = j.
Proof.
  intros Hv Hl. apply len4 in Hv, Hl. destruct Hv as (? & ? & ? & ? & ->). destruct Hl as (? & ? & ? & ? & ->).
  cbv zeta. repeat split; reflexivity.
Qed.

Lemma root_tail_fields (o l : bytes) : length o = 8%nat -> length l = 4%nat ->
  let t := o ++ l ++ magic_end ++ magic_end in
  sub t 0 8 = o /\ sub t 8 4 = l /\ sub t 12 6 = magic_end /\ sub t 18 6 = magic_end.
Proof.
  intros Ho Hl. apply len8 in Ho. apply len4 in Hl.
  destruct Ho as (? & ? & ? & ? & ? & ? & ? & ? & ->). destruct Hl as (? & ? & ? & ? & ->).
  cbv zeta. repeat split; reflexivity.
Qed.

Lemma root_at_gen f size j m :
  dec_json j = Some m -> 0 < blen j -> 0 <= size <= blen f -> size < two63 ->
  roots_len + blen j < two32 ->
  let len := roots_len + blen j in
  let r := magic_beg ++ magic_beg ++ be 4 version ++ be 4 len ++ j ++ be 8 size ++ be 4 len ++
           magic_end ++ magic_end in
  root_at (write_at f size r) (size + blen r) = Some m.
Proof.
  intros Hj Hjl Hs Hs63 Hlen len r.
  set (h := magic_beg ++ magic_beg ++ be 4 version ++ be 4 len ++ j).
  set (t := be 8 size ++ be 4 len ++ magic_end ++ magic_end).
  assert (Er : r = h ++ t) by (subst r h t; now rewrite <- !app_assoc).
  assert (Hbh : blen h = 20 + blen j).
  { subst h. rewrite !blen_app, !blen_be. change (blen magic_beg) with 6. lia. }
  assert (Hbt : blen t = 24).
  { subst t. rewrite !blen_app, !blen_be. change (blen magic_end) with 6. lia. }
  assert (Hbr : blen r = len).
  { rewrite Er, blen_app, Hbh, Hbt. subst len. change roots_len with 44. lia. }
  pose proof (read_write_same f size r Hs) as Hr.
  assert (Hlen' : len = 44 + blen j) by reflexivity.
  change roots_len with 44 in Hlen.
  assert (Hs0 : 0 <= size) by lia.
  clearbody len. clear Hs.
  unfold root_at. rewrite Hbr. change roots_len with 44. change roots_end_len with 24.
  replace (size + len <=? 44) with false by (symmetry; apply Z.leb_gt; lia).
  (* the tail *)
  assert (Ht : read_at (write_at f size r) (size + len - 24) 24 = Some t).
  { replace (size + len - 24) with (size + blen h) by lia.
    rewrite (read_sub _ _ _ _ (blen h) 24 Hr) by lia. f_equal.
    rewrite Er. unfold blen at 1. rewrite Nat2Z.id. rewrite sub_app_r0.
    change (Z.to_nat 24) with 24%nat. replace 24%nat with (length t) by (unfold blen in Hbt; lia).
    apply sub_all. }
  rewrite Ht.
  destruct (root_tail_fields (be 8 size) (be 4 len) (be_length _ _) (be_length _ _)) as (T1 & T2 & T3 & T4).
  fold t in T1, T2, T3, T4. rewrite T1, T2, T3, T4.
  change (beq magic_end magic_end) with true. cbn [andb negb].
  rewrite two63_eq in *. rewrite two32_eq in Hlen.
  rewrite !de_be by (rewrite ?pow256_4, ?pow256_8; lia).
  replace (size <? 9223372036854775808) with true by (symmetry; apply Z.ltb_lt; lia).
  replace (size <? size + len - 44) with true by (symmetry; apply Z.ltb_lt; lia).
  replace (size + len - size) with len by lia.
  rewrite two32_eq. rewrite Z.mod_small by lia. rewrite Z.eqb_refl. cbn [andb negb].
  (* the head *)
  assert (Hh : read_at (write_at f size r) size (len - 24) = Some h).
  { pose proof (read_sub _ _ _ _ 0 (blen h) Hr) as H. rewrite Z.add_0_r in H.
    replace (len - 24) with (blen h) by lia. rewrite H by lia. f_equal.
    rewrite Er. unfold blen. rewrite Nat2Z.id. apply sub_app_exact. }
  rewrite Hh.
  destruct (root_head_fields (be 4 version) (be 4 len) j (be_length _ _) (be_length _ _))
    as (H1 & H2 & H3 & H4 & H5).
  fold h in H1, H2, H3, H4, H5. rewrite H1, H2, H3, H4, H5.
  change (beq magic_beg magic_beg) with true. cbn [andb negb].
  rewrite !de_be by (rewrite ?pow256_4; unfold version; lia).
  rewrite !Z.eqb_refl. cbn [negb]. exact Hj.
Qed.

Lemma blen_enc_json_pos m : 0 < blen (enc_json m).
Proof. unfold enc_json. rewrite !blen_app. cbn [app]. rewrite !blen_cons. pose proof (blen_nonneg (join_comma (map enc_json_entry m))). rewrite blen_nil. lia. Qed.

(* size < two63 suffices ("any convenient bound"). *)
Theorem root_at_enc f size m :
  Forall entry_ok m -> 0 <= size <= blen f -> size < two63 ->
  blen (enc_root m size) < two32 ->
  let r := enc_root m size in root_at (write_at f size r) (size + blen r) = Some m.
Proof.
  intros Hm Hs Hs63 Hl. rewrite blen_enc_root in Hl.
  exact (root_at_gen f size (enc_json m) m (dec_json_enc m Hm) (blen_enc_json_pos m) Hs Hs63 Hl).
Qed.
