(* Generated.v — written by tools/gen from the Go source in /repo on every run. Do not edit. *)
From Coq Require Import ZArith NArith List String.
From GK Require Import GExpr.
Import ListNotations.
Open Scope Z_scope.
Open Scope string_scope.

Definition g_version : Z := 4.
Definition g_ploc_length : Z := 12.
Definition g_item_hdr_length : Z := 16.
Definition g_len_loc : Z := 0.
Definition g_key_loc : Z := 4.
Definition g_val_loc : Z := 8.
Definition g_pri_loc : Z := 12.
Definition g_pri_sz : Z := 16.
Definition g_keyp_size : Z := 4.
Definition g_max_block_cnt : Z := 1024.
Definition g_magic_beg : list N := [48; 103; 49; 116; 50; 114]%N.
Definition g_magic_end : list N := [51; 101; 52; 97; 53; 112]%N.
Definition g_roots_end_len : Z := 24.
Definition g_roots_len : Z := 44.
Definition g_node_enc : list string := ["item:ploc"; "left:ploc"; "right:ploc"; "numNodes:u64be"; "numBytes:u64be"].
Definition g_node_dec : list string := ["item:ploc"; "left:ploc"; "right:ploc"; "numNodes:u64be"; "numBytes:u64be"].
Definition g_ploc_enc : list string := ["Offset:u64be"; "Length:u32be"].
Definition g_item_enc : list string := ["uint32@lenLoc:PutUint32"; "uint16@keyLoc:PutUint16"; "uint32@keyLoc:PutUint32"; "uint32@valLoc:PutUint32"; "uint32@priLoc:PutUint32"].
Definition g_root_enc : list string := ["MagicBeg"; "MagicBeg"; "binary.BigEndian:uint32"; "binary.BigEndian:uint32"; "sJSON"; "binary.BigEndian:int64"; "binary.BigEndian:uint32"; "MagicEnd"; "MagicEnd"].

(* name, callees, callees invoked while a lock is held, writes file, reads file, takes lock,
   calls an (internal) function value, file I/O under lock, calls a StoreCallbacks field,
   calls a user-supplied function (visitor, comparator, block mangler), ... while a lock is held *)
Record gfn := mkGfn { g_name : string; g_calls : list string; g_under : list string; g_writes : bool; g_reads : bool; g_locks : bool; g_dynamic : bool; g_io_under : bool; g_callback : bool; g_user : bool; g_user_under : bool }.
Definition g_funcs : list gfn := [
  mkGfn "<dynamic:func()()>" ["<lit:Collection.AllocStats#1>"; "<lit:Collection.iterate#1>"; "<lit:Store.Flush#1>"; "view.usage"] [] false false false false false false false false;
  mkGfn "<dynamic:func()(string)>" [] [] false false false false false false false false;
  mkGfn "<dynamic:func(*gkvlite.Collection,gkvlite.ItemVisitor)(error)>" ["<lit:Collection.iteratorVisitorAscend#1>"; "<lit:Collection.iteratorVisitorDescend#1>"] [] false false false false false false false false;
  mkGfn "<dynamic:func(*gkvlite.node)(*gkvlite.nodeLoc,bool)>" ["<lit:Collection.EvictSomeItems#1>"; "<lit:Collection.MaxItem#1>"; "<lit:Collection.MinItem#1>"] [] false false false false false false false false;
  mkGfn "<dynamic:func(int,*gkvlite.node)(bool,*gkvlite.nodeLoc,*gkvlite.nodeLoc)>" ["ascendChoice"; "descendChoice"] [] false false false false false false false false;
  mkGfn "<json.Marshal>" ["Collection.MarshalJSON"; "rootNodeLoc.MarshalJSON"] [] false false false false false false false false;
  mkGfn "<json.Unmarshal>" ["Collection.UnmarshalJSON"] [] false false false false false false false false;
  mkGfn "<lit:Collection.AllocStats#1>" [] [] false false false false false false false false;
  mkGfn "<lit:Collection.EvictSomeItems#1>" ["Store.ItemDecRef"; "node.Evict"; "nodeLoc.isEmpty"] [] false false false false false false false false;
  mkGfn "<lit:Collection.Len#1>" [] [] false false false false false false false false;
  mkGfn "<lit:Collection.MaxItem#1>" [] [] false false false false false false false false;
  mkGfn "<lit:Collection.MinItem#1>" [] [] false false false false false false false false;
  mkGfn "<lit:Collection.VisitItemsAscend#1>" [] [] false false false false false false true false;
  mkGfn "<lit:Collection.VisitItemsAscendBlockEx#1>" [] [] false false false false false false false false;
  mkGfn "<lit:Collection.VisitItemsAscendBlockEx#2>" [] [] false false false false false false true false;
  mkGfn "<lit:Collection.VisitItemsAscendEx#1>" [] [] false false false false false false true false;
  mkGfn "<lit:Collection.VisitItemsDescend#1>" [] [] false false false false false false true false;
  mkGfn "<lit:Collection.VisitItemsRandom#1>" [] [] false false false false false false false false;
  mkGfn "<lit:Collection.VisitItemsRandom#2>" [] [] false false false false false false true false;
  mkGfn "<lit:Collection.iterate#1>" [] [] false false false false false false false false;
  mkGfn "<lit:Collection.iterate#2>" [] [] false false false false false false false false;
  mkGfn "<lit:Collection.iteratorVisitorAscend#1>" ["Collection.VisitItemsAscend"] [] false false false false false false false false;
  mkGfn "<lit:Collection.iteratorVisitorDescend#1>" ["Collection.VisitItemsDescend"] [] false false false false false false false false;
  mkGfn "<lit:Store.CopyTo#1>" ["Collection.EvictSomeItems"; "Collection.SetItem"; "Store.Flush"] [] false false false false false false false false;
  mkGfn "<lit:Store.Flush#1>" ["Collection.rootDecRef"] [] false false false false false false false false;
  mkGfn "<lit:Store.visitNodes#1>" ["Store.ItemDecRef"; "node.Evict"] [] false false false false false false false false;
  mkGfn "ByteAble.ToBa" [] [] false false false false false false false false;
  mkGfn "Collection.AllocStats" ["withAllocLocks"] [] false false false false false false false false;
  mkGfn "Collection.Delete" ["Collection.GetItem"; "Collection.freeNodeLoc"; "Collection.markReclaimable"; "Collection.mkRootNodeLoc"; "Collection.reclaimMarkUpdate"; "Collection.rootAddRef"; "Collection.rootCAS"; "Collection.rootDecRef"; "Collection.unmarkReclaimable"; "Store.ItemDecRef"; "Store.join"; "Store.split"; "nodeLoc.isEmpty"] [] false false false false false false false false;
  mkGfn "Collection.DeleteAny" ["Collection.Delete"; "toBa"] [] false false false false false false false false;
  mkGfn "Collection.EvictSomeItems" ["Store.ItemDecRef"; "Store.walk"; "node.Evict"; "nodeLoc.isEmpty"] [] false false false false false false false false;
  mkGfn "Collection.Exist" ["Collection.GetItem"; "Store.ItemDecRef"] [] false false false false false false false false;
  mkGfn "Collection.ExistAny" ["Collection.Exist"; "toBa"] [] false false false false false false false false;
  mkGfn "Collection.Get" ["Collection.GetItem"] [] false false false false false false false false;
  mkGfn "Collection.GetAny" ["Collection.Get"; "toBa"] [] false false false false false false false false;
  mkGfn "Collection.GetItem" ["Collection.rootAddRef"; "Collection.rootDecRef"; "Store.ItemAddRef"; "itemLoc.read"; "nodeLoc.isEmpty"; "nodeLoc.read"] [] false false false false false false true false;
  mkGfn "Collection.GetTotals" ["Collection.rootAddRef"; "Collection.rootDecRef"; "nodeLoc.isEmpty"; "nodeLoc.read"] [] false false false false false false false false;
  mkGfn "Collection.IterateAscend" ["Collection.iteratorVisitorAscend"; "newIterator"] [] false false false false false false false false;
  mkGfn "Collection.IterateDescend" ["Collection.iteratorVisitorDescend"; "newIterator"] [] false false false false false false false false;
  mkGfn "Collection.Len" ["Collection.MinItem"; "Collection.VisitItemsAscendEx"; "Store.ItemDecRef"] [] false false false false false false false false;
  mkGfn "Collection.MarshalJSON" ["Collection.rootAddRef"; "Collection.rootDecRef"; "rootNodeLoc.MarshalJSON"] [] false false false false false false false false;
  mkGfn "Collection.MaxItem" ["Store.walk"] [] false false false false false false false false;
  mkGfn "Collection.MinItem" ["Store.walk"] [] false false false false false false false false;
  mkGfn "Collection.Name" [] [] false false false false false false false false;
  mkGfn "Collection.Set" ["Collection.SetItem"] [] false false false false false false false false;
  mkGfn "Collection.SetAny" ["Collection.Set"; "toBa"] [] false false false false false false false false;
  mkGfn "Collection.SetItem" ["Collection.freeNodeLoc"; "Collection.mkNode"; "Collection.mkNodeLoc"; "Collection.mkRootNodeLoc"; "Collection.reclaimMarkUpdate"; "Collection.rootAddRef"; "Collection.rootCAS"; "Collection.rootDecRef"; "Collection.unmarkReclaimable"; "Item.NumValBytes"; "Store.ItemAddRef"; "Store.union"] [] false false false false false false false false;
  mkGfn "Collection.UnmarshalJSON" ["<json.Unmarshal>"; "Collection.mkNodeLoc"; "Collection.mkRootNodeLoc"; "Collection.rootCAS"] [] false false false false false false false false;
  mkGfn "Collection.VisitItemsAscend" ["Collection.VisitItemsAscendEx"] [] false false false false false false true false;
  mkGfn "Collection.VisitItemsAscendBlockEx" ["Collection.MinItem"; "Collection.VisitItemsAscendEx"; "Collection.determineBlocks"; "Store.ItemDecRef"] [] false false false false false false true false;
  mkGfn "Collection.VisitItemsAscendEx" ["Collection.rootAddRef"; "Collection.rootDecRef"; "Store.visitNodes"] [] false false false false false false true false;
  mkGfn "Collection.VisitItemsDescend" ["Collection.VisitItemsDescendEx"] [] false false false false false false true false;
  mkGfn "Collection.VisitItemsDescendEx" ["Collection.rootAddRef"; "Collection.rootDecRef"; "Store.visitNodes"] [] false false false false false false false false;
  mkGfn "Collection.VisitItemsRandom" ["Collection.MinItem"; "Collection.VisitItemsAscendEx"; "Collection.determineBlocks"; "RandBm"; "Store.ItemDecRef"] [] false false false false false false true false;
  mkGfn "Collection.Write" ["Collection.rootAddRef"; "Collection.rootDecRef"; "Collection.write"] [] false false false false false false false false;
  mkGfn "Collection.closeCollection" ["Collection.rootDecRef"] [] false false true false false false false false;
  mkGfn "Collection.determineBlocks" ["Collection.Len"] [] false false false false false false false false;
  mkGfn "Collection.freeNodeLoc" [] [] false false true false false false false false;
  mkGfn "Collection.freeNodeUnlocked" ["Store.ItemDecRef"; "itemLoc.Item"] [] false false false false false false false false;
  mkGfn "Collection.freeRootNodeLoc" [] [] false false true false false false false false;
  mkGfn "Collection.iterate" ["<dynamic:func(*gkvlite.Collection,gkvlite.ItemVisitor)(error)>"] [] false false false true false false false false;
  mkGfn "Collection.iteratorVisitorAscend" ["Collection.VisitItemsAscend"; "Collection.iterate"] [] false false false false false false false false;
  mkGfn "Collection.iteratorVisitorDescend" ["Collection.VisitItemsDescend"; "Collection.iterate"] [] false false false false false false false false;
  mkGfn "Collection.markReclaimable" [] [] false false true false false false false false;
  mkGfn "Collection.markTreeReclaimableUnlocked" ["Collection.markTreeReclaimableUnlocked"; "nodeLoc.Node"; "nodeLoc.isEmpty"] [] false false false false false false false false;
  mkGfn "Collection.mkNode" ["Store.ItemAddRef"; "itemLoc.Copy"; "itemLoc.Item"; "nodeLoc.Copy"] [] false false true false false false false false;
  mkGfn "Collection.mkNodeLoc" [] [] false false true false false false false false;
  mkGfn "Collection.mkRootNodeLoc" [] [] false false true false false false false false;
  mkGfn "Collection.reclaimMarkUpdate" ["Collection.reclaimMarkUpdate"; "nodeLoc.Node"; "nodeLoc.isEmpty"] [] false false true false false false false false;
  mkGfn "Collection.reclaimNodesUnlocked" ["Collection.freeNodeUnlocked"; "Collection.reclaimNodesUnlocked"; "nodeLoc.Node"; "nodeLoc.isEmpty"] [] false false false false false false false false;
  mkGfn "Collection.rootAddRef" [] [] false false true false false false false false;
  mkGfn "Collection.rootCAS" ["Collection.Name"] ["Collection.Name"] false false true false false false false false;
  mkGfn "Collection.rootDecRef" ["Collection.rootDecRefUnlocked"] ["Collection.rootDecRefUnlocked"] false false true false false false false false;
  mkGfn "Collection.rootDecRefUnlocked" ["Collection.freeNodeLoc"; "Collection.freeRootNodeLoc"; "Collection.markTreeReclaimableUnlocked"; "Collection.reclaimNodesUnlocked"; "Collection.rootDecRefUnlocked"; "nodeLoc.Node"] [] false false false false false false false false;
  mkGfn "Collection.unmarkReclaimable" ["Collection.unmarkReclaimable"; "nodeLoc.Node"; "nodeLoc.isEmpty"] [] false false true false false false false false;
  mkGfn "Collection.write" ["Collection.writeItems"; "Collection.writeNodes"] [] false false false false false false false false;
  mkGfn "Collection.writeItems" ["Collection.writeItems"; "itemLoc.write"; "nodeLoc.Loc"; "nodeLoc.Node"; "ploc.isEmpty"] [] false false false false false false false false;
  mkGfn "Collection.writeNodes" ["Collection.writeNodes"; "nodeLoc.Loc"; "nodeLoc.Node"; "nodeLoc.write"; "ploc.isEmpty"] [] false false false false false false false false;
  mkGfn "Item.Copy" [] [] false false false false false false false false;
  mkGfn "Item.NumBytes" ["Item.NumValBytes"] [] false false false false false false false false;
  mkGfn "Item.NumValBytes" [] [] false false false false false true false false;
  mkGfn "NewStore" ["NewStoreEx"] [] false false false false false false false false;
  mkGfn "NewStoreEx" ["Store.readRoots"] [] false false false false false false false false;
  mkGfn "RandBm" [] [] false false false false false false false false;
  mkGfn "Store.Close" ["Collection.closeCollection"; "Store.casColl"; "Store.getColl"; "collNames"] [] false false false false false false false false;
  mkGfn "Store.CopyTo" ["Collection.EvictSomeItems"; "Collection.MinItem"; "Collection.SetItem"; "Collection.VisitItemsAscendEx"; "NewStore"; "Store.Flush"; "Store.ItemDecRef"; "Store.SetCollection"; "Store.getColl"; "collNames"] [] false false false false false false false false;
  mkGfn "Store.Flush" ["Collection.rootAddRef"; "Collection.rootDecRef"; "Collection.write"; "Store.getColl"; "Store.writeRoots"; "collNames"] [] false false false false false false false false;
  mkGfn "Store.FlushRevert" ["Collection.closeCollection"; "Store.casColl"; "Store.getColl"; "Store.readRootsScan"; "StoreFile.Truncate"] [] true false false false false false false false;
  mkGfn "Store.GetCollection" ["Store.getColl"] [] false false false false false false false false;
  mkGfn "Store.GetCollectionNames" ["Store.getColl"; "collNames"] [] false false false false false false false false;
  mkGfn "Store.ItemAddRef" [] [] false false false false false true false false;
  mkGfn "Store.ItemAlloc" [] [] false false false false false true false false;
  mkGfn "Store.ItemDecRef" [] [] false false false false false true false false;
  mkGfn "Store.ItemValRead" [] [] false true false false false true false false;
  mkGfn "Store.ItemValWrite" [] [] true false false false false true false false;
  mkGfn "Store.MakePrivateCollection" [] [] false false false false false false false false;
  mkGfn "Store.RemoveCollection" ["Collection.closeCollection"; "Store.casColl"; "Store.getColl"; "copyColl"] [] false false false false false false false false;
  mkGfn "Store.SetCollection" ["Collection.closeCollection"; "Collection.rootAddRef"; "Store.MakePrivateCollection"; "Store.casColl"; "Store.getColl"; "copyColl"] [] false false false false false false false false;
  mkGfn "Store.Snapshot" ["Collection.rootAddRef"; "Store.getColl"; "collNames"; "copyColl"] [] false false false false false false false false;
  mkGfn "Store.Stats" [] [] false false false false false false false false;
  mkGfn "Store.casColl" [] [] false false true false false false false false;
  mkGfn "Store.checkAndReadRoots" ["Store.validateAndSetCollections"] [] false true false false false false false false;
  mkGfn "Store.getColl" [] [] false false true false false false false false;
  mkGfn "Store.getSize" [] [] false false false false false false false false;
  mkGfn "Store.join" ["Collection.freeNodeLoc"; "Collection.markReclaimable"; "Collection.mkNode"; "Collection.mkNodeLoc"; "Store.join"; "itemLoc.NumBytes"; "itemLoc.read"; "nodeLoc.Copy"; "nodeLoc.isEmpty"; "nodeLoc.read"; "numInfo"] [] false false false false false false false false;
  mkGfn "Store.readRoots" ["Store.readRootsScan"; "StoreFile.Stat"] [] false true false false false false false false;
  mkGfn "Store.readRootsEnd" [] [] false false false false false false false false;
  mkGfn "Store.readRootsScan" ["Store.checkAndReadRoots"; "Store.readRootsEnd"; "Store.scanBackwardsForMagicEnd"] [] false false false false false false false false;
  mkGfn "Store.scanBackwardsForMagicEnd" [] [] false true false false false false false false;
  mkGfn "Store.setColl" [] [] false false true false false false false false;
  mkGfn "Store.setSize" [] [] false false false false false false false false;
  mkGfn "Store.split" ["Collection.freeNodeLoc"; "Collection.markReclaimable"; "Collection.mkNode"; "Collection.mkNodeLoc"; "Store.split"; "itemLoc.NumBytes"; "itemLoc.read"; "nodeLoc.Copy"; "nodeLoc.isEmpty"; "nodeLoc.read"; "numInfo"] [] false false false false false false true false;
  mkGfn "Store.union" ["Collection.freeNodeLoc"; "Collection.markReclaimable"; "Collection.mkNode"; "Collection.mkNodeLoc"; "Store.split"; "Store.union"; "itemLoc.NumBytes"; "itemLoc.read"; "nodeLoc.Copy"; "nodeLoc.Node"; "nodeLoc.isEmpty"; "nodeLoc.read"; "numInfo"] [] false false false false false false false false;
  mkGfn "Store.validateAndSetCollections" ["<json.Unmarshal>"; "Store.setColl"] [] false false false false false true false false;
  mkGfn "Store.visitNodes" ["<dynamic:func(int,*gkvlite.node)(bool,*gkvlite.nodeLoc,*gkvlite.nodeLoc)>"; "Store.ItemAddRef"; "Store.ItemDecRef"; "Store.visitNodes"; "itemLoc.read"; "node.Evict"; "nodeLoc.isEmpty"; "nodeLoc.read"] [] false false false true false false true false;
  mkGfn "Store.walk" ["<dynamic:func(*gkvlite.node)(*gkvlite.nodeLoc,bool)>"; "Collection.rootAddRef"; "Collection.rootDecRef"; "Store.ItemAddRef"; "itemLoc.read"; "nodeLoc.isEmpty"; "nodeLoc.read"] [] false false false true false false false false;
  mkGfn "Store.writeRoots" ["<json.Marshal>"] [] true false false false false false false false;
  mkGfn "StoreFile.Stat" [] [] false false false false false false false false;
  mkGfn "StoreFile.Truncate" [] [] false false false false false false false false;
  mkGfn "ascendChoice" [] [] false false false false false false false false;
  mkGfn "collNames" [] [] false false false false false false false false;
  mkGfn "copyColl" [] [] false false false false false false false false;
  mkGfn "descendChoice" [] [] false false false false false false false false;
  mkGfn "dump" ["dump"; "dumpIndent"; "itemLoc.Item"; "nodeLoc.isEmpty"; "nodeLoc.read"] [] false false false false false false false false;
  mkGfn "dumpIndent" [] [] false false false false false false false false;
  mkGfn "itemBa.getKeyLength" [] [] false false false false false false false false;
  mkGfn "itemBa.getLength" [] [] false false false false false false false false;
  mkGfn "itemBa.getPriority" [] [] false false false false false false false false;
  mkGfn "itemBa.getValLength" [] [] false false false false false false false false;
  mkGfn "itemBa.populate" [] [] false false false false false false false false;
  mkGfn "itemBa.render" [] [] false false false false false false false false;
  mkGfn "itemLoc.Copy" ["itemLoc.Copy"] [] false false true false false false false false;
  mkGfn "itemLoc.Item" [] [] false false true false false false false false;
  mkGfn "itemLoc.Loc" [] [] false false true false false false false false;
  mkGfn "itemLoc.NumBytes" ["Item.NumBytes"; "itemLoc.Item"; "itemLoc.Loc"; "ploc.isEmpty"] [] false false false false false false false false;
  mkGfn "itemLoc.casItem" [] [] false false true false false false false false;
  mkGfn "itemLoc.read" ["Store.ItemAlloc"; "Store.ItemDecRef"; "Store.ItemValRead"; "itemBa.getKeyLength"; "itemBa.getLength"; "itemBa.getPriority"; "itemBa.getValLength"; "itemBa.populate"; "itemLoc.Item"; "itemLoc.Loc"; "itemLoc.casItem"; "itemLoc.read"; "ploc.isEmpty"] [] false true false false false true false false;
  mkGfn "itemLoc.setLoc" [] [] false false true false false false false false;
  mkGfn "itemLoc.write" ["Item.NumValBytes"; "Store.ItemValWrite"; "itemBa.render"; "itemLoc.Item"; "itemLoc.Loc"; "itemLoc.setLoc"; "ploc.isEmpty"] [] true false false false false true false false;
  mkGfn "iterator.Close" [] [] false false false false false false false false;
  mkGfn "iterator.Err" [] [] false false false false false false false false;
  mkGfn "iterator.Next" [] [] false false false false false false false false;
  mkGfn "iterator.Result" [] [] false false false false false false false false;
  mkGfn "newIterator" [] [] false false false false false false false false;
  mkGfn "node.Evict" ["itemLoc.Item"; "itemLoc.Loc"; "itemLoc.casItem"; "ploc.isEmpty"] [] false false false false false false false false;
  mkGfn "node.populateDiskStruct" ["itemLoc.Loc"; "nodeLoc.Loc"; "ploc.write"] [] false false false false false false false false;
  mkGfn "node.setNumBytes" [] [] false false false false false false false false;
  mkGfn "node.setNumNodes" [] [] false false false false false false false false;
  mkGfn "nodeLoc.Copy" ["nodeLoc.Copy"] [] false false true false false false false false;
  mkGfn "nodeLoc.Loc" [] [] false false true false false false false false;
  mkGfn "nodeLoc.LocNode" [] [] false false true false false false false false;
  mkGfn "nodeLoc.Node" [] [] false false true false false false false false;
  mkGfn "nodeLoc.isEmpty" ["ploc.isEmpty"] ["ploc.isEmpty"] false false true false false false false false;
  mkGfn "nodeLoc.read" ["nodeLoc.LocNode"; "nodeLoc.setNode"; "ploc.isEmpty"; "populateNode"] [] false true false false false false false false;
  mkGfn "nodeLoc.setLoc" [] [] false false true false false false false false;
  mkGfn "nodeLoc.setNode" [] [] false false true false false false false false;
  mkGfn "nodeLoc.write" ["Store.getSize"; "Store.setSize"; "node.populateDiskStruct"; "nodeLoc.LocNode"; "nodeLoc.setLoc"; "ploc.isEmpty"] [] true false false false false false false false;
  mkGfn "numInfo" ["nodeLoc.isEmpty"; "nodeLoc.read"] [] false false false false false false false false;
  mkGfn "ploc.isEmpty" [] [] false false false false false false false false;
  mkGfn "ploc.read" ["ploc.isEmpty"] [] false false false false false false false false;
  mkGfn "ploc.write" ["ploc.write"] [] false false false false false false false false;
  mkGfn "populateNode" ["node.setNumBytes"; "node.setNumNodes"; "ploc.read"] [] false false false false false false false false;
  mkGfn "rootNodeLoc.MarshalJSON" ["<json.Marshal>"; "nodeLoc.Loc"; "ploc.isEmpty"] [] false false false false false false false false;
  mkGfn "rootsReadError.Error" ["<dynamic:func()(string)>"] [] false false false true false false false false;
  mkGfn "toBa" ["ByteAble.ToBa"] [] false false false false false false false false;
  mkGfn "view.emit" [] [] false false false false false false false false;
  mkGfn "view.emitItem" ["view.emit"] [] false false false false false false false false;
  mkGfn "view.main" ["view.mainDo"] [] false false false false false false false false;
  mkGfn "view.mainDo" ["Collection.VisitItemsAscendEx"; "NewStore"; "Store.GetCollection"; "Store.GetCollectionNames"] [] false false false false false false false false;
  mkGfn "view.usage" [] [] false false false false false false false false;
  mkGfn "withAllocLocks" ["<dynamic:func()()>"] ["<dynamic:func()()>"] false false true true false false false false
].

Definition g_reach : list (string * list string) := [
  ("<dynamic:func()()>", ["<dynamic:func()()>"; "<lit:Collection.AllocStats#1>"; "<lit:Collection.iterate#1>"; "<lit:Store.Flush#1>"; "Collection.freeNodeLoc"; "Collection.freeNodeUnlocked"; "Collection.freeRootNodeLoc"; "Collection.markTreeReclaimableUnlocked"; "Collection.reclaimNodesUnlocked"; "Collection.rootDecRef"; "Collection.rootDecRefUnlocked"; "Store.ItemDecRef"; "itemLoc.Item"; "nodeLoc.Node"; "nodeLoc.isEmpty"; "ploc.isEmpty"; "view.usage"]);
  ("<dynamic:func()(string)>", ["<dynamic:func()(string)>"]);
  ("<dynamic:func(*gkvlite.Collection,gkvlite.ItemVisitor)(error)>", ["<dynamic:func(*gkvlite.Collection,gkvlite.ItemVisitor)(error)>"; "<dynamic:func(int,*gkvlite.node)(bool,*gkvlite.nodeLoc,*gkvlite.nodeLoc)>"; "<lit:Collection.iteratorVisitorAscend#1>"; "<lit:Collection.iteratorVisitorDescend#1>"; "Collection.VisitItemsAscend"; "Collection.VisitItemsAscendEx"; "Collection.VisitItemsDescend"; "Collection.VisitItemsDescendEx"; "Collection.freeNodeLoc"; "Collection.freeNodeUnlocked"; "Collection.freeRootNodeLoc"; "Collection.markTreeReclaimableUnlocked"; "Collection.reclaimNodesUnlocked"; "Collection.rootAddRef"; "Collection.rootDecRef"; "Collection.rootDecRefUnlocked"; "Store.ItemAddRef"; "Store.ItemAlloc"; "Store.ItemDecRef"; "Store.ItemValRead"; "Store.visitNodes"; "ascendChoice"; "descendChoice"; "itemBa.getKeyLength"; "itemBa.getLength"; "itemBa.getPriority"; "itemBa.getValLength"; "itemBa.populate"; "itemLoc.Item"; "itemLoc.Loc"; "itemLoc.casItem"; "itemLoc.read"; "node.Evict"; "node.setNumBytes"; "node.setNumNodes"; "nodeLoc.LocNode"; "nodeLoc.Node"; "nodeLoc.isEmpty"; "nodeLoc.read"; "nodeLoc.setNode"; "ploc.isEmpty"; "ploc.read"; "populateNode"]);
  ("<dynamic:func(*gkvlite.node)(*gkvlite.nodeLoc,bool)>", ["<dynamic:func(*gkvlite.node)(*gkvlite.nodeLoc,bool)>"; "<lit:Collection.EvictSomeItems#1>"; "<lit:Collection.MaxItem#1>"; "<lit:Collection.MinItem#1>"; "Store.ItemDecRef"; "itemLoc.Item"; "itemLoc.Loc"; "itemLoc.casItem"; "node.Evict"; "nodeLoc.isEmpty"; "ploc.isEmpty"]);
  ("<dynamic:func(int,*gkvlite.node)(bool,*gkvlite.nodeLoc,*gkvlite.nodeLoc)>", ["<dynamic:func(int,*gkvlite.node)(bool,*gkvlite.nodeLoc,*gkvlite.nodeLoc)>"; "ascendChoice"; "descendChoice"]);
  ("<json.Marshal>", ["<json.Marshal>"; "Collection.MarshalJSON"; "Collection.freeNodeLoc"; "Collection.freeNodeUnlocked"; "Collection.freeRootNodeLoc"; "Collection.markTreeReclaimableUnlocked"; "Collection.reclaimNodesUnlocked"; "Collection.rootAddRef"; "Collection.rootDecRef"; "Collection.rootDecRefUnlocked"; "Store.ItemDecRef"; "itemLoc.Item"; "nodeLoc.Loc"; "nodeLoc.Node"; "nodeLoc.isEmpty"; "ploc.isEmpty"; "rootNodeLoc.MarshalJSON"]);
  ("<json.Unmarshal>", ["<json.Unmarshal>"; "Collection.Name"; "Collection.UnmarshalJSON"; "Collection.mkNodeLoc"; "Collection.mkRootNodeLoc"; "Collection.rootCAS"]);
  ("<lit:Collection.AllocStats#1>", ["<lit:Collection.AllocStats#1>"]);
  ("<lit:Collection.EvictSomeItems#1>", ["<lit:Collection.EvictSomeItems#1>"; "Store.ItemDecRef"; "itemLoc.Item"; "itemLoc.Loc"; "itemLoc.casItem"; "node.Evict"; "nodeLoc.isEmpty"; "ploc.isEmpty"]);
  ("<lit:Collection.Len#1>", ["<lit:Collection.Len#1>"]);
  ("<lit:Collection.MaxItem#1>", ["<lit:Collection.MaxItem#1>"]);
  ("<lit:Collection.MinItem#1>", ["<lit:Collection.MinItem#1>"]);
  ("<lit:Collection.VisitItemsAscend#1>", ["<lit:Collection.VisitItemsAscend#1>"]);
  ("<lit:Collection.VisitItemsAscendBlockEx#1>", ["<lit:Collection.VisitItemsAscendBlockEx#1>"]);
  ("<lit:Collection.VisitItemsAscendBlockEx#2>", ["<lit:Collection.VisitItemsAscendBlockEx#2>"]);
  ("<lit:Collection.VisitItemsAscendEx#1>", ["<lit:Collection.VisitItemsAscendEx#1>"]);
  ("<lit:Collection.VisitItemsDescend#1>", ["<lit:Collection.VisitItemsDescend#1>"]);
  ("<lit:Collection.VisitItemsRandom#1>", ["<lit:Collection.VisitItemsRandom#1>"]);
  ("<lit:Collection.VisitItemsRandom#2>", ["<lit:Collection.VisitItemsRandom#2>"]);
  ("<lit:Collection.iterate#1>", ["<lit:Collection.iterate#1>"]);
  ("<lit:Collection.iterate#2>", ["<lit:Collection.iterate#2>"]);
  ("<lit:Collection.iteratorVisitorAscend#1>", ["<dynamic:func(int,*gkvlite.node)(bool,*gkvlite.nodeLoc,*gkvlite.nodeLoc)>"; "<lit:Collection.iteratorVisitorAscend#1>"; "Collection.VisitItemsAscend"; "Collection.VisitItemsAscendEx"; "Collection.freeNodeLoc"; "Collection.freeNodeUnlocked"; "Collection.freeRootNodeLoc"; "Collection.markTreeReclaimableUnlocked"; "Collection.reclaimNodesUnlocked"; "Collection.rootAddRef"; "Collection.rootDecRef"; "Collection.rootDecRefUnlocked"; "Store.ItemAddRef"; "Store.ItemAlloc"; "Store.ItemDecRef"; "Store.ItemValRead"; "Store.visitNodes"; "ascendChoice"; "descendChoice"; "itemBa.getKeyLength"; "itemBa.getLength"; "itemBa.getPriority"; "itemBa.getValLength"; "itemBa.populate"; "itemLoc.Item"; "itemLoc.Loc"; "itemLoc.casItem"; "itemLoc.read"; "node.Evict"; "node.setNumBytes"; "node.setNumNodes"; "nodeLoc.LocNode"; "nodeLoc.Node"; "nodeLoc.isEmpty"; "nodeLoc.read"; "nodeLoc.setNode"; "ploc.isEmpty"; "ploc.read"; "populateNode"]);
  ("<lit:Collection.iteratorVisitorDescend#1>", ["<dynamic:func(int,*gkvlite.node)(bool,*gkvlite.nodeLoc,*gkvlite.nodeLoc)>"; "<lit:Collection.iteratorVisitorDescend#1>"; "Collection.VisitItemsDescend"; "Collection.VisitItemsDescendEx"; "Collection.freeNodeLoc"; "Collection.freeNodeUnlocked"; "Collection.freeRootNodeLoc"; "Collection.markTreeReclaimableUnlocked"; "Collection.reclaimNodesUnlocked"; "Collection.rootAddRef"; "Collection.rootDecRef"; "Collection.rootDecRefUnlocked"; "Store.ItemAddRef"; "Store.ItemAlloc"; "Store.ItemDecRef"; "Store.ItemValRead"; "Store.visitNodes"; "ascendChoice"; "descendChoice"; "itemBa.getKeyLength"; "itemBa.getLength"; "itemBa.getPriority"; "itemBa.getValLength"; "itemBa.populate"; "itemLoc.Item"; "itemLoc.Loc"; "itemLoc.casItem"; "itemLoc.read"; "node.Evict"; "node.setNumBytes"; "node.setNumNodes"; "nodeLoc.LocNode"; "nodeLoc.Node"; "nodeLoc.isEmpty"; "nodeLoc.read"; "nodeLoc.setNode"; "ploc.isEmpty"; "ploc.read"; "populateNode"]);
  ("<lit:Store.CopyTo#1>", ["<dynamic:func(*gkvlite.node)(*gkvlite.nodeLoc,bool)>"; "<json.Marshal>"; "<lit:Collection.EvictSomeItems#1>"; "<lit:Collection.MaxItem#1>"; "<lit:Collection.MinItem#1>"; "<lit:Store.CopyTo#1>"; "Collection.EvictSomeItems"; "Collection.MarshalJSON"; "Collection.Name"; "Collection.SetItem"; "Collection.freeNodeLoc"; "Collection.freeNodeUnlocked"; "Collection.freeRootNodeLoc"; "Collection.markReclaimable"; "Collection.markTreeReclaimableUnlocked"; "Collection.mkNode"; "Collection.mkNodeLoc"; "Collection.mkRootNodeLoc"; "Collection.reclaimMarkUpdate"; "Collection.reclaimNodesUnlocked"; "Collection.rootAddRef"; "Collection.rootCAS"; "Collection.rootDecRef"; "Collection.rootDecRefUnlocked"; "Collection.unmarkReclaimable"; "Collection.write"; "Collection.writeItems"; "Collection.writeNodes"; "Item.NumBytes"; "Item.NumValBytes"; "Store.Flush"; "Store.ItemAddRef"; "Store.ItemAlloc"; "Store.ItemDecRef"; "Store.ItemValRead"; "Store.ItemValWrite"; "Store.getColl"; "Store.getSize"; "Store.setSize"; "Store.split"; "Store.union"; "Store.walk"; "Store.writeRoots"; "collNames"; "itemBa.getKeyLength"; "itemBa.getLength"; "itemBa.getPriority"; "itemBa.getValLength"; "itemBa.populate"; "itemBa.render"; "itemLoc.Copy"; "itemLoc.Item"; "itemLoc.Loc"; "itemLoc.NumBytes"; "itemLoc.casItem"; "itemLoc.read"; "itemLoc.setLoc"; "itemLoc.write"; "node.Evict"; "node.populateDiskStruct"; "node.setNumBytes"; "node.setNumNodes"; "nodeLoc.Copy"; "nodeLoc.Loc"; "nodeLoc.LocNode"; "nodeLoc.Node"; "nodeLoc.isEmpty"; "nodeLoc.read"; "nodeLoc.setLoc"; "nodeLoc.setNode"; "nodeLoc.write"; "numInfo"; "ploc.isEmpty"; "ploc.read"; "ploc.write"; "populateNode"; "rootNodeLoc.MarshalJSON"]);
  ("<lit:Store.Flush#1>", ["<lit:Store.Flush#1>"; "Collection.freeNodeLoc"; "Collection.freeNodeUnlocked"; "Collection.freeRootNodeLoc"; "Collection.markTreeReclaimableUnlocked"; "Collection.reclaimNodesUnlocked"; "Collection.rootDecRef"; "Collection.rootDecRefUnlocked"; "Store.ItemDecRef"; "itemLoc.Item"; "nodeLoc.Node"; "nodeLoc.isEmpty"; "ploc.isEmpty"]);
  ("<lit:Store.visitNodes#1>", ["<lit:Store.visitNodes#1>"; "Store.ItemDecRef"; "itemLoc.Item"; "itemLoc.Loc"; "itemLoc.casItem"; "node.Evict"; "ploc.isEmpty"]);
  ("ByteAble.ToBa", ["ByteAble.ToBa"]);
  ("Collection.AllocStats", ["<dynamic:func()()>"; "<lit:Collection.AllocStats#1>"; "<lit:Collection.iterate#1>"; "<lit:Store.Flush#1>"; "Collection.AllocStats"; "Collection.freeNodeLoc"; "Collection.freeNodeUnlocked"; "Collection.freeRootNodeLoc"; "Collection.markTreeReclaimableUnlocked"; "Collection.reclaimNodesUnlocked"; "Collection.rootDecRef"; "Collection.rootDecRefUnlocked"; "Store.ItemDecRef"; "itemLoc.Item"; "nodeLoc.Node"; "nodeLoc.isEmpty"; "ploc.isEmpty"; "view.usage"; "withAllocLocks"]);
  ("Collection.Delete", ["Collection.Delete"; "Collection.GetItem"; "Collection.Name"; "Collection.freeNodeLoc"; "Collection.freeNodeUnlocked"; "Collection.freeRootNodeLoc"; "Collection.markReclaimable"; "Collection.markTreeReclaimableUnlocked"; "Collection.mkNode"; "Collection.mkNodeLoc"; "Collection.mkRootNodeLoc"; "Collection.reclaimMarkUpdate"; "Collection.reclaimNodesUnlocked"; "Collection.rootAddRef"; "Collection.rootCAS"; "Collection.rootDecRef"; "Collection.rootDecRefUnlocked"; "Collection.unmarkReclaimable"; "Item.NumBytes"; "Item.NumValBytes"; "Store.ItemAddRef"; "Store.ItemAlloc"; "Store.ItemDecRef"; "Store.ItemValRead"; "Store.join"; "Store.split"; "itemBa.getKeyLength"; "itemBa.getLength"; "itemBa.getPriority"; "itemBa.getValLength"; "itemBa.populate"; "itemLoc.Copy"; "itemLoc.Item"; "itemLoc.Loc"; "itemLoc.NumBytes"; "itemLoc.casItem"; "itemLoc.read"; "node.setNumBytes"; "node.setNumNodes"; "nodeLoc.Copy"; "nodeLoc.LocNode"; "nodeLoc.Node"; "nodeLoc.isEmpty"; "nodeLoc.read"; "nodeLoc.setNode"; "numInfo"; "ploc.isEmpty"; "ploc.read"; "populateNode"]);
  ("Collection.DeleteAny", ["ByteAble.ToBa"; "Collection.Delete"; "Collection.DeleteAny"; "Collection.GetItem"; "Collection.Name"; "Collection.freeNodeLoc"; "Collection.freeNodeUnlocked"; "Collection.freeRootNodeLoc"; "Collection.markReclaimable"; "Collection.markTreeReclaimableUnlocked"; "Collection.mkNode"; "Collection.mkNodeLoc"; "Collection.mkRootNodeLoc"; "Collection.reclaimMarkUpdate"; "Collection.reclaimNodesUnlocked"; "Collection.rootAddRef"; "Collection.rootCAS"; "Collection.rootDecRef"; "Collection.rootDecRefUnlocked"; "Collection.unmarkReclaimable"; "Item.NumBytes"; "Item.NumValBytes"; "Store.ItemAddRef"; "Store.ItemAlloc"; "Store.ItemDecRef"; "Store.ItemValRead"; "Store.join"; "Store.split"; "itemBa.getKeyLength"; "itemBa.getLength"; "itemBa.getPriority"; "itemBa.getValLength"; "itemBa.populate"; "itemLoc.Copy"; "itemLoc.Item"; "itemLoc.Loc"; "itemLoc.NumBytes"; "itemLoc.casItem"; "itemLoc.read"; "node.setNumBytes"; "node.setNumNodes"; "nodeLoc.Copy"; "nodeLoc.LocNode"; "nodeLoc.Node"; "nodeLoc.isEmpty"; "nodeLoc.read"; "nodeLoc.setNode"; "numInfo"; "ploc.isEmpty"; "ploc.read"; "populateNode"; "toBa"]);
  ("Collection.EvictSomeItems", ["<dynamic:func(*gkvlite.node)(*gkvlite.nodeLoc,bool)>"; "<lit:Collection.EvictSomeItems#1>"; "<lit:Collection.MaxItem#1>"; "<lit:Collection.MinItem#1>"; "Collection.EvictSomeItems"; "Collection.freeNodeLoc"; "Collection.freeNodeUnlocked"; "Collection.freeRootNodeLoc"; "Collection.markTreeReclaimableUnlocked"; "Collection.reclaimNodesUnlocked"; "Collection.rootAddRef"; "Collection.rootDecRef"; "Collection.rootDecRefUnlocked"; "Store.ItemAddRef"; "Store.ItemAlloc"; "Store.ItemDecRef"; "Store.ItemValRead"; "Store.walk"; "itemBa.getKeyLength"; "itemBa.getLength"; "itemBa.getPriority"; "itemBa.getValLength"; "itemBa.populate"; "itemLoc.Item"; "itemLoc.Loc"; "itemLoc.casItem"; "itemLoc.read"; "node.Evict"; "node.setNumBytes"; "node.setNumNodes"; "nodeLoc.LocNode"; "nodeLoc.Node"; "nodeLoc.isEmpty"; "nodeLoc.read"; "nodeLoc.setNode"; "ploc.isEmpty"; "ploc.read"; "populateNode"]);
  ("Collection.Exist", ["Collection.Exist"; "Collection.GetItem"; "Collection.freeNodeLoc"; "Collection.freeNodeUnlocked"; "Collection.freeRootNodeLoc"; "Collection.markTreeReclaimableUnlocked"; "Collection.reclaimNodesUnlocked"; "Collection.rootAddRef"; "Collection.rootDecRef"; "Collection.rootDecRefUnlocked"; "Store.ItemAddRef"; "Store.ItemAlloc"; "Store.ItemDecRef"; "Store.ItemValRead"; "itemBa.getKeyLength"; "itemBa.getLength"; "itemBa.getPriority"; "itemBa.getValLength"; "itemBa.populate"; "itemLoc.Item"; "itemLoc.Loc"; "itemLoc.casItem"; "itemLoc.read"; "node.setNumBytes"; "node.setNumNodes"; "nodeLoc.LocNode"; "nodeLoc.Node"; "nodeLoc.isEmpty"; "nodeLoc.read"; "nodeLoc.setNode"; "ploc.isEmpty"; "ploc.read"; "populateNode"]);
  ("Collection.ExistAny", ["ByteAble.ToBa"; "Collection.Exist"; "Collection.ExistAny"; "Collection.GetItem"; "Collection.freeNodeLoc"; "Collection.freeNodeUnlocked"; "Collection.freeRootNodeLoc"; "Collection.markTreeReclaimableUnlocked"; "Collection.reclaimNodesUnlocked"; "Collection.rootAddRef"; "Collection.rootDecRef"; "Collection.rootDecRefUnlocked"; "Store.ItemAddRef"; "Store.ItemAlloc"; "Store.ItemDecRef"; "Store.ItemValRead"; "itemBa.getKeyLength"; "itemBa.getLength"; "itemBa.getPriority"; "itemBa.getValLength"; "itemBa.populate"; "itemLoc.Item"; "itemLoc.Loc"; "itemLoc.casItem"; "itemLoc.read"; "node.setNumBytes"; "node.setNumNodes"; "nodeLoc.LocNode"; "nodeLoc.Node"; "nodeLoc.isEmpty"; "nodeLoc.read"; "nodeLoc.setNode"; "ploc.isEmpty"; "ploc.read"; "populateNode"; "toBa"]);
  ("Collection.Get", ["Collection.Get"; "Collection.GetItem"; "Collection.freeNodeLoc"; "Collection.freeNodeUnlocked"; "Collection.freeRootNodeLoc"; "Collection.markTreeReclaimableUnlocked"; "Collection.reclaimNodesUnlocked"; "Collection.rootAddRef"; "Collection.rootDecRef"; "Collection.rootDecRefUnlocked"; "Store.ItemAddRef"; "Store.ItemAlloc"; "Store.ItemDecRef"; "Store.ItemValRead"; "itemBa.getKeyLength"; "itemBa.getLength"; "itemBa.getPriority"; "itemBa.getValLength"; "itemBa.populate"; "itemLoc.Item"; "itemLoc.Loc"; "itemLoc.casItem"; "itemLoc.read"; "node.setNumBytes"; "node.setNumNodes"; "nodeLoc.LocNode"; "nodeLoc.Node"; "nodeLoc.isEmpty"; "nodeLoc.read"; "nodeLoc.setNode"; "ploc.isEmpty"; "ploc.read"; "populateNode"]);
  ("Collection.GetAny", ["ByteAble.ToBa"; "Collection.Get"; "Collection.GetAny"; "Collection.GetItem"; "Collection.freeNodeLoc"; "Collection.freeNodeUnlocked"; "Collection.freeRootNodeLoc"; "Collection.markTreeReclaimableUnlocked"; "Collection.reclaimNodesUnlocked"; "Collection.rootAddRef"; "Collection.rootDecRef"; "Collection.rootDecRefUnlocked"; "Store.ItemAddRef"; "Store.ItemAlloc"; "Store.ItemDecRef"; "Store.ItemValRead"; "itemBa.getKeyLength"; "itemBa.getLength"; "itemBa.getPriority"; "itemBa.getValLength"; "itemBa.populate"; "itemLoc.Item"; "itemLoc.Loc"; "itemLoc.casItem"; "itemLoc.read"; "node.setNumBytes"; "node.setNumNodes"; "nodeLoc.LocNode"; "nodeLoc.Node"; "nodeLoc.isEmpty"; "nodeLoc.read"; "nodeLoc.setNode"; "ploc.isEmpty"; "ploc.read"; "populateNode"; "toBa"]);
  ("Collection.GetItem", ["Collection.GetItem"; "Collection.freeNodeLoc"; "Collection.freeNodeUnlocked"; "Collection.freeRootNodeLoc"; "Collection.markTreeReclaimableUnlocked"; "Collection.reclaimNodesUnlocked"; "Collection.rootAddRef"; "Collection.rootDecRef"; "Collection.rootDecRefUnlocked"; "Store.ItemAddRef"; "Store.ItemAlloc"; "Store.ItemDecRef"; "Store.ItemValRead"; "itemBa.getKeyLength"; "itemBa.getLength"; "itemBa.getPriority"; "itemBa.getValLength"; "itemBa.populate"; "itemLoc.Item"; "itemLoc.Loc"; "itemLoc.casItem"; "itemLoc.read"; "node.setNumBytes"; "node.setNumNodes"; "nodeLoc.LocNode"; "nodeLoc.Node"; "nodeLoc.isEmpty"; "nodeLoc.read"; "nodeLoc.setNode"; "ploc.isEmpty"; "ploc.read"; "populateNode"]);
  ("Collection.GetTotals", ["Collection.GetTotals"; "Collection.freeNodeLoc"; "Collection.freeNodeUnlocked"; "Collection.freeRootNodeLoc"; "Collection.markTreeReclaimableUnlocked"; "Collection.reclaimNodesUnlocked"; "Collection.rootAddRef"; "Collection.rootDecRef"; "Collection.rootDecRefUnlocked"; "Store.ItemDecRef"; "itemLoc.Item"; "node.setNumBytes"; "node.setNumNodes"; "nodeLoc.LocNode"; "nodeLoc.Node"; "nodeLoc.isEmpty"; "nodeLoc.read"; "nodeLoc.setNode"; "ploc.isEmpty"; "ploc.read"; "populateNode"]);
  ("Collection.IterateAscend", ["<dynamic:func(*gkvlite.Collection,gkvlite.ItemVisitor)(error)>"; "<dynamic:func(int,*gkvlite.node)(bool,*gkvlite.nodeLoc,*gkvlite.nodeLoc)>"; "<lit:Collection.iteratorVisitorAscend#1>"; "<lit:Collection.iteratorVisitorDescend#1>"; "Collection.IterateAscend"; "Collection.VisitItemsAscend"; "Collection.VisitItemsAscendEx"; "Collection.VisitItemsDescend"; "Collection.VisitItemsDescendEx"; "Collection.freeNodeLoc"; "Collection.freeNodeUnlocked"; "Collection.freeRootNodeLoc"; "Collection.iterate"; "Collection.iteratorVisitorAscend"; "Collection.markTreeReclaimableUnlocked"; "Collection.reclaimNodesUnlocked"; "Collection.rootAddRef"; "Collection.rootDecRef"; "Collection.rootDecRefUnlocked"; "Store.ItemAddRef"; "Store.ItemAlloc"; "Store.ItemDecRef"; "Store.ItemValRead"; "Store.visitNodes"; "ascendChoice"; "descendChoice"; "itemBa.getKeyLength"; "itemBa.getLength"; "itemBa.getPriority"; "itemBa.getValLength"; "itemBa.populate"; "itemLoc.Item"; "itemLoc.Loc"; "itemLoc.casItem"; "itemLoc.read"; "newIterator"; "node.Evict"; "node.setNumBytes"; "node.setNumNodes"; "nodeLoc.LocNode"; "nodeLoc.Node"; "nodeLoc.isEmpty"; "nodeLoc.read"; "nodeLoc.setNode"; "ploc.isEmpty"; "ploc.read"; "populateNode"]);
  ("Collection.IterateDescend", ["<dynamic:func(*gkvlite.Collection,gkvlite.ItemVisitor)(error)>"; "<dynamic:func(int,*gkvlite.node)(bool,*gkvlite.nodeLoc,*gkvlite.nodeLoc)>"; "<lit:Collection.iteratorVisitorAscend#1>"; "<lit:Collection.iteratorVisitorDescend#1>"; "Collection.IterateDescend"; "Collection.VisitItemsAscend"; "Collection.VisitItemsAscendEx"; "Collection.VisitItemsDescend"; "Collection.VisitItemsDescendEx"; "Collection.freeNodeLoc"; "Collection.freeNodeUnlocked"; "Collection.freeRootNodeLoc"; "Collection.iterate"; "Collection.iteratorVisitorDescend"; "Collection.markTreeReclaimableUnlocked"; "Collection.reclaimNodesUnlocked"; "Collection.rootAddRef"; "Collection.rootDecRef"; "Collection.rootDecRefUnlocked"; "Store.ItemAddRef"; "Store.ItemAlloc"; "Store.ItemDecRef"; "Store.ItemValRead"; "Store.visitNodes"; "ascendChoice"; "descendChoice"; "itemBa.getKeyLength"; "itemBa.getLength"; "itemBa.getPriority"; "itemBa.getValLength"; "itemBa.populate"; "itemLoc.Item"; "itemLoc.Loc"; "itemLoc.casItem"; "itemLoc.read"; "newIterator"; "node.Evict"; "node.setNumBytes"; "node.setNumNodes"; "nodeLoc.LocNode"; "nodeLoc.Node"; "nodeLoc.isEmpty"; "nodeLoc.read"; "nodeLoc.setNode"; "ploc.isEmpty"; "ploc.read"; "populateNode"]);
  ("Collection.Len", ["<dynamic:func(*gkvlite.node)(*gkvlite.nodeLoc,bool)>"; "<dynamic:func(int,*gkvlite.node)(bool,*gkvlite.nodeLoc,*gkvlite.nodeLoc)>"; "<lit:Collection.EvictSomeItems#1>"; "<lit:Collection.MaxItem#1>"; "<lit:Collection.MinItem#1>"; "Collection.Len"; "Collection.MinItem"; "Collection.VisitItemsAscendEx"; "Collection.freeNodeLoc"; "Collection.freeNodeUnlocked"; "Collection.freeRootNodeLoc"; "Collection.markTreeReclaimableUnlocked"; "Collection.reclaimNodesUnlocked"; "Collection.rootAddRef"; "Collection.rootDecRef"; "Collection.rootDecRefUnlocked"; "Store.ItemAddRef"; "Store.ItemAlloc"; "Store.ItemDecRef"; "Store.ItemValRead"; "Store.visitNodes"; "Store.walk"; "ascendChoice"; "descendChoice"; "itemBa.getKeyLength"; "itemBa.getLength"; "itemBa.getPriority"; "itemBa.getValLength"; "itemBa.populate"; "itemLoc.Item"; "itemLoc.Loc"; "itemLoc.casItem"; "itemLoc.read"; "node.Evict"; "node.setNumBytes"; "node.setNumNodes"; "nodeLoc.LocNode"; "nodeLoc.Node"; "nodeLoc.isEmpty"; "nodeLoc.read"; "nodeLoc.setNode"; "ploc.isEmpty"; "ploc.read"; "populateNode"]);
  ("Collection.MarshalJSON", ["<json.Marshal>"; "Collection.MarshalJSON"; "Collection.freeNodeLoc"; "Collection.freeNodeUnlocked"; "Collection.freeRootNodeLoc"; "Collection.markTreeReclaimableUnlocked"; "Collection.reclaimNodesUnlocked"; "Collection.rootAddRef"; "Collection.rootDecRef"; "Collection.rootDecRefUnlocked"; "Store.ItemDecRef"; "itemLoc.Item"; "nodeLoc.Loc"; "nodeLoc.Node"; "nodeLoc.isEmpty"; "ploc.isEmpty"; "rootNodeLoc.MarshalJSON"]);
  ("Collection.MaxItem", ["<dynamic:func(*gkvlite.node)(*gkvlite.nodeLoc,bool)>"; "<lit:Collection.EvictSomeItems#1>"; "<lit:Collection.MaxItem#1>"; "<lit:Collection.MinItem#1>"; "Collection.MaxItem"; "Collection.freeNodeLoc"; "Collection.freeNodeUnlocked"; "Collection.freeRootNodeLoc"; "Collection.markTreeReclaimableUnlocked"; "Collection.reclaimNodesUnlocked"; "Collection.rootAddRef"; "Collection.rootDecRef"; "Collection.rootDecRefUnlocked"; "Store.ItemAddRef"; "Store.ItemAlloc"; "Store.ItemDecRef"; "Store.ItemValRead"; "Store.walk"; "itemBa.getKeyLength"; "itemBa.getLength"; "itemBa.getPriority"; "itemBa.getValLength"; "itemBa.populate"; "itemLoc.Item"; "itemLoc.Loc"; "itemLoc.casItem"; "itemLoc.read"; "node.Evict"; "node.setNumBytes"; "node.setNumNodes"; "nodeLoc.LocNode"; "nodeLoc.Node"; "nodeLoc.isEmpty"; "nodeLoc.read"; "nodeLoc.setNode"; "ploc.isEmpty"; "ploc.read"; "populateNode"]);
  ("Collection.MinItem", ["<dynamic:func(*gkvlite.node)(*gkvlite.nodeLoc,bool)>"; "<lit:Collection.EvictSomeItems#1>"; "<lit:Collection.MaxItem#1>"; "<lit:Collection.MinItem#1>"; "Collection.MinItem"; "Collection.freeNodeLoc"; "Collection.freeNodeUnlocked"; "Collection.freeRootNodeLoc"; "Collection.markTreeReclaimableUnlocked"; "Collection.reclaimNodesUnlocked"; "Collection.rootAddRef"; "Collection.rootDecRef"; "Collection.rootDecRefUnlocked"; "Store.ItemAddRef"; "Store.ItemAlloc"; "Store.ItemDecRef"; "Store.ItemValRead"; "Store.walk"; "itemBa.getKeyLength"; "itemBa.getLength"; "itemBa.getPriority"; "itemBa.getValLength"; "itemBa.populate"; "itemLoc.Item"; "itemLoc.Loc"; "itemLoc.casItem"; "itemLoc.read"; "node.Evict"; "node.setNumBytes"; "node.setNumNodes"; "nodeLoc.LocNode"; "nodeLoc.Node"; "nodeLoc.isEmpty"; "nodeLoc.read"; "nodeLoc.setNode"; "ploc.isEmpty"; "ploc.read"; "populateNode"]);
  ("Collection.Name", ["Collection.Name"]);
  ("Collection.Set", ["Collection.Name"; "Collection.Set"; "Collection.SetItem"; "Collection.freeNodeLoc"; "Collection.freeNodeUnlocked"; "Collection.freeRootNodeLoc"; "Collection.markReclaimable"; "Collection.markTreeReclaimableUnlocked"; "Collection.mkNode"; "Collection.mkNodeLoc"; "Collection.mkRootNodeLoc"; "Collection.reclaimMarkUpdate"; "Collection.reclaimNodesUnlocked"; "Collection.rootAddRef"; "Collection.rootCAS"; "Collection.rootDecRef"; "Collection.rootDecRefUnlocked"; "Collection.unmarkReclaimable"; "Item.NumBytes"; "Item.NumValBytes"; "Store.ItemAddRef"; "Store.ItemAlloc"; "Store.ItemDecRef"; "Store.ItemValRead"; "Store.split"; "Store.union"; "itemBa.getKeyLength"; "itemBa.getLength"; "itemBa.getPriority"; "itemBa.getValLength"; "itemBa.populate"; "itemLoc.Copy"; "itemLoc.Item"; "itemLoc.Loc"; "itemLoc.NumBytes"; "itemLoc.casItem"; "itemLoc.read"; "node.setNumBytes"; "node.setNumNodes"; "nodeLoc.Copy"; "nodeLoc.LocNode"; "nodeLoc.Node"; "nodeLoc.isEmpty"; "nodeLoc.read"; "nodeLoc.setNode"; "numInfo"; "ploc.isEmpty"; "ploc.read"; "populateNode"]);
  ("Collection.SetAny", ["ByteAble.ToBa"; "Collection.Name"; "Collection.Set"; "Collection.SetAny"; "Collection.SetItem"; "Collection.freeNodeLoc"; "Collection.freeNodeUnlocked"; "Collection.freeRootNodeLoc"; "Collection.markReclaimable"; "Collection.markTreeReclaimableUnlocked"; "Collection.mkNode"; "Collection.mkNodeLoc"; "Collection.mkRootNodeLoc"; "Collection.reclaimMarkUpdate"; "Collection.reclaimNodesUnlocked"; "Collection.rootAddRef"; "Collection.rootCAS"; "Collection.rootDecRef"; "Collection.rootDecRefUnlocked"; "Collection.unmarkReclaimable"; "Item.NumBytes"; "Item.NumValBytes"; "Store.ItemAddRef"; "Store.ItemAlloc"; "Store.ItemDecRef"; "Store.ItemValRead"; "Store.split"; "Store.union"; "itemBa.getKeyLength"; "itemBa.getLength"; "itemBa.getPriority"; "itemBa.getValLength"; "itemBa.populate"; "itemLoc.Copy"; "itemLoc.Item"; "itemLoc.Loc"; "itemLoc.NumBytes"; "itemLoc.casItem"; "itemLoc.read"; "node.setNumBytes"; "node.setNumNodes"; "nodeLoc.Copy"; "nodeLoc.LocNode"; "nodeLoc.Node"; "nodeLoc.isEmpty"; "nodeLoc.read"; "nodeLoc.setNode"; "numInfo"; "ploc.isEmpty"; "ploc.read"; "populateNode"; "toBa"]);
  ("Collection.SetItem", ["Collection.Name"; "Collection.SetItem"; "Collection.freeNodeLoc"; "Collection.freeNodeUnlocked"; "Collection.freeRootNodeLoc"; "Collection.markReclaimable"; "Collection.markTreeReclaimableUnlocked"; "Collection.mkNode"; "Collection.mkNodeLoc"; "Collection.mkRootNodeLoc"; "Collection.reclaimMarkUpdate"; "Collection.reclaimNodesUnlocked"; "Collection.rootAddRef"; "Collection.rootCAS"; "Collection.rootDecRef"; "Collection.rootDecRefUnlocked"; "Collection.unmarkReclaimable"; "Item.NumBytes"; "Item.NumValBytes"; "Store.ItemAddRef"; "Store.ItemAlloc"; "Store.ItemDecRef"; "Store.ItemValRead"; "Store.split"; "Store.union"; "itemBa.getKeyLength"; "itemBa.getLength"; "itemBa.getPriority"; "itemBa.getValLength"; "itemBa.populate"; "itemLoc.Copy"; "itemLoc.Item"; "itemLoc.Loc"; "itemLoc.NumBytes"; "itemLoc.casItem"; "itemLoc.read"; "node.setNumBytes"; "node.setNumNodes"; "nodeLoc.Copy"; "nodeLoc.LocNode"; "nodeLoc.Node"; "nodeLoc.isEmpty"; "nodeLoc.read"; "nodeLoc.setNode"; "numInfo"; "ploc.isEmpty"; "ploc.read"; "populateNode"]);
  ("Collection.UnmarshalJSON", ["<json.Unmarshal>"; "Collection.Name"; "Collection.UnmarshalJSON"; "Collection.mkNodeLoc"; "Collection.mkRootNodeLoc"; "Collection.rootCAS"]);
  ("Collection.VisitItemsAscend", ["<dynamic:func(int,*gkvlite.node)(bool,*gkvlite.nodeLoc,*gkvlite.nodeLoc)>"; "Collection.VisitItemsAscend"; "Collection.VisitItemsAscendEx"; "Collection.freeNodeLoc"; "Collection.freeNodeUnlocked"; "Collection.freeRootNodeLoc"; "Collection.markTreeReclaimableUnlocked"; "Collection.reclaimNodesUnlocked"; "Collection.rootAddRef"; "Collection.rootDecRef"; "Collection.rootDecRefUnlocked"; "Store.ItemAddRef"; "Store.ItemAlloc"; "Store.ItemDecRef"; "Store.ItemValRead"; "Store.visitNodes"; "ascendChoice"; "descendChoice"; "itemBa.getKeyLength"; "itemBa.getLength"; "itemBa.getPriority"; "itemBa.getValLength"; "itemBa.populate"; "itemLoc.Item"; "itemLoc.Loc"; "itemLoc.casItem"; "itemLoc.read"; "node.Evict"; "node.setNumBytes"; "node.setNumNodes"; "nodeLoc.LocNode"; "nodeLoc.Node"; "nodeLoc.isEmpty"; "nodeLoc.read"; "nodeLoc.setNode"; "ploc.isEmpty"; "ploc.read"; "populateNode"]);
  ("Collection.VisitItemsAscendBlockEx", ["<dynamic:func(*gkvlite.node)(*gkvlite.nodeLoc,bool)>"; "<dynamic:func(int,*gkvlite.node)(bool,*gkvlite.nodeLoc,*gkvlite.nodeLoc)>"; "<lit:Collection.EvictSomeItems#1>"; "<lit:Collection.MaxItem#1>"; "<lit:Collection.MinItem#1>"; "Collection.Len"; "Collection.MinItem"; "Collection.VisitItemsAscendBlockEx"; "Collection.VisitItemsAscendEx"; "Collection.determineBlocks"; "Collection.freeNodeLoc"; "Collection.freeNodeUnlocked"; "Collection.freeRootNodeLoc"; "Collection.markTreeReclaimableUnlocked"; "Collection.reclaimNodesUnlocked"; "Collection.rootAddRef"; "Collection.rootDecRef"; "Collection.rootDecRefUnlocked"; "Store.ItemAddRef"; "Store.ItemAlloc"; "Store.ItemDecRef"; "Store.ItemValRead"; "Store.visitNodes"; "Store.walk"; "ascendChoice"; "descendChoice"; "itemBa.getKeyLength"; "itemBa.getLength"; "itemBa.getPriority"; "itemBa.getValLength"; "itemBa.populate"; "itemLoc.Item"; "itemLoc.Loc"; "itemLoc.casItem"; "itemLoc.read"; "node.Evict"; "node.setNumBytes"; "node.setNumNodes"; "nodeLoc.LocNode"; "nodeLoc.Node"; "nodeLoc.isEmpty"; "nodeLoc.read"; "nodeLoc.setNode"; "ploc.isEmpty"; "ploc.read"; "populateNode"]);
  ("Collection.VisitItemsAscendEx", ["<dynamic:func(int,*gkvlite.node)(bool,*gkvlite.nodeLoc,*gkvlite.nodeLoc)>"; "Collection.VisitItemsAscendEx"; "Collection.freeNodeLoc"; "Collection.freeNodeUnlocked"; "Collection.freeRootNodeLoc"; "Collection.markTreeReclaimableUnlocked"; "Collection.reclaimNodesUnlocked"; "Collection.rootAddRef"; "Collection.rootDecRef"; "Collection.rootDecRefUnlocked"; "Store.ItemAddRef"; "Store.ItemAlloc"; "Store.ItemDecRef"; "Store.ItemValRead"; "Store.visitNodes"; "ascendChoice"; "descendChoice"; "itemBa.getKeyLength"; "itemBa.getLength"; "itemBa.getPriority"; "itemBa.getValLength"; "itemBa.populate"; "itemLoc.Item"; "itemLoc.Loc"; "itemLoc.casItem"; "itemLoc.read"; "node.Evict"; "node.setNumBytes"; "node.setNumNodes"; "nodeLoc.LocNode"; "nodeLoc.Node"; "nodeLoc.isEmpty"; "nodeLoc.read"; "nodeLoc.setNode"; "ploc.isEmpty"; "ploc.read"; "populateNode"]);
  ("Collection.VisitItemsDescend", ["<dynamic:func(int,*gkvlite.node)(bool,*gkvlite.nodeLoc,*gkvlite.nodeLoc)>"; "Collection.VisitItemsDescend"; "Collection.VisitItemsDescendEx"; "Collection.freeNodeLoc"; "Collection.freeNodeUnlocked"; "Collection.freeRootNodeLoc"; "Collection.markTreeReclaimableUnlocked"; "Collection.reclaimNodesUnlocked"; "Collection.rootAddRef"; "Collection.rootDecRef"; "Collection.rootDecRefUnlocked"; "Store.ItemAddRef"; "Store.ItemAlloc"; "Store.ItemDecRef"; "Store.ItemValRead"; "Store.visitNodes"; "ascendChoice"; "descendChoice"; "itemBa.getKeyLength"; "itemBa.getLength"; "itemBa.getPriority"; "itemBa.getValLength"; "itemBa.populate"; "itemLoc.Item"; "itemLoc.Loc"; "itemLoc.casItem"; "itemLoc.read"; "node.Evict"; "node.setNumBytes"; "node.setNumNodes"; "nodeLoc.LocNode"; "nodeLoc.Node"; "nodeLoc.isEmpty"; "nodeLoc.read"; "nodeLoc.setNode"; "ploc.isEmpty"; "ploc.read"; "populateNode"]);
  ("Collection.VisitItemsDescendEx", ["<dynamic:func(int,*gkvlite.node)(bool,*gkvlite.nodeLoc,*gkvlite.nodeLoc)>"; "Collection.VisitItemsDescendEx"; "Collection.freeNodeLoc"; "Collection.freeNodeUnlocked"; "Collection.freeRootNodeLoc"; "Collection.markTreeReclaimableUnlocked"; "Collection.reclaimNodesUnlocked"; "Collection.rootAddRef"; "Collection.rootDecRef"; "Collection.rootDecRefUnlocked"; "Store.ItemAddRef"; "Store.ItemAlloc"; "Store.ItemDecRef"; "Store.ItemValRead"; "Store.visitNodes"; "ascendChoice"; "descendChoice"; "itemBa.getKeyLength"; "itemBa.getLength"; "itemBa.getPriority"; "itemBa.getValLength"; "itemBa.populate"; "itemLoc.Item"; "itemLoc.Loc"; "itemLoc.casItem"; "itemLoc.read"; "node.Evict"; "node.setNumBytes"; "node.setNumNodes"; "nodeLoc.LocNode"; "nodeLoc.Node"; "nodeLoc.isEmpty"; "nodeLoc.read"; "nodeLoc.setNode"; "ploc.isEmpty"; "ploc.read"; "populateNode"]);
  ("Collection.VisitItemsRandom", ["<dynamic:func(*gkvlite.node)(*gkvlite.nodeLoc,bool)>"; "<dynamic:func(int,*gkvlite.node)(bool,*gkvlite.nodeLoc,*gkvlite.nodeLoc)>"; "<lit:Collection.EvictSomeItems#1>"; "<lit:Collection.MaxItem#1>"; "<lit:Collection.MinItem#1>"; "Collection.Len"; "Collection.MinItem"; "Collection.VisitItemsAscendEx"; "Collection.VisitItemsRandom"; "Collection.determineBlocks"; "Collection.freeNodeLoc"; "Collection.freeNodeUnlocked"; "Collection.freeRootNodeLoc"; "Collection.markTreeReclaimableUnlocked"; "Collection.reclaimNodesUnlocked"; "Collection.rootAddRef"; "Collection.rootDecRef"; "Collection.rootDecRefUnlocked"; "RandBm"; "Store.ItemAddRef"; "Store.ItemAlloc"; "Store.ItemDecRef"; "Store.ItemValRead"; "Store.visitNodes"; "Store.walk"; "ascendChoice"; "descendChoice"; "itemBa.getKeyLength"; "itemBa.getLength"; "itemBa.getPriority"; "itemBa.getValLength"; "itemBa.populate"; "itemLoc.Item"; "itemLoc.Loc"; "itemLoc.casItem"; "itemLoc.read"; "node.Evict"; "node.setNumBytes"; "node.setNumNodes"; "nodeLoc.LocNode"; "nodeLoc.Node"; "nodeLoc.isEmpty"; "nodeLoc.read"; "nodeLoc.setNode"; "ploc.isEmpty"; "ploc.read"; "populateNode"]);
  ("Collection.Write", ["Collection.Write"; "Collection.freeNodeLoc"; "Collection.freeNodeUnlocked"; "Collection.freeRootNodeLoc"; "Collection.markTreeReclaimableUnlocked"; "Collection.reclaimNodesUnlocked"; "Collection.rootAddRef"; "Collection.rootDecRef"; "Collection.rootDecRefUnlocked"; "Collection.write"; "Collection.writeItems"; "Collection.writeNodes"; "Item.NumValBytes"; "Store.ItemDecRef"; "Store.ItemValWrite"; "Store.getSize"; "Store.setSize"; "itemBa.render"; "itemLoc.Item"; "itemLoc.Loc"; "itemLoc.setLoc"; "itemLoc.write"; "node.populateDiskStruct"; "nodeLoc.Loc"; "nodeLoc.LocNode"; "nodeLoc.Node"; "nodeLoc.isEmpty"; "nodeLoc.setLoc"; "nodeLoc.write"; "ploc.isEmpty"; "ploc.write"]);
  ("Collection.closeCollection", ["Collection.closeCollection"; "Collection.freeNodeLoc"; "Collection.freeNodeUnlocked"; "Collection.freeRootNodeLoc"; "Collection.markTreeReclaimableUnlocked"; "Collection.reclaimNodesUnlocked"; "Collection.rootDecRef"; "Collection.rootDecRefUnlocked"; "Store.ItemDecRef"; "itemLoc.Item"; "nodeLoc.Node"; "nodeLoc.isEmpty"; "ploc.isEmpty"]);
  ("Collection.determineBlocks", ["<dynamic:func(*gkvlite.node)(*gkvlite.nodeLoc,bool)>"; "<dynamic:func(int,*gkvlite.node)(bool,*gkvlite.nodeLoc,*gkvlite.nodeLoc)>"; "<lit:Collection.EvictSomeItems#1>"; "<lit:Collection.MaxItem#1>"; "<lit:Collection.MinItem#1>"; "Collection.Len"; "Collection.MinItem"; "Collection.VisitItemsAscendEx"; "Collection.determineBlocks"; "Collection.freeNodeLoc"; "Collection.freeNodeUnlocked"; "Collection.freeRootNodeLoc"; "Collection.markTreeReclaimableUnlocked"; "Collection.reclaimNodesUnlocked"; "Collection.rootAddRef"; "Collection.rootDecRef"; "Collection.rootDecRefUnlocked"; "Store.ItemAddRef"; "Store.ItemAlloc"; "Store.ItemDecRef"; "Store.ItemValRead"; "Store.visitNodes"; "Store.walk"; "ascendChoice"; "descendChoice"; "itemBa.getKeyLength"; "itemBa.getLength"; "itemBa.getPriority"; "itemBa.getValLength"; "itemBa.populate"; "itemLoc.Item"; "itemLoc.Loc"; "itemLoc.casItem"; "itemLoc.read"; "node.Evict"; "node.setNumBytes"; "node.setNumNodes"; "nodeLoc.LocNode"; "nodeLoc.Node"; "nodeLoc.isEmpty"; "nodeLoc.read"; "nodeLoc.setNode"; "ploc.isEmpty"; "ploc.read"; "populateNode"]);
  ("Collection.freeNodeLoc", ["Collection.freeNodeLoc"]);
  ("Collection.freeNodeUnlocked", ["Collection.freeNodeUnlocked"; "Store.ItemDecRef"; "itemLoc.Item"]);
  ("Collection.freeRootNodeLoc", ["Collection.freeRootNodeLoc"]);
  ("Collection.iterate", ["<dynamic:func(*gkvlite.Collection,gkvlite.ItemVisitor)(error)>"; "<dynamic:func(int,*gkvlite.node)(bool,*gkvlite.nodeLoc,*gkvlite.nodeLoc)>"; "<lit:Collection.iteratorVisitorAscend#1>"; "<lit:Collection.iteratorVisitorDescend#1>"; "Collection.VisitItemsAscend"; "Collection.VisitItemsAscendEx"; "Collection.VisitItemsDescend"; "Collection.VisitItemsDescendEx"; "Collection.freeNodeLoc"; "Collection.freeNodeUnlocked"; "Collection.freeRootNodeLoc"; "Collection.iterate"; "Collection.markTreeReclaimableUnlocked"; "Collection.reclaimNodesUnlocked"; "Collection.rootAddRef"; "Collection.rootDecRef"; "Collection.rootDecRefUnlocked"; "Store.ItemAddRef"; "Store.ItemAlloc"; "Store.ItemDecRef"; "Store.ItemValRead"; "Store.visitNodes"; "ascendChoice"; "descendChoice"; "itemBa.getKeyLength"; "itemBa.getLength"; "itemBa.getPriority"; "itemBa.getValLength"; "itemBa.populate"; "itemLoc.Item"; "itemLoc.Loc"; "itemLoc.casItem"; "itemLoc.read"; "node.Evict"; "node.setNumBytes"; "node.setNumNodes"; "nodeLoc.LocNode"; "nodeLoc.Node"; "nodeLoc.isEmpty"; "nodeLoc.read"; "nodeLoc.setNode"; "ploc.isEmpty"; "ploc.read"; "populateNode"]);
  ("Collection.iteratorVisitorAscend", ["<dynamic:func(*gkvlite.Collection,gkvlite.ItemVisitor)(error)>"; "<dynamic:func(int,*gkvlite.node)(bool,*gkvlite.nodeLoc,*gkvlite.nodeLoc)>"; "<lit:Collection.iteratorVisitorAscend#1>"; "<lit:Collection.iteratorVisitorDescend#1>"; "Collection.VisitItemsAscend"; "Collection.VisitItemsAscendEx"; "Collection.VisitItemsDescend"; "Collection.VisitItemsDescendEx"; "Collection.freeNodeLoc"; "Collection.freeNodeUnlocked"; "Collection.freeRootNodeLoc"; "Collection.iterate"; "Collection.iteratorVisitorAscend"; "Collection.markTreeReclaimableUnlocked"; "Collection.reclaimNodesUnlocked"; "Collection.rootAddRef"; "Collection.rootDecRef"; "Collection.rootDecRefUnlocked"; "Store.ItemAddRef"; "Store.ItemAlloc"; "Store.ItemDecRef"; "Store.ItemValRead"; "Store.visitNodes"; "ascendChoice"; "descendChoice"; "itemBa.getKeyLength"; "itemBa.getLength"; "itemBa.getPriority"; "itemBa.getValLength"; "itemBa.populate"; "itemLoc.Item"; "itemLoc.Loc"; "itemLoc.casItem"; "itemLoc.read"; "node.Evict"; "node.setNumBytes"; "node.setNumNodes"; "nodeLoc.LocNode"; "nodeLoc.Node"; "nodeLoc.isEmpty"; "nodeLoc.read"; "nodeLoc.setNode"; "ploc.isEmpty"; "ploc.read"; "populateNode"]);
  ("Collection.iteratorVisitorDescend", ["<dynamic:func(*gkvlite.Collection,gkvlite.ItemVisitor)(error)>"; "<dynamic:func(int,*gkvlite.node)(bool,*gkvlite.nodeLoc,*gkvlite.nodeLoc)>"; "<lit:Collection.iteratorVisitorAscend#1>"; "<lit:Collection.iteratorVisitorDescend#1>"; "Collection.VisitItemsAscend"; "Collection.VisitItemsAscendEx"; "Collection.VisitItemsDescend"; "Collection.VisitItemsDescendEx"; "Collection.freeNodeLoc"; "Collection.freeNodeUnlocked"; "Collection.freeRootNodeLoc"; "Collection.iterate"; "Collection.iteratorVisitorDescend"; "Collection.markTreeReclaimableUnlocked"; "Collection.reclaimNodesUnlocked"; "Collection.rootAddRef"; "Collection.rootDecRef"; "Collection.rootDecRefUnlocked"; "Store.ItemAddRef"; "Store.ItemAlloc"; "Store.ItemDecRef"; "Store.ItemValRead"; "Store.visitNodes"; "ascendChoice"; "descendChoice"; "itemBa.getKeyLength"; "itemBa.getLength"; "itemBa.getPriority"; "itemBa.getValLength"; "itemBa.populate"; "itemLoc.Item"; "itemLoc.Loc"; "itemLoc.casItem"; "itemLoc.read"; "node.Evict"; "node.setNumBytes"; "node.setNumNodes"; "nodeLoc.LocNode"; "nodeLoc.Node"; "nodeLoc.isEmpty"; "nodeLoc.read"; "nodeLoc.setNode"; "ploc.isEmpty"; "ploc.read"; "populateNode"]);
  ("Collection.markReclaimable", ["Collection.markReclaimable"]);
  ("Collection.markTreeReclaimableUnlocked", ["Collection.markTreeReclaimableUnlocked"; "nodeLoc.Node"; "nodeLoc.isEmpty"; "ploc.isEmpty"]);
  ("Collection.mkNode", ["Collection.mkNode"; "Store.ItemAddRef"; "itemLoc.Copy"; "itemLoc.Item"; "nodeLoc.Copy"]);
  ("Collection.mkNodeLoc", ["Collection.mkNodeLoc"]);
  ("Collection.mkRootNodeLoc", ["Collection.mkRootNodeLoc"]);
  ("Collection.reclaimMarkUpdate", ["Collection.reclaimMarkUpdate"; "nodeLoc.Node"; "nodeLoc.isEmpty"; "ploc.isEmpty"]);
  ("Collection.reclaimNodesUnlocked", ["Collection.freeNodeUnlocked"; "Collection.reclaimNodesUnlocked"; "Store.ItemDecRef"; "itemLoc.Item"; "nodeLoc.Node"; "nodeLoc.isEmpty"; "ploc.isEmpty"]);
  ("Collection.rootAddRef", ["Collection.rootAddRef"]);
  ("Collection.rootCAS", ["Collection.Name"; "Collection.rootCAS"]);
  ("Collection.rootDecRef", ["Collection.freeNodeLoc"; "Collection.freeNodeUnlocked"; "Collection.freeRootNodeLoc"; "Collection.markTreeReclaimableUnlocked"; "Collection.reclaimNodesUnlocked"; "Collection.rootDecRef"; "Collection.rootDecRefUnlocked"; "Store.ItemDecRef"; "itemLoc.Item"; "nodeLoc.Node"; "nodeLoc.isEmpty"; "ploc.isEmpty"]);
  ("Collection.rootDecRefUnlocked", ["Collection.freeNodeLoc"; "Collection.freeNodeUnlocked"; "Collection.freeRootNodeLoc"; "Collection.markTreeReclaimableUnlocked"; "Collection.reclaimNodesUnlocked"; "Collection.rootDecRefUnlocked"; "Store.ItemDecRef"; "itemLoc.Item"; "nodeLoc.Node"; "nodeLoc.isEmpty"; "ploc.isEmpty"]);
  ("Collection.unmarkReclaimable", ["Collection.unmarkReclaimable"; "nodeLoc.Node"; "nodeLoc.isEmpty"; "ploc.isEmpty"]);
  ("Collection.write", ["Collection.write"; "Collection.writeItems"; "Collection.writeNodes"; "Item.NumValBytes"; "Store.ItemValWrite"; "Store.getSize"; "Store.setSize"; "itemBa.render"; "itemLoc.Item"; "itemLoc.Loc"; "itemLoc.setLoc"; "itemLoc.write"; "node.populateDiskStruct"; "nodeLoc.Loc"; "nodeLoc.LocNode"; "nodeLoc.Node"; "nodeLoc.setLoc"; "nodeLoc.write"; "ploc.isEmpty"; "ploc.write"]);
  ("Collection.writeItems", ["Collection.writeItems"; "Item.NumValBytes"; "Store.ItemValWrite"; "itemBa.render"; "itemLoc.Item"; "itemLoc.Loc"; "itemLoc.setLoc"; "itemLoc.write"; "nodeLoc.Loc"; "nodeLoc.Node"; "ploc.isEmpty"]);
  ("Collection.writeNodes", ["Collection.writeNodes"; "Store.getSize"; "Store.setSize"; "itemLoc.Loc"; "node.populateDiskStruct"; "nodeLoc.Loc"; "nodeLoc.LocNode"; "nodeLoc.Node"; "nodeLoc.setLoc"; "nodeLoc.write"; "ploc.isEmpty"; "ploc.write"]);
  ("Item.Copy", ["Item.Copy"]);
  ("Item.NumBytes", ["Item.NumBytes"; "Item.NumValBytes"]);
  ("Item.NumValBytes", ["Item.NumValBytes"]);
  ("NewStore", ["<json.Unmarshal>"; "Collection.Name"; "Collection.UnmarshalJSON"; "Collection.mkNodeLoc"; "Collection.mkRootNodeLoc"; "Collection.rootCAS"; "NewStore"; "NewStoreEx"; "Store.checkAndReadRoots"; "Store.readRoots"; "Store.readRootsEnd"; "Store.readRootsScan"; "Store.scanBackwardsForMagicEnd"; "Store.setColl"; "Store.validateAndSetCollections"; "StoreFile.Stat"]);
  ("NewStoreEx", ["<json.Unmarshal>"; "Collection.Name"; "Collection.UnmarshalJSON"; "Collection.mkNodeLoc"; "Collection.mkRootNodeLoc"; "Collection.rootCAS"; "NewStoreEx"; "Store.checkAndReadRoots"; "Store.readRoots"; "Store.readRootsEnd"; "Store.readRootsScan"; "Store.scanBackwardsForMagicEnd"; "Store.setColl"; "Store.validateAndSetCollections"; "StoreFile.Stat"]);
  ("RandBm", ["RandBm"]);
  ("Store.Close", ["Collection.closeCollection"; "Collection.freeNodeLoc"; "Collection.freeNodeUnlocked"; "Collection.freeRootNodeLoc"; "Collection.markTreeReclaimableUnlocked"; "Collection.reclaimNodesUnlocked"; "Collection.rootDecRef"; "Collection.rootDecRefUnlocked"; "Store.Close"; "Store.ItemDecRef"; "Store.casColl"; "Store.getColl"; "collNames"; "itemLoc.Item"; "nodeLoc.Node"; "nodeLoc.isEmpty"; "ploc.isEmpty"]);
  ("Store.CopyTo", ["<dynamic:func(*gkvlite.node)(*gkvlite.nodeLoc,bool)>"; "<dynamic:func(int,*gkvlite.node)(bool,*gkvlite.nodeLoc,*gkvlite.nodeLoc)>"; "<json.Marshal>"; "<json.Unmarshal>"; "<lit:Collection.EvictSomeItems#1>"; "<lit:Collection.MaxItem#1>"; "<lit:Collection.MinItem#1>"; "Collection.EvictSomeItems"; "Collection.MarshalJSON"; "Collection.MinItem"; "Collection.Name"; "Collection.SetItem"; "Collection.UnmarshalJSON"; "Collection.VisitItemsAscendEx"; "Collection.closeCollection"; "Collection.freeNodeLoc"; "Collection.freeNodeUnlocked"; "Collection.freeRootNodeLoc"; "Collection.markReclaimable"; "Collection.markTreeReclaimableUnlocked"; "Collection.mkNode"; "Collection.mkNodeLoc"; "Collection.mkRootNodeLoc"; "Collection.reclaimMarkUpdate"; "Collection.reclaimNodesUnlocked"; "Collection.rootAddRef"; "Collection.rootCAS"; "Collection.rootDecRef"; "Collection.rootDecRefUnlocked"; "Collection.unmarkReclaimable"; "Collection.write"; "Collection.writeItems"; "Collection.writeNodes"; "Item.NumBytes"; "Item.NumValBytes"; "NewStore"; "NewStoreEx"; "Store.CopyTo"; "Store.Flush"; "Store.ItemAddRef"; "Store.ItemAlloc"; "Store.ItemDecRef"; "Store.ItemValRead"; "Store.ItemValWrite"; "Store.MakePrivateCollection"; "Store.SetCollection"; "Store.casColl"; "Store.checkAndReadRoots"; "Store.getColl"; "Store.getSize"; "Store.readRoots"; "Store.readRootsEnd"; "Store.readRootsScan"; "Store.scanBackwardsForMagicEnd"; "Store.setColl"; "Store.setSize"; "Store.split"; "Store.union"; "Store.validateAndSetCollections"; "Store.visitNodes"; "Store.walk"; "Store.writeRoots"; "StoreFile.Stat"; "ascendChoice"; "collNames"; "copyColl"; "descendChoice"; "itemBa.getKeyLength"; "itemBa.getLength"; "itemBa.getPriority"; "itemBa.getValLength"; "itemBa.populate"; "itemBa.render"; "itemLoc.Copy"; "itemLoc.Item"; "itemLoc.Loc"; "itemLoc.NumBytes"; "itemLoc.casItem"; "itemLoc.read"; "itemLoc.setLoc"; "itemLoc.write"; "node.Evict"; "node.populateDiskStruct"; "node.setNumBytes"; "node.setNumNodes"; "nodeLoc.Copy"; "nodeLoc.Loc"; "nodeLoc.LocNode"; "nodeLoc.Node"; "nodeLoc.isEmpty"; "nodeLoc.read"; "nodeLoc.setLoc"; "nodeLoc.setNode"; "nodeLoc.write"; "numInfo"; "ploc.isEmpty"; "ploc.read"; "ploc.write"; "populateNode"; "rootNodeLoc.MarshalJSON"]);
  ("Store.Flush", ["<json.Marshal>"; "Collection.MarshalJSON"; "Collection.freeNodeLoc"; "Collection.freeNodeUnlocked"; "Collection.freeRootNodeLoc"; "Collection.markTreeReclaimableUnlocked"; "Collection.reclaimNodesUnlocked"; "Collection.rootAddRef"; "Collection.rootDecRef"; "Collection.rootDecRefUnlocked"; "Collection.write"; "Collection.writeItems"; "Collection.writeNodes"; "Item.NumValBytes"; "Store.Flush"; "Store.ItemDecRef"; "Store.ItemValWrite"; "Store.getColl"; "Store.getSize"; "Store.setSize"; "Store.writeRoots"; "collNames"; "itemBa.render"; "itemLoc.Item"; "itemLoc.Loc"; "itemLoc.setLoc"; "itemLoc.write"; "node.populateDiskStruct"; "nodeLoc.Loc"; "nodeLoc.LocNode"; "nodeLoc.Node"; "nodeLoc.isEmpty"; "nodeLoc.setLoc"; "nodeLoc.write"; "ploc.isEmpty"; "ploc.write"; "rootNodeLoc.MarshalJSON"]);
  ("Store.FlushRevert", ["<json.Unmarshal>"; "Collection.Name"; "Collection.UnmarshalJSON"; "Collection.closeCollection"; "Collection.freeNodeLoc"; "Collection.freeNodeUnlocked"; "Collection.freeRootNodeLoc"; "Collection.markTreeReclaimableUnlocked"; "Collection.mkNodeLoc"; "Collection.mkRootNodeLoc"; "Collection.reclaimNodesUnlocked"; "Collection.rootCAS"; "Collection.rootDecRef"; "Collection.rootDecRefUnlocked"; "Store.FlushRevert"; "Store.ItemDecRef"; "Store.casColl"; "Store.checkAndReadRoots"; "Store.getColl"; "Store.readRootsEnd"; "Store.readRootsScan"; "Store.scanBackwardsForMagicEnd"; "Store.setColl"; "Store.validateAndSetCollections"; "StoreFile.Truncate"; "itemLoc.Item"; "nodeLoc.Node"; "nodeLoc.isEmpty"; "ploc.isEmpty"]);
  ("Store.GetCollection", ["Store.GetCollection"; "Store.getColl"]);
  ("Store.GetCollectionNames", ["Store.GetCollectionNames"; "Store.getColl"; "collNames"]);
  ("Store.ItemAddRef", ["Store.ItemAddRef"]);
  ("Store.ItemAlloc", ["Store.ItemAlloc"]);
  ("Store.ItemDecRef", ["Store.ItemDecRef"]);
  ("Store.ItemValRead", ["Store.ItemValRead"]);
  ("Store.ItemValWrite", ["Store.ItemValWrite"]);
  ("Store.MakePrivateCollection", ["Store.MakePrivateCollection"]);
  ("Store.RemoveCollection", ["Collection.closeCollection"; "Collection.freeNodeLoc"; "Collection.freeNodeUnlocked"; "Collection.freeRootNodeLoc"; "Collection.markTreeReclaimableUnlocked"; "Collection.reclaimNodesUnlocked"; "Collection.rootDecRef"; "Collection.rootDecRefUnlocked"; "Store.ItemDecRef"; "Store.RemoveCollection"; "Store.casColl"; "Store.getColl"; "copyColl"; "itemLoc.Item"; "nodeLoc.Node"; "nodeLoc.isEmpty"; "ploc.isEmpty"]);
  ("Store.SetCollection", ["Collection.closeCollection"; "Collection.freeNodeLoc"; "Collection.freeNodeUnlocked"; "Collection.freeRootNodeLoc"; "Collection.markTreeReclaimableUnlocked"; "Collection.reclaimNodesUnlocked"; "Collection.rootAddRef"; "Collection.rootDecRef"; "Collection.rootDecRefUnlocked"; "Store.ItemDecRef"; "Store.MakePrivateCollection"; "Store.SetCollection"; "Store.casColl"; "Store.getColl"; "copyColl"; "itemLoc.Item"; "nodeLoc.Node"; "nodeLoc.isEmpty"; "ploc.isEmpty"]);
  ("Store.Snapshot", ["Collection.rootAddRef"; "Store.Snapshot"; "Store.getColl"; "collNames"; "copyColl"]);
  ("Store.Stats", ["Store.Stats"]);
  ("Store.casColl", ["Store.casColl"]);
  ("Store.checkAndReadRoots", ["<json.Unmarshal>"; "Collection.Name"; "Collection.UnmarshalJSON"; "Collection.mkNodeLoc"; "Collection.mkRootNodeLoc"; "Collection.rootCAS"; "Store.checkAndReadRoots"; "Store.setColl"; "Store.validateAndSetCollections"]);
  ("Store.getColl", ["Store.getColl"]);
  ("Store.getSize", ["Store.getSize"]);
  ("Store.join", ["Collection.freeNodeLoc"; "Collection.markReclaimable"; "Collection.mkNode"; "Collection.mkNodeLoc"; "Item.NumBytes"; "Item.NumValBytes"; "Store.ItemAddRef"; "Store.ItemAlloc"; "Store.ItemDecRef"; "Store.ItemValRead"; "Store.join"; "itemBa.getKeyLength"; "itemBa.getLength"; "itemBa.getPriority"; "itemBa.getValLength"; "itemBa.populate"; "itemLoc.Copy"; "itemLoc.Item"; "itemLoc.Loc"; "itemLoc.NumBytes"; "itemLoc.casItem"; "itemLoc.read"; "node.setNumBytes"; "node.setNumNodes"; "nodeLoc.Copy"; "nodeLoc.LocNode"; "nodeLoc.isEmpty"; "nodeLoc.read"; "nodeLoc.setNode"; "numInfo"; "ploc.isEmpty"; "ploc.read"; "populateNode"]);
  ("Store.readRoots", ["<json.Unmarshal>"; "Collection.Name"; "Collection.UnmarshalJSON"; "Collection.mkNodeLoc"; "Collection.mkRootNodeLoc"; "Collection.rootCAS"; "Store.checkAndReadRoots"; "Store.readRoots"; "Store.readRootsEnd"; "Store.readRootsScan"; "Store.scanBackwardsForMagicEnd"; "Store.setColl"; "Store.validateAndSetCollections"; "StoreFile.Stat"]);
  ("Store.readRootsEnd", ["Store.readRootsEnd"]);
  ("Store.readRootsScan", ["<json.Unmarshal>"; "Collection.Name"; "Collection.UnmarshalJSON"; "Collection.mkNodeLoc"; "Collection.mkRootNodeLoc"; "Collection.rootCAS"; "Store.checkAndReadRoots"; "Store.readRootsEnd"; "Store.readRootsScan"; "Store.scanBackwardsForMagicEnd"; "Store.setColl"; "Store.validateAndSetCollections"]);
  ("Store.scanBackwardsForMagicEnd", ["Store.scanBackwardsForMagicEnd"]);
  ("Store.setColl", ["Store.setColl"]);
  ("Store.setSize", ["Store.setSize"]);
  ("Store.split", ["Collection.freeNodeLoc"; "Collection.markReclaimable"; "Collection.mkNode"; "Collection.mkNodeLoc"; "Item.NumBytes"; "Item.NumValBytes"; "Store.ItemAddRef"; "Store.ItemAlloc"; "Store.ItemDecRef"; "Store.ItemValRead"; "Store.split"; "itemBa.getKeyLength"; "itemBa.getLength"; "itemBa.getPriority"; "itemBa.getValLength"; "itemBa.populate"; "itemLoc.Copy"; "itemLoc.Item"; "itemLoc.Loc"; "itemLoc.NumBytes"; "itemLoc.casItem"; "itemLoc.read"; "node.setNumBytes"; "node.setNumNodes"; "nodeLoc.Copy"; "nodeLoc.LocNode"; "nodeLoc.isEmpty"; "nodeLoc.read"; "nodeLoc.setNode"; "numInfo"; "ploc.isEmpty"; "ploc.read"; "populateNode"]);
  ("Store.union", ["Collection.freeNodeLoc"; "Collection.markReclaimable"; "Collection.mkNode"; "Collection.mkNodeLoc"; "Item.NumBytes"; "Item.NumValBytes"; "Store.ItemAddRef"; "Store.ItemAlloc"; "Store.ItemDecRef"; "Store.ItemValRead"; "Store.split"; "Store.union"; "itemBa.getKeyLength"; "itemBa.getLength"; "itemBa.getPriority"; "itemBa.getValLength"; "itemBa.populate"; "itemLoc.Copy"; "itemLoc.Item"; "itemLoc.Loc"; "itemLoc.NumBytes"; "itemLoc.casItem"; "itemLoc.read"; "node.setNumBytes"; "node.setNumNodes"; "nodeLoc.Copy"; "nodeLoc.LocNode"; "nodeLoc.Node"; "nodeLoc.isEmpty"; "nodeLoc.read"; "nodeLoc.setNode"; "numInfo"; "ploc.isEmpty"; "ploc.read"; "populateNode"]);
  ("Store.validateAndSetCollections", ["<json.Unmarshal>"; "Collection.Name"; "Collection.UnmarshalJSON"; "Collection.mkNodeLoc"; "Collection.mkRootNodeLoc"; "Collection.rootCAS"; "Store.setColl"; "Store.validateAndSetCollections"]);
  ("Store.visitNodes", ["<dynamic:func(int,*gkvlite.node)(bool,*gkvlite.nodeLoc,*gkvlite.nodeLoc)>"; "Store.ItemAddRef"; "Store.ItemAlloc"; "Store.ItemDecRef"; "Store.ItemValRead"; "Store.visitNodes"; "ascendChoice"; "descendChoice"; "itemBa.getKeyLength"; "itemBa.getLength"; "itemBa.getPriority"; "itemBa.getValLength"; "itemBa.populate"; "itemLoc.Item"; "itemLoc.Loc"; "itemLoc.casItem"; "itemLoc.read"; "node.Evict"; "node.setNumBytes"; "node.setNumNodes"; "nodeLoc.LocNode"; "nodeLoc.isEmpty"; "nodeLoc.read"; "nodeLoc.setNode"; "ploc.isEmpty"; "ploc.read"; "populateNode"]);
  ("Store.walk", ["<dynamic:func(*gkvlite.node)(*gkvlite.nodeLoc,bool)>"; "<lit:Collection.EvictSomeItems#1>"; "<lit:Collection.MaxItem#1>"; "<lit:Collection.MinItem#1>"; "Collection.freeNodeLoc"; "Collection.freeNodeUnlocked"; "Collection.freeRootNodeLoc"; "Collection.markTreeReclaimableUnlocked"; "Collection.reclaimNodesUnlocked"; "Collection.rootAddRef"; "Collection.rootDecRef"; "Collection.rootDecRefUnlocked"; "Store.ItemAddRef"; "Store.ItemAlloc"; "Store.ItemDecRef"; "Store.ItemValRead"; "Store.walk"; "itemBa.getKeyLength"; "itemBa.getLength"; "itemBa.getPriority"; "itemBa.getValLength"; "itemBa.populate"; "itemLoc.Item"; "itemLoc.Loc"; "itemLoc.casItem"; "itemLoc.read"; "node.Evict"; "node.setNumBytes"; "node.setNumNodes"; "nodeLoc.LocNode"; "nodeLoc.Node"; "nodeLoc.isEmpty"; "nodeLoc.read"; "nodeLoc.setNode"; "ploc.isEmpty"; "ploc.read"; "populateNode"]);
  ("Store.writeRoots", ["<json.Marshal>"; "Collection.MarshalJSON"; "Collection.freeNodeLoc"; "Collection.freeNodeUnlocked"; "Collection.freeRootNodeLoc"; "Collection.markTreeReclaimableUnlocked"; "Collection.reclaimNodesUnlocked"; "Collection.rootAddRef"; "Collection.rootDecRef"; "Collection.rootDecRefUnlocked"; "Store.ItemDecRef"; "Store.writeRoots"; "itemLoc.Item"; "nodeLoc.Loc"; "nodeLoc.Node"; "nodeLoc.isEmpty"; "ploc.isEmpty"; "rootNodeLoc.MarshalJSON"]);
  ("StoreFile.Stat", ["StoreFile.Stat"]);
  ("StoreFile.Truncate", ["StoreFile.Truncate"]);
  ("ascendChoice", ["ascendChoice"]);
  ("collNames", ["collNames"]);
  ("copyColl", ["copyColl"]);
  ("descendChoice", ["descendChoice"]);
  ("dump", ["dump"; "dumpIndent"; "itemLoc.Item"; "node.setNumBytes"; "node.setNumNodes"; "nodeLoc.LocNode"; "nodeLoc.isEmpty"; "nodeLoc.read"; "nodeLoc.setNode"; "ploc.isEmpty"; "ploc.read"; "populateNode"]);
  ("dumpIndent", ["dumpIndent"]);
  ("itemBa.getKeyLength", ["itemBa.getKeyLength"]);
  ("itemBa.getLength", ["itemBa.getLength"]);
  ("itemBa.getPriority", ["itemBa.getPriority"]);
  ("itemBa.getValLength", ["itemBa.getValLength"]);
  ("itemBa.populate", ["itemBa.populate"]);
  ("itemBa.render", ["itemBa.render"]);
  ("itemLoc.Copy", ["itemLoc.Copy"]);
  ("itemLoc.Item", ["itemLoc.Item"]);
  ("itemLoc.Loc", ["itemLoc.Loc"]);
  ("itemLoc.NumBytes", ["Item.NumBytes"; "Item.NumValBytes"; "itemLoc.Item"; "itemLoc.Loc"; "itemLoc.NumBytes"; "ploc.isEmpty"]);
  ("itemLoc.casItem", ["itemLoc.casItem"]);
  ("itemLoc.read", ["Store.ItemAlloc"; "Store.ItemDecRef"; "Store.ItemValRead"; "itemBa.getKeyLength"; "itemBa.getLength"; "itemBa.getPriority"; "itemBa.getValLength"; "itemBa.populate"; "itemLoc.Item"; "itemLoc.Loc"; "itemLoc.casItem"; "itemLoc.read"; "ploc.isEmpty"]);
  ("itemLoc.setLoc", ["itemLoc.setLoc"]);
  ("itemLoc.write", ["Item.NumValBytes"; "Store.ItemValWrite"; "itemBa.render"; "itemLoc.Item"; "itemLoc.Loc"; "itemLoc.setLoc"; "itemLoc.write"; "ploc.isEmpty"]);
  ("iterator.Close", ["iterator.Close"]);
  ("iterator.Err", ["iterator.Err"]);
  ("iterator.Next", ["iterator.Next"]);
  ("iterator.Result", ["iterator.Result"]);
  ("newIterator", ["newIterator"]);
  ("node.Evict", ["itemLoc.Item"; "itemLoc.Loc"; "itemLoc.casItem"; "node.Evict"; "ploc.isEmpty"]);
  ("node.populateDiskStruct", ["itemLoc.Loc"; "node.populateDiskStruct"; "nodeLoc.Loc"; "ploc.write"]);
  ("node.setNumBytes", ["node.setNumBytes"]);
  ("node.setNumNodes", ["node.setNumNodes"]);
  ("nodeLoc.Copy", ["nodeLoc.Copy"]);
  ("nodeLoc.Loc", ["nodeLoc.Loc"]);
  ("nodeLoc.LocNode", ["nodeLoc.LocNode"]);
  ("nodeLoc.Node", ["nodeLoc.Node"]);
  ("nodeLoc.isEmpty", ["nodeLoc.isEmpty"; "ploc.isEmpty"]);
  ("nodeLoc.read", ["node.setNumBytes"; "node.setNumNodes"; "nodeLoc.LocNode"; "nodeLoc.read"; "nodeLoc.setNode"; "ploc.isEmpty"; "ploc.read"; "populateNode"]);
  ("nodeLoc.setLoc", ["nodeLoc.setLoc"]);
  ("nodeLoc.setNode", ["nodeLoc.setNode"]);
  ("nodeLoc.write", ["Store.getSize"; "Store.setSize"; "itemLoc.Loc"; "node.populateDiskStruct"; "nodeLoc.Loc"; "nodeLoc.LocNode"; "nodeLoc.setLoc"; "nodeLoc.write"; "ploc.isEmpty"; "ploc.write"]);
  ("numInfo", ["node.setNumBytes"; "node.setNumNodes"; "nodeLoc.LocNode"; "nodeLoc.isEmpty"; "nodeLoc.read"; "nodeLoc.setNode"; "numInfo"; "ploc.isEmpty"; "ploc.read"; "populateNode"]);
  ("ploc.isEmpty", ["ploc.isEmpty"]);
  ("ploc.read", ["ploc.isEmpty"; "ploc.read"]);
  ("ploc.write", ["ploc.write"]);
  ("populateNode", ["node.setNumBytes"; "node.setNumNodes"; "ploc.isEmpty"; "ploc.read"; "populateNode"]);
  ("rootNodeLoc.MarshalJSON", ["<json.Marshal>"; "Collection.MarshalJSON"; "Collection.freeNodeLoc"; "Collection.freeNodeUnlocked"; "Collection.freeRootNodeLoc"; "Collection.markTreeReclaimableUnlocked"; "Collection.reclaimNodesUnlocked"; "Collection.rootAddRef"; "Collection.rootDecRef"; "Collection.rootDecRefUnlocked"; "Store.ItemDecRef"; "itemLoc.Item"; "nodeLoc.Loc"; "nodeLoc.Node"; "nodeLoc.isEmpty"; "ploc.isEmpty"; "rootNodeLoc.MarshalJSON"]);
  ("rootsReadError.Error", ["<dynamic:func()(string)>"; "rootsReadError.Error"]);
  ("toBa", ["ByteAble.ToBa"; "toBa"]);
  ("view.emit", ["view.emit"]);
  ("view.emitItem", ["view.emit"; "view.emitItem"]);
  ("view.main", ["<dynamic:func(int,*gkvlite.node)(bool,*gkvlite.nodeLoc,*gkvlite.nodeLoc)>"; "<json.Unmarshal>"; "Collection.Name"; "Collection.UnmarshalJSON"; "Collection.VisitItemsAscendEx"; "Collection.freeNodeLoc"; "Collection.freeNodeUnlocked"; "Collection.freeRootNodeLoc"; "Collection.markTreeReclaimableUnlocked"; "Collection.mkNodeLoc"; "Collection.mkRootNodeLoc"; "Collection.reclaimNodesUnlocked"; "Collection.rootAddRef"; "Collection.rootCAS"; "Collection.rootDecRef"; "Collection.rootDecRefUnlocked"; "NewStore"; "NewStoreEx"; "Store.GetCollection"; "Store.GetCollectionNames"; "Store.ItemAddRef"; "Store.ItemAlloc"; "Store.ItemDecRef"; "Store.ItemValRead"; "Store.checkAndReadRoots"; "Store.getColl"; "Store.readRoots"; "Store.readRootsEnd"; "Store.readRootsScan"; "Store.scanBackwardsForMagicEnd"; "Store.setColl"; "Store.validateAndSetCollections"; "Store.visitNodes"; "StoreFile.Stat"; "ascendChoice"; "collNames"; "descendChoice"; "itemBa.getKeyLength"; "itemBa.getLength"; "itemBa.getPriority"; "itemBa.getValLength"; "itemBa.populate"; "itemLoc.Item"; "itemLoc.Loc"; "itemLoc.casItem"; "itemLoc.read"; "node.Evict"; "node.setNumBytes"; "node.setNumNodes"; "nodeLoc.LocNode"; "nodeLoc.Node"; "nodeLoc.isEmpty"; "nodeLoc.read"; "nodeLoc.setNode"; "ploc.isEmpty"; "ploc.read"; "populateNode"; "view.main"; "view.mainDo"]);
  ("view.mainDo", ["<dynamic:func(int,*gkvlite.node)(bool,*gkvlite.nodeLoc,*gkvlite.nodeLoc)>"; "<json.Unmarshal>"; "Collection.Name"; "Collection.UnmarshalJSON"; "Collection.VisitItemsAscendEx"; "Collection.freeNodeLoc"; "Collection.freeNodeUnlocked"; "Collection.freeRootNodeLoc"; "Collection.markTreeReclaimableUnlocked"; "Collection.mkNodeLoc"; "Collection.mkRootNodeLoc"; "Collection.reclaimNodesUnlocked"; "Collection.rootAddRef"; "Collection.rootCAS"; "Collection.rootDecRef"; "Collection.rootDecRefUnlocked"; "NewStore"; "NewStoreEx"; "Store.GetCollection"; "Store.GetCollectionNames"; "Store.ItemAddRef"; "Store.ItemAlloc"; "Store.ItemDecRef"; "Store.ItemValRead"; "Store.checkAndReadRoots"; "Store.getColl"; "Store.readRoots"; "Store.readRootsEnd"; "Store.readRootsScan"; "Store.scanBackwardsForMagicEnd"; "Store.setColl"; "Store.validateAndSetCollections"; "Store.visitNodes"; "StoreFile.Stat"; "ascendChoice"; "collNames"; "descendChoice"; "itemBa.getKeyLength"; "itemBa.getLength"; "itemBa.getPriority"; "itemBa.getValLength"; "itemBa.populate"; "itemLoc.Item"; "itemLoc.Loc"; "itemLoc.casItem"; "itemLoc.read"; "node.Evict"; "node.setNumBytes"; "node.setNumNodes"; "nodeLoc.LocNode"; "nodeLoc.Node"; "nodeLoc.isEmpty"; "nodeLoc.read"; "nodeLoc.setNode"; "ploc.isEmpty"; "ploc.read"; "populateNode"; "view.mainDo"]);
  ("view.usage", ["view.usage"]);
  ("withAllocLocks", ["<dynamic:func()()>"; "<lit:Collection.AllocStats#1>"; "<lit:Collection.iterate#1>"; "<lit:Store.Flush#1>"; "Collection.freeNodeLoc"; "Collection.freeNodeUnlocked"; "Collection.freeRootNodeLoc"; "Collection.markTreeReclaimableUnlocked"; "Collection.reclaimNodesUnlocked"; "Collection.rootDecRef"; "Collection.rootDecRefUnlocked"; "Store.ItemDecRef"; "itemLoc.Item"; "nodeLoc.Node"; "nodeLoc.isEmpty"; "ploc.isEmpty"; "view.usage"; "withAllocLocks"])
].

(* lock order: (A, B) = lock B is acquired, directly or below a callee, while lock A is held *)
Definition g_lock_order : list (string * string) := [("freeNodeLocLock", "freeRootNodeLocLock"); ("freeNodeLock", "freeNodeLocLock"); ("freeNodeLock", "freeRootNodeLocLock"); ("freeNodeLock", "itemLocGL"); ("freeNodeLock", "nodeLocGL"); ("rootLock", "freeNodeLocLock"); ("rootLock", "freeNodeLock"); ("rootLock", "freeRootNodeLocLock"); ("rootLock", "itemLocGL"); ("rootLock", "nodeLocGL")].

(* the function bodies, translated statement by statement (GExpr.v); opaque nodes keep their source text *)
Definition g_code : list (string * list gstmt) := [
  ("<lit:Collection.AllocStats#1>",
    [SAssign [(GVar "res")] "=" [(GVar "t.allocStats")]]);
  ("<lit:Collection.EvictSomeItems#1>",
    [SIf [SAssign [(GVar "j")] ":=" [(GCall "n.Evict" [])]] (GBin "!=" (GVar "j") GNil) [SExpr (GCall "t.store.ItemDecRef" [(GVar "t"); (GVar "j")]);
    SIncDec (GVar "numEvicted") true] [];
    SAssign [(GVar "next")] ":=" [(GUn "&" (GVar "n.left"))];
    SIf [] (GBin "==" (GBin "&" (GCall "rand.Int" []) (GInt 1)) (GInt 1)) [SAssign [(GVar "next")] "=" [(GUn "&" (GVar "n.right"))]] [];
    SIf [] (GCall "next.isEmpty" []) [SReturn [GNil; (GVar "false")]] [];
    SReturn [(GVar "next"); (GVar "true")]]);
  ("<lit:Collection.Len#1>",
    [SIncDec (GVar "l") true;
    SReturn [(GVar "true")]]);
  ("<lit:Collection.MaxItem#1>",
    [SReturn [(GUn "&" (GVar "n.right")); (GVar "true")]]);
  ("<lit:Collection.MinItem#1>",
    [SReturn [(GUn "&" (GVar "n.left")); (GVar "true")]]);
  ("<lit:Collection.VisitItemsAscend#1>",
    [SReturn [(GCall "v" [(GVar "i")])]]);
  ("<lit:Collection.VisitItemsAscendBlockEx#1>",
    [SIf [] (GBin "==" (GVar "j") (GInt 0)) [SAssign [(GVar "blockStore")] "=" [(GCall "append" [(GVar "blockStore"); (GCall "append" [(GCall "[]byte" [GNil]); (GVar "i.Key")])])];
    SAssign [(GVar "j")] "=" [(GInt 1)]] [SIf [] (GBin ">=" (GVar "j") (GVar "lenBlock")) [SAssign [(GVar "j")] "=" [(GInt 0)]] [SIncDec (GVar "j") true]];
    SReturn [(GVar "true")]]);
  ("<lit:Collection.VisitItemsAscendBlockEx#2>",
    [SIf [] (GBin ">" (GVar "j") (GVar "lenBlock")) [SExpr (GCall "panic" [(GLit """impossible""")])] [SIf [] (GBin "==" (GVar "j") (GVar "lenBlock")) [SExpr (GCall "visitor" [(GVar "i"); (GVar "depth")]);
    SReturn [(GVar "false")]] []];
    SIncDec (GVar "j") true;
    SReturn [(GCall "visitor" [(GVar "i"); (GVar "depth")])]]);
  ("<lit:Collection.VisitItemsAscendEx#1>",
    [SIf [] (GBin "&&" (GVar "havePrevVisitKey") (GBin ">" (GCall "t.compare" [(GVar "prevVisitKey"); (GVar "i.Key")]) (GInt 0))) [SAssign [(GVar "errCheckedVisitor")] "=" [(GCall "fmt.Errorf" [(GBin "+" (GLit """corrupted / out-of-order index""") (GLit """, key: %s vs %s, coll: %p, collName: %s, store: %p, storeFile: %v""")); (GCall "string" [(GVar "prevVisitKey")]); (GCall "string" [(GVar "i.Key")]); (GVar "t"); (GVar "t.name"); (GVar "t.store"); (GVar "t.store.file")])];
    SReturn [(GVar "false")]] [];
    SAssign [(GVar "prevVisitKey")] "=" [(GCall "append" [(GCall "[:]" [(GVar "prevVisitKey"); GNil; (GInt 0)]); (GVar "i.Key")])];
    SAssign [(GVar "havePrevVisitKey")] "=" [(GVar "true")];
    SReturn [(GCall "visitor" [(GVar "i"); (GVar "depth")])]]);
  ("<lit:Collection.VisitItemsDescend#1>",
    [SReturn [(GCall "v" [(GVar "i")])]]);
  ("<lit:Collection.VisitItemsRandom#1>",
    [SIf [] (GBin "==" (GVar "j") (GInt 0)) [SAssign [(GVar "blockStore")] "=" [(GCall "append" [(GVar "blockStore"); (GCall "append" [(GCall "[]byte" [GNil]); (GVar "i.Key")])])];
    SAssign [(GVar "j")] "=" [(GInt 1)]] [SIf [] (GBin ">=" (GVar "j") (GVar "lenBlock")) [SAssign [(GVar "j")] "=" [(GInt 0)]] [SIncDec (GVar "j") true]];
    SReturn [(GVar "true")]]);
  ("<lit:Collection.VisitItemsRandom#2>",
    [SIf [] (GVar "first") [SAssign [(GVar "first")] "=" [(GVar "false")];
    SReturn [(GCall "visitor" [(GVar "itm"); (GVar "depth")])]] [];
    SAssign [(GVar "first")] "=" [(GVar "true")];
    SAssign [(GVar "advanced")] "=" [(GVar "true")];
    SAssign [(GCall "[]" [(GVar "blockStore"); (GVar "i")])] "=" [(GCall "append" [(GCall "[]byte" [GNil]); (GVar "itm.Key")])];
    SReturn [(GVar "false")]]);
  ("<lit:Collection.iterate#1>",
    [SOther "it.items <- i";
    SAssign [(GVar "_"); (GVar "ok")] ":=" [(GUn "<-" (GVar "it.next"))];
    SReturn [(GVar "ok")]]);
  ("<lit:Collection.iteratorVisitorAscend#1>",
    [SReturn [(GCall "c.VisitItemsAscend" [(GVar "it.target"); (GVar "it.withValue"); (GVar "v")])]]);
  ("<lit:Collection.iteratorVisitorDescend#1>",
    [SReturn [(GCall "c.VisitItemsDescend" [(GVar "it.target"); (GVar "it.withValue"); (GVar "v")])]]);
  ("<lit:Store.CopyTo#1>",
    [SIf [SAssign [(GVar "errCopyItem")] "=" [(GCall "dstColl.SetItem" [(GVar "i")])]] (GBin "!=" (GVar "errCopyItem") GNil) [SReturn [(GVar "false")]] [];
    SIncDec (GVar "numItems") true;
    SIf [] (GBin ">" (GVar "depth") (GVar "maxDepth")) [SAssign [(GVar "maxDepth")] "=" [(GVar "depth")]] [];
    SIf [] (GBin "&&" (GBin ">" (GVar "flushEvery") (GInt 0)) (GBin "==" (GBin "%" (GVar "numItems") (GVar "flushEvery")) (GInt 0))) [SExpr (GCall "srcColl.EvictSomeItems" []);
    SIf [SAssign [(GVar "errCopyItem")] "=" [(GCall "dstStore.Flush" [])]] (GBin "!=" (GVar "errCopyItem") GNil) [SReturn [(GVar "false")]] []] [];
    SReturn [(GVar "true")]]);
  ("Collection.AllocStats",
    [SExpr (GCall "withAllocLocks" [(GFun "<lit:Collection.AllocStats#1>")]);
    SReturn [(GVar "res")]]);
  ("Collection.Delete",
    [SIf [] (GVar "t.store.readOnly") [SReturn [(GVar "false"); (GCall "errors.New" [(GLit """store is read only""")])]] [];
    SAssign [(GVar "rnl")] ":=" [(GCall "t.rootAddRef" [])];
    SDefer (GCall "t.rootDecRef" [(GVar "rnl")]);
    SAssign [(GVar "root")] ":=" [(GVar "rnl.root")];
    SAssign [(GVar "i"); (GVar "err")] ":=" [(GCall "t.GetItem" [(GVar "key"); (GVar "false")])];
    SIf [] (GBin "||" (GBin "!=" (GVar "err") GNil) (GBin "==" (GVar "i") GNil)) [SReturn [(GVar "false"); (GVar "err")]] [];
    SExpr (GCall "t.store.ItemDecRef" [(GVar "t"); (GVar "i")]);
    SAssign [(GVar "left"); (GVar "middle"); (GVar "right"); (GVar "err")] ":=" [(GCall "t.store.split" [(GVar "t"); (GVar "root"); (GVar "key"); (GUn "&" (GVar "rnl.reclaimMark"))])];
    SIf [] (GBin "!=" (GVar "err") GNil) [SExpr (GCall "t.unmarkReclaimable" [(GVar "root"); (GUn "&" (GVar "rnl.reclaimMark"))]);
    SReturn [(GVar "false"); (GVar "err")]] [];
    SDefer (GCall "t.freeNodeLoc" [(GVar "left")]);
    SDefer (GCall "t.freeNodeLoc" [(GVar "right")]);
    SDefer (GCall "t.freeNodeLoc" [(GVar "middle")]);
    SIf [] (GCall "middle.isEmpty" []) [SReturn [(GVar "false"); (GCall "fmt.Errorf" [(GLit """concurrent delete, key: %v"""); (GVar "key")])]] [];
    SAssign [(GVar "r"); (GVar "err")] ":=" [(GCall "t.store.join" [(GVar "t"); (GVar "left"); (GVar "right"); (GUn "&" (GVar "rnl.reclaimMark"))])];
    SIf [] (GBin "!=" (GVar "err") GNil) [SExpr (GCall "t.unmarkReclaimable" [(GVar "root"); (GUn "&" (GVar "rnl.reclaimMark"))]);
    SReturn [(GVar "false"); (GVar "err")]] [];
    SAssign [(GVar "rnlNew")] ":=" [(GCall "t.mkRootNodeLoc" [(GVar "r")])];
    SAssign [(GCall "[]" [(GVar "rnlNew.reclaimLater"); (GInt 0)])] "=" [(GCall "t.reclaimMarkUpdate" [(GVar "left"); (GUn "&" (GVar "rnl.reclaimMark")); (GUn "&" (GVar "rnlNew.reclaimMark"))])];
    SAssign [(GCall "[]" [(GVar "rnlNew.reclaimLater"); (GInt 1)])] "=" [(GCall "t.reclaimMarkUpdate" [(GVar "right"); (GUn "&" (GVar "rnl.reclaimMark")); (GUn "&" (GVar "rnlNew.reclaimMark"))])];
    SAssign [(GCall "[]" [(GVar "rnlNew.reclaimLater"); (GInt 2)])] "=" [(GCall "t.reclaimMarkUpdate" [(GVar "middle"); (GUn "&" (GVar "rnl.reclaimMark")); (GUn "&" (GVar "rnlNew.reclaimMark"))])];
    SExpr (GCall "t.markReclaimable" [(GCall "[]" [(GVar "rnlNew.reclaimLater"); (GInt 2)]); (GUn "&" (GVar "rnlNew.reclaimMark"))]);
    SIf [] (GUn "!" (GCall "t.rootCAS" [(GVar "rnl"); (GVar "rnlNew")])) [SReturn [(GVar "false"); (GCall "errors.New" [(GLit """concurrent mutation attempted""")])]] [];
    SExpr (GCall "t.rootDecRef" [(GVar "rnl")]);
    SReturn [(GVar "true"); GNil]]);
  ("Collection.DeleteAny",
    [SReturn [(GCall "t.Delete" [(GCall "toBa" [(GVar "key")])])]]);
  ("Collection.EvictSomeItems",
    [SIf [] (GVar "t.store.readOnly") [SReturn [(GInt 0)]] [];
    SAssign [(GVar "i"); (GVar "err")] ":=" [(GCall "t.store.walk" [(GVar "t"); (GVar "false"); (GFun "<lit:Collection.EvictSomeItems#1>")])];
    SIf [] (GBin "&&" (GBin "!=" (GVar "i") GNil) (GBin "!=" (GVar "err") GNil)) [SExpr (GCall "t.store.ItemDecRef" [(GVar "t"); (GVar "i")])] [];
    SReturn [(GVar "numEvicted")]]);
  ("Collection.Exist",
    [SAssign [(GVar "val"); (GVar "_")] ":=" [(GCall "t.GetItem" [(GVar "key"); (GVar "false")])];
    SIf [] (GBin "!=" (GVar "val") GNil) [SExpr (GCall "t.store.ItemDecRef" [(GVar "t"); (GVar "val")]);
    SReturn [(GVar "true")]] [];
    SReturn [(GVar "false")]]);
  ("Collection.ExistAny",
    [SReturn [(GCall "t.Exist" [(GCall "toBa" [(GVar "key")])])]]);
  ("Collection.Get",
    [SAssign [(GVar "i"); (GVar "err")] ":=" [(GCall "t.GetItem" [(GVar "key"); (GVar "true")])];
    SIf [] (GBin "!=" (GVar "err") GNil) [SReturn [GNil; (GVar "err")]] [];
    SIf [] (GBin "!=" (GVar "i") GNil) [SReturn [(GVar "i.Val"); GNil]] [];
    SReturn [GNil; GNil]]);
  ("Collection.GetAny",
    [SReturn [(GCall "t.Get" [(GCall "toBa" [(GVar "key")])])]]);
  ("Collection.GetItem",
    [SAssign [(GVar "rnl")] ":=" [(GCall "t.rootAddRef" [])];
    SDefer (GCall "t.rootDecRef" [(GVar "rnl")]);
    SAssign [(GVar "n")] ":=" [(GVar "rnl.root")];
    SFor [] None [] [SAssign [(GVar "nNode"); (GVar "err")] ":=" [(GCall "n.read" [(GVar "t.store")])];
    SIf [] (GBin "||" (GBin "||" (GBin "!=" (GVar "err") GNil) (GCall "n.isEmpty" [])) (GBin "==" (GVar "nNode") GNil)) [SReturn [GNil; (GVar "err")]] [];
    SAssign [(GVar "i")] ":=" [(GUn "&" (GVar "nNode.item"))];
    SAssign [(GVar "iItem"); (GVar "err")] ":=" [(GCall "i.read" [(GVar "t"); (GVar "false")])];
    SIf [] (GBin "!=" (GVar "err") GNil) [SReturn [GNil; (GVar "err")]] [];
    SIf [] (GBin "||" (GBin "==" (GVar "iItem") GNil) (GBin "==" (GVar "iItem.Key") GNil)) [SReturn [GNil; (GCall "errors.New" [(GLit """missing item after item.read() in GetItem()""")])]] [];
    SAssign [(GVar "c")] ":=" [(GCall "t.compare" [(GVar "key"); (GVar "iItem.Key")])];
    SIf [] (GBin "<" (GVar "c") (GInt 0)) [SAssign [(GVar "n")] "=" [(GUn "&" (GVar "nNode.left"))]] [SIf [] (GBin ">" (GVar "c") (GInt 0)) [SAssign [(GVar "n")] "=" [(GUn "&" (GVar "nNode.right"))]] [SIf [] (GVar "withValue") [SAssign [(GVar "iItem"); (GVar "err")] "=" [(GCall "i.read" [(GVar "t"); (GVar "withValue")])];
    SIf [] (GBin "!=" (GVar "err") GNil) [SReturn [GNil; (GVar "err")]] []] [];
    SExpr (GCall "t.store.ItemAddRef" [(GVar "t"); (GVar "iItem")]);
    SReturn [(GVar "iItem"); GNil]]]]]);
  ("Collection.GetTotals",
    [SAssign [(GVar "rnl")] ":=" [(GCall "t.rootAddRef" [])];
    SDefer (GCall "t.rootDecRef" [(GVar "rnl")]);
    SAssign [(GVar "n")] ":=" [(GVar "rnl.root")];
    SAssign [(GVar "nNode"); (GVar "err")] ":=" [(GCall "n.read" [(GVar "t.store")])];
    SIf [] (GBin "||" (GBin "||" (GBin "!=" (GVar "err") GNil) (GCall "n.isEmpty" [])) (GBin "==" (GVar "nNode") GNil)) [SReturn [(GInt 0); (GInt 0); (GVar "err")]] [];
    SReturn [(GVar "nNode.numNodes"); (GVar "nNode.numBytes"); GNil]]);
  ("Collection.IterateAscend",
    [SAssign [(GVar "it")] ":=" [(GCall "newIterator" [(GVar "target"); (GVar "withValue")])];
    SGo (GCall "t.iteratorVisitorAscend" [(GVar "it")]);
    SReturn [(GVar "it")]]);
  ("Collection.IterateDescend",
    [SAssign [(GVar "it")] ":=" [(GCall "newIterator" [(GVar "target"); (GVar "withValue")])];
    SGo (GCall "t.iteratorVisitorDescend" [(GVar "it")]);
    SReturn [(GVar "it")]]);
  ("Collection.Len",
    [SAssign [(GVar "visitor")] ":=" [(GFun "<lit:Collection.Len#1>")];
    SAssign [(GVar "si"); (GVar "err")] ":=" [(GCall "t.MinItem" [(GVar "false")])];
    SIf [] (GBin "||" (GBin "!=" (GVar "err") GNil) (GBin "==" (GVar "si") GNil)) [SReturn []] [];
    SDefer (GCall "t.store.ItemDecRef" [(GVar "t"); (GVar "si")]);
    SAssign [(GVar "err")] "=" [(GCall "t.VisitItemsAscendEx" [(GVar "si.Key"); (GVar "false"); (GVar "visitor")])];
    SReturn []]);
  ("Collection.MarshalJSON",
    [SAssign [(GVar "rnl")] ":=" [(GCall "t.rootAddRef" [])];
    SDefer (GCall "t.rootDecRef" [(GVar "rnl")]);
    SReturn [(GCall "rnl.MarshalJSON" [])]]);
  ("Collection.MaxItem",
    [SReturn [(GCall "t.store.walk" [(GVar "t"); (GVar "withValue"); (GFun "<lit:Collection.MaxItem#1>")])]]);
  ("Collection.MinItem",
    [SReturn [(GCall "t.store.walk" [(GVar "t"); (GVar "withValue"); (GFun "<lit:Collection.MinItem#1>")])]]);
  ("Collection.Name",
    [SReturn [(GVar "t.name")]]);
  ("Collection.Set",
    [SReturn [(GCall "t.SetItem" [(GUn "&" (GOther "Item{Key: key, Val: val, Priority: rand.Int31()}"))])]]);
  ("Collection.SetAny",
    [SReturn [(GCall "t.Set" [(GCall "toBa" [(GVar "key")]); (GCall "toBa" [(GVar "val")])])]]);
  ("Collection.SetItem",
    [SIf [] (GVar "t.store.readOnly") [SReturn [(GCall "errors.New" [(GLit """store is read only""")])]] [];
    SIf [] (GBin "||" (GBin "||" (GBin "||" (GBin "==" (GVar "item.Key") GNil) (GBin ">" (GCall "len" [(GVar "item.Key")]) (GInt 65535))) (GBin "==" (GCall "len" [(GVar "item.Key")]) (GInt 0))) (GBin "==" (GVar "item.Val") GNil)) [SReturn [(GCall "errors.New" [(GLit """Item.Key/Val missing or too long""")])]] [];
    SIf [] (GBin "<" (GVar "item.Priority") (GInt 0)) [SReturn [(GCall "errors.New" [(GLit """Item.Priority must be non-negative""")])]] [];
    SAssign [(GVar "rnl")] ":=" [(GCall "t.rootAddRef" [])];
    SDefer (GCall "t.rootDecRef" [(GVar "rnl")]);
    SAssign [(GVar "root")] ":=" [(GVar "rnl.root")];
    SAssign [(GVar "n")] ":=" [(GCall "t.mkNode" [GNil; GNil; GNil; (GInt 1); (GBin "+" (GCall "uint64" [(GCall "len" [(GVar "item.Key")])]) (GCall "uint64" [(GCall "item.NumValBytes" [(GVar "t")])]))])];
    SExpr (GCall "t.store.ItemAddRef" [(GVar "t"); (GVar "item")]);
    SAssign [(GVar "n.item.item")] "=" [(GVar "item")];
    SAssign [(GVar "nloc")] ":=" [(GCall "t.mkNodeLoc" [(GVar "n")])];
    SDefer (GCall "t.freeNodeLoc" [(GVar "nloc")]);
    SAssign [(GVar "r"); (GVar "err")] ":=" [(GCall "t.store.union" [(GVar "t"); (GVar "root"); (GVar "nloc"); (GUn "&" (GVar "rnl.reclaimMark"))])];
    SIf [] (GBin "!=" (GVar "err") GNil) [SExpr (GCall "t.unmarkReclaimable" [(GVar "root"); (GUn "&" (GVar "rnl.reclaimMark"))]);
    SReturn [(GVar "err")]] [];
    SAssign [(GVar "rnlNew")] ":=" [(GCall "t.mkRootNodeLoc" [(GVar "r")])];
    SAssign [(GCall "[]" [(GVar "rnlNew.reclaimLater"); (GInt 0)])] "=" [(GCall "t.reclaimMarkUpdate" [(GVar "nloc"); (GUn "&" (GVar "rnl.reclaimMark")); (GUn "&" (GVar "rnlNew.reclaimMark"))])];
    SIf [] (GUn "!" (GCall "t.rootCAS" [(GVar "rnl"); (GVar "rnlNew")])) [SReturn [(GCall "errors.New" [(GLit """concurrent mutation attempted""")])]] [];
    SExpr (GCall "t.rootDecRef" [(GVar "rnl")]);
    SReturn [GNil]]);
  ("Collection.UnmarshalJSON",
    [SAssign [(GVar "p")] ":=" [(GOther "ploc{}")];
    SIf [SAssign [(GVar "err")] ":=" [(GCall "json.Unmarshal" [(GVar "d"); (GUn "&" (GVar "p"))])]] (GBin "!=" (GVar "err") GNil) [SReturn [(GVar "err")]] [];
    SIf [] (GBin "==" (GVar "t.rootLock") GNil) [SAssign [(GVar "t.rootLock")] "=" [(GUn "&" (GOther "sync.Mutex{}"))]] [];
    SAssign [(GVar "nloc")] ":=" [(GCall "t.mkNodeLoc" [GNil])];
    SAssign [(GVar "nloc.loc")] "=" [(GUn "&" (GVar "p"))];
    SIf [] (GUn "!" (GCall "t.rootCAS" [GNil; (GCall "t.mkRootNodeLoc" [(GVar "nloc")])])) [SReturn [(GCall "errors.New" [(GLit """concurrent mutation during UnmarshalJSON()""")])]] [];
    SReturn [GNil]]);
  ("Collection.VisitItemsAscend",
    [SReturn [(GCall "t.VisitItemsAscendEx" [(GVar "target"); (GVar "withValue"); (GFun "<lit:Collection.VisitItemsAscend#1>")])]]);
  ("Collection.VisitItemsAscendBlockEx",
    [SAssign [(GVar "numBlocks"); (GVar "lenBlock"); (GVar "err")] ":=" [(GCall "t.determineBlocks" [])];
    SIf [] (GBin "!=" (GVar "err") GNil) [SReturn [(GVar "err")]] [];
    SIf [] (GBin "||" (GBin "<" (GVar "lenBlock") (GInt 1)) (GBin "<" (GVar "numBlocks") (GInt 1))) [SReturn [(GCall "fmt.Errorf" [(GLit """impossible block sizes,%d,%d"""); (GVar "lenBlock"); (GVar "numBlocks")])]] [];
    SAssign [(GVar "blockStore")] ":=" [(GCall "make" [(GOther "[][]byte"); (GInt 0); (GVar "numBlocks")])];
    SVar "j" None;
    SAssign [(GVar "v")] ":=" [(GFun "<lit:Collection.VisitItemsAscendBlockEx#1>")];
    SAssign [(GVar "si"); (GVar "err")] ":=" [(GCall "t.MinItem" [(GVar "false")])];
    SIf [] (GBin "!=" (GVar "err") GNil) [SReturn [(GVar "err")]] [];
    SDefer (GCall "t.store.ItemDecRef" [(GVar "t"); (GVar "si")]);
    SAssign [(GVar "err")] "=" [(GCall "t.VisitItemsAscendEx" [(GVar "si.Key"); (GVar "false"); (GVar "v")])];
    SIf [] (GBin "!=" (GVar "err") GNil) [SReturn [(GVar "err")]] [];
    SIf [] (GBin "!=" (GVar "blockMan") GNil) [SAssign [(GVar "blockStore")] "=" [(GCall "blockMan" [(GVar "blockStore")])]] [];
    SRange (GVar "_") (GVar "si") (GVar "blockStore") [SAssign [(GVar "j")] ":=" [(GInt 0)];
    SAssign [(GVar "vis")] ":=" [(GFun "<lit:Collection.VisitItemsAscendBlockEx#2>")];
    SAssign [(GVar "err")] "=" [(GCall "t.VisitItemsAscendEx" [(GVar "si"); (GVar "withValue"); (GVar "vis")])];
    SIf [] (GBin "!=" (GVar "err") GNil) [SReturn [(GVar "err")]] []];
    SReturn [GNil]]);
  ("Collection.VisitItemsAscendEx",
    [SAssign [(GVar "rnl")] ":=" [(GCall "t.rootAddRef" [])];
    SDefer (GCall "t.rootDecRef" [(GVar "rnl")]);
    SVar "prevVisitKey" None;
    SAssign [(GVar "havePrevVisitKey")] ":=" [(GVar "false")];
    SVar "errCheckedVisitor" None;
    SAssign [(GVar "checkedVisitor")] ":=" [(GFun "<lit:Collection.VisitItemsAscendEx#1>")];
    SAssign [(GVar "_"); (GVar "err")] ":=" [(GCall "t.store.visitNodes" [(GVar "t"); (GVar "rnl.root"); (GVar "target"); (GVar "withValue"); (GVar "checkedVisitor"); (GInt 0); (GVar "ascendChoice")])];
    SIf [] (GBin "!=" (GVar "errCheckedVisitor") GNil) [SReturn [(GVar "errCheckedVisitor")]] [];
    SReturn [(GVar "err")]]);
  ("Collection.VisitItemsDescend",
    [SReturn [(GCall "t.VisitItemsDescendEx" [(GVar "target"); (GVar "withValue"); (GFun "<lit:Collection.VisitItemsDescend#1>")])]]);
  ("Collection.VisitItemsDescendEx",
    [SAssign [(GVar "rnl")] ":=" [(GCall "t.rootAddRef" [])];
    SDefer (GCall "t.rootDecRef" [(GVar "rnl")]);
    SAssign [(GVar "_"); (GVar "err")] ":=" [(GCall "t.store.visitNodes" [(GVar "t"); (GVar "rnl.root"); (GVar "target"); (GVar "withValue"); (GVar "visitor"); (GInt 0); (GVar "descendChoice")])];
    SReturn [(GVar "err")]]);
  ("Collection.VisitItemsRandom",
    [SAssign [(GVar "numBlocks"); (GVar "lenBlock"); (GVar "err")] ":=" [(GCall "t.determineBlocks" [])];
    SIf [] (GBin "!=" (GVar "err") GNil) [SReturn [(GVar "err")]] [];
    SIf [] (GBin "||" (GBin "<" (GVar "lenBlock") (GInt 1)) (GBin "<" (GVar "numBlocks") (GInt 1))) [SReturn [(GCall "fmt.Errorf" [(GLit """impossible block sizes,%d,%d"""); (GVar "lenBlock"); (GVar "numBlocks")])]] [];
    SAssign [(GVar "blockStore")] ":=" [(GCall "make" [(GOther "[][]byte"); (GInt 0); (GVar "numBlocks")])];
    SVar "j" None;
    SAssign [(GVar "v")] ":=" [(GFun "<lit:Collection.VisitItemsRandom#1>")];
    SAssign [(GVar "si"); (GVar "err")] ":=" [(GCall "t.MinItem" [(GVar "false")])];
    SIf [] (GBin "!=" (GVar "err") GNil) [SReturn [(GVar "err")]] [];
    SDefer (GCall "t.store.ItemDecRef" [(GVar "t"); (GVar "si")]);
    SAssign [(GVar "err")] "=" [(GCall "t.VisitItemsAscendEx" [(GVar "si.Key"); (GVar "false"); (GVar "v")])];
    SIf [] (GBin "!=" (GVar "err") GNil) [SReturn [(GVar "err")]] [];
    SAssign [(GVar "blockStore")] "=" [(GCall "RandBm" [(GVar "blockStore")])];
    SFor [SAssign [(GVar "j")] ":=" [(GBin "+" (GVar "lenBlock") (GInt 1))]] (Some (GBin ">" (GVar "j") (GInt 0))) [SIncDec (GVar "j") false] [SRange (GVar "i") (GVar "si") (GVar "blockStore") [SIf [] (GBin "==" (GVar "si") GNil) [SBranch "continue"] [];
    SAssign [(GVar "first")] ":=" [(GVar "true")];
    SAssign [(GVar "advanced")] ":=" [(GVar "false")];
    SAssign [(GVar "vis")] ":=" [(GFun "<lit:Collection.VisitItemsRandom#2>")];
    SAssign [(GVar "err")] "=" [(GCall "t.VisitItemsAscendEx" [(GVar "si"); (GVar "true"); (GVar "vis")])];
    SIf [] (GBin "!=" (GVar "err") GNil) [SReturn [(GVar "err")]] [];
    SIf [] (GUn "!" (GVar "advanced")) [SAssign [(GCall "[]" [(GVar "blockStore"); (GVar "i")])] "=" [GNil]] []]];
    SReturn [GNil]]);
  ("Collection.Write",
    [SIf [] (GVar "t.store.readOnly") [SReturn [(GCall "errors.New" [(GLit """store is read only""")])]] [];
    SAssign [(GVar "rnl")] ":=" [(GCall "t.rootAddRef" [])];
    SDefer (GCall "t.rootDecRef" [(GVar "rnl")]);
    SReturn [(GCall "t.write" [(GVar "rnl.root")])]]);
  ("Collection.closeCollection",
    [SIf [] (GBin "==" (GVar "t") GNil) [SReturn []] [];
    SExpr (GCall "t.rootLock.Lock" []);
    SAssign [(GVar "r")] ":=" [(GVar "t.root")];
    SAssign [(GVar "t.root")] "=" [GNil];
    SExpr (GCall "t.rootLock.Unlock" []);
    SIf [] (GBin "!=" (GVar "r") GNil) [SExpr (GCall "t.rootDecRef" [(GVar "r")])] []]);
  ("Collection.determineBlocks",
    [SVar "cnt" None;
    SAssign [(GVar "cnt"); (GVar "err")] "=" [(GCall "t.Len" [])];
    SIf [] (GBin "!=" (GVar "err") GNil) [SReturn [(GInt 0); (GInt 0); (GVar "err")]] [];
    SIf [] (GBin ">" (GVar "cnt") (GInt 1024)) [SAssign [(GVar "size")] ":=" [(GBin "/" (GVar "cnt") (GInt 1024))];
    SIf [] (GBin "!=" (GBin "%" (GVar "cnt") (GInt 1024)) (GInt 0)) [SIncDec (GVar "size") true] [];
    SReturn [(GInt 1024); (GCall "int" [(GVar "size")]); GNil]] [];
    SReturn [(GCall "int" [(GVar "cnt")]); (GInt 1); GNil]]);
  ("Collection.freeNodeLoc",
    [SIf [] (GBin "||" (GBin "==" (GVar "nloc") GNil) (GBin "==" (GVar "nloc") (GUn "&" (GVar "emptyNodeLoc")))) [SReturn []] [];
    SIf [] (GBin "!=" (GVar "nloc.next") GNil) [SExpr (GCall "panic" [(GLit """double free nodeLoc""")])] [];
    SAssign [(GVar "nloc.loc")] "=" [GNil];
    SAssign [(GVar "nloc.node")] "=" [GNil];
    SExpr (GCall "freeNodeLocLock.Lock" []);
    SAssign [(GVar "nloc.next")] "=" [(GVar "freeNodeLocs")];
    SAssign [(GVar "freeNodeLocs")] "=" [(GVar "nloc")];
    SIncDec (GVar "allocStats.CurFreeNodeLocs") true;
    SIncDec (GVar "allocStats.FreeNodeLocs") true;
    SIncDec (GVar "t.allocStats.FreeNodeLocs") true;
    SExpr (GCall "freeNodeLocLock.Unlock" [])]);
  ("Collection.freeNodeUnlocked",
    [SIf [] (GBin "||" (GBin "==" (GVar "n") GNil) (GBin "==" (GVar "n") (GVar "reclaimMark"))) [SReturn []] [];
    SIf [] (GBin "&&" (GBin "!=" (GVar "n.next") GNil) (GBin "!=" (GVar "n.next") (GVar "reclaimMark"))) [SExpr (GCall "panic" [(GLit """double free node""")])] [];
    SAssign [(GVar "i")] ":=" [(GCall "n.item.Item" [])];
    SIf [] (GBin "!=" (GVar "i") GNil) [SExpr (GCall "t.store.ItemDecRef" [(GVar "t"); (GVar "i")])] [];
    SAssign [(GVar "n.item")] "=" [(GOther "itemLoc{}")];
    SAssign [(GVar "n.left")] "=" [(GOther "nodeLoc{}")];
    SAssign [(GVar "n.right")] "=" [(GOther "nodeLoc{}")];
    SAssign [(GVar "n.numNodes")] "=" [(GInt 0)];
    SAssign [(GVar "n.numBytes")] "=" [(GInt 0)];
    SAssign [(GVar "n.next")] "=" [(GVar "freeNodes")];
    SAssign [(GVar "freeNodes")] "=" [(GVar "n")];
    SIncDec (GVar "allocStats.CurFreeNodes") true;
    SIncDec (GVar "allocStats.FreeNodes") true;
    SIncDec (GVar "t.allocStats.FreeNodes") true]);
  ("Collection.freeRootNodeLoc",
    [SIf [] (GBin "==" (GVar "rnl") GNil) [SReturn []] [];
    SIf [] (GBin "!=" (GVar "rnl.next") GNil) [SExpr (GCall "panic" [(GLit """double free rootNodeLoc""")])] [];
    SAssign [(GVar "rnl.refs")] "=" [(GInt 0)];
    SAssign [(GVar "rnl.root")] "=" [GNil];
    SAssign [(GVar "rnl.chainedCollection")] "=" [GNil];
    SAssign [(GVar "rnl.chainedRootNodeLoc")] "=" [GNil];
    SFor [SAssign [(GVar "i")] ":=" [(GInt 0)]] (Some (GBin "<" (GVar "i") (GInt 3))) [SIncDec (GVar "i") true] [SIf [] (GBin "!=" (GCall "[]" [(GVar "rnl.reclaimLater"); (GVar "i")]) GNil) [SExpr (GCall "panic" [(GCall "fmt.Sprintf" [(GLit """non-nil rnl.reclaimLater[%d]: %v"""); (GVar "i"); (GCall "[]" [(GVar "rnl.reclaimLater"); (GVar "i")])])])] []];
    SExpr (GCall "freeRootNodeLocLock.Lock" []);
    SAssign [(GVar "rnl.next")] "=" [(GVar "freeRootNodeLocs")];
    SAssign [(GVar "freeRootNodeLocs")] "=" [(GVar "rnl")];
    SIncDec (GVar "allocStats.CurFreeRootNodeLocs") true;
    SIncDec (GVar "allocStats.FreeRootNodeLocs") true;
    SIncDec (GVar "t.allocStats.FreeRootNodeLocs") true;
    SExpr (GCall "freeRootNodeLocLock.Unlock" [])]);
  ("Collection.iterate",
    [SDefer (GCall "func() {  close(it.items)   for range it.next {  } }" []);
    SIf [SAssign [(GVar "_"); (GVar "ok")] ":=" [(GUn "<-" (GVar "it.next"))]] (GUn "!" (GVar "ok")) [SReturn []] [];
    SAssign [(GVar "it.err")] "=" [(GCall "v" [(GVar "t"); (GFun "<lit:Collection.iterate#1>")])]]);
  ("Collection.iteratorVisitorAscend",
    [SExpr (GCall "t.iterate" [(GVar "it"); (GFun "<lit:Collection.iteratorVisitorAscend#1>")])]);
  ("Collection.iteratorVisitorDescend",
    [SExpr (GCall "t.iterate" [(GVar "it"); (GFun "<lit:Collection.iteratorVisitorDescend#1>")])]);
  ("Collection.markReclaimable",
    [SExpr (GCall "t.rootLock.Lock" []);
    SDefer (GCall "t.rootLock.Unlock" []);
    SIf [] (GBin "||" (GBin "||" (GBin "==" (GVar "n") GNil) (GBin "!=" (GVar "n.next") GNil)) (GBin "==" (GVar "n") (GVar "reclaimMark"))) [SReturn []] [];
    SAssign [(GVar "n.next")] "=" [(GVar "reclaimMark")]]);
  ("Collection.markTreeReclaimableUnlocked",
    [SIf [] (GCall "nloc.isEmpty" []) [SReturn []] [];
    SAssign [(GVar "n")] ":=" [(GCall "nloc.Node" [])];
    SIf [] (GBin "||" (GBin "==" (GVar "n") GNil) (GBin "!=" (GVar "n.next") GNil)) [SReturn []] [];
    SAssign [(GVar "n.next")] "=" [(GVar "reclaimMark")];
    SExpr (GCall "t.markTreeReclaimableUnlocked" [(GUn "&" (GVar "n.left")); (GVar "reclaimMark")]);
    SExpr (GCall "t.markTreeReclaimableUnlocked" [(GUn "&" (GVar "n.right")); (GVar "reclaimMark")])]);
  ("Collection.mkNode",
    [SExpr (GCall "freeNodeLock.Lock" []);
    SIncDec (GVar "allocStats.MkNodes") true;
    SIncDec (GVar "t.allocStats.MkNodes") true;
    SAssign [(GVar "n")] ":=" [(GVar "freeNodes")];
    SIf [] (GBin "==" (GVar "n") GNil) [SIncDec (GVar "allocStats.AllocNodes") true;
    SIncDec (GVar "t.allocStats.AllocNodes") true;
    SExpr (GCall "freeNodeLock.Unlock" []);
    SExpr (GCall "atomic.AddUint64" [(GUn "&" (GVar "t.store.nodeAllocs")); (GInt 1)]);
    SAssign [(GVar "n")] "=" [(GUn "&" (GOther "node{}"))]] [SAssign [(GVar "freeNodes")] "=" [(GVar "n.next")];
    SIncDec (GVar "allocStats.CurFreeNodes") false;
    SExpr (GCall "freeNodeLock.Unlock" [])];
    SIf [] (GBin "!=" (GVar "itemIn") GNil) [SAssign [(GVar "i")] ":=" [(GCall "itemIn.Item" [])];
    SIf [] (GBin "!=" (GVar "i") GNil) [SExpr (GCall "t.store.ItemAddRef" [(GVar "t"); (GVar "i")])] []] [];
    SExpr (GCall "n.item.Copy" [(GVar "itemIn")]);
    SExpr (GCall "n.left.Copy" [(GVar "leftIn")]);
    SExpr (GCall "n.right.Copy" [(GVar "rightIn")]);
    SAssign [(GVar "n.numNodes")] "=" [(GVar "numNodesIn")];
    SAssign [(GVar "n.numBytes")] "=" [(GVar "numBytesIn")];
    SAssign [(GVar "n.next")] "=" [GNil];
    SReturn [(GVar "n")]]);
  ("Collection.mkNodeLoc",
    [SExpr (GCall "freeNodeLocLock.Lock" []);
    SIncDec (GVar "allocStats.MkNodeLocs") true;
    SIncDec (GVar "t.allocStats.MkNodeLocs") true;
    SAssign [(GVar "nloc")] ":=" [(GVar "freeNodeLocs")];
    SIf [] (GBin "==" (GVar "nloc") GNil) [SIncDec (GVar "allocStats.AllocNodeLocs") true;
    SIncDec (GVar "t.allocStats.AllocNodeLocs") true;
    SExpr (GCall "freeNodeLocLock.Unlock" []);
    SAssign [(GVar "nloc")] "=" [(GUn "&" (GOther "nodeLoc{}"))]] [SAssign [(GVar "freeNodeLocs")] "=" [(GVar "nloc.next")];
    SIncDec (GVar "allocStats.CurFreeNodeLocs") false;
    SExpr (GCall "freeNodeLocLock.Unlock" [])];
    SAssign [(GVar "nloc.loc")] "=" [GNil];
    SAssign [(GVar "nloc.node")] "=" [(GVar "n")];
    SAssign [(GVar "nloc.next")] "=" [GNil];
    SReturn [(GVar "nloc")]]);
  ("Collection.mkRootNodeLoc",
    [SExpr (GCall "freeRootNodeLocLock.Lock" []);
    SIncDec (GVar "allocStats.MkRootNodeLocs") true;
    SIncDec (GVar "t.allocStats.MkRootNodeLocs") true;
    SAssign [(GVar "rnl")] ":=" [(GVar "freeRootNodeLocs")];
    SIf [] (GBin "==" (GVar "rnl") GNil) [SIncDec (GVar "allocStats.AllocRootNodeLocs") true;
    SIncDec (GVar "t.allocStats.AllocRootNodeLocs") true;
    SExpr (GCall "freeRootNodeLocLock.Unlock" []);
    SAssign [(GVar "rnl")] "=" [(GUn "&" (GOther "rootNodeLoc{}"))]] [SAssign [(GVar "freeRootNodeLocs")] "=" [(GVar "rnl.next")];
    SIncDec (GVar "allocStats.CurFreeRootNodeLocs") false;
    SExpr (GCall "freeRootNodeLocLock.Unlock" [])];
    SAssign [(GVar "rnl.refs")] "=" [(GInt 1)];
    SAssign [(GVar "rnl.root")] "=" [(GVar "root")];
    SAssign [(GVar "rnl.next")] "=" [GNil];
    SAssign [(GVar "rnl.chainedCollection")] "=" [GNil];
    SAssign [(GVar "rnl.chainedRootNodeLoc")] "=" [GNil];
    SAssign [(GVar "rnl.superseded")] "=" [(GVar "false")];
    SFor [SAssign [(GVar "i")] ":=" [(GInt 0)]] (Some (GBin "<" (GVar "i") (GInt 3))) [SIncDec (GVar "i") true] [SAssign [(GCall "[]" [(GVar "rnl.reclaimLater"); (GVar "i")])] "=" [GNil]];
    SReturn [(GVar "rnl")]]);
  ("Collection.reclaimMarkUpdate",
    [SIf [] (GCall "nloc.isEmpty" []) [SReturn [GNil]] [];
    SAssign [(GVar "n")] ":=" [(GCall "nloc.Node" [])];
    SExpr (GCall "t.rootLock.Lock" []);
    SIf [] (GBin "&&" (GBin "!=" (GVar "n") GNil) (GBin "==" (GVar "n.next") (GVar "oldReclaimMark"))) [SAssign [(GVar "n.next")] "=" [(GVar "newReclaimMark")];
    SExpr (GCall "t.rootLock.Unlock" []);
    SExpr (GCall "t.reclaimMarkUpdate" [(GUn "&" (GVar "n.left")); (GVar "oldReclaimMark"); (GVar "newReclaimMark")]);
    SExpr (GCall "t.reclaimMarkUpdate" [(GUn "&" (GVar "n.right")); (GVar "oldReclaimMark"); (GVar "newReclaimMark")])] [SExpr (GCall "t.rootLock.Unlock" [])];
    SReturn [(GVar "n")]]);
  ("Collection.reclaimNodesUnlocked",
    [SIf [] (GBin "==" (GVar "n") GNil) [SReturn [(GInt 0)]] [];
    SIf [] (GBin "!=" (GVar "reclaimLater") GNil) [SFor [SAssign [(GVar "i")] ":=" [(GInt 0)]] (Some (GBin "<" (GVar "i") (GInt 3))) [SIncDec (GVar "i") true] [SIf [] (GBin "==" (GCall "[]" [(GVar "reclaimLater"); (GVar "i")]) (GVar "n")) [SAssign [(GCall "[]" [(GVar "reclaimLater"); (GVar "i")])] "=" [GNil]] []]] [];
    SIf [] (GBin "!=" (GVar "n.next") (GVar "reclaimMark")) [SReturn [(GInt 0)]] [];
    SVar "left" None;
    SVar "right" None;
    SIf [] (GUn "!" (GCall "n.left.isEmpty" [])) [SAssign [(GVar "left")] "=" [(GCall "n.left.Node" [])]] [];
    SIf [] (GUn "!" (GCall "n.right.isEmpty" [])) [SAssign [(GVar "right")] "=" [(GCall "n.right.Node" [])]] [];
    SExpr (GCall "t.freeNodeUnlocked" [(GVar "n"); (GVar "reclaimMark")]);
    SAssign [(GVar "numLeft")] ":=" [(GCall "t.reclaimNodesUnlocked" [(GVar "left"); (GVar "reclaimLater"); (GVar "reclaimMark")])];
    SAssign [(GVar "numRight")] ":=" [(GCall "t.reclaimNodesUnlocked" [(GVar "right"); (GVar "reclaimLater"); (GVar "reclaimMark")])];
    SReturn [(GBin "+" (GBin "+" (GInt 1) (GVar "numLeft")) (GVar "numRight"))]]);
  ("Collection.rootAddRef",
    [SExpr (GCall "t.rootLock.Lock" []);
    SDefer (GCall "t.rootLock.Unlock" []);
    SIncDec (GVar "t.root.refs") true;
    SReturn [(GVar "t.root")]]);
  ("Collection.rootCAS",
    [SExpr (GCall "t.rootLock.Lock" []);
    SDefer (GCall "t.rootLock.Unlock" []);
    SIf [] (GBin "!=" (GVar "t.root") (GVar "prev")) [SReturn [(GVar "false")]] [];
    SAssign [(GVar "t.root")] "=" [(GVar "next")];
    SIf [] (GBin "!=" (GVar "prev") GNil) [SAssign [(GVar "prev.superseded")] "=" [(GVar "true")]] [];
    SIf [] (GBin "&&" (GBin "!=" (GVar "prev") GNil) (GBin ">" (GVar "prev.refs") (GInt 2))) [SIf [] (GBin "||" (GBin "!=" (GVar "prev.chainedCollection") GNil) (GBin "!=" (GVar "prev.chainedRootNodeLoc") GNil)) [SExpr (GCall "panic" [(GCall "fmt.Sprintf" [(GLit """chain already taken, coll: %v"""); (GCall "t.Name" [])])])] [];
    SAssign [(GVar "prev.chainedCollection")] "=" [(GVar "t")];
    SAssign [(GVar "prev.chainedRootNodeLoc")] "=" [(GVar "t.root")];
    SIncDec (GVar "t.root.refs") true] [];
    SReturn [(GVar "true")]]);
  ("Collection.rootDecRef",
    [SExpr (GCall "t.rootLock.Lock" []);
    SExpr (GCall "freeNodeLock.Lock" []);
    SExpr (GCall "t.rootDecRefUnlocked" [(GVar "r")]);
    SExpr (GCall "freeNodeLock.Unlock" []);
    SExpr (GCall "t.rootLock.Unlock" [])]);
  ("Collection.rootDecRefUnlocked",
    [SIncDec (GVar "r.refs") false;
    SIf [] (GBin ">" (GVar "r.refs") (GInt 0)) [SReturn []] [];
    SIf [] (GBin "&&" (GBin "!=" (GVar "r.chainedCollection") GNil) (GBin "!=" (GVar "r.chainedRootNodeLoc") GNil)) [SExpr (GCall "r.chainedCollection.rootDecRefUnlocked" [(GVar "r.chainedRootNodeLoc")])] [];
    SIf [] (GUn "!" (GVar "r.superseded")) [SExpr (GCall "t.markTreeReclaimableUnlocked" [(GVar "r.root"); (GUn "&" (GVar "r.reclaimMark"))])] [];
    SExpr (GCall "t.reclaimNodesUnlocked" [(GCall "r.root.Node" []); (GUn "&" (GVar "r.reclaimLater")); (GUn "&" (GVar "r.reclaimMark"))]);
    SFor [SAssign [(GVar "i")] ":=" [(GInt 0)]] (Some (GBin "<" (GVar "i") (GInt 3))) [SIncDec (GVar "i") true] [SIf [] (GBin "!=" (GCall "[]" [(GVar "r.reclaimLater"); (GVar "i")]) GNil) [SExpr (GCall "t.reclaimNodesUnlocked" [(GCall "[]" [(GVar "r.reclaimLater"); (GVar "i")]); GNil; (GUn "&" (GVar "r.reclaimMark"))]);
    SAssign [(GCall "[]" [(GVar "r.reclaimLater"); (GVar "i")])] "=" [GNil]] []];
    SExpr (GCall "t.freeNodeLoc" [(GVar "r.root")]);
    SExpr (GCall "t.freeRootNodeLoc" [(GVar "r")])]);
  ("Collection.unmarkReclaimable",
    [SIf [] (GCall "nloc.isEmpty" []) [SReturn []] [];
    SAssign [(GVar "n")] ":=" [(GCall "nloc.Node" [])];
    SIf [] (GBin "==" (GVar "n") GNil) [SReturn []] [];
    SExpr (GCall "t.rootLock.Lock" []);
    SIf [] (GBin "==" (GVar "n.next") (GVar "reclaimMark")) [SAssign [(GVar "n.next")] "=" [GNil]] [];
    SExpr (GCall "t.rootLock.Unlock" []);
    SExpr (GCall "t.unmarkReclaimable" [(GUn "&" (GVar "n.left")); (GVar "reclaimMark")]);
    SExpr (GCall "t.unmarkReclaimable" [(GUn "&" (GVar "n.right")); (GVar "reclaimMark")])]);
  ("Collection.write",
    [SIf [SAssign [(GVar "err")] ":=" [(GCall "t.writeItems" [(GVar "nloc")])]] (GBin "!=" (GVar "err") GNil) [SReturn [(GVar "err")]] [];
    SIf [SAssign [(GVar "err")] ":=" [(GCall "t.writeNodes" [(GVar "nloc")])]] (GBin "!=" (GVar "err") GNil) [SReturn [(GVar "err")]] [];
    SReturn [GNil]]);
  ("Collection.writeItems",
    [SIf [] (GBin "||" (GBin "==" (GVar "nloc") GNil) (GUn "!" (GCall "nloc.Loc().isEmpty" []))) [SReturn [GNil]] [];
    SAssign [(GVar "node")] ":=" [(GCall "nloc.Node" [])];
    SIf [] (GBin "==" (GVar "node") GNil) [SReturn [GNil]] [];
    SIf [SAssign [(GVar "err")] "=" [(GCall "t.writeItems" [(GUn "&" (GVar "node.left"))])]] (GBin "!=" (GVar "err") GNil) [SReturn [(GVar "err")]] [];
    SIf [SAssign [(GVar "err")] "=" [(GCall "node.item.write" [(GVar "t")])]] (GBin "!=" (GVar "err") GNil) [SReturn [(GVar "err")]] [];
    SReturn [(GCall "t.writeItems" [(GUn "&" (GVar "node.right"))])]]);
  ("Collection.writeNodes",
    [SIf [] (GBin "||" (GBin "==" (GVar "nloc") GNil) (GUn "!" (GCall "nloc.Loc().isEmpty" []))) [SReturn [GNil]] [];
    SAssign [(GVar "node")] ":=" [(GCall "nloc.Node" [])];
    SIf [] (GBin "==" (GVar "node") GNil) [SReturn [GNil]] [];
    SIf [SAssign [(GVar "err")] "=" [(GCall "t.writeNodes" [(GUn "&" (GVar "node.left"))])]] (GBin "!=" (GVar "err") GNil) [SReturn [(GVar "err")]] [];
    SIf [SAssign [(GVar "err")] "=" [(GCall "t.writeNodes" [(GUn "&" (GVar "node.right"))])]] (GBin "!=" (GVar "err") GNil) [SReturn [(GVar "err")]] [];
    SReturn [(GCall "nloc.write" [(GVar "t.store")])]]);
  ("Item.Copy",
    [SReturn [(GUn "&" (GOther "Item{  Key:  i.Key,  Val:  i.Val,  Priority: i.Priority,  Transient: i.Transient, }"))]]);
  ("Item.NumBytes",
    [SReturn [(GBin "+" (GCall "len" [(GVar "i.Key")]) (GCall "i.NumValBytes" [(GVar "c")]))]]);
  ("Item.NumValBytes",
    [SIf [] (GBin "!=" (GVar "c.store.callbacks.ItemValLength") GNil) [SReturn [(GCall "c.store.callbacks.ItemValLength" [(GVar "c"); (GVar "i")])]] [];
    SReturn [(GCall "len" [(GVar "i.Val")])]]);
  ("NewStore",
    [SReturn [(GCall "NewStoreEx" [(GVar "file"); (GOther "StoreCallbacks{}")])]]);
  ("NewStoreEx",
    [SAssign [(GVar "coll")] ":=" [(GCall "make" [(GOther "map[string]*Collection")])];
    SAssign [(GVar "res")] ":=" [(GUn "&" (GOther "Store{coll: &coll, callbacks: callbacks}"))];
    SIf [] (GBin "||" (GBin "==" (GVar "file") GNil) (GUn "!" (GCall "reflect.ValueOf(file).Elem().IsValid" []))) [SReturn [(GVar "res"); GNil]] [];
    SAssign [(GVar "res.file")] "=" [(GVar "file")];
    SIf [SAssign [(GVar "err")] ":=" [(GCall "res.readRoots" [])]] (GBin "!=" (GVar "err") GNil) [SReturn [GNil; (GVar "err")]] [];
    SReturn [(GVar "res"); GNil]]);
  ("RandBm",
    [SRange (GVar "i") GNil (GVar "slice") [SAssign [(GVar "j")] ":=" [(GCall "rand.Intn" [(GBin "+" (GVar "i") (GInt 1))])];
    SAssign [(GCall "[]" [(GVar "slice"); (GVar "i")]); (GCall "[]" [(GVar "slice"); (GVar "j")])] "=" [(GCall "[]" [(GVar "slice"); (GVar "j")]); (GCall "[]" [(GVar "slice"); (GVar "i")])]];
    SReturn [(GVar "slice")]]);
  ("Store.Close",
    [SAssign [(GVar "s.file")] "=" [GNil];
    SAssign [(GVar "cptr")] ":=" [(GCall "s.getColl" [])];
    SIf [] (GBin "||" (GBin "==" (GVar "cptr") GNil) (GUn "!" (GCall "s.casColl" [(GVar "cptr"); GNil]))) [SReturn []] [];
    SAssign [(GVar "coll")] ":=" [(GUn "*" (GCall "(*map[string]*Collection)" [(GVar "cptr")]))];
    SRange (GVar "_") (GVar "name") (GCall "collNames" [(GVar "coll")]) [SExpr (GCall "coll[name].closeCollection" [])]]);
  ("Store.CopyTo",
    [SAssign [(GVar "dstStore"); (GVar "err")] ":=" [(GCall "NewStore" [(GVar "dstFile")])];
    SIf [] (GBin "!=" (GVar "err") GNil) [SReturn [GNil; (GVar "err")]] [];
    SAssign [(GVar "coll")] ":=" [(GUn "*" (GCall "s.getColl" []))];
    SVar "maxDepth" None;
    SRange (GVar "_") (GVar "name") (GCall "collNames" [(GVar "coll")]) [SAssign [(GVar "srcColl")] ":=" [(GCall "[]" [(GVar "coll"); (GVar "name")])];
    SAssign [(GVar "dstColl")] ":=" [(GCall "dstStore.SetCollection" [(GVar "name"); (GVar "srcColl.compare")])];
    SAssign [(GVar "minItem"); (GVar "err")] ":=" [(GCall "srcColl.MinItem" [(GVar "true")])];
    SIf [] (GBin "!=" (GVar "err") GNil) [SReturn [GNil; (GVar "err")]] [];
    SIf [] (GBin "==" (GVar "minItem") GNil) [SBranch "continue"] [];
    SDefer (GCall "s.ItemDecRef" [(GVar "srcColl"); (GVar "minItem")]);
    SAssign [(GVar "numItems")] ":=" [(GInt 0)];
    SVar "errCopyItem" None;
    SAssign [(GVar "err")] "=" [(GCall "srcColl.VisitItemsAscendEx" [(GVar "minItem.Key"); (GVar "true"); (GFun "<lit:Store.CopyTo#1>")])];
    SIf [] (GBin "!=" (GVar "err") GNil) [SReturn [GNil; (GVar "err")]] [];
    SIf [] (GBin "!=" (GVar "errCopyItem") GNil) [SReturn [GNil; (GVar "errCopyItem")]] [];
    SIf [] (GVar "false") [SExpr (GCall "fmt.Printf" [(GLit """CopyTo cnt = %d, max_depth = %d\n"""); (GVar "numItems"); (GVar "maxDepth")])] []];
    SIf [] (GBin ">" (GVar "flushEvery") (GInt 0)) [SIf [SAssign [(GVar "err")] "=" [(GCall "dstStore.Flush" [])]] (GBin "!=" (GVar "err") GNil) [SReturn [GNil; (GVar "err")]] []] [];
    SReturn [(GVar "dstStore"); GNil]]);
  ("Store.Flush",
    [SIf [] (GVar "s.readOnly") [SReturn [(GCall "errors.New" [(GLit """readonly, so cannot Flush()""")])]] [];
    SIf [] (GBin "==" (GVar "s.file") GNil) [SReturn [(GCall "errors.New" [(GLit """no file / in-memory only, so cannot Flush()""")])]] [];
    SAssign [(GVar "coll")] ":=" [(GUn "*" (GCall "s.getColl" []))];
    SAssign [(GVar "rnls")] ":=" [(GOther "map[string]*rootNodeLoc{}")];
    SAssign [(GVar "cnames")] ":=" [(GCall "collNames" [(GVar "coll")])];
    SRange (GVar "_") (GVar "name") (GVar "cnames") [SAssign [(GVar "c")] ":=" [(GCall "[]" [(GVar "coll"); (GVar "name")])];
    SAssign [(GCall "[]" [(GVar "rnls"); (GVar "name")])] "=" [(GCall "c.rootAddRef" [])]];
    SDefer (GCall "func() {  for _, name := range cnames {   coll[name].rootDecRef(rnls[name])  } }" []);
    SRange (GVar "_") (GVar "name") (GVar "cnames") [SIf [SAssign [(GVar "err")] ":=" [(GCall "coll[name].write" [(GSel (GCall "[]" [(GVar "rnls"); (GVar "name")]) "root")])]] (GBin "!=" (GVar "err") GNil) [SReturn [(GVar "err")]] []];
    SReturn [(GCall "s.writeRoots" [(GVar "rnls")])]]);
  ("Store.FlushRevert",
    [SIf [] (GBin "==" (GVar "s.file") GNil) [SReturn [(GCall "errors.New" [(GLit """no file / in-memory only, so cannot FlushRevert()""")])]] [];
    SAssign [(GVar "orig")] ":=" [(GCall "s.getColl" [])];
    SAssign [(GVar "coll")] ":=" [(GCall "make" [(GOther "map[string]*Collection")])];
    SIf [] (GCall "s.casColl" [(GVar "orig"); (GUn "&" (GVar "coll"))]) [SRange (GVar "_") (GVar "cold") (GUn "*" (GCall "(*map[string]*Collection)" [(GVar "orig")])) [SExpr (GCall "cold.closeCollection" [])]] [];
    SIf [] (GBin ">" (GCall "atomic.LoadInt64" [(GUn "&" (GVar "s.size"))]) (GVar "rootsLen")) [SExpr (GCall "atomic.AddInt64" [(GUn "&" (GVar "s.size")); (GInt (-1))])] [];
    SAssign [(GVar "err")] ":=" [(GCall "s.readRootsScan" [(GVar "true")])];
    SIf [] (GBin "!=" (GVar "err") GNil) [SReturn [(GVar "err")]] [];
    SIf [] (GVar "s.readOnly") [SReturn [GNil]] [];
    SReturn [(GCall "s.file.Truncate" [(GCall "atomic.LoadInt64" [(GUn "&" (GVar "s.size"))])])]]);
  ("Store.GetCollection",
    [SReturn [(GCall "[]" [(GUn "*" (GCall "s.getColl" [])); (GVar "name")])]]);
  ("Store.GetCollectionNames",
    [SReturn [(GCall "collNames" [(GUn "*" (GCall "s.getColl" []))])]]);
  ("Store.ItemAddRef",
    [SIf [] (GBin "!=" (GVar "s.callbacks.ItemAddRef") GNil) [SExpr (GCall "s.callbacks.ItemAddRef" [(GVar "c"); (GVar "i")])] []]);
  ("Store.ItemAlloc",
    [SIf [] (GBin "!=" (GVar "s.callbacks.ItemAlloc") GNil) [SReturn [(GCall "s.callbacks.ItemAlloc" [(GVar "c"); (GVar "keyLength")])]] [];
    SReturn [(GUn "&" (GOther "Item{Key: make([]byte, keyLength)}"))]]);
  ("Store.ItemDecRef",
    [SIf [] (GBin "!=" (GVar "s.callbacks.ItemDecRef") GNil) [SExpr (GCall "s.callbacks.ItemDecRef" [(GVar "c"); (GVar "i")])] []]);
  ("Store.ItemValRead",
    [SIf [] (GBin "!=" (GVar "s.callbacks.ItemValRead") GNil) [SReturn [(GCall "s.callbacks.ItemValRead" [(GVar "c"); (GVar "i"); (GVar "r"); (GVar "offset"); (GVar "valLength")])]] [];
    SAssign [(GVar "i.Val")] "=" [(GCall "make" [(GOther "[]byte"); (GVar "valLength")])];
    SAssign [(GVar "_"); (GVar "err")] ":=" [(GCall "r.ReadAt" [(GVar "i.Val"); (GVar "offset")])];
    SReturn [(GVar "err")]]);
  ("Store.ItemValWrite",
    [SIf [] (GBin "!=" (GVar "s.callbacks.ItemValWrite") GNil) [SReturn [(GCall "s.callbacks.ItemValWrite" [(GVar "c"); (GVar "i"); (GVar "w"); (GVar "offset")])]] [];
    SAssign [(GVar "_"); (GVar "err")] ":=" [(GCall "w.WriteAt" [(GVar "i.Val"); (GVar "offset")])];
    SReturn [(GVar "err")]]);
  ("Store.MakePrivateCollection",
    [SIf [] (GBin "==" (GVar "compare") GNil) [SAssign [(GVar "compare")] "=" [(GVar "bytes.Compare")]] [];
    SReturn [(GUn "&" (GOther "Collection{  store:  s,  compare: compare,  rootLock: &sync.Mutex{},  root:  &rootNodeLoc{refs: 1, root: &emptyNodeLoc}, }"))]]);
  ("Store.RemoveCollection",
    [SFor [] None [] [SAssign [(GVar "orig")] ":=" [(GCall "s.getColl" [])];
    SAssign [(GVar "coll")] ":=" [(GCall "copyColl" [(GUn "*" (GCall "(*map[string]*Collection)" [(GVar "orig")]))])];
    SAssign [(GVar "cold")] ":=" [(GCall "[]" [(GVar "coll"); (GVar "name")])];
    SExpr (GCall "delete" [(GVar "coll"); (GVar "name")]);
    SIf [] (GCall "s.casColl" [(GVar "orig"); (GUn "&" (GVar "coll"))]) [SExpr (GCall "cold.closeCollection" []);
    SReturn []] []]]);
  ("Store.SetCollection",
    [SIf [] (GBin "==" (GVar "compare") GNil) [SAssign [(GVar "compare")] "=" [(GVar "bytes.Compare")]] [];
    SFor [] None [] [SAssign [(GVar "orig")] ":=" [(GCall "s.getColl" [])];
    SAssign [(GVar "coll")] ":=" [(GCall "copyColl" [(GUn "*" (GCall "(*map[string]*Collection)" [(GVar "orig")]))])];
    SAssign [(GVar "cnew")] ":=" [(GCall "s.MakePrivateCollection" [(GVar "compare")])];
    SAssign [(GVar "cnew.name")] "=" [(GVar "name")];
    SAssign [(GVar "cold")] ":=" [(GCall "[]" [(GVar "coll"); (GVar "name")])];
    SIf [] (GBin "!=" (GVar "cold") GNil) [SAssign [(GVar "cnew.rootLock")] "=" [(GVar "cold.rootLock")];
    SAssign [(GVar "cnew.root")] "=" [(GCall "cold.rootAddRef" [])]] [];
    SAssign [(GCall "[]" [(GVar "coll"); (GVar "name")])] "=" [(GVar "cnew")];
    SIf [] (GCall "s.casColl" [(GVar "orig"); (GUn "&" (GVar "coll"))]) [SExpr (GCall "cold.closeCollection" []);
    SReturn [(GVar "cnew")]] [];
    SExpr (GCall "cnew.closeCollection" [])]]);
  ("Store.Snapshot",
    [SAssign [(GVar "coll")] ":=" [(GCall "copyColl" [(GUn "*" (GCall "s.getColl" []))])];
    SAssign [(GVar "res")] ":=" [(GUn "&" (GOther "Store{  coll:  &coll,  file:  s.file,  size:  atomic.LoadInt64(&s.size),  readOnly: true,  callbacks: s.callbacks, }"))];
    SRange (GVar "_") (GVar "name") (GCall "collNames" [(GVar "coll")]) [SAssign [(GVar "collOrig")] ":=" [(GCall "[]" [(GVar "coll"); (GVar "name")])];
    SAssign [(GCall "[]" [(GVar "coll"); (GVar "name")])] "=" [(GUn "&" (GOther "Collection{  store:  res,  compare: collOrig.compare,  rootLock: collOrig.rootLock,  root:  collOrig.rootAddRef(), }"))]];
    SReturn [(GVar "res")]]);
  ("Store.Stats",
    [SAssign [(GCall "[]" [(GVar "out"); (GLit """fileSize""")])] "=" [(GCall "uint64" [(GCall "atomic.LoadInt64" [(GUn "&" (GVar "s.size"))])])];
    SAssign [(GCall "[]" [(GVar "out"); (GLit """nodeAllocs""")])] "=" [(GCall "atomic.LoadUint64" [(GUn "&" (GVar "s.nodeAllocs"))])]]);
  ("Store.casColl",
    [SExpr (GCall "s.m.Lock" []);
    SDefer (GCall "s.m.Unlock" []);
    SIf [] (GBin "==" (GVar "s.coll") (GVar "o")) [SAssign [(GVar "s.coll")] "=" [(GVar "n")];
    SReturn [(GVar "true")]] [];
    SReturn [(GVar "false")]]);
  ("Store.checkAndReadRoots",
    [SIf [] (GBin "&&" (GBin "&&" (GBin ">=" (GVar "offset") (GInt 0)) (GBin "<" (GVar "offset") (GBin "-" (GCall "atomic.LoadInt64" [(GUn "&" (GVar "s.size"))]) (GCall "int64" [(GVar "rootsLen")])))) (GBin "==" (GVar "length") (GCall "uint32" [(GBin "-" (GCall "atomic.LoadInt64" [(GUn "&" (GVar "s.size"))]) (GVar "offset"))]))) [SAssign [(GVar "data")] ":=" [(GCall "make" [(GOther "[]byte"); (GBin "-" (GBin "-" (GCall "atomic.LoadInt64" [(GUn "&" (GVar "s.size"))]) (GVar "offset")) (GCall "int64" [(GCall "len" [(GVar "rootsEnd")])]))])];
    SIf [SAssign [(GVar "_"); (GVar "err")] ":=" [(GCall "s.file.ReadAt" [(GVar "data"); (GVar "offset")])]] (GBin "!=" (GVar "err") GNil) [SReturn [(GUn "&" (GOther "rootsReadError{err}"))]] [];
    SIf [] (GBin "&&" (GCall "bytes.Equal" [(GVar "MagicBeg"); (GCall "[:]" [(GVar "data"); GNil; (GCall "len" [(GVar "MagicBeg")])])]) (GCall "bytes.Equal" [(GVar "MagicBeg"); (GCall "[:]" [(GVar "data"); (GCall "len" [(GVar "MagicBeg")]); (GBin "*" (GInt 2) (GCall "len" [(GVar "MagicBeg")]))])])) [SReturn [(GCall "s.validateAndSetCollections" [(GVar "data"); (GVar "length")])]] []] [];
    SReturn [(GCall "errors.New" [(GLit """invalid roots""")])]]);
  ("Store.getColl",
    [SExpr (GCall "s.m.RLock" []);
    SDefer (GCall "s.m.RUnlock" []);
    SReturn [(GVar "s.coll")]]);
  ("Store.getSize",
    [SReturn [(GCall "atomic.LoadInt64" [(GUn "&" (GVar "s.size"))])]]);
  ("Store.join",
    [SAssign [(GVar "thisNode"); (GVar "err")] ":=" [(GCall "this.read" [(GVar "o")])];
    SIf [] (GBin "!=" (GVar "err") GNil) [SReturn [(GUn "&" (GVar "emptyNodeLoc")); (GVar "err")]] [];
    SAssign [(GVar "thatNode"); (GVar "err")] ":=" [(GCall "that.read" [(GVar "o")])];
    SIf [] (GBin "!=" (GVar "err") GNil) [SReturn [(GUn "&" (GVar "emptyNodeLoc")); (GVar "err")]] [];
    SIf [] (GBin "||" (GCall "this.isEmpty" []) (GBin "==" (GVar "thisNode") GNil)) [SReturn [(GCall "t.mkNodeLoc(nil).Copy" [(GVar "that")]); GNil]] [];
    SIf [] (GBin "||" (GCall "that.isEmpty" []) (GBin "==" (GVar "thatNode") GNil)) [SReturn [(GCall "t.mkNodeLoc(nil).Copy" [(GVar "this")]); GNil]] [];
    SAssign [(GVar "thisItemLoc")] ":=" [(GUn "&" (GVar "thisNode.item"))];
    SAssign [(GVar "thisItem"); (GVar "err")] ":=" [(GCall "thisItemLoc.read" [(GVar "t"); (GVar "false")])];
    SIf [] (GBin "!=" (GVar "err") GNil) [SReturn [(GUn "&" (GVar "emptyNodeLoc")); (GVar "err")]] [];
    SAssign [(GVar "thatItemLoc")] ":=" [(GUn "&" (GVar "thatNode.item"))];
    SAssign [(GVar "thatItem"); (GVar "err")] ":=" [(GCall "thatItemLoc.read" [(GVar "t"); (GVar "false")])];
    SIf [] (GBin "!=" (GVar "err") GNil) [SReturn [(GUn "&" (GVar "emptyNodeLoc")); (GVar "err")]] [];
    SIf [] (GBin ">" (GVar "thisItem.Priority") (GVar "thatItem.Priority")) [SAssign [(GVar "newRight"); (GVar "err")] ":=" [(GCall "o.join" [(GVar "t"); (GUn "&" (GVar "thisNode.right")); (GVar "that"); (GVar "reclaimMark")])];
    SIf [] (GBin "!=" (GVar "err") GNil) [SReturn [(GUn "&" (GVar "emptyNodeLoc")); (GVar "err")]] [];
    SAssign [(GVar "leftNum"); (GVar "leftBytes"); (GVar "rightNum"); (GVar "rightBytes"); (GVar "err")] ":=" [(GCall "numInfo" [(GVar "o"); (GUn "&" (GVar "thisNode.left")); (GVar "newRight")])];
    SIf [] (GBin "!=" (GVar "err") GNil) [SReturn [(GUn "&" (GVar "emptyNodeLoc")); (GVar "err")]] [];
    SAssign [(GVar "res")] "=" [(GCall "t.mkNodeLoc" [(GCall "t.mkNode" [(GVar "thisItemLoc"); (GUn "&" (GVar "thisNode.left")); (GVar "newRight"); (GBin "+" (GBin "+" (GVar "leftNum") (GVar "rightNum")) (GInt 1)); (GBin "+" (GBin "+" (GVar "leftBytes") (GVar "rightBytes")) (GCall "uint64" [(GCall "thisItemLoc.NumBytes" [(GVar "t")])]))])])];
    SExpr (GCall "t.markReclaimable" [(GVar "thisNode"); (GVar "reclaimMark")]);
    SExpr (GCall "t.freeNodeLoc" [(GVar "newRight")]);
    SReturn [(GVar "res"); GNil]] [];
    SAssign [(GVar "newLeft"); (GVar "err")] ":=" [(GCall "o.join" [(GVar "t"); (GVar "this"); (GUn "&" (GVar "thatNode.left")); (GVar "reclaimMark")])];
    SIf [] (GBin "!=" (GVar "err") GNil) [SReturn [(GUn "&" (GVar "emptyNodeLoc")); (GVar "err")]] [];
    SAssign [(GVar "leftNum"); (GVar "leftBytes"); (GVar "rightNum"); (GVar "rightBytes"); (GVar "err")] ":=" [(GCall "numInfo" [(GVar "o"); (GVar "newLeft"); (GUn "&" (GVar "thatNode.right"))])];
    SIf [] (GBin "!=" (GVar "err") GNil) [SReturn [(GUn "&" (GVar "emptyNodeLoc")); (GVar "err")]] [];
    SAssign [(GVar "res")] "=" [(GCall "t.mkNodeLoc" [(GCall "t.mkNode" [(GVar "thatItemLoc"); (GVar "newLeft"); (GUn "&" (GVar "thatNode.right")); (GBin "+" (GBin "+" (GVar "leftNum") (GVar "rightNum")) (GInt 1)); (GBin "+" (GBin "+" (GVar "leftBytes") (GVar "rightBytes")) (GCall "uint64" [(GCall "thatItemLoc.NumBytes" [(GVar "t")])]))])])];
    SExpr (GCall "t.markReclaimable" [(GVar "thatNode"); (GVar "reclaimMark")]);
    SExpr (GCall "t.freeNodeLoc" [(GVar "newLeft")]);
    SReturn [(GVar "res"); GNil]]);
  ("Store.readRoots",
    [SAssign [(GVar "finfo"); (GVar "err")] ":=" [(GCall "s.file.Stat" [])];
    SIf [] (GBin "!=" (GVar "err") GNil) [SReturn [(GVar "err")]] [];
    SExpr (GCall "atomic.StoreInt64" [(GUn "&" (GVar "s.size")); (GCall "finfo.Size" [])]);
    SIf [] (GBin "<=" (GVar "s.size") (GInt 0)) [SReturn [GNil]] [];
    SReturn [(GCall "s.readRootsScan" [(GVar "false")])]]);
  ("Store.readRootsEnd",
    [SVar "offset" None;
    SVar "length" None;
    SAssign [(GVar "endBuf")] ":=" [(GCall "bytes.NewBuffer" [(GVar "rootsEnd")])];
    SIf [SAssign [(GVar "err")] ":=" [(GCall "binary.Read" [(GVar "endBuf"); (GVar "binary.BigEndian"); (GUn "&" (GVar "offset"))])]] (GBin "!=" (GVar "err") GNil) [SReturn [(GInt 0); (GInt 0); (GVar "err")]] [];
    SIf [SAssign [(GVar "err")] ":=" [(GCall "binary.Read" [(GVar "endBuf"); (GVar "binary.BigEndian"); (GUn "&" (GVar "length"))])]] (GBin "!=" (GVar "err") GNil) [SReturn [(GInt 0); (GInt 0); (GVar "err")]] [];
    SReturn [(GVar "offset"); (GVar "length"); GNil]]);
  ("Store.readRootsScan",
    [SAssign [(GVar "rootsEnd")] ":=" [(GCall "make" [(GOther "[]byte"); (GVar "rootsEndLen")])];
    SFor [] None [] [SIf [SAssign [(GVar "err")] ":=" [(GCall "s.scanBackwardsForMagicEnd" [(GVar "rootsEnd"); (GVar "defaultToEmpty")])]] (GBin "!=" (GVar "err") GNil) [SReturn [(GVar "err")]] [];
    SIf [] (GBin "&&" (GVar "defaultToEmpty") (GBin "==" (GCall "atomic.LoadInt64" [(GUn "&" (GVar "s.size"))]) (GInt 0))) [SReturn [GNil]] [];
    SAssign [(GVar "offset"); (GVar "length"); (GVar "err")] ":=" [(GCall "s.readRootsEnd" [(GVar "rootsEnd")])];
    SIf [] (GBin "!=" (GVar "err") GNil) [SReturn [(GVar "err")]] [];
    SAssign [(GVar "err")] "=" [(GCall "s.checkAndReadRoots" [(GVar "offset"); (GVar "length"); (GVar "rootsEnd")])];
    SIf [] (GBin "==" (GVar "err") GNil) [SReturn [GNil]] [];
    SVar "ioErr" None;
    SIf [] (GCall "errors.As" [(GVar "err"); (GUn "&" (GVar "ioErr"))]) [SReturn [(GVar "ioErr.err")]] [];
    SExpr (GCall "atomic.AddInt64" [(GUn "&" (GVar "s.size")); (GInt (-1))])]]);
  ("Store.scanBackwardsForMagicEnd",
    [SFor [] None [] [SIf [] (GBin "<=" (GCall "atomic.LoadInt64" [(GUn "&" (GVar "s.size"))]) (GVar "rootsLen")) [SIf [] (GVar "defaultToEmpty") [SExpr (GCall "atomic.StoreInt64" [(GUn "&" (GVar "s.size")); (GInt 0)]);
    SReturn [GNil]] [];
    SReturn [(GCall "errors.New" [(GLit """couldn't find roots; file corrupted or wrong?""")])]] [];
    SIf [SAssign [(GVar "_"); (GVar "err")] ":=" [(GCall "s.file.ReadAt" [(GVar "rootsEnd"); (GBin "-" (GCall "atomic.LoadInt64" [(GUn "&" (GVar "s.size"))]) (GCall "int64" [(GCall "len" [(GVar "rootsEnd")])]))])]] (GBin "!=" (GVar "err") GNil) [SReturn [(GVar "err")]] [];
    SIf [] (GBin "&&" (GCall "bytes.Equal" [(GVar "MagicEnd"); (GCall "[:]" [(GVar "rootsEnd"); (GInt 12); (GBin "+" (GInt 12) (GCall "len" [(GVar "MagicEnd")]))])]) (GCall "bytes.Equal" [(GVar "MagicEnd"); (GCall "[:]" [(GVar "rootsEnd"); (GBin "+" (GInt 12) (GCall "len" [(GVar "MagicEnd")])); GNil])])) [SBranch "break"] [];
    SExpr (GCall "atomic.AddInt64" [(GUn "&" (GVar "s.size")); (GInt (-1))])];
    SReturn [GNil]]);
  ("Store.setColl",
    [SExpr (GCall "s.m.Lock" []);
    SDefer (GCall "s.m.Unlock" []);
    SAssign [(GVar "s.coll")] "=" [(GVar "n")]]);
  ("Store.setSize",
    [SExpr (GCall "atomic.StoreInt64" [(GUn "&" (GVar "s.size")); (GVar "sz")])]);
  ("Store.split",
    [SAssign [(GVar "nNode"); (GVar "err")] ":=" [(GCall "n.read" [(GVar "o")])];
    SIf [] (GBin "||" (GBin "||" (GBin "!=" (GVar "err") GNil) (GCall "n.isEmpty" [])) (GBin "==" (GVar "nNode") GNil)) [SReturn [(GUn "&" (GVar "emptyNodeLoc")); (GUn "&" (GVar "emptyNodeLoc")); (GUn "&" (GVar "emptyNodeLoc")); (GVar "err")]] [];
    SAssign [(GVar "nItemLoc")] ":=" [(GUn "&" (GVar "nNode.item"))];
    SAssign [(GVar "nItem"); (GVar "err")] ":=" [(GCall "nItemLoc.read" [(GVar "t"); (GVar "false")])];
    SIf [] (GBin "!=" (GVar "err") GNil) [SReturn [(GUn "&" (GVar "emptyNodeLoc")); (GUn "&" (GVar "emptyNodeLoc")); (GUn "&" (GVar "emptyNodeLoc")); (GVar "err")]] [];
    SAssign [(GVar "c")] ":=" [(GCall "t.compare" [(GVar "s"); (GVar "nItem.Key")])];
    SIf [] (GBin "==" (GVar "c") (GInt 0)) [SIf [SAssign [(GVar "_"); (GVar "err")] ":=" [(GCall "nNode.left.read" [(GVar "o")])]] (GBin "!=" (GVar "err") GNil) [SReturn [(GUn "&" (GVar "emptyNodeLoc")); (GUn "&" (GVar "emptyNodeLoc")); (GUn "&" (GVar "emptyNodeLoc")); (GVar "err")]] [];
    SIf [SAssign [(GVar "_"); (GVar "err")] ":=" [(GCall "nNode.right.read" [(GVar "o")])]] (GBin "!=" (GVar "err") GNil) [SReturn [(GUn "&" (GVar "emptyNodeLoc")); (GUn "&" (GVar "emptyNodeLoc")); (GUn "&" (GVar "emptyNodeLoc")); (GVar "err")]] [];
    SAssign [(GVar "left")] ":=" [(GCall "t.mkNodeLoc(nil).Copy" [(GUn "&" (GVar "nNode.left"))])];
    SAssign [(GVar "right")] ":=" [(GCall "t.mkNodeLoc(nil).Copy" [(GUn "&" (GVar "nNode.right"))])];
    SAssign [(GVar "middle")] ":=" [(GCall "t.mkNodeLoc(nil).Copy" [(GVar "n")])];
    SReturn [(GVar "left"); (GVar "middle"); (GVar "right"); GNil]] [];
    SIf [] (GBin "<" (GVar "c") (GInt 0)) [SIf [] (GCall "nNode.left.isEmpty" []) [SReturn [(GUn "&" (GVar "emptyNodeLoc")); (GUn "&" (GVar "emptyNodeLoc")); (GCall "t.mkNodeLoc(nil).Copy" [(GVar "n")]); GNil]] [];
    SAssign [(GVar "left"); (GVar "middle"); (GVar "right"); (GVar "err")] ":=" [(GCall "o.split" [(GVar "t"); (GUn "&" (GVar "nNode.left")); (GVar "s"); (GVar "reclaimMark")])];
    SIf [] (GBin "!=" (GVar "err") GNil) [SReturn [(GUn "&" (GVar "emptyNodeLoc")); (GUn "&" (GVar "emptyNodeLoc")); (GUn "&" (GVar "emptyNodeLoc")); (GVar "err")]] [];
    SAssign [(GVar "leftNum"); (GVar "leftBytes"); (GVar "rightNum"); (GVar "rightBytes"); (GVar "err")] ":=" [(GCall "numInfo" [(GVar "o"); (GVar "right"); (GUn "&" (GVar "nNode.right"))])];
    SIf [] (GBin "!=" (GVar "err") GNil) [SReturn [(GUn "&" (GVar "emptyNodeLoc")); (GUn "&" (GVar "emptyNodeLoc")); (GUn "&" (GVar "emptyNodeLoc")); (GVar "err")]] [];
    SAssign [(GVar "newRight")] ":=" [(GCall "t.mkNodeLoc" [(GCall "t.mkNode" [(GVar "nItemLoc"); (GVar "right"); (GUn "&" (GVar "nNode.right")); (GBin "+" (GBin "+" (GVar "leftNum") (GVar "rightNum")) (GInt 1)); (GBin "+" (GBin "+" (GVar "leftBytes") (GVar "rightBytes")) (GCall "uint64" [(GCall "nItemLoc.NumBytes" [(GVar "t")])]))])])];
    SExpr (GCall "t.freeNodeLoc" [(GVar "right")]);
    SExpr (GCall "t.markReclaimable" [(GVar "nNode"); (GVar "reclaimMark")]);
    SReturn [(GVar "left"); (GVar "middle"); (GVar "newRight"); GNil]] [];
    SIf [] (GCall "nNode.right.isEmpty" []) [SReturn [(GCall "t.mkNodeLoc(nil).Copy" [(GVar "n")]); (GUn "&" (GVar "emptyNodeLoc")); (GUn "&" (GVar "emptyNodeLoc")); GNil]] [];
    SAssign [(GVar "left"); (GVar "middle"); (GVar "right"); (GVar "err")] ":=" [(GCall "o.split" [(GVar "t"); (GUn "&" (GVar "nNode.right")); (GVar "s"); (GVar "reclaimMark")])];
    SIf [] (GBin "!=" (GVar "err") GNil) [SReturn [(GUn "&" (GVar "emptyNodeLoc")); (GUn "&" (GVar "emptyNodeLoc")); (GUn "&" (GVar "emptyNodeLoc")); (GVar "err")]] [];
    SAssign [(GVar "leftNum"); (GVar "leftBytes"); (GVar "rightNum"); (GVar "rightBytes"); (GVar "err")] ":=" [(GCall "numInfo" [(GVar "o"); (GUn "&" (GVar "nNode.left")); (GVar "left")])];
    SIf [] (GBin "!=" (GVar "err") GNil) [SReturn [(GUn "&" (GVar "emptyNodeLoc")); (GUn "&" (GVar "emptyNodeLoc")); (GUn "&" (GVar "emptyNodeLoc")); (GVar "err")]] [];
    SAssign [(GVar "newLeft")] ":=" [(GCall "t.mkNodeLoc" [(GCall "t.mkNode" [(GVar "nItemLoc"); (GUn "&" (GVar "nNode.left")); (GVar "left"); (GBin "+" (GBin "+" (GVar "leftNum") (GVar "rightNum")) (GInt 1)); (GBin "+" (GBin "+" (GVar "leftBytes") (GVar "rightBytes")) (GCall "uint64" [(GCall "nItemLoc.NumBytes" [(GVar "t")])]))])])];
    SExpr (GCall "t.freeNodeLoc" [(GVar "left")]);
    SExpr (GCall "t.markReclaimable" [(GVar "nNode"); (GVar "reclaimMark")]);
    SReturn [(GVar "newLeft"); (GVar "middle"); (GVar "right"); GNil]]);
  ("Store.union",
    [SAssign [(GVar "thisNode"); (GVar "err")] ":=" [(GCall "this.read" [(GVar "o")])];
    SIf [] (GBin "!=" (GVar "err") GNil) [SReturn [(GUn "&" (GVar "emptyNodeLoc")); (GVar "err")]] [];
    SAssign [(GVar "thatNode"); (GVar "err")] ":=" [(GCall "that.read" [(GVar "o")])];
    SIf [] (GBin "!=" (GVar "err") GNil) [SReturn [(GUn "&" (GVar "emptyNodeLoc")); (GVar "err")]] [];
    SIf [] (GBin "||" (GCall "this.isEmpty" []) (GBin "==" (GVar "thisNode") GNil)) [SReturn [(GCall "t.mkNodeLoc(nil).Copy" [(GVar "that")]); GNil]] [];
    SIf [] (GBin "||" (GCall "that.isEmpty" []) (GBin "==" (GVar "thatNode") GNil)) [SReturn [(GCall "t.mkNodeLoc(nil).Copy" [(GVar "this")]); GNil]] [];
    SAssign [(GVar "thisItemLoc")] ":=" [(GUn "&" (GVar "thisNode.item"))];
    SAssign [(GVar "thisItem"); (GVar "err")] ":=" [(GCall "thisItemLoc.read" [(GVar "t"); (GVar "false")])];
    SIf [] (GBin "!=" (GVar "err") GNil) [SReturn [(GUn "&" (GVar "emptyNodeLoc")); (GVar "err")]] [];
    SAssign [(GVar "thatItemLoc")] ":=" [(GUn "&" (GVar "thatNode.item"))];
    SAssign [(GVar "thatItem"); (GVar "err")] ":=" [(GCall "thatItemLoc.read" [(GVar "t"); (GVar "false")])];
    SIf [] (GBin "!=" (GVar "err") GNil) [SReturn [(GUn "&" (GVar "emptyNodeLoc")); (GVar "err")]] [];
    SIf [] (GBin ">" (GVar "thisItem.Priority") (GVar "thatItem.Priority")) [SAssign [(GVar "left"); (GVar "middle"); (GVar "right"); (GVar "err")] ":=" [(GCall "o.split" [(GVar "t"); (GVar "that"); (GVar "thisItem.Key"); (GVar "reclaimMark")])];
    SIf [] (GBin "!=" (GVar "err") GNil) [SReturn [(GUn "&" (GVar "emptyNodeLoc")); (GVar "err")]] [];
    SAssign [(GVar "newLeft"); (GVar "err")] ":=" [(GCall "o.union" [(GVar "t"); (GUn "&" (GVar "thisNode.left")); (GVar "left"); (GVar "reclaimMark")])];
    SIf [] (GBin "!=" (GVar "err") GNil) [SReturn [(GUn "&" (GVar "emptyNodeLoc")); (GVar "err")]] [];
    SAssign [(GVar "newRight"); (GVar "err")] ":=" [(GCall "o.union" [(GVar "t"); (GUn "&" (GVar "thisNode.right")); (GVar "right"); (GVar "reclaimMark")])];
    SIf [] (GBin "!=" (GVar "err") GNil) [SReturn [(GUn "&" (GVar "emptyNodeLoc")); (GVar "err")]] [];
    SAssign [(GVar "leftNum"); (GVar "leftBytes"); (GVar "rightNum"); (GVar "rightBytes"); (GVar "err")] ":=" [(GCall "numInfo" [(GVar "o"); (GVar "newLeft"); (GVar "newRight")])];
    SIf [] (GBin "!=" (GVar "err") GNil) [SReturn [(GUn "&" (GVar "emptyNodeLoc")); (GVar "err")]] [];
    SVar "middleNode" None;
    SIf [] (GUn "!" (GCall "middle.isEmpty" [])) [SAssign [(GVar "middleNode"); (GVar "err")] "=" [(GCall "middle.read" [(GVar "o")])];
    SIf [] (GBin "!=" (GVar "err") GNil) [SReturn [(GUn "&" (GVar "emptyNodeLoc")); (GVar "err")]] [];
    SAssign [(GVar "middleItemLoc")] ":=" [(GUn "&" (GVar "middleNode.item"))];
    SAssign [(GVar "res")] "=" [(GCall "t.mkNodeLoc" [(GCall "t.mkNode" [(GVar "middleItemLoc"); (GVar "newLeft"); (GVar "newRight"); (GBin "+" (GBin "+" (GVar "leftNum") (GVar "rightNum")) (GInt 1)); (GBin "+" (GBin "+" (GVar "leftBytes") (GVar "rightBytes")) (GCall "uint64" [(GCall "middleItemLoc.NumBytes" [(GVar "t")])]))])])]] [SAssign [(GVar "res")] "=" [(GCall "t.mkNodeLoc" [(GCall "t.mkNode" [(GVar "thisItemLoc"); (GVar "newLeft"); (GVar "newRight"); (GBin "+" (GBin "+" (GVar "leftNum") (GVar "rightNum")) (GInt 1)); (GBin "+" (GBin "+" (GVar "leftBytes") (GVar "rightBytes")) (GCall "uint64" [(GCall "thisItemLoc.NumBytes" [(GVar "t")])]))])])]];
    SExpr (GCall "t.freeNodeLoc" [(GVar "left")]);
    SExpr (GCall "t.freeNodeLoc" [(GVar "right")]);
    SExpr (GCall "t.freeNodeLoc" [(GVar "middle")]);
    SExpr (GCall "t.freeNodeLoc" [(GVar "newLeft")]);
    SExpr (GCall "t.freeNodeLoc" [(GVar "newRight")]);
    SExpr (GCall "t.markReclaimable" [(GVar "thisNode"); (GVar "reclaimMark")]);
    SExpr (GCall "t.markReclaimable" [(GVar "middleNode"); (GVar "reclaimMark")]);
    SReturn [(GVar "res"); GNil]] [];
    SAssign [(GVar "left"); (GVar "middle"); (GVar "right"); (GVar "err")] ":=" [(GCall "o.split" [(GVar "t"); (GVar "this"); (GVar "thatItem.Key"); (GVar "reclaimMark")])];
    SIf [] (GBin "!=" (GVar "err") GNil) [SReturn [(GUn "&" (GVar "emptyNodeLoc")); (GVar "err")]] [];
    SAssign [(GVar "newLeft"); (GVar "err")] ":=" [(GCall "o.union" [(GVar "t"); (GVar "left"); (GUn "&" (GVar "thatNode.left")); (GVar "reclaimMark")])];
    SIf [] (GBin "!=" (GVar "err") GNil) [SReturn [(GUn "&" (GVar "emptyNodeLoc")); (GVar "err")]] [];
    SAssign [(GVar "newRight"); (GVar "err")] ":=" [(GCall "o.union" [(GVar "t"); (GVar "right"); (GUn "&" (GVar "thatNode.right")); (GVar "reclaimMark")])];
    SIf [] (GBin "!=" (GVar "err") GNil) [SReturn [(GUn "&" (GVar "emptyNodeLoc")); (GVar "err")]] [];
    SAssign [(GVar "leftNum"); (GVar "leftBytes"); (GVar "rightNum"); (GVar "rightBytes"); (GVar "err")] ":=" [(GCall "numInfo" [(GVar "o"); (GVar "newLeft"); (GVar "newRight")])];
    SIf [] (GBin "!=" (GVar "err") GNil) [SReturn [(GUn "&" (GVar "emptyNodeLoc")); (GVar "err")]] [];
    SAssign [(GVar "res")] "=" [(GCall "t.mkNodeLoc" [(GCall "t.mkNode" [(GVar "thatItemLoc"); (GVar "newLeft"); (GVar "newRight"); (GBin "+" (GBin "+" (GVar "leftNum") (GVar "rightNum")) (GInt 1)); (GBin "+" (GBin "+" (GVar "leftBytes") (GVar "rightBytes")) (GCall "uint64" [(GCall "thatItemLoc.NumBytes" [(GVar "t")])]))])])];
    SAssign [(GVar "middleNode")] ":=" [(GCall "middle.Node" [])];
    SExpr (GCall "t.freeNodeLoc" [(GVar "left")]);
    SExpr (GCall "t.freeNodeLoc" [(GVar "right")]);
    SExpr (GCall "t.freeNodeLoc" [(GVar "middle")]);
    SExpr (GCall "t.freeNodeLoc" [(GVar "newLeft")]);
    SExpr (GCall "t.freeNodeLoc" [(GVar "newRight")]);
    SExpr (GCall "t.markReclaimable" [(GVar "thatNode"); (GVar "reclaimMark")]);
    SExpr (GCall "t.markReclaimable" [(GVar "middleNode"); (GVar "reclaimMark")]);
    SReturn [(GVar "res"); GNil]]);
  ("Store.validateAndSetCollections",
    [SBlock [SVar "version" None; SVar "length0" None];
    SAssign [(GVar "b")] ":=" [(GCall "bytes.NewBuffer" [(GCall "[:]" [(GVar "data"); (GBin "*" (GInt 2) (GCall "len" [(GVar "MagicBeg")])); GNil])])];
    SIf [SAssign [(GVar "err")] ":=" [(GCall "binary.Read" [(GVar "b"); (GVar "binary.BigEndian"); (GUn "&" (GVar "version"))])]] (GBin "!=" (GVar "err") GNil) [SReturn [(GVar "err")]] [];
    SIf [SAssign [(GVar "err")] ":=" [(GCall "binary.Read" [(GVar "b"); (GVar "binary.BigEndian"); (GUn "&" (GVar "length0"))])]] (GBin "!=" (GVar "err") GNil) [SReturn [(GVar "err")]] [];
    SIf [] (GBin "!=" (GVar "version") (GInt 4)) [SReturn [(GCall "fmt.Errorf" [(GLit """version mismatch: current version: %v != found version: %v"""); (GInt 4); (GVar "version")])]] [];
    SIf [] (GBin "!=" (GVar "length0") (GVar "length")) [SReturn [(GCall "fmt.Errorf" [(GLit """length mismatch: wanted length: %v != found length: %v"""); (GVar "length0"); (GVar "length")])]] [];
    SAssign [(GVar "m")] ":=" [(GCall "make" [(GOther "map[string]*Collection")])];
    SIf [SAssign [(GVar "err")] ":=" [(GCall "json.Unmarshal" [(GCall "[:]" [(GVar "data"); (GBin "+" (GBin "+" (GBin "*" (GInt 2) (GCall "len" [(GVar "MagicBeg")])) (GInt 4)) (GInt 4)); GNil]); (GUn "&" (GVar "m"))])]] (GBin "!=" (GVar "err") GNil) [SReturn [(GVar "err")]] [];
    SRange (GVar "collName") (GVar "t") (GVar "m") [SAssign [(GVar "t.name")] "=" [(GVar "collName")];
    SAssign [(GVar "t.store")] "=" [(GVar "s")];
    SIf [] (GBin "!=" (GVar "s.callbacks.KeyCompareForCollection") GNil) [SAssign [(GVar "t.compare")] "=" [(GCall "s.callbacks.KeyCompareForCollection" [(GVar "collName")])]] [];
    SIf [] (GBin "==" (GVar "t.compare") GNil) [SAssign [(GVar "t.compare")] "=" [(GVar "bytes.Compare")]] []];
    SExpr (GCall "s.setColl" [(GUn "&" (GVar "m"))]);
    SReturn [GNil]]);
  ("Store.visitNodes",
    [SAssign [(GVar "saveMem")] ":=" [(GVar "true")];
    SAssign [(GVar "nNode"); (GVar "err")] ":=" [(GCall "n.read" [(GVar "o")])];
    SIf [] (GBin "!=" (GVar "err") GNil) [SReturn [(GVar "false"); (GVar "err")]] [];
    SIf [] (GBin "||" (GCall "n.isEmpty" []) (GBin "==" (GVar "nNode") GNil)) [SReturn [(GVar "true"); GNil]] [];
    SIf [] (GVar "saveMem") [SDefer (GCall "func(evictNode *node) {  if i := evictNode.Evict(); i != nil {   o.ItemDecRef(t, i)  } }" [(GVar "nNode")])] [];
    SAssign [(GVar "nItemLoc")] ":=" [(GUn "&" (GVar "nNode.item"))];
    SAssign [(GVar "nItem"); (GVar "err")] ":=" [(GCall "nItemLoc.read" [(GVar "t"); (GVar "false")])];
    SIf [] (GBin "!=" (GVar "err") GNil) [SReturn [(GVar "false"); (GVar "err")]] [];
    SIf [] (GBin "==" (GVar "nItem") GNil) [SExpr (GCall "panic" [(GCall "fmt.Sprintf" [(GLit """visitNodes nItem nil: %#v"""); (GVar "nNode")])])] [];
    SAssign [(GVar "choice"); (GVar "choiceT"); (GVar "choiceF")] ":=" [(GCall "choiceFunc" [(GCall "t.compare" [(GVar "target"); (GVar "nItem.Key")]); (GVar "nNode")])];
    SIf [] (GVar "choice") [SIf [] (GVar "saveMem") [SAssign [(GVar "choiceF")] "=" [GNil];
    SAssign [(GVar "nNode")] "=" [GNil];
    SAssign [(GVar "nItemLoc")] "=" [GNil]] [];
    SAssign [(GVar "keepGoing"); (GVar "err")] ":=" [(GCall "o.visitNodes" [(GVar "t"); (GVar "choiceT"); (GVar "target"); (GVar "withValue"); (GVar "visitor"); (GBin "+" (GVar "depth") (GInt 1)); (GVar "choiceFunc")])];
    SIf [] (GBin "||" (GBin "!=" (GVar "err") GNil) (GUn "!" (GVar "keepGoing"))) [SReturn [(GVar "false"); (GVar "err")]] [];
    SIf [] (GVar "saveMem") [SAssign [(GVar "choiceT")] "=" [GNil];
    SAssign [(GVar "nNode"); (GVar "_")] "=" [(GCall "n.read" [(GVar "o")])];
    SAssign [(GVar "nItemLoc")] "=" [(GUn "&" (GVar "nNode.item"))];
    SAssign [(GVar "nNode")] "=" [GNil]] [];
    SAssign [(GVar "nItem"); (GVar "err")] ":=" [(GCall "nItemLoc.read" [(GVar "t"); (GVar "withValue")])];
    SIf [] (GBin "!=" (GVar "err") GNil) [SReturn [(GVar "false"); (GVar "err")]] [];
    SExpr (GCall "o.ItemAddRef" [(GVar "t"); (GVar "nItem")]);
    SIf [] (GUn "!" (GCall "visitor" [(GVar "nItem"); (GVar "depth")])) [SExpr (GCall "o.ItemDecRef" [(GVar "t"); (GVar "nItem")]);
    SReturn [(GVar "false"); GNil]] [];
    SIf [] (GVar "saveMem") [SAssign [(GVar "nNode"); (GVar "_")] "=" [(GCall "n.read" [(GVar "o")])];
    SAssign [(GVar "n")] "=" [GNil];
    SAssign [(GVar "_"); (GVar "_"); (GVar "choiceF")] "=" [(GCall "choiceFunc" [(GCall "t.compare" [(GVar "target"); (GVar "nItem.Key")]); (GVar "nNode")])]] [];
    SExpr (GCall "o.ItemDecRef" [(GVar "t"); (GVar "nItem")])] [];
    SReturn [(GCall "o.visitNodes" [(GVar "t"); (GVar "choiceF"); (GVar "target"); (GVar "withValue"); (GVar "visitor"); (GBin "+" (GVar "depth") (GInt 1)); (GVar "choiceFunc")])]]);
  ("Store.walk",
    [SAssign [(GVar "rnl")] ":=" [(GCall "t.rootAddRef" [])];
    SDefer (GCall "t.rootDecRef" [(GVar "rnl")]);
    SAssign [(GVar "n")] ":=" [(GVar "rnl.root")];
    SAssign [(GVar "nNode"); (GVar "err")] ":=" [(GCall "n.read" [(GVar "o")])];
    SIf [] (GBin "||" (GBin "||" (GBin "!=" (GVar "err") GNil) (GCall "n.isEmpty" [])) (GBin "==" (GVar "nNode") GNil)) [SReturn [GNil; (GVar "err")]] [];
    SFor [] None [] [SAssign [(GVar "child"); (GVar "ok")] ":=" [(GCall "cfn" [(GVar "nNode")])];
    SIf [] (GUn "!" (GVar "ok")) [SReturn [GNil; GNil]] [];
    SAssign [(GVar "childNode"); (GVar "err")] ":=" [(GCall "child.read" [(GVar "o")])];
    SIf [] (GBin "!=" (GVar "err") GNil) [SReturn [GNil; (GVar "err")]] [];
    SIf [] (GBin "||" (GCall "child.isEmpty" []) (GBin "==" (GVar "childNode") GNil)) [SAssign [(GVar "i"); (GVar "err")] ":=" [(GCall "nNode.item.read" [(GVar "t"); (GVar "withValue")])];
    SIf [] (GBin "!=" (GVar "err") GNil) [SReturn [GNil; (GVar "err")]] [];
    SExpr (GCall "o.ItemAddRef" [(GVar "t"); (GVar "i")]);
    SReturn [(GVar "i"); GNil]] [];
    SAssign [(GVar "nNode")] "=" [(GVar "childNode")]]]);
  ("Store.writeRoots",
    [SAssign [(GVar "sJSON"); (GVar "err")] ":=" [(GCall "json.Marshal" [(GVar "rnls")])];
    SIf [] (GBin "!=" (GVar "err") GNil) [SReturn [(GVar "err")]] [];
    SAssign [(GVar "offset")] ":=" [(GCall "atomic.LoadInt64" [(GUn "&" (GVar "s.size"))])];
    SAssign [(GVar "length")] ":=" [(GBin "+" (GBin "+" (GBin "+" (GBin "+" (GBin "+" (GBin "+" (GBin "*" (GInt 2) (GCall "len" [(GVar "MagicBeg")])) (GInt 4)) (GInt 4)) (GCall "len" [(GVar "sJSON")])) (GInt 8)) (GInt 4)) (GBin "*" (GInt 2) (GCall "len" [(GVar "MagicEnd")])))];
    SAssign [(GVar "b")] ":=" [(GCall "bytes.NewBuffer" [(GCall "[:]" [(GCall "make" [(GOther "[]byte"); (GVar "length")]); GNil; (GInt 0)])])];
    SExpr (GCall "b.Write" [(GVar "MagicBeg")]);
    SExpr (GCall "b.Write" [(GVar "MagicBeg")]);
    SAssign [(GVar "err")] "=" [(GCall "binary.Write" [(GVar "b"); (GVar "binary.BigEndian"); (GInt 4)])];
    SIf [] (GBin "!=" (GVar "err") GNil) [SReturn [(GVar "err")]] [];
    SAssign [(GVar "err")] "=" [(GCall "binary.Write" [(GVar "b"); (GVar "binary.BigEndian"); (GCall "uint32" [(GVar "length")])])];
    SIf [] (GBin "!=" (GVar "err") GNil) [SReturn [(GVar "err")]] [];
    SExpr (GCall "b.Write" [(GVar "sJSON")]);
    SAssign [(GVar "err")] "=" [(GCall "binary.Write" [(GVar "b"); (GVar "binary.BigEndian"); (GCall "int64" [(GVar "offset")])])];
    SIf [] (GBin "!=" (GVar "err") GNil) [SReturn [(GVar "err")]] [];
    SAssign [(GVar "err")] "=" [(GCall "binary.Write" [(GVar "b"); (GVar "binary.BigEndian"); (GCall "uint32" [(GVar "length")])])];
    SIf [] (GBin "!=" (GVar "err") GNil) [SReturn [(GVar "err")]] [];
    SExpr (GCall "b.Write" [(GVar "MagicEnd")]);
    SExpr (GCall "b.Write" [(GVar "MagicEnd")]);
    SIf [SAssign [(GVar "_"); (GVar "err")] ":=" [(GCall "s.file.WriteAt" [(GCall "[:]" [(GCall "b.Bytes" []); GNil; (GVar "length")]); (GVar "offset")])]] (GBin "!=" (GVar "err") GNil) [SReturn [(GVar "err")]] [];
    SExpr (GCall "atomic.StoreInt64" [(GUn "&" (GVar "s.size")); (GBin "+" (GVar "offset") (GCall "int64" [(GVar "length")]))]);
    SReturn [GNil]]);
  ("ascendChoice",
    [SReturn [(GBin "<=" (GVar "cmp") (GInt 0)); (GUn "&" (GVar "n.left")); (GUn "&" (GVar "n.right"))]]);
  ("collNames",
    [SAssign [(GVar "res")] ":=" [(GCall "make" [(GOther "[]string"); (GInt 0); (GCall "len" [(GVar "coll")])])];
    SRange (GVar "name") GNil (GVar "coll") [SAssign [(GVar "res")] "=" [(GCall "append" [(GVar "res"); (GVar "name")])]];
    SExpr (GCall "sort.Strings" [(GVar "res")]);
    SReturn [(GVar "res")]]);
  ("copyColl",
    [SAssign [(GVar "res")] ":=" [(GCall "make" [(GOther "map[string]*Collection")])];
    SRange (GVar "name") (GVar "c") (GVar "orig") [SAssign [(GCall "[]" [(GVar "res"); (GVar "name")])] "=" [(GVar "c")]];
    SReturn [(GVar "res")]]);
  ("descendChoice",
    [SReturn [(GBin ">" (GVar "cmp") (GInt 0)); (GUn "&" (GVar "n.right")); (GUn "&" (GVar "n.left"))]]);
  ("dump",
    [SIf [] (GCall "n.isEmpty" []) [SReturn []] [];
    SAssign [(GVar "nNode"); (GVar "_")] ":=" [(GCall "n.read" [(GVar "o")])];
    SExpr (GCall "dump" [(GVar "o"); (GUn "&" (GVar "nNode.left")); (GBin "+" (GVar "level") (GInt 1))]);
    SExpr (GCall "dumpIndent" [(GVar "level")]);
    SAssign [(GVar "k")] ":=" [(GLit """<evicted>""")];
    SIf [] (GBin "!=" (GCall "nNode.item.Item" []) GNil) [SAssign [(GVar "k")] "=" [(GCall "string" [(GSel (GCall "nNode.item.Item" []) "Key")])]] [];
    SExpr (GCall "fmt.Printf" [(GLit """%p - %v\n"""); (GVar "nNode"); (GVar "k")]);
    SExpr (GCall "dump" [(GVar "o"); (GUn "&" (GVar "nNode.right")); (GBin "+" (GVar "level") (GInt 1))])]);
  ("dumpIndent",
    [SFor [SAssign [(GVar "i")] ":=" [(GInt 0)]] (Some (GBin "<" (GVar "i") (GVar "level"))) [SIncDec (GVar "i") true] [SExpr (GCall "fmt.Print" [(GLit """ """)])]]);
  ("itemBa.getKeyLength",
    [SReturn [(GVar "ds.keyLength")]]);
  ("itemBa.getLength",
    [SReturn [(GVar "ds.length")]]);
  ("itemBa.getPriority",
    [SReturn [(GVar "ds.priority")]]);
  ("itemBa.getValLength",
    [SReturn [(GVar "ds.valLength")]]);
  ("itemBa.populate",
    [SAssign [(GVar "ds.length")] "=" [(GCall "binary.BigEndian.Uint32" [(GCall "[:]" [(GVar "b"); (GInt 0); (GInt 4)])])];
    SIf [] (GBin "==" (GInt 4) (GInt 2)) [SAssign [(GVar "ds.keyLength")] "=" [(GCall "keyP" [(GCall "binary.BigEndian.Uint16" [(GCall "[:]" [(GVar "b"); (GInt 4); (GInt 8)])])])]] [SAssign [(GVar "ds.keyLength")] "=" [(GCall "keyP" [(GCall "binary.BigEndian.Uint32" [(GCall "[:]" [(GVar "b"); (GInt 4); (GInt 8)])])])]];
    SAssign [(GVar "ds.valLength")] "=" [(GCall "binary.BigEndian.Uint32" [(GCall "[:]" [(GVar "b"); (GInt 8); (GInt 12)])])];
    SAssign [(GVar "ds.priority")] "=" [(GCall "int32" [(GCall "binary.BigEndian.Uint32" [(GCall "[:]" [(GVar "b"); (GInt 12); (GInt 16)])])])];
    SReturn [(GVar "ds")]]);
  ("itemBa.render",
    [SAssign [(GVar "b")] ":=" [(GCall "make" [(GOther "[]byte"); (GVar "hlength")])];
    SExpr (GCall "binary.BigEndian.PutUint32" [(GCall "[:]" [(GVar "b"); (GInt 0); (GInt 4)]); (GCall "uint32" [(GVar "ds.length")])]);
    SIf [] (GBin "==" (GInt 4) (GInt 2)) [SExpr (GCall "binary.BigEndian.PutUint16" [(GCall "[:]" [(GVar "b"); (GInt 4); (GInt 8)]); (GCall "uint16" [(GVar "ds.keyLength")])])] [SExpr (GCall "binary.BigEndian.PutUint32" [(GCall "[:]" [(GVar "b"); (GInt 4); (GInt 8)]); (GCall "uint32" [(GVar "ds.keyLength")])])];
    SExpr (GCall "binary.BigEndian.PutUint32" [(GCall "[:]" [(GVar "b"); (GInt 8); (GInt 12)]); (GCall "uint32" [(GVar "ds.valLength")])]);
    SExpr (GCall "binary.BigEndian.PutUint32" [(GCall "[:]" [(GVar "b"); (GInt 12); (GInt 16)]); (GCall "uint32" [(GVar "ds.priority")])]);
    SReturn [(GVar "b")]]);
  ("itemLoc.Copy",
    [SIf [] (GBin "==" (GVar "src") GNil) [SExpr (GCall "iloc.Copy" [(GUn "&" (GVar "emptyItemLoc"))]);
    SReturn []] [];
    SIf [] (GVar "itemLocMutex") [SExpr (GCall "itemLocGL.Lock" []);
    SDefer (GCall "itemLocGL.Unlock" [])] [];
    SAssign [(GVar "iloc.loc")] "=" [(GVar "src.loc")];
    SAssign [(GVar "iloc.item")] "=" [(GVar "src.item")]]);
  ("itemLoc.Item",
    [SIf [] (GVar "itemLocMutex") [SExpr (GCall "itemLocGL.RLock" []);
    SDefer (GCall "itemLocGL.RUnlock" [])] [];
    SReturn [(GVar "iloc.item")]]);
  ("itemLoc.Loc",
    [SIf [] (GVar "itemLocMutex") [SExpr (GCall "itemLocGL.RLock" []);
    SDefer (GCall "itemLocGL.RUnlock" [])] [];
    SReturn [(GVar "iloc.loc")]]);
  ("itemLoc.NumBytes",
    [SAssign [(GVar "loc")] ":=" [(GCall "iloc.Loc" [])];
    SIf [] (GCall "loc.isEmpty" []) [SAssign [(GVar "i")] ":=" [(GCall "iloc.Item" [])];
    SIf [] (GBin "==" (GVar "i") GNil) [SReturn [(GInt 0)]] [];
    SReturn [(GCall "i.NumBytes" [(GVar "c")])]] [];
    SReturn [(GBin "-" (GCall "int" [(GVar "loc.Length")]) (GInt 16))]]);
  ("itemLoc.casItem",
    [SIf [] (GVar "itemLocMutex") [SExpr (GCall "itemLocGL.Lock" []);
    SDefer (GCall "itemLocGL.Unlock" [])] [];
    SIf [] (GBin "==" (GVar "iloc.item") (GVar "o")) [SAssign [(GVar "iloc.item")] "=" [(GVar "n")];
    SReturn [(GVar "true")]] [];
    SReturn [(GVar "false")]]);
  ("itemLoc.read",
    [SIf [] (GBin "==" (GVar "iloc") GNil) [SReturn [GNil; GNil]] [];
    SAssign [(GVar "icur")] "=" [(GCall "iloc.Item" [])];
    SIf [] (GBin "||" (GBin "==" (GVar "icur") GNil) (GBin "&&" (GBin "==" (GVar "icur.Val") GNil) (GVar "withValue"))) [SAssign [(GVar "loc")] ":=" [(GCall "iloc.Loc" [])];
    SIf [] (GCall "loc.isEmpty" []) [SReturn [GNil; GNil]] [];
    SIf [] (GBin "<" (GVar "loc.Length") (GInt 16)) [SReturn [GNil; (GCall "fmt.Errorf" [(GLit """unexpected item loc.Length: %v < %v"""); (GVar "loc.Length"); (GInt 16)])]] [];
    SAssign [(GVar "b")] ":=" [(GCall "make" [(GOther "[]byte"); (GInt 16)])];
    SIf [SAssign [(GVar "_"); (GVar "err")] ":=" [(GCall "c.store.file.ReadAt" [(GVar "b"); (GVar "loc.Offset")])]] (GBin "!=" (GVar "err") GNil) [SReturn [GNil; (GVar "err")]] [];
    SVar "ds" None;
    SAssign [(GVar "keyLength")] ":=" [(GCall "ds.populate(b).getKeyLength" [])];
    SAssign [(GVar "i")] ":=" [(GCall "c.store.ItemAlloc" [(GVar "c"); (GCall "uint32" [(GVar "keyLength")])])];
    SIf [] (GBin "==" (GVar "i") GNil) [SReturn [GNil; (GCall "errors.New" [(GLit """ItemAlloc() failed""")])]] [];
    SAssign [(GVar "i.Priority")] "=" [(GCall "ds.getPriority" [])];
    SAssign [(GVar "valLength")] ":=" [(GCall "ds.getValLength" [])];
    SIf [] (GBin "!=" (GCall "ds.getLength" []) (GBin "+" (GBin "+" (GInt 16) (GCall "uint32" [(GVar "keyLength")])) (GVar "valLength"))) [SExpr (GCall "c.store.ItemDecRef" [(GVar "c"); (GVar "i")]);
    SReturn [GNil; (GCall "errors.New" [(GLit """mismatched itemLoc lengths""")])]] [];
    SIf [] (GBin "!=" (GInt 16) (GInt 16)) [SExpr (GCall "c.store.ItemDecRef" [(GVar "c"); (GVar "i")]);
    SReturn [GNil; (GCall "fmt.Errorf" [(GLit """read pos != itemLoc_hdrLength, %v != %v"""); (GInt 16); (GInt 16)])]] [];
    SIf [SAssign [(GVar "_"); (GVar "err")] ":=" [(GCall "c.store.file.ReadAt" [(GVar "i.Key"); (GBin "+" (GVar "loc.Offset") (GInt 16))])]] (GBin "!=" (GVar "err") GNil) [SExpr (GCall "c.store.ItemDecRef" [(GVar "c"); (GVar "i")]);
    SReturn [GNil; (GVar "err")]] [];
    SIf [] (GVar "withValue") [SAssign [(GVar "err")] ":=" [(GCall "c.store.ItemValRead" [(GVar "c"); (GVar "i"); (GVar "c.store.file"); (GBin "+" (GBin "+" (GVar "loc.Offset") (GInt 16)) (GCall "int64" [(GVar "keyLength")])); (GVar "valLength")])];
    SIf [] (GBin "!=" (GVar "err") GNil) [SExpr (GCall "c.store.ItemDecRef" [(GVar "c"); (GVar "i")]);
    SReturn [GNil; (GVar "err")]] []] [];
    SIf [] (GBin "!=" (GVar "c.store.callbacks.AfterItemRead") GNil) [SAssign [(GVar "i"); (GVar "err")] "=" [(GCall "c.store.callbacks.AfterItemRead" [(GVar "c"); (GVar "i")])];
    SIf [] (GBin "!=" (GVar "err") GNil) [SExpr (GCall "c.store.ItemDecRef" [(GVar "c"); (GVar "i")]);
    SReturn [GNil; (GVar "err")]] []] [];
    SIf [] (GUn "!" (GCall "iloc.casItem" [(GVar "icur"); (GVar "i")])) [SExpr (GCall "c.store.ItemDecRef" [(GVar "c"); (GVar "i")]);
    SReturn [(GCall "iloc.read" [(GVar "c"); (GVar "withValue")])]] [];
    SIf [] (GBin "!=" (GVar "icur") GNil) [SExpr (GCall "c.store.ItemDecRef" [(GVar "c"); (GVar "icur")])] [];
    SAssign [(GVar "icur")] "=" [(GVar "i")]] [];
    SReturn [(GVar "icur"); GNil]]);
  ("itemLoc.setLoc",
    [SIf [] (GVar "itemLocMutex") [SExpr (GCall "itemLocGL.Lock" []);
    SDefer (GCall "itemLocGL.Unlock" [])] [];
    SAssign [(GVar "iloc.loc")] "=" [(GVar "n")]]);
  ("itemLoc.write",
    [SIf [] (GCall "iloc.Loc().isEmpty" []) [SAssign [(GVar "iItem")] ":=" [(GCall "iloc.Item" [])];
    SIf [] (GBin "==" (GVar "iItem") GNil) [SReturn [(GCall "errors.New" [(GLit """itemLoc.write with nil item""")])]] [];
    SIf [] (GBin "!=" (GVar "c.store.callbacks.BeforeItemWrite") GNil) [SAssign [(GVar "iItem"); (GVar "err")] "=" [(GCall "c.store.callbacks.BeforeItemWrite" [(GVar "c"); (GVar "iItem")])];
    SIf [] (GBin "!=" (GVar "err") GNil) [SReturn [(GVar "err")]] []] [];
    SAssign [(GVar "offset")] ":=" [(GCall "atomic.LoadInt64" [(GUn "&" (GVar "c.store.size"))])];
    SAssign [(GVar "hlength")] ":=" [(GBin "+" (GInt 16) (GCall "len" [(GVar "iItem.Key")]))];
    SAssign [(GVar "vlength")] ":=" [(GCall "iItem.NumValBytes" [(GVar "c")])];
    SAssign [(GVar "ilength")] ":=" [(GBin "+" (GVar "hlength") (GVar "vlength"))];
    SAssign [(GVar "ds")] ":=" [(GOther "itemBa{  length:  uint32(ilength),  keyLength: keyP(len(iItem.Key)),  valLength: uint32(vlength),  priority: iItem.Priority, }")];
    SAssign [(GVar "b")] ":=" [(GCall "ds.render" [(GVar "hlength")])];
    SAssign [(GVar "pos")] ":=" [(GBin "+" (GInt 16) (GCall "copy" [(GCall "[:]" [(GVar "b"); (GInt 16); GNil]); (GVar "iItem.Key")]))];
    SIf [] (GBin "!=" (GVar "pos") (GVar "hlength")) [SReturn [(GCall "fmt.Errorf" [(GLit """itemLoc.write() pos: %v didn't match hlength: %v"""); (GVar "pos"); (GVar "hlength")])]] [];
    SIf [SAssign [(GVar "_"); (GVar "err")] ":=" [(GCall "c.store.file.WriteAt" [(GVar "b"); (GVar "offset")])]] (GBin "!=" (GVar "err") GNil) [SReturn [(GVar "err")]] [];
    SAssign [(GVar "err")] ":=" [(GCall "c.store.ItemValWrite" [(GVar "c"); (GVar "iItem"); (GVar "c.store.file"); (GBin "+" (GVar "offset") (GCall "int64" [(GVar "pos")]))])];
    SIf [] (GBin "!=" (GVar "err") GNil) [SReturn [(GVar "err")]] [];
    SExpr (GCall "atomic.StoreInt64" [(GUn "&" (GVar "c.store.size")); (GBin "+" (GVar "offset") (GCall "int64" [(GVar "ilength")]))]);
    SExpr (GCall "iloc.setLoc" [(GUn "&" (GOther "ploc{Offset: offset, Length: uint32(ilength)}"))])] [];
    SReturn [GNil]]);
  ("iterator.Close",
    [SIf [] (GVar "it.closed") [SReturn []] [];
    SExpr (GCall "close" [(GVar "it.next")]);
    SAssign [(GVar "it.closed")] "=" [(GVar "true")]]);
  ("iterator.Err",
    [SReturn [(GVar "it.err")]]);
  ("iterator.Next",
    [SIf [] (GVar "it.closed") [SReturn [(GVar "false")]] [];
    SOther "it.next <- true";
    SAssign [(GVar "i"); (GVar "ok")] ":=" [(GUn "<-" (GVar "it.items"))];
    SIf [] (GBin "||" (GUn "!" (GVar "ok")) (GBin "!=" (GVar "it.err") GNil)) [SExpr (GCall "close" [(GVar "it.next")]);
    SAssign [(GVar "it.closed")] "=" [(GVar "true")];
    SReturn [(GVar "false")]] [];
    SAssign [(GVar "it.result")] "=" [(GVar "i")];
    SReturn [(GVar "true")]]);
  ("iterator.Result",
    [SReturn [(GVar "it.result")]]);
  ("newIterator",
    [SAssign [(GVar "it")] ":=" [(GOther "iterator{}")];
    SAssign [(GVar "it.target")] "=" [(GVar "target")];
    SAssign [(GVar "it.withValue")] "=" [(GVar "withValue")];
    SAssign [(GVar "it.next")] "=" [(GCall "make" [(GOther "chan bool")])];
    SAssign [(GVar "it.items")] "=" [(GCall "make" [(GOther "chan *Item")])];
    SReturn [(GUn "&" (GVar "it"))]]);
  ("node.Evict",
    [SIf [] (GUn "!" (GCall "n.item.Loc().isEmpty" [])) [SAssign [(GVar "i")] ":=" [(GCall "n.item.Item" [])];
    SIf [] (GBin "&&" (GBin "!=" (GVar "i") GNil) (GCall "n.item.casItem" [(GVar "i"); GNil])) [SReturn [(GVar "i")]] []] [];
    SReturn [GNil]]);
  ("node.populateDiskStruct",
    [SAssign [(GVar "b")] "=" [(GCall "make" [(GOther "[]byte"); (GVar "length")])];
    SVar "pos" None;
    SAssign [(GVar "pos")] "=" [(GCall "n.item.Loc().write" [(GVar "b"); (GVar "pos")])];
    SAssign [(GVar "pos")] "=" [(GCall "n.left.Loc().write" [(GVar "b"); (GVar "pos")])];
    SAssign [(GVar "pos")] "=" [(GCall "n.right.Loc().write" [(GVar "b"); (GVar "pos")])];
    SExpr (GCall "binary.BigEndian.PutUint64" [(GCall "[:]" [(GVar "b"); (GVar "pos"); (GBin "+" (GVar "pos") (GInt 8))]); (GVar "n.numNodes")]);
    SAssign [(GVar "pos")] "+=" [(GInt 8)];
    SExpr (GCall "binary.BigEndian.PutUint64" [(GCall "[:]" [(GVar "b"); (GVar "pos"); (GBin "+" (GVar "pos") (GInt 8))]); (GVar "n.numBytes")]);
    SAssign [(GVar "pos")] "+=" [(GInt 8)];
    SIf [] (GBin "!=" (GVar "pos") (GVar "length")) [SReturn [(GVar "b"); (GCall "fmt.Errorf" [(GLit """nodeLoc.write() pos: %v didn't match length: %v"""); (GVar "pos"); (GVar "length")])]] [];
    SReturn []]);
  ("node.setNumBytes",
    [SAssign [(GVar "n.numBytes")] "=" [(GCall "binary.BigEndian.Uint64" [(GCall "[:]" [(GVar "b"); (GVar "pos"); (GBin "+" (GVar "pos") (GInt 8))])])]]);
  ("node.setNumNodes",
    [SAssign [(GVar "n.numNodes")] "=" [(GCall "binary.BigEndian.Uint64" [(GCall "[:]" [(GVar "b"); (GVar "pos"); (GBin "+" (GVar "pos") (GInt 8))])])]]);
  ("nodeLoc.Copy",
    [SIf [] (GBin "==" (GVar "src") GNil) [SReturn [(GCall "nloc.Copy" [(GUn "&" (GVar "emptyNodeLoc"))])]] [];
    SIf [] (GVar "nodeMutex") [SExpr (GCall "nodeLocGL.Lock" []);
    SDefer (GCall "nodeLocGL.Unlock" [])] [];
    SAssign [(GVar "nloc.loc")] "=" [(GVar "src.loc")];
    SAssign [(GVar "nloc.node")] "=" [(GVar "src.node")];
    SReturn [(GVar "nloc")]]);
  ("nodeLoc.Loc",
    [SIf [] (GVar "nodeMutex") [SExpr (GCall "nodeLocGL.RLock" []);
    SDefer (GCall "nodeLocGL.RUnlock" [])] [];
    SReturn [(GVar "nloc.loc")]]);
  ("nodeLoc.LocNode",
    [SIf [] (GVar "nodeMutex") [SExpr (GCall "nodeLocGL.RLock" []);
    SDefer (GCall "nodeLocGL.RUnlock" [])] [];
    SReturn [(GVar "nloc.loc"); (GVar "nloc.node")]]);
  ("nodeLoc.Node",
    [SIf [] (GVar "nodeMutex") [SExpr (GCall "nodeLocGL.RLock" []);
    SDefer (GCall "nodeLocGL.RUnlock" [])] [];
    SReturn [(GVar "nloc.node")]]);
  ("nodeLoc.isEmpty",
    [SIf [] (GVar "nodeMutex") [SExpr (GCall "nodeLocGL.RLock" []);
    SDefer (GCall "nodeLocGL.RUnlock" [])] [];
    SReturn [(GBin "||" (GBin "==" (GVar "nloc") GNil) (GBin "&&" (GCall "nloc.loc.isEmpty" []) (GBin "==" (GVar "nloc.node") GNil)))]]);
  ("nodeLoc.read",
    [SIf [] (GBin "==" (GVar "nloc") GNil) [SReturn [GNil; GNil]] [];
    SAssign [(GVar "loc"); (GVar "n")] ":=" [(GCall "nloc.LocNode" [])];
    SIf [] (GBin "!=" (GVar "n") GNil) [SReturn [(GVar "n"); GNil]] [];
    SIf [] (GCall "loc.isEmpty" []) [SReturn [GNil; GNil]] [];
    SIf [] (GBin "!=" (GVar "loc.Length") (GInt 52)) [SReturn [GNil; (GCall "fmt.Errorf" [(GLit """unexpected node loc.Length: %v != %v"""); (GVar "loc.Length"); (GInt 52)])]] [];
    SAssign [(GVar "b")] ":=" [(GCall "make" [(GOther "[]byte"); (GVar "loc.Length")])];
    SIf [SAssign [(GVar "_"); (GVar "err")] ":=" [(GCall "o.file.ReadAt" [(GVar "b"); (GVar "loc.Offset")])]] (GBin "!=" (GVar "err") GNil) [SReturn [GNil; (GVar "err")]] [];
    SExpr (GCall "atomic.AddUint64" [(GUn "&" (GVar "o.nodeAllocs")); (GInt 1)]);
    SAssign [(GVar "n"); (GVar "err")] "=" [(GCall "populateNode" [(GVar "b")])];
    SIf [] (GBin "!=" (GVar "err") GNil) [SReturn [(GVar "n"); (GVar "err")]] [];
    SExpr (GCall "nloc.setNode" [(GVar "n")]);
    SReturn [(GVar "n"); GNil]]);
  ("nodeLoc.setLoc",
    [SIf [] (GVar "nodeMutex") [SExpr (GCall "nodeLocGL.Lock" []);
    SDefer (GCall "nodeLocGL.Unlock" [])] [];
    SAssign [(GVar "nloc.loc")] "=" [(GVar "n")]]);
  ("nodeLoc.setNode",
    [SIf [] (GVar "nodeMutex") [SExpr (GCall "nodeLocGL.Lock" []);
    SDefer (GCall "nodeLocGL.Unlock" [])] [];
    SAssign [(GVar "nloc.node")] "=" [(GVar "n")]]);
  ("nodeLoc.write",
    [SAssign [(GVar "loc"); (GVar "node")] ":=" [(GCall "nloc.LocNode" [])];
    SIf [] (GBin "&&" (GBin "!=" (GVar "nloc") GNil) (GCall "loc.isEmpty" [])) [SIf [] (GBin "==" (GVar "node") GNil) [SReturn [GNil]] [];
    SAssign [(GVar "offset")] ":=" [(GCall "o.getSize" [])];
    SAssign [(GVar "length")] ":=" [(GInt 52)];
    SAssign [(GVar "b"); (GVar "err")] ":=" [(GCall "node.populateDiskStruct" [(GVar "length")])];
    SIf [] (GBin "!=" (GVar "err") GNil) [SReturn [(GVar "err")]] [];
    SIf [SAssign [(GVar "_"); (GVar "err")] ":=" [(GCall "o.file.WriteAt" [(GVar "b"); (GVar "offset")])]] (GBin "!=" (GVar "err") GNil) [SReturn [(GVar "err")]] [];
    SExpr (GCall "o.setSize" [(GBin "+" (GVar "offset") (GCall "int64" [(GVar "length")]))]);
    SExpr (GCall "nloc.setLoc" [(GUn "&" (GOther "ploc{Offset: offset, Length: uint32(length)}"))])] [];
    SReturn [GNil]]);
  ("numInfo",
    [SAssign [(GVar "leftNode"); (GVar "err")] ":=" [(GCall "left.read" [(GVar "o")])];
    SIf [] (GBin "!=" (GVar "err") GNil) [SReturn [(GInt 0); (GInt 0); (GInt 0); (GInt 0); (GVar "err")]] [];
    SAssign [(GVar "rightNode"); (GVar "err")] ":=" [(GCall "right.read" [(GVar "o")])];
    SIf [] (GBin "!=" (GVar "err") GNil) [SReturn [(GInt 0); (GInt 0); (GInt 0); (GInt 0); (GVar "err")]] [];
    SIf [] (GBin "&&" (GUn "!" (GCall "left.isEmpty" [])) (GBin "!=" (GVar "leftNode") GNil)) [SAssign [(GVar "leftNum")] "=" [(GVar "leftNode.numNodes")];
    SAssign [(GVar "leftBytes")] "=" [(GVar "leftNode.numBytes")]] [];
    SIf [] (GBin "&&" (GUn "!" (GCall "right.isEmpty" [])) (GBin "!=" (GVar "rightNode") GNil)) [SAssign [(GVar "rightNum")] "=" [(GVar "rightNode.numNodes")];
    SAssign [(GVar "rightBytes")] "=" [(GVar "rightNode.numBytes")]] [];
    SReturn [(GVar "leftNum"); (GVar "leftBytes"); (GVar "rightNum"); (GVar "rightBytes"); GNil]]);
  ("ploc.isEmpty",
    [SReturn [(GBin "||" (GBin "==" (GVar "p") GNil) (GBin "&&" (GBin "==" (GVar "p.Offset") (GInt 0)) (GBin "==" (GVar "p.Length") (GInt 0))))]]);
  ("ploc.read",
    [SAssign [(GVar "p.Offset")] "=" [(GCall "int64" [(GCall "binary.BigEndian.Uint64" [(GCall "[:]" [(GVar "b"); (GVar "pos"); (GBin "+" (GVar "pos") (GInt 8))])])])];
    SAssign [(GVar "pos")] "+=" [(GInt 8)];
    SAssign [(GVar "p.Length")] "=" [(GCall "binary.BigEndian.Uint32" [(GCall "[:]" [(GVar "b"); (GVar "pos"); (GBin "+" (GVar "pos") (GInt 4))])])];
    SAssign [(GVar "pos")] "+=" [(GInt 4)];
    SIf [] (GCall "p.isEmpty" []) [SReturn [GNil; (GVar "pos")]] [];
    SReturn [(GVar "p"); (GVar "pos")]]);
  ("ploc.write",
    [SIf [] (GBin "==" (GVar "p") GNil) [SReturn [(GCall "plocEmpty.write" [(GVar "b"); (GVar "pos")])]] [];
    SExpr (GCall "binary.BigEndian.PutUint64" [(GCall "[:]" [(GVar "b"); (GVar "pos"); (GBin "+" (GVar "pos") (GInt 8))]); (GCall "uint64" [(GVar "p.Offset")])]);
    SAssign [(GVar "pos")] "+=" [(GInt 8)];
    SExpr (GCall "binary.BigEndian.PutUint32" [(GCall "[:]" [(GVar "b"); (GVar "pos"); (GBin "+" (GVar "pos") (GInt 4))]); (GVar "p.Length")]);
    SAssign [(GVar "pos")] "+=" [(GInt 4)];
    SReturn [(GVar "pos")]]);
  ("populateNode",
    [SAssign [(GVar "n")] "=" [(GUn "&" (GOther "node{}"))];
    SVar "p" None;
    SVar "pos" None;
    SAssign [(GVar "p")] "=" [(GUn "&" (GOther "ploc{}"))];
    SAssign [(GVar "p"); (GVar "pos")] "=" [(GCall "p.read" [(GVar "b"); (GVar "pos")])];
    SAssign [(GVar "n.item.loc")] "=" [(GVar "p")];
    SAssign [(GVar "p")] "=" [(GUn "&" (GOther "ploc{}"))];
    SAssign [(GVar "p"); (GVar "pos")] "=" [(GCall "p.read" [(GVar "b"); (GVar "pos")])];
    SAssign [(GVar "n.left.loc")] "=" [(GVar "p")];
    SAssign [(GVar "p")] "=" [(GUn "&" (GOther "ploc{}"))];
    SAssign [(GVar "p"); (GVar "pos")] "=" [(GCall "p.read" [(GVar "b"); (GVar "pos")])];
    SAssign [(GVar "n.right.loc")] "=" [(GVar "p")];
    SExpr (GCall "n.setNumNodes" [(GVar "b"); (GVar "pos")]);
    SAssign [(GVar "pos")] "+=" [(GInt 8)];
    SExpr (GCall "n.setNumBytes" [(GVar "b"); (GVar "pos")]);
    SAssign [(GVar "pos")] "+=" [(GInt 8)];
    SIf [] (GBin "!=" (GVar "pos") (GCall "len" [(GVar "b")])) [SReturn [GNil; (GCall "fmt.Errorf" [(GLit """nodeLoc.read() pos: %v didn't match length: %v"""); (GVar "pos"); (GCall "len" [(GVar "b")])])]] [];
    SReturn [(GVar "n"); GNil]]);
  ("rootNodeLoc.MarshalJSON",
    [SAssign [(GVar "loc")] ":=" [(GCall "rnl.root.Loc" [])];
    SIf [] (GCall "loc.isEmpty" []) [SReturn [(GCall "json.Marshal" [(GVar "plocEmpty")])]] [];
    SReturn [(GCall "json.Marshal" [(GVar "loc")])]]);
  ("rootsReadError.Error",
    [SReturn [(GCall "e.err.Error" [])]]);
  ("toBa",
    [SVar "bs" None;
    SOther "switch v := st.(type) { case int:  bs = []byte(strconv.Itoa(v)) case []int:  var st string  var comma string  for _, j := range v {   st += comma + strconv.Itoa(j)   comma = "",""  }  bs = []byte(st) case string:  bs = []byte(v) case []byte:  bs = v case ByteAble:  bs = v.ToBa() default:  log.Fatalf(""Unknown Type in toBa Conversion %T\n"", st) }";
    SReturn [(GVar "bs")]]);
  ("withAllocLocks",
    [SExpr (GCall "freeNodeLock.Lock" []);
    SExpr (GCall "freeNodeLocLock.Lock" []);
    SExpr (GCall "freeRootNodeLocLock.Lock" []);
    SDefer (GCall "freeNodeLock.Unlock" []);
    SDefer (GCall "freeNodeLocLock.Unlock" []);
    SDefer (GCall "freeRootNodeLocLock.Unlock" []);
    SExpr (GCall "cb" [])])
].
