(* C16 — whole-collection enumerations cover every item exactly once, at every size.
   Blocks.v follows the counters of Len / determineBlocks / VisitItemsAscendBlockEx /
   VisitItemsRandom over the list semantics of the ascending visit (C06). *)
From Coq Require Import Permutation.
From GK Require Import Base Blocks BlocksProofs Generated Layout.

(* Len() equals the number of items, including 0 *)
Theorem c16_len : forall (A : Type) (l : list A), len_visit l = length l.
Proof. exact BlocksProofs.len_spec. Qed.
Print Assumptions c16_len.

(* VisitItemsAscendBlockEx presents every item exactly once: for EVERY collection size (empty, one item,
   sizes that are not a multiple of the block length, sizes above 1024) and EVERY block reordering *)
Theorem c16_block_visit : forall (A : Type) (l : list A) (mangle : list nat -> list nat),
  (forall bs, Permutation (mangle bs) bs) -> Permutation (block_visit mangle l) l.
Proof. exact BlocksProofs.block_visit_perm. Qed.
Print Assumptions c16_block_visit.

(* VisitItemsRandom likewise *)
Theorem c16_random_visit : forall (A : Type) (l : list A) (mangle : list nat -> list nat),
  (forall bs, Permutation (mangle bs) bs) -> Permutation (random_visit mangle l) l.
Proof. exact BlocksProofs.random_visit_perm. Qed.
Print Assumptions c16_random_visit.

(* the code as found (before the repair recorded in known_findings.txt) delivered the last item of a
   partial last block repeatedly: a one-item collection was delivered twice *)
Theorem c16_random_pinned_refuted : exists l : list nat,
  ~ Permutation (random_visit_pinned (fun bs => bs) l) l.
Proof. exact BlocksProofs.random_pinned_refuted. Qed.
Print Assumptions c16_random_pinned_refuted.

(* the maximum block count the source uses now is the model's *)
Theorem c16_max_block_cnt : g_max_block_cnt = 1024%Z.
Proof. exact Layout.max_block_cnt_is_1024. Qed.
Print Assumptions c16_max_block_cnt.

(* ---------------------------------------------------------------------------------------------- *)
(* REGENERATED FROM THE SOURCE ON EVERY RUN (tools/gen -> Generated.g_code; DecBase.v, Dec*.v): the decisions the model
   takes at these points are the evaluations of the conditions the Go source has there, for all values of their
   variables. *)
From GK Require Import GExpr Generated DecBase DecBlocks.
From Coq Require Import String.

(* determineBlocks: the WHOLE translated body of the Go function, executed, is Blocks.determine_blocks *)
Theorem c16_determine_blocks_is_source : forall cnt : nat,
  gexec 50 (db_env (Z.of_nat cnt)) (body "Collection.determineBlocks") =
  RRet [Z.of_nat (fst (determine_blocks cnt)); Z.of_nat (snd (determine_blocks cnt)); 0%Z].
Proof. exact DecBlocks.determine_blocks_is_source. Qed.
Print Assumptions c16_determine_blocks_is_source.

(* the block start keys both enumerations keep between their passes are COPIES of the keys: the items they were taken from
   are released when the first pass leaves their nodes (repaired defect dd291f6) *)
From GK Require Import DecRecycle.
From Coq Require Import List.
Import ListNotations.
Theorem c16_block_keys_are_copies_is_source :
  hd (SReturn []) (body "<lit:Collection.VisitItemsAscendBlockEx#1>") =
    SIf [] (GBin "==" (GVar "j") (GInt 0))
      [SAssign [GVar "blockStore"] "=" [GCall "append" [GVar "blockStore"; copy_of "i.Key"]];
       SAssign [GVar "j"] "=" [GInt 1]]
      [SIf [] (GBin ">=" (GVar "j") (GVar "lenBlock")) [SAssign [GVar "j"] "=" [GInt 0]] [SIncDec (GVar "j") true]] /\
  body "<lit:Collection.VisitItemsRandom#1>" = body "<lit:Collection.VisitItemsAscendBlockEx#1>" /\
  In (SAssign [GCall "[]" [GVar "blockStore"; GVar "i"]] "=" [copy_of "itm.Key"])
     (body "<lit:Collection.VisitItemsRandom#2>").
Proof. exact DecRecycle.block_keys_are_copies. Qed.
Print Assumptions c16_block_keys_are_copies_is_source.
