(* C18 — iterators and re-entrant callbacks terminate cleanly without deadlock or leaks.
   PARTIAL (DESIGN.md): Iter.v is a transition system of the consumer (any list of Next/Close commands)
   and the producer goroutine over two unbuffered channels; Go's channel semantics are assumed as modelled.
   All theorems: for every collection size n, every command list, every interleaving. *)
From Coq Require Import String.
From GK Require Import Base Iter IterProofs Generated CallGraph.

Theorem c18_no_panic : forall n cmds0 s, reachable n cmds0 s -> panicked s = false.
Proof. exact IterProofs.T1_no_panic. Qed.
Print Assumptions c18_no_panic.

(* no deadlock: a state that is not final always has a step *)
Theorem c18_progress : forall n cmds0 s, reachable n cmds0 s -> ~ final s -> exists s', step n s s'.
Proof. exact IterProofs.T2_progress. Qed.
Print Assumptions c18_progress.

(* every execution is finite ... *)
Theorem c18_no_infinite_path : forall n (f : nat -> state), ~ (forall i, step n (f i) (f (S i))).
Proof. exact IterProofs.T3_no_infinite_path. Qed.
Print Assumptions c18_no_infinite_path.

(* ... and ends in a final state *)
Theorem c18_reaches_final : forall n cmds0 s, reachable n cmds0 s -> exists s', steps n s s' /\ final s'.
Proof. exact IterProofs.T3_reaches_final. Qed.
Print Assumptions c18_reaches_final.

(* the i-th Next returns item i-1 while items remain and no Close came before; false afterwards *)
Theorem c18_iter_results : forall n cmds0 s, reachable n cmds0 s -> final s -> results s = expected n cmds0.
Proof. exact IterProofs.T4_results. Qed.
Print Assumptions c18_iter_results.

(* after Close() or exhaustion the producer goroutine has exited and released the version it pinned *)
Theorem c18_producer_exits : forall n cmds0 s, reachable n cmds0 s -> final s -> Iter.closed s = true ->
  pph s = PDone /\ pinned s = false.
Proof. exact IterProofs.T5_producer_exits. Qed.
Print Assumptions c18_producer_exits.

Theorem c18_closed_leads_to_done : forall n cmds0 s, reachable n cmds0 s -> Iter.closed s = true ->
  forall s', steps n s s' -> (forall s'', ~ step n s' s'') -> pph s' = PDone /\ pinned s' = false /\ Iter.closed s' = true.
Proof. exact IterProofs.T5_closed_leads_to_done. Qed.
Print Assumptions c18_closed_leads_to_done.

(* exactly when a finished run leaves the producer parked with its pin: the client called Next between 1 and n
   times and never Close (an iterator must be abandoned by closing it) *)
Theorem c18_leak_characterisation : forall n cmds0 s, reachable n cmds0 s -> final s ->
  (pinned s = true <-> (forall c, In c cmds0 -> c = CNext) /\ (1 <= length cmds0 <= n)%nat).
Proof. exact IterProofs.leak_characterisation. Qed.
Print Assumptions c18_leak_characterisation.

(* re-entrancy: visitors (and comparators, block manglers) are never called, and no file I/O is done, while a
   gkvlite lock is held -- over the call graph regenerated from the source on every run -- so a visitor may call
   back into the store without self-deadlock *)
Theorem c18_no_callout_under_lock : forall f, In f g_funcs ->
  g_io_under f = false /\ g_user_under f = false /\
  forall c w h, In c (g_under f) -> reaches c w -> lookup_fn w = Some h ->
                g_reads h = false /\ g_writes h = false /\ g_user h = false.
Proof. exact CallGraph.no_callout_under_lock. Qed.
Print Assumptions c18_no_callout_under_lock.

(* the locks are always taken in one global order (over the regenerated call graph): B is acquired while A is held,
   directly or below a callee, only if A comes before B in lock_rank -- so the relation is acyclic *)
Theorem c18_lock_order_acyclic : forall a b, In (a, b) g_lock_order ->
  exists i j, index_of a lock_rank = Some i /\ index_of b lock_rank = Some j /\ (i < j)%nat.
Proof. exact CallGraph.lock_order_acyclic. Qed.
Print Assumptions c18_lock_order_acyclic.

(* ---------------------------------------------------------------------------------------------- *)
(* REGENERATED FROM THE SOURCE ON EVERY RUN (tools/gen -> Generated.g_code; DecBase.v, Dec*.v): the decisions the model
   takes at these points are the evaluations of the conditions the Go source has there, for all values of their
   variables. *)
From GK Require Import GExpr Generated DecBase DecIter.
From Coq Require Import String.

(* iterators: Next on a closed iterator answers false without touching the channels; Close is idempotent (Iter.v) *)
Theorem c18_iterator_closed_guards_is_source :
  match body "iterator.Next" with SIf [] (GVar "it.closed") [SReturn [GVar "false"]] [] :: _ => True | _ => False end /\
  match body "iterator.Close" with
  | [SIf [] (GVar "it.closed") [SReturn []] []; SExpr (GCall "close" [GVar "it.next"]); SAssign [GVar "it.closed"] "=" [GVar "true"]] => True
  | _ => False
  end.
Proof. exact DecIter.iterator_closed_guards. Qed.
Print Assumptions c18_iterator_closed_guards_is_source.

From GK Require Import DecLocks.
(* nothing deadlocks: only the release of a version's last reference runs hooks under a lock *)
Theorem c18_hooks_under_locks_are_source : hook_under_lock = ["Collection.rootDecRef"; "withAllocLocks"].
Proof. exact DecLocks.hooks_under_locks. Qed.
Print Assumptions c18_hooks_under_locks_are_source.

(* the producer and consumer of an iterator in the source, statement by statement: the transition system of Iter.v *)
Theorem c18_iterator_functions_are_source :
  body "Collection.iterate" =
    [SDefer (GCall "func() {  close(it.items)   for range it.next {  } }" []);
     SIf [SAssign [GVar "_"; GVar "ok"] ":=" [GUn "<-" (GVar "it.next")]] (GUn "!" (GVar "ok")) [SReturn []] [];
     SAssign [GVar "it.err"] "=" [GCall "v" [GVar "t"; GFun "<lit:Collection.iterate#1>"]]] /\
  body "<lit:Collection.iterate#1>" =
    [SOther "it.items <- i";
     SAssign [GVar "_"; GVar "ok"] ":=" [GUn "<-" (GVar "it.next")];
     SReturn [GVar "ok"]] /\
  body "iterator.Next" =
    [SIf [] (GVar "it.closed") [SReturn [GVar "false"]] [];
     SOther "it.next <- true";
     SAssign [GVar "i"; GVar "ok"] ":=" [GUn "<-" (GVar "it.items")];
     SIf [] (GBin "||" (GUn "!" (GVar "ok")) (GBin "!=" (GVar "it.err") GNil))
       [SExpr (GCall "close" [GVar "it.next"]); SAssign [GVar "it.closed"] "=" [GVar "true"]; SReturn [GVar "false"]] [];
     SAssign [GVar "it.result"] "=" [GVar "i"];
     SReturn [GVar "true"]] /\
  body "newIterator" =
    [SAssign [GVar "it"] ":=" [GOther "iterator{}"];
     SAssign [GVar "it.target"] "=" [GVar "target"];
     SAssign [GVar "it.withValue"] "=" [GVar "withValue"];
     SAssign [GVar "it.next"] "=" [GCall "make" [GOther "chan bool"]];
     SAssign [GVar "it.items"] "=" [GCall "make" [GOther "chan *Item"]];
     SReturn [GUn "&" (GVar "it")]] /\
  body "Collection.IterateAscend" =
    [SAssign [GVar "it"] ":=" [GCall "newIterator" [GVar "target"; GVar "withValue"]];
     SGo (GCall "t.iteratorVisitorAscend" [GVar "it"]);
     SReturn [GVar "it"]].
Proof. exact DecIter.iterator_functions. Qed.
Print Assumptions c18_iterator_functions_are_source.

(* a failed mutation between two Next() calls or inside a visitor clears its reclaim marks node by node: the lock is
   released before unmarkReclaimable descends (it is not re-entrant), so the walk cannot block on itself *)
From GK Require Import DecMarks.
Theorem c18_unmark_releases_lock_before_descending_is_source :
  body "Collection.unmarkReclaimable" =
    [SIf [] (GCall "nloc.isEmpty" []) [SReturn []] [];
     SAssign [GVar "n"] ":=" [GCall "nloc.Node" []];
     SIf [] (GBin "==" (GVar "n") GNil) [SReturn []] [];
     SExpr (GCall "t.rootLock.Lock" []);
     SIf [] (GBin "==" (GVar "n.next") (GVar "reclaimMark")) [SAssign [GVar "n.next"] "=" [GNil]] [];
     SExpr (GCall "t.rootLock.Unlock" []);
     SExpr (GCall "t.unmarkReclaimable" [GUn "&" (GVar "n.left"); GVar "reclaimMark"]);
     SExpr (GCall "t.unmarkReclaimable" [GUn "&" (GVar "n.right"); GVar "reclaimMark"])] /\
  body "Collection.markReclaimable" =
    [SExpr (GCall "t.rootLock.Lock" []);
     SDefer (GCall "t.rootLock.Unlock" []);
     SIf [] (GBin "||" (GBin "||" (GBin "==" (GVar "n") GNil) (GBin "!=" (GVar "n.next") GNil))
                       (GBin "==" (GVar "n") (GVar "reclaimMark")))
       [SReturn []] [];
     SAssign [GVar "n.next"] "=" [GVar "reclaimMark"]].
Proof. exact DecMarks.unmark_walks_the_whole_tree. Qed.
Print Assumptions c18_unmark_releases_lock_before_descending_is_source.
