(* C15 — item reference counting via callbacks is balanced and never premature.
   Refcount.v: one event per place where the Go code touches an item reference. *)
From stdpp Require Import gmap.
From GK Require Import Refcount.

(* the count of every item equals the number of live nodes caching it plus the references handed
   to the caller and not yet returned *)
Theorem c15_count_is_owners : forall s, reachable s -> forall i,
  (cnt s i = Z.of_nat (nown (owner s) i) + Z.of_nat (out s i))%Z.
Proof. exact Refcount.count_is_owners. Qed.
Print Assumptions c15_count_is_owners.

Theorem c15_never_negative : forall s, reachable s -> forall i, (0 <= cnt s i)%Z.
Proof. exact Refcount.never_negative. Qed.
Print Assumptions c15_never_negative.

Theorem c15_reachable_positive : forall s n i, reachable s -> owner s !! n = Some i -> (1 <= cnt s i)%Z.
Proof. exact Refcount.reachable_positive. Qed.
Print Assumptions c15_reachable_positive.

Theorem c15_handed_positive : forall s i, reachable s -> (out s i > 0)%nat -> (1 <= cnt s i)%Z.
Proof. exact Refcount.handed_positive. Qed.
Print Assumptions c15_handed_positive.

(* once every node is gone (store and snapshots closed) and the caller returned what it was handed, every count is 0 *)
Theorem c15_all_released : forall s, reachable s -> owner s = ∅ -> (forall i, out s i = 0%nat) ->
  forall i, cnt s i = 0%Z.
Proof. exact Refcount.all_released. Qed.
Print Assumptions c15_all_released.

(* the defect repaired in the code (eviction inside visits without ItemDecRef) breaks exactly this *)
Theorem c15_evict_without_release_refuted :
  ~ (forall s, reachable' s -> owner s = ∅ -> (forall i, out s i = 0%nat) -> forall i, cnt s i = 0%Z).
Proof. exact Refcount.all_released_refuted. Qed.
Print Assumptions c15_evict_without_release_refuted.

(* ---------------------------------------------------------------------------------------------- *)
(* REGENERATED FROM THE SOURCE ON EVERY RUN (tools/gen -> Generated.g_code; DecBase.v, Dec*.v) *)
From GK Require Import GExpr Generated DecBase DecRefs DecSnapshot.
From Coq Require Import String List.
Import ListNotations.

(* every place where the code takes or gives back an item reference (the events of Refcount.v) *)
Theorem c15_reference_sites_are_source :
  (* Exist gives back the reference GetItem took *)
  body "Collection.Exist" =
    [SAssign [GVar "val"; GVar "_"] ":=" [GCall "t.GetItem" [GVar "key"; GVar "false"]];
     SIf [] (GBin "!=" (GVar "val") GNil)
       [SExpr (GCall "t.store.ItemDecRef" [GVar "t"; GVar "val"]); SReturn [GVar "true"]] [];
     SReturn [GVar "false"]] /\
  (* Len and CopyTo give back the reference MinItem took, CopyTo once per collection (inside its loop) *)
  In (SDefer (GCall "t.store.ItemDecRef" [GVar "t"; GVar "si"])) (body "Collection.Len") /\
  In (SDefer (GCall "s.ItemDecRef" [GVar "srcColl"; GVar "minItem"]))
     (match nth_error (body "Store.CopyTo") 4 with Some (SRange _ _ _ b) => b | _ => [] end) /\
  (* GetItem takes exactly one reference for the caller, as its last call; SetItem one for the tree, before union *)
  count_occ string_dec (call_list "Collection.GetItem") "t.store.ItemAddRef" = 1%nat /\
  last (call_list "Collection.GetItem") "" = "t.store.ItemAddRef" /\
  count_occ string_dec (call_list "Collection.SetItem") "t.store.ItemAddRef" = 1%nat /\
  before "t.store.ItemAddRef" "t.store.union" (call_list "Collection.SetItem") = true /\
  (* a freed node releases its item; an item evicted during a visit is released *)
  In "t.store.ItemDecRef" (call_list "Collection.freeNodeUnlocked") /\
  existsb (has_sub "o.ItemDecRef(t, i)") (call_list "Store.visitNodes") = true.
Proof. exact DecRefs.reference_sites. Qed.
Print Assumptions c15_reference_sites_are_source.

Theorem c15_snapshot_function_is_source :
  body "Store.Snapshot" =
    [SAssign [GVar "coll"] ":=" [GCall "copyColl" [GUn "*" (GCall "s.getColl" [])]];
     SAssign [GVar "res"] ":="
       [GUn "&" (GOther "Store{  coll:  &coll,  file:  s.file,  size:  atomic.LoadInt64(&s.size),  readOnly: true,  callbacks: s.callbacks, }")];
     SRange (GVar "_") (GVar "name") (GCall "collNames" [GVar "coll"])
       [SAssign [GVar "collOrig"] ":=" [GCall "[]" [GVar "coll"; GVar "name"]];
        SAssign [GCall "[]" [GVar "coll"; GVar "name"]] "="
          [GUn "&" (GOther "Collection{  store:  res,  compare: collOrig.compare,  rootLock: collOrig.rootLock,  root:  collOrig.rootAddRef(), }")]];
     SReturn [GVar "res"]].
Proof. exact DecSnapshot.snapshot_function. Qed.
Print Assumptions c15_snapshot_function_is_source.

(* no use after release: visitNodes holds a reference of its own on the item from before the visitor is called until after
   the last use of the item's key (a visitor may run visits that drop the node's reference); repaired defect 367e600 *)
From GK Require Import DecRecycle.
Theorem c15_visit_holds_item_while_used_is_source :
  call_list "Store.visitNodes" =
    ["n.read"; "n.isEmpty";
     "func(evictNode *node) {  if i := evictNode.Evict(); i != nil {   o.ItemDecRef(t, i)  } }";
     "nItemLoc.read"; "panic"; "fmt.Sprintf"; "choiceFunc"; "t.compare";
     "o.visitNodes"; "n.read"; "nItemLoc.read"; "o.ItemAddRef"; "visitor";
     "o.ItemDecRef"; "n.read"; "choiceFunc"; "t.compare"; "o.ItemDecRef";
     "o.visitNodes"] /\
  count_occ string_dec (call_list "Store.visitNodes") "o.ItemAddRef" = 1%nat.
Proof. exact DecRecycle.visit_holds_item_while_used. Qed.
Print Assumptions c15_visit_holds_item_while_used_is_source.

(* the item a visit hands to its visitor (repaired defect 367e600): with the visit's own reference (hand-out ... give-back
   around the visitor) no sequence of other events -- evictions by nested visits, freed nodes, reloads, other callers --
   brings its count to zero; as found, one eviction of its node was enough *)
From GK Require Import RefcountVisit.
Theorem c15_visitor_item_stays_positive : forall s n i s1,
  reachable s -> owner s !! n = Some i -> step s (EvHandOut n) = Some s1 ->
  forall es s2, run s1 es = Some s2 -> Forall (not_giveback i) es -> (out s2 i > 0)%nat /\ (1 <= cnt s2 i)%Z.
Proof. exact RefcountVisit.held_item_stays_positive. Qed.
Print Assumptions c15_visitor_item_stays_positive.

Theorem c15_visitor_item_without_reference_refuted :
  exists s n i s', reachable s /\ owner s !! n = Some i /\ cnt s i = 1%Z /\ step s (EvEvict n) = Some s' /\ cnt s' i = 0%Z.
Proof. exact RefcountVisit.unheld_item_released_under_visitor. Qed.
Print Assumptions c15_visitor_item_without_reference_refuted.

(* the known finding copyto-destination-uncounted, formally: if a node may come to own an item without the counter moving
   (the destination store of CopyTo has no callbacks), "every item reachable from an open collection has a positive
   count" fails -- load, share, let the source's visit leave its node *)
Theorem c15_copyto_destination_uncounted_refuted :
  ~ (forall s n i, reachable'' s -> owner s !! n = Some i -> (1 <= cnt s i)%Z).
Proof. exact RefcountVisit.copyto_uncounted_refuted. Qed.
Print Assumptions c15_copyto_destination_uncounted_refuted.
