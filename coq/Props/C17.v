(* C17 — behaviourally neutral store callbacks do not change any result. *)
From GK Require Import Base Treap Codec CodecProofs Neutral.

(* an ItemValWrite callback that writes the value in chunks of any size k >= 1 leaves the file exactly as
   the single write of the default implementation *)
Theorem c17_chunked_write_neutral : forall k f off v, (1 <= k)%nat -> 0 <= off <= blen f ->
  write_chunks f off (chunks k (length v) v) = write_at f off v.
Proof. exact Neutral.chunked_write_neutral. Qed.
Print Assumptions c17_chunked_write_neutral.

(* an ItemValRead callback that reads in chunks obtains exactly the bytes of the single read *)
Theorem c17_chunked_read_neutral : forall lens f off b, Forall (fun n => 0 <= n) lens ->
  read_at f off (zsum lens) = Some b -> read_chunks f off lens = Some b.
Proof. exact Neutral.read_chunks_whole. Qed.
Print Assumptions c17_chunked_read_neutral.

(* written in chunks of k, read back in chunks of k': the value *)
Theorem c17_chunked_roundtrip : forall k k' f off v, (1 <= k)%nat -> (1 <= k')%nat -> 0 <= off <= blen f ->
  read_chunks (write_chunks f off (chunks k (length v) v)) off (map blen (chunks k' (length v) v)) = Some v.
Proof. exact Neutral.chunked_read_write_neutral. Qed.
Print Assumptions c17_chunked_roundtrip.

(* BeforeItemWrite returning the item unchanged: the same record is written *)
Theorem c17_before_write_identity : forall it, enc_item (before_write_id it) = enc_item it.
Proof. exact Neutral.before_write_id_neutral. Qed.
Print Assumptions c17_before_write_identity.

(* ItemValLength = len(Val) is the value length the record header stores *)
Theorem c17_val_length_field : forall it, sub (enc_item_hdr it) 8 4 = be 4 (item_val_length it).
Proof. exact Neutral.item_val_length_field. Qed.
Print Assumptions c17_val_length_field.
