(* C17 — behaviourally neutral store callbacks do not change any result. *)
From GK Require Import Base Treap Codec CodecProofs Neutral.

(* an ItemValWrite callback that writes the value in chunks of any size k >= 1 leaves the file exactly as
   the single write of the default implementation *)
Theorem c17_chunked_write_neutral : forall k f off v, (1 <= k)%nat -> 0 <= off <= blen f ->
  write_chunks f off (chunks k (length v) v) = write_at f off v.
Proof. exact Neutral.chunked_write_neutral. Qed.
Print Assumptions c17_chunked_write_neutral.

(* an ItemValRead callback that reads in chunks obtains exactly the bytes of the single read *)
Theorem c17_chunked_read_neutral : forall lens f off b, Forall (fun n => 0 <= n) lens ->
  read_at f off (zsum lens) = Some b -> read_chunks f off lens = Some b.
Proof. exact Neutral.read_chunks_whole. Qed.
Print Assumptions c17_chunked_read_neutral.

(* written in chunks of k, read back in chunks of k': the value *)
Theorem c17_chunked_roundtrip : forall k k' f off v, (1 <= k)%nat -> (1 <= k')%nat -> 0 <= off <= blen f ->
  read_chunks (write_chunks f off (chunks k (length v) v)) off (map blen (chunks k' (length v) v)) = Some v.
Proof. exact Neutral.chunked_read_write_neutral. Qed.
Print Assumptions c17_chunked_roundtrip.

(* BeforeItemWrite returning the item unchanged: the same record is written *)
Theorem c17_before_write_identity : forall it, enc_item (before_write_id it) = enc_item it.
Proof. exact Neutral.before_write_id_neutral. Qed.
Print Assumptions c17_before_write_identity.

(* ItemValLength = len(Val) is the value length the record header stores *)
Theorem c17_val_length_field : forall it, sub (enc_item_hdr it) 8 4 = be 4 (item_val_length it).
Proof. exact Neutral.item_val_length_field. Qed.
Print Assumptions c17_val_length_field.

(* ---------------------------------------------------------------------------------------------- *)
(* REGENERATED FROM THE SOURCE ON EVERY RUN (tools/gen -> Generated.g_code; DecBase.v, Dec*.v) *)
From GK Require Import GExpr Generated DecBase DecCallbacks.
From Coq Require Import String List.
Import ListNotations.

(* the callback wrappers: an installed callback is used verbatim with the wrapper's arguments; the defaults are one
   WriteAt of Item.Val, a fresh buffer filled by one ReadAt, len(Item.Val), a fresh Item; hooks only when installed *)
Theorem c17_callback_wrappers_are_source :
  body "Store.ItemValWrite" =
    [SIf [] (GBin "!=" (GVar "s.callbacks.ItemValWrite") GNil)
       [SReturn [GCall "s.callbacks.ItemValWrite" [GVar "c"; GVar "i"; GVar "w"; GVar "offset"]]] [];
     SAssign [GVar "_"; GVar "err"] ":=" [GCall "w.WriteAt" [GVar "i.Val"; GVar "offset"]];
     SReturn [GVar "err"]] /\
  body "Store.ItemValRead" =
    [SIf [] (GBin "!=" (GVar "s.callbacks.ItemValRead") GNil)
       [SReturn [GCall "s.callbacks.ItemValRead" [GVar "c"; GVar "i"; GVar "r"; GVar "offset"; GVar "valLength"]]] [];
     SAssign [GVar "i.Val"] "=" [GCall "make" [GOther "[]byte"; GVar "valLength"]];
     SAssign [GVar "_"; GVar "err"] ":=" [GCall "r.ReadAt" [GVar "i.Val"; GVar "offset"]];
     SReturn [GVar "err"]] /\
  body "Item.NumValBytes" =
    [SIf [] (GBin "!=" (GVar "c.store.callbacks.ItemValLength") GNil)
       [SReturn [GCall "c.store.callbacks.ItemValLength" [GVar "c"; GVar "i"]]] [];
     SReturn [GCall "len" [GVar "i.Val"]]] /\
  body "Store.ItemAlloc" =
    [SIf [] (GBin "!=" (GVar "s.callbacks.ItemAlloc") GNil)
       [SReturn [GCall "s.callbacks.ItemAlloc" [GVar "c"; GVar "keyLength"]]] [];
     SReturn [GUn "&" (GOther "Item{Key: make([]byte, keyLength)}")]] /\
  body "Store.ItemAddRef" =
    [SIf [] (GBin "!=" (GVar "s.callbacks.ItemAddRef") GNil) [SExpr (GCall "s.callbacks.ItemAddRef" [GVar "c"; GVar "i"])] []] /\
  body "Store.ItemDecRef" =
    [SIf [] (GBin "!=" (GVar "s.callbacks.ItemDecRef") GNil) [SExpr (GCall "s.callbacks.ItemDecRef" [GVar "c"; GVar "i"])] []].
Proof. exact DecCallbacks.callback_wrappers. Qed.
Print Assumptions c17_callback_wrappers_are_source.

Theorem c17_item_hooks_guarded_are_source :
  In (GBin "!=" (GVar "c.store.callbacks.BeforeItemWrite") GNil) (conds 400 (body "itemLoc.write")) /\
  In (GBin "!=" (GVar "c.store.callbacks.AfterItemRead") GNil) (conds 400 (body "itemLoc.read")) /\
  In ("c.store.callbacks.BeforeItemWrite", [GVar "c"; GVar "iItem"]) (calls_a 400 (body "itemLoc.write")) /\
  In ("c.store.callbacks.AfterItemRead", [GVar "c"; GVar "i"]) (calls_a 400 (body "itemLoc.read")).
Proof. exact DecCallbacks.item_hooks_guarded. Qed.
Print Assumptions c17_item_hooks_guarded_are_source.

(* custom item allocation may recycle an item's buffers at count zero: the out-of-order guard of ascending visits compares
   with a COPY of the previously delivered key, not with the released item (repaired defect 2651ef4) *)
From GK Require Import DecRecycle.
Theorem c17_visit_guard_keeps_a_copy_is_source :
  body "<lit:Collection.VisitItemsAscendEx#1>" =
    [SIf [] (GBin "&&" (GVar "havePrevVisitKey")
                (GBin ">" (GCall "t.compare" [GVar "prevVisitKey"; GVar "i.Key"]) (GInt 0)))
       [SAssign [GVar "errCheckedVisitor"] "="
          [GCall "fmt.Errorf"
             [GBin "+" (GLit """corrupted / out-of-order index""")
                (GLit """, key: %s vs %s, coll: %p, collName: %s, store: %p, storeFile: %v""");
              GCall "string" [GVar "prevVisitKey"]; GCall "string" [GVar "i.Key"]; GVar "t";
              GVar "t.name"; GVar "t.store"; GVar "t.store.file"]];
        SReturn [GVar "false"]] [];
     SAssign [GVar "prevVisitKey"] "="
       [GCall "append" [GCall "[:]" [GVar "prevVisitKey"; GNil; GInt 0]; GVar "i.Key"]];
     SAssign [GVar "havePrevVisitKey"] "=" [GVar "true"];
     SReturn [GCall "visitor" [GVar "i"; GVar "depth"]]].
Proof. exact DecRecycle.visit_guard_keeps_a_copy. Qed.
Print Assumptions c17_visit_guard_keeps_a_copy_is_source.
