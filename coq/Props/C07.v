(* C07 — file errors are reported, never swallowed, and failed calls change nothing.
   Proved part 1: the recycling protocol is unharmed by a failed mutation (Proto.s_mabort).
   Proved part 2 (below): Store.Flush on bytes when any ONE WriteAt call k fails after any torn length
   (DiskFault.flush_fault, compared byte for byte with the implementation under fault injection): the
   Flush fails, nothing durable is damaged, the visible contents are unchanged, the store is still
   represented by the file, and a retried Flush -- also after several failed attempts -- produces
   exactly the file of a Flush that never failed.
   The error-return / no-change part for the other calls is decided by fault enumeration on the
   implementation. *)
From stdpp Require Import gmap.
From GK Require Import Proto ProtoProofs.

(* after a failed SetItem/Delete (abort) no cell of the still-current tree carries the version's mark *)
Theorem c07_marks_restored : forall s s' l m x, reachable s -> muts s !! l = Some m -> vers s !! m_ver m = Some x ->
  decref (set_mut (set_marks s (setm (filter (fun n => marks s !! n = Some (M (m_ver m))) (v_tree x)) U (marks s))) l None)
         (m_ver m) s' ->
  forall x', vers s' !! m_ver m = Some x' -> forall n, n ∈ v_tree x' -> marks s' !! n <> Some (M (m_ver m)).
Proof. exact ProtoProofs.marks_restored. Qed.
Print Assumptions c07_marks_restored.

(* abort is an ordinary step of the protocol, so every safety theorem holds in the continuation ("as if never") *)
Theorem c07_safe_after_abort : forall s, reachable s -> forall v x n,
  vers s !! v = Some x -> n ∈ v_tree x -> exists k, marks s !! n = Some k /\ k <> F.
Proof. exact ProtoProofs.proto_safe. Qed.
Print Assumptions c07_safe_after_abort.

(* the quiescent current tree is entirely unmarked: the invariant monitored on the implementation after every failed call *)
Theorem c07_current_tree_unmarked : forall s, reachable s -> forall h hd v x,
  handles s !! h = Some hd -> h_ro hd = false -> h_root hd = Some v -> muts s !! h_lin hd = None ->
  vers s !! v = Some x -> forall n, n ∈ v_tree x -> marks s !! n = Some U.
Proof. exact ProtoProofs.current_tree_unmarked. Qed.
Print Assumptions c07_current_tree_unmarked.

(* ---------------------------------------------------------------------------------------------- *)
(* Store.Flush with a failing WriteAt call, on bytes *)
From GK Require Import Base Treap Store StoreSpec StoreRefine Codec Disk DiskProofs DStore DStoreRefine DiskFault DiskFaultProofs DFaultRun DFaultHist.
From Coq Require Import ZArith List.
Import ListNotations.
Local Open Scope Z_scope.

(* every call position inside the Flush makes it return an error ... *)
Theorem c07_flush_fault_fails : forall k torn f size cs f1 s1 cs1 b,
  (k < flush_calls cs)%nat -> flush_fault k torn f size cs = (f1, s1, cs1, b) -> b = true.
Proof. exact DiskFaultProofs.flush_fault_fails. Qed.
Print Assumptions c07_flush_fault_fails.

(* ... and a plan beyond its last call is the fault-free Flush (the model of the failing Flush extends Disk.flush_bytes) *)
Theorem c07_flush_fault_none : forall k torn f size cs,
  0 <= size -> (flush_calls cs <= k)%nat -> flush_fault k torn f size cs = (flush_bytes f size cs, false).
Proof. exact DiskFaultProofs.flush_fault_none. Qed.
Print Assumptions c07_flush_fault_none.

(* no failed Flush damages the durable states already in the file: nothing below the old size changes, size never
   moves backwards and stays inside the file *)
Theorem c07_failed_flush_durable : forall k torn f size cs f1 s1 cs1 b,
  0 <= size <= blen f -> flush_fault k torn f size cs = (f1, s1, cs1, b) ->
  agree f f1 size /\ size <= s1 <= blen f1.
Proof. exact DiskFaultProofs.flush_fault_durable. Qed.
Print Assumptions c07_failed_flush_durable.

(* the visible contents are exactly as before: same names, comparators and trees up to the recorded locations *)
Theorem c07_failed_flush_contents : forall k torn f size cs f1 s1 cs1 b,
  flush_fault k torn f size cs = (f1, s1, cs1, b) ->
  map fst cs1 = map fst cs /\
  map (fun nc => c_cmp (snd nc)) cs1 = map (fun nc => c_cmp (snd nc)) cs /\
  map (fun nc => erase (c_tree (snd nc))) cs1 = map (fun nc => erase (c_tree (snd nc))) cs.
Proof. exact DiskFaultProofs.flush_fault_contents. Qed.
Print Assumptions c07_failed_flush_contents.

(* a retried Flush behaves as if the failed call had never been made: same file, same size, same collections,
   for EVERY call number k and EVERY torn length *)
Theorem c07_flush_retry_same : forall k torn f size cs f1 s1 cs1,
  0 <= size <= blen f -> flush_fault k torn f size cs = (f1, s1, cs1, true) ->
  flush_bytes f1 s1 cs1 = flush_bytes f size cs.
Proof. exact DiskFaultProofs.flush_retry_same. Qed.
Print Assumptions c07_flush_retry_same.

(* also after two failed attempts in a row (and so, by iterating, after any number) *)
Theorem c07_flush_retry_twice : forall k1 t1 k2 t2 f size cs fa sa csa fb sb csb,
  0 <= size <= blen f ->
  flush_fault k1 t1 f size cs = (fa, sa, csa, true) ->
  flush_fault k2 t2 fa sa csa = (fb, sb, csb, true) ->
  flush_bytes fb sb csb = flush_bytes f size cs.
Proof. exact DiskFaultProofs.flush_retry_twice. Qed.
Print Assumptions c07_flush_retry_twice.

(* what a re-open sees after the failed Flush is the previous Flush (side condition of C03: the torn bytes
   do not themselves contain a complete root record) *)
Theorem c07_failed_flush_reopen : forall k torn f size cs f1 s1 cs1 b e0 m0 ts,
  0 <= size <= blen f -> e0 <= size ->
  flush_fault k torn f size cs = (f1, s1, cs1, b) ->
  scan f (blen f) = ScanFound e0 m0 ->
  (forall e', e0 < e' <= blen f1 -> root_at f1 e' = None) ->
  load_all f m0 e0 = Some ts ->
  Forall (fun nt => rep f (snd nt) /\ below (snd nt) e0 /\ (Treap.size (snd nt) <= S (length f1))%nat) ts ->
  decode_store f1 = OpOk e0 ts.
Proof. exact DiskFaultProofs.flush_fault_reopen. Qed.
Print Assumptions c07_failed_flush_reopen.

(* the in-memory store is still represented by the file: every record it points to (and may lazily load or
   re-load after an eviction) holds the right bytes *)
Theorem c07_failed_flush_represented : forall k torn f size cs f1 s1 cs1 b,
  0 <= size <= blen f -> Forall (coll_ok f size) cs ->
  flush_fault k torn f size cs = (f1, s1, cs1, b) -> s1 < two63 ->
  Forall (coll_ok f1 s1) cs1.
Proof. exact DiskFaultProofs.flush_fault_coll_ok. Qed.
Print Assumptions c07_failed_flush_represented.

(* non-vacuity: on a three-item collection every call position and four torn lengths fail and retry to the same file *)
Theorem c07_fault_example :
  let it k p := mkItem [k] [k; k; k] p in
  let t0 := insert cmp_bytes (insert cmp_bytes (insert cmp_bytes E (it 97%N 5)) (it 98%N 9)) (it 99%N 2) in
  let cs0 : colls := [([120%N], mkColl O t0)] in
  forallb (fun k => forallb (fun torn =>
     let '(f1, s1, cs1, failed) := flush_fault k torn [] 0 cs0 in
     let '(f2, s2, _) := flush_bytes f1 s1 cs1 in
     let '(f3, s3, _) := flush_bytes [] 0 cs0 in
     failed && beq f2 f3 && (s2 =? s3)) [0; 1; 7; 30]%nat) (seq 0 (flush_calls cs0)) = true.
Proof. exact DiskFaultProofs.ex_fault_retry. Qed.
Print Assumptions c07_fault_example.

(* ---------------------------------------------------------------------------------------------- *)
(* OVER WHOLE HISTORIES (DFaultRun.dfrun: DStore histories in which Flush calls may fail).  Under the retry
   discipline (a failed Flush is followed by further failed attempts and then by the Flush again) ... *)

(* ... any number of failed attempts followed by the Flush leave the byte-level store in exactly the state of a
   Flush that never failed *)
Theorem c07_failed_attempts_then_flush : forall attempts s,
  dsz s ->
  Forall (fun o => exists k torn, o = FFlushFail k torn) attempts ->
  faults_fire s attempts ->
  let s1 := fold_left (fun st o => fst (dfstep st o)) attempts s in
  dstep s1 OFlush = dstep s OFlush.
Proof. exact DFaultHist.failed_attempts_then_flush. Qed.
Print Assumptions c07_failed_attempts_then_flush.

(* ... so every completed call of the history answers exactly as in the history without the failed attempts, and
   leaves the same file: all later operations behave as if the failed calls had never been made *)
Theorem c07_retry_invisible : forall ops s,
  dsz s -> retried ops -> faults_fire s ops ->
  completed ops (dfrun s ops) = combine (drun s (strip ops)) (dfiles s (strip ops)).
Proof. exact DFaultHist.dfrun_retry_invisible. Qed.
Print Assumptions c07_retry_invisible.

(* ... and (with C02's history theorem) that is the abstract store with its stack of flushed states *)
Theorem c07_retry_refines_store : forall ops,
  retried ops -> faults_fire dinit ops ->
  ops_ok [] (strip ops) -> history_ok (strip ops) ->
  map fst (completed ops (dfrun dinit ops)) = run (init true) (strip ops).
Proof. exact DFaultHist.dfrun_refines_store. Qed.
Print Assumptions c07_retry_refines_store.

(* every failed attempt returns an error *)
Theorem c07_failed_attempts_err : forall ops s i k torn,
  faults_fire s ops -> nth_error ops i = Some (FFlushFail k torn) ->
  exists f, nth_error (dfrun s ops) i = Some (RErr, f).
Proof. exact DFaultHist.failed_attempts_err. Qed.
Print Assumptions c07_failed_attempts_err.

(* the hypotheses are satisfiable: a history with three failed attempts *)
Theorem c07_retry_nonvacuous : exists ops, retried ops /\ faults_fire dinit ops /\
  (2 <= length (filter (fun o => match o with FFlushFail _ _ => true | _ => false end) ops))%nat /\
  ops_ok [] (strip ops) /\ history_ok (strip ops).
Proof. exact DFaultHist.ex_retried. Qed.
Print Assumptions c07_retry_nonvacuous.

(* ---------------------------------------------------------------------------------------------- *)
(* REGENERATED FROM THE SOURCE ON EVERY RUN (tools/gen -> Generated.g_code; DecBase.v, Dec*.v): the decisions the model
   takes at these points are the evaluations of the conditions the Go source has there, for all values of their
   variables. *)
From GK Require Import GExpr Generated DecBase DecWrite DecPublish.
From Coq Require Import String.

(* Flush writes only what is not yet persisted (Disk.write_items / write_nodes skip persisted nodes and items) *)
Theorem c07_write_skips_persisted_is_source :
  exists c1 c2, decisions "Collection.writeItems" "nloc" = [c1] /\ decisions "Collection.writeNodes" "nloc" = [c2] /\
    forall isnil persisted : bool,
      let rho := upd (upd env0 "nloc" (b2z (negb isnil))) "nloc.Loc().isEmpty()" (b2z (negb persisted)) in
      gtrue rho c1 = Some (isnil || persisted) /\ gtrue rho c2 = Some (isnil || persisted).
Proof. exact DecWrite.write_skips_persisted. Qed.
Print Assumptions c07_write_skips_persisted_is_source.

Theorem c07_item_written_once_is_source :
  exists c, hd_error (conds 400 (body "itemLoc.write")) = Some c /\
    forall empty : bool, gtrue (upd env0 "iloc.Loc().isEmpty()" (b2z empty)) c = Some empty.
Proof. exact DecWrite.item_written_once. Qed.
Print Assumptions c07_item_written_once_is_source.

Theorem c07_node_written_once_is_source :
  exists c, hd_error (conds 400 (body "nodeLoc.write")) = Some c /\
    forall notnil empty : bool, gtrue (upd (upd env0 "nloc" (b2z notnil)) "loc.isEmpty()" (b2z empty)) c = Some (notnil && empty).
Proof. exact DecWrite.node_written_once. Qed.
Print Assumptions c07_node_written_once_is_source.

(* ---------------------------------------------------------------------------------------------- *)
(* FAILED FLUSH CALLS ANYWHERE IN A HISTORY (DFaultRefine.v: the refinement relation of C02 generalised to a dirty tail
   beyond the last root record and junk beyond the store size).  fhistory_ok is a boolean evaluated along the faulted
   byte-level run: the side conditions of C02, every planned fault fires, no look-alike root record in the torn bytes,
   no FlushRevert while the store is dirty (known finding revert-after-failed-flush, reproduced by the model:
   c07_dirty_revert_refuted), and no re-open of a file that holds bytes but no completed Flush (the documented
   "no roots" error: c07_first_flush_reopen_refuted). *)
From GK Require Import DFaultRefineAux DFaultRefine.

Theorem c07_failed_flush_invisible_anywhere :
  forall fops,
  ops_ok [] (strip fops) -> fhistory_ok fops ->
  map fst (completed fops (dfrun dinit fops)) = run (init true) (strip fops).
Proof. exact DFaultRefine.dfrun_refines_store_general. Qed.
Print Assumptions c07_failed_flush_invisible_anywhere.

Theorem c07_failed_attempts_err_anywhere :
  forall fops i k torn,
  fhistory_ok fops -> nth_error fops i = Some (FFlushFail k torn) ->
  exists f, nth_error (dfrun dinit fops) i = Some (RErr, f).
Proof. exact DFaultRefine.failed_attempts_err_general. Qed.
Print Assumptions c07_failed_attempts_err_anywhere.

Theorem c07_anywhere_nonvacuous :
  exists fops, fhistory_ok fops /\ ops_ok [] (strip fops) /\
    (exists k t, In (FFlushFail k t) fops) /\ ~ DFaultHist.retried fops.
Proof. exact DFaultRefine.ex_general. Qed.
Print Assumptions c07_anywhere_nonvacuous.

Theorem c07_dirty_revert_refuted :
  ops_ok [] (strip cex_revert) /\
  map fst (completed cex_revert (dfrun dinit cex_revert)) =
    [ROk; ROk; ROk; ROk; ROk; ROk; ROk; RVal (Some [118; 50]%N)] /\
  run (init true) (strip cex_revert) = [ROk; ROk; ROk; ROk; ROk; ROk; ROk; RVal None] /\
  fhist_okb dinit 0 (firstn 7 cex_revert) = true /\ fhist_okb dinit 0 cex_revert = false.
Proof. exact DFaultRefine.dirty_revert_excluded. Qed.
Print Assumptions c07_dirty_revert_refuted.

Theorem c07_first_flush_reopen_refuted :
  ops_ok [] (strip cex_reopen) /\
  map fst (completed cex_reopen (dfrun dinit cex_reopen)) = [ROk; ROk; RErr] /\
  run (init true) (strip cex_reopen) = [ROk; ROk; ROk] /\
  fhist_okb dinit 0 (firstn 3 cex_reopen) = true /\ fhist_okb dinit 0 cex_reopen = false.
Proof. exact DFaultRefine.failed_first_flush_reopen. Qed.
Print Assumptions c07_first_flush_reopen_refuted.

(* ---------------------------------------------------------------------------------------------- *)
(* A FAILING ReadAt (LazyFault.v): a key-only lookup on a store just opened whose k-th ReadAt fails, and the retried
   call; compared call by call with the implementation under fault injection *)
From GK Require Import Lazy LazyProofs LazyMut LazyMutProofs LazyFault LazyFaultProofs.

Theorem c07_read_fault_prefix :
  forall ts k s,
  (k < List.length (reads_of s ts))%nat ->
  fst (fst (run_fault k s ts)) = firstn (S k) (reads_of s ts) /\ snd (run_fault k s ts) = true.
Proof. exact LazyFaultProofs.run_fault_prefix. Qed.
Print Assumptions c07_read_fault_prefix.

Theorem c07_read_fault_none :
  forall ts k s,
  (List.length (reads_of s ts) <= k)%nat ->
  fst (fst (run_fault k s ts)) = reads_of s ts /\ snd (run_fault k s ts) = false.
Proof. exact LazyFaultProofs.run_fault_none. Qed.
Print Assumptions c07_read_fault_none.

Theorem c07_retry_reads_the_rest :
  forall ts k s,
  (k < List.length (reads_of s ts))%nat ->
  let s' := snd (fst (run_fault k s ts)) in
  exists m : nat, (m <= k)%nat /\ (k - m <= 1)%nat /\
    reads_of s ts = firstn m (reads_of s ts) ++ reads_of s' ts.
Proof. exact LazyFaultProofs.retry_reads_the_rest. Qed.
Print Assumptions c07_retry_reads_the_rest.

Theorem c07_read_fault_key_only :
  forall cmp t key k,
  let '(attempt, retry, _) := get_fault_reads cmp t key k in
  Forall (fun r => in_node t r \/ in_keypart t r) attempt /\
  Forall (fun r => in_node t r \/ in_keypart t r) retry.
Proof. exact LazyFaultProofs.get_fault_key_only. Qed.
Print Assumptions c07_read_fault_key_only.

Theorem c07_read_fault_from_file :
  forall cmp f t b key k,
  rep f t -> persisted t -> below t b -> (Treap.size t <= S (List.length f))%nat ->
  get_fault_file cmp f (root_loc t) b key k = Some (get_fault_reads cmp t key k).
Proof. exact LazyFaultProofs.get_fault_file_spec. Qed.
Print Assumptions c07_read_fault_from_file.

(* ---------------------------------------------------------------------------------------------- *)
(* ORDER OF EFFECTS in the source (regenerated on every run): Store.size and the recorded location move only after
   every WriteAt of a record; mutations publish only through rootCAS after the whole rebuild and restore the marks when
   it failed *)

Theorem c07_item_write_order_is_source :
  let l := call_list "itemLoc.write" in
  before "c.store.callbacks.BeforeItemWrite" "atomic.LoadInt64" l = true /\
  before "atomic.LoadInt64" "c.store.file.WriteAt" l = true /\
  before "c.store.file.WriteAt" "c.store.ItemValWrite" l = true /\
  before "c.store.ItemValWrite" "atomic.StoreInt64" l = true /\
  before "atomic.StoreInt64" "iloc.setLoc" l = true /\
  before "iItem.NumValBytes" "c.store.file.WriteAt" l = true /\
  before "c.store.callbacks.BeforeItemWrite" "iItem.NumValBytes" l = true.
Proof. exact DecWrite.item_write_order. Qed.
Print Assumptions c07_item_write_order_is_source.

Theorem c07_node_write_order_is_source :
  let l := call_list "nodeLoc.write" in
  before "o.getSize" "o.file.WriteAt" l = true /\
  before "o.file.WriteAt" "o.setSize" l = true /\
  before "o.setSize" "nloc.setLoc" l = true.
Proof. exact DecWrite.node_write_order. Qed.
Print Assumptions c07_node_write_order_is_source.

Theorem c07_mutation_publish_order_is_source :
  before "t.rootAddRef" "t.store.union" (call_list "Collection.SetItem") = true /\
  before "t.store.union" "t.unmarkReclaimable" (call_list "Collection.SetItem") = true /\
  before "t.store.union" "t.rootCAS" (call_list "Collection.SetItem") = true /\
  before "t.rootAddRef" "t.store.split" (call_list "Collection.Delete") = true /\
  before "t.store.split" "t.store.join" (call_list "Collection.Delete") = true /\
  before "t.store.join" "t.rootCAS" (call_list "Collection.Delete") = true /\
  count_occ string_dec (call_list "Collection.Delete") "t.unmarkReclaimable" = 2%nat /\
  count_occ string_dec (call_list "Collection.SetItem") "t.rootCAS" = 1%nat /\
  count_occ string_dec (call_list "Collection.Delete") "t.rootCAS" = 1%nat.
Proof. exact DecPublish.mutation_publish_order. Qed.
Print Assumptions c07_mutation_publish_order_is_source.

From GK Require Import DecSites.
(* WHERE Store.size moves: the three record writers, the root scan, FlushRevert's step; never Flush itself *)
Theorem c07_size_update_sites_are_source :
  sites "atomic.StoreInt64" = ["Store.readRoots"; "Store.scanBackwardsForMagicEnd"; "Store.setSize"; "Store.writeRoots"; "itemLoc.write"] /\
  sites "atomic.AddInt64" = ["Store.FlushRevert"; "Store.readRootsScan"; "Store.scanBackwardsForMagicEnd"] /\
  sites "setSize" = ["nodeLoc.write"].
Proof. exact DecSites.size_update_sites. Qed.
Print Assumptions c07_size_update_sites_are_source.

(* the reclaim marks a failed mutation left are cleared wherever they are: unmarkReclaimable walks the whole loaded tree
   (no early stop at an unmarked node), one lock section per node, released before it descends *)
From GK Require Import DecMarks.
Theorem c07_unmark_walks_the_whole_tree_is_source :
  body "Collection.unmarkReclaimable" =
    [SIf [] (GCall "nloc.isEmpty" []) [SReturn []] [];
     SAssign [GVar "n"] ":=" [GCall "nloc.Node" []];
     SIf [] (GBin "==" (GVar "n") GNil) [SReturn []] [];
     SExpr (GCall "t.rootLock.Lock" []);
     SIf [] (GBin "==" (GVar "n.next") (GVar "reclaimMark")) [SAssign [GVar "n.next"] "=" [GNil]] [];
     SExpr (GCall "t.rootLock.Unlock" []);
     SExpr (GCall "t.unmarkReclaimable" [GUn "&" (GVar "n.left"); GVar "reclaimMark"]);
     SExpr (GCall "t.unmarkReclaimable" [GUn "&" (GVar "n.right"); GVar "reclaimMark"])] /\
  body "Collection.markReclaimable" =
    [SExpr (GCall "t.rootLock.Lock" []);
     SDefer (GCall "t.rootLock.Unlock" []);
     SIf [] (GBin "||" (GBin "||" (GBin "==" (GVar "n") GNil) (GBin "!=" (GVar "n.next") GNil))
                       (GBin "==" (GVar "n") (GVar "reclaimMark")))
       [SReturn []] [];
     SAssign [GVar "n.next"] "=" [GVar "reclaimMark"]].
Proof. exact DecMarks.unmark_walks_the_whole_tree. Qed.
Print Assumptions c07_unmark_walks_the_whole_tree_is_source.
