(* C07 — file errors are reported, never swallowed, and failed calls change nothing.
   Proved part: the recycling protocol is unharmed by a failed mutation (Proto.s_mabort);
   the error-return / no-change part is decided by fault enumeration on the implementation. *)
From stdpp Require Import gmap.
From GK Require Import Proto ProtoProofs.

(* after a failed SetItem/Delete (abort) no cell of the still-current tree carries the version's mark *)
Theorem c07_marks_restored : forall s s' l m x, reachable s -> muts s !! l = Some m -> vers s !! m_ver m = Some x ->
  decref (set_mut (set_marks s (setm (filter (fun n => marks s !! n = Some (M (m_ver m))) (v_tree x)) U (marks s))) l None)
         (m_ver m) s' ->
  forall x', vers s' !! m_ver m = Some x' -> forall n, n ∈ v_tree x' -> marks s' !! n <> Some (M (m_ver m)).
Proof. exact ProtoProofs.marks_restored. Qed.
Print Assumptions c07_marks_restored.

(* abort is an ordinary step of the protocol, so every safety theorem holds in the continuation ("as if never") *)
Theorem c07_safe_after_abort : forall s, reachable s -> forall v x n,
  vers s !! v = Some x -> n ∈ v_tree x -> exists k, marks s !! n = Some k /\ k <> F.
Proof. exact ProtoProofs.proto_safe. Qed.
Print Assumptions c07_safe_after_abort.

(* the quiescent current tree is entirely unmarked: the invariant monitored on the implementation after every failed call *)
Theorem c07_current_tree_unmarked : forall s, reachable s -> forall h hd v x,
  handles s !! h = Some hd -> h_ro hd = false -> h_root hd = Some v -> muts s !! h_lin hd = None ->
  vers s !! v = Some x -> forall n, n ∈ v_tree x -> marks s !! n = Some U.
Proof. exact ProtoProofs.current_tree_unmarked. Qed.
Print Assumptions c07_current_tree_unmarked.
