(* C13 — tree invariants: search order, exact aggregates, heap order, canonical shape. *)
From GK Require Import Base Order Treap TreapSpec Store StoreSpec StoreRefine Corollaries Codec CodecProofs Disk DiskProofs HeapHistory.

(* at all times: every collection of every reachable state (any history whatsoever in which
   names keep their comparator) is a search tree under its comparator in which every node
   records the exact item count and byte total of its subtree; flushed states likewise (wf) *)
Theorem c13_bst_aggs_always : forall file ops n c, ops_ok [] ops ->
  cget (s_cur (exec (init file) ops)) n = Some c ->
  bst (cmp_of (c_cmp c)) (c_tree c) /\ aggs (c_tree c).
Proof. exact Corollaries.reachable_tree_invariants. Qed.
Print Assumptions c13_bst_aggs_always.

Theorem c13_reachable_wf : forall file ops, ops_ok [] ops -> wf (exec (init file) ops).
Proof. exact Corollaries.reachable_wf. Qed.
Print Assumptions c13_reachable_wf.

(* as long as no key is overwritten with a lower priority than it had, no child outranks its parent *)
Theorem c13_set_keeps_heap : forall cmp, cmp_laws cmp -> forall t key v prio t',
  bst cmp t -> heap t ->
  (forall old, find cmp key (elems t) = Some old -> iprio old <= prio) ->
  set_item cmp t key (Some v) prio = Some t' -> heap t'.
Proof. exact Corollaries.set_item_heap. Qed.
Print Assumptions c13_set_keeps_heap.

Theorem c13_delete_keeps_heap : forall cmp, cmp_laws cmp -> forall t k t' b,
  bst cmp t -> heap t -> delete cmp t k = (t', b) -> heap t'.
Proof. exact Corollaries.delete_heap. Qed.
Print Assumptions c13_delete_keeps_heap.

(* the side condition is needed: overwriting with a lower priority can break heap order *)
Theorem c13_heap_refuted_lower_overwrite :
  exists t it, bst cmp_bytes t /\ heap t /\ ~ heap (insert cmp_bytes t it).
Proof. exact TreapSpec.heap_refuted_lower_overwrite. Qed.
Print Assumptions c13_heap_refuted_lower_overwrite.

(* with pairwise distinct priorities the shape, and therefore every depth, is determined by the
   current keys and priorities alone (hence independent of operation order, eviction, flushing, re-opening) *)
Theorem c13_canonical_shape : forall cmp a b, bst cmp a -> bst cmp b -> heap a -> heap b ->
  elems a = elems b -> NoDup (map iprio (elems a)) -> shape_of a = shape_of b.
Proof. exact TreapSpec.treap_unique. Qed.
Print Assumptions c13_canonical_shape.

Theorem c13_canonical_depth : forall cmp a b, bst cmp a -> bst cmp b -> heap a -> heap b ->
  elems a = elems b -> NoDup (map iprio (elems a)) -> forall d, depths a d = depths b d.
Proof. exact Corollaries.depth_canonical. Qed.
Print Assumptions c13_canonical_depth.

(* ... and as persisted on file: the flushed file passes conforms_v4, which checks on the RECORDS reachable
   from the last root exact numNodes/numBytes at every node and search order under each collection's comparator *)
Theorem c13_persisted_invariants : forall cmpid f size cs f' size' cs',
  Forall (coll_ok f size) cs -> 0 <= size <= blen f -> flush_bytes f size cs = (f', size', cs') ->
  size' < two63 -> roots_len + blen (enc_json (root_map cs')) < two32 -> blen f' = size' ->
  Forall (fun nc => NoDup (node_offs (c_tree (snd nc)))) cs ->
  names_b (tmap cs) = true -> Forall (coll_conf cmpid) cs -> conforms_v4 cmpid f' = true.
Proof. exact DiskProofs.flush_conforms_nodup. Qed.
Print Assumptions c13_persisted_invariants.

(* over whole histories: as long as the history never overwrites a key with a lower priority than it had
   (no_lower_overwrite, evaluated against the evolving state), every tree of every reachable state -- current and
   flushed -- has no child outranking its parent *)
Theorem c13_heap_history : forall file ops, ops_ok [] ops -> no_lower_overwrite (init file) ops ->
  heap_store (exec (init file) ops).
Proof. exact HeapHistory.c13_heap_history. Qed.
Print Assumptions c13_heap_history.

(* and with distinct priorities the shape and every depth are independent of the history that led there *)
Theorem c13_history_canonical : forall f1 f2 ops1 ops2 n c1 c2,
  ops_ok [] ops1 -> ops_ok [] ops2 ->
  no_lower_overwrite (init f1) ops1 -> no_lower_overwrite (init f2) ops2 ->
  cget (s_cur (exec (init f1) ops1)) n = Some c1 -> cget (s_cur (exec (init f2) ops2)) n = Some c2 ->
  c_cmp c1 = c_cmp c2 -> elems (c_tree c1) = elems (c_tree c2) -> NoDup (map iprio (elems (c_tree c1))) ->
  shape_of (c_tree c1) = shape_of (c_tree c2) /\ forall d, depths (c_tree c1) d = depths (c_tree c2) d.
Proof. exact HeapHistory.c13_history_canonical. Qed.
Print Assumptions c13_history_canonical.

(* ---------------------------------------------------------------------------------------------- *)
(* REGENERATED FROM THE SOURCE ON EVERY RUN (tools/gen -> Generated.g_code; DecBase.v, Dec*.v): the decisions the model
   takes at these points are the evaluations of the conditions the Go source has there, for all values of their
   variables. *)
From GK Require Import GExpr Generated DecBase DecTreap.
From Coq Require Import String.

(* treap.go union / join: the root is `this` iff its priority is strictly greater (ties go to `that`) *)
Theorem c13_union_priority_is_source :
  exists c, decisions "Store.union" "thisItem.Priority" = [c] /\
            forall x y, gtrue (prio_env x y) c = Some (Z.gtb x y).
Proof. exact DecTreap.union_priority_decision. Qed.
Print Assumptions c13_union_priority_is_source.
Theorem c13_join_priority_is_source :
  exists c, decisions "Store.join" "thisItem.Priority" = [c] /\
            forall x y, gtrue (prio_env x y) c = Some (Z.gtb x y).
Proof. exact DecTreap.join_priority_decision. Qed.
Print Assumptions c13_join_priority_is_source.

(* every node union / split / join build carries numNodes = left + right + 1 and numBytes = left + right + the bytes of
   the item it is built with, the children's aggregates read from exactly the children it is built with (Treap.mk);
   the node SetItem builds is Treap.single *)
Theorem c13_node_aggregates_are_source :
  aggs_ok None (agg_calls "Store.union") = true /\ aggs_ok None (agg_calls "Store.split") = true /\
  aggs_ok None (agg_calls "Store.join") = true /\
  List.length (filter (fun c => String.eqb (fst c) "t.mkNode") (agg_calls "Store.union")) = 3%nat /\
  List.length (filter (fun c => String.eqb (fst c) "t.mkNode") (agg_calls "Store.split")) = 2%nat /\
  List.length (filter (fun c => String.eqb (fst c) "t.mkNode") (agg_calls "Store.join")) = 2%nat /\
  (forall ln rn lb rb ib : Z,
     let rho := upd (upd (upd (upd (upd env0 "leftNum" ln) "rightNum" rn) "leftBytes" lb) "rightBytes" rb) "x.NumBytes(t)" ib in
     geval rho (GBin "+" (GBin "+" (GVar "leftNum") (GVar "rightNum")) (GInt 1)) = Some (ln + rn + 1)%Z /\
     geval rho (GBin "+" (GBin "+" (GVar "leftBytes") (GVar "rightBytes")) (GCall "uint64" [GCall "x.NumBytes" [GVar "t"]])) = Some (lb + rb + ib)%Z).
Proof. exact DecTreap.node_aggregates_are_mk. Qed.
Print Assumptions c13_node_aggregates_are_source.

Theorem c13_new_node_is_source :
  agg_calls "Collection.SetItem" =
  [("t.mkNode", [GNil; GNil; GNil; GInt 1;
                 GBin "+" (GCall "uint64" [GCall "len" [GVar "item.Key"]]) (GCall "uint64" [GCall "item.NumValBytes" [GVar "t"]])])].
Proof. exact DecTreap.new_node_is_single. Qed.
Print Assumptions c13_new_node_is_source.

(* the reclaim marks a failed mutation left are cleared wherever they are: unmarkReclaimable walks the whole loaded tree
   (no early stop at an unmarked node), one lock section per node, released before it descends *)
From GK Require Import DecMarks.
Theorem c13_unmark_walks_the_whole_tree_is_source :
  body "Collection.unmarkReclaimable" =
    [SIf [] (GCall "nloc.isEmpty" []) [SReturn []] [];
     SAssign [GVar "n"] ":=" [GCall "nloc.Node" []];
     SIf [] (GBin "==" (GVar "n") GNil) [SReturn []] [];
     SExpr (GCall "t.rootLock.Lock" []);
     SIf [] (GBin "==" (GVar "n.next") (GVar "reclaimMark")) [SAssign [GVar "n.next"] "=" [GNil]] [];
     SExpr (GCall "t.rootLock.Unlock" []);
     SExpr (GCall "t.unmarkReclaimable" [GUn "&" (GVar "n.left"); GVar "reclaimMark"]);
     SExpr (GCall "t.unmarkReclaimable" [GUn "&" (GVar "n.right"); GVar "reclaimMark"])] /\
  body "Collection.markReclaimable" =
    [SExpr (GCall "t.rootLock.Lock" []);
     SDefer (GCall "t.rootLock.Unlock" []);
     SIf [] (GBin "||" (GBin "||" (GBin "==" (GVar "n") GNil) (GBin "!=" (GVar "n.next") GNil))
                       (GBin "==" (GVar "n") (GVar "reclaimMark")))
       [SReturn []] [];
     SAssign [GVar "n.next"] "=" [GVar "reclaimMark"]].
Proof. exact DecMarks.unmark_walks_the_whole_tree. Qed.
Print Assumptions c13_unmark_walks_the_whole_tree_is_source.
