(* C02 — a successful Flush makes the entire store state durable. *)
From GK Require Import Base Treap TreapSpec Store StoreSpec StoreRefine Codec CodecProofs Disk DiskProofs DStore DStoreRefine.

(* Byte-level model of Flush (write_items, write_nodes per collection in name order, then the root
   record): on any store state whose persisted part is represented by the file (coll_ok), when the
   store size is the file length, the INDEPENDENT decoder applied to the new file returns exactly
   the flushed collections (same names, same items with values and priorities, same aggregates);
   nothing below the old size changed; and the new state is again coll_ok (so this iterates over
   flush after flush, and over re-opens since a decoded store is represented by its file). *)
Theorem c02_flush_then_decode : forall f size cs f' size' cs',
  Forall (coll_ok f size) cs -> 0 <= size <= blen f ->
  flush_bytes f size cs = (f', size', cs') ->
  size' < two63 -> roots_len + blen (enc_json (root_map cs')) < two32 -> blen f' = size' ->
  Forall (fun nc => NoDup (node_offs (c_tree (snd nc)))) cs ->
  decode_store f' = OpOk size' (tmap cs') /\
  contents (tmap cs') = map (fun nc => (fst nc, elems (c_tree (snd nc)))) cs /\
  agree f f' size /\ Forall (coll_ok f' size') cs' /\
  Forall (fun nc => NoDup (node_offs (c_tree (snd nc)))) cs'.
Proof. exact DiskProofs.flush_decodes_nodup. Qed.
Print Assumptions c02_flush_then_decode.

(* the flush leaves no bytes after its root record when there were none before *)
Theorem c02_flush_no_junk : forall f size cs f' size' cs',
  Forall (coll_ok f size) cs -> 0 <= size <= blen f -> flush_bytes f size cs = (f', size', cs') ->
  size' < two63 -> blen f = size -> blen f' = size'.
Proof. exact DiskProofs.flush_no_junk. Qed.
Print Assumptions c02_flush_no_junk.

(* changes made after the Flush are never visible after re-opening: whatever is appended later that does
   not form a complete valid root record leaves the decoded state unchanged (see also C03) *)
Theorem c02_later_bytes_invisible : forall f0 f' e0 m0 cs,
  scan f0 (blen f0) = ScanFound e0 m0 -> agree f0 f' e0 -> e0 <= blen f' ->
  (forall e', e0 < e' <= blen f' -> root_at f' e' = None) ->
  load_all f0 m0 e0 = Some cs ->
  Forall (fun nt => rep f0 (snd nt) /\ below (snd nt) e0 /\ (size (snd nt) <= S (length f'))%nat) cs ->
  decode_store f0 = OpOk e0 cs /\ decode_store f' = OpOk e0 cs.
Proof. exact DiskProofs.crash_decode_store. Qed.
Print Assumptions c02_later_bytes_invisible.

(* what is loaded back is the persisted tree itself: same records, items and stored aggregates *)
Theorem c02_load_is_tree : forall f t b depth budget,
  rep f t -> persisted t -> below t b -> (size t <= budget)%nat -> (height t <= depth)%nat ->
  load depth f (root_loc t) b budget = Some (t, (budget - size t)%nat).
Proof. exact DiskProofs.load_rep. Qed.
Print Assumptions c02_load_is_tree.

(* OVER WHOLE HISTORIES.  DStore.drun is the file-backed store on bytes: Flush appends item, node and root records
   (flush_bytes), re-opening DECODES the file (decode_store), FlushRevert scans back and truncates (revert_bytes);
   Store.run keeps the durable state as an abstract stack of flushed states.  For every history whose side conditions
   hold (history_ok: a boolean evaluated along the byte-level run -- ASCII names, items within the format's ranges,
   sizes within 2^63 / 2^32, and no complete self-consistent root record inside the bytes a Flush appends) every call
   returns exactly the same answer in both.  So after any sequence of mutations, flushes, re-opens and reverts, opening
   the file yields the state of the most recent (not reverted) Flush, and changes made after it are never visible.
   The file DStore predicts is compared byte for byte with the implementation's file on every run. *)
Theorem c02_history : forall ops, ops_ok [] ops -> history_ok ops -> drun dinit ops = run (init true) ops.
Proof. exact DStoreRefine.dstore_refines_store_exact. Qed.
Print Assumptions c02_history.

(* ... and that store is a family of sorted maps (C01) *)
Theorem c02_history_sorted_map : forall ops, ops_ok [] ops -> history_ok ops ->
  map oerase (drun dinit ops) = map oerase (srun (sinit true) ops).
Proof. exact DStoreRefine.dstore_refines_sorted_map. Qed.
Print Assumptions c02_history_sorted_map.

(* the side conditions are satisfiable: a 17-step history with two collections, flushes, a re-open and two reverts *)
Theorem c02_history_nonvacuous : ops_ok [] ex_history /\ history_ok ex_history.
Proof. exact DStoreRefine.ex_history_ok. Qed.
Print Assumptions c02_history_nonvacuous.

(* ---------------------------------------------------------------------------------------------- *)
(* REGENERATED FROM THE SOURCE ON EVERY RUN (tools/gen -> Generated.g_code; DecBase.v, Dec*.v): the decisions the model
   takes at these points are the evaluations of the conditions the Go source has there, for all values of their
   variables. *)
From GK Require Import GExpr Generated DecBase DecWrite DecFlush.
From Coq Require Import String.

(* Flush writes only what is not yet persisted (Disk.write_items / write_nodes skip persisted nodes and items) *)
Theorem c02_write_skips_persisted_is_source :
  exists c1 c2, decisions "Collection.writeItems" "nloc" = [c1] /\ decisions "Collection.writeNodes" "nloc" = [c2] /\
    forall isnil persisted : bool,
      let rho := upd (upd env0 "nloc" (b2z (negb isnil))) "nloc.Loc().isEmpty()" (b2z (negb persisted)) in
      gtrue rho c1 = Some (isnil || persisted) /\ gtrue rho c2 = Some (isnil || persisted).
Proof. exact DecWrite.write_skips_persisted. Qed.
Print Assumptions c02_write_skips_persisted_is_source.

Theorem c02_item_written_once_is_source :
  exists c, hd_error (conds 400 (body "itemLoc.write")) = Some c /\
    forall empty : bool, gtrue (upd env0 "iloc.Loc().isEmpty()" (b2z empty)) c = Some empty.
Proof. exact DecWrite.item_written_once. Qed.
Print Assumptions c02_item_written_once_is_source.

Theorem c02_node_written_once_is_source :
  exists c, hd_error (conds 400 (body "nodeLoc.write")) = Some c /\
    forall notnil empty : bool, gtrue (upd (upd env0 "nloc" (b2z notnil)) "loc.isEmpty()" (b2z empty)) c = Some (notnil && empty).
Proof. exact DecWrite.node_written_once. Qed.
Print Assumptions c02_node_written_once_is_source.

(* Flush has no way out other than its two guards and a write error: it always ends by writing the root record, for
   the versions it pinned *)
Theorem c02_flush_always_writes_roots_is_source :
  conds 400 (body "Store.Flush") = [GVar "s.readOnly"; GBin "==" (GVar "s.file") GNil; GBin "!=" (GVar "err") GNil] /\
  last (body "Store.Flush") (SOther "") = SReturn [GCall "s.writeRoots" [GVar "rnls"]] /\
  hd (SOther "") (body "Store.writeRoots") = SAssign [GVar "sJSON"; GVar "err"] ":=" [GCall "json.Marshal" [GVar "rnls"]] /\
  before "c.rootAddRef" "coll[name].write" (call_list "Store.Flush") = true /\
  before "coll[name].write" "s.writeRoots" (call_list "Store.Flush") = true.
Proof. exact DecFlush.flush_always_writes_roots. Qed.
Print Assumptions c02_flush_always_writes_roots_is_source.

Theorem c02_write_roots_order_is_source :
  Forall (fun c => c = GBin "!=" (GVar "err") GNil) (conds 400 (body "Store.writeRoots")) /\
  before "s.file.WriteAt" "atomic.StoreInt64" (call_list "Store.writeRoots") = true.
Proof. exact DecFlush.write_roots_order. Qed.
Print Assumptions c02_write_roots_order_is_source.

From GK Require Import DecSites.

Theorem c02_size_update_sites_are_source :
  sites "atomic.StoreInt64" = ["Store.readRoots"; "Store.scanBackwardsForMagicEnd"; "Store.setSize"; "Store.writeRoots"; "itemLoc.write"] /\
  sites "atomic.AddInt64" = ["Store.FlushRevert"; "Store.readRootsScan"; "Store.scanBackwardsForMagicEnd"] /\
  sites "setSize" = ["nodeLoc.write"].
Proof. exact DecSites.size_update_sites. Qed.
Print Assumptions c02_size_update_sites_are_source.
