(* C02 — a successful Flush makes the entire store state durable. *)
From GK Require Import Base Treap TreapSpec Store Codec CodecProofs Disk DiskProofs.

(* Byte-level model of Flush (write_items, write_nodes per collection in name order, then the root
   record): on any store state whose persisted part is represented by the file (coll_ok), when the
   store size is the file length, the INDEPENDENT decoder applied to the new file returns exactly
   the flushed collections (same names, same items with values and priorities, same aggregates);
   nothing below the old size changed; and the new state is again coll_ok (so this iterates over
   flush after flush, and over re-opens since a decoded store is represented by its file). *)
Theorem c02_flush_then_decode : forall f size cs f' size' cs',
  Forall (coll_ok f size) cs -> 0 <= size <= blen f ->
  flush_bytes f size cs = (f', size', cs') ->
  size' < two63 -> roots_len + blen (enc_json (root_map cs')) < two32 -> blen f' = size' ->
  Forall (fun nc => NoDup (node_offs (c_tree (snd nc)))) cs ->
  decode_store f' = OpOk size' (tmap cs') /\
  contents (tmap cs') = map (fun nc => (fst nc, elems (c_tree (snd nc)))) cs /\
  agree f f' size /\ Forall (coll_ok f' size') cs' /\
  Forall (fun nc => NoDup (node_offs (c_tree (snd nc)))) cs'.
Proof. exact DiskProofs.flush_decodes_nodup. Qed.
Print Assumptions c02_flush_then_decode.

(* the flush leaves no bytes after its root record when there were none before *)
Theorem c02_flush_no_junk : forall f size cs f' size' cs',
  Forall (coll_ok f size) cs -> 0 <= size <= blen f -> flush_bytes f size cs = (f', size', cs') ->
  size' < two63 -> blen f = size -> blen f' = size'.
Proof. exact DiskProofs.flush_no_junk. Qed.
Print Assumptions c02_flush_no_junk.

(* changes made after the Flush are never visible after re-opening: whatever is appended later that does
   not form a complete valid root record leaves the decoded state unchanged (see also C03) *)
Theorem c02_later_bytes_invisible : forall f0 f' e0 m0 cs,
  scan f0 (blen f0) = ScanFound e0 m0 -> agree f0 f' e0 -> e0 <= blen f' ->
  (forall e', e0 < e' <= blen f' -> root_at f' e' = None) ->
  load_all f0 m0 e0 = Some cs ->
  Forall (fun nt => rep f0 (snd nt) /\ below (snd nt) e0 /\ (size (snd nt) <= S (length f'))%nat) cs ->
  decode_store f0 = OpOk e0 cs /\ decode_store f' = OpOk e0 cs.
Proof. exact DiskProofs.crash_decode_store. Qed.
Print Assumptions c02_later_bytes_invisible.

(* what is loaded back is the persisted tree itself: same records, items and stored aggregates *)
Theorem c02_load_is_tree : forall f t b depth budget,
  rep f t -> persisted t -> below t b -> (size t <= budget)%nat -> (height t <= depth)%nat ->
  load depth f (root_loc t) b budget = Some (t, (budget - size t)%nat).
Proof. exact DiskProofs.load_rep. Qed.
Print Assumptions c02_load_is_tree.
