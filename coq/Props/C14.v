(* C14 — files conform to the v4 layout and decode independently. *)
From GK Require Import Base Codec Generated Layout.

(* the constants and field orders the Go source uses now are those of layout version 4 *)
Theorem c14_layout_is_v4 : generated_layout = v4_layout.
Proof. exact Layout.layout_is_v4. Qed.
Print Assumptions c14_layout_is_v4.
