(* C14 — files conform to the v4 layout and decode independently to the flushed state. *)
From GK Require Import Base Treap TreapSpec Store Codec CodecProofs Disk DiskProofs Generated Layout.

(* the constants and field orders the Go source uses NOW (regenerated on every run) are those of layout version 4 *)
Theorem c14_layout_is_v4 : generated_layout = v4_layout.
Proof. exact Layout.layout_is_v4. Qed.
Print Assumptions c14_layout_is_v4.

(* codec round trips: self-delimiting item records, fixed-size node records, the root map, framed root records *)
Theorem c14_item_roundtrip : forall f o it, item_ok it -> 0 <= o ->
  read_at f o (item_loc_len it) = Some (enc_item it) -> dec_item f (mkPloc o (item_loc_len it)) = Some it.
Proof. exact CodecProofs.dec_item_enc. Qed.
Print Assumptions c14_item_roundtrip.

Theorem c14_node_roundtrip : forall f o il ll rl nn nb,
  oploc_ok il -> oploc_ok ll -> oploc_ok rl -> 0 <= nn < 2 ^ 64 -> 0 <= nb < 2 ^ 64 -> 0 <= o ->
  read_at f o node_len = Some (enc_node il ll rl nn nb) ->
  dec_node f (mkPloc o node_len) = Some (mkNodeRec il ll rl nn nb).
Proof. exact CodecProofs.dec_node_enc. Qed.
Print Assumptions c14_node_roundtrip.

Theorem c14_json_roundtrip : forall m, Forall entry_ok m -> dec_json (enc_json m) = Some m.
Proof. exact CodecProofs.dec_json_enc. Qed.
Print Assumptions c14_json_roundtrip.

Theorem c14_root_roundtrip : forall f size m, Forall entry_ok m -> 0 <= size <= blen f -> size < two63 ->
  blen (enc_root m size) < two32 ->
  let r := enc_root m size in root_at (write_at f size r) (size + blen r) = Some m.
Proof. exact CodecProofs.root_at_enc. Qed.
Print Assumptions c14_root_roundtrip.

(* the independent decoder reconstructs from the last root record exactly the flushed state *)
Theorem c14_decode_flush : forall f size cs f' size' cs',
  Forall (coll_ok f size) cs -> 0 <= size <= blen f -> flush_bytes f size cs = (f', size', cs') ->
  size' < two63 -> roots_len + blen (enc_json (root_map cs')) < two32 -> blen f' = size' ->
  Forall (fun nc => NoDup (node_offs (c_tree (snd nc)))) cs ->
  decode_store f' = OpOk size' (tmap cs') /\
  contents (tmap cs') = map (fun nc => (fst nc, elems (c_tree (snd nc)))) cs /\
  agree f f' size /\ Forall (coll_ok f' size') cs' /\
  Forall (fun nc => NoDup (node_offs (c_tree (snd nc)))) cs'.
Proof. exact DiskProofs.flush_decodes_nodup. Qed.
Print Assumptions c14_decode_flush.

(* and the flushed file conforms: record lengths, items self-delimiting, children before parents, exact
   persisted aggregates, search order under each collection's comparator, names sorted *)
Theorem c14_flush_conforms : forall cmpid f size cs f' size' cs',
  Forall (coll_ok f size) cs -> 0 <= size <= blen f -> flush_bytes f size cs = (f', size', cs') ->
  size' < two63 -> roots_len + blen (enc_json (root_map cs')) < two32 -> blen f' = size' ->
  Forall (fun nc => NoDup (node_offs (c_tree (snd nc)))) cs ->
  names_b (tmap cs) = true -> Forall (coll_conf cmpid) cs -> conforms_v4 cmpid f' = true.
Proof. exact DiskProofs.flush_conforms_nodup. Qed.
Print Assumptions c14_flush_conforms.

(* ---------------------------------------------------------------------------------------------- *)
(* REGENERATED FROM THE SOURCE ON EVERY RUN (tools/gen -> Generated.g_code; DecBase.v, Dec*.v): the decisions the model
   takes at these points are the evaluations of the conditions the Go source has there, for all values of their
   variables. *)
From GK Require Import GExpr Generated DecBase DecRecord DecWrite.
From Coq Require Import String.

(* the record checks of itemLoc.read and of the root record, and the empty location, as in Codec.v *)
Theorem c14_item_length_check_is_source :
  exists c, decisions "itemLoc.read" "ds.getLength" = [c] /\
    forall len kl vl : Z,
      gtrue (upd (upd (upd env0 "ds.getLength()" len) "uint32(keyLength)" kl) "valLength" vl) c =
      Some (negb (Z.eqb len (item_hdr_len + kl + vl))).
Proof. exact DecRecord.item_length_check_decision. Qed.
Print Assumptions c14_item_length_check_is_source.
Theorem c14_item_short_loc_is_source :
  exists c, decisions "itemLoc.read" "loc.Length" = [c] /\
    forall l : Z, gtrue (upd env0 "loc.Length" l) c = Some (Z.ltb l item_hdr_len).
Proof. exact DecRecord.item_short_loc_decision. Qed.
Print Assumptions c14_item_short_loc_is_source.
Theorem c14_ploc_is_empty_is_source :
  exists c, choice_of "ploc.isEmpty" = Some c /\
    forall o l : Z, gtrue (upd (upd (upd env0 "p" 1%Z) "p.Offset" o) "p.Length" l) c = Some (Z.eqb o 0 && Z.eqb l 0).
Proof. exact DecRecord.ploc_is_empty_decision. Qed.
Print Assumptions c14_ploc_is_empty_is_source.
Theorem c14_root_version_is_source :
  exists c, decisions "Store.validateAndSetCollections" "version" = [c] /\
    forall v : Z, gtrue (upd env0 "version" v) c = Some (negb (Z.eqb v version)).
Proof. exact DecRecord.root_version_decision. Qed.
Print Assumptions c14_root_version_is_source.
Theorem c14_root_length_is_source :
  exists c, decisions "Store.validateAndSetCollections" "length0" = [c] /\
    forall a b : Z, gtrue (upd (upd env0 "length0" a) "length" b) c = Some (negb (Z.eqb a b)).
Proof. exact DecRecord.root_length_decision. Qed.
Print Assumptions c14_root_length_is_source.

(* record writes in the source: offset taken after the before-write hook, header+key, value, then size and location *)
Theorem c14_item_write_order_is_source :
  let l := call_list "itemLoc.write" in
  before "c.store.callbacks.BeforeItemWrite" "atomic.LoadInt64" l = true /\
  before "atomic.LoadInt64" "c.store.file.WriteAt" l = true /\
  before "c.store.file.WriteAt" "c.store.ItemValWrite" l = true /\
  before "c.store.ItemValWrite" "atomic.StoreInt64" l = true /\
  before "atomic.StoreInt64" "iloc.setLoc" l = true /\
  before "iItem.NumValBytes" "c.store.file.WriteAt" l = true /\
  before "c.store.callbacks.BeforeItemWrite" "iItem.NumValBytes" l = true.
Proof. exact DecWrite.item_write_order. Qed.
Print Assumptions c14_item_write_order_is_source.

From GK Require Import DecPins.
(* the location the root record stores for a collection is read from the root node at every call (nothing cached) *)
Theorem c14_root_location_json_is_source :
  body "rootNodeLoc.MarshalJSON" =
    [SAssign [GVar "loc"] ":=" [GCall "rnl.root.Loc" []];
     SIf [] (GCall "loc.isEmpty" []) [SReturn [GCall "json.Marshal" [GVar "plocEmpty"]]] [];
     SReturn [GCall "json.Marshal" [GVar "loc"]]] /\
  body "Collection.MarshalJSON" =
    [SAssign [GVar "rnl"] ":=" [GCall "t.rootAddRef" []];
     SDefer (GCall "t.rootDecRef" [GVar "rnl"]);
     SReturn [GCall "rnl.MarshalJSON" []]].
Proof. exact DecPins.root_location_json. Qed.
Print Assumptions c14_root_location_json_is_source.
