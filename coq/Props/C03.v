(* C03 — a crash at any point leaves the last completed Flush recoverable, atomically. *)
From GK Require Import Base Treap TreapSpec Store Codec CodecProofs Disk DiskProofs.

(* The backward scan finds the greatest valid root end at or below its start, for every file. *)
Theorem c03_scan_finds_last : forall f size e m, scan f size = ScanFound e m ->
  e <= size /\ roots_len < e /\ root_at f e = Some m /\ (forall e', e < e' <= size -> root_at f e' = None).
Proof. exact DiskProofs.scan_found. Qed.
Print Assumptions c03_scan_finds_last.

Theorem c03_scan_complete : forall f size e m, root_at f e = Some m -> e <= size ->
  (forall e', e < e' <= size -> root_at f e' = None) -> scan f size = ScanFound e m.
Proof. exact DiskProofs.scan_complete. Qed.
Print Assumptions c03_scan_complete.

(* Crash atomicity.  Let f0 end its last valid root record at e0.  Let f' be ANY file that agrees
   with f0 below e0 (every prefix of the writes of a later Flush, the write in flight cut at any byte,
   any junk after it: all of these only touch bytes at or beyond e0, see c09/append discipline) and in
   which no complete, self-consistent root record ends after e0.  Then re-opening f' finds the same
   root record and decodes exactly the same store: all collections together, never a mixture. *)
Theorem c03_crash_atomic : forall f0 f' e0 m0 cs,
  scan f0 (blen f0) = ScanFound e0 m0 -> agree f0 f' e0 -> e0 <= blen f' ->
  (forall e', e0 < e' <= blen f' -> root_at f' e' = None) ->
  load_all f0 m0 e0 = Some cs ->
  Forall (fun nt => rep f0 (snd nt) /\ below (snd nt) e0 /\ (size (snd nt) <= S (length f'))%nat) cs ->
  decode_store f0 = OpOk e0 cs /\ decode_store f' = OpOk e0 cs.
Proof. exact DiskProofs.crash_decode_store. Qed.
Print Assumptions c03_crash_atomic.

Theorem c03_scan_after_crash : forall f0 f' e0 m0,
  scan f0 (blen f0) = ScanFound e0 m0 -> agree f0 f' e0 -> e0 <= blen f' ->
  (forall e', e0 < e' <= blen f' -> root_at f' e' = None) -> scan f' (blen f') = ScanFound e0 m0.
Proof. exact DiskProofs.crash_recovers_previous. Qed.
Print Assumptions c03_scan_after_crash.

(* if no Flush ever completed: the documented "no roots" answer *)
Theorem c03_no_flush_completed : forall f', (forall e', e' <= blen f' -> root_at f' e' = None) ->
  0 < blen f' -> decode_store f' = OpNoRoots.
Proof. exact DiskProofs.no_roots_stays_none. Qed.
Print Assumptions c03_no_flush_completed.

(* and once all writes of the Flush completed, the new state is the one recovered (C02) *)
Theorem c03_completed_flush_recovered : forall f size cs f' size' cs',
  Forall (coll_ok f size) cs -> 0 <= size <= blen f -> flush_bytes f size cs = (f', size', cs') ->
  size' < two63 -> roots_len + blen (enc_json (root_map cs')) < two32 -> blen f' = size' ->
  Forall (fun nc => NoDup (node_offs (c_tree (snd nc)))) cs ->
  decode_store f' = OpOk size' (tmap cs') /\
  contents (tmap cs') = map (fun nc => (fst nc, elems (c_tree (snd nc)))) cs /\
  agree f f' size /\ Forall (coll_ok f' size') cs' /\
  Forall (fun nc => NoDup (node_offs (c_tree (snd nc)))) cs'.
Proof. exact DiskProofs.flush_decodes_nodup. Qed.
Print Assumptions c03_completed_flush_recovered.

(* a root record is only ever recognised from bytes below its end *)
Theorem c03_root_at_local : forall f f' e, agree f f' e -> root_at f' e = root_at f e.
Proof. exact DiskProofs.root_at_agree. Qed.
Print Assumptions c03_root_at_local.

(* ---------------------------------------------------------------------------------------------- *)
(* REGENERATED FROM THE SOURCE ON EVERY RUN (tools/gen -> Generated.g_code; DecBase.v, Dec*.v): the decisions the model
   takes at these points are the evaluations of the conditions the Go source has there, for all values of their
   variables. *)
From GK Require Import GExpr Generated DecBase DecRoot DecFlush.
From Coq Require Import String.

(* the recorded offset of a root record and the length it implies (Codec.root_at) *)
Theorem c03_root_offset_check_is_source :
  exists c, decisions "Store.checkAndReadRoots" "offset" = [c] /\
    forall offset size len len32 : Z,
      let rho := upd (upd (upd (upd (upd env0 "offset" offset) "atomic.LoadInt64(&s.size)" size) "rootsLen" roots_len)
                          "length" len) "uint32((atomic.LoadInt64(&s.size)-offset))" len32 in
      gtrue rho c = Some (Z.geb offset 0 && Z.ltb offset (size - roots_len) && Z.eqb len len32).
Proof. exact DecRoot.root_offset_decision. Qed.
Print Assumptions c03_root_offset_check_is_source.

(* the backward scan: gives up at size <= rootsLen, tests MagicEnd at offsets 12 and 18 of the trailer, else moves down by one byte (Disk.scan) *)
Theorem c03_scan_stop_is_source :
  exists c, hd_error (conds 400 scan_loop) = Some c /\
    forall size : Z, gtrue (upd (upd env0 "atomic.LoadInt64(&s.size)" size) "rootsLen" roots_len) c = Some (Z.leb size roots_len).
Proof. exact DecRoot.scan_stop_decision. Qed.
Print Assumptions c03_scan_stop_is_source.

Theorem c03_scan_step_is_source :
  last scan_loop (SOther "") = SExpr (GCall "atomic.AddInt64" [GUn "&" (GVar "s.size"); GInt (-1)]).
Proof. exact DecRoot.scan_step_is_one. Qed.
Print Assumptions c03_scan_step_is_source.

Theorem c03_scan_magic_offsets_is_source :
  exists c, nth_error (conds 400 scan_loop) 3 = Some c /\
    c = GBin "&&" (GCall "bytes.Equal" [GVar "MagicEnd"; GCall "[:]" [GVar "rootsEnd"; GInt 12; GBin "+" (GInt 12) (GCall "len" [GVar "MagicEnd"])]])
                  (GCall "bytes.Equal" [GVar "MagicEnd"; GCall "[:]" [GVar "rootsEnd"; GBin "+" (GInt 12) (GCall "len" [GVar "MagicEnd"]); GNil]]) /\
    geval (upd env0 "len(MagicEnd)" (Z.of_nat (List.length g_magic_end))) (GBin "+" (GInt 12) (GCall "len" [GVar "MagicEnd"])) = Some 18%Z /\
    roots_end_len = 24%Z.
Proof. exact DecRoot.scan_magic_offsets. Qed.
Print Assumptions c03_scan_magic_offsets_is_source.

(* the root record is the single commit point: written last, for the pinned versions, size moved after the write *)
Theorem c03_flush_always_writes_roots_is_source :
  conds 400 (body "Store.Flush") = [GVar "s.readOnly"; GBin "==" (GVar "s.file") GNil; GBin "!=" (GVar "err") GNil] /\
  last (body "Store.Flush") (SOther "") = SReturn [GCall "s.writeRoots" [GVar "rnls"]] /\
  hd (SOther "") (body "Store.writeRoots") = SAssign [GVar "sJSON"; GVar "err"] ":=" [GCall "json.Marshal" [GVar "rnls"]] /\
  before "c.rootAddRef" "coll[name].write" (call_list "Store.Flush") = true /\
  before "coll[name].write" "s.writeRoots" (call_list "Store.Flush") = true.
Proof. exact DecFlush.flush_always_writes_roots. Qed.
Print Assumptions c03_flush_always_writes_roots_is_source.

Theorem c03_write_roots_order_is_source :
  Forall (fun c => c = GBin "!=" (GVar "err") GNil) (conds 400 (body "Store.writeRoots")) /\
  before "s.file.WriteAt" "atomic.StoreInt64" (call_list "Store.writeRoots") = true.
Proof. exact DecFlush.write_roots_order. Qed.
Print Assumptions c03_write_roots_order_is_source.
