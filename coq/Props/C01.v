(* C01 — each collection behaves exactly like a sorted map.
   Only statements; each is closed by an existing lemma. *)
From GK Require Import Base Order Treap TreapSpec Store StoreSpec StoreRefine.

(* For every operation list in which a collection name keeps its comparator, on
   any number of collections, file-backed or memory-only, with flushes, evictions
   and re-opens anywhere: the treap store returns what the store of strictly
   sorted association lists (StoreSpec.sstep) returns. *)
Theorem c01_refines_sorted_map : forall file ops, ops_ok [] ops ->
  map erase (run (init file) ops) = map erase (srun (sinit file) ops).
Proof. exact StoreRefine.c01_refines_sorted_map. Qed.
Print Assumptions c01_refines_sorted_map.

(* from every well-formed state, not only the initial one, and exactly (no erasure) for all non-visit calls *)
Theorem c01_step_exact : forall s o s' r, wf s -> ops_ok (s_cmpreg s) [o] -> is_visit o = false ->
  step s o = (s', r) -> wf s' /\ sstep (abs s) o = (abs s', r).
Proof. exact StoreRefine.step_refines_exact. Qed.
Print Assumptions c01_step_exact.

(* the list specification is a map: lookups return the last item stored under the key *)
Theorem c01_find_ins_same : forall cmp, cmp_laws cmp -> forall it l, sorted cmp l ->
  find cmp (ikey it) (ins cmp it l) = Some it.
Proof. exact TreapSpec.find_ins_same. Qed.
Print Assumptions c01_find_ins_same.

Theorem c01_find_ins_other : forall cmp, cmp_laws cmp -> forall k it l, sorted cmp l ->
  cmp k (ikey it) <> Eq -> find cmp k (ins cmp it l) = find cmp k l.
Proof. exact TreapSpec.find_ins_other. Qed.
Print Assumptions c01_find_ins_other.

Theorem c01_find_del_same : forall cmp, cmp_laws cmp -> forall k l, sorted cmp l ->
  find cmp k (del cmp k l) = None.
Proof. exact TreapSpec.find_del_same. Qed.
Print Assumptions c01_find_del_same.

Theorem c01_find_del_other : forall cmp, cmp_laws cmp -> forall k k' l, sorted cmp l ->
  cmp k k' <> Eq -> find cmp k' (del cmp k l) = find cmp k' l.
Proof. exact TreapSpec.find_del_other. Qed.
Print Assumptions c01_find_del_other.

(* GetTotals is the exact item count and the exact sum of key+value lengths *)
Theorem c01_totals_exact : forall t, aggs t ->
  totals t = (Z.of_nat (length (elems t)), sum_bytes (elems t)).
Proof. exact TreapSpec.totals_exact. Qed.
Print Assumptions c01_totals_exact.

(* invalid items (empty or oversized key, nil value, negative priority) are rejected and change nothing *)
Theorem c01_invalid_rejected : forall s n key val prio s' r, valid_item key val prio = false ->
  sstep s (OSet n key val prio) = (s', r) -> s' = s /\ (r = RErr \/ r = RNoColl).
Proof. exact StoreRefine.c01_invalid_rejected. Qed.
Print Assumptions c01_invalid_rejected.

(* SetItem's union with a single node is the structurally recursive insert, for every comparator *)
Theorem c01_union_is_insert : forall cmp f t it, (height t < f)%nat ->
  union cmp f t (single it) = Some (insert cmp t it).
Proof. exact TreapSpec.union_single. Qed.
Print Assumptions c01_union_is_insert.

(* the four comparators used by the correspondence check satisfy the laws *)
Theorem c01_comparators_lawful : forall id, cmp_laws (cmp_of id).
Proof. exact Order.cmp_of_laws. Qed.
Print Assumptions c01_comparators_lawful.
