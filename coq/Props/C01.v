(* C01 — each collection behaves exactly like a sorted map.
   Only statements; each is closed by an existing lemma. *)
From GK Require Import Base Order Treap TreapSpec Store StoreSpec StoreRefine.

(* For every operation list in which a collection name keeps its comparator, on
   any number of collections, file-backed or memory-only, with flushes, evictions
   and re-opens anywhere: the treap store returns what the store of strictly
   sorted association lists (StoreSpec.sstep) returns. *)
Theorem c01_refines_sorted_map : forall file ops, ops_ok [] ops ->
  map erase (run (init file) ops) = map erase (srun (sinit file) ops).
Proof. exact StoreRefine.c01_refines_sorted_map. Qed.
Print Assumptions c01_refines_sorted_map.

(* from every well-formed state, not only the initial one, and exactly (no erasure) for all non-visit calls *)
Theorem c01_step_exact : forall s o s' r, wf s -> ops_ok (s_cmpreg s) [o] -> is_visit o = false ->
  step s o = (s', r) -> wf s' /\ sstep (abs s) o = (abs s', r).
Proof. exact StoreRefine.step_refines_exact. Qed.
Print Assumptions c01_step_exact.

(* the list specification is a map: lookups return the last item stored under the key *)
Theorem c01_find_ins_same : forall cmp, cmp_laws cmp -> forall it l, sorted cmp l ->
  find cmp (ikey it) (ins cmp it l) = Some it.
Proof. exact TreapSpec.find_ins_same. Qed.
Print Assumptions c01_find_ins_same.

Theorem c01_find_ins_other : forall cmp, cmp_laws cmp -> forall k it l, sorted cmp l ->
  cmp k (ikey it) <> Eq -> find cmp k (ins cmp it l) = find cmp k l.
Proof. exact TreapSpec.find_ins_other. Qed.
Print Assumptions c01_find_ins_other.

Theorem c01_find_del_same : forall cmp, cmp_laws cmp -> forall k l, sorted cmp l ->
  find cmp k (del cmp k l) = None.
Proof. exact TreapSpec.find_del_same. Qed.
Print Assumptions c01_find_del_same.

Theorem c01_find_del_other : forall cmp, cmp_laws cmp -> forall k k' l, sorted cmp l ->
  cmp k k' <> Eq -> find cmp k' (del cmp k l) = find cmp k' l.
Proof. exact TreapSpec.find_del_other. Qed.
Print Assumptions c01_find_del_other.

(* GetTotals is the exact item count and the exact sum of key+value lengths *)
Theorem c01_totals_exact : forall t, aggs t ->
  totals t = (Z.of_nat (length (elems t)), sum_bytes (elems t)).
Proof. exact TreapSpec.totals_exact. Qed.
Print Assumptions c01_totals_exact.

(* invalid items (empty or oversized key, nil value, negative priority) are rejected and change nothing *)
Theorem c01_invalid_rejected : forall s n key val prio s' r, valid_item key val prio = false ->
  sstep s (OSet n key val prio) = (s', r) -> s' = s /\ (r = RErr \/ r = RNoColl).
Proof. exact StoreRefine.c01_invalid_rejected. Qed.
Print Assumptions c01_invalid_rejected.

(* SetItem's union with a single node is the structurally recursive insert, for every comparator *)
Theorem c01_union_is_insert : forall cmp f t it, (height t < f)%nat ->
  union cmp f t (single it) = Some (insert cmp t it).
Proof. exact TreapSpec.union_single. Qed.
Print Assumptions c01_union_is_insert.

(* the four comparators used by the correspondence check satisfy the laws *)
Theorem c01_comparators_lawful : forall id, cmp_laws (cmp_of id).
Proof. exact Order.cmp_of_laws. Qed.
Print Assumptions c01_comparators_lawful.

(* ---------------------------------------------------------------------------------------------- *)
(* REGENERATED FROM THE SOURCE ON EVERY RUN (tools/gen -> Generated.g_code; DecBase.v, Dec*.v): the decisions the model
   takes at these points are the evaluations of the conditions the Go source has there, for all values of their
   variables. *)
From GK Require Import GExpr Generated DecBase DecTreap.
From Coq Require Import String.

(* treap.go union / join: the root is `this` iff its priority is strictly greater (ties go to `that`) *)
Theorem c01_union_priority_is_source :
  exists c, decisions "Store.union" "thisItem.Priority" = [c] /\
            forall x y, gtrue (prio_env x y) c = Some (Z.gtb x y).
Proof. exact DecTreap.union_priority_decision. Qed.
Print Assumptions c01_union_priority_is_source.
Theorem c01_join_priority_is_source :
  exists c, decisions "Store.join" "thisItem.Priority" = [c] /\
            forall x y, gtrue (prio_env x y) c = Some (Z.gtb x y).
Proof. exact DecTreap.join_priority_decision. Qed.
Print Assumptions c01_join_priority_is_source.

(* split and GetItem branch on the three-way comparison as Treap.split / Treap.lookup match on it *)
Theorem c01_split_compare_is_source :
  exists c1 c2, decisions "Store.split" "c" = [c1; c2] /\
    forall o : comparison,
      gtrue (c_env (cmpz o)) c1 = Some (match o with Eq => true | _ => false end) /\
      gtrue (c_env (cmpz o)) c2 = Some (match o with Lt => true | _ => false end).
Proof. exact DecTreap.split_compare_decisions. Qed.
Print Assumptions c01_split_compare_is_source.
Theorem c01_getitem_compare_is_source :
  exists c1 c2, decisions "Collection.GetItem" "c" = [c1; c2] /\
    forall o : comparison,
      gtrue (c_env (cmpz o)) c1 = Some (match o with Lt => true | _ => false end) /\
      gtrue (c_env (cmpz o)) c2 = Some (match o with Gt => true | _ => false end).
Proof. exact DecTreap.getitem_compare_decisions. Qed.
Print Assumptions c01_getitem_compare_is_source.

(* SetItem's validation is Treap.valid_item *)
Theorem c01_validation_is_source :
  exists c1 c2,
    decisions "Collection.SetItem" "item.Key" = [c1] /\ decisions "Collection.SetItem" "item.Priority" = [c2] /\
    forall keynil key val prio, (keynil = true -> key = []) ->
      exists b1 b2, gtrue (item_env keynil key val prio) c1 = Some b1 /\
                    gtrue (item_env keynil key val prio) c2 = Some b2 /\
                    valid_item key val prio = negb b1 && negb b2.
Proof. exact DecTreap.setitem_validation_decisions. Qed.
Print Assumptions c01_validation_is_source.

(* every node union / split / join build carries numNodes = left + right + 1 and numBytes = left + right + the bytes of
   the item it is built with, the children's aggregates read from exactly the children it is built with (Treap.mk);
   the node SetItem builds is Treap.single *)
Theorem c01_node_aggregates_are_source :
  aggs_ok None (agg_calls "Store.union") = true /\ aggs_ok None (agg_calls "Store.split") = true /\
  aggs_ok None (agg_calls "Store.join") = true /\
  List.length (filter (fun c => String.eqb (fst c) "t.mkNode") (agg_calls "Store.union")) = 3%nat /\
  List.length (filter (fun c => String.eqb (fst c) "t.mkNode") (agg_calls "Store.split")) = 2%nat /\
  List.length (filter (fun c => String.eqb (fst c) "t.mkNode") (agg_calls "Store.join")) = 2%nat /\
  (forall ln rn lb rb ib : Z,
     let rho := upd (upd (upd (upd (upd env0 "leftNum" ln) "rightNum" rn) "leftBytes" lb) "rightBytes" rb) "x.NumBytes(t)" ib in
     geval rho (GBin "+" (GBin "+" (GVar "leftNum") (GVar "rightNum")) (GInt 1)) = Some (ln + rn + 1)%Z /\
     geval rho (GBin "+" (GBin "+" (GVar "leftBytes") (GVar "rightBytes")) (GCall "uint64" [GCall "x.NumBytes" [GVar "t"]])) = Some (lb + rb + ib)%Z).
Proof. exact DecTreap.node_aggregates_are_mk. Qed.
Print Assumptions c01_node_aggregates_are_source.

Theorem c01_new_node_is_source :
  agg_calls "Collection.SetItem" =
  [("t.mkNode", [GNil; GNil; GNil; GInt 1;
                 GBin "+" (GCall "uint64" [GCall "len" [GVar "item.Key"]]) (GCall "uint64" [GCall "item.NumValBytes" [GVar "t"]])])].
Proof. exact DecTreap.new_node_is_single. Qed.
Print Assumptions c01_new_node_is_source.
