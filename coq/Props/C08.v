(* C08 — FlushRevert restores exactly the previous Flush and always terminates. *)
From GK Require Import Base Treap Store StoreSpec StoreRefine Codec CodecProofs Disk DiskProofs DStore DStoreRefine.

(* termination: the scan of FlushRevert never runs out of fuel, for every file and size *)
Theorem c08_terminates : forall f size,
  scan f (if roots_len <? size then size - 1 else size) <> ScanOutOfFuel.
Proof. exact DiskProofs.revert_total. Qed.
Print Assumptions c08_terminates.

(* with the store positioned at the end e_k of a root record: exactly the previous root record
   (the greatest one ending below e_k) is restored and the file is truncated to its end *)
Theorem c08_reverts_one : forall f e_k m_k e_prev m_prev,
  root_at f e_k = Some m_k -> root_at f e_prev = Some m_prev -> e_prev < e_k ->
  (forall e', e_prev < e' < e_k -> root_at f e' = None) ->
  revert_bytes f e_k = (firstn (Z.to_nat e_prev) f, e_prev, m_prev).
Proof. exact DiskProofs.revert_previous. Qed.
Print Assumptions c08_reverts_one.

(* no earlier Flush: an empty store with no collections, file truncated to zero length *)
Theorem c08_reverts_to_empty : forall f e_k, (forall e', e' < e_k -> root_at f e' = None) ->
  roots_len < e_k -> revert_bytes f e_k = ([], 0, []).
Proof. exact DiskProofs.revert_to_empty. Qed.
Print Assumptions c08_reverts_to_empty.

(* re-opening the truncated file agrees: it ends exactly at that root record and the scan finds it,
   so repeated reverts walk back one Flush at a time (apply c08_reverts_one again at e_prev) *)
Theorem c08_reopen_agrees : forall f e m, root_at f e = Some m ->
  let f' := firstn (Z.to_nat e) f in blen f' = e /\ scan f' (blen f') = ScanFound e m.
Proof. exact DiskProofs.revert_reopens. Qed.
Print Assumptions c08_reopen_agrees.

(* over whole histories: with any number of flushes, re-opens, pending changes and consecutive reverts (also past the
   first flush), the byte-level store answers exactly like the store whose FlushRevert pops a stack of flushed states *)
Theorem c08_walks_back : forall ops, ops_ok [] ops -> history_ok ops -> drun dinit ops = run (init true) ops.
Proof. exact DStoreRefine.dstore_refines_store_exact. Qed.
Print Assumptions c08_walks_back.

(* REFUTED without the "no spurious root record" side condition: a committed value that is itself a complete root
   record consistent with the position it lands at stops FlushRevert (the model returns no collections where the
   previous Flush held collection a).  The same history fails on the implementation: known finding
   value-is-valid-root-record, probed on every run. *)
Theorem c08_refuted_value_is_root_record :
  ops_ok [] cex_history /\ dhist_ok0 dinit cex_history = true /\
  drun dinit cex_history = [ROk; ROk; ROk; ROk; ROk; RNames []] /\
  run (init true) cex_history = [ROk; ROk; ROk; ROk; ROk; RNames [[97%N]]].
Proof. exact DStoreRefine.h4_needed. Qed.
Print Assumptions c08_refuted_value_is_root_record.

(* ---------------------------------------------------------------------------------------------- *)
(* REGENERATED FROM THE SOURCE ON EVERY RUN (tools/gen -> Generated.g_code; DecBase.v, Dec*.v): the decisions the model
   takes at these points are the evaluations of the conditions the Go source has there, for all values of their
   variables. *)
From GK Require Import GExpr Generated DecBase DecRoot DecRevert.
From Coq Require Import String.

(* the recorded offset of a root record and the length it implies (Codec.root_at) *)
Theorem c08_root_offset_check_is_source :
  exists c, decisions "Store.checkAndReadRoots" "offset" = [c] /\
    forall offset size len len32 : Z,
      let rho := upd (upd (upd (upd (upd env0 "offset" offset) "atomic.LoadInt64(&s.size)" size) "rootsLen" roots_len)
                          "length" len) "uint32((atomic.LoadInt64(&s.size)-offset))" len32 in
      gtrue rho c = Some (Z.geb offset 0 && Z.ltb offset (size - roots_len) && Z.eqb len len32).
Proof. exact DecRoot.root_offset_decision. Qed.
Print Assumptions c08_root_offset_check_is_source.

(* FlushRevert steps below the current root only when the store is longer than an empty root record (Disk.revert_bytes) *)
Theorem c08_revert_step_is_source :
  exists c, decisions "Store.FlushRevert" "rootsLen" = [c] /\
    forall size : Z, gtrue (upd (upd env0 "atomic.LoadInt64(&s.size)" size) "rootsLen" roots_len) c = Some (Z.ltb roots_len size).
Proof. exact DecRevert.revert_step_decision. Qed.
Print Assumptions c08_revert_step_is_source.

(* the backward scan: gives up at size <= rootsLen, tests MagicEnd at offsets 12 and 18 of the trailer, else moves down by one byte (Disk.scan) *)
Theorem c08_scan_stop_is_source :
  exists c, hd_error (conds 400 scan_loop) = Some c /\
    forall size : Z, gtrue (upd (upd env0 "atomic.LoadInt64(&s.size)" size) "rootsLen" roots_len) c = Some (Z.leb size roots_len).
Proof. exact DecRoot.scan_stop_decision. Qed.
Print Assumptions c08_scan_stop_is_source.

Theorem c08_scan_step_is_source :
  last scan_loop (SOther "") = SExpr (GCall "atomic.AddInt64" [GUn "&" (GVar "s.size"); GInt (-1)]).
Proof. exact DecRoot.scan_step_is_one. Qed.
Print Assumptions c08_scan_step_is_source.

Theorem c08_scan_magic_offsets_is_source :
  exists c, nth_error (conds 400 scan_loop) 3 = Some c /\
    c = GBin "&&" (GCall "bytes.Equal" [GVar "MagicEnd"; GCall "[:]" [GVar "rootsEnd"; GInt 12; GBin "+" (GInt 12) (GCall "len" [GVar "MagicEnd"])]])
                  (GCall "bytes.Equal" [GVar "MagicEnd"; GCall "[:]" [GVar "rootsEnd"; GBin "+" (GInt 12) (GCall "len" [GVar "MagicEnd"]); GNil]]) /\
    geval (upd env0 "len(MagicEnd)" (Z.of_nat (List.length g_magic_end))) (GBin "+" (GInt 12) (GCall "len" [GVar "MagicEnd"])) = Some 18%Z /\
    roots_end_len = 24%Z.
Proof. exact DecRoot.scan_magic_offsets. Qed.
Print Assumptions c08_scan_magic_offsets_is_source.

Theorem c08_revert_order_is_source :
  let l := call_list "Store.FlushRevert" in
  before "s.readRootsScan" "s.file.Truncate" l = true /\
  count_occ string_dec l "s.file.Truncate" = 1%nat /\
  before "atomic.AddInt64" "s.readRootsScan" l = true.
Proof. exact DecRevert.revert_order. Qed.
Print Assumptions c08_revert_order_is_source.

From GK Require Import DecLocks.
(* FlushRevert always terminates: the collection table's lock is never held while a StoreCallbacks hook runs *)
Theorem c08_hooks_under_locks_are_source : hook_under_lock = ["Collection.rootDecRef"; "withAllocLocks"].
Proof. exact DecLocks.hooks_under_locks. Qed.
Print Assumptions c08_hooks_under_locks_are_source.
