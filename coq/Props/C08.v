(* C08 — FlushRevert restores exactly the previous Flush and always terminates. *)
From GK Require Import Base Treap Store Codec CodecProofs Disk DiskProofs.

(* termination: the scan of FlushRevert never runs out of fuel, for every file and size *)
Theorem c08_terminates : forall f size,
  scan f (if roots_len <? size then size - 1 else size) <> ScanOutOfFuel.
Proof. exact DiskProofs.revert_total. Qed.
Print Assumptions c08_terminates.

(* with the store positioned at the end e_k of a root record: exactly the previous root record
   (the greatest one ending below e_k) is restored and the file is truncated to its end *)
Theorem c08_reverts_one : forall f e_k m_k e_prev m_prev,
  root_at f e_k = Some m_k -> root_at f e_prev = Some m_prev -> e_prev < e_k ->
  (forall e', e_prev < e' < e_k -> root_at f e' = None) ->
  revert_bytes f e_k = (firstn (Z.to_nat e_prev) f, e_prev, m_prev).
Proof. exact DiskProofs.revert_previous. Qed.
Print Assumptions c08_reverts_one.

(* no earlier Flush: an empty store with no collections, file truncated to zero length *)
Theorem c08_reverts_to_empty : forall f e_k, (forall e', e' < e_k -> root_at f e' = None) ->
  roots_len < e_k -> revert_bytes f e_k = ([], 0, []).
Proof. exact DiskProofs.revert_to_empty. Qed.
Print Assumptions c08_reverts_to_empty.

(* re-opening the truncated file agrees: it ends exactly at that root record and the scan finds it,
   so repeated reverts walk back one Flush at a time (apply c08_reverts_one again at e_prev) *)
Theorem c08_reopen_agrees : forall f e m, root_at f e = Some m ->
  let f' := firstn (Z.to_nat e) f in blen f' = e /\ scan f' (blen f') = ScanFound e m.
Proof. exact DiskProofs.revert_reopens. Qed.
Print Assumptions c08_reopen_agrees.
