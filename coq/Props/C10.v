(* C10 — internal node recycling is invisible to every open handle.
   Theorems about the protocol model Proto.v: EVERY sequence of protocol actions
   (any number of lineages = stores x collections sharing one mark map / free list,
   readers pinning and unpinning, snapshots, replaced and closed handles in any order,
   mutations begun, built and published or aborted, lazy loads, and REUSE of freed cells). *)
From stdpp Require Import gmap.
From GK Require Import Proto ProtoProofs.

(* no cell of a live version's tree is ever on the free list (hence never reused under it) *)
Theorem c10_no_live_cell_freed : forall s, reachable s -> forall v x n,
  vers s !! v = Some x -> n ∈ v_tree x -> exists k, marks s !! n = Some k /\ k <> F.
Proof. exact ProtoProofs.proto_safe. Qed.
Print Assumptions c10_no_live_cell_freed.

(* the tree of a live version only grows by lazy loads of fresh/recycled cells: nothing in it is removed or replaced *)
Theorem c10_tree_stable : forall s s', reachable s -> step s s' -> forall v x x',
  vers s !! v = Some x -> vers s' !! v = Some x' ->
  v_tree x ⊆ v_tree x' /\ (forall n, n ∈ v_tree x' -> n ∉ v_tree x -> marks s' !! n = Some U /\ allocatable s n).
Proof. exact ProtoProofs.tree_stable. Qed.
Print Assumptions c10_tree_stable.

(* whoever holds a reference can rely on the version being live *)
Theorem c10_handle_live : forall s, reachable s -> forall h hd v,
  handles s !! h = Some hd -> h_root hd = Some v -> is_Some (vers s !! v).
Proof. exact ProtoProofs.handle_live. Qed.
Print Assumptions c10_handle_live.

Theorem c10_pinned_live : forall s, reachable s -> forall v p,
  pins s !! v = Some (S p) -> is_Some (vers s !! v).
Proof. exact ProtoProofs.pinned_live. Qed.
Print Assumptions c10_pinned_live.

(* nothing is freed twice *)
Theorem c10_no_double_free : forall s v x n, freeable s v x n -> marks s !! n <> Some F.
Proof. exact ProtoProofs.no_double_free. Qed.
Print Assumptions c10_no_double_free.

(* the model really reuses freed cells (the theorems are not vacuous about reuse) *)
Theorem c10_reuse_reachable : exists s s', reachable s /\ marks s !! 1%positive = Some F /\ step s s' /\
  marks s' !! 1%positive = Some U /\ (exists v x, vers s' !! v = Some x /\ 1%positive ∈ v_tree x).
Proof. exact ProtoProofs.reuse_reachable. Qed.
Print Assumptions c10_reuse_reachable.

(* invariants that are evaluated on the implementation's heap dump after every step *)
Theorem c10_current_tree_unmarked : forall s, reachable s -> forall h hd v x,
  handles s !! h = Some hd -> h_ro hd = false -> h_root hd = Some v -> muts s !! h_lin hd = None ->
  vers s !! v = Some x -> forall n, n ∈ v_tree x -> marks s !! n = Some U.
Proof. exact ProtoProofs.current_tree_unmarked. Qed.
Print Assumptions c10_current_tree_unmarked.

Theorem c10_refs_accounting : forall s, reachable s -> forall v x, vers s !! v = Some x ->
  v_refs x = cnt (fun hd => h_root hd = Some v) (handles s) + pin_count s v +
             cnt (fun y => v_chain y = Some v) (vers s) + cnt (fun m => m_ver m = v) (muts s).
Proof. exact ProtoProofs.refs_accounting. Qed.
Print Assumptions c10_refs_accounting.

Theorem c10_superseded_chained : forall s, reachable s -> forall v x,
  vers s !! v = Some x -> v_super x = true -> exists w, v_chain x = Some w /\ is_Some (vers s !! w).
Proof. exact ProtoProofs.superseded_chained. Qed.
Print Assumptions c10_superseded_chained.

(* ---------------------------------------------------------------------------------------------- *)
(* REGENERATED FROM THE SOURCE ON EVERY RUN (tools/gen -> Generated.g_code; DecBase.v, Dec*.v): the decisions the model
   takes at these points are the evaluations of the conditions the Go source has there, for all values of their
   variables. *)
From GK Require Import GExpr Generated DecBase DecProto DecPublish.
From Coq Require Import String.

(* rootCAS chains the new version behind the previous one iff the previous one has more than two references
   (Proto.v: chained := bool_decide (2 < v_refs x)) *)
Theorem c10_chain_rule_is_source :
  exists c, decisions "Collection.rootCAS" "prev.refs" = [c] /\
    forall refs : Z, gtrue (upd (upd env0 "prev" 1%Z) "prev.refs" refs) c = Some (Z.ltb 2 refs).
Proof. exact DecProto.rootcas_chain_decision. Qed.
Print Assumptions c10_chain_rule_is_source.

(* rootDecRefUnlocked / rootAddRef: Proto.decref and the pin / handle steps *)
Theorem c10_decref_is_source :
  forall r : Z,
  exists rest, body "Collection.rootDecRefUnlocked" = SIncDec (GVar "r.refs") false :: SIf [] (GBin ">" (GVar "r.refs") (GInt 0)) [SReturn []] [] :: rest /\
  (Z.lt 1 r -> gexec 10 (upd env0 "r.refs" r) (firstn 2 (body "Collection.rootDecRefUnlocked")) = RRet []) /\
  (r = 1%Z -> exists rho, gexec 10 (upd env0 "r.refs" r) (firstn 2 (body "Collection.rootDecRefUnlocked")) = RFall rho /\ rho "r.refs" = Some 0%Z).
Proof. exact DecProto.decref_decision. Qed.
Print Assumptions c10_decref_is_source.

Theorem c10_death_marks_unless_superseded_is_source :
  exists c, decisions "Collection.rootDecRefUnlocked" "r.superseded" = [c] /\
    forall sup : bool, gtrue (upd env0 "r.superseded" (b2z sup)) c = Some (negb sup).
Proof. exact DecProto.death_marks_unless_superseded. Qed.
Print Assumptions c10_death_marks_unless_superseded_is_source.

Theorem c10_death_releases_chain_is_source :
  exists c, decisions "Collection.rootDecRefUnlocked" "r.chainedCollection" = [c] /\
    forall a b : bool, gtrue (upd (upd env0 "r.chainedCollection" (b2z a)) "r.chainedRootNodeLoc" (b2z b)) c = Some (a && b).
Proof. exact DecProto.death_releases_chain. Qed.
Print Assumptions c10_death_releases_chain_is_source.

Theorem c10_addref_is_source :
  exists pre post, body "Collection.rootAddRef" = pre ++ SIncDec (GVar "t.root.refs") true :: post /\
                   Forall (fun s => match s with SIncDec _ _ | SAssign _ _ _ => False | _ => True end) (pre ++ post).
Proof. exact DecProto.addref_is_increment. Qed.
Print Assumptions c10_addref_is_source.

Theorem c10_mutation_publish_order_is_source :
  before "t.rootAddRef" "t.store.union" (call_list "Collection.SetItem") = true /\
  before "t.store.union" "t.unmarkReclaimable" (call_list "Collection.SetItem") = true /\
  before "t.store.union" "t.rootCAS" (call_list "Collection.SetItem") = true /\
  before "t.rootAddRef" "t.store.split" (call_list "Collection.Delete") = true /\
  before "t.store.split" "t.store.join" (call_list "Collection.Delete") = true /\
  before "t.store.join" "t.rootCAS" (call_list "Collection.Delete") = true /\
  count_occ string_dec (call_list "Collection.Delete") "t.unmarkReclaimable" = 2%nat /\
  count_occ string_dec (call_list "Collection.SetItem") "t.rootCAS" = 1%nat /\
  count_occ string_dec (call_list "Collection.Delete") "t.rootCAS" = 1%nat.
Proof. exact DecPublish.mutation_publish_order. Qed.
Print Assumptions c10_mutation_publish_order_is_source.

(* the version protocol in the source, statement by statement: rootCAS (Proto mcas), rootDecRef, closeCollection (Proto close) *)
Theorem c10_protocol_functions_are_source :
  body "Collection.rootCAS" =
    [SExpr (GCall "t.rootLock.Lock" []);
     SDefer (GCall "t.rootLock.Unlock" []);
     SIf [] (GBin "!=" (GVar "t.root") (GVar "prev")) [SReturn [GVar "false"]] [];
     SAssign [GVar "t.root"] "=" [GVar "next"];
     SIf [] (GBin "!=" (GVar "prev") GNil) [SAssign [GVar "prev.superseded"] "=" [GVar "true"]] [];
     SIf [] (GBin "&&" (GBin "!=" (GVar "prev") GNil) (GBin ">" (GVar "prev.refs") (GInt 2)))
       [SIf [] (GBin "||" (GBin "!=" (GVar "prev.chainedCollection") GNil) (GBin "!=" (GVar "prev.chainedRootNodeLoc") GNil))
          [SExpr (GCall "panic" [GCall "fmt.Sprintf" [GLit """chain already taken, coll: %v"""; GCall "t.Name" []]])] [];
        SAssign [GVar "prev.chainedCollection"] "=" [GVar "t"];
        SAssign [GVar "prev.chainedRootNodeLoc"] "=" [GVar "t.root"];
        SIncDec (GVar "t.root.refs") true] [];
     SReturn [GVar "true"]] /\
  body "Collection.rootDecRef" =
    [SExpr (GCall "t.rootLock.Lock" []);
     SExpr (GCall "freeNodeLock.Lock" []);
     SExpr (GCall "t.rootDecRefUnlocked" [GVar "r"]);
     SExpr (GCall "freeNodeLock.Unlock" []);
     SExpr (GCall "t.rootLock.Unlock" [])] /\
  body "Collection.closeCollection" =
    [SIf [] (GBin "==" (GVar "t") GNil) [SReturn []] [];
     SExpr (GCall "t.rootLock.Lock" []);
     SAssign [GVar "r"] ":=" [GVar "t.root"];
     SAssign [GVar "t.root"] "=" [GNil];
     SExpr (GCall "t.rootLock.Unlock" []);
     SIf [] (GBin "!=" (GVar "r") GNil) [SExpr (GCall "t.rootDecRef" [GVar "r"])] []].
Proof. exact DecProto.protocol_functions. Qed.
Print Assumptions c10_protocol_functions_are_source.

From GK Require Import DecPins.
(* a reader holds its version for the whole call (pin released by defer); a mutation releases exactly one more reference,
   after a successful rootCAS; a lost rootCAS only reports *)
Theorem c10_readers_hold_their_pin_is_source :
  forallb pinned_by_defer
    ["Collection.GetItem"; "Collection.GetTotals"; "Collection.VisitItemsAscendEx"; "Collection.VisitItemsDescendEx";
     "Store.walk"; "Collection.MarshalJSON"] = true.
Proof. exact DecPins.readers_hold_their_pin. Qed.
Print Assumptions c10_readers_hold_their_pin_is_source.

Theorem c10_mutations_release_once_is_source :
  (forall f, In f ["Collection.SetItem"; "Collection.Delete"] ->
     In (SDefer (GCall "t.rootDecRef" [GVar "rnl"])) (body f) /\
     count_occ string_dec (calls 400 (body f)) "t.rootDecRef" = 2%nat /\
     List.last (calls 400 (body f)) "" = "t.rootDecRef" /\
     before "t.rootCAS" "errors.New" (skipn 10 (calls 400 (body f))) = true) /\
  List.filter (fun s => match s with SIf _ (GUn "!" (GCall "t.rootCAS" _)) _ _ => true | _ => false end)
         (body "Collection.SetItem" ++ body "Collection.Delete") =
  [SIf [] (GUn "!" (GCall "t.rootCAS" [GVar "rnl"; GVar "rnlNew"]))
     [SReturn [GCall "errors.New" [GLit """concurrent mutation attempted"""]]] [];
   SIf [] (GUn "!" (GCall "t.rootCAS" [GVar "rnl"; GVar "rnlNew"]))
     [SReturn [GVar "false"; GCall "errors.New" [GLit """concurrent mutation attempted"""]]] []].
Proof. exact DecPins.mutations_release_once. Qed.
Print Assumptions c10_mutations_release_once_is_source.

(* the reclaim marks a failed mutation left are cleared wherever they are: unmarkReclaimable walks the whole loaded tree
   (no early stop at an unmarked node), one lock section per node, released before it descends *)
From GK Require Import DecMarks.
Theorem c10_unmark_walks_the_whole_tree_is_source :
  body "Collection.unmarkReclaimable" =
    [SIf [] (GCall "nloc.isEmpty" []) [SReturn []] [];
     SAssign [GVar "n"] ":=" [GCall "nloc.Node" []];
     SIf [] (GBin "==" (GVar "n") GNil) [SReturn []] [];
     SExpr (GCall "t.rootLock.Lock" []);
     SIf [] (GBin "==" (GVar "n.next") (GVar "reclaimMark")) [SAssign [GVar "n.next"] "=" [GNil]] [];
     SExpr (GCall "t.rootLock.Unlock" []);
     SExpr (GCall "t.unmarkReclaimable" [GUn "&" (GVar "n.left"); GVar "reclaimMark"]);
     SExpr (GCall "t.unmarkReclaimable" [GUn "&" (GVar "n.right"); GVar "reclaimMark"])] /\
  body "Collection.markReclaimable" =
    [SExpr (GCall "t.rootLock.Lock" []);
     SDefer (GCall "t.rootLock.Unlock" []);
     SIf [] (GBin "||" (GBin "||" (GBin "==" (GVar "n") GNil) (GBin "!=" (GVar "n.next") GNil))
                       (GBin "==" (GVar "n") (GVar "reclaimMark")))
       [SReturn []] [];
     SAssign [GVar "n.next"] "=" [GVar "reclaimMark"]].
Proof. exact DecMarks.unmark_walks_the_whole_tree. Qed.
Print Assumptions c10_unmark_walks_the_whole_tree_is_source.

(* a handle that replaces an existing one shares its version record and the lock guarding it; every published map of
   collections is a fresh copy (a snapshot never shares the map the store goes on writing to) *)
From GK Require Import DecSetColl.
Theorem c10_set_collection_function_is_source :
  body "Store.SetCollection" =
    [SIf [] (GBin "==" (GVar "compare") GNil) [SAssign [GVar "compare"] "=" [GVar "bytes.Compare"]] [];
     SFor [] None []
       [SAssign [GVar "orig"] ":=" [GCall "s.getColl" []];
        SAssign [GVar "coll"] ":=" [GCall "copyColl" [GUn "*" (GCall "(*map[string]*Collection)" [GVar "orig"])]];
        SAssign [GVar "cnew"] ":=" [GCall "s.MakePrivateCollection" [GVar "compare"]];
        SAssign [GVar "cnew.name"] "=" [GVar "name"];
        SAssign [GVar "cold"] ":=" [GCall "[]" [GVar "coll"; GVar "name"]];
        SIf [] (GBin "!=" (GVar "cold") GNil)
          [SAssign [GVar "cnew.rootLock"] "=" [GVar "cold.rootLock"];
           SAssign [GVar "cnew.root"] "=" [GCall "cold.rootAddRef" []]] [];
        SAssign [GCall "[]" [GVar "coll"; GVar "name"]] "=" [GVar "cnew"];
        SIf [] (GCall "s.casColl" [GVar "orig"; GUn "&" (GVar "coll")])
          [SExpr (GCall "cold.closeCollection" []); SReturn [GVar "cnew"]] [];
        SExpr (GCall "cnew.closeCollection" [])]] /\
  body "copyColl" =
    [SAssign [GVar "res"] ":=" [GCall "make" [GOther "map[string]*Collection"]];
     SRange (GVar "name") (GVar "c") (GVar "orig")
       [SAssign [GCall "[]" [GVar "res"; GVar "name"]] "=" [GVar "c"]];
     SReturn [GVar "res"]].
Proof. exact DecSetColl.set_collection_function. Qed.
Print Assumptions c10_set_collection_function_is_source.
