(* C05 — concurrent readers each see one consistent version beside writer and flusher.
   PARTIAL (see DESIGN.md): the theorems quantify over every interleaving of the ATOMIC protocol
   actions of Proto.v (one action = one critical section or one lock-free phase of the Go code);
   Go-memory-model effects inside a phase are outside the model. *)
From Coq Require Import String.
From stdpp Require Import gmap.
From GK Require Import Proto ProtoProofs Generated CallGraph.

(* a reader that pinned a version (rootAddRef) can rely on it until it unpins: the version stays live,
   its cells are never freed or recycled, its tree is never modified -- so a whole visit reads ONE version *)
Theorem c05_pinned_version_live : forall s, reachable s -> forall v p,
  pins s !! v = Some (S p) -> is_Some (vers s !! v).
Proof. exact ProtoProofs.pinned_live. Qed.
Print Assumptions c05_pinned_version_live.

Theorem c05_reader_cells_safe : forall s, reachable s -> forall v x n,
  vers s !! v = Some x -> n ∈ v_tree x -> exists k, marks s !! n = Some k /\ k <> F.
Proof. exact ProtoProofs.proto_safe. Qed.
Print Assumptions c05_reader_cells_safe.

Theorem c05_version_immutable : forall s s', reachable s -> step s s' -> forall v x x',
  vers s !! v = Some x -> vers s' !! v = Some x' ->
  v_tree x ⊆ v_tree x' /\ (forall n, n ∈ v_tree x' -> n ∉ v_tree x -> marks s' !! n = Some U /\ allocatable s n).
Proof. exact ProtoProofs.tree_stable. Qed.
Print Assumptions c05_version_immutable.

(* no lost update / no protocol panic: with one mutator per lineage the compare-and-swap of a mutation in
   flight always finds the handle still pointing at the version it pinned, that version is not yet superseded
   and its chain is free ("chain already taken" and "concurrent mutation attempted" are unreachable) *)
Theorem c05_cas_enabled : forall s, reachable s -> forall l m, muts s !! l = Some m ->
  exists hd, handles s !! m_handle m = Some hd /\ h_root hd = Some (m_ver m) /\ h_lin hd = l /\ h_ro hd = false.
Proof. exact ProtoProofs.cas_enabled. Qed.
Print Assumptions c05_cas_enabled.

Theorem c05_chain_free_at_cas : forall s, reachable s -> forall l m x hd,
  muts s !! l = Some m -> vers s !! m_ver m = Some x -> handles s !! m_handle m = Some hd ->
  h_root hd = Some (m_ver m) -> v_super x = false /\ v_chain x = None.
Proof. exact ProtoProofs.chain_free_at_cas. Qed.
Print Assumptions c05_chain_free_at_cas.

(* no deadlock on gkvlite's own locks: over the call graph regenerated from the source, no function
   performs file I/O or calls a user-supplied function (visitor, comparator, block mangler) while holding a
   lock, directly or through anything it calls while holding it *)
Theorem c05_no_callout_under_lock : forall f, In f g_funcs ->
  g_io_under f = false /\ g_user_under f = false /\
  forall c w h, In c (g_under f) -> reaches c w -> lookup_fn w = Some h ->
                g_reads h = false /\ g_writes h = false /\ g_user h = false.
Proof. exact CallGraph.no_callout_under_lock. Qed.
Print Assumptions c05_no_callout_under_lock.

(* the locks are always taken in one global order (over the regenerated call graph): B is acquired while A is held,
   directly or below a callee, only if A comes before B in lock_rank -- so the relation is acyclic *)
Theorem c05_lock_order_acyclic : forall a b, In (a, b) g_lock_order ->
  exists i j, index_of a lock_rank = Some i /\ index_of b lock_rank = Some j /\ (i < j)%nat.
Proof. exact CallGraph.lock_order_acyclic. Qed.
Print Assumptions c05_lock_order_acyclic.

(* ---------------------------------------------------------------------------------------------- *)
(* REGENERATED FROM THE SOURCE ON EVERY RUN (tools/gen -> Generated.g_code; DecBase.v, Dec*.v): the decisions the model
   takes at these points are the evaluations of the conditions the Go source has there, for all values of their
   variables. *)
From GK Require Import GExpr Generated DecBase DecProto DecFlush.
From Coq Require Import String.

(* rootCAS chains the new version behind the previous one iff the previous one has more than two references
   (Proto.v: chained := bool_decide (2 < v_refs x)) *)
Theorem c05_chain_rule_is_source :
  exists c, decisions "Collection.rootCAS" "prev.refs" = [c] /\
    forall refs : Z, gtrue (upd (upd env0 "prev" 1%Z) "prev.refs" refs) c = Some (Z.ltb 2 refs).
Proof. exact DecProto.rootcas_chain_decision. Qed.
Print Assumptions c05_chain_rule_is_source.

(* a reader's pin is one increment, its release one decrement that frees only the last reference *)
Theorem c05_decref_is_source :
  forall r : Z,
  exists rest, body "Collection.rootDecRefUnlocked" = SIncDec (GVar "r.refs") false :: SIf [] (GBin ">" (GVar "r.refs") (GInt 0)) [SReturn []] [] :: rest /\
  (Z.lt 1 r -> gexec 10 (upd env0 "r.refs" r) (firstn 2 (body "Collection.rootDecRefUnlocked")) = RRet []) /\
  (r = 1%Z -> exists rho, gexec 10 (upd env0 "r.refs" r) (firstn 2 (body "Collection.rootDecRefUnlocked")) = RFall rho /\ rho "r.refs" = Some 0%Z).
Proof. exact DecProto.decref_decision. Qed.
Print Assumptions c05_decref_is_source.

Theorem c05_addref_is_source :
  exists pre post, body "Collection.rootAddRef" = pre ++ SIncDec (GVar "t.root.refs") true :: post /\
                   Forall (fun s => match s with SIncDec _ _ | SAssign _ _ _ => False | _ => True end) (pre ++ post).
Proof. exact DecProto.addref_is_increment. Qed.
Print Assumptions c05_addref_is_source.

(* Flush pins the collections in NAME order: both of its loops range over the sorted name list *)
Theorem c05_flush_pins_in_name_order_is_source :
  In (SAssign [GVar "cnames"] ":=" [GCall "collNames" [GVar "coll"]]) (body "Store.Flush") /\
  (exists b1 b2, ranges (body "Store.Flush") = [(GVar "cnames", b1); (GVar "cnames", b2)] /\
                 In "c.rootAddRef" (calls 50 b1) /\ In "coll[name].write" (calls 50 b2)) /\
  (exists pre, body "collNames" = pre ++ [SExpr (GCall "sort.Strings" [GVar "res"]); SReturn [GVar "res"]]).
Proof. exact DecFlush.flush_pins_in_name_order. Qed.
Print Assumptions c05_flush_pins_in_name_order_is_source.

(* the version protocol in the source, statement by statement (the atomic actions of Proto.v and the locks they run under) *)
Theorem c05_protocol_functions_are_source :
  body "Collection.rootCAS" =
    [SExpr (GCall "t.rootLock.Lock" []);
     SDefer (GCall "t.rootLock.Unlock" []);
     SIf [] (GBin "!=" (GVar "t.root") (GVar "prev")) [SReturn [GVar "false"]] [];
     SAssign [GVar "t.root"] "=" [GVar "next"];
     SIf [] (GBin "!=" (GVar "prev") GNil) [SAssign [GVar "prev.superseded"] "=" [GVar "true"]] [];
     SIf [] (GBin "&&" (GBin "!=" (GVar "prev") GNil) (GBin ">" (GVar "prev.refs") (GInt 2)))
       [SIf [] (GBin "||" (GBin "!=" (GVar "prev.chainedCollection") GNil) (GBin "!=" (GVar "prev.chainedRootNodeLoc") GNil))
          [SExpr (GCall "panic" [GCall "fmt.Sprintf" [GLit """chain already taken, coll: %v"""; GCall "t.Name" []]])] [];
        SAssign [GVar "prev.chainedCollection"] "=" [GVar "t"];
        SAssign [GVar "prev.chainedRootNodeLoc"] "=" [GVar "t.root"];
        SIncDec (GVar "t.root.refs") true] [];
     SReturn [GVar "true"]] /\
  body "Collection.rootDecRef" =
    [SExpr (GCall "t.rootLock.Lock" []);
     SExpr (GCall "freeNodeLock.Lock" []);
     SExpr (GCall "t.rootDecRefUnlocked" [GVar "r"]);
     SExpr (GCall "freeNodeLock.Unlock" []);
     SExpr (GCall "t.rootLock.Unlock" [])] /\
  body "Collection.closeCollection" =
    [SIf [] (GBin "==" (GVar "t") GNil) [SReturn []] [];
     SExpr (GCall "t.rootLock.Lock" []);
     SAssign [GVar "r"] ":=" [GVar "t.root"];
     SAssign [GVar "t.root"] "=" [GNil];
     SExpr (GCall "t.rootLock.Unlock" []);
     SIf [] (GBin "!=" (GVar "r") GNil) [SExpr (GCall "t.rootDecRef" [GVar "r"])] []].
Proof. exact DecProto.protocol_functions. Qed.
Print Assumptions c05_protocol_functions_are_source.

From GK Require Import DecPins.
(* a reader holds its version for the whole call: the pin is released by defer *)
Theorem c05_readers_hold_their_pin_is_source :
  forallb pinned_by_defer
    ["Collection.GetItem"; "Collection.GetTotals"; "Collection.VisitItemsAscendEx"; "Collection.VisitItemsDescendEx";
     "Store.walk"; "Collection.MarshalJSON"] = true.
Proof. exact DecPins.readers_hold_their_pin. Qed.
Print Assumptions c05_readers_hold_their_pin_is_source.
