(* C09 — the file is append-only and read paths never write (static part: over the call
   graph regenerated from the Go source by tools/gen on every run). *)
From Coq Require Import String.
From GK Require Import Base Treap Store Codec CodecProofs Disk DiskProofs DiskCor Generated CallGraph.

(* no call path from a read-only API entry point reaches a function that calls WriteAt/Truncate *)
Theorem c09_static_read_paths : forall e w f,
  In e read_entries -> reaches e w -> lookup_fn w = Some f -> g_writes f = false.
Proof. exact CallGraph.static_read_paths. Qed.
Print Assumptions c09_static_read_paths.

(* exactly these functions write to or truncate the file *)
Theorem c09_write_sites :
  map g_name (filter g_writes g_funcs) =
  ["Store.FlushRevert"; "Store.ItemValWrite"; "Store.writeRoots"; "itemLoc.write"; "nodeLoc.write"]%string.
Proof. exact CallGraph.write_sites. Qed.
Print Assumptions c09_write_sites.

(* dynamic part, on the byte-level model of Flush: every write lands at or beyond the store size (the end of
   the last durable root record), so no byte below that point is ever modified *)
Theorem c09_flush_appends : forall f size cs f' size' cs',
  Forall (coll_ok f size) cs -> 0 <= size <= blen f -> flush_bytes f size cs = (f', size', cs') ->
  size' < two63 -> roots_len + blen (enc_json (root_map cs')) < two32 -> blen f' = size' ->
  Forall (fun nc => NoDup (node_offs (c_tree (snd nc)))) cs ->
  agree f f' size.
Proof. exact DiskCor.flush_appends. Qed.
Print Assumptions c09_flush_appends.

(* FlushRevert truncates only to the end of a valid root record or to zero length *)
Theorem c09_truncate_only_to_root : forall f size f' e m, revert_bytes f size = (f', e, m) ->
  (e = 0 /\ f' = [] /\ m = []) \/ (root_at f e = Some m /\ f' = firstn (Z.to_nat e) f /\ e <= size).
Proof. exact DiskCor.revert_truncates_to_root. Qed.
Print Assumptions c09_truncate_only_to_root.

(* ---------------------------------------------------------------------------------------------- *)
(* REGENERATED FROM THE SOURCE ON EVERY RUN (DecBase.v, Dec*.v): every record goes to the offset read from Store.size at the
   moment of the write (after the before-write hook has run), and FlushRevert truncates once, after its scan *)
From GK Require Import GExpr Generated DecBase DecWrite DecRevert.
From Coq Require Import List.
Import ListNotations.

Theorem c09_item_write_order_is_source :
  let l := call_list "itemLoc.write" in
  before "c.store.callbacks.BeforeItemWrite" "atomic.LoadInt64" l = true /\
  before "atomic.LoadInt64" "c.store.file.WriteAt" l = true /\
  before "c.store.file.WriteAt" "c.store.ItemValWrite" l = true /\
  before "c.store.ItemValWrite" "atomic.StoreInt64" l = true /\
  before "atomic.StoreInt64" "iloc.setLoc" l = true /\
  before "iItem.NumValBytes" "c.store.file.WriteAt" l = true /\
  before "c.store.callbacks.BeforeItemWrite" "iItem.NumValBytes" l = true.
Proof. exact DecWrite.item_write_order. Qed.
Print Assumptions c09_item_write_order_is_source.

Theorem c09_node_write_order_is_source :
  let l := call_list "nodeLoc.write" in
  before "o.getSize" "o.file.WriteAt" l = true /\
  before "o.file.WriteAt" "o.setSize" l = true /\
  before "o.setSize" "nloc.setLoc" l = true.
Proof. exact DecWrite.node_write_order. Qed.
Print Assumptions c09_node_write_order_is_source.

Theorem c09_revert_order_is_source :
  let l := call_list "Store.FlushRevert" in
  before "s.readRootsScan" "s.file.Truncate" l = true /\
  count_occ string_dec l "s.file.Truncate" = 1%nat /\
  before "atomic.AddInt64" "s.readRootsScan" l = true.
Proof. exact DecRevert.revert_order. Qed.
Print Assumptions c09_revert_order_is_source.

From GK Require Import DecSites.
(* WHERE the source touches the file: one Truncate site (FlushRevert), four WriteAt sites, five ReadAt sites *)
Theorem c09_file_call_sites_are_source :
  sites "Truncate" = ["Store.FlushRevert"] /\
  sites "WriteAt" = ["Store.ItemValWrite"; "Store.writeRoots"; "itemLoc.write"; "nodeLoc.write"] /\
  sites "ReadAt" = ["Store.ItemValRead"; "Store.checkAndReadRoots"; "Store.scanBackwardsForMagicEnd"; "itemLoc.read"; "nodeLoc.read"] /\
  sites "Stat" = ["Store.readRoots"].
Proof. exact DecSites.file_call_sites. Qed.
Print Assumptions c09_file_call_sites_are_source.

Theorem c09_no_direct_size_assignment_is_source :
  filter (fun nb => existsb (ends_with ".size") (assigned 400 (snd nb))) g_code = [].
Proof. exact DecSites.no_direct_size_assignment. Qed.
Print Assumptions c09_no_direct_size_assignment_is_source.
