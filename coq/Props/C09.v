(* C09 — the file is append-only and read paths never write (static part: over the call
   graph regenerated from the Go source by tools/gen on every run). *)
From Coq Require Import String.
From GK Require Import Base Treap Store Codec CodecProofs Disk DiskProofs DiskCor Generated CallGraph.

(* no call path from a read-only API entry point reaches a function that calls WriteAt/Truncate *)
Theorem c09_static_read_paths : forall e w f,
  In e read_entries -> reaches e w -> lookup_fn w = Some f -> g_writes f = false.
Proof. exact CallGraph.static_read_paths. Qed.
Print Assumptions c09_static_read_paths.

(* exactly these functions write to or truncate the file *)
Theorem c09_write_sites :
  map g_name (filter g_writes g_funcs) =
  ["Store.FlushRevert"; "Store.ItemValWrite"; "Store.writeRoots"; "itemLoc.write"; "nodeLoc.write"]%string.
Proof. exact CallGraph.write_sites. Qed.
Print Assumptions c09_write_sites.

(* dynamic part, on the byte-level model of Flush: every write lands at or beyond the store size (the end of
   the last durable root record), so no byte below that point is ever modified *)
Theorem c09_flush_appends : forall f size cs f' size' cs',
  Forall (coll_ok f size) cs -> 0 <= size <= blen f -> flush_bytes f size cs = (f', size', cs') ->
  size' < two63 -> roots_len + blen (enc_json (root_map cs')) < two32 -> blen f' = size' ->
  Forall (fun nc => NoDup (node_offs (c_tree (snd nc)))) cs ->
  agree f f' size.
Proof. exact DiskCor.flush_appends. Qed.
Print Assumptions c09_flush_appends.

(* FlushRevert truncates only to the end of a valid root record or to zero length *)
Theorem c09_truncate_only_to_root : forall f size f' e m, revert_bytes f size = (f', e, m) ->
  (e = 0 /\ f' = [] /\ m = []) \/ (root_at f e = Some m /\ f' = firstn (Z.to_nat e) f /\ e <= size).
Proof. exact DiskCor.revert_truncates_to_root. Qed.
Print Assumptions c09_truncate_only_to_root.
