(* C09 — the file is append-only and read paths never write (static part: over the call
   graph regenerated from the Go source by tools/gen on every run). *)
From Coq Require Import String.
From GK Require Import Base Generated CallGraph.

(* no call path from a read-only API entry point reaches a function that calls WriteAt/Truncate *)
Theorem c09_static_read_paths : forall e w f,
  In e read_entries -> reaches e w -> lookup_fn w = Some f -> g_writes f = false.
Proof. exact CallGraph.static_read_paths. Qed.
Print Assumptions c09_static_read_paths.

(* exactly these functions write to or truncate the file *)
Theorem c09_write_sites :
  map g_name (filter g_writes g_funcs) =
  ["Store.FlushRevert"; "Store.ItemValWrite"; "Store.writeRoots"; "itemLoc.write"; "nodeLoc.write"]%string.
Proof. exact CallGraph.write_sites. Qed.
Print Assumptions c09_write_sites.
