(* C19 — lazy loading: opening is O(1) and key-only operations never read values.
   Lazy.v / LazyMut.v predict the ReadAt calls of NewStore / GetItem / MinItem / MaxItem / visits / SetItem /
   Delete on an uncached store;
   the predictions are compared call by call with the implementation on every run. *)
From GK Require Import Base Order Treap TreapSpec Codec CodecProofs Disk DiskProofs Lazy LazyProofs LazyVisit LazyMut LazyMutProofs.

(* opening a file that ends in a root record reads the 24-byte trailer and the root record, nothing else:
   two reads inside the root record, whatever the file holds below it *)
Theorem c19_open_reads_root_only : forall f m, root_at f (blen f) = Some m ->
  exists t o, read_at f (blen f - roots_end_len) roots_end_len = Some t /\ o = de (sub t 0 8) /\
    open_reads f = [Rd (blen f - 24) 24; Rd o (blen f - o - 24)] /\
    0 <= o /\ o <= blen f - 24 /\ blen f - 24 + 24 <= blen f /\ 0 <= blen f - o - 24 /\
    o + (blen f - o - 24) <= blen f /\ roots_len < blen f - o /\
    de (sub t 8 4) = (blen f - o) mod two32 /\ scan f (blen f) = ScanFound (blen f) m.
Proof. exact LazyProofs.L5_open. Qed.
Print Assumptions c19_open_reads_root_only.

(* a key-only GetItem reads node records, item headers and item keys only ... *)
Theorem c19_get_reads_nodes_and_keys : forall cmp f t l key fuel,
  rep f t -> persisted t -> root_loc t = l -> (height t <= fuel)%nat ->
  Forall (fun r => in_node t r \/ in_keypart t r) (fst (get_reads fuel cmp f l key false)).
Proof. exact LazyProofs.L2_get_false. Qed.
Print Assumptions c19_get_reads_nodes_and_keys.

(* ... hence, the records of a file being pairwise disjoint, never a byte of any item's value *)
Theorem c19_get_never_reads_values : forall cmp f t l key fuel,
  rep f t -> persisted t -> root_loc t = l -> (height t <= fuel)%nat -> records_disjoint t ->
  forall r, In r (fst (get_reads fuel cmp f l key false)) ->
  forall q it, In (q, it) (item_locs t) -> rd_disjoint r (value_range q it).
Proof. exact LazyProofs.L4_get. Qed.
Print Assumptions c19_get_never_reads_values.

Theorem c19_minmax_never_read_values : forall f t l left,
  rep f t -> persisted t -> root_loc t = l -> records_disjoint t ->
  forall r, In r (fst (minmax_reads f l left false)) ->
  forall q it, In (q, it) (item_locs t) -> rd_disjoint r (value_range q it).
Proof. exact LazyProofs.L4_minmax. Qed.
Print Assumptions c19_minmax_never_read_values.

(* the records of the file stay pairwise disjoint under Flush (new records are appended end to end) *)
Theorem c19_flush_keeps_records_disjoint : forall f size t f' size' t',
  below t size -> records_disjoint t -> write_tree f size t = (f', size', t') -> records_disjoint t'.
Proof. exact LazyProofs.L3_write_tree. Qed.
Print Assumptions c19_flush_keeps_records_disjoint.

(* and the lazy lookups return what the sorted map returns *)
Theorem c19_get_result : forall cmp f t l key wv fuel, cmp_laws cmp -> bst cmp t ->
  rep f t -> persisted t -> root_loc t = l -> (height t < fuel)%nat ->
  snd (get_reads fuel cmp f l key wv) = find cmp key (elems t).
Proof. exact LazyProofs.L1_get_find. Qed.
Print Assumptions c19_get_result.

(* whole visits (VisitItemsAscend/Descend, Ex, iterators, Len) with withValue=false on an uncached tree: node
   records, item headers and keys only; never a byte of any value *)
Theorem c19_visit_reads_nodes_and_keys : forall cmp asc f t l target b fuel,
  rep f t -> persisted t -> root_loc t = l -> (height t <= fuel)%nat ->
  Forall (fun r => in_node t r \/ in_keypart t r) (fst (fst (visit_reads fuel cmp asc f l target false b))).
Proof. exact LazyVisit.visit_reads_keyonly. Qed.
Print Assumptions c19_visit_reads_nodes_and_keys.

Theorem c19_visit_never_reads_values : forall cmp asc f t l target b fuel,
  rep f t -> persisted t -> root_loc t = l -> (height t <= fuel)%nat -> records_disjoint t ->
  forall r, In r (fst (fst (visit_reads fuel cmp asc f l target false b))) ->
  forall q it, In (q, it) (item_locs t) -> rd_disjoint r (value_range q it).
Proof. exact LazyVisit.visit_never_reads_values. Qed.
Print Assumptions c19_visit_never_reads_values.

(* ---------------------------------------------------------------------------------------------- *)
(* SetItem and Delete (LazyMut.v: treap.go union / split / join and numInfo instrumented with every nodeLoc.read and
   itemLoc.read(false) they perform; a record is read from the file the first time it is touched only) *)

(* the instrumented functions are the algorithms of C01: same result trees *)
Theorem c19_instrumented_is_same_algorithm : forall cmp fuel a b t s this that,
  option_map fst (union_t cmp fuel a b) = union cmp fuel a b /\
  fst (split_t cmp t s) = Treap.split cmp t s /\
  fst (join_t this that) = join this that.
Proof. intros. split; [apply LazyMutProofs.union_t_fst | split; [apply LazyMutProofs.split_t_fst | apply LazyMutProofs.join_t_fst]]. Qed.
Print Assumptions c19_instrumented_is_same_algorithm.

(* SetItem / Delete read node records, item headers and keys only ... *)
Theorem c19_set_reads_nodes_and_keys : forall cmp t key val prio,
  Forall (fun r => in_node t r \/ in_keypart t r) (set_treads cmp t key val prio).
Proof. exact LazyMutProofs.set_reads_keyonly. Qed.
Print Assumptions c19_set_reads_nodes_and_keys.
Theorem c19_delete_reads_nodes_and_keys : forall cmp t k,
  Forall (fun r => in_node t r \/ in_keypart t r) (del_treads cmp t k).
Proof. exact LazyMutProofs.del_reads_keyonly. Qed.
Print Assumptions c19_delete_reads_nodes_and_keys.

(* ... hence never a byte of any value *)
Theorem c19_set_never_reads_values : forall cmp f t key val prio,
  rep f t -> records_disjoint t ->
  forall r, In r (set_treads cmp t key val prio) ->
  forall q it, In (q, it) (item_locs t) -> rd_disjoint r (value_range q it).
Proof. exact LazyMutProofs.set_never_reads_values. Qed.
Print Assumptions c19_set_never_reads_values.
Theorem c19_delete_never_reads_values : forall cmp f t k,
  rep f t -> records_disjoint t ->
  forall r, In r (del_treads cmp t k) ->
  forall q it, In (q, it) (item_locs t) -> rd_disjoint r (value_range q it).
Proof. exact LazyMutProofs.del_never_reads_values. Qed.
Print Assumptions c19_delete_never_reads_values.

(* what SetItem reads does not depend on the value being written *)
Theorem c19_set_reads_value_irrelevant : forall cmp t key v v' prio,
  set_treads cmp t key (Some v) prio = set_treads cmp t key (Some v') prio.
Proof. exact LazyMutProofs.set_reads_value_irrelevant. Qed.
Print Assumptions c19_set_reads_value_irrelevant.

(* the function the harness evaluates on the implementation's file (the tree as the independent decoder loads it)
   is the one the theorems are about *)
Theorem c19_mutation_reads_from_file : forall cmp f t b set key prio,
  rep f t -> persisted t -> below t b -> (size t <= S (length f))%nat ->
  mut_reads_file cmp f (root_loc t) b set key prio =
  Some (if set then set_treads cmp t key (Some []) prio else del_treads cmp t key).
Proof. exact LazyMutProofs.mut_reads_file_spec. Qed.
Print Assumptions c19_mutation_reads_from_file.

(* every record is read at most once per call *)
Theorem c19_each_record_read_once : forall ts s, NoDup (touch_offs (fresh s ts)).
Proof. exact LazyMutProofs.fresh_nodup. Qed.
Print Assumptions c19_each_record_read_once.

(* WHATEVER IS CACHED OR EVICTED: with any set s of records already in memory, GetItem(key, false), SetItem and Delete
   read node records, item headers and keys only *)
Theorem c19_any_cache_state : forall cmp t key val prio k s,
  Forall (fun r => in_node t r \/ in_keypart t r) (reads_of s (get_t cmp t k)) /\
  Forall (fun r => in_node t r \/ in_keypart t r) (reads_of s (set_touches cmp t key val prio)) /\
  Forall (fun r => in_node t r \/ in_keypart t r) (reads_of s (del_touches cmp t k)).
Proof. exact LazyMutProofs.mut_reads_any_cache. Qed.
Print Assumptions c19_any_cache_state.

(* ---------------------------------------------------------------------------------------------- *)
(* REGENERATED FROM THE SOURCE ON EVERY RUN (tools/gen -> Generated.g_code; DecBase.v, Dec*.v): the decisions the model
   takes at these points are the evaluations of the conditions the Go source has there, for all values of their
   variables. *)
From GK Require Import GExpr Generated DecBase DecItemRead DecVisit.
From Coq Require Import String.

(* itemLoc.read: an item is (re)read from the file iff it is not cached, or cached without its value while the value is
   asked for: the rule behind Lazy.item_reads and LazyMut.reads_of *)
Theorem c19_item_reload_is_source :
  exists c, decisions "itemLoc.read" "icur.Val" = [c] /\
    forall cached hasval wv : bool,
      gtrue (upd (upd (upd env0 "icur" (b2z cached)) "icur.Val" (b2z hasval)) "withValue" (b2z wv)) c =
      Some (negb cached || (negb hasval && wv)).
Proof. exact DecItemRead.item_reload_decision. Qed.
Print Assumptions c19_item_reload_is_source.

(* visitNodes reads the item key-only on the way down and re-reads it with exactly the caller's withValue *)
Theorem c19_visit_item_reads_are_source :
  filter (fun c => String.eqb (fst c) "nItemLoc.read") (calls_a 400 (body "Store.visitNodes")) =
  [("nItemLoc.read", [GVar "t"; GVar "false"]); ("nItemLoc.read", [GVar "t"; GVar "withValue"])].
Proof. exact DecVisit.visit_item_reads. Qed.
Print Assumptions c19_visit_item_reads_are_source.

(* ---------------------------------------------------------------------------------------------- *)
(* WHOLE SEQUENCES OF CALLS (LazySeq.v): what one call loaded stays in memory for the next.  The ReadAt calls of every
   call of a run of lookups and mutations after a re-open are compared with LazySeq.srun_reads on every run. *)
From GK Require Import LazySeq LazySeqProofs.

Theorem c19_sequence_key_only : forall cmp t0 ops m,
  forallb key_only_op ops = true ->
  Forall (Forall (fun r => in_node t0 r \/ in_keypart t0 r)) (srun_reads cmp t0 m ops).
Proof. exact LazySeqProofs.seq_key_only. Qed.
Print Assumptions c19_sequence_key_only.

Theorem c19_sequence_never_reads_values : forall cmp f t0 ops m,
  rep f t0 -> records_disjoint t0 -> forallb key_only_op ops = true ->
  Forall (Forall (fun r => forall q it, In (q, it) (item_locs t0) -> rd_disjoint r (value_range q it))) (srun_reads cmp t0 m ops).
Proof. exact LazySeqProofs.seq_never_reads_values. Qed.
Print Assumptions c19_sequence_never_reads_values.

Theorem c19_lookup_twice_reads_nothing : forall cmp t m k,
  exists r1, srun_reads cmp t m [SGet k false; SGet k false] = [r1; []].
Proof. exact LazySeqProofs.lookup_twice_reads_nothing. Qed.
Print Assumptions c19_lookup_twice_reads_nothing.

Theorem c19_first_call_is_single_call_model : forall cmp t k v prio,
  srun_reads cmp t [] [SSet k v prio] = [set_treads cmp t k (Some v) prio] /\
  srun_reads cmp t [] [SDel k] = [del_treads cmp t k].
Proof. exact LazySeqProofs.first_call_is_lazymut. Qed.
Print Assumptions c19_first_call_is_single_call_model.

Theorem c19_sequence_reads_from_file : forall cmp f t b ops,
  rep f t -> persisted t -> below t b -> (Treap.size t <= S (List.length f))%nat ->
  seq_reads_file cmp f (root_loc t) b ops = Some (srun_reads cmp t [] ops).
Proof. exact LazySeqProofs.seq_reads_file_spec. Qed.
Print Assumptions c19_sequence_reads_from_file.

(* ... with whole visits, Len and GetTotals in the sequence (LazySeq2.v): a visit drops the items it touched when it leaves
   their nodes, so the next call reads them once more *)
From GK Require Import LazySeq2 LazySeq2Proofs.

Theorem c19_sequence_with_visits_key_only : forall cmp t0 ops m,
  forallb key_only_op2 ops = true ->
  Forall (Forall (fun r => in_node t0 r \/ in_keypart t0 r)) (srun_reads2 cmp t0 m ops).
Proof. exact LazySeq2Proofs.seq2_key_only. Qed.
Print Assumptions c19_sequence_with_visits_key_only.

Theorem c19_sequence_with_visits_never_reads_values : forall cmp f t0 ops m,
  rep f t0 -> records_disjoint t0 -> forallb key_only_op2 ops = true ->
  Forall (Forall (fun r => forall q it, In (q, it) (item_locs t0) -> rd_disjoint r (value_range q it))) (srun_reads2 cmp t0 m ops).
Proof. exact LazySeq2Proofs.seq2_never_reads_values. Qed.
Print Assumptions c19_sequence_with_visits_never_reads_values.

Theorem c19_visit_evicts_items : forall cmp t m asc target wv b rs t' m',
  sstep2 cmp t m (SVis asc target wv b) = (rs, t', m') ->
  t' = t /\
  (forall o, In o (item_offs (fst (fst (visit_vt cmp asc t target wv b)))) -> mem_find o m' = None) /\
  (forall o fl, mem_find o m = Some fl -> ~ In o (item_offs (fst (fst (visit_vt cmp asc t target wv b)))) -> mem_find o m' = Some fl).
Proof. exact LazySeq2Proofs.visit_evicts_items. Qed.
Print Assumptions c19_visit_evicts_items.

Theorem c19_first_visit_is_single_visit_model : forall cmp f asc t target wv b,
  rep f t -> persisted t -> records_disjoint t ->
  hd [] (srun_reads2 cmp t [] [SVis asc target wv b]) = fst (fst (visit_treads cmp asc t target wv b)).
Proof. exact LazySeq2Proofs.first_visit_is_lazyvisit_rep. Qed.
Print Assumptions c19_first_visit_is_single_visit_model.

Theorem c19_sequence_with_visits_from_file : forall cmp f t b ops,
  rep f t -> persisted t -> below t b -> (Treap.size t <= S (List.length f))%nat ->
  seq2_reads_file cmp f (root_loc t) b ops = Some (srun_reads2 cmp t [] ops).
Proof. exact LazySeq2Proofs.seq2_reads_file_spec. Qed.
Print Assumptions c19_sequence_with_visits_from_file.

(* ... and with Store.Flush INSIDE the run (LazySeq3.v): the memory after a Flush.  The state carries the file as the model
   writes it and the trees of all collections; Flush reads nothing, what it wrote stays in memory at the offsets
   Disk.write_tree assigned, and a later visit drops the flushed items like any other persisted item *)
From GK Require Import Store DStoreRefine LazySeq3 LazySeq3Proofs.

(* the Flush of the run model is the Flush of the byte-level store model of C02 *)
Theorem c19_run_flush_is_dstore_flush : forall f size (cs : colls),
  flush_trees f size (tmap cs) =
  let '(f', s', cs') := flush_bytes f size cs in (f', s', tmap cs').
Proof. exact LazySeq3Proofs.flush_trees_is_flush_bytes. Qed.
Print Assumptions c19_run_flush_is_dstore_flush.

Theorem c19_flush_reads_nothing : forall cmp name s, fst (sstep3 cmp name s SFlush) = [].
Proof. exact LazySeq3Proofs.flush_step_reads_nothing. Qed.
Print Assumptions c19_flush_reads_nothing.

Theorem c19_flush_keeps_memory : forall cmp name s o,
  mem_find o (ss_mem s) <> None -> mem_find o (ss_mem (snd (sstep3 cmp name s SFlush))) <> None.
Proof. exact LazySeq3Proofs.flush_keeps_memory. Qed.
Print Assumptions c19_flush_keeps_memory.

(* a Flush is invisible to the ReadAt calls of the lookup that follows it: everything it wrote is in memory *)
Theorem c19_lookup_after_flush_reads_the_same : forall cmp name s o,
  (forall t, cs_get name (ss_colls s) = Some t -> rep (ss_file s) t /\ below t (ss_size s)) ->
  lookup_op o = true ->
  fst (sstep3 cmp name (snd (sstep3 cmp name s SFlush)) (S2 (S1 o))) = fst (sstep3 cmp name s (S2 (S1 o))).
Proof. exact LazySeq3Proofs.lookup_after_flush_same_reads_gen. Qed.
Print Assumptions c19_lookup_after_flush_reads_the_same.

(* the invariant of a run with flushes: every tree is represented in the current file below the write position *)
Theorem c19_run_with_flushes_invariant : forall cmp name s o,
  inv3 s -> set_okb o = true -> totals_ok3 s o -> ss_size (snd (sstep3 cmp name s o)) < two63 ->
  inv3 (snd (sstep3 cmp name s o)).
Proof. exact LazySeq3Proofs.sstep3_inv. Qed.
Print Assumptions c19_run_with_flushes_invariant.

Theorem c19_run_with_flushes_keeps_records_disjoint : forall cmp name s o,
  inv3 s -> disj3 s -> disj3 (snd (sstep3 cmp name s o)).
Proof. exact LazySeq3Proofs.sstep3_disjoint. Qed.
Print Assumptions c19_run_with_flushes_keeps_records_disjoint.

(* over a whole run with flushes, no key-only call reads a byte of the value of any item persisted in the tree it runs
   on -- the items the run itself flushed included *)
Theorem c19_run_with_flushes_never_reads_values : forall cmp name ops s,
  inv3 s -> disj3 s -> forallb key_only_op3 ops = true -> forallb set_okb ops = true -> run_ok3 cmp name s ops ->
  Forall2 never_value (srun3 cmp name s ops) (srun3_trees cmp name s ops).
Proof. exact LazySeq3Proofs.seq3_never_reads_values. Qed.
Print Assumptions c19_run_with_flushes_never_reads_values.

(* the hypotheses are satisfiable: a file written by the model's Flush and re-opened *)
Theorem c19_run_with_flushes_example : exists s, seq3_start ex3_file = Some s /\ inv3 s /\ disj3 s.
Proof. exact LazySeq3Proofs.seq3_example_inv. Qed.
Print Assumptions c19_run_with_flushes_example.

(* a Flush is invisible to the ReadAt calls of a whole LIST of lookups and GetTotals that follows it, and to one whole visit
   right after it; it is NOT invisible to the call after such a visit (the visit evicted the flushed items, the next call
   reads them back): the statement cannot be extended to sequences containing visits *)
From GK Require Import LazySeq3More.
Theorem c19_lookups_after_flush_read_the_same : forall cmp name s ops,
  (forall t, cs_get name (ss_colls s) = Some t -> rep (ss_file s) t /\ below t (ss_size s)) ->
  forallb lookup_op2 ops = true ->
  srun3 cmp name (snd (sstep3 cmp name s SFlush)) (map S2 ops) = srun3 cmp name s (map S2 ops).
Proof. exact LazySeq3More.lookups_after_flush_same_reads. Qed.
Print Assumptions c19_lookups_after_flush_read_the_same.

Theorem c19_visit_after_flush_reads_the_same : forall cmp name s asc target wv b,
  (forall t, cs_get name (ss_colls s) = Some t -> rep (ss_file s) t /\ below t (ss_size s)) ->
  fst (sstep3 cmp name (snd (sstep3 cmp name s SFlush)) (S2 (SVis asc target wv b))) =
  fst (sstep3 cmp name s (S2 (SVis asc target wv b))).
Proof. exact LazySeq3More.visit_after_flush_same_reads. Qed.
Print Assumptions c19_visit_after_flush_reads_the_same.

Theorem c19_call_after_visit_after_flush_differs :
  exists cmp name s asc target wv b k wv',
    (forall t, cs_get name (ss_colls s) = Some t -> rep (ss_file s) t /\ below t (ss_size s)) /\
    srun3 cmp name (snd (sstep3 cmp name s SFlush)) [S2 (SVis asc target wv b); S2 (S1 (SGet k wv'))] <>
    srun3 cmp name s [S2 (SVis asc target wv b); S2 (S1 (SGet k wv'))].
Proof. exact LazySeq3More.visit_after_flush_then_lookup_rereads. Qed.
Print Assumptions c19_call_after_visit_after_flush_differs.
