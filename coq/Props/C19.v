(* C19 — lazy loading: opening is O(1) and key-only operations never read values.
   Lazy.v predicts the ReadAt calls of NewStore / GetItem / MinItem / MaxItem on an uncached store;
   the predictions are compared call by call with the implementation on every run. *)
From GK Require Import Base Order Treap TreapSpec Codec CodecProofs Disk DiskProofs Lazy LazyProofs LazyVisit.

(* opening a file that ends in a root record reads the 24-byte trailer and the root record, nothing else:
   two reads inside the root record, whatever the file holds below it *)
Theorem c19_open_reads_root_only : forall f m, root_at f (blen f) = Some m ->
  exists t o, read_at f (blen f - roots_end_len) roots_end_len = Some t /\ o = de (sub t 0 8) /\
    open_reads f = [Rd (blen f - 24) 24; Rd o (blen f - o - 24)] /\
    0 <= o /\ o <= blen f - 24 /\ blen f - 24 + 24 <= blen f /\ 0 <= blen f - o - 24 /\
    o + (blen f - o - 24) <= blen f /\ roots_len < blen f - o /\
    de (sub t 8 4) = (blen f - o) mod two32 /\ scan f (blen f) = ScanFound (blen f) m.
Proof. exact LazyProofs.L5_open. Qed.
Print Assumptions c19_open_reads_root_only.

(* a key-only GetItem reads node records, item headers and item keys only ... *)
Theorem c19_get_reads_nodes_and_keys : forall cmp f t l key fuel,
  rep f t -> persisted t -> root_loc t = l -> (height t <= fuel)%nat ->
  Forall (fun r => in_node t r \/ in_keypart t r) (fst (get_reads fuel cmp f l key false)).
Proof. exact LazyProofs.L2_get_false. Qed.
Print Assumptions c19_get_reads_nodes_and_keys.

(* ... hence, the records of a file being pairwise disjoint, never a byte of any item's value *)
Theorem c19_get_never_reads_values : forall cmp f t l key fuel,
  rep f t -> persisted t -> root_loc t = l -> (height t <= fuel)%nat -> records_disjoint t ->
  forall r, In r (fst (get_reads fuel cmp f l key false)) ->
  forall q it, In (q, it) (item_locs t) -> rd_disjoint r (value_range q it).
Proof. exact LazyProofs.L4_get. Qed.
Print Assumptions c19_get_never_reads_values.

Theorem c19_minmax_never_read_values : forall f t l left,
  rep f t -> persisted t -> root_loc t = l -> records_disjoint t ->
  forall r, In r (fst (minmax_reads f l left false)) ->
  forall q it, In (q, it) (item_locs t) -> rd_disjoint r (value_range q it).
Proof. exact LazyProofs.L4_minmax. Qed.
Print Assumptions c19_minmax_never_read_values.

(* the records of the file stay pairwise disjoint under Flush (new records are appended end to end) *)
Theorem c19_flush_keeps_records_disjoint : forall f size t f' size' t',
  below t size -> records_disjoint t -> write_tree f size t = (f', size', t') -> records_disjoint t'.
Proof. exact LazyProofs.L3_write_tree. Qed.
Print Assumptions c19_flush_keeps_records_disjoint.

(* and the lazy lookups return what the sorted map returns *)
Theorem c19_get_result : forall cmp f t l key wv fuel, cmp_laws cmp -> bst cmp t ->
  rep f t -> persisted t -> root_loc t = l -> (height t < fuel)%nat ->
  snd (get_reads fuel cmp f l key wv) = find cmp key (elems t).
Proof. exact LazyProofs.L1_get_find. Qed.
Print Assumptions c19_get_result.

(* whole visits (VisitItemsAscend/Descend, Ex, iterators, Len) with withValue=false on an uncached tree: node
   records, item headers and keys only; never a byte of any value *)
Theorem c19_visit_reads_nodes_and_keys : forall cmp asc f t l target b fuel,
  rep f t -> persisted t -> root_loc t = l -> (height t <= fuel)%nat ->
  Forall (fun r => in_node t r \/ in_keypart t r) (fst (fst (visit_reads fuel cmp asc f l target false b))).
Proof. exact LazyVisit.visit_reads_keyonly. Qed.
Print Assumptions c19_visit_reads_nodes_and_keys.

Theorem c19_visit_never_reads_values : forall cmp asc f t l target b fuel,
  rep f t -> persisted t -> root_loc t = l -> (height t <= fuel)%nat -> records_disjoint t ->
  forall r, In r (fst (fst (visit_reads fuel cmp asc f l target false b))) ->
  forall q it, In (q, it) (item_locs t) -> rd_disjoint r (value_range q it).
Proof. exact LazyVisit.visit_never_reads_values. Qed.
Print Assumptions c19_visit_never_reads_values.
