(* C11 — CopyTo produces an equivalent, compact, durable copy and leaves the source alone.
   CopyTo visits each source collection in ascending key order (C06) and SetItem's every item,
   with its own priority, into an empty destination collection: copy_tree. *)
From GK Require Import Base Order Treap TreapSpec Store Codec CodecProofs Disk DiskProofs CopyTo.

(* same keys, values and priorities, a search tree with exact aggregates and heap order, same totals,
   same lookups -- for every source tree and comparator *)
Theorem c11_equivalent : forall cmp, cmp_laws cmp -> forall src, bst cmp src ->
  let dst := copy_tree cmp src in
  elems dst = elems src /\ bst cmp dst /\ aggs dst /\ heap dst /\
  totals dst = (Z.of_nat (length (elems src)), sum_bytes (elems src)) /\
  (forall k, lookup cmp dst k = lookup cmp src k).
Proof. exact CopyTo.copy_equivalent. Qed.
Print Assumptions c11_equivalent.

(* with distinct priorities even the shape is the same *)
Theorem c11_same_shape : forall cmp, cmp_laws cmp -> forall src, bst cmp src -> heap src ->
  NoDup (map iprio (elems src)) -> shape_of (copy_tree cmp src) = shape_of src.
Proof. exact CopyTo.copy_shape. Qed.
Print Assumptions c11_same_shape.

(* through SetItem's validation: every stored item is valid, so no SetItem of the copy is refused *)
Theorem c11_via_set_item : forall cmp src, Forall item_valid (elems src) ->
  copy_tree_set cmp src = Some (copy_tree cmp src).
Proof. exact CopyTo.copy_via_set_item. Qed.
Print Assumptions c11_via_set_item.

(* durable: flushing the destination and decoding its file gives the destination's contents (C02) *)
Theorem c11_durable : forall f size cs f' size' cs',
  Forall (coll_ok f size) cs -> 0 <= size <= blen f -> flush_bytes f size cs = (f', size', cs') ->
  size' < two63 -> roots_len + blen (enc_json (root_map cs')) < two32 -> blen f' = size' ->
  Forall (fun nc => NoDup (node_offs (c_tree (snd nc)))) cs ->
  decode_store f' = OpOk size' (tmap cs') /\
  contents (tmap cs') = map (fun nc => (fst nc, elems (c_tree (snd nc)))) cs /\
  agree f f' size /\ Forall (coll_ok f' size') cs' /\
  Forall (fun nc => NoDup (node_offs (c_tree (snd nc)))) cs'.
Proof. exact DiskProofs.flush_decodes_nodup. Qed.
Print Assumptions c11_durable.

(* ---------------------------------------------------------------------------------------------- *)
(* REGENERATED FROM THE SOURCE ON EVERY RUN (tools/gen -> Generated.g_code; DecBase.v, Dec*.v): the decisions the model
   takes at these points are the evaluations of the conditions the Go source has there, for all values of their
   variables. *)
From GK Require Import GExpr Generated DecBase DecCopyTo.
From Coq Require Import String.

(* CopyTo flushes after every flushEvery-th item, and never when flushEvery <= 0 *)
Theorem c11_flush_schedule_is_source :
  exists c, decisions "<lit:Store.CopyTo#1>" "flushEvery" = [c] /\
    forall fe n : Z, Z.le 0 n ->
      gtrue (upd (upd env0 "flushEvery" fe) "numItems" n) c = Some (Z.gtb fe 0 && Z.eqb (Z.modulo n fe) 0).
Proof. exact DecCopyTo.copyto_flush_schedule. Qed.
Print Assumptions c11_flush_schedule_is_source.

Theorem c11_copyto_structure_is_source :
  In (GBin ">" (GVar "flushEvery") (GInt 0)) (conds 400 (body "Store.CopyTo")) /\
  before "dstStore.SetCollection" "srcColl.VisitItemsAscendEx" (call_list "Store.CopyTo") = true /\
  before "srcColl.VisitItemsAscendEx" "dstStore.Flush" (call_list "Store.CopyTo") = true /\
  In (SAssign [GVar "dstColl"] ":=" [GCall "dstStore.SetCollection" [GVar "name"; GVar "srcColl.compare"]])
     (match nth_error (body "Store.CopyTo") 4 with Some (SRange _ _ _ b) => b | _ => [] end).
Proof. exact DecCopyTo.copyto_structure. Qed.
Print Assumptions c11_copyto_structure_is_source.

(* ---------------------------------------------------------------------------------------------- *)
(* ON BYTES (CopyRun.v): CopyTo as the history of calls it makes on the destination store -- SetCollection per source
   collection in name order, SetItem in ascending key order, a Flush after every flushEvery-th item and a closing Flush.
   The destination file this predicts is compared byte for byte with the implementation's on every copy. *)
From GK Require Import Store StoreSpec StoreRefine Codec Disk DStore DStoreRefine CopyRun CopyRunProofs.
From Coq Require Import ZArith.

Theorem c11_copy_calls_all_succeed : forall src fe, src_ok src ->
  Forall (fun o => o = ROk) (run (init true) (copy_ops src fe)).
Proof. exact CopyRunProofs.copy_all_ok. Qed.
Print Assumptions c11_copy_calls_all_succeed.

Theorem c11_copy_contents : forall src fe, src_ok src ->
  let s := fold_left (fun s o => fst (step s o)) (copy_ops src fe) (init true) in
  map (fun nc => (fst nc, c_cmp (snd nc), elems (c_tree (snd nc)))) (s_cur s) = src.
Proof. exact CopyRunProofs.copy_contents. Qed.
Print Assumptions c11_copy_contents.

Theorem c11_copy_flushed : forall src fe, src_ok src -> (0 < fe)%Z ->
  let s := fold_left (fun s o => fst (step s o)) (copy_ops src fe) (init true) in
  exists st rest, s_flushed s = st :: rest /\ ecolls st = ecolls (s_cur s).
Proof. exact CopyRunProofs.copy_flushed. Qed.
Print Assumptions c11_copy_flushed.

Theorem c11_copy_bytes_agree : forall src fe,
  ops_ok [] (copy_ops src fe) -> history_ok (copy_ops src fe) ->
  fst (copy_result src fe) = run (init true) (copy_ops src fe).
Proof. exact CopyRunProofs.copy_bytes_agree. Qed.
Print Assumptions c11_copy_bytes_agree.

Theorem c11_copy_ops_ok : forall src fe, src_ok src -> ops_ok [] (copy_ops src fe).
Proof. exact CopyRunProofs.copy_ops_ok. Qed.
Print Assumptions c11_copy_ops_ok.
