(* C06 — range visits deliver exactly the requested key range, in order. *)
From GK Require Import Base Order Treap TreapSpec Store StoreSpec StoreRefine.

(* ascending: exactly the first b+1 items (b = number of times the visitor answered true)
   of those with key >= target, in ascending order, each with its true depth *)
Theorem c06_ascend : forall cmp, cmp_laws cmp -> forall t, bst cmp t -> forall target d b,
  fst (fst (visit cmp true t target d b)) =
  firstn (S b) (filter (fun x => match cmp target (ikey (fst x)) with Gt => false | _ => true end) (depths t d)).
Proof. exact TreapSpec.visit_asc_spec. Qed.
Print Assumptions c06_ascend.

(* descending: exactly those with key < target, in descending order *)
Theorem c06_descend : forall cmp, cmp_laws cmp -> forall t, bst cmp t -> forall target d b,
  fst (fst (visit cmp false t target d b)) =
  firstn (S b) (filter (fun x => match cmp target (ikey (fst x)) with Gt => true | _ => false end) (rev (depths t d))).
Proof. exact TreapSpec.visit_desc_spec. Qed.
Print Assumptions c06_descend.

(* the items of (depths t d), in order, are the sorted items of the collection; the second
   components are the depths of the nodes holding them *)
Theorem c06_depths_are_items : forall t d, map fst (depths t d) = elems t.
Proof. exact TreapSpec.depths_elems. Qed.
Print Assumptions c06_depths_are_items.

(* at the level of whole histories (all visit variants are the same model call): the delivered
   (key, value, priority) sequences are those of the sorted-list specification *)
Theorem c06_history : forall file ops, ops_ok [] ops ->
  map erase (run (init file) ops) = map erase (srun (sinit file) ops).
Proof. exact StoreRefine.c01_refines_sorted_map. Qed.
Print Assumptions c06_history.

(* ---------------------------------------------------------------------------------------------- *)
(* REGENERATED FROM THE SOURCE ON EVERY RUN (tools/gen -> Generated.g_code; DecBase.v, Dec*.v): the decisions the model
   takes at these points are the evaluations of the conditions the Go source has there, for all values of their
   variables. *)
From GK Require Import GExpr Generated DecBase DecVisit.
From Coq Require Import String.

(* ascendChoice / descendChoice are the choices of Treap.visit *)
Theorem c06_ascend_choice_is_source :
  exists c, choice_of "ascendChoice" = Some c /\
    forall o : comparison, gtrue (upd env0 "cmp" (cmpz o)) c = Some (match o with Gt => false | _ => true end).
Proof. exact DecVisit.ascend_choice_decision. Qed.
Print Assumptions c06_ascend_choice_is_source.
Theorem c06_descend_choice_is_source :
  exists c, choice_of "descendChoice" = Some c /\
    forall o : comparison, gtrue (upd env0 "cmp" (cmpz o)) c = Some (match o with Gt => true | _ => false end).
Proof. exact DecVisit.descend_choice_decision. Qed.
Print Assumptions c06_descend_choice_is_source.

(* visitNodes stops as soon as the visitor answers false *)
Theorem c06_visitor_stop_is_source :
  exists c, decisions "Store.visitNodes" "visitor" = [c] /\
    forall answer : bool, gtrue (upd env0 "visitor(nItem,depth)" (b2z answer)) c = Some (negb answer).
Proof. exact DecVisit.visitor_stop_decision. Qed.
Print Assumptions c06_visitor_stop_is_source.

Theorem c06_visit_item_reads_are_source :
  filter (fun c => String.eqb (fst c) "nItemLoc.read") (calls_a 400 (body "Store.visitNodes")) =
  [("nItemLoc.read", [GVar "t"; GVar "false"]); ("nItemLoc.read", [GVar "t"; GVar "withValue"])].
Proof. exact DecVisit.visit_item_reads. Qed.
Print Assumptions c06_visit_item_reads_are_source.

From GK Require Import DecEvict.
(* a visit drops the cached items of the nodes it leaves WHOLE, never modifying an item other versions may share *)
Theorem c06_visit_evicts_whole_items_is_source :
  In "func(evictNode *node) {  if i := evictNode.Evict(); i != nil {   o.ItemDecRef(t, i)  } }" (calls 400 (body "Store.visitNodes")) /\
  (exists c, hd_error (conds 400 (body "Store.visitNodes")) = Some c) /\
  count_occ string_dec (calls 400 (body "Store.visitNodes")) "nNode.Evict" = 0%nat /\
  List.length (List.filter (has_sub "Evict") (calls 400 (body "Store.visitNodes"))) = 1%nat.
Proof. exact DecEvict.visit_evicts_whole_items. Qed.
Print Assumptions c06_visit_evicts_whole_items_is_source.

Theorem c06_node_evict_is_source :
  body "node.Evict" =
    [SIf [] (GUn "!" (GCall "n.item.Loc().isEmpty" []))
       [SAssign [GVar "i"] ":=" [GCall "n.item.Item" []];
        SIf [] (GBin "&&" (GBin "!=" (GVar "i") GNil) (GCall "n.item.casItem" [GVar "i"; GNil]))
          [SReturn [GVar "i"]] []] [];
     SReturn [GNil]].
Proof. exact DecEvict.node_evict_is_whole. Qed.
Print Assumptions c06_node_evict_is_source.
