(* C04 — snapshots are isolated, read-only and harmless to the original.
   A snapshot is a handle holding a reference on a version (Proto.s_snapshot). *)
From stdpp Require Import gmap.
From GK Require Import Base Treap Store StoreSpec StoreRefine Proto ProtoProofs.

(* while a snapshot handle is open its version is live ... *)
Theorem c04_snapshot_version_live : forall s, reachable s -> forall h hd v,
  handles s !! h = Some hd -> h_root hd = Some v -> is_Some (vers s !! v).
Proof. exact ProtoProofs.handle_live. Qed.
Print Assumptions c04_snapshot_version_live.

(* ... none of its cells is ever freed or recycled, whatever is done to the original or to other snapshots ... *)
Theorem c04_snapshot_cells_safe : forall s, reachable s -> forall v x n,
  vers s !! v = Some x -> n ∈ v_tree x -> exists k, marks s !! n = Some k /\ k <> F.
Proof. exact ProtoProofs.proto_safe. Qed.
Print Assumptions c04_snapshot_cells_safe.

(* ... and its tree is never changed by any step of anybody (it only gains lazily loaded cells) *)
Theorem c04_snapshot_tree_stable : forall s s', reachable s -> step s s' -> forall v x x',
  vers s !! v = Some x -> vers s' !! v = Some x' ->
  v_tree x ⊆ v_tree x' /\ (forall n, n ∈ v_tree x' -> n ∉ v_tree x -> marks s' !! n = Some U /\ allocatable s n).
Proof. exact ProtoProofs.tree_stable. Qed.
Print Assumptions c04_snapshot_tree_stable.

(* the contents seen through one handle depend only on that handle's own collection: operations on
   other names / handles leave it unchanged (store level, over the sorted-map specification) *)
Theorem c04_others_untouched : forall s o n n' s' r, op_name o = Some n -> cmp_bytes n' n <> Eq ->
  sstep s o = (s', r) -> cget (ss_cur s') n' = cget (ss_cur s) n'.
Proof. exact StoreRefine.c12_others_untouched. Qed.
Print Assumptions c04_others_untouched.
