(* C04 — snapshots are isolated, read-only and harmless to the original.
   A snapshot is a handle holding a reference on a version (Proto.s_snapshot). *)
From stdpp Require Import gmap.
From GK Require Import Base Treap Store StoreSpec StoreRefine MStore Proto ProtoProofs.

(* while a snapshot handle is open its version is live ... *)
Theorem c04_snapshot_version_live : forall s, reachable s -> forall h hd v,
  handles s !! h = Some hd -> h_root hd = Some v -> is_Some (vers s !! v).
Proof. exact ProtoProofs.handle_live. Qed.
Print Assumptions c04_snapshot_version_live.

(* ... none of its cells is ever freed or recycled, whatever is done to the original or to other snapshots ... *)
Theorem c04_snapshot_cells_safe : forall s, reachable s -> forall v x n,
  vers s !! v = Some x -> n ∈ v_tree x -> exists k, marks s !! n = Some k /\ k <> F.
Proof. exact ProtoProofs.proto_safe. Qed.
Print Assumptions c04_snapshot_cells_safe.

(* ... and its tree is never changed by any step of anybody (it only gains lazily loaded cells) *)
Theorem c04_snapshot_tree_stable : forall s s', reachable s -> step s s' -> forall v x x',
  vers s !! v = Some x -> vers s' !! v = Some x' ->
  v_tree x ⊆ v_tree x' /\ (forall n, n ∈ v_tree x' -> n ∉ v_tree x -> marks s' !! n = Some U /\ allocatable s n).
Proof. exact ProtoProofs.tree_stable. Qed.
Print Assumptions c04_snapshot_tree_stable.

(* the contents seen through one handle depend only on that handle's own collection: operations on
   other names / handles leave it unchanged (store level, over the sorted-map specification) *)
Theorem c04_others_untouched : forall s o n n' s' r, op_name o = Some n -> cmp_bytes n' n <> Eq ->
  sstep s o = (s', r) -> cget (ss_cur s') n' = cget (ss_cur s) n'.
Proof. exact StoreRefine.c12_others_untouched. Qed.
Print Assumptions c04_others_untouched.

(* store level, over whole histories on several handles (MStore.mrun is compared with the implementation):
   a snapshot that no operation of the history goes through is exactly as it was -- whatever is done to the original
   (mutations, flushes, evictions, collection removal or replacement, Close) or to other snapshots *)
Theorem c04_snapshot_isolated : forall ops s k, (k < length s)%nat ->
  (forall m, In m ops -> mop_handle m <> k) -> nth_error (mexec s ops) k = nth_error s k.
Proof. exact MStore.snapshot_isolated. Qed.
Print Assumptions c04_snapshot_isolated.

(* a snapshot starts with the current collections of its source, unflushed changes included, and is read-only *)
Theorem c04_snapshot_sees_current : forall s h hs s' r, nth_error s h = Some hs -> MStore.h_closed hs = false ->
  mstep s (MSnap h) = (s', r) ->
  exists sn, nth_error s' (length s) = Some sn /\ s_cur (MStore.h_store sn) = s_cur (MStore.h_store hs) /\ MStore.h_ro sn = true.
Proof. exact MStore.snapshot_sees_current. Qed.
Print Assumptions c04_snapshot_sees_current.

(* snapshots refuse Set, Delete and Flush, unchanged by the refusal *)
Theorem c04_snapshot_refuses : forall s h hs o s' r, nth_error s h = Some hs -> MStore.h_closed hs = false ->
  MStore.h_ro hs = true -> refused o = true -> mstep s (MOp h o) = (s', r) ->
  s' = s /\ (r = MOut RErr \/ r = MOut RNoColl).
Proof. exact MStore.snapshot_refuses. Qed.
Print Assumptions c04_snapshot_refuses.

(* nothing done through one handle changes any other handle *)
Theorem c04_step_isolated : forall s m s' r k, mstep s m = (s', r) -> k <> mop_handle m ->
  (k < length s)%nat -> nth_error s' k = nth_error s k.
Proof. exact MStore.mstep_isolated. Qed.
Print Assumptions c04_step_isolated.

(* ---------------------------------------------------------------------------------------------- *)
(* REGENERATED FROM THE SOURCE ON EVERY RUN (tools/gen -> Generated.g_code; DecBase.v, Dec*.v): the decisions the model
   takes at these points are the evaluations of the conditions the Go source has there, for all values of their
   variables. *)
From GK Require Import GExpr Generated DecBase DecSnapshot.
From Coq Require Import String.

(* mutations and Flush are refused on a read-only store (MStore.snapshot_refuses) *)
Theorem c04_readonly_refuses_is_source :
  hd_error (conds 400 (body "Collection.SetItem")) = Some (GVar "t.store.readOnly") /\
  hd_error (conds 400 (body "Collection.Delete")) = Some (GVar "t.store.readOnly") /\
  hd_error (conds 400 (body "Store.Flush")) = Some (GVar "s.readOnly") /\
  nth_error (conds 400 (body "Store.Flush")) 1 = Some (GBin "==" (GVar "s.file") GNil) /\
  (forall f, In f ["Collection.SetItem"; "Collection.Delete"; "Store.Flush"] ->
     match body f with SIf [] _ (SReturn _ :: _) [] :: _ => True | _ => False end).
Proof. exact DecSnapshot.readonly_refuses. Qed.
Print Assumptions c04_readonly_refuses_is_source.

(* ---------------------------------------------------------------------------------------------- *)
(* ON BYTES (DSnapshot.v): why a snapshot stays readable.  It holds the trees the original had at that moment and loads
   their records lazily from the shared file; the original only ever appends.  Along any history meeting C02's side
   conditions, what was current after step i is still represented by the file as it is after any later step j, record
   for record, as long as no FlushRevert lies in between -- and FlushRevert is exactly what breaks it (which is why
   FlushRevert on the original is not among the operations a snapshot survives). *)
From GK Require Import Codec Disk DiskProofs DStore DStoreRefine DSnapshot.
From Coq Require Import ZArith.

Theorem c04_original_only_appends :
  forall ds s ends o ds' r,
  R ds s ends -> op_okb ds o = true -> ops_ok (s_cmpreg s) [o] -> is_revert o = false ->
  dstep ds o = (ds', r) ->
  agree (d_file ds) (d_file ds') (d_size ds) /\ (d_size ds <= d_size ds')%Z.
Proof. exact DSnapshot.step_appends. Qed.
Print Assumptions c04_original_only_appends.

Theorem c04_snapshot_stays_readable :
  forall ops i j si sj,
  ops_ok [] ops -> history_ok ops ->
  (i <= j)%nat ->
  nth_error (dstates dinit ops) i = Some si -> nth_error (dstates dinit ops) j = Some sj ->
  forallb (fun o => negb (is_revert o)) (firstn (j - i) (skipn (S i) ops)) = true ->
  readable (d_file si) si /\ readable (d_file sj) si.
Proof. exact DSnapshot.snapshot_stays_readable. Qed.
Print Assumptions c04_snapshot_stays_readable.

Theorem c04_snapshot_loads_same :
  forall ops i j si sj nc,
  ops_ok [] ops -> history_ok ops -> (i <= j)%nat ->
  nth_error (dstates dinit ops) i = Some si -> nth_error (dstates dinit ops) j = Some sj ->
  forallb (fun o => negb (is_revert o)) (firstn (j - i) (skipn (S i) ops)) = true ->
  In nc (d_cur si) -> persisted (c_tree (snd nc)) ->
  (Treap.size (c_tree (snd nc)) <= S (List.length (d_file sj)))%nat ->
  load (S (List.length (d_file sj))) (d_file sj) (root_loc (c_tree (snd nc))) (d_size si) (S (List.length (d_file sj)))
  = Some (c_tree (snd nc), (S (List.length (d_file sj)) - Treap.size (c_tree (snd nc)))%nat).
Proof. exact DSnapshot.snapshot_loads_same. Qed.
Print Assumptions c04_snapshot_loads_same.

Theorem c04_revert_breaks_snapshots_refuted :
  exists ops i j si sj,
  ops_ok [] ops /\ history_ok ops /\ (i <= j)%nat /\
  nth_error (dstates dinit ops) i = Some si /\ nth_error (dstates dinit ops) j = Some sj /\
  ~ readable (d_file sj) si.
Proof. exact DSnapshot.revert_breaks_snapshots. Qed.
Print Assumptions c04_revert_breaks_snapshots_refuted.

(* Snapshot in the source: read-only, the same callbacks, file and lock objects, one more reference per collection *)
Theorem c04_snapshot_function_is_source :
  body "Store.Snapshot" =
    [SAssign [GVar "coll"] ":=" [GCall "copyColl" [GUn "*" (GCall "s.getColl" [])]];
     SAssign [GVar "res"] ":="
       [GUn "&" (GOther "Store{  coll:  &coll,  file:  s.file,  size:  atomic.LoadInt64(&s.size),  readOnly: true,  callbacks: s.callbacks, }")];
     SRange (GVar "_") (GVar "name") (GCall "collNames" [GVar "coll"])
       [SAssign [GVar "collOrig"] ":=" [GCall "[]" [GVar "coll"; GVar "name"]];
        SAssign [GCall "[]" [GVar "coll"; GVar "name"]] "="
          [GUn "&" (GOther "Collection{  store:  res,  compare: collOrig.compare,  rootLock: collOrig.rootLock,  root:  collOrig.rootAddRef(), }")]];
     SReturn [GVar "res"]].
Proof. exact DecSnapshot.snapshot_function. Qed.
Print Assumptions c04_snapshot_function_is_source.

From GK Require Import DecEvict.
(* items are shared between the versions a snapshot and the original hold: eviction forgets an item, it never edits it *)
Theorem c04_visit_evicts_whole_items_is_source :
  In "func(evictNode *node) {  if i := evictNode.Evict(); i != nil {   o.ItemDecRef(t, i)  } }" (calls 400 (body "Store.visitNodes")) /\
  (exists c, hd_error (conds 400 (body "Store.visitNodes")) = Some c) /\
  count_occ string_dec (calls 400 (body "Store.visitNodes")) "nNode.Evict" = 0%nat /\
  List.length (List.filter (has_sub "Evict") (calls 400 (body "Store.visitNodes"))) = 1%nat.
Proof. exact DecEvict.visit_evicts_whole_items. Qed.
Print Assumptions c04_visit_evicts_whole_items_is_source.

(* a handle that replaces an existing one shares its version record and the lock guarding it; every published map of
   collections is a fresh copy (a snapshot never shares the map the store goes on writing to) *)
From GK Require Import DecSetColl.
Theorem c04_set_collection_function_is_source :
  body "Store.SetCollection" =
    [SIf [] (GBin "==" (GVar "compare") GNil) [SAssign [GVar "compare"] "=" [GVar "bytes.Compare"]] [];
     SFor [] None []
       [SAssign [GVar "orig"] ":=" [GCall "s.getColl" []];
        SAssign [GVar "coll"] ":=" [GCall "copyColl" [GUn "*" (GCall "(*map[string]*Collection)" [GVar "orig"])]];
        SAssign [GVar "cnew"] ":=" [GCall "s.MakePrivateCollection" [GVar "compare"]];
        SAssign [GVar "cnew.name"] "=" [GVar "name"];
        SAssign [GVar "cold"] ":=" [GCall "[]" [GVar "coll"; GVar "name"]];
        SIf [] (GBin "!=" (GVar "cold") GNil)
          [SAssign [GVar "cnew.rootLock"] "=" [GVar "cold.rootLock"];
           SAssign [GVar "cnew.root"] "=" [GCall "cold.rootAddRef" []]] [];
        SAssign [GCall "[]" [GVar "coll"; GVar "name"]] "=" [GVar "cnew"];
        SIf [] (GCall "s.casColl" [GVar "orig"; GUn "&" (GVar "coll")])
          [SExpr (GCall "cold.closeCollection" []); SReturn [GVar "cnew"]] [];
        SExpr (GCall "cnew.closeCollection" [])]] /\
  body "copyColl" =
    [SAssign [GVar "res"] ":=" [GCall "make" [GOther "map[string]*Collection"]];
     SRange (GVar "name") (GVar "c") (GVar "orig")
       [SAssign [GCall "[]" [GVar "res"; GVar "name"]] "=" [GVar "c"]];
     SReturn [GVar "res"]].
Proof. exact DecSetColl.set_collection_function. Qed.
Print Assumptions c04_set_collection_function_is_source.
