(* C04 — snapshots are isolated, read-only and harmless to the original.
   A snapshot is a handle holding a reference on a version (Proto.s_snapshot). *)
From stdpp Require Import gmap.
From GK Require Import Base Treap Store StoreSpec StoreRefine MStore Proto ProtoProofs.

(* while a snapshot handle is open its version is live ... *)
Theorem c04_snapshot_version_live : forall s, reachable s -> forall h hd v,
  handles s !! h = Some hd -> h_root hd = Some v -> is_Some (vers s !! v).
Proof. exact ProtoProofs.handle_live. Qed.
Print Assumptions c04_snapshot_version_live.

(* ... none of its cells is ever freed or recycled, whatever is done to the original or to other snapshots ... *)
Theorem c04_snapshot_cells_safe : forall s, reachable s -> forall v x n,
  vers s !! v = Some x -> n ∈ v_tree x -> exists k, marks s !! n = Some k /\ k <> F.
Proof. exact ProtoProofs.proto_safe. Qed.
Print Assumptions c04_snapshot_cells_safe.

(* ... and its tree is never changed by any step of anybody (it only gains lazily loaded cells) *)
Theorem c04_snapshot_tree_stable : forall s s', reachable s -> step s s' -> forall v x x',
  vers s !! v = Some x -> vers s' !! v = Some x' ->
  v_tree x ⊆ v_tree x' /\ (forall n, n ∈ v_tree x' -> n ∉ v_tree x -> marks s' !! n = Some U /\ allocatable s n).
Proof. exact ProtoProofs.tree_stable. Qed.
Print Assumptions c04_snapshot_tree_stable.

(* the contents seen through one handle depend only on that handle's own collection: operations on
   other names / handles leave it unchanged (store level, over the sorted-map specification) *)
Theorem c04_others_untouched : forall s o n n' s' r, op_name o = Some n -> cmp_bytes n' n <> Eq ->
  sstep s o = (s', r) -> cget (ss_cur s') n' = cget (ss_cur s) n'.
Proof. exact StoreRefine.c12_others_untouched. Qed.
Print Assumptions c04_others_untouched.

(* store level, over whole histories on several handles (MStore.mrun is compared with the implementation):
   a snapshot that no operation of the history goes through is exactly as it was -- whatever is done to the original
   (mutations, flushes, evictions, collection removal or replacement, Close) or to other snapshots *)
Theorem c04_snapshot_isolated : forall ops s k, (k < length s)%nat ->
  (forall m, In m ops -> mop_handle m <> k) -> nth_error (mexec s ops) k = nth_error s k.
Proof. exact MStore.snapshot_isolated. Qed.
Print Assumptions c04_snapshot_isolated.

(* a snapshot starts with the current collections of its source, unflushed changes included, and is read-only *)
Theorem c04_snapshot_sees_current : forall s h hs s' r, nth_error s h = Some hs -> MStore.h_closed hs = false ->
  mstep s (MSnap h) = (s', r) ->
  exists sn, nth_error s' (length s) = Some sn /\ s_cur (MStore.h_store sn) = s_cur (MStore.h_store hs) /\ MStore.h_ro sn = true.
Proof. exact MStore.snapshot_sees_current. Qed.
Print Assumptions c04_snapshot_sees_current.

(* snapshots refuse Set, Delete and Flush, unchanged by the refusal *)
Theorem c04_snapshot_refuses : forall s h hs o s' r, nth_error s h = Some hs -> MStore.h_closed hs = false ->
  MStore.h_ro hs = true -> refused o = true -> mstep s (MOp h o) = (s', r) ->
  s' = s /\ (r = MOut RErr \/ r = MOut RNoColl).
Proof. exact MStore.snapshot_refuses. Qed.
Print Assumptions c04_snapshot_refuses.

(* nothing done through one handle changes any other handle *)
Theorem c04_step_isolated : forall s m s' r k, mstep s m = (s', r) -> k <> mop_handle m ->
  (k < length s)%nat -> nth_error s' k = nth_error s k.
Proof. exact MStore.mstep_isolated. Qed.
Print Assumptions c04_step_isolated.

(* ---------------------------------------------------------------------------------------------- *)
(* REGENERATED FROM THE SOURCE ON EVERY RUN (tools/gen -> Generated.g_code; Decisions.v): the decisions the model
   takes at these points are the evaluations of the conditions the Go source has there, for all values of their
   variables. *)
From GK Require Import GExpr Generated Decisions.
From Coq Require Import String.

(* mutations and Flush are refused on a read-only store (MStore.snapshot_refuses) *)
Theorem c04_readonly_refuses_is_source :
  hd_error (conds 400 (body "Collection.SetItem")) = Some (GVar "t.store.readOnly") /\
  hd_error (conds 400 (body "Collection.Delete")) = Some (GVar "t.store.readOnly") /\
  hd_error (conds 400 (body "Store.Flush")) = Some (GVar "s.readOnly") /\
  nth_error (conds 400 (body "Store.Flush")) 1 = Some (GBin "==" (GVar "s.file") GNil) /\
  (forall f, In f ["Collection.SetItem"; "Collection.Delete"; "Store.Flush"] ->
     match body f with SIf [] _ (SReturn _ :: _) [] :: _ => True | _ => False end).
Proof. exact Decisions.readonly_refuses. Qed.
Print Assumptions c04_readonly_refuses_is_source.
