(* C12 — creating, replacing and removing collections never loses or leaks items.
   Laws of the specification StoreSpec.sstep, which Store.run refines (C01). *)
From GK Require Import Base Order Treap TreapSpec Store StoreSpec StoreRefine.

Theorem c12_new_empty : forall s n id s' r, cget (ss_cur s) n = None ->
  sstep s (OColl n id) = (s', r) -> cget (ss_cur s') n = Some (mkSColl id []).
Proof. exact StoreRefine.c12_new_empty. Qed.
Print Assumptions c12_new_empty.

Theorem c12_existing_keeps_items : forall s n id c s' r, cget (ss_cur s) n = Some c ->
  sstep s (OColl n id) = (s', r) -> cget (ss_cur s') n = Some (mkSColl id (sc_items c)).
Proof. exact StoreRefine.c12_existing_keeps_items. Qed.
Print Assumptions c12_existing_keeps_items.

Theorem c12_remove_then_create_empty : forall s n id s1 r1 s2 r2, swf s ->
  sstep s (ORmColl n) = (s1, r1) -> sstep s1 (OColl n id) = (s2, r2) ->
  cget (ss_cur s2) n = Some (mkSColl id []).
Proof. exact StoreRefine.c12_remove_then_create_empty. Qed.
Print Assumptions c12_remove_then_create_empty.

Theorem c12_names_sorted : forall s o s' r, swf s -> sstep s o = (s', r) -> swf s'.
Proof. exact StoreRefine.c12_names_sorted. Qed.
Print Assumptions c12_names_sorted.

Theorem c12_names_strict : forall s s' l, swf s -> sstep s ONames = (s', RNames l) ->
  keys_sorted l /\ NoDup l /\ forall n, In n l <-> cget (ss_cur s) n <> None.
Proof. exact StoreRefine.c12_names_strict. Qed.
Print Assumptions c12_names_strict.

Theorem c12_others_untouched : forall s o n n' s' r, op_name o = Some n -> cmp_bytes n' n <> Eq ->
  sstep s o = (s', r) -> cget (ss_cur s') n' = cget (ss_cur s) n'.
Proof. exact StoreRefine.c12_others_untouched. Qed.
Print Assumptions c12_others_untouched.

Theorem c12_durable_only_at_flush : forall s o s' r, sstep s o = (s', r) ->
  o <> OFlush -> o <> ORevert -> ss_flushed s' = ss_flushed s.
Proof. exact StoreRefine.c12_durable_only_at_flush. Qed.
Print Assumptions c12_durable_only_at_flush.

Theorem c12_reopen_shows_last_flush : forall s s' r, ss_file s = true -> sstep s OReopen = (s', r) ->
  map fst (ss_cur s') = map fst (hd [] (ss_flushed s)) /\
  forall n, option_map sc_items (cget (ss_cur s') n) = option_map sc_items (cget (hd [] (ss_flushed s)) n).
Proof. exact StoreRefine.c12_reopen_shows_last_flush. Qed.
Print Assumptions c12_reopen_shows_last_flush.

(* and the treap store refines that specification over whole histories *)
Theorem c12_history : forall file ops, ops_ok [] ops ->
  map erase (run (init file) ops) = map erase (srun (sinit file) ops).
Proof. exact StoreRefine.c01_refines_sorted_map. Qed.
Print Assumptions c12_history.

(* ---------------------------------------------------------------------------------------------- *)
(* REGENERATED FROM THE SOURCE ON EVERY RUN (tools/gen -> Generated.g_code; DecBase.v, Dec*.v): the decisions the model
   takes at these points are the evaluations of the conditions the Go source has there, for all values of their
   variables. *)
From GK Require Import GExpr Generated DecBase DecCompare.
From Coq Require Import String.

(* SetCollection: a nil comparator means bytes.Compare *)
Theorem c12_nil_compare_is_default_is_source :
  match body "Store.SetCollection" with
  | SIf [] (GBin "==" (GVar "compare") GNil) [SAssign [GVar "compare"] "=" [GVar "bytes.Compare"]] [] :: _ => True
  | _ => False
  end.
Proof. exact DecCompare.nil_compare_is_default. Qed.
Print Assumptions c12_nil_compare_is_default_is_source.

(* a handle that replaces an existing one shares its version record and the lock guarding it; every published map of
   collections is a fresh copy (a snapshot never shares the map the store goes on writing to) *)
From GK Require Import DecSetColl.
Theorem c12_set_collection_function_is_source :
  body "Store.SetCollection" =
    [SIf [] (GBin "==" (GVar "compare") GNil) [SAssign [GVar "compare"] "=" [GVar "bytes.Compare"]] [];
     SFor [] None []
       [SAssign [GVar "orig"] ":=" [GCall "s.getColl" []];
        SAssign [GVar "coll"] ":=" [GCall "copyColl" [GUn "*" (GCall "(*map[string]*Collection)" [GVar "orig"])]];
        SAssign [GVar "cnew"] ":=" [GCall "s.MakePrivateCollection" [GVar "compare"]];
        SAssign [GVar "cnew.name"] "=" [GVar "name"];
        SAssign [GVar "cold"] ":=" [GCall "[]" [GVar "coll"; GVar "name"]];
        SIf [] (GBin "!=" (GVar "cold") GNil)
          [SAssign [GVar "cnew.rootLock"] "=" [GVar "cold.rootLock"];
           SAssign [GVar "cnew.root"] "=" [GCall "cold.rootAddRef" []]] [];
        SAssign [GCall "[]" [GVar "coll"; GVar "name"]] "=" [GVar "cnew"];
        SIf [] (GCall "s.casColl" [GVar "orig"; GUn "&" (GVar "coll")])
          [SExpr (GCall "cold.closeCollection" []); SReturn [GVar "cnew"]] [];
        SExpr (GCall "cnew.closeCollection" [])]] /\
  body "copyColl" =
    [SAssign [GVar "res"] ":=" [GCall "make" [GOther "map[string]*Collection"]];
     SRange (GVar "name") (GVar "c") (GVar "orig")
       [SAssign [GCall "[]" [GVar "res"; GVar "name"]] "=" [GVar "c"]];
     SReturn [GVar "res"]].
Proof. exact DecSetColl.set_collection_function. Qed.
Print Assumptions c12_set_collection_function_is_source.
