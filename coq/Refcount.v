(* Refcount.v — property C15: item reference counting is balanced and never
   premature.  A bookkeeping model of the reference counts that gkvlite
   reports through its ItemAlloc / ItemAddRef / ItemDecRef callbacks.
   std++ style (gmap); independent of the other files. *)
From stdpp Require Import gmap.

Local Open Scope Z_scope.

Definition item := positive.
Definition node := positive.

Record state := mkState {
  cnt : item → Z;           (* the application's counter: +1 AddRef, -1 DecRef, 1 at ItemAlloc *)
  owner : gmap node item;   (* which item each live tree node's itemLoc currently caches *)
  out : item → nat          (* references handed to the caller and not yet returned *)
}.

(* point-wise update of a total function *)
Definition upd {A} (f : item → A) (i : item) (v : A) : item → A :=
  λ j, if decide (j = i) then v else f j.
Definition add (c : item → Z) (i : item) (d : Z) : item → Z := upd c i (c i + d).

Definition init : state := mkState (λ _, 0) ∅ (λ _, 0%nat).

(* one event per place where the Go code touches an item reference *)
Inductive event :=
| EvSet (n : node) (i : item)      (* SetItem: AddRef for the new single node *)
| EvMkNode (n m : node)            (* mkNode copying node m's itemLoc into fresh node n *)
| EvFreeNode (n : node)            (* freeNode *)
| EvLoad (n : node) (i : item)     (* itemLoc.read on an uncached item: ItemAlloc *)
| EvReload (n : node) (i' : item)  (* itemLoc.read(withValue) replacing a key-only item *)
| EvEvict (n : node)               (* Evict: EvictSomeItems and the eviction inside visits *)
| EvHandOut (n : node)             (* GetItem / MinItem / MaxItem returning node n's item *)
| EvGiveBack (i : item).           (* the caller releases: ItemDecRef *)

(* a freshly allocated item: count 0, not handed out, owned by no node *)
Definition fresh (s : state) (i : item) : Prop :=
  cnt s i = 0 ∧ out s i = 0%nat ∧ map_Forall (λ _ j, j ≠ i) (owner s).

Global Instance fresh_dec s i : Decision (fresh s i).
Proof. unfold fresh. apply _. Defined.

(* drop node n's reference, if it has one (freeNode and Evict) *)
Definition release (s : state) (n : node) : state :=
  match owner s !! n with
  | Some i => mkState (add (cnt s) i (-1)) (delete n (owner s)) (out s)
  | None => s
  end.

Definition step (s : state) (e : event) : option state :=
  match e with
  | EvSet n i =>
    match owner s !! n with
    | None => Some (mkState (add (cnt s) i 1) (<[n:=i]> (owner s)) (out s))
    | Some _ => None
    end
  | EvMkNode n m =>
    match owner s !! n with
    | None =>
      match owner s !! m with
      | Some i => Some (mkState (add (cnt s) i 1) (<[n:=i]> (owner s)) (out s))
      | None => Some s
      end
    | Some _ => None
    end
  | EvFreeNode n => Some (release s n)
  | EvLoad n i =>
    match owner s !! n with
    | None =>
      if decide (fresh s i)
      then Some (mkState (upd (cnt s) i 1) (<[n:=i]> (owner s)) (out s))
      else None
    | Some _ => None
    end
  | EvReload n i' =>
    match owner s !! n with
    | Some i =>
      if decide (fresh s i')
      then Some (mkState (add (upd (cnt s) i' 1) i (-1)) (<[n:=i']> (owner s)) (out s))
      else None
    | None => None
    end
  | EvEvict n => Some (release s n)
  | EvHandOut n =>
    match owner s !! n with
    | Some i => Some (mkState (add (cnt s) i 1) (owner s) (upd (out s) i (S (out s i))))
    | None => None
    end
  | EvGiveBack i =>
    if decide (0 < out s i)%nat
    then Some (mkState (add (cnt s) i (-1)) (owner s) (upd (out s) i (pred (out s i))))
    else None
  end.

Inductive reachable : state → Prop :=
| reach_init : reachable init
| reach_step s e s' : reachable s → step s e = Some s' → reachable s'.

Fixpoint run (s : state) (es : list event) : option state :=
  match es with
  | [] => Some s
  | e :: es' => match step s e with Some s' => run s' es' | None => None end
  end.

(* the number of nodes whose itemLoc caches item i *)
Definition nown (o : gmap node item) (i : item) : nat :=
  size (filter (λ p : node * item, p.2 = i) o).

(* ---------- facts about nown ---------- *)

Lemma nown_empty i : nown ∅ i = 0%nat.
Proof. unfold nown. by rewrite map_filter_empty, map_size_empty. Qed.

Lemma nown_insert_fresh o n j i : o !! n = None →
  nown (<[n:=j]> o) i = ((if decide (j = i) then 1 else 0) + nown o i)%nat.
Proof.
  intros Hn. unfold nown. rewrite map_filter_insert. simpl.
  destruct (decide (j = i)) as [->|Hne].
  - rewrite map_size_insert_None; [done|].
    apply map_filter_lookup_None. by left.
  - by rewrite delete_notin.
Qed.

Lemma nown_delete o n j i : o !! n = Some j →
  nown o i = ((if decide (j = i) then 1 else 0) + nown (delete n o) i)%nat.
Proof.
  intros Hn. rewrite <-(insert_delete o n j Hn) at 1.
  apply nown_insert_fresh. apply lookup_delete.
Qed.

Lemma nown_replace o n j j' i : o !! n = Some j →
  (nown (<[n:=j']> o) i + (if decide (j = i) then 1 else 0) =
   (if decide (j' = i) then 1 else 0) + nown o i)%nat.
Proof.
  intros Hn. rewrite <-insert_delete_insert.
  rewrite nown_insert_fresh by apply lookup_delete.
  rewrite (nown_delete o n j i Hn). lia.
Qed.

Lemma nown_pos o n i : o !! n = Some i → (1 ≤ nown o i)%nat.
Proof. intros Hn. rewrite (nown_delete o n i i Hn). rewrite decide_True by done. lia. Qed.

Lemma nown_zero o i : map_Forall (λ _ j, j ≠ i) o → nown o i = 0%nat.
Proof.
  intros H. unfold nown.
  assert (filter (λ p : node * item, p.2 = i) o = ∅) as ->; [|apply map_size_empty].
  apply map_filter_empty_iff. intros n j Hn. simpl. by apply (H n j).
Qed.

Lemma nown_zero_inv o i : nown o i = 0%nat → map_Forall (λ _ j, j ≠ i) o.
Proof.
  intros H n j Hn ->. pose proof (nown_pos o n i Hn). lia.
Qed.

(* ---------- the invariant ---------- *)

Definition inv (s : state) : Prop :=
  ∀ i, cnt s i = Z.of_nat (nown (owner s) i) + Z.of_nat (out s i).

Lemma inv_init : inv init.
Proof. intros i. simpl. by rewrite nown_empty. Qed.

Lemma inv_release s n : inv s → inv (release s n).
Proof.
  intros H j. unfold release. destruct (owner s !! n) as [i|] eqn:Hn; [|apply H].
  simpl. specialize (H j). rewrite (nown_delete _ _ _ j Hn) in H.
  unfold add, upd. repeat case_decide; subst; try congruence; lia.
Qed.

Lemma inv_step s e s' : inv s → step s e = Some s' → inv s'.
Proof.
  intros H Hs. destruct e as [n i|n m|n|n i|n i'|n|n|i]; simpl in Hs.
  - (* EvSet *)
    destruct (owner s !! n) eqn:Hn; [done|]. injection Hs as <-. intros j. simpl.
    rewrite nown_insert_fresh by done. specialize (H j).
    unfold add, upd. repeat case_decide; subst; try congruence; lia.
  - (* EvMkNode *)
    destruct (owner s !! n) eqn:Hn; [done|].
    destruct (owner s !! m) as [i|] eqn:Hm; injection Hs as <-; [|done].
    intros j. simpl. rewrite nown_insert_fresh by done. specialize (H j).
    unfold add, upd. repeat case_decide; subst; try congruence; lia.
  - (* EvFreeNode *)
    injection Hs as <-. by apply inv_release.
  - (* EvLoad *)
    destruct (owner s !! n) eqn:Hn; [done|].
    destruct (decide (fresh s i)) as [(Hc & Ho & Hf)|]; [|done]. injection Hs as <-.
    intros j. simpl. rewrite nown_insert_fresh by done. specialize (H j).
    unfold upd. repeat case_decide; subst; try congruence; lia.
  - (* EvReload *)
    destruct (owner s !! n) as [i|] eqn:Hn; [|done].
    destruct (decide (fresh s i')) as [(Hc & Ho & Hf)|]; [|done]. injection Hs as <-.
    assert (i ≠ i') as Hne by (by apply (Hf n i)).
    intros j. simpl. pose proof (nown_replace _ _ _ i' j Hn) as Hr. specialize (H j).
    unfold add, upd. repeat case_decide; subst; try congruence; lia.
  - (* EvEvict *)
    injection Hs as <-. by apply inv_release.
  - (* EvHandOut *)
    destruct (owner s !! n) as [i|] eqn:Hn; [|done]. injection Hs as <-.
    intros j. simpl. specialize (H j).
    unfold add, upd. repeat case_decide; subst; try congruence; lia.
  - (* EvGiveBack *)
    destruct (decide (0 < out s i)%nat) as [Hpos|]; [|done]. injection Hs as <-.
    intros j. simpl. specialize (H j).
    unfold add, upd. repeat case_decide; subst; try congruence; lia.
Qed.

(* ---------- C1 .. C4 ---------- *)

(* C1 *)
Theorem count_is_owners s : reachable s →
  ∀ i, cnt s i = Z.of_nat (nown (owner s) i) + Z.of_nat (out s i).
Proof. induction 1; [apply inv_init | by eapply inv_step]. Qed.

(* C2 *)
Theorem never_negative s : reachable s → ∀ i, 0 ≤ cnt s i.
Proof. intros H i. rewrite (count_is_owners s H i). lia. Qed.

(* C3 *)
Theorem reachable_positive s n i : reachable s → owner s !! n = Some i → 1 ≤ cnt s i.
Proof.
  intros H Hn. rewrite (count_is_owners s H i). pose proof (nown_pos _ _ _ Hn). lia.
Qed.

Theorem handed_positive s i : reachable s → (out s i > 0)%nat → 1 ≤ cnt s i.
Proof. intros H Ho. rewrite (count_is_owners s H i). lia. Qed.

(* C4 *)
Theorem all_released s : reachable s → owner s = ∅ → (∀ i, out s i = 0%nat) → ∀ i, cnt s i = 0.
Proof.
  intros H Hown Hout i. rewrite (count_is_owners s H i), Hown, nown_empty, Hout. done.
Qed.

(* ---------- consequences: "never premature" at the level of single events ---------- *)

(* a DecRef (freeNode, Evict, reload of a key-only item, give-back) never takes a
   counter below zero, and a counter only reaches zero when no node caches the
   item and the caller holds no reference to it *)
Theorem zero_means_unreferenced s i : reachable s → cnt s i = 0 →
  out s i = 0%nat ∧ ∀ n, owner s !! n ≠ Some i.
Proof.
  intros H Hc. rewrite (count_is_owners s H i) in Hc. split; [lia|].
  intros n Hn. pose proof (nown_pos _ _ _ Hn). lia.
Qed.

(* in reachable states the extra conjuncts of [fresh] follow from cnt i = 0 *)
Theorem fresh_iff_zero s i : reachable s → fresh s i ↔ cnt s i = 0.
Proof.
  intros H. split; [by intros (? & _)|]. intros Hc.
  destruct (zero_means_unreferenced s i H Hc) as [Ho Hn].
  split_and!; [done..|]. intros n j Hj ->. by apply (Hn n).
Qed.

(* runs and reachability *)
Lemma run_reachable s es s' : reachable s → run s es = Some s' → reachable s'.
Proof.
  revert s. induction es as [|e es IH]; intros s H Hr; simpl in Hr.
  - by injection Hr as <-.
  - destruct (step s e) as [s1|] eqn:Hs; [|done]. eapply IH; [|done]. by eapply reach_step.
Qed.

Lemma run_app s es es' :
  run s (es ++ es') = match run s es with Some s1 => run s1 es' | None => None end.
Proof.
  revert s. induction es as [|e es IH]; intros s; simpl; [done|].
  destruct (step s e); [apply IH|done].
Qed.

Theorem reachable_run s : reachable s ↔ ∃ es, run init es = Some s.
Proof.
  split.
  - induction 1 as [|s e s' _ [es IH] Hs].
    + by exists [].
    + exists (es ++ [e]). rewrite run_app, IH. simpl. by rewrite Hs.
  - intros [es Hr]. eapply run_reachable; [apply reach_init|done].
Qed.

(* ---------- C5: the repaired defect ---------- *)

(* the event set with the in-visit eviction that forgot ItemDecRef *)
Inductive event' :=
| Ev (e : event)
| EvEvictNoRelease (n : node).   (* post: delete owner n, counter untouched *)

Definition step' (s : state) (e : event') : option state :=
  match e with
  | Ev e => step s e
  | EvEvictNoRelease n => Some (mkState (cnt s) (delete n (owner s)) (out s))
  end.

Fixpoint run' (s : state) (es : list event') : option state :=
  match es with
  | [] => Some s
  | e :: es' => match step' s e with Some s' => run' s' es' | None => None end
  end.

Inductive reachable' : state → Prop :=
| reach_init' : reachable' init
| reach_step' s e s' : reachable' s → step' s e = Some s' → reachable' s'.

Lemma fresh_init i : fresh init i.
Proof. split_and!; [done..|]. apply map_Forall_empty. Qed.

Theorem leak_run : ∃ s,
  run' init [Ev (EvLoad 1%positive 1%positive); EvEvictNoRelease 1%positive] = Some s ∧
  owner s = ∅ ∧ (∀ i, out s i = 0%nat) ∧ cnt s 1%positive = 1.
Proof.
  eexists. split.
  - simpl. rewrite lookup_empty. rewrite decide_True by apply fresh_init. simpl. reflexivity.
  - simpl. split_and!; [|done..]. by rewrite delete_insert.
Qed.

Lemma run'_reachable' s es s' : reachable' s → run' s es = Some s' → reachable' s'.
Proof.
  revert s. induction es as [|e es IH]; intros s H Hr; simpl in Hr.
  - by injection Hr as <-.
  - destruct (step' s e) as [s1|] eqn:Hs; [|done]. eapply IH; [|done]. by eapply reach_step'.
Qed.

(* C4 fails for step' *)
Theorem all_released_refuted :
  ¬ (∀ s, reachable' s → owner s = ∅ → (∀ i, out s i = 0%nat) → ∀ i, cnt s i = 0).
Proof.
  intros H. destruct leak_run as (s & Hr & Ho & Hout & Hc).
  assert (reachable' s) as Hs by (eapply run'_reachable'; [apply reach_init'|exact Hr]).
  specialize (H s Hs Ho Hout 1%positive). rewrite H in Hc. done.
Qed.

(* step' extends step: the refutation is due to the added event alone *)
Lemma reachable_reachable' s : reachable s → reachable' s.
Proof.
  induction 1 as [|s e s' _ IH Hs]; [apply reach_init'|].
  by apply (reach_step' s (Ev e) s').
Qed.
