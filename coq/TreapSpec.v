(* TreapSpec.v — the treap model refines a strictly sorted association list.
   All statements are for an arbitrary comparator satisfying cmp_laws and for
   trees of any size (structural induction; no bounds). *)
From GK Require Import Base Treap.

(* ---------- the specification: strictly cmp-sorted lists of items ---------- *)
Section Spec.
Variable cmp : bytes -> bytes -> comparison.

Definition klt (a b : bytes) : Prop := cmp a b = Lt.
Definition all_lt (l : list item) (k : bytes) : Prop := Forall (fun i => klt (ikey i) k) l.
Definition all_gt (l : list item) (k : bytes) : Prop := Forall (fun i => klt k (ikey i)) l.

(* strictly sorted *)
Fixpoint sorted (l : list item) : Prop :=
  match l with
  | [] => True
  | x :: xs => all_gt xs (ikey x) /\ sorted xs
  end.

(* insert-or-replace *)
Fixpoint ins (it : item) (l : list item) : list item :=
  match l with
  | [] => [it]
  | x :: xs =>
    match cmp (ikey it) (ikey x) with
    | Lt => it :: x :: xs
    | Eq => it :: xs
    | Gt => x :: ins it xs
    end
  end.

Fixpoint del (k : bytes) (l : list item) : list item :=
  match l with
  | [] => []
  | x :: xs =>
    match cmp k (ikey x) with
    | Lt => x :: xs
    | Eq => xs
    | Gt => x :: del k xs
    end
  end.

Fixpoint find (k : bytes) (l : list item) : option item :=
  match l with
  | [] => None
  | x :: xs =>
    match cmp k (ikey x) with
    | Lt => None
    | Eq => Some x
    | Gt => find k xs
    end
  end.

Definition sum_bytes (l : list item) : Z := fold_right (fun i a => item_bytes i + a) 0 l.

(* ---------- tree invariants ---------- *)
Fixpoint bst (t : tree) : Prop :=
  match t with
  | E => True
  | T _ l _ it _ _ r => bst l /\ bst r /\ all_lt (elems l) (ikey it) /\ all_gt (elems r) (ikey it)
  end.

(* every node stores the exact item count and byte total of its subtree *)
Fixpoint aggs (t : tree) : Prop :=
  match t with
  | E => True
  | T _ l _ it nn nb r =>
    aggs l /\ aggs r /\ nn = Z.of_nat (size t) /\ nb = sum_bytes (elems t)
  end.

(* no child outranks its parent (non-strict) *)
Definition root_prio_le (t : tree) (p : Z) : Prop :=
  match t with E => True | T _ _ _ it _ _ _ => iprio it <= p end.
Fixpoint heap (t : tree) : Prop :=
  match t with
  | E => True
  | T _ l _ it _ _ r => heap l /\ heap r /\ root_prio_le l (iprio it) /\ root_prio_le r (iprio it)
  end.

(* shape: the tree without locations and aggregates *)
Inductive shape := SE | ST (l : shape) (it : item) (r : shape).
Fixpoint shape_of (t : tree) : shape :=
  match t with E => SE | T _ l _ it _ _ r => ST (shape_of l) it (shape_of r) end.

Definition mid (m : option (option ploc * item)) : list item :=
  match m with Some (_, i) => [i] | None => [] end.

End Spec.

(* ---------- further definitions used by the statements ---------- *)

(* tmax_spec is stated with this one: the last element is the head of the reversal *)
Definition last_error {A : Type} (l : list A) : option A := hd_error (rev l).

Fixpoint depths (t : tree) (d : Z) : list (item * Z) :=
  match t with
  | E => []
  | T _ l _ it _ _ r => depths l (d + 1) ++ (it, d) :: depths r (d + 1)
  end.

(* the combination step of visitNodes at a node whose own item is delivered *)
Definition node_res (res1 : list (item * Z) * nat * bool) (x : item * Z)
    (k2 : nat -> list (item * Z) * nat * bool) : list (item * Z) * nat * bool :=
  let '(d1, b1, k1) := res1 in
  if k1 then
    match b1 with
    | O => (d1 ++ [x], O, false)
    | S b' => let '(d2, b2, k2') := k2 b' in (d1 ++ x :: d2, b2, k2')
    end
  else (d1, b1, false).

(* what a visit with budget b must return when the full delivery list is [full] *)
Definition vres (full : list (item * Z)) (b : nat) (res : list (item * Z) * nat * bool) : Prop :=
  ((length full <= b)%nat -> res = (full, (b - length full)%nat, true)) /\
  ((b < length full)%nat -> fst (fst res) = firstn (S b) full /\ snd res = false).

(* ---------- generic list facts ---------- *)

Lemma NoDup_app_inv {A : Type} (l l' : list A) : NoDup (l ++ l') -> NoDup l /\ NoDup l'.
Proof.
  induction l as [|x l IH]; cbn; intro H.
  - split; [constructor | exact H].
  - inversion H as [|? ? Hn Hd]; subst. destruct (IH Hd) as [H1 H2]. split; auto.
    constructor; auto. intro Hi. apply Hn. apply in_or_app. auto.
Qed.

Lemma NoDup_map_inj_in {A B : Type} (f : A -> B) (l : list A) :
  NoDup (map f l) -> forall x y, In x l -> In y l -> f x = f y -> x = y.
Proof.
  induction l as [|a l IH]; cbn; intros Hnd x y Hx Hy Hf; [contradiction|].
  inversion Hnd as [|? ? Hn Hd]; subst.
  destruct Hx as [Hx|Hx], Hy as [Hy|Hy]; subst; auto.
  - exfalso. apply Hn. rewrite Hf. apply in_map. exact Hy.
  - exfalso. apply Hn. rewrite <- Hf. apply in_map. exact Hx.
Qed.

Lemma app_cons_unique {A : Type} (x : A) : forall l1 l2 r1 r2,
  ~ In x l1 -> ~ In x l2 -> l1 ++ x :: r1 = l2 ++ x :: r2 -> l1 = l2 /\ r1 = r2.
Proof.
  induction l1 as [|a l1 IH]; intros [|b l2] r1 r2 H1 H2 He; cbn in *.
  - injection He as He. auto.
  - injection He as He1 He2. exfalso. apply H2. auto.
  - injection He as He1 He2. exfalso. apply H1. auto.
  - injection He as He1 He2. subst b.
    destruct (IH l2 r1 r2) as [E1 E2]; auto. subst. auto.
Qed.

Lemma hd_error_app {A : Type} (l l' : list A) : l <> [] -> hd_error (l ++ l') = hd_error l.
Proof. destruct l; [congruence | reflexivity]. Qed.

Lemma filter_nil {A : Type} (P : A -> bool) (l : list A) :
  (forall x, In x l -> P x = false) -> filter P l = [].
Proof.
  induction l as [|a l IH]; cbn; intro H; [reflexivity|].
  rewrite (H a) by auto. apply IH. intros. apply H. auto.
Qed.

(* ---------- facts that do not depend on the comparator ---------- *)

Lemma elems_nil : forall t, elems t = [] -> t = E.
Proof.
  destruct t as [|nl l il it nn nb r]; cbn; [reflexivity|].
  intro H. symmetry in H. apply app_cons_not_nil in H. contradiction.
Qed.

Theorem size_elems : forall t, size t = length (elems t).
Proof.
  induction t as [|nl l IHl il it nn nb r IHr]; cbn [size elems length]; [reflexivity|].
  rewrite app_length. cbn [length]. lia.
Qed.

Lemma sum_bytes_app : forall l x r,
  sum_bytes (l ++ x :: r) = sum_bytes l + sum_bytes r + item_bytes x.
Proof.
  unfold sum_bytes. induction l as [|y l IH]; intros x r; cbn [app fold_right].
  - lia.
  - rewrite IH. lia.
Qed.

Lemma aggs_num : forall t, aggs t -> num t = Z.of_nat (size t) /\ nby t = sum_bytes (elems t).
Proof.
  destruct t as [|nl l il it nn nb r].
  - intros _. split; reflexivity.
  - intros (_ & _ & H1 & H2). cbn [num nby]. auto.
Qed.

Lemma aggs_mk : forall l il it r, aggs l -> aggs r -> aggs (mk l il it r).
Proof.
  intros l il it r Hl Hr.
  destruct (aggs_num l Hl) as [Hl1 Hl2]. destruct (aggs_num r Hr) as [Hr1 Hr2].
  unfold mk. cbn [aggs]. repeat split; auto.
  - cbn [size]. rewrite Hl1, Hr1. lia.
  - cbn [elems]. rewrite sum_bytes_app, Hl2, Hr2. reflexivity.
Qed.

Lemma aggs_single : forall it, aggs (single it).
Proof.
  intro it. unfold single. cbn [aggs]. repeat split; auto.
  cbn. lia.
Qed.

Theorem totals_exact : forall t, aggs t ->
  totals t = (Z.of_nat (length (elems t)), sum_bytes (elems t)).
Proof.
  intros t H. destruct (aggs_num t H) as [H1 H2].
  unfold totals. rewrite H1, H2, size_elems. reflexivity.
Qed.

Lemma root_prio_le_mono : forall t p q, root_prio_le t p -> p <= q -> root_prio_le t q.
Proof. destruct t; cbn; intros; [auto | lia]. Qed.

Lemma heap_le_root : forall t, heap t -> forall p, root_prio_le t p ->
  Forall (fun x => iprio x <= p) (elems t).
Proof.
  induction t as [|nl l IHl il it nn nb r IHr]; cbn [heap elems root_prio_le].
  - intros. constructor.
  - intros (Hl & Hr & Hlp & Hrp) p Hp.
    apply Forall_app. split; [|constructor].
    + apply IHl; auto. eapply root_prio_le_mono; eauto.
    + exact Hp.
    + apply IHr; auto. eapply root_prio_le_mono; eauto.
Qed.

(* ---------- tmin / tmax ---------- *)

Theorem tmin_spec : forall t, tmin t = hd_error (elems t).
Proof.
  induction t as [|nl l IHl il it nn nb r IHr]; cbn [tmin elems]; [reflexivity|].
  rewrite IHl. destruct l as [|nl' l1 il' it' nn' nb' l2]; cbn [elems].
  - reflexivity.
  - rewrite <- app_assoc. destruct (elems l1); reflexivity.
Qed.

Theorem tmax_spec : forall t, tmax t = last_error (elems t).
Proof.
  unfold last_error.
  induction t as [|nl l IHl il it nn nb r IHr]; cbn [tmax elems]; [reflexivity|].
  rewrite IHr. rewrite rev_app_distr. cbn [rev]. rewrite <- app_assoc. cbn [app].
  destruct r as [|nl' r1 il' it' nn' nb' r2].
  - reflexivity.
  - apply eq_sym, hd_error_app. cbn [elems]. rewrite rev_app_distr. cbn [rev].
    rewrite <- app_assoc. cbn [app].
    intro H. symmetry in H. apply app_cons_not_nil in H. contradiction.
Qed.

(* ---------- shape uniqueness (no comparator needed beyond the hypotheses) ---------- *)

Lemma treap_unique_gen : forall a b, heap a -> heap b -> elems a = elems b ->
  NoDup (map iprio (elems a)) -> shape_of a = shape_of b.
Proof.
  induction a as [|nl la IHl il ia nn nb ra IHr]; intros b Ha Hb He Hnd.
  - cbn [elems] in He. symmetry in He. apply elems_nil in He. subst. reflexivity.
  - destruct b as [|nl' lb il' ib nn' nb' rb].
    + apply elems_nil in He. discriminate.
    + assert (Hma := heap_le_root _ Ha (iprio ia)).
      assert (Hmb := heap_le_root _ Hb (iprio ib)).
      cbn [root_prio_le] in Hma, Hmb.
      specialize (Hma (Z.le_refl _)). specialize (Hmb (Z.le_refl _)).
      rewrite Forall_forall in Hma, Hmb.
      assert (Hia : In ia (elems (T nl la il ia nn nb ra))) by (cbn [elems]; apply in_elt).
      assert (Hib : In ib (elems (T nl la il ia nn nb ra))) by (rewrite He; cbn [elems]; apply in_elt).
      assert (Heq : ia = ib).
      { apply (NoDup_map_inj_in iprio _ Hnd); auto.
        apply Z.le_antisymm.
        - apply Hmb. rewrite <- He. exact Hia.
        - apply Hma. exact Hib. }
      subst ib.
      cbn [elems] in He, Hnd.
      assert (Hnd' := NoDup_map_inv _ _ Hnd).
      assert (Hn1 : ~ In ia (elems la)).
      { intro Hi. apply (NoDup_remove_2 _ _ _ Hnd'). apply in_or_app. auto. }
      assert (Hn2 : ~ In ia (elems lb)).
      { rewrite He in Hnd'. intro Hi. apply (NoDup_remove_2 _ _ _ Hnd'). apply in_or_app. auto. }
      destruct (app_cons_unique ia _ _ _ _ Hn1 Hn2 He) as [E1 E2].
      rewrite map_app in Hnd. cbn [map] in Hnd.
      destruct (NoDup_app_inv _ _ Hnd) as [Hd1 Hd2].
      inversion Hd2 as [|? ? _ Hd2']; subst.
      cbn [heap] in Ha, Hb.
      destruct Ha as (Hla & Hra & _ & _). destruct Hb as (Hlb & Hrb & _ & _).
      cbn [shape_of]. f_equal; auto.
Qed.

(* ====================================================================== *)
Section Proofs.
Variable cmp : bytes -> bytes -> comparison.
Hypothesis laws : cmp_laws cmp.

(* ---------- comparator consequences ---------- *)

Lemma cmp_gt_lt : forall a b, cmp a b = Gt -> cmp b a = Lt.
Proof. intros a b H. rewrite (cmp_opp _ laws a b), H. reflexivity. Qed.

Lemma cmp_lt_gt : forall a b, cmp a b = Lt -> cmp b a = Gt.
Proof. intros a b H. rewrite (cmp_opp _ laws a b), H. reflexivity. Qed.

Lemma cmp_eq_sym : forall a b, cmp a b = Eq -> cmp b a = Eq.
Proof. intros a b H. rewrite (cmp_opp _ laws a b), H. reflexivity. Qed.

Lemma cmp_eq_r : forall a b c, cmp a b = Eq -> cmp c a = cmp c b.
Proof.
  intros a b c H. rewrite (cmp_opp _ laws a c), (cmp_opp _ laws b c).
  rewrite (cmp_eq_l _ laws a b c H). reflexivity.
Qed.

Lemma cmp_lt_tr : forall a b c, cmp a b = Lt -> cmp b c = Lt -> cmp a c = Lt.
Proof. exact (cmp_lt_trans _ laws). Qed.

Lemma all_lt_trans : forall l k k', all_lt cmp l k -> cmp k k' = Lt -> all_lt cmp l k'.
Proof.
  unfold all_lt, klt. intros l k k' H Hk. eapply Forall_impl; [|exact H].
  cbn. intros a Ha. eapply cmp_lt_tr; eauto.
Qed.

Lemma all_lt_eq : forall l k k', all_lt cmp l k -> cmp k k' = Eq -> all_lt cmp l k'.
Proof.
  unfold all_lt, klt. intros l k k' H Hk. eapply Forall_impl; [|exact H].
  cbn. intros a Ha. rewrite <- (cmp_eq_r k k' _ Hk). exact Ha.
Qed.

Lemma all_gt_trans : forall l k k', all_gt cmp l k -> cmp k' k = Lt -> all_gt cmp l k'.
Proof.
  unfold all_gt, klt. intros l k k' H Hk. eapply Forall_impl; [|exact H].
  cbn. intros a Ha. eapply cmp_lt_tr; eauto.
Qed.

Lemma all_gt_eq : forall l k k', all_gt cmp l k -> cmp k' k = Eq -> all_gt cmp l k'.
Proof.
  unfold all_gt, klt. intros l k k' H Hk. eapply Forall_impl; [|exact H].
  cbn. intros a Ha. rewrite (cmp_eq_l _ laws k' k _ Hk). exact Ha.
Qed.

(* ---------- the list specification is a map (item 12) ---------- *)

Lemma sorted_app : forall l x r,
  sorted cmp (l ++ x :: r) <->
  sorted cmp l /\ sorted cmp r /\ all_lt cmp l (ikey x) /\ all_gt cmp r (ikey x).
Proof.
  induction l as [|y l IH]; intros x r; cbn [app sorted].
  - unfold all_lt. split.
    + intros [H1 H2]. repeat split; auto.
    + intros (_ & H2 & _ & H4). auto.
  - rewrite IH. unfold all_lt, all_gt. rewrite Forall_app, !Forall_cons_iff. split.
    + intros ((H1 & H2 & H3) & H4 & H5 & H6 & H7). repeat split; auto.
    + intros ((H1 & H2) & H3 & (H4 & H5) & H6). repeat split; auto.
      eapply (all_gt_trans r (ikey x) (ikey y)); eauto.
Qed.

Lemma Forall_ins : forall (P : item -> Prop) it l, P it -> Forall P l -> Forall P (ins cmp it l).
Proof.
  intros P it. induction l as [|x l IH]; intros Hp Hl; cbn [ins].
  - auto.
  - inversion Hl as [|? ? Hx Hl']; subst.
    destruct (cmp (ikey it) (ikey x)); auto.
Qed.

Lemma Forall_del : forall (P : item -> Prop) k l, Forall P l -> Forall P (del cmp k l).
Proof.
  intros P k. induction l as [|x l IH]; intros Hl; cbn [del].
  - auto.
  - inversion Hl as [|? ? Hx Hl']; subst.
    destruct (cmp k (ikey x)); auto.
Qed.

Theorem ins_sorted : forall it l, sorted cmp l -> sorted cmp (ins cmp it l).
Proof.
  intros it. induction l as [|x l IH]; intros Hs; cbn [ins].
  - cbn. split; auto. constructor.
  - cbn [sorted] in Hs. destruct Hs as [Hg Hs].
    destruct (cmp (ikey it) (ikey x)) eqn:Hc; cbn [sorted].
    + split; auto. eapply all_gt_eq; eauto.
    + split; [|split; auto]. constructor; [exact Hc|]. eapply all_gt_trans; eauto.
    + split; auto. apply Forall_ins; auto. apply cmp_gt_lt. exact Hc.
Qed.

Theorem del_sorted : forall k l, sorted cmp l -> sorted cmp (del cmp k l).
Proof.
  intros k. induction l as [|x l IH]; intros Hs; cbn [del].
  - exact I.
  - cbn [sorted] in Hs. destruct Hs as [Hg Hs].
    destruct (cmp k (ikey x)) eqn:Hc; cbn [sorted]; auto.
    split; auto. apply Forall_del. exact Hg.
Qed.

Lemma find_all_gt : forall k l, all_gt cmp l k -> find cmp k l = None.
Proof.
  intros k [|x l] H; cbn [find]; [reflexivity|].
  inversion H as [|? ? Hx _]; subst. unfold klt in Hx. rewrite Hx. reflexivity.
Qed.

Theorem find_ins_same : forall it l, sorted cmp l -> find cmp (ikey it) (ins cmp it l) = Some it.
Proof.
  intros it. induction l as [|x l IH]; intros Hs; cbn [ins].
  - cbn [find]. rewrite (cmp_refl _ laws). reflexivity.
  - destruct Hs as [_ Hs].
    destruct (cmp (ikey it) (ikey x)) eqn:Hc; cbn [find].
    + rewrite (cmp_refl _ laws). reflexivity.
    + rewrite (cmp_refl _ laws). reflexivity.
    + rewrite Hc. auto.
Qed.

Theorem find_ins_other : forall k it l, sorted cmp l -> cmp k (ikey it) <> Eq ->
  find cmp k (ins cmp it l) = find cmp k l.
Proof.
  intros k it. induction l as [|x l IH]; intros Hs Hne; cbn [ins].
  - cbn [find]. destruct (cmp k (ikey it)); congruence.
  - destruct Hs as [_ Hs].
    destruct (cmp (ikey it) (ikey x)) eqn:Hc; cbn [find].
    + rewrite <- (cmp_eq_r _ _ k Hc). destruct (cmp k (ikey it)); congruence.
    + destruct (cmp k (ikey it)) eqn:Hk; try congruence.
      rewrite (cmp_lt_tr _ _ _ Hk Hc). reflexivity.
    + destruct (cmp k (ikey x)); auto.
Qed.

Theorem find_del_same : forall k l, sorted cmp l -> find cmp k (del cmp k l) = None.
Proof.
  intros k. induction l as [|x l IH]; intros Hs; cbn [del].
  - reflexivity.
  - destruct Hs as [Hg Hs].
    destruct (cmp k (ikey x)) eqn:Hc.
    + apply find_all_gt. eapply all_gt_eq; eauto.
    + cbn [find]. rewrite Hc. reflexivity.
    + cbn [find]. rewrite Hc. auto.
Qed.

Theorem find_del_other : forall k k' l, sorted cmp l -> cmp k k' <> Eq ->
  find cmp k' (del cmp k l) = find cmp k' l.
Proof.
  intros k k'. induction l as [|x l IH]; intros Hs Hne; cbn [del].
  - reflexivity.
  - destruct Hs as [Hg Hs].
    destruct (cmp k (ikey x)) eqn:Hc.
    + cbn [find]. rewrite <- (cmp_eq_r _ _ k' Hc).
      destruct (cmp k' k) eqn:Hk.
      * exfalso. apply Hne. apply cmp_eq_sym. exact Hk.
      * apply find_all_gt. eapply all_gt_trans; [|exact Hk]. eapply all_gt_eq; eauto.
      * reflexivity.
    + reflexivity.
    + cbn [find]. destruct (cmp k' (ikey x)); auto.
Qed.

(* positional versions used for the tree proofs *)
Lemma ins_app : forall it l r, all_lt cmp l (ikey it) -> ins cmp it (l ++ r) = l ++ ins cmp it r.
Proof.
  intros it. induction l as [|y l IH]; intros r H; cbn [app]; [reflexivity|].
  inversion H as [|? ? Hy Hl]; subst. unfold klt in Hy.
  cbn [ins]. rewrite (cmp_lt_gt _ _ Hy). rewrite IH; auto.
Qed.

Lemma ins_app_lt : forall it l x r, cmp (ikey it) (ikey x) = Lt ->
  ins cmp it (l ++ x :: r) = ins cmp it l ++ x :: r.
Proof.
  intros it. induction l as [|y l IH]; intros x r H; cbn [app ins].
  - rewrite H. reflexivity.
  - destruct (cmp (ikey it) (ikey y)); cbn [app]; auto. rewrite IH; auto.
Qed.

Lemma ins_all_gt : forall it r, all_gt cmp r (ikey it) -> ins cmp it r = it :: r.
Proof.
  intros it [|x r] H; cbn [ins]; [reflexivity|].
  inversion H as [|? ? Hx _]; subst. unfold klt in Hx. rewrite Hx. reflexivity.
Qed.

Lemma find_app : forall k l r, all_lt cmp l k -> find cmp k (l ++ r) = find cmp k r.
Proof.
  intros k. induction l as [|y l IH]; intros r H; cbn [app]; [reflexivity|].
  inversion H as [|? ? Hy Hl]; subst. unfold klt in Hy.
  cbn [find]. rewrite (cmp_lt_gt _ _ Hy). auto.
Qed.

Lemma find_app_lt : forall k l x r, cmp k (ikey x) = Lt ->
  find cmp k (l ++ x :: r) = find cmp k l.
Proof.
  intros k. induction l as [|y l IH]; intros x r H; cbn [app find].
  - rewrite H. reflexivity.
  - destruct (cmp k (ikey y)); auto.
Qed.

Lemma del_app : forall k l r, all_lt cmp l k -> del cmp k (l ++ r) = l ++ del cmp k r.
Proof.
  intros k. induction l as [|y l IH]; intros r H; cbn [app]; [reflexivity|].
  inversion H as [|? ? Hy Hl]; subst. unfold klt in Hy.
  cbn [del]. rewrite (cmp_lt_gt _ _ Hy). rewrite IH; auto.
Qed.

Lemma del_all_gt : forall k r, all_gt cmp r k -> del cmp k r = r.
Proof.
  intros k [|x r] H; cbn [del]; [reflexivity|].
  inversion H as [|? ? Hx _]; subst. unfold klt in Hx. rewrite Hx. reflexivity.
Qed.

Lemma del_find_none : forall k l, find cmp k l = None -> del cmp k l = l.
Proof.
  intros k. induction l as [|x l IH]; cbn [find del]; intro H; [reflexivity|].
  destruct (cmp k (ikey x)); try discriminate; auto. rewrite IH; auto.
Qed.

(* ---------- bst <-> sorted (item 5) ---------- *)

Theorem bst_sorted : forall t, bst cmp t <-> sorted cmp (elems t).
Proof.
  induction t as [|nl l IHl il it nn nb r IHr]; cbn [bst elems].
  - cbn. tauto.
  - rewrite sorted_app, IHl, IHr. tauto.
Qed.

Lemma bst_mk : forall l il it r,
  bst cmp (mk l il it r) <->
  bst cmp l /\ bst cmp r /\ all_lt cmp (elems l) (ikey it) /\ all_gt cmp (elems r) (ikey it).
Proof. intros. unfold mk. cbn [bst]. tauto. Qed.

Lemma elems_mk : forall l il it r, elems (mk l il it r) = elems l ++ it :: elems r.
Proof. reflexivity. Qed.

Lemma heap_mk : forall l il it r,
  heap (mk l il it r) <->
  heap l /\ heap r /\ root_prio_le l (iprio it) /\ root_prio_le r (iprio it).
Proof. intros. unfold mk. cbn [heap]. tauto. Qed.

(* ---------- split as a relation (removes the shortcut matches once) ---------- *)

Inductive splitR (s : bytes) : tree -> tree -> option (option ploc * item) -> tree -> Prop :=
| sp_E : splitR s E E None E
| sp_eq : forall nl l il it nn nb r, cmp s (ikey it) = Eq ->
    splitR s (T nl l il it nn nb r) l (Some (il, it)) r
| sp_lt_E : forall nl il it nn nb r, cmp s (ikey it) = Lt ->
    splitR s (T nl E il it nn nb r) E None (T nl E il it nn nb r)
| sp_lt : forall nl l il it nn nb r ll m lr, cmp s (ikey it) = Lt ->
    splitR s l ll m lr ->
    splitR s (T nl l il it nn nb r) ll m (mk lr il it r)
| sp_gt_E : forall nl l il it nn nb, cmp s (ikey it) = Gt ->
    splitR s (T nl l il it nn nb E) (T nl l il it nn nb E) None E
| sp_gt : forall nl l il it nn nb r rl m rr, cmp s (ikey it) = Gt ->
    splitR s r rl m rr ->
    splitR s (T nl l il it nn nb r) (mk l il it rl) m rr.

Lemma split_R : forall t s l m r, split cmp t s = (l, m, r) -> splitR s t l m r.
Proof.
  induction t as [|nl tl IHl il it nn nb tr IHr]; intros s l m r H.
  - cbn in H. inversion H; subst. constructor.
  - cbn [split] in H. destruct (cmp s (ikey it)) eqn:Hc.
    + inversion H; subst. constructor. exact Hc.
    + destruct (split cmp tl s) as [[ll m'] lr] eqn:Hs.
      destruct tl as [|nl' a il' it' nn' nb' b].
      * inversion H; subst. constructor. exact Hc.
      * inversion H; subst. apply sp_lt; auto.
    + destruct (split cmp tr s) as [[rl m'] rr] eqn:Hs.
      destruct tr as [|nl' a il' it' nn' nb' b].
      * inversion H; subst. constructor. exact Hc.
      * inversion H; subst. apply sp_gt; auto.
Qed.

Lemma splitR_spec : forall s t l m r, splitR s t l m r -> bst cmp t ->
  elems t = elems l ++ mid m ++ elems r /\ bst cmp l /\ bst cmp r /\
  all_lt cmp (elems l) s /\ all_gt cmp (elems r) s /\
  (forall il i, m = Some (il, i) -> cmp s (ikey i) = Eq /\ In i (elems t)).
Proof.
  intros s t l m r HR.
  induction HR as [ | nl l il it nn nb r Hc | nl il it nn nb r Hc
                   | nl l il it nn nb r ll m lr Hc HR IH
                   | nl l il it nn nb Hc
                   | nl l il it nn nb r rl m rr Hc HR IH ]; intro Hb.
  - cbn. repeat split; auto; try constructor; intros; discriminate.
  - cbn [bst] in Hb. destruct Hb as (Hl & Hr & Hlt & Hgt).
    cbn [elems mid app]. repeat split; auto.
    + eapply all_lt_eq; eauto. apply cmp_eq_sym. exact Hc.
    + eapply all_gt_eq; eauto.
    + inversion H; subst. exact Hc.
    + inversion H; subst. apply in_elt.
  - assert (Hb' := Hb). cbn [bst] in Hb'. destruct Hb' as (Hl & Hr & Hlt & Hgt).
    split; [reflexivity|]. split; [exact I|]. split; [exact Hb|].
    split; [constructor|]. split; [|intros; discriminate].
    cbn [elems app]. constructor; [exact Hc|]. eapply all_gt_trans; eauto.
  - cbn [bst] in Hb. destruct Hb as (Hl & Hr & Hlt & Hgt).
    destruct (IH Hl) as (He & Hbl & Hbr & Hal & Hag & Hm).
    rewrite elems_mk, bst_mk. cbn [elems]. rewrite He in *.
    unfold all_lt, all_gt in *. rewrite !Forall_app in Hlt.
    destruct Hlt as (Hlt1 & Hlt2 & Hlt3).
    repeat split; auto.
    + repeat rewrite <- app_assoc. reflexivity.
    + apply Forall_app. split; auto. constructor; [exact Hc|].
      eapply all_gt_trans; eauto.
    + eapply Hm; eauto.
    + apply in_or_app. left. eapply Hm; eauto.
  - assert (Hb' := Hb). cbn [bst] in Hb'. destruct Hb' as (Hl & Hr & Hlt & Hgt).
    split; [|split; [exact Hb|]]; [|split; [exact I|]]; [|split; [|split; [constructor|intros; discriminate]]].
    + cbn [elems mid app]. repeat rewrite app_nil_r. reflexivity.
    + cbn [elems]. unfold all_lt. apply Forall_app. split.
      * eapply all_lt_trans; eauto. apply cmp_gt_lt. exact Hc.
      * constructor; [|constructor]. apply cmp_gt_lt. exact Hc.
  - cbn [bst] in Hb. destruct Hb as (Hl & Hr & Hlt & Hgt).
    destruct (IH Hr) as (He & Hbl & Hbr & Hal & Hag & Hm).
    rewrite elems_mk, bst_mk. cbn [elems]. rewrite He in *.
    unfold all_lt, all_gt in *. rewrite !Forall_app in Hgt.
    destruct Hgt as (Hgt1 & Hgt2 & Hgt3).
    repeat split; auto.
    + repeat rewrite <- app_assoc. reflexivity.
    + apply Forall_app. split.
      * eapply all_lt_trans; eauto. apply cmp_gt_lt. exact Hc.
      * constructor; auto. apply cmp_gt_lt. exact Hc.
    + eapply Hm; eauto.
    + apply in_or_app. right. right. eapply Hm; eauto.
Qed.

Theorem split_spec : forall t s l m r, bst cmp t -> split cmp t s = (l, m, r) ->
  elems t = elems l ++ mid m ++ elems r /\ bst cmp l /\ bst cmp r /\
  all_lt cmp (elems l) s /\ all_gt cmp (elems r) s /\
  (forall il i, m = Some (il, i) -> cmp s (ikey i) = Eq /\ In i (elems t)).
Proof. intros t s l m r Hb Hs. eapply splitR_spec; eauto. apply split_R. exact Hs. Qed.

Theorem split_aggs : forall t s l m r, aggs t -> split cmp t s = (l, m, r) -> aggs l /\ aggs r.
Proof.
  intros t s l m r Ha Hs. apply split_R in Hs.
  induction Hs as [ | nl l il it nn nb r Hc | nl il it nn nb r Hc
                   | nl l il it nn nb r ll m lr Hc HR IH
                   | nl l il it nn nb Hc
                   | nl l il it nn nb r rl m rr Hc HR IH ].
  - auto.
  - cbn [aggs] in Ha. tauto.
  - split; [exact I | exact Ha].
  - cbn [aggs] in Ha. destruct Ha as (Hl & Hr & _). destruct (IH Hl) as [H1 H2].
    split; auto. apply aggs_mk; auto.
  - split; [exact Ha | exact I].
  - cbn [aggs] in Ha. destruct Ha as (Hl & Hr & _). destruct (IH Hr) as [H1 H2].
    split; auto. apply aggs_mk; auto.
Qed.

Theorem split_heap : forall t s l m r, heap t -> split cmp t s = (l, m, r) ->
  heap l /\ heap r /\ (forall p, root_prio_le t p -> root_prio_le l p /\ root_prio_le r p).
Proof.
  intros t s l m r Hh Hs. apply split_R in Hs.
  induction Hs as [ | nl l il it nn nb r Hc | nl il it nn nb r Hc
                   | nl l il it nn nb r ll m lr Hc HR IH
                   | nl l il it nn nb Hc
                   | nl l il it nn nb r rl m rr Hc HR IH ].
  - auto.
  - cbn [heap] in Hh. destruct Hh as (Hl & Hr & Hlp & Hrp). repeat split; auto.
    + eapply root_prio_le_mono; eauto.
    + eapply root_prio_le_mono; eauto.
  - split; [exact I|]. split; [exact Hh|]. intros p Hp. split; [exact I | exact Hp].
  - cbn [heap] in Hh. destruct Hh as (Hl & Hr & Hlp & Hrp).
    destruct (IH Hl) as (H1 & H2 & H3).
    rewrite heap_mk. repeat split; auto.
    + apply (H3 _ Hlp).
    + cbn [root_prio_le] in H. apply H3. eapply root_prio_le_mono; eauto.
  - split; [exact Hh|]. split; [exact I|]. intros p Hp. split; [exact Hp | exact I].
  - cbn [heap] in Hh. destruct Hh as (Hl & Hr & Hlp & Hrp).
    destruct (IH Hr) as (H1 & H2 & H3).
    rewrite heap_mk. repeat split; auto.
    + apply (H3 _ Hrp).
    + cbn [root_prio_le] in H. apply H3. eapply root_prio_le_mono; eauto.
Qed.

(* ---------- join ---------- *)

Lemma join_E_l : forall b, join E b = b.
Proof. destruct b; reflexivity. Qed.

Lemma join_E_r : forall a, join a E = a.
Proof. destruct a; reflexivity. Qed.

Lemma join_eq : forall n1 tl til ti nn1 nb1 tr n2 al ail ai nn2 nb2 ar,
  join (T n1 tl til ti nn1 nb1 tr) (T n2 al ail ai nn2 nb2 ar) =
  if iprio ti >? iprio ai
  then mk tl til ti (join tr (T n2 al ail ai nn2 nb2 ar))
  else mk (join (T n1 tl til ti nn1 nb1 tr) al) ail ai ar.
Proof. reflexivity. Qed.

Inductive joinR : tree -> tree -> tree -> Prop :=
| j_El : forall b, joinR E b b
| j_Er : forall a, joinR a E a
| j_gt : forall n1 tl til ti nn1 nb1 tr n2 al ail ai nn2 nb2 ar j,
    iprio ti > iprio ai ->
    joinR tr (T n2 al ail ai nn2 nb2 ar) j ->
    joinR (T n1 tl til ti nn1 nb1 tr) (T n2 al ail ai nn2 nb2 ar) (mk tl til ti j)
| j_le : forall n1 tl til ti nn1 nb1 tr n2 al ail ai nn2 nb2 ar j,
    iprio ti <= iprio ai ->
    joinR (T n1 tl til ti nn1 nb1 tr) al j ->
    joinR (T n1 tl til ti nn1 nb1 tr) (T n2 al ail ai nn2 nb2 ar) (mk j ail ai ar).

Lemma join_R : forall a b, joinR a b (join a b).
Proof.
  induction a as [|n1 tl IHtl til ti nn1 nb1 tr IHtr]; intro b.
  - rewrite join_E_l. constructor.
  - induction b as [|n2 al IHal ail ai nn2 nb2 ar IHar].
    + rewrite join_E_r. constructor.
    + rewrite join_eq. destruct (iprio ti >? iprio ai) eqn:Hp.
      * apply j_gt; [lia | apply IHtr].
      * apply j_le; [lia | apply IHal].
Qed.

Lemma joinR_elems : forall a b j, joinR a b j -> elems j = elems a ++ elems b.
Proof.
  intros a b j H.
  induction H as [ b | a
    | n1 tl til ti nn1 nb1 tr n2 al ail ai nn2 nb2 ar j Hp HR IH
    | n1 tl til ti nn1 nb1 tr n2 al ail ai nn2 nb2 ar j Hp HR IH ].
  - reflexivity.
  - rewrite app_nil_r. reflexivity.
  - rewrite elems_mk, IH. cbn [elems]. repeat rewrite <- app_assoc. reflexivity.
  - rewrite elems_mk, IH. cbn [elems]. repeat rewrite <- app_assoc. reflexivity.
Qed.

Theorem join_elems : forall a b, elems (join a b) = elems a ++ elems b.
Proof. intros. apply joinR_elems. apply join_R. Qed.

Lemma joinR_bst : forall a b j, joinR a b j -> bst cmp a -> bst cmp b ->
  (forall x y, In x (elems a) -> In y (elems b) -> cmp (ikey x) (ikey y) = Lt) ->
  bst cmp j.
Proof.
  intros a b j H.
  induction H as [ b | a
    | n1 tl til ti nn1 nb1 tr n2 al ail ai nn2 nb2 ar j Hp HR IH
    | n1 tl til ti nn1 nb1 tr n2 al ail ai nn2 nb2 ar j Hp HR IH ];
  intros Ha Hb Hx; auto.
  - assert (Ha' := Ha). cbn [bst] in Ha'. destruct Ha' as (H1 & H2 & H3 & H4).
    rewrite bst_mk. repeat split; auto.
    + apply IH; auto. intros x y Hi Hj. apply Hx; auto.
      cbn [elems]. apply in_or_app. right. right. exact Hi.
    + rewrite (joinR_elems _ _ _ HR). unfold all_gt. apply Forall_app. split; auto.
      apply Forall_forall. intros y Hy. apply (Hx ti y); auto.
      cbn [elems]. apply in_elt.
  - assert (Hb' := Hb). cbn [bst] in Hb'. destruct Hb' as (H1 & H2 & H3 & H4).
    rewrite bst_mk. repeat split; auto.
    + apply IH; auto. intros x y Hi Hj. apply Hx; auto.
      cbn [elems]. apply in_or_app. left. exact Hj.
    + rewrite (joinR_elems _ _ _ HR). unfold all_lt. apply Forall_app. split; auto.
      apply Forall_forall. intros x Hi. apply (Hx x ai); auto.
      cbn [elems]. apply in_elt.
Qed.

Theorem join_bst : forall a b, bst cmp a -> bst cmp b ->
  (forall x y, In x (elems a) -> In y (elems b) -> cmp (ikey x) (ikey y) = Lt) ->
  bst cmp (join a b).
Proof. intros a b. apply joinR_bst. apply join_R. Qed.

Theorem join_aggs : forall a b, aggs a -> aggs b -> aggs (join a b).
Proof.
  intros a b. generalize (join_R a b). generalize (join a b). intros j H.
  induction H as [ b | a
    | n1 tl til ti nn1 nb1 tr n2 al ail ai nn2 nb2 ar j Hp HR IH
    | n1 tl til ti nn1 nb1 tr n2 al ail ai nn2 nb2 ar j Hp HR IH ];
  intros Ha Hb; auto.
  - assert (Ha' := Ha). cbn [aggs] in Ha'. destruct Ha' as (H1 & H2 & _).
    apply aggs_mk; auto.
  - assert (Hb' := Hb). cbn [aggs] in Hb'. destruct Hb' as (H1 & H2 & _).
    apply aggs_mk; auto.
Qed.

(* the root of a join is one of the two roots, so it is bounded by any common bound *)
Lemma joinR_heap : forall a b j, joinR a b j -> heap a -> heap b ->
  heap j /\ (forall p, root_prio_le a p -> root_prio_le b p -> root_prio_le j p).
Proof.
  intros a b j H.
  induction H as [ b | a
    | n1 tl til ti nn1 nb1 tr n2 al ail ai nn2 nb2 ar j Hp HR IH
    | n1 tl til ti nn1 nb1 tr n2 al ail ai nn2 nb2 ar j Hp HR IH ];
  intros Ha Hb; auto.
  - assert (Ha' := Ha). cbn [heap] in Ha'. destruct Ha' as (H1 & H2 & H3 & H4).
    destruct (IH H2 Hb) as [I1 I2].
    rewrite heap_mk. repeat split; auto.
    apply I2; auto. cbn [root_prio_le]. lia.
  - assert (Hb' := Hb). cbn [heap] in Hb'. destruct Hb' as (H1 & H2 & H3 & H4).
    destruct (IH Ha H1) as [I1 I2].
    rewrite heap_mk. repeat split; auto.
Qed.

Theorem join_heap : forall a b, heap a -> heap b -> heap (join a b).
Proof. intros a b Ha Hb. apply (joinR_heap a b _ (join_R a b) Ha Hb). Qed.

Theorem join_root_prio : forall a b p, heap a -> heap b ->
  root_prio_le a p -> root_prio_le b p -> root_prio_le (join a b) p.
Proof. intros a b p Ha Hb. apply (joinR_heap a b _ (join_R a b) Ha Hb). Qed.

(* ---------- insert (item 6) ---------- *)

Lemma insert_eq : forall nl l il it nn nb r new,
  insert cmp (T nl l il it nn nb r) new =
  if iprio it >? iprio new then
    match cmp (ikey it) (ikey new) with
    | Eq => mk l None new r
    | Lt => mk l il it (insert cmp r new)
    | Gt => mk (insert cmp l new) il it r
    end
  else
    let '(l', _, r') := split cmp (T nl l il it nn nb r) (ikey new) in mk l' None new r'.
Proof. reflexivity. Qed.

(* the list form of inserting at a position delimited by a split *)
Lemma ins_split : forall new l m r,
  all_lt cmp l (ikey new) -> all_gt cmp r (ikey new) ->
  (forall il i, m = Some (il, i) -> cmp (ikey new) (ikey i) = Eq) ->
  ins cmp new (l ++ mid m ++ r) = l ++ new :: r.
Proof.
  intros new l m r Hl Hr Hm. rewrite ins_app by exact Hl. f_equal.
  destruct m as [[il i]|]; cbn [mid app].
  - cbn [ins]. rewrite (Hm il i eq_refl). reflexivity.
  - apply ins_all_gt. exact Hr.
Qed.

Theorem insert_elems : forall t it, bst cmp t -> elems (insert cmp t it) = ins cmp it (elems t).
Proof.
  intros t new. induction t as [|nl l IHl il it nn nb r IHr]; intro Hb.
  - reflexivity.
  - rewrite insert_eq. destruct (iprio it >? iprio new).
    + cbn [bst] in Hb. destruct Hb as (Hl & Hr & Hlt & Hgt). cbn [elems].
      destruct (cmp (ikey it) (ikey new)) eqn:Hc; rewrite elems_mk.
      * rewrite ins_app by (eapply all_lt_eq; eauto).
        cbn [ins]. rewrite (cmp_eq_sym _ _ Hc). reflexivity.
      * rewrite ins_app by (eapply all_lt_trans; eauto).
        cbn [ins]. rewrite (cmp_lt_gt _ _ Hc). rewrite IHr by exact Hr. reflexivity.
      * rewrite ins_app_lt by (apply cmp_gt_lt; exact Hc).
        rewrite IHl by exact Hl. reflexivity.
    + destruct (split cmp (T nl l il it nn nb r) (ikey new)) as [[l' m] r'] eqn:Hs.
      destruct (split_spec _ _ _ _ _ Hb Hs) as (He & _ & _ & Hal & Hag & Hm).
      rewrite He, elems_mk. symmetry. apply ins_split; auto.
      intros il' i Hi. apply (Hm il' i Hi).
Qed.

Theorem insert_bst : forall t it, bst cmp t -> bst cmp (insert cmp t it).
Proof.
  intros t new. induction t as [|nl l IHl il it nn nb r IHr]; intro Hb.
  - cbn. repeat split; constructor.
  - rewrite insert_eq. destruct (iprio it >? iprio new).
    + cbn [bst] in Hb. destruct Hb as (Hl & Hr & Hlt & Hgt).
      destruct (cmp (ikey it) (ikey new)) eqn:Hc; rewrite bst_mk.
      * repeat split; auto.
        -- eapply all_lt_eq; eauto.
        -- eapply all_gt_eq; eauto. apply cmp_eq_sym. exact Hc.
      * repeat split; auto. rewrite insert_elems by exact Hr.
        apply Forall_ins; auto.
      * repeat split; auto. rewrite insert_elems by exact Hl.
        apply Forall_ins; auto. apply cmp_gt_lt. exact Hc.
    + destruct (split cmp (T nl l il it nn nb r) (ikey new)) as [[l' m] r'] eqn:Hs.
      destruct (split_spec _ _ _ _ _ Hb Hs) as (He & Hbl & Hbr & Hal & Hag & Hm).
      rewrite bst_mk. auto.
Qed.

Theorem insert_aggs : forall t it, aggs t -> aggs (insert cmp t it).
Proof.
  intros t new. induction t as [|nl l IHl il it nn nb r IHr]; intro Ha.
  - apply aggs_single.
  - rewrite insert_eq. destruct (iprio it >? iprio new).
    + cbn [aggs] in Ha. destruct Ha as (Hl & Hr & _).
      destruct (cmp (ikey it) (ikey new)); apply aggs_mk; auto.
    + destruct (split cmp (T nl l il it nn nb r) (ikey new)) as [[l' m] r'] eqn:Hs.
      destruct (split_aggs _ _ _ _ _ Ha Hs). apply aggs_mk; auto.
Qed.

(* the root of an insert is the old root or the new item *)
Lemma insert_root_prio : forall t it p,
  root_prio_le t p -> iprio it <= p -> root_prio_le (insert cmp t it) p.
Proof.
  intros t new p Ht Hn. destruct t as [|nl l il it nn nb r].
  - exact Hn.
  - rewrite insert_eq. cbn [root_prio_le] in Ht. destruct (iprio it >? iprio new).
    + destruct (cmp (ikey it) (ikey new)); unfold mk; cbn [root_prio_le]; auto.
    + destruct (split cmp (T nl l il it nn nb r) (ikey new)) as [[l' m] r'].
      unfold mk; cbn [root_prio_le]; auto.
Qed.

Theorem insert_heap : forall t it, bst cmp t -> heap t ->
  (forall old, find cmp (ikey it) (elems t) = Some old -> iprio old <= iprio it) ->
  heap (insert cmp t it).
Proof.
  intros t new. induction t as [|nl l IHl il it nn nb r IHr]; intros Hb Hh Hold.
  - cbn. auto.
  - rewrite insert_eq. destruct (iprio it >? iprio new) eqn:Hp.
    + assert (Hb' := Hb). cbn [bst] in Hb'. destruct Hb' as (Hbl & Hbr & Hlt & Hgt).
      assert (Hh' := Hh). cbn [heap] in Hh'. destruct Hh' as (Hhl & Hhr & Hlp & Hrp).
      cbn [elems] in Hold.
      destruct (cmp (ikey it) (ikey new)) eqn:Hc; rewrite heap_mk.
      * exfalso. specialize (Hold it).
        rewrite find_app in Hold by (eapply all_lt_eq; eauto).
        cbn [find] in Hold. rewrite (cmp_eq_sym _ _ Hc) in Hold.
        specialize (Hold eq_refl). lia.
      * repeat split; auto.
        -- apply IHr; auto. intros old Ho. apply Hold.
           rewrite find_app by (eapply all_lt_trans; eauto).
           cbn [find]. rewrite (cmp_lt_gt _ _ Hc). exact Ho.
        -- apply insert_root_prio; auto. lia.
      * repeat split; auto.
        -- apply IHl; auto. intros old Ho. apply Hold.
           rewrite find_app_lt by (apply cmp_gt_lt; exact Hc). exact Ho.
        -- apply insert_root_prio; auto. lia.
    + destruct (split cmp (T nl l il it nn nb r) (ikey new)) as [[l' m] r'] eqn:Hs.
      destruct (split_heap _ _ _ _ _ Hh Hs) as (H1 & H2 & H3).
      rewrite heap_mk. repeat split; auto; apply H3; cbn [root_prio_le]; lia.
Qed.

(* ---------- union with a single node is insert (item 7) ---------- *)

Lemma union_E_r : forall f t, union cmp (S f) t E = Some t.
Proof. intros f [|]; reflexivity. Qed.

Lemma split_single : forall it s,
  split cmp (single it) s =
  match cmp s (ikey it) with
  | Eq => (E, Some (None, it), E)
  | Lt => (E, None, single it)
  | Gt => (single it, None, E)
  end.
Proof. intros. unfold single. cbn [split]. destruct (cmp s (ikey it)); reflexivity. Qed.

Theorem union_single : forall f t it, (height t < f)%nat ->
  union cmp f t (single it) = Some (insert cmp t it).
Proof.
  induction f as [|f IH]; intros t new Hh; [lia|].
  destruct t as [|nl l il it nn nb r].
  - reflexivity.
  - rewrite insert_eq. cbn [height] in Hh.
    destruct f as [|f]; [lia|].
    change (union cmp (S (S f)) (T nl l il it nn nb r) (single new)) with
      (if iprio it >? iprio new then
         let '(l0, m, r0) := split cmp (single new) (ikey it) in
         match union cmp (S f) l l0, union cmp (S f) r r0 with
         | Some nl0, Some nr =>
           match m with
           | Some (mil, mi) => Some (mk nl0 mil mi nr)
           | None => Some (mk nl0 il it nr)
           end
         | _, _ => None
         end
       else
         let '(l0, _, r0) := split cmp (T nl l il it nn nb r) (ikey new) in
         match union cmp (S f) l0 E, union cmp (S f) r0 E with
         | Some nl0, Some nr => Some (mk nl0 None new nr)
         | _, _ => None
         end).
    destruct (iprio it >? iprio new).
    + rewrite split_single. destruct (cmp (ikey it) (ikey new)).
      * rewrite !union_E_r. reflexivity.
      * rewrite union_E_r. rewrite (IH r new) by lia. reflexivity.
      * rewrite union_E_r. rewrite (IH l new) by lia. reflexivity.
    + destruct (split cmp (T nl l il it nn nb r) (ikey new)) as [[l0 m] r0].
      rewrite !union_E_r. reflexivity.
Qed.

Theorem set_item_spec : forall t key v prio, valid_item key (Some v) prio = true ->
  set_item cmp t key (Some v) prio = Some (insert cmp t (mkItem key v prio)).
Proof.
  intros t key v prio Hv. unfold set_item. rewrite Hv. apply union_single. lia.
Qed.

Theorem set_item_invalid : forall t key val prio, valid_item key val prio = false ->
  set_item cmp t key val prio = None.
Proof.
  intros t key val prio Hv. unfold set_item. destruct val; [|reflexivity].
  rewrite Hv. reflexivity.
Qed.

Theorem set_item_none : forall t key prio, set_item cmp t key None prio = None.
Proof. reflexivity. Qed.

(* ---------- lookup (item 8) ---------- *)

Theorem lookup_spec : forall t k, bst cmp t -> lookup cmp t k = find cmp k (elems t).
Proof.
  intros t k. induction t as [|nl l IHl il it nn nb r IHr]; intro Hb.
  - reflexivity.
  - cbn [bst] in Hb. destruct Hb as (Hl & Hr & Hlt & Hgt).
    cbn [lookup elems]. destruct (cmp k (ikey it)) eqn:Hc.
    + rewrite find_app by (eapply all_lt_eq; eauto; apply cmp_eq_sym; exact Hc).
      cbn [find]. rewrite Hc. reflexivity.
    + rewrite find_app_lt by exact Hc. auto.
    + rewrite find_app by (eapply all_lt_trans; eauto; apply cmp_gt_lt; exact Hc).
      cbn [find]. rewrite Hc. auto.
Qed.

(* ---------- delete (item 9) ---------- *)

Theorem delete_spec : forall t k t' b, bst cmp t -> delete cmp t k = (t', b) ->
  elems t' = del cmp k (elems t) /\
  b = (match find cmp k (elems t) with Some _ => true | None => false end) /\
  bst cmp t' /\ (aggs t -> aggs t') /\ (heap t -> heap t').
Proof.
  intros t k t' b Hb Hd. unfold delete in Hd.
  rewrite (lookup_spec t k Hb) in Hd.
  destruct (find cmp k (elems t)) as [old|] eqn:Hf.
  - destruct (split cmp t k) as [[l m] r] eqn:Hs.
    destruct (split_spec _ _ _ _ _ Hb Hs) as (He & Hbl & Hbr & Hal & Hag & Hm).
    destruct m as [[il i]|].
    + inversion Hd; subst t' b. clear Hd.
      destruct (Hm il i eq_refl) as [Hk _].
      rewrite join_elems. rewrite He. cbn [mid app].
      rewrite del_app by exact Hal. cbn [del]. rewrite Hk.
      repeat split; auto.
      * apply join_bst; auto. intros x y Hx Hy.
        unfold all_lt, all_gt in Hal, Hag. rewrite Forall_forall in Hal, Hag.
        eapply cmp_lt_tr; [apply Hal | apply Hag]; auto.
      * intro Ha. destruct (split_aggs _ _ _ _ _ Ha Hs). apply join_aggs; auto.
      * intro Hh. destruct (split_heap _ _ _ _ _ Hh Hs) as (H1 & H2 & _).
        apply join_heap; auto.
    + exfalso. rewrite He in Hf. cbn [mid app] in Hf.
      rewrite find_app in Hf by exact Hal.
      rewrite find_all_gt in Hf by exact Hag. discriminate.
  - inversion Hd; subst t' b. repeat split; auto.
    symmetry. apply del_find_none. exact Hf.
Qed.

(* ---------- shape uniqueness (item 13) ---------- *)

Theorem treap_unique : forall a b, bst cmp a -> bst cmp b -> heap a -> heap b ->
  elems a = elems b -> NoDup (map iprio (elems a)) -> shape_of a = shape_of b.
Proof. intros a b _ _. apply treap_unique_gen. Qed.

(* ---------- visits (item 14) ---------- *)

Theorem depths_elems : forall t d, map fst (depths t d) = elems t.
Proof.
  induction t as [|nl l IHl il it nn nb r IHr]; intro d; cbn [depths elems]; [reflexivity|].
  rewrite map_app. cbn [map fst]. rewrite IHl, IHr. reflexivity.
Qed.

Lemma depths_in : forall t d x, In x (depths t d) -> In (fst x) (elems t).
Proof. intros t d x H. rewrite <- (depths_elems t d). apply in_map. exact H. Qed.

Lemma vres_nil : forall b, vres [] b ([], b, true).
Proof.
  intro b. unfold vres. cbn [length]. split.
  - intros _. rewrite Nat.sub_0_r. reflexivity.
  - lia.
Qed.

Lemma vres_node : forall f1 f2 x b res1 k2,
  vres f1 b res1 -> (forall b', vres f2 b' (k2 b')) ->
  vres (f1 ++ x :: f2) b (node_res res1 x k2).
Proof.
  intros f1 f2 x b [[d1 b1] k1] k2 [H1a H1b] H2. unfold node_res.
  destruct (le_lt_dec (length f1) b) as [Hle|Hlt].
  - specialize (H1a Hle). inversion H1a; subst d1 b1 k1. clear H1a H1b.
    destruct (b - length f1)%nat as [|n] eqn:Eb.
    + split; intro Hlen; rewrite app_length in Hlen; cbn [length] in Hlen; [lia|].
      cbn [fst snd]. split; [|reflexivity].
      rewrite firstn_app. replace (S b - length f1)%nat with 1%nat by lia.
      rewrite firstn_all2 by lia. reflexivity.
    + destruct (k2 n) as [[d2 b2] k2'] eqn:Ek.
      specialize (H2 n). rewrite Ek in H2. destruct H2 as [H2a H2b].
      split; intro Hlen; rewrite app_length in Hlen; cbn [length] in Hlen.
      * assert (Hn : (length f2 <= n)%nat) by lia.
        specialize (H2a Hn). inversion H2a; subst d2 b2 k2'.
        f_equal. f_equal. rewrite app_length. cbn [length]. lia.
      * assert (Hn : (n < length f2)%nat) by lia.
        destruct (H2b Hn) as [Hd Hk]. cbn [fst snd] in Hd, Hk. subst d2 k2'.
        cbn [fst snd]. split; [|reflexivity].
        rewrite firstn_app. replace (S b - length f1)%nat with (S (S n)) by lia.
        rewrite (@firstn_all2 _ (S b) f1) by lia. reflexivity.
  - destruct (H1b Hlt) as [Hd Hk]. cbn [fst snd] in Hd, Hk. subst d1 k1.
    split; intro Hlen; rewrite app_length in Hlen; cbn [length] in Hlen; [lia|].
    cbn [fst snd]. split; [|reflexivity].
    rewrite firstn_app. replace (S b - length f1)%nat with 0%nat by lia.
    cbn [firstn]. rewrite app_nil_r. reflexivity.
Qed.

Lemma vres_firstn : forall full b res, vres full b res -> fst (fst res) = firstn (S b) full.
Proof.
  intros full b res [Ha Hb]. destruct (le_lt_dec (length full) b) as [Hle|Hlt].
  - rewrite (Ha Hle). cbn [fst]. rewrite firstn_all2 by lia. reflexivity.
  - apply (Hb Hlt).
Qed.

Definition asc_keep (target : bytes) (x : item * Z) : bool :=
  match cmp target (ikey (fst x)) with Gt => false | _ => true end.
Definition desc_keep (target : bytes) (x : item * Z) : bool :=
  match cmp target (ikey (fst x)) with Gt => true | _ => false end.

Lemma visit_asc_eq : forall nl l il it nn nb r target d b,
  visit cmp true (T nl l il it nn nb r) target d b =
  match cmp target (ikey it) with
  | Gt => visit cmp true r target (d + 1) b
  | _ => node_res (visit cmp true l target (d + 1) b) (it, d)
                  (fun b' => visit cmp true r target (d + 1) b')
  end.
Proof. intros. cbn [visit]. destruct (cmp target (ikey it)); reflexivity. Qed.

Lemma visit_desc_eq : forall nl l il it nn nb r target d b,
  visit cmp false (T nl l il it nn nb r) target d b =
  match cmp target (ikey it) with
  | Gt => node_res (visit cmp false r target (d + 1) b) (it, d)
                   (fun b' => visit cmp false l target (d + 1) b')
  | _ => visit cmp false l target (d + 1) b
  end.
Proof. intros. cbn [visit]. destruct (cmp target (ikey it)); reflexivity. Qed.

Lemma visit_asc_vres : forall t, bst cmp t -> forall target d b,
  vres (filter (asc_keep target) (depths t d)) b (visit cmp true t target d b).
Proof.
  induction t as [|nl l IHl il it nn nb r IHr]; intros Hb target d b.
  - apply vres_nil.
  - cbn [bst] in Hb. destruct Hb as (Hl & Hr & Hlt & Hgt).
    rewrite visit_asc_eq. cbn [depths]. rewrite filter_app. cbn [filter].
    unfold asc_keep at 2. cbn [fst].
    destruct (cmp target (ikey it)) eqn:Hc.
    + apply vres_node; auto.
    + apply vres_node; auto.
    + rewrite filter_nil; [cbn [app]; auto|].
      intros x Hx. apply depths_in in Hx. unfold asc_keep.
      unfold all_lt in Hlt. rewrite Forall_forall in Hlt. specialize (Hlt _ Hx).
      unfold klt in Hlt.
      rewrite (cmp_lt_gt _ _ (cmp_lt_tr _ _ _ Hlt (cmp_gt_lt _ _ Hc))). reflexivity.
Qed.

Lemma visit_desc_vres : forall t, bst cmp t -> forall target d b,
  vres (filter (desc_keep target) (rev (depths t d))) b (visit cmp false t target d b).
Proof.
  induction t as [|nl l IHl il it nn nb r IHr]; intros Hb target d b.
  - apply vres_nil.
  - cbn [bst] in Hb. destruct Hb as (Hl & Hr & Hlt & Hgt).
    rewrite visit_desc_eq. cbn [depths]. rewrite rev_app_distr. cbn [rev].
    rewrite <- app_assoc. cbn [app]. rewrite filter_app. cbn [filter].
    unfold desc_keep at 2. cbn [fst].
    assert (Hnil : cmp target (ikey it) <> Gt ->
                   filter (desc_keep target) (rev (depths r (d + 1))) = []).
    { intro Hne. apply filter_nil. intros x Hx. apply in_rev in Hx.
      apply depths_in in Hx. unfold desc_keep.
      unfold all_gt in Hgt. rewrite Forall_forall in Hgt. specialize (Hgt _ Hx).
      unfold klt in Hgt.
      destruct (cmp target (ikey it)) eqn:Hc; [| |congruence].
      - rewrite (cmp_eq_l _ laws _ _ _ Hc), Hgt. reflexivity.
      - rewrite (cmp_lt_tr _ _ _ Hc Hgt). reflexivity. }
    destruct (cmp target (ikey it)) eqn:Hc.
    + rewrite Hnil by congruence. cbn [app]. auto.
    + rewrite Hnil by congruence. cbn [app]. auto.
    + apply vres_node; auto.
Qed.

Theorem visit_asc_spec : forall t, bst cmp t -> forall target d b,
  fst (fst (visit cmp true t target d b)) =
  firstn (S b) (filter (fun x => match cmp target (ikey (fst x)) with Gt => false | _ => true end)
                       (depths t d)).
Proof. intros t Hb target d b. apply vres_firstn. apply (visit_asc_vres t Hb). Qed.

Theorem visit_desc_spec : forall t, bst cmp t -> forall target d b,
  fst (fst (visit cmp false t target d b)) =
  firstn (S b) (filter (fun x => match cmp target (ikey (fst x)) with Gt => true | _ => false end)
                       (rev (depths t d))).
Proof. intros t Hb target d b. apply vres_firstn. apply (visit_desc_vres t Hb). Qed.

End Proofs.

(* ---------- the side condition of insert_heap is needed ---------- *)

Theorem heap_refuted_lower_overwrite :
  exists t it, bst cmp_bytes t /\ heap t /\ ~ heap (insert cmp_bytes t it).
Proof.
  exists (T None (single (mkItem [1%N] [] 5)) None (mkItem [2%N] [] 10) 2 2 E).
  exists (mkItem [2%N] [] 1).
  split; [|split].
  - cbn. repeat split; repeat constructor.
  - cbn. lia.
  - cbn. intros (_ & _ & H & _). lia.
Qed.
