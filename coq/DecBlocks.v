(* DecBlocks.v — part of the decision theorems (see DecBase.v): each file serves a few properties, so that a change of
   the source breaks only the theorems -- and the properties -- it concerns. *)
From GK Require Import Base Treap Codec Blocks GExpr Generated DecBase.
From Coq Require Import ZArith NArith List String Bool Lia.
Import ListNotations.
Open Scope string_scope.
Open Scope list_scope.
Open Scope Z_scope.

Local Arguments Z.gtb : simpl never.
Local Arguments Z.ltb : simpl never.
Local Arguments Z.leb : simpl never.
Local Arguments Z.geb : simpl never.
Local Arguments Z.eqb : simpl never.
Local Arguments Z.quot : simpl never.
Local Arguments Z.rem : simpl never.
Local Arguments Z.add : simpl never.
Local Arguments Z.sub : simpl never.
Local Arguments Z.of_nat : simpl never.

Theorem determine_blocks_is_source : forall cnt : nat,
  gexec 50 (db_env (Z.of_nat cnt)) (body "Collection.determineBlocks") =
  RRet [Z.of_nat (fst (determine_blocks cnt)); Z.of_nat (snd (determine_blocks cnt)); 0].
Proof.
  intro cnt.
  assert (Hb : body "Collection.determineBlocks" =
    [SVar "cnt" None;
     SAssign [GVar "cnt"; GVar "err"] "=" [GCall "t.Len" []];
     SIf [] (GBin "!=" (GVar "err") GNil) [SReturn [GInt 0; GInt 0; GVar "err"]] [];
     SIf [] (GBin ">" (GVar "cnt") (GInt 1024))
       [SAssign [GVar "size"] ":=" [GBin "/" (GVar "cnt") (GInt 1024)];
        SIf [] (GBin "!=" (GBin "%" (GVar "cnt") (GInt 1024)) (GInt 0)) [SIncDec (GVar "size") true] [];
        SReturn [GInt 1024; GCall "int" [GVar "size"]; GNil]] [];
     SReturn [GCall "int" [GVar "cnt"]; GInt 1; GNil]]) by (vm_compute; reflexivity).
  rewrite Hb. clear Hb.
  remember (determine_blocks cnt) as d eqn:Ed.
  set (n := Z.of_nat cnt). assert (Hn : 0 <= n) by (unfold n; lia).
  assert (H00 : (0 =? 0) = true) by reflexivity.
  assert (H10 : (1 =? 0) = false) by reflexivity.
  assert (H1024 : (1024 =? 0) = false) by reflexivity.
  unfold db_env. cbn. unfold b2z. rewrite ?H00. cbn. rewrite ?H00, ?H10, ?H1024. cbn.
  unfold determine_blocks, max_block_cnt in Ed.
  destruct (n >? 1024) eqn:E1.
  - rewrite H10. cbn. unfold gtrue. cbn. rewrite H1024.
    assert (E : Nat.ltb 1024 cnt = true) by (apply Nat.ltb_lt; apply Z.gtb_lt in E1; unfold n in E1; lia).
    rewrite E in Ed.
    assert (Hq : Z.quot n 1024 = Z.of_nat (Nat.div cnt 1024)).
    { rewrite Z.quot_div_nonneg by lia. unfold n. rewrite Nat2Z.inj_div. reflexivity. }
    assert (Hr : Z.rem n 1024 = Z.of_nat (Nat.modulo cnt 1024)).
    { rewrite Z.rem_mod_nonneg by lia. unfold n. rewrite Nat2Z.inj_mod. reflexivity. }
    rewrite Hq, Hr. subst d. cbn [fst snd].
    destruct (Nat.eqb (Nat.modulo cnt 1024) 0) eqn:E2.
    + apply Nat.eqb_eq in E2. rewrite E2. change (Z.of_nat 0) with 0. rewrite H00. cbn. rewrite H00. cbn.
      rewrite Nat.add_0_r. reflexivity.
    + apply Nat.eqb_neq in E2.
      assert ((Z.of_nat (Nat.modulo cnt 1024) =? 0) = false) as -> by (apply Z.eqb_neq; lia).
      cbn. rewrite H10. cbn. rewrite Nat2Z.inj_add. reflexivity.
  - rewrite H00. cbn.
    assert (E : Nat.ltb 1024 cnt = false).
    { apply Nat.ltb_ge. rewrite Z.gtb_ltb in E1. apply Z.ltb_ge in E1. unfold n in E1. lia. }
    rewrite E in Ed. subst d. reflexivity.
Qed.

