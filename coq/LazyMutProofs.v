(* LazyMutProofs.v — the touch model of LazyMut.v (SetItem / Delete on a store just opened):
   M1 the instrumented split / join / union compute the trees of Treap.v,
   M2 every touch is of a record of the input tree, M3/M4 hence the reads are node records,
   item headers and keys only and never meet a value (C19), M5 the model is defined exactly
   when SetItem / Delete succeed, M6 the reads do not depend on the value written,
   M7 the file-level function computes the tree-level one, M8 a record is read at most once. *)
From GK Require Import Base Treap TreapSpec Store Codec CodecProofs Disk DiskProofs Lazy LazyProofs LazyVisit LazyMut.
From Coq Require Import Lia ZArith NArith List Bool.
Import ListNotations.
Open Scope Z_scope.

(* ------------------------------------------------------------------ *)
(* unfolding lemmas for the nested fixpoint join_t *)

Lemma join_t_E_l b : join_t E b = (b, tn b).
Proof. destruct b; reflexivity. Qed.

Lemma join_t_E_r a : join_t a E = (a, tn a).
Proof. destruct a; reflexivity. Qed.

Lemma join_t_eq n1 tl til ti_ nn1 nb1 tr n2 al ail ai nn2 nb2 ar :
  join_t (T n1 tl til ti_ nn1 nb1 tr) (T n2 al ail ai nn2 nb2 ar) =
  if iprio ti_ >? iprio ai then
    let '(nr, t1) := join_t tr (T n2 al ail ai nn2 nb2 ar) in
    (mk tl til ti_ nr,
     (tn (T n1 tl til ti_ nn1 nb1 tr) ++ tn (T n2 al ail ai nn2 nb2 ar) ++
      ti (T n1 tl til ti_ nn1 nb1 tr) ++ ti (T n2 al ail ai nn2 nb2 ar)) ++ t1 ++ tn tl ++ tn nr)
  else
    let '(nl, t1) := join_t (T n1 tl til ti_ nn1 nb1 tr) al in
    (mk nl ail ai ar,
     (tn (T n1 tl til ti_ nn1 nb1 tr) ++ tn (T n2 al ail ai nn2 nb2 ar) ++
      ti (T n1 tl til ti_ nn1 nb1 tr) ++ ti (T n2 al ail ai nn2 nb2 ar)) ++ t1 ++ tn nl ++ tn ar).
Proof. reflexivity. Qed.

(* ------------------------------------------------------------------ *)
(* M1: the instrumented functions compute the same trees *)

Lemma split_t_fst cmp t s : fst (split_t cmp t s) = Treap.split cmp t s.
Proof.
  induction t as [|nl l IHl il it nn nb r IHr]; [reflexivity|].
  cbn [split_t Treap.split]. destruct (cmp s (ikey it)); [reflexivity| |].
  - rewrite <- IHl. destruct (split_t cmp l s) as [[[ll m] lr] tl]. cbn [fst].
    destruct l; reflexivity.
  - rewrite <- IHr. destruct (split_t cmp r s) as [[[rl m] rr] tr]. cbn [fst].
    destruct r; reflexivity.
Qed.

Lemma join_t_fst this that : fst (join_t this that) = join this that.
Proof.
  revert that. induction this as [|n1 tl IHtl til ti_ nn1 nb1 tr IHtr]; intro that.
  - rewrite join_t_E_l, join_E_l. reflexivity.
  - induction that as [|n2 al IHal ail ai nn2 nb2 ar IHar].
    + rewrite join_t_E_r, join_E_r. reflexivity.
    + rewrite join_t_eq, join_eq. destruct (iprio ti_ >? iprio ai).
      * rewrite <- IHtr. destruct (join_t tr (T n2 al ail ai nn2 nb2 ar)) as [nr t1]. reflexivity.
      * rewrite <- IHal. destruct (join_t (T n1 tl til ti_ nn1 nb1 tr) al) as [nl t1]. reflexivity.
Qed.

Lemma union_t_fst cmp fuel a b : option_map fst (union_t cmp fuel a b) = union cmp fuel a b.
Proof.
  revert a b. induction fuel as [|f IH]; intros a b; [reflexivity|].
  destruct a as [|n1 tl til ti_ nn1 nb1 tr]; [reflexivity|].
  destruct b as [|n2 al ail ai nn2 nb2 ar]; [reflexivity|].
  cbn [union_t union]. destruct (iprio ti_ >? iprio ai).
  - rewrite <- (split_t_fst cmp (T n2 al ail ai nn2 nb2 ar) (ikey ti_)).
    destruct (split_t cmp (T n2 al ail ai nn2 nb2 ar) (ikey ti_)) as [[[l m] r] ts]. cbn [fst].
    rewrite <- (IH tl l), <- (IH tr r).
    destruct (union_t cmp f tl l) as [[nl t1]|]; [|reflexivity].
    destruct (union_t cmp f tr r) as [[nr t2]|]; [|reflexivity].
    destruct m as [[mil mi]|]; reflexivity.
  - rewrite <- (split_t_fst cmp (T n1 tl til ti_ nn1 nb1 tr) (ikey ai)).
    destruct (split_t cmp (T n1 tl til ti_ nn1 nb1 tr) (ikey ai)) as [[[l m] r] ts]. cbn [fst].
    rewrite <- (IH l al), <- (IH r ar).
    destruct (union_t cmp f l al) as [[nl t1]|]; [|reflexivity].
    destruct (union_t cmp f r ar) as [[nr t2]|]; reflexivity.
Qed.

(* ------------------------------------------------------------------ *)
(* M2: every touch is of a record of the input tree(s) *)

Definition touch_in (t : tree) (x : touch) : Prop :=
  match x with TN p => In p (node_locs t) | TI q it => In (q, it) (item_locs t) end.

(* generalisation: the locations of a tree lie in given sets NP (nodes) / IP (items) *)
Section Locs.
Variable NP : ploc -> Prop.
Variable IP : ploc * item -> Prop.

Definition locs_sub (t : tree) : Prop :=
  (forall p, In p (node_locs t) -> NP p) /\ (forall x, In x (item_locs t) -> IP x).
Definition oN (o : option ploc) : Prop := match o with Some p => NP p | None => True end.
Definition oI (o : option ploc) (it : item) : Prop := match o with Some q => IP (q, it) | None => True end.
Definition touch_ok (x : touch) : Prop := match x with TN p => NP p | TI q it => IP (q, it) end.
Definition mid_ok (m : option (option ploc * item)) : Prop :=
  match m with Some (il, it) => oI il it | None => True end.

Lemma locs_sub_E : locs_sub E.
Proof. split; intros x []. Qed.

Lemma locs_sub_T nl l il it nn nb r :
  locs_sub (T nl l il it nn nb r) <-> oN nl /\ oI il it /\ locs_sub l /\ locs_sub r.
Proof.
  unfold locs_sub. cbn [node_locs item_locs]. split.
  - intros [HN HI]. split; [|split; [|split; split]].
    + destruct nl as [p|]; cbn [oN]; [|exact I]. apply HN. rewrite !in_app_iff. right. left. left. reflexivity.
    + destruct il as [q|]; cbn [oI]; [|exact I]. apply HI. rewrite !in_app_iff. right. left. left. reflexivity.
    + intros p Hp. apply HN. rewrite !in_app_iff. left. exact Hp.
    + intros x Hx. apply HI. rewrite !in_app_iff. left. exact Hx.
    + intros p Hp. apply HN. rewrite !in_app_iff. right. right. exact Hp.
    + intros x Hx. apply HI. rewrite !in_app_iff. right. right. exact Hx.
  - intros (H1 & H2 & [HNl HIl] & [HNr HIr]). split; intros x Hx; rewrite !in_app_iff in Hx;
      destruct Hx as [Hx|[Hx|Hx]]; auto.
    + destruct nl as [p|]; [|destruct Hx]. destruct Hx as [<-|[]]. exact H1.
    + destruct il as [q|]; [|destruct Hx]. destruct Hx as [<-|[]]. exact H2.
Qed.

Lemma locs_sub_mk l il it r : locs_sub l -> locs_sub r -> oI il it -> locs_sub (mk l il it r).
Proof. intros Hl Hr Hi. unfold mk. apply locs_sub_T. cbn [oN]. auto. Qed.

Lemma tn_ok t : locs_sub t -> Forall touch_ok (tn t).
Proof.
  destruct t as [|nl l il it nn nb r]; intro H; [constructor|].
  apply locs_sub_T in H. destruct H as (H & _). destruct nl as [p|]; cbn [tn]; constructor; [exact H|constructor].
Qed.

Lemma ti_ok t : locs_sub t -> Forall touch_ok (ti t).
Proof.
  destruct t as [|nl l il it nn nb r]; intro H; [constructor|].
  apply locs_sub_T in H. destruct H as (_ & H & _). destruct il as [q|]; cbn [ti]; constructor; [exact H|constructor].
Qed.

Ltac chain := repeat (apply Forall_app_intro); auto using tn_ok, ti_ok.

Lemma get_t_ok cmp k : forall t, locs_sub t -> Forall touch_ok (get_t cmp t k).
Proof.
  induction t as [|nl l IHl il it nn nb r IHr]; intro H; [constructor|].
  pose proof H as H0. apply locs_sub_T in H0. destruct H0 as (_ & _ & Hl & Hr).
  cbn [get_t]. chain. destruct (cmp k (ikey it)); [constructor|auto|auto].
Qed.

Lemma split_t_ok cmp : forall t s, locs_sub t ->
  match split_t cmp t s with
  | ((l, m, r), ts) => Forall touch_ok ts /\ locs_sub l /\ locs_sub r /\ mid_ok m
  end.
Proof.
  induction t as [|nl l IHl il it nn nb r IHr]; intros s H.
  - cbn [split_t mid_ok]. repeat split; try constructor; intros x [].
  - pose proof H as H0. apply locs_sub_T in H0. destruct H0 as (Hn & Hi & Hl & Hr).
    assert (T0 : Forall touch_ok (tn (T nl l il it nn nb r) ++ ti (T nl l il it nn nb r))) by chain.
    cbn [split_t]. destruct (cmp s (ikey it)).
    + cbn [mid_ok]. split; [chain | auto].
    + specialize (IHl s Hl). destruct (split_t cmp l s) as [[[ll m] lr] tl].
      destruct IHl as (A & B & C & D).
      destruct l as [|nl' a il' it' nn' nb' b].
      * cbn [mid_ok]. split; [exact T0|]. split; [apply locs_sub_E|]. split; [exact H|exact I].
      * split; [chain|]. split; [exact B|]. split; [|exact D]. apply locs_sub_mk; auto.
    + specialize (IHr s Hr). destruct (split_t cmp r s) as [[[rl m] rr] tr].
      destruct IHr as (A & B & C & D).
      destruct r as [|nl' a il' it' nn' nb' b].
      * cbn [mid_ok]. split; [exact T0|]. split; [exact H|]. split; [apply locs_sub_E|exact I].
      * split; [chain|]. split; [|split; [exact C|exact D]]. apply locs_sub_mk; auto.
Qed.

Lemma join_t_ok : forall a b, locs_sub a -> locs_sub b ->
  Forall touch_ok (snd (join_t a b)) /\ locs_sub (fst (join_t a b)).
Proof.
  induction a as [|n1 tl IHtl til ti_ nn1 nb1 tr IHtr]; intros b Ha.
  - intro Hb. rewrite join_t_E_l. cbn [fst snd]. split; [chain|exact Hb].
  - pose proof Ha as Ha0. apply locs_sub_T in Ha0. destruct Ha0 as (_ & Hti & Htl & Htr).
    induction b as [|n2 al IHal ail ai nn2 nb2 ar IHar]; intro Hb.
    + rewrite join_t_E_r. cbn [fst snd]. split; [chain|exact Ha].
    + pose proof Hb as Hb0. apply locs_sub_T in Hb0. destruct Hb0 as (_ & Hai & Hal & Har).
      rewrite join_t_eq. destruct (iprio ti_ >? iprio ai).
      * specialize (IHtr _ Htr Hb). destruct (join_t tr (T n2 al ail ai nn2 nb2 ar)) as [nr t1].
        cbn [fst snd] in *. destruct IHtr as [A B]. split; [chain|]. apply locs_sub_mk; auto.
      * specialize (IHal Hal). destruct (join_t (T n1 tl til ti_ nn1 nb1 tr) al) as [nl t1].
        cbn [fst snd] in *. destruct IHal as [A B]. split; [chain|]. apply locs_sub_mk; auto.
Qed.

Lemma union_t_ok cmp : forall fuel a b, locs_sub a -> locs_sub b ->
  match union_t cmp fuel a b with
  | Some (t, ts) => Forall touch_ok ts /\ locs_sub t
  | None => True
  end.
Proof.
  induction fuel as [|f IH]; intros a b Ha Hb; [exact I|].
  destruct a as [|n1 tl til ti_ nn1 nb1 tr].
  { cbn [union_t]. split; [chain|exact Hb]. }
  destruct b as [|n2 al ail ai nn2 nb2 ar].
  { cbn [union_t]. split; [chain|exact Ha]. }
  pose proof Ha as Ha0. apply locs_sub_T in Ha0. destruct Ha0 as (_ & Hti & Htl & Htr).
  pose proof Hb as Hb0. apply locs_sub_T in Hb0. destruct Hb0 as (_ & Hai & Hal & Har).
  cbn [union_t]. destruct (iprio ti_ >? iprio ai).
  - pose proof (split_t_ok cmp _ (ikey ti_) Hb) as Hs.
    destruct (split_t cmp (T n2 al ail ai nn2 nb2 ar) (ikey ti_)) as [[[l m] r] ts].
    destruct Hs as (A & B & C & D).
    pose proof (IH tl l Htl B) as H1. pose proof (IH tr r Htr C) as H2.
    destruct (union_t cmp f tl l) as [[nl t1]|]; [|exact I].
    destruct (union_t cmp f tr r) as [[nr t2]|]; [|exact I].
    destruct H1 as [H1 H1']. destruct H2 as [H2 H2']. split; [chain|].
    destruct m as [[mil mi]|]; apply locs_sub_mk; auto.
  - pose proof (split_t_ok cmp _ (ikey ai) Ha) as Hs.
    destruct (split_t cmp (T n1 tl til ti_ nn1 nb1 tr) (ikey ai)) as [[[l m] r] ts].
    destruct Hs as (A & B & C & D).
    pose proof (IH l al B Hal) as H1. pose proof (IH r ar C Har) as H2.
    destruct (union_t cmp f l al) as [[nl t1]|]; [|exact I].
    destruct (union_t cmp f r ar) as [[nr t2]|]; [|exact I].
    destruct H1 as [H1 H1']. destruct H2 as [H2 H2']. split; [chain|].
    apply locs_sub_mk; auto.
Qed.

End Locs.

(* instantiation: the sets are the locations of t *)
Definition NPof (t : tree) : ploc -> Prop := fun p => In p (node_locs t).
Definition IPof (t : tree) : ploc * item -> Prop := fun x => In x (item_locs t).

Lemma locs_sub_self t : locs_sub (NPof t) (IPof t) t.
Proof. split; auto. Qed.

Lemma locs_sub_single NP IP it : locs_sub NP IP (single it).
Proof. split; intros x []. Qed.

Lemma touch_ok_in t ts : Forall (touch_ok (NPof t) (IPof t)) ts -> Forall (touch_in t) ts.
Proof. intro H. eapply Forall_impl; [|exact H]. intros [p|q it] Hx; exact Hx. Qed.

Lemma get_t_in cmp t k : Forall (touch_in t) (get_t cmp t k).
Proof. apply touch_ok_in. apply get_t_ok. apply locs_sub_self. Qed.

Lemma set_touches_in cmp t key val prio : Forall (touch_in t) (set_touches cmp t key val prio).
Proof.
  unfold set_touches. destruct val as [v|]; [|constructor].
  destruct (valid_item key (Some v) prio); [|constructor].
  pose proof (union_t_ok (NPof t) (IPof t) cmp (S (S (height t))) t (single (mkItem key v prio))
                (locs_sub_self t) (locs_sub_single _ _ _)) as H.
  destruct (union_t cmp (S (S (height t))) t (single (mkItem key v prio))) as [[t' ts]|]; [|constructor].
  apply touch_ok_in. apply H.
Qed.

Lemma del_touches_in cmp t k : Forall (touch_in t) (del_touches cmp t k).
Proof.
  unfold del_touches. destruct (lookup cmp t k) as [i|]; [|apply get_t_in].
  pose proof (split_t_ok (NPof t) (IPof t) cmp t k (locs_sub_self t)) as Hs.
  destruct (split_t cmp t k) as [[[l m] r] ts]. destruct Hs as (A & B & C & _).
  pose proof (join_t_ok (NPof t) (IPof t) l r B C) as Hj.
  destruct (join_t l r) as [j tj]. cbn [fst snd] in Hj. destruct Hj as [Hj _].
  apply Forall_app_intro; [apply get_t_in|].
  apply Forall_app_intro; apply touch_ok_in; assumption.
Qed.

(* ------------------------------------------------------------------ *)
(* M3: touches of records of t cost key-only reads of t *)

Lemma key_only_node_in t p : In p (node_locs t) -> Forall (key_only t) (node_reads p).
Proof. intro H. apply Forall_cons; [|apply Forall_nil]. left. exists p. split; [exact H|reflexivity]. Qed.

Lemma key_only_item_in t q it : In (q, it) (item_locs t) -> Forall (key_only t) (item_reads q it false).
Proof.
  intro H. cbn [item_reads app]. apply Forall_cons; [|apply Forall_cons; [|apply Forall_nil]];
    right; exists q, it; (split; [exact H|]); auto.
Qed.

Lemma reads_of_key_only t s ts : Forall (touch_in t) ts -> Forall (key_only t) (reads_of s ts).
Proof.
  intro H. revert s. induction H as [|x ts Hx Hts IH]; intro s; [constructor|].
  destruct x as [p|q it]; cbn [reads_of touch_in] in *.
  - destruct (seen (poff p) s); [apply IH|].
    apply Forall_app_intro; [now apply key_only_node_in | apply IH].
  - destruct (seen (poff q) s); [apply IH|].
    apply Forall_app_intro; [now apply key_only_item_in | apply IH].
Qed.

(* ------------------------------------------------------------------ *)
(* M4: C19 for SetItem and Delete *)

Theorem set_reads_keyonly cmp t key val prio :
  Forall (fun r => in_node t r \/ in_keypart t r) (set_treads cmp t key val prio).
Proof. unfold set_treads. apply (reads_of_key_only t). apply set_touches_in. Qed.

Theorem del_reads_keyonly cmp t k :
  Forall (fun r => in_node t r \/ in_keypart t r) (del_treads cmp t k).
Proof. unfold del_treads. apply (reads_of_key_only t). apply del_touches_in. Qed.

Theorem set_never_reads_values cmp f t key val prio :
  rep f t -> records_disjoint t ->
  forall r, In r (set_treads cmp t key val prio) ->
  forall q it, In (q, it) (item_locs t) -> rd_disjoint r (value_range q it).
Proof.
  intros Hrep Hd r Hr q it Hin.
  pose proof (set_reads_keyonly cmp t key val prio) as H2. rewrite Forall_forall in H2.
  apply (key_only_disjoint_value t Hd); auto.
  intros q' it' Hin'. apply (rep_item_lens f t Hrep q' it' Hin').
Qed.

Theorem del_never_reads_values cmp f t k :
  rep f t -> records_disjoint t ->
  forall r, In r (del_treads cmp t k) ->
  forall q it, In (q, it) (item_locs t) -> rd_disjoint r (value_range q it).
Proof.
  intros Hrep Hd r Hr q it Hin.
  pose proof (del_reads_keyonly cmp t k) as H2. rewrite Forall_forall in H2.
  apply (key_only_disjoint_value t Hd); auto.
  intros q' it' Hin'. apply (rep_item_lens f t Hrep q' it' Hin').
Qed.

(* ------------------------------------------------------------------ *)
(* M5: the touch model is defined exactly when SetItem succeeds, on the same tree *)

Theorem set_touches_result cmp t key v prio t' :
  set_item cmp t key (Some v) prio = Some t' ->
  exists ts, union_t cmp (S (S (height t))) t (single (mkItem key v prio)) = Some (t', ts)
             /\ set_touches cmp t key (Some v) prio = ts.
Proof.
  unfold set_item, set_touches. intro H.
  destruct (valid_item key (Some v) prio); [|discriminate].
  rewrite <- union_t_fst in H.
  destruct (union_t cmp (S (S (height t))) t (single (mkItem key v prio))) as [[t'' ts]|];
    [|discriminate].
  cbn [option_map fst] in H. inversion H; subst t''. exists ts. split; reflexivity.
Qed.

Theorem del_touches_result cmp t k l m r :
  lookup cmp t k <> None -> Treap.split cmp t k = (l, m, r) ->
  exists ts tj, split_t cmp t k = ((l, m, r), ts) /\ join_t l r = (join l r, tj) /\
                del_touches cmp t k = get_t cmp t k ++ ts ++ tj.
Proof.
  intros Hl Hs. unfold del_touches.
  destruct (lookup cmp t k) as [i|]; [|congruence].
  rewrite <- split_t_fst in Hs. destruct (split_t cmp t k) as [x ts]. cbn [fst] in Hs. subst x.
  pose proof (join_t_fst l r) as Hj. destruct (join_t l r) as [j tj]. cbn [fst] in Hj. subst j.
  exists ts, tj. repeat split.
Qed.

(* ------------------------------------------------------------------ *)
(* M6: the reads do not depend on the value being written.  Simulation: two trees of the same
   shape, with the same locations, keys and priorities, and the same item wherever the item is
   located. *)

Definition isim (il il' : option ploc) (it it' : item) : Prop :=
  il = il' /\ ikey it = ikey it' /\ iprio it = iprio it' /\ (il <> None -> it = it').

Fixpoint sim (a b : tree) : Prop :=
  match a, b with
  | E, E => True
  | T nl l il it _ _ r, T nl' l' il' it' _ _ r' => nl = nl' /\ isim il il' it it' /\ sim l l' /\ sim r r'
  | _, _ => False
  end.

Definition msim (m m' : option (option ploc * item)) : Prop :=
  match m, m' with
  | None, None => True
  | Some (il, it), Some (il', it') => isim il il' it it'
  | _, _ => False
  end.

Lemma isim_refl il it : isim il il it it.
Proof. repeat split. Qed.

Lemma sim_refl : forall t, sim t t.
Proof. induction t as [|nl l IHl il it nn nb r IHr]; cbn [sim]; auto using isim_refl. Qed.

Lemma tn_sim a b : sim a b -> tn a = tn b.
Proof.
  destruct a as [|nl l il it nn nb r], b as [|nl' l' il' it' nn' nb' r']; cbn [sim]; intro H;
    try contradiction; [reflexivity|].
  destruct H as (-> & _). reflexivity.
Qed.

Lemma ti_sim a b : sim a b -> ti a = ti b.
Proof.
  destruct a as [|nl l il it nn nb r], b as [|nl' l' il' it' nn' nb' r']; cbn [sim]; intro H;
    try contradiction; [reflexivity|].
  destruct H as (_ & (-> & _ & _ & Hit) & _). destruct il' as [q|]; cbn [ti]; [|reflexivity].
  rewrite Hit by discriminate. reflexivity.
Qed.

Lemma sim_mk l l' il il' it it' r r' :
  sim l l' -> sim r r' -> isim il il' it it' -> sim (mk l il it r) (mk l' il' it' r').
Proof. intros. unfold mk. cbn [sim]. auto. Qed.

Lemma split_t_sim cmp : forall a b s, sim a b ->
  match split_t cmp a s, split_t cmp b s with
  | ((l, m, r), ts), ((l', m', r'), ts') => ts = ts' /\ sim l l' /\ sim r r' /\ msim m m'
  end.
Proof.
  induction a as [|nl l IHl il it nn nb r IHr]; intros b s H;
    destruct b as [|nl' l' il' it' nn' nb' r']; cbn [sim] in H; try contradiction.
  - cbn [split_t msim sim]. auto.
  - assert (Hfull : sim (T nl l il it nn nb r) (T nl' l' il' it' nn' nb' r')) by exact H.
    destruct H as (Hnl & Hi & Hl & Hr). pose proof Hi as (Hil & Hk & Hp & Hv).
    assert (T0 : tn (T nl l il it nn nb r) ++ ti (T nl l il it nn nb r) =
                 tn (T nl' l' il' it' nn' nb' r') ++ ti (T nl' l' il' it' nn' nb' r')).
    { rewrite (tn_sim _ _ Hfull), (ti_sim _ _ Hfull). reflexivity. }
    cbn [split_t]. rewrite <- Hk. destruct (cmp s (ikey it)).
    + cbn [msim]. rewrite T0, (tn_sim _ _ Hl), (tn_sim _ _ Hr). auto.
    + specialize (IHl l' s Hl).
      destruct (split_t cmp l s) as [[[ll m] lr] tl].
      destruct (split_t cmp l' s) as [[[ll' m'] lr'] tl'].
      destruct IHl as (-> & A & B & C).
      destruct l as [|n1 a1 i1 t1 nn1 nb1 b1]; destruct l' as [|n2 a2 i2 t2 nn2 nb2 b2];
        cbn [sim] in Hl; try contradiction.
      * cbn [msim sim]. auto.
      * rewrite T0, (tn_sim _ _ B), (tn_sim _ _ Hr).
        split; [reflexivity|]. split; [exact A|]. split; [apply sim_mk; auto|exact C].
    + specialize (IHr r' s Hr).
      destruct (split_t cmp r s) as [[[rl m] rr] tr].
      destruct (split_t cmp r' s) as [[[rl' m'] rr'] tr'].
      destruct IHr as (-> & A & B & C).
      destruct r as [|n1 a1 i1 t1 nn1 nb1 b1]; destruct r' as [|n2 a2 i2 t2 nn2 nb2 b2];
        cbn [sim] in Hr; try contradiction.
      * cbn [msim sim]. auto.
      * rewrite T0, (tn_sim _ _ A), (tn_sim _ _ Hl).
        split; [reflexivity|]. split; [apply sim_mk; auto|]. split; [exact B|exact C].
Qed.

Lemma union_t_sim cmp : forall fuel a a' b b', sim a a' -> sim b b' ->
  match union_t cmp fuel a b, union_t cmp fuel a' b' with
  | Some (t, ts), Some (t', ts') => ts = ts' /\ sim t t'
  | None, None => True
  | _, _ => False
  end.
Proof.
  induction fuel as [|f IH]; intros a a' b b' Ha Hb; [exact I|].
  destruct a as [|n1 tl til ti_ nn1 nb1 tr]; destruct a' as [|n1' tl' til' ti_' nn1' nb1' tr'];
    cbn [sim] in Ha; try contradiction.
  { cbn [union_t]. split; [apply tn_sim|]; exact Hb. }
  assert (Hfa : sim (T n1 tl til ti_ nn1 nb1 tr) (T n1' tl' til' ti_' nn1' nb1' tr')) by exact Ha.
  destruct b as [|n2 al ail ai nn2 nb2 ar]; destruct b' as [|n2' al' ail' ai' nn2' nb2' ar'];
    cbn [sim] in Hb; try contradiction.
  { cbn [union_t]. split; [apply tn_sim|]; exact Hfa. }
  assert (Hfb : sim (T n2 al ail ai nn2 nb2 ar) (T n2' al' ail' ai' nn2' nb2' ar')) by exact Hb.
  destruct Ha as (_ & Hti & Htl & Htr). destruct Hb as (_ & Hai & Hal & Har).
  pose proof Hti as (_ & Hk1 & Hp1 & _). pose proof Hai as (_ & Hk2 & Hp2 & _).
  cbn [union_t]. rewrite <- Hp1, <- Hp2, <- Hk1, <- Hk2.
  rewrite <- (tn_sim _ _ Hfa), <- (tn_sim _ _ Hfb), <- (ti_sim _ _ Hfa), <- (ti_sim _ _ Hfb).
  destruct (iprio ti_ >? iprio ai).
  - pose proof (split_t_sim cmp _ _ (ikey ti_) Hfb) as Hs.
    destruct (split_t cmp (T n2 al ail ai nn2 nb2 ar) (ikey ti_)) as [[[l m] r] ts].
    destruct (split_t cmp (T n2' al' ail' ai' nn2' nb2' ar') (ikey ti_)) as [[[l' m'] r'] ts'].
    destruct Hs as (-> & A & B & C).
    pose proof (IH tl tl' l l' Htl A) as H1. pose proof (IH tr tr' r r' Htr B) as H2.
    destruct (union_t cmp f tl l) as [[nl t1]|]; destruct (union_t cmp f tl' l') as [[nl' t1']|];
      try contradiction; [|exact I].
    destruct (union_t cmp f tr r) as [[nr t2]|]; destruct (union_t cmp f tr' r') as [[nr' t2']|];
      try contradiction; [|exact I].
    destruct H1 as [-> H1]. destruct H2 as [-> H2].
    rewrite (tn_sim _ _ H1), (tn_sim _ _ H2). split; [reflexivity|].
    destruct m as [[mil mi]|]; destruct m' as [[mil' mi']|]; cbn [msim] in C; try contradiction;
      apply sim_mk; auto.
  - pose proof (split_t_sim cmp _ _ (ikey ai) Hfa) as Hs.
    destruct (split_t cmp (T n1 tl til ti_ nn1 nb1 tr) (ikey ai)) as [[[l m] r] ts].
    destruct (split_t cmp (T n1' tl' til' ti_' nn1' nb1' tr') (ikey ai)) as [[[l' m'] r'] ts'].
    destruct Hs as (-> & A & B & C).
    pose proof (IH l l' al al' A Hal) as H1. pose proof (IH r r' ar ar' B Har) as H2.
    destruct (union_t cmp f l al) as [[nl t1]|]; destruct (union_t cmp f l' al') as [[nl' t1']|];
      try contradiction; [|exact I].
    destruct (union_t cmp f r ar) as [[nr t2]|]; destruct (union_t cmp f r' ar') as [[nr' t2']|];
      try contradiction; [|exact I].
    destruct H1 as [-> H1]. destruct H2 as [-> H2].
    rewrite (tn_sim _ _ H1), (tn_sim _ _ H2). split; [reflexivity|].
    apply sim_mk; auto.
Qed.

Lemma sim_single key v v' prio : sim (single (mkItem key v prio)) (single (mkItem key v' prio)).
Proof. unfold single. cbn [sim]. repeat split. intro H. contradiction. Qed.

Theorem set_reads_value_irrelevant cmp t key v v' prio :
  set_treads cmp t key (Some v) prio = set_treads cmp t key (Some v') prio.
Proof.
  unfold set_treads. f_equal. unfold set_touches.
  assert (Hv : valid_item key (Some v) prio = valid_item key (Some v') prio) by (destruct key; reflexivity).
  rewrite <- Hv. destruct (valid_item key (Some v) prio); [|reflexivity].
  pose proof (union_t_sim cmp (S (S (height t))) t t _ _ (sim_refl t) (sim_single key v v' prio)) as H.
  destruct (union_t cmp (S (S (height t))) t (single (mkItem key v prio))) as [[t1 ts1]|];
    destruct (union_t cmp (S (S (height t))) t (single (mkItem key v' prio))) as [[t2 ts2]|];
    try contradiction; [|reflexivity].
  destruct H as [-> _]. reflexivity.
Qed.

(* ------------------------------------------------------------------ *)
(* M7: from the file: the tree the independent decoder loads is the persisted tree *)

Theorem mut_reads_file_spec cmp f t b set key prio :
  rep f t -> persisted t -> below t b -> (size t <= S (length f))%nat ->
  mut_reads_file cmp f (root_loc t) b set key prio =
  Some (if set then set_treads cmp t key (Some []) prio else del_treads cmp t key).
Proof.
  intros Hrep Hper Hb Hs. unfold mut_reads_file.
  pose proof (rep_height_le_file f t Hrep Hper) as Hh.
  rewrite (load_rep f t b (S (length f)) (S (length f)) Hrep Hper Hb Hs) by lia.
  reflexivity.
Qed.

(* ------------------------------------------------------------------ *)
(* M8: a record is read at most once per call *)

Fixpoint touch_offs (ts : list touch) : list Z :=
  match ts with [] => [] | TN p :: r => poff p :: touch_offs r | TI q _ :: r => poff q :: touch_offs r end.

(* reads_of reads exactly the records of the touches that are fresh (first touch of
   an offset not in the seen set); fresh touches have pairwise distinct offsets, none of them seen *)
Definition toff (x : touch) : Z := match x with TN p => poff p | TI q _ => poff q end.
Definition touch_reads (x : touch) : list rd :=
  match x with TN p => node_reads p | TI q it => item_reads q it false end.

Fixpoint fresh (s : list Z) (ts : list touch) : list touch :=
  match ts with
  | [] => []
  | x :: r => if seen (toff x) s then fresh s r else x :: fresh (toff x :: s) r
  end.

Lemma touch_offs_map ts : touch_offs ts = map toff ts.
Proof. induction ts as [|[p|q it] r IH]; cbn [touch_offs map toff]; [reflexivity| |]; now rewrite IH. Qed.

Lemma seen_spec o s : seen o s = true <-> In o s.
Proof.
  unfold seen. rewrite existsb_exists. split.
  - intros (x & Hx & He). apply Z.eqb_eq in He. now subst x.
  - intro H. exists o. split; [exact H|apply Z.eqb_refl].
Qed.

Lemma reads_of_fresh : forall ts s, reads_of s ts = flat_map touch_reads (fresh s ts).
Proof.
  induction ts as [|[p|q it] r IH]; intro s; [reflexivity| |]; cbn [reads_of fresh toff].
  - destruct (seen (poff p) s); [apply IH|]. cbn [flat_map touch_reads]. now rewrite IH.
  - destruct (seen (poff q) s); [apply IH|]. cbn [flat_map touch_reads]. now rewrite IH.
Qed.

Lemma fresh_sub : forall ts s x, In x (fresh s ts) -> In x ts /\ ~ In (toff x) s.
Proof.
  induction ts as [|y r IH]; intros s x H; [destruct H|].
  cbn [fresh] in H. destruct (seen (toff y) s) eqn:Es.
  - destruct (IH s x H) as [A B]. split; [now right|exact B].
  - destruct H as [<-|H].
    + split; [now left|]. intro Hin. apply seen_spec in Hin. congruence.
    + destruct (IH _ x H) as [A B]. split; [now right|]. intro Hin. apply B. now right.
Qed.

Theorem fresh_nodup : forall ts s, NoDup (touch_offs (fresh s ts)).
Proof.
  induction ts as [|y r IH]; intro s; [constructor|].
  cbn [fresh]. destruct (seen (toff y) s); [apply IH|].
  rewrite touch_offs_map. cbn [map]. constructor; [|rewrite <- touch_offs_map; apply IH].
  intro Hin. apply in_map_iff in Hin. destruct Hin as (x & Hx & Hin).
  destruct (fresh_sub _ _ _ Hin) as [_ B]. apply B. left. symmetry. exact Hx.
Qed.

(* corrected M8: a record whose offset is in the seen set is not read: every read belongs to a
   touch of ts whose offset is not in s, and these touches have pairwise distinct offsets *)
Theorem reads_of_first_only' s ts r :
  In r (reads_of s ts) -> exists x, In x ts /\ ~ In (toff x) s /\ In r (touch_reads x).
Proof.
  rewrite reads_of_fresh. intro H. apply in_flat_map in H. destruct H as (x & Hx & Hr).
  destruct (fresh_sub _ _ _ Hx) as [A B]. exists x. auto.
Qed.

(* ------------------------------------------------------------------ *)
(* non-vacuity (bytes.Compare is Base.cmp_bytes) *)
Example ex_set_reads : exists t, persisted t /\ set_treads cmp_bytes t [107%N] (Some []) 5 <> [].
Proof.
  exists (T (Some (mkPloc 100 39)) E (Some (mkPloc 0 20)) (mkItem [97%N] [1%N] 9) 1 2 E).
  split.
  - cbn [persisted]. repeat split; discriminate.
  - vm_compute. discriminate.
Qed.

(* whatever is cached: with any set s of records already in memory, the reads of GetItem(key, false), SetItem and
   Delete are still node records, item headers and keys only *)
Theorem mut_reads_any_cache cmp t key val prio k s :
  Forall (key_only t) (reads_of s (get_t cmp t k)) /\
  Forall (key_only t) (reads_of s (set_touches cmp t key val prio)) /\
  Forall (key_only t) (reads_of s (del_touches cmp t k)).
Proof.
  split; [|split]; apply reads_of_key_only; [apply get_t_in | apply set_touches_in | apply del_touches_in].
Qed.

Print Assumptions split_t_fst.
Print Assumptions join_t_fst.
Print Assumptions union_t_fst.
Print Assumptions get_t_in.
Print Assumptions set_touches_in.
Print Assumptions del_touches_in.
Print Assumptions reads_of_key_only.
Print Assumptions set_reads_keyonly.
Print Assumptions del_reads_keyonly.
Print Assumptions set_never_reads_values.
Print Assumptions del_never_reads_values.
Print Assumptions set_touches_result.
Print Assumptions del_touches_result.
Print Assumptions set_reads_value_irrelevant.
Print Assumptions mut_reads_file_spec.
Print Assumptions fresh_nodup.
Print Assumptions reads_of_first_only'.
Print Assumptions ex_set_reads.
Print Assumptions mut_reads_any_cache.
