(* LazyProofs.v — proofs about Lazy.v (C19): what GetItem / MinItem / MaxItem / NewStore
   read from the file when nothing is cached.

   L1  results of get_reads / minmax_reads = lookup / tmin / tmax
   L2  classification of the reads (node records, item header+key, at most one value)
   L3  records_disjoint: established (trees without locations) and preserved by write_tree
   L4  key-only operations never touch a value range
   L5  opening reads the 24-byte trailer and the root record, nothing else           *)
From GK Require Import Base Treap TreapSpec Store Codec CodecProofs Disk DiskProofs Lazy.
From Coq Require Import Lia ZArith NArith List Bool Permutation.
Import ListNotations.
Open Scope Z_scope.

(* ------------------------------------------------------------------ *)
(* 0. what rep says about a persisted node *)

Lemma rep_node_inv f nl l il it nn nb r :
  rep f (T nl l il it nn nb r) -> persisted (T nl l il it nn nb r) ->
  exists p q, nl = Some p /\ il = Some q /\
    plen p = node_len /\
    dec_node f p = Some (mkNodeRec (Some q) (root_loc l) (root_loc r) nn nb) /\
    plen q = item_loc_len it /\ dec_item f q = Some it /\
    rep f l /\ rep f r /\ persisted l /\ persisted r.
Proof.
  intros Hrep Hper. cbn [persisted] in Hper. destruct Hper as (Hnl & Hil & Hpl & Hpr).
  destruct nl as [p|]; [|congruence]. destruct il as [q|]; [|congruence].
  cbn [rep] in Hrep. destruct Hrep as (_ & Hl & Hr & Hplen & Hdn & Hit & _).
  destruct (Hit q eq_refl) as (Q1 & Q2 & _).
  exists p, q. repeat split; auto.
Qed.

Lemma persisted_root_None t : persisted t -> root_loc t = None -> t = E.
Proof. destruct t as [|nl l il it nn nb r]; [reflexivity|]. cbn. intros (H & _) E. congruence. Qed.

(* ------------------------------------------------------------------ *)
(* 1. the reads, computed on the tree *)

(* the reads of GetItem, as a function of the (persisted) tree *)
Fixpoint get_treads (cmp : bytes -> bytes -> comparison) (t : tree) (key : bytes) (wv : bool) : list rd :=
  match t with
  | E => []
  | T (Some p) l (Some q) it _ _ r =>
    node_reads p ++ item_reads q it false ++
    match cmp key (ikey it) with
    | Lt => get_treads cmp l key wv
    | Gt => get_treads cmp r key wv
    | Eq => if wv then item_reads q it true else []
    end
  | T _ _ _ _ _ _ _ => []
  end.

Lemma get_reads_tree cmp f key wv : forall t fuel,
  rep f t -> persisted t -> (height t < S fuel)%nat ->
  get_reads fuel cmp f (root_loc t) key wv = (get_treads cmp t key wv, lookup cmp t key).
Proof.
  induction t as [|nl l IHl il it nn nb r IHr]; intros fuel Hrep Hper Hh.
  - destruct fuel; reflexivity.
  - destruct (rep_node_inv _ _ _ _ _ _ _ _ Hrep Hper)
      as (p & q & -> & -> & Hpl & Hdn & Hql & Hdi & Rl & Rr & Pl & Pr).
    cbn [height] in Hh. destruct fuel as [|k]; [lia|].
    cbn [root_loc get_reads get_treads lookup]. rewrite Hdn. cbn [nr_item nr_left nr_right].
    rewrite Hdi. destruct (cmp key (ikey it)).
    + rewrite <- app_assoc. reflexivity.
    + rewrite IHl by (auto; lia). rewrite <- app_assoc. reflexivity.
    + rewrite IHr by (auto; lia). rewrite <- app_assoc. reflexivity.
Qed.

(* the reads of Store.walk below the root, as a function of the (persisted) tree *)
Fixpoint walk_treads (left wv : bool) (t : tree) : list rd :=
  match t with
  | E => []
  | T _ l (Some q) it _ _ r =>
    let wl := walk_treads left wv l in
    let wr := walk_treads left wv r in
    match (if left then l else r) with
    | E => item_reads q it wv
    | c => (match root_loc c with Some pc => node_reads pc | None => [] end) ++ (if left then wl else wr)
    end
  | T _ _ None _ _ _ _ => []
  end.

Definition tminmax (left : bool) (t : tree) : option item := if left then tmin t else tmax t.

Lemma tminmax_T left nl l il it nn nb r :
  tminmax left (T nl l il it nn nb r) =
  match (if left then l else r) with E => Some it | c => tminmax left c end.
Proof. destruct left; cbn [tminmax tmin tmax]; [destruct l|destruct r]; reflexivity. Qed.

(* the explicit fuel lemma for walk_reads: fuel >= height suffices *)
Lemma walk_reads_tree f left wv : forall t fuel p,
  rep f t -> persisted t -> root_loc t = Some p -> (height t <= fuel)%nat ->
  walk_reads fuel f p left wv = (walk_treads left wv t, tminmax left t).
Proof.
  induction t as [|nl l IHl il it nn nb r IHr]; intros fuel p0 Hrep Hper Hroot Hh; [discriminate|].
  destruct (rep_node_inv _ _ _ _ _ _ _ _ Hrep Hper)
    as (p & q & -> & -> & Hpl & Hdn & Hql & Hdi & Rl & Rr & Pl & Pr).
  cbn [root_loc] in Hroot. inversion Hroot; subst p0; clear Hroot.
  cbn [height] in Hh. destruct fuel as [|k]; [lia|].
  rewrite tminmax_T. cbn [walk_reads walk_treads]. rewrite Hdn. cbn [nr_item nr_left nr_right].
  destruct left.
  - destruct (root_loc l) as [c|] eqn:El.
    + assert (Hne : l <> E) by (intros ->; discriminate).
      rewrite (IHl k c) by (auto; lia).
      destruct l; [congruence|]. rewrite El. reflexivity.
    + rewrite (persisted_root_None l Pl El). rewrite Hdi. reflexivity.
  - destruct (root_loc r) as [c|] eqn:Er.
    + assert (Hne : r <> E) by (intros ->; discriminate).
      rewrite (IHr k c) by (auto; lia).
      destruct r; [congruence|]. rewrite Er. reflexivity.
    + rewrite (persisted_root_None r Pr Er). rewrite Hdi. reflexivity.
Qed.

(* the fuel S (length f) of minmax_reads is always enough for a represented persisted tree:
   node records are 52 bytes long, children lie below their parents, and the root record
   was read from inside the file *)
Lemma rep_height_file f : forall t, rep f t -> persisted t ->
  match root_loc t with
  | Some p => plen p = node_len /\ 0 <= poff p /\
              Z.of_nat (height t) * node_len <= poff p + node_len /\ poff p + node_len <= blen f
  | None => height t = 0%nat
  end.
Proof.
  induction t as [|nl l IHl il it nn nb r IHr]; intros Hrep Hper; [reflexivity|].
  pose proof Hrep as Hrep0.
  destruct (rep_node_inv _ _ _ _ _ _ _ _ Hrep Hper)
    as (p & q & -> & -> & Hpl & Hdn & Hql & Hdi & Rl & Rr & Pl & Pr).
  cbn [rep] in Hrep0. destruct Hrep0 as (_ & _ & _ & _ & _ & _ & Hll & Hrl).
  specialize (IHl Rl Pl). specialize (IHr Rr Pr).
  destruct (dec_node_inv _ _ _ Hdn) as (_ & Hp0).
  assert (Hin : poff p + node_len <= blen f).
  { unfold dec_node in Hdn. rewrite Hpl, Z.eqb_refl in Hdn. cbn [negb] in Hdn.
    destruct (read_at f (poff p) node_len) as [b|] eqn:Er; [|discriminate].
    apply read_at_inv in Er. change node_len with 52 in *. destruct Er as (_ & [Er|Er]); lia. }
  cbn [root_loc height]. change node_len with 52 in *.
  assert (Z.of_nat (height l) * 52 <= poff p).
  { destruct (root_loc l) as [ql|]; [specialize (Hll ql eq_refl)|]; lia. }
  assert (Z.of_nat (height r) * 52 <= poff p).
  { destruct (root_loc r) as [qr|]; [specialize (Hrl qr eq_refl)|]; lia. }
  lia.
Qed.

Lemma rep_height_le_file f t : rep f t -> persisted t -> (height t <= length f)%nat.
Proof.
  intros Hrep Hper. pose proof (rep_height_file f t Hrep Hper) as H.
  destruct (root_loc t) as [p|]; [|lia].
  unfold blen in H. change node_len with 52 in H. lia.
Qed.

Definition minmax_treads (left wv : bool) (t : tree) : list rd :=
  match root_loc t with
  | Some p => node_reads p ++ walk_treads left wv t
  | None => []
  end.

Lemma minmax_reads_tree f left wv t :
  rep f t -> persisted t ->
  minmax_reads f (root_loc t) left wv = (minmax_treads left wv t, tminmax left t).
Proof.
  intros Hrep Hper. unfold minmax_reads, minmax_treads.
  destruct (root_loc t) as [p|] eqn:E.
  - rewrite (walk_reads_tree f left wv t (S (length f)) p Hrep Hper E); [reflexivity|].
    pose proof (rep_height_le_file f t Hrep Hper). lia.
  - rewrite (persisted_root_None t Hper E). destruct left; reflexivity.
Qed.

(* ------------------------------------------------------------------ *)
(* L1 (results) *)

(* The fuel condition proved is height t <= fuel, weaker than the height t < fuel of
   STATEMENTS.md (L1_get_lt is that instance).  Neither comparator laws nor bst are needed
   for the equation with Treap.lookup; they only enter through lookup_spec (L1_get_find). *)
Theorem L1_get cmp f t l key wv fuel :
  rep f t -> persisted t -> root_loc t = l -> (height t <= fuel)%nat ->
  snd (get_reads fuel cmp f l key wv) = lookup cmp t key.
Proof.
  intros Hrep Hper <- Hh. rewrite (get_reads_tree cmp f key wv t fuel) by (auto; lia). reflexivity.
Qed.

Theorem L1_get_lt cmp f t l key wv fuel :
  cmp_laws cmp -> bst cmp t ->
  rep f t -> persisted t -> root_loc t = l -> (height t < fuel)%nat ->
  snd (get_reads fuel cmp f l key wv) = lookup cmp t key.
Proof. intros _ _ Hrep Hper Hl Hh. apply L1_get; auto; lia. Qed.

Theorem L1_get_find cmp f t l key wv fuel :
  cmp_laws cmp -> bst cmp t ->
  rep f t -> persisted t -> root_loc t = l -> (height t < fuel)%nat ->
  snd (get_reads fuel cmp f l key wv) = TreapSpec.find cmp key (elems t).
Proof.
  intros Hlaws Hbst Hrep Hper Hl Hh. rewrite <- (lookup_spec cmp Hlaws t key Hbst).
  apply L1_get; auto; lia.
Qed.

(* explicit fuel lemma for walk_reads (the recursion below the root) *)
Theorem L1_walk f t p left wv fuel :
  rep f t -> persisted t -> root_loc t = Some p -> (height t <= fuel)%nat ->
  snd (walk_reads fuel f p left wv) = if left then tmin t else tmax t.
Proof. intros Hrep Hper Hl Hh. rewrite (walk_reads_tree f left wv t fuel p); auto. Qed.

(* the fuel S (length f) built into minmax_reads always suffices: no fuel hypothesis *)
Theorem L1_min f t l wv :
  rep f t -> persisted t -> root_loc t = l -> snd (minmax_reads f l true wv) = tmin t.
Proof. intros Hrep Hper <-. rewrite minmax_reads_tree; auto. Qed.

Theorem L1_max f t l wv :
  rep f t -> persisted t -> root_loc t = l -> snd (minmax_reads f l false wv) = tmax t.
Proof. intros Hrep Hper <-. rewrite minmax_reads_tree; auto. Qed.

Theorem L1_height_fuel f t : rep f t -> persisted t -> (height t <= length f)%nat.
Proof. apply rep_height_le_file. Qed.

(* ------------------------------------------------------------------ *)
(* L2 (what is read) *)

Definition in_node (t : tree) (r : rd) : Prop :=
  exists p, In p (node_locs t) /\ r = Rd (poff p) (plen p).
Definition in_keypart (t : tree) (r : rd) : Prop :=
  exists q it, In (q, it) (item_locs t) /\
    (r = Rd (poff q) item_hdr_len \/ r = Rd (poff q + item_hdr_len) (blen (ikey it))).
Definition in_value (t : tree) (r : rd) : Prop :=
  exists q it, In (q, it) (item_locs t) /\ r = Rd (fst (value_range q it)) (blen (ival it)).

Definition key_only (t : tree) (r : rd) : Prop := in_node t r \/ in_keypart t r.
Definition any_read (t : tree) (r : rd) : Prop := in_node t r \/ in_keypart t r \/ in_value t r.

(* the three reads of itemLoc.read(withValue = true) *)
Definition full_item_reads (q : ploc) (it : item) : list rd :=
  [Rd (poff q) item_hdr_len; Rd (poff q + item_hdr_len) (blen (ikey it));
   Rd (fst (value_range q it)) (blen (ival it))].

Lemma item_reads_true q it : item_reads q it true = full_item_reads q it.
Proof. reflexivity. Qed.

Lemma item_reads_true_false q it :
  item_reads q it true = item_reads q it false ++ [Rd (fst (value_range q it)) (blen (ival it))].
Proof. reflexivity. Qed.

(* monotonicity in the tree *)
Lemma node_locs_l nl l il it nn nb r p : In p (node_locs l) -> In p (node_locs (T nl l il it nn nb r)).
Proof. intros H. cbn [node_locs]. apply in_or_app. now left. Qed.
Lemma node_locs_r nl l il it nn nb r p : In p (node_locs r) -> In p (node_locs (T nl l il it nn nb r)).
Proof. intros H. cbn [node_locs]. apply in_or_app. right. apply in_or_app. now right. Qed.
Lemma node_locs_here p l il it nn nb r : In p (node_locs (T (Some p) l il it nn nb r)).
Proof. cbn [node_locs]. apply in_or_app. right. apply in_or_app. left. now left. Qed.
Lemma item_locs_l nl l il it nn nb r x : In x (item_locs l) -> In x (item_locs (T nl l il it nn nb r)).
Proof. intros H. cbn [item_locs]. apply in_or_app. now left. Qed.
Lemma item_locs_r nl l il it nn nb r x : In x (item_locs r) -> In x (item_locs (T nl l il it nn nb r)).
Proof. intros H. cbn [item_locs]. apply in_or_app. right. apply in_or_app. now right. Qed.
Lemma item_locs_here nl l q it nn nb r : In (q, it) (item_locs (T nl l (Some q) it nn nb r)).
Proof. cbn [item_locs]. apply in_or_app. right. apply in_or_app. left. now left. Qed.

Lemma root_loc_in_node_locs t p : root_loc t = Some p -> In p (node_locs t).
Proof. destruct t as [|nl l il it nn nb r]; [discriminate|]. cbn [root_loc]. intros ->. apply node_locs_here. Qed.

Lemma key_only_l nl l il it nn nb r x : key_only l x -> key_only (T nl l il it nn nb r) x.
Proof.
  intros [(p & Hp & ->)|(q & i & Hq & Hr)]; [left|right].
  - exists p. split; [now apply node_locs_l|reflexivity].
  - exists q, i. split; [now apply item_locs_l|assumption].
Qed.
Lemma key_only_r nl l il it nn nb r x : key_only r x -> key_only (T nl l il it nn nb r) x.
Proof.
  intros [(p & Hp & ->)|(q & i & Hq & Hr)]; [left|right].
  - exists p. split; [now apply node_locs_r|reflexivity].
  - exists q, i. split; [now apply item_locs_r|assumption].
Qed.

Lemma key_only_node p l il it nn nb r :
  Forall (key_only (T (Some p) l il it nn nb r)) (node_reads p).
Proof. apply Forall_cons; [|apply Forall_nil]. left. exists p. split; [apply node_locs_here|reflexivity]. Qed.

Lemma key_only_item nl l q it nn nb r :
  Forall (key_only (T nl l (Some q) it nn nb r)) (item_reads q it false).
Proof.
  cbn [item_reads app]. apply Forall_cons; [|apply Forall_cons; [|apply Forall_nil]];
    right; exists q, it; (split; [apply item_locs_here|]); auto.
Qed.

Lemma Forall_app_intro {A} (P : A -> Prop) l1 l2 : Forall P l1 -> Forall P l2 -> Forall P (l1 ++ l2).
Proof. intros. apply Forall_app. now split. Qed.

(* --- GetItem --- *)
Lemma get_treads_key_only cmp key : forall t, Forall (key_only t) (get_treads cmp t key false).
Proof.
  induction t as [|nl l IHl il it nn nb r IHr]; [constructor|].
  cbn [get_treads]. destruct nl as [p|]; [|constructor]. destruct il as [q|]; [|constructor].
  apply Forall_app_intro; [apply key_only_node|]. apply Forall_app_intro; [apply key_only_item|].
  destruct (cmp key (ikey it)); [constructor| |].
  - eapply Forall_impl; [|exact IHl]. intros x. apply key_only_l.
  - eapply Forall_impl; [|exact IHr]. intros x. apply key_only_r.
Qed.

(* the located item GetItem finds *)
Fixpoint get_found (cmp : bytes -> bytes -> comparison) (t : tree) (key : bytes) : option (ploc * item) :=
  match t with
  | E => None
  | T (Some p) l (Some q) it _ _ r =>
    match cmp key (ikey it) with
    | Lt => get_found cmp l key
    | Gt => get_found cmp r key
    | Eq => Some (q, it)
    end
  | T _ _ _ _ _ _ _ => None
  end.

Lemma get_treads_true cmp key : forall t,
  get_treads cmp t key true = get_treads cmp t key false ++
    match get_found cmp t key with Some (q, it) => full_item_reads q it | None => [] end.
Proof.
  induction t as [|nl l IHl il it nn nb r IHr]; [reflexivity|].
  cbn [get_treads get_found]. destruct nl as [p|]; [|reflexivity]. destruct il as [q|]; [|reflexivity].
  destruct (cmp key (ikey it)).
  - rewrite app_nil_r. rewrite <- !app_assoc. reflexivity.
  - rewrite IHl. rewrite <- !app_assoc. reflexivity.
  - rewrite IHr. rewrite <- !app_assoc. reflexivity.
Qed.

Lemma get_found_spec cmp key : forall t, persisted t ->
  match get_found cmp t key with
  | Some (q, it) => In (q, it) (item_locs t) /\ lookup cmp t key = Some it
  | None => lookup cmp t key = None
  end.
Proof.
  induction t as [|nl l IHl il it nn nb r IHr]; intros Hper; [reflexivity|].
  cbn [persisted] in Hper. destruct Hper as (Hnl & Hil & Pl & Pr).
  destruct nl as [p|]; [|congruence]. destruct il as [q|]; [|congruence].
  cbn [get_found lookup]. destruct (cmp key (ikey it)).
  - split; [apply item_locs_here|reflexivity].
  - specialize (IHl Pl). destruct (get_found cmp l key) as [[q' i']|]; [|assumption].
    destruct IHl as (H1 & H2). split; [now apply item_locs_l|assumption].
  - specialize (IHr Pr). destruct (get_found cmp r key) as [[q' i']|]; [|assumption].
    destruct IHr as (H1 & H2). split; [now apply item_locs_r|assumption].
Qed.

(* L2 for GetItem(withValue = false): only node records, item headers and keys *)
Theorem L2_get_false cmp f t l key fuel :
  rep f t -> persisted t -> root_loc t = l -> (height t <= fuel)%nat ->
  Forall (fun r => in_node t r \/ in_keypart t r) (fst (get_reads fuel cmp f l key false)).
Proof.
  intros Hrep Hper <- Hh. rewrite (get_reads_tree cmp f key false t fuel) by (auto; lia).
  apply get_treads_key_only.
Qed.

(* L2 for GetItem(withValue = true): the reads are those of withValue = false followed, on a
   hit, by the three reads (header, key, value) of the item found; on a miss by nothing.
   So exactly one value read occurs on a hit, none on a miss, and it is the last read. *)
Theorem L2_get_true cmp f t l key fuel :
  rep f t -> persisted t -> root_loc t = l -> (height t <= fuel)%nat ->
  exists tail,
    fst (get_reads fuel cmp f l key true) = fst (get_reads fuel cmp f l key false) ++ tail /\
    Forall (fun r => in_node t r \/ in_keypart t r) (fst (get_reads fuel cmp f l key false)) /\
    match lookup cmp t key with
    | None => tail = []
    | Some it => exists q, In (q, it) (item_locs t) /\
        tail = [Rd (poff q) item_hdr_len; Rd (poff q + item_hdr_len) (blen (ikey it));
                Rd (fst (value_range q it)) (blen (ival it))]
    end.
Proof.
  intros Hrep Hper <- Hh.
  rewrite !(get_reads_tree cmp f key _ t fuel) by (auto; lia). cbn [fst].
  rewrite get_treads_true. pose proof (get_found_spec cmp key t Hper) as Hf.
  destruct (get_found cmp t key) as [[q it]|].
  - destruct Hf as (Hin & Hlk). exists (full_item_reads q it). split; [reflexivity|].
    split; [apply get_treads_key_only|]. rewrite Hlk. exists q. split; [assumption|reflexivity].
  - exists []. split; [reflexivity|]. split; [apply get_treads_key_only|]. now rewrite Hf.
Qed.

Lemma full_item_reads_any t q it : In (q, it) (item_locs t) -> Forall (any_read t) (full_item_reads q it).
Proof.
  intros Hin. unfold full_item_reads. apply Forall_cons; [|apply Forall_cons; [|apply Forall_cons; [|apply Forall_nil]]].
  - right; left. exists q, it. auto.
  - right; left. exists q, it. auto.
  - right; right. exists q, it. auto.
Qed.

Theorem L2_get_true_all cmp f t l key fuel :
  rep f t -> persisted t -> root_loc t = l -> (height t <= fuel)%nat ->
  Forall (fun r => in_node t r \/ in_keypart t r \/ in_value t r) (fst (get_reads fuel cmp f l key true)).
Proof.
  intros Hrep Hper Hl Hh.
  destruct (L2_get_true cmp f t l key fuel Hrep Hper Hl Hh) as (tail & -> & Hk & Ht).
  apply Forall_app_intro.
  - eapply Forall_impl; [|exact Hk]. intros x [H|H]; [left|right; left]; assumption.
  - destruct (lookup cmp t key) as [it|]; [|subst tail; constructor].
    destruct Ht as (q & Hin & ->). apply (full_item_reads_any t q it Hin).
Qed.

(* --- MinItem / MaxItem --- *)
(* the located extreme item *)
Fixpoint ext_loc (left : bool) (t : tree) : option (ploc * item) :=
  match t with
  | E => None
  | T _ l il it _ _ r =>
    let el := ext_loc left l in
    let er := ext_loc left r in
    match (if left then l else r) with
    | E => match il with Some q => Some (q, it) | None => None end
    | _ => if left then el else er
    end
  end.

Lemma walk_treads_key_only left : forall t, Forall (key_only t) (walk_treads left false t).
Proof.
  induction t as [|nl l IHl il it nn nb r IHr]; [constructor|].
  cbn [walk_treads]. destruct il as [q|]; [|constructor].
  destruct left.
  - destruct l as [|nl' l' il' it' nn' nb' r']; [apply key_only_item|].
    apply Forall_app_intro.
    + destruct nl' as [pc|]; cbn [root_loc]; [|constructor].
      eapply Forall_impl; [|apply key_only_node]. intros x. apply key_only_l.
    + eapply Forall_impl; [|exact IHl]. intros x. apply key_only_l.
  - destruct r as [|nl' l' il' it' nn' nb' r']; [apply key_only_item|].
    apply Forall_app_intro.
    + destruct nl' as [pc|]; cbn [root_loc]; [|constructor].
      eapply Forall_impl; [|apply key_only_node]. intros x. apply key_only_r.
    + eapply Forall_impl; [|exact IHr]. intros x. apply key_only_r.
Qed.

Lemma walk_treads_true left : forall t, persisted t ->
  walk_treads left true t = walk_treads left false t ++
    match ext_loc left t with Some (q, it) => [Rd (fst (value_range q it)) (blen (ival it))] | None => [] end.
Proof.
  induction t as [|nl l IHl il it nn nb r IHr]; intros Hper; [reflexivity|].
  cbn [persisted] in Hper. destruct Hper as (Hnl & Hil & Pl & Pr).
  destruct il as [q|]; [|congruence].
  cbn [walk_treads ext_loc]. destruct left.
  - destruct l as [|nl' l' il' it' nn' nb' r']; [apply item_reads_true_false|].
    rewrite (IHl Pl). rewrite <- app_assoc. reflexivity.
  - destruct r as [|nl' l' il' it' nn' nb' r']; [apply item_reads_true_false|].
    rewrite (IHr Pr). rewrite <- app_assoc. reflexivity.
Qed.

Lemma ext_loc_spec left : forall t, persisted t ->
  match ext_loc left t with
  | Some (q, it) => In (q, it) (item_locs t) /\ tminmax left t = Some it
  | None => tminmax left t = None
  end.
Proof.
  induction t as [|nl l IHl il it nn nb r IHr]; intros Hper; [destruct left; reflexivity|].
  cbn [persisted] in Hper. destruct Hper as (Hnl & Hil & Pl & Pr).
  destruct il as [q|]; [|congruence].
  rewrite tminmax_T. cbn [ext_loc]. destruct left.
  - destruct l as [|nl' l' il' it' nn' nb' r']; [split; [apply item_locs_here|reflexivity]|].
    specialize (IHl Pl). destruct (ext_loc true (T nl' l' il' it' nn' nb' r')) as [[q' i']|]; [|assumption].
    destruct IHl as (H1 & H2). split; [now apply item_locs_l|assumption].
  - destruct r as [|nl' l' il' it' nn' nb' r']; [split; [apply item_locs_here|reflexivity]|].
    specialize (IHr Pr). destruct (ext_loc false (T nl' l' il' it' nn' nb' r')) as [[q' i']|]; [|assumption].
    destruct IHr as (H1 & H2). split; [now apply item_locs_r|assumption].
Qed.

Lemma minmax_treads_key_only left t : Forall (key_only t) (minmax_treads left false t).
Proof.
  unfold minmax_treads. destruct (root_loc t) as [p|] eqn:E; [|constructor].
  apply Forall_app_intro; [|apply walk_treads_key_only].
  apply Forall_cons; [|apply Forall_nil]. left. exists p. split; [now apply root_loc_in_node_locs|reflexivity].
Qed.

(* L2 for MinItem / MaxItem (withValue = false) *)
Theorem L2_minmax_false f t l left :
  rep f t -> persisted t -> root_loc t = l ->
  Forall (fun r => in_node t r \/ in_keypart t r) (fst (minmax_reads f l left false)).
Proof.
  intros Hrep Hper <-. rewrite minmax_reads_tree by auto. apply minmax_treads_key_only.
Qed.

(* L2 for MinItem / MaxItem (withValue = true): the reads of withValue = false followed by
   exactly one value read, of the minimum / maximum item (nothing on an empty tree) *)
Theorem L2_minmax_true f t l left :
  rep f t -> persisted t -> root_loc t = l ->
  exists tail,
    fst (minmax_reads f l left true) = fst (minmax_reads f l left false) ++ tail /\
    Forall (fun r => in_node t r \/ in_keypart t r) (fst (minmax_reads f l left false)) /\
    match (if left then tmin t else tmax t) with
    | None => tail = []
    | Some it => exists q, In (q, it) (item_locs t) /\ tail = [Rd (fst (value_range q it)) (blen (ival it))]
    end.
Proof.
  intros Hrep Hper <-. rewrite !minmax_reads_tree by auto. cbn [fst].
  pose proof (ext_loc_spec left t Hper) as Hs. unfold minmax_treads.
  destruct (root_loc t) as [p|] eqn:E.
  - rewrite (walk_treads_true left t Hper).
    exists (match ext_loc left t with
            | Some (q, it) => [Rd (fst (value_range q it)) (blen (ival it))] | None => [] end).
    split; [now rewrite app_assoc|].
    split.
    + pose proof (minmax_treads_key_only left t) as H. unfold minmax_treads in H. now rewrite E in H.
    + fold (tminmax left t). destruct (ext_loc left t) as [[q it]|].
      * destruct Hs as (H1 & ->). exists q. auto.
      * now rewrite Hs.
  - exists []. split; [reflexivity|]. split; [constructor|].
    rewrite (persisted_root_None t Hper E). destruct left; reflexivity.
Qed.

Theorem L2_minmax_true_all f t l left :
  rep f t -> persisted t -> root_loc t = l ->
  Forall (fun r => in_node t r \/ in_keypart t r \/ in_value t r) (fst (minmax_reads f l left true)).
Proof.
  intros Hrep Hper Hl.
  destruct (L2_minmax_true f t l left Hrep Hper Hl) as (tail & -> & Hk & Ht).
  apply Forall_app_intro.
  - eapply Forall_impl; [|exact Hk]. intros x [H|H]; [left|right; left]; assumption.
  - destruct (if left then tmin t else tmax t) as [it|]; [|subst tail; constructor].
    destruct Ht as (q & Hin & ->). apply Forall_cons; [|apply Forall_nil].
    right; right. exists q, it. auto.
Qed.

(* ------------------------------------------------------------------ *)
(* L5 (C19: opening is O(1)) *)
Theorem L5_open f m :
  root_at f (blen f) = Some m ->
  exists t o,
    read_at f (blen f - roots_end_len) roots_end_len = Some t /\ o = de (sub t 0 8) /\
    open_reads f = [Rd (blen f - 24) 24; Rd o (blen f - o - 24)] /\
    (* both ranges lie inside the root record [o, blen f) *)
    0 <= o /\ o <= blen f - 24 /\ blen f - 24 + 24 <= blen f /\
    0 <= blen f - o - 24 /\ o + (blen f - o - 24) <= blen f /\
    (* the record is at least an empty root record; its recorded length is its extent *)
    roots_len < blen f - o /\ de (sub t 8 4) = (blen f - o) mod two32 /\
    (* the backward scan of decode_store finds this record at its first probe *)
    scan f (blen f) = ScanFound (blen f) m.
Proof.
  intros Hr.
  assert (Hs : scan f (blen f) = ScanFound (blen f) m).
  { apply scan_complete; [assumption|lia|intros e' He'; lia]. }
  unfold root_at in Hr. unfold open_reads. cbv zeta.
  destruct (blen f <=? roots_len); [discriminate|].
  destruct (read_at f (blen f - roots_end_len) roots_end_len) as [t|]; [|discriminate].
  destruct (negb (beq (sub t 12 6) magic_end && beq (sub t 18 6) magic_end)); [discriminate|].
  cbv zeta in Hr.
  destruct ((de (sub t 0 8) <? two63) && (de (sub t 0 8) <? blen f - roots_len) &&
            (de (sub t 8 4) =? (blen f - de (sub t 0 8)) mod two32)) eqn:Ec; [|discriminate].
  apply andb_prop in Ec. destruct Ec as (Ec & E3). apply andb_prop in Ec. destruct Ec as (E1 & E2).
  apply Z.ltb_lt in E2. apply Z.eqb_eq in E3.
  pose proof (de_nonneg (sub t 0 8)) as H0.
  exists t, (de (sub t 0 8)). change roots_end_len with 24 in *. change roots_len with 44 in *.
  repeat split; auto; lia.
Qed.

(* ------------------------------------------------------------------ *)
(* L3 / L4: records do not overlap *)

(* a record of the file referenced by a tree: a node record or an item record *)
Inductive record := RNode (p : ploc) | RItem (q : ploc) (it : item).

(* the half-open interval [fst, snd) a record occupies *)
Definition rspan (x : record) : Z * Z :=
  match x with
  | RNode p => (poff p, poff p + plen p)
  | RItem q _ => (poff q, poff q + plen q)
  end.

Definition idisj (a b : Z * Z) : Prop := snd a <= fst b \/ snd b <= fst a.
Definition rdisj (x y : record) : Prop := idisj (rspan x) (rspan y).

Definition node_records (t : tree) : list record := map RNode (node_locs t).
Definition item_records (t : tree) : list record := map (fun x => RItem (fst x) (snd x)) (item_locs t).
Definition records (t : tree) : list record := node_records t ++ item_records t.

(* every two entries (at different positions) of the list of records of t occupy disjoint intervals *)
Definition records_disjoint (t : tree) : Prop := ForallOrdPairs rdisj (records t).

Lemma rdisj_sym x y : rdisj x y -> rdisj y x.
Proof. unfold rdisj, idisj. tauto. Qed.

Lemma FOP_app_iff {A} (R : A -> A -> Prop) (l1 l2 : list A) :
  ForallOrdPairs R (l1 ++ l2) <->
  ForallOrdPairs R l1 /\ ForallOrdPairs R l2 /\ (forall a b, In a l1 -> In b l2 -> R a b).
Proof.
  induction l1 as [|x l1 IH]; cbn [app].
  - split; [intros H; split; [constructor|split; [assumption|intros a b []]]|tauto].
  - split.
    + intros H. inversion H as [|? ? Hx Hr]; subst. apply IH in Hr. destruct Hr as (H1 & H2 & H3).
      rewrite Forall_app in Hx. destruct Hx as (Hx1 & Hx2).
      split; [constructor; assumption|]. split; [assumption|].
      intros a b [<-|Ha] Hb; [|now apply H3]. rewrite Forall_forall in Hx2. now apply Hx2.
    + intros (H1 & H2 & H3). inversion H1 as [|? ? Hx Hr]; subst. constructor.
      * apply Forall_app. split; [assumption|]. apply Forall_forall. intros b Hb. apply H3; simpl; auto.
      * apply IH. split; [assumption|]. split; [assumption|]. intros a b Ha Hb. apply H3; simpl; auto.
Qed.

Lemma FOP_map {A B} (g : A -> B) (R : B -> B -> Prop) (l : list A) :
  ForallOrdPairs R (map g l) <-> ForallOrdPairs (fun a b => R (g a) (g b)) l.
Proof.
  induction l as [|x l IH]; cbn [map]; [split; constructor|].
  split; intros H; inversion H as [|? ? Hx Hr]; subst; constructor.
  - rewrite Forall_map in Hx. assumption.
  - now apply IH.
  - rewrite Forall_map. assumption.
  - now apply IH.
Qed.

Lemma FOP_single {A} (R : A -> A -> Prop) x : ForallOrdPairs R [x].
Proof. constructor; constructor. Qed.

(* two entries of a disjoint list are the same record or occupy disjoint intervals *)
Lemma records_disjoint_In t x y :
  records_disjoint t -> In x (records t) -> In y (records t) -> x = y \/ rdisj x y.
Proof.
  intros H Hx Hy. destruct (ForallOrdPairs_In H x y Hx Hy) as [E|[D|D]]; auto using rdisj_sym.
Qed.

Lemma in_node_records t p : In p (node_locs t) -> In (RNode p) (records t).
Proof. intros H. apply in_or_app. left. now apply in_map. Qed.
Lemma in_item_records t q it : In (q, it) (item_locs t) -> In (RItem q it) (records t).
Proof.
  intros H. apply in_or_app. right. unfold item_records.
  change (RItem q it) with ((fun x : ploc * item => RItem (fst x) (snd x)) (q, it)). now apply in_map.
Qed.

(* rep gives the lengths of item records *)
Lemma rep_item_lens f : forall t, rep f t ->
  forall q it, In (q, it) (item_locs t) -> plen q = item_loc_len it /\ dec_item f q = Some it.
Proof.
  induction t as [|nl l IHl il it nn nb r IHr]; intros Hrep q i Hin; [destruct Hin|].
  assert (Hl : rep f l) by (destruct nl; cbn [rep] in Hrep; tauto).
  assert (Hr : rep f r) by (destruct nl; cbn [rep] in Hrep; tauto).
  cbn [item_locs] in Hin. apply in_app_or in Hin. destruct Hin as [Hin|Hin]; [eauto|].
  apply in_app_or in Hin. destruct Hin as [Hin|Hin]; [|eauto].
  destruct il as [q0|]; [|destruct Hin]. destruct Hin as [Hin|[]]. inversion Hin; subst q0 i.
  destruct nl as [p|]; cbn [rep] in Hrep.
  - destruct Hrep as (_ & _ & _ & _ & _ & Hit & _). destruct (Hit q eq_refl) as (H1 & H2 & _). auto.
  - destruct Hrep as (_ & _ & Hit). apply (Hit q eq_refl).
Qed.

(* L4, core: a key-only read never meets a value range *)
Lemma key_only_disjoint_value t :
  records_disjoint t ->
  (forall q it, In (q, it) (item_locs t) -> plen q = item_loc_len it) ->
  forall r, in_node t r \/ in_keypart t r ->
  forall q it, In (q, it) (item_locs t) -> rd_disjoint r (value_range q it).
Proof.
  intros Hd Hlen r Hr q it Hin.
  pose proof (Hlen q it Hin) as Hq. rewrite item_loc_len_eq in Hq.
  pose proof (blen_nonneg (ikey it)) as Hk. pose proof (blen_nonneg (ival it)) as Hv.
  pose proof (in_item_records t q it Hin) as Hy.
  unfold value_range. change item_hdr_len with 16 in *.
  destruct Hr as [(p & Hp & ->)|(q' & it' & Hin' & Hr)].
  - destruct (records_disjoint_In t (RNode p) (RItem q it) Hd (in_node_records t p Hp) Hy) as [E|D];
      [discriminate|].
    unfold rdisj, idisj in D. cbn [rspan fst snd] in D. cbn [rd_disjoint fst snd]. lia.
  - pose proof (Hlen q' it' Hin') as Hq'. rewrite item_loc_len_eq in Hq'.
    pose proof (blen_nonneg (ikey it')) as Hk'. pose proof (blen_nonneg (ival it')) as Hv'.
    destruct (records_disjoint_In t (RItem q' it') (RItem q it) Hd (in_item_records t q' it' Hin') Hy)
      as [E|D].
    + inversion E; subst q' it'.
      destruct Hr as [->| ->]; cbn [rd_disjoint fst snd]; change item_hdr_len with 16; lia.
    + unfold rdisj, idisj in D. cbn [rspan fst snd] in D.
      destruct Hr as [->| ->]; cbn [rd_disjoint fst snd]; change item_hdr_len with 16; lia.
Qed.

(* L4 (C19): key-only operations never read a byte of any value *)
Theorem L4_get cmp f t l key fuel :
  rep f t -> persisted t -> root_loc t = l -> (height t <= fuel)%nat -> records_disjoint t ->
  forall r, In r (fst (get_reads fuel cmp f l key false)) ->
  forall q it, In (q, it) (item_locs t) -> rd_disjoint r (value_range q it).
Proof.
  intros Hrep Hper Hl Hh Hd r Hr q it Hin.
  pose proof (L2_get_false cmp f t l key fuel Hrep Hper Hl Hh) as H2. rewrite Forall_forall in H2.
  apply (key_only_disjoint_value t Hd); auto.
  intros q' it' Hin'. apply (rep_item_lens f t Hrep q' it' Hin').
Qed.

Theorem L4_minmax f t l left :
  rep f t -> persisted t -> root_loc t = l -> records_disjoint t ->
  forall r, In r (fst (minmax_reads f l left false)) ->
  forall q it, In (q, it) (item_locs t) -> rd_disjoint r (value_range q it).
Proof.
  intros Hrep Hper Hl Hd r Hr q it Hin.
  pose proof (L2_minmax_false f t l left Hrep Hper Hl) as H2. rewrite Forall_forall in H2.
  apply (key_only_disjoint_value t Hd); auto.
  intros q' it' Hin'. apply (rep_item_lens f t Hrep q' it' Hin').
Qed.

(* ------------------------------------------------------------------ *)
(* L3: records_disjoint is established by trees without locations and preserved by write_tree *)

Definition lspan (p : ploc) : Z * Z := (poff p, poff p + plen p).
Definition pdisj (p p' : ploc) : Prop := idisj (lspan p) (lspan p').
Definition xdisj (x y : ploc * item) : Prop := pdisj (fst x) (fst y).

Ltac unf := unfold xdisj, pdisj, idisj, lspan in *; cbn [fst snd poff plen] in *.

Lemma records_disjoint_iff t :
  records_disjoint t <->
  ForallOrdPairs pdisj (node_locs t) /\ ForallOrdPairs xdisj (item_locs t) /\
  (forall p x, In p (node_locs t) -> In x (item_locs t) -> pdisj p (fst x)).
Proof.
  unfold records_disjoint, records. rewrite FOP_app_iff. unfold node_records, item_records.
  rewrite !FOP_map.
  split; intros (H1 & H2 & H3); (split; [exact H1|split; [exact H2|]]).
  - intros p x Hp Hx.
    apply (H3 (RNode p) (RItem (fst x) (snd x))); [now apply in_map|].
    now apply (in_map (fun x => RItem (fst x) (snd x))).
  - intros a b Ha Hb. apply in_map_iff in Ha. destruct Ha as (p & <- & Hp).
    apply in_map_iff in Hb. destruct Hb as (x & <- & Hx). exact (H3 p x Hp Hx).
Qed.

Lemma FOP_three {A} (R : A -> A -> Prop) l1 m l2 :
  ForallOrdPairs R (l1 ++ m ++ l2) <->
  ForallOrdPairs R l1 /\ ForallOrdPairs R m /\ ForallOrdPairs R l2 /\
  (forall a b, In a l1 -> In b m -> R a b) /\ (forall a b, In a l1 -> In b l2 -> R a b) /\
  (forall a b, In a m -> In b l2 -> R a b).
Proof.
  rewrite !FOP_app_iff. split.
  - intros (H1 & (H2 & H3 & H4) & H5). repeat split; auto; intros a b Ha Hb; apply H5; auto;
      apply in_or_app; auto.
  - intros (H1 & H2 & H3 & H4 & H5 & H6). repeat split; auto.
    intros a b Ha Hb. apply in_app_or in Hb. destruct Hb; auto.
Qed.

Lemma FOP_opt {A} (R : A -> A -> Prop) (o : option A) :
  ForallOrdPairs R (match o with Some x => [x] | None => [] end).
Proof. destruct o; [apply FOP_single|constructor]. Qed.

(* every location of t lies below b *)
Lemma below_node_locs : forall t b, below t b ->
  forall p, In p (node_locs t) -> 0 <= poff p /\ poff p + plen p <= b.
Proof.
  induction t as [|nl l IHl il it nn nb r IHr]; intros b Hb p Hin; [destruct Hin|].
  cbn [below] in Hb. destruct Hb as (H1 & H2 & H3 & H4).
  cbn [node_locs] in Hin. apply in_app_or in Hin. destruct Hin as [Hin|Hin]; [eauto|].
  apply in_app_or in Hin. destruct Hin as [Hin|Hin]; [|eauto].
  destruct nl as [p0|]; [|destruct Hin]. destruct Hin as [<-|[]]. exact H1.
Qed.

Lemma below_item_locs : forall t b, below t b ->
  forall x, In x (item_locs t) -> 0 <= poff (fst x) /\ poff (fst x) + plen (fst x) <= b.
Proof.
  induction t as [|nl l IHl il it nn nb r IHr]; intros b Hb x Hin; [destruct Hin|].
  cbn [below] in Hb. destruct Hb as (H1 & H2 & H3 & H4).
  cbn [item_locs] in Hin. apply in_app_or in Hin. destruct Hin as [Hin|Hin]; [eauto|].
  apply in_app_or in Hin. destruct Hin as [Hin|Hin]; [|eauto].
  destruct il as [q0|]; [|destruct Hin]. destruct Hin as [<-|[]]. exact H2.
Qed.

(* stage 1: write_items keeps the node locations; the new item records are laid end to end
   in [size, s1) *)
Lemma write_items_locs : forall t f size f1 s1 t1,
  write_items f size t = (f1, s1, t1) ->
  (forall x, In x (item_locs t) -> poff (fst x) + plen (fst x) <= size) ->
  ForallOrdPairs xdisj (item_locs t) ->
  node_locs t1 = node_locs t /\ ForallOrdPairs xdisj (item_locs t1) /\
  (forall x, In x (item_locs t1) ->
     (In x (item_locs t) \/ size <= poff (fst x)) /\ poff (fst x) + plen (fst x) <= s1).
Proof.
  induction t as [|nl l IHl il it nn nb r IHr]; intros f size f1 s1 t1 H Hlt Hd; cbn [write_items] in H.
  - inversion H; subst. split; [reflexivity|]. split; [constructor|intros x []].
  - destruct nl as [p|].
    { inversion H; subst. split; [reflexivity|]. split; [assumption|].
      intros x Hx. split; [now left|now apply Hlt]. }
    destruct (write_items f size l) as [[fa sa] la] eqn:El.
    pose proof (write_items_mono _ _ _ _ _ _ El) as Hm1.
    pose proof (item_loc_len_ge it) as Hge.
    cbn [item_locs] in Hlt, Hd. apply FOP_three in Hd.
    destruct Hd as (Dl & Dm & Dr & Dlm & Dlr & Dmr).
    assert (Hltl : forall x, In x (item_locs l) -> poff (fst x) + plen (fst x) <= size)
      by (intros; apply Hlt; apply in_or_app; now left).
    assert (Hltr : forall x, In x (item_locs r) -> poff (fst x) + plen (fst x) <= size)
      by (intros; apply Hlt; apply in_or_app; right; apply in_or_app; now right).
    destruct (IHl _ _ _ _ _ El Hltl Dl) as (A0 & A1 & A2).
    destruct il as [q|].
    + destruct (write_items fa sa r) as [[fb sb] rb] eqn:Er. inversion H; subst; clear H.
      pose proof (write_items_mono _ _ _ _ _ _ Er) as Hm2.
      assert (Hltq : poff q + plen q <= size)
        by (apply (Hlt (q, it)); apply in_or_app; right; apply in_or_app; left; now left).
      destruct (IHr _ _ _ _ _ Er) as (B0 & B1 & B2); [intros x Hx; specialize (Hltr x Hx); lia|assumption|].
      cbn [node_locs item_locs]. split; [now rewrite A0, B0|]. split.
      * apply FOP_three. split; [assumption|]. split; [apply FOP_single|]. split; [assumption|].
        split; [|split].
        -- intros a b Ha [<-|[]]. destruct (A2 a Ha) as ([Ha1|Ha1] & Ha2).
           ++ apply Dlm; simpl; auto.
           ++ unf. lia.
        -- intros a b Ha Hb. destruct (A2 a Ha) as ([Ha1|Ha1] & Ha2); destruct (B2 b Hb) as ([Hb1|Hb1] & Hb2).
           ++ now apply Dlr.
           ++ specialize (Hltl a Ha1). unf. lia.
           ++ specialize (Hltr b Hb1). unf. lia.
           ++ unf. lia.
        -- intros a b [<-|[]] Hb. destruct (B2 b Hb) as ([Hb1|Hb1] & Hb2).
           ++ apply Dmr; simpl; auto.
           ++ unf. lia.
      * intros x Hx. apply in_app_or in Hx. destruct Hx as [Hx|Hx].
        { destruct (A2 x Hx) as ([Ha1|Ha1] & Ha2); (split; [|lia]);
            [left; apply in_or_app; now left|now right]. }
        apply in_app_or in Hx. destruct Hx as [Hx|Hx].
        { destruct Hx as [<-|[]]. cbn [fst]. split; [|lia].
          left. apply in_or_app; right; apply in_or_app; left; now left. }
        destruct (B2 x Hx) as ([Hb1|Hb1] & Hb2); (split; [|lia]);
          [left; apply in_or_app; right; apply in_or_app; now right|right; lia].
    + destruct (write_items (write_at fa sa (enc_item it)) (sa + item_loc_len it) r)
        as [[fb sb] rb] eqn:Er. inversion H; subst; clear H.
      pose proof (write_items_mono _ _ _ _ _ _ Er) as Hm2.
      destruct (IHr _ _ _ _ _ Er) as (B0 & B1 & B2); [intros x Hx; specialize (Hltr x Hx); lia|assumption|].
      cbn [node_locs item_locs]. split; [now rewrite A0, B0|]. split.
      * apply FOP_three. split; [assumption|]. split; [apply FOP_single|]. split; [assumption|].
        split; [|split].
        -- intros a b Ha [<-|[]]. destruct (A2 a Ha) as ([Ha1|Ha1] & Ha2).
           ++ specialize (Hltl a Ha1). unf. lia.
           ++ unf. lia.
        -- intros a b Ha Hb. destruct (A2 a Ha) as ([Ha1|Ha1] & Ha2); destruct (B2 b Hb) as ([Hb1|Hb1] & Hb2).
           ++ now apply Dlr.
           ++ specialize (Hltl a Ha1). unf. lia.
           ++ specialize (Hltr b Hb1). unf. lia.
           ++ unf. lia.
        -- intros a b [<-|[]] Hb. destruct (B2 b Hb) as ([Hb1|Hb1] & Hb2).
           ++ specialize (Hltr b Hb1). unf. lia.
           ++ unf. lia.
      * intros x Hx. apply in_app_or in Hx. destruct Hx as [Hx|Hx].
        { destruct (A2 x Hx) as ([Ha1|Ha1] & Ha2); (split; [|lia]);
            [left; apply in_or_app; now left|now right]. }
        apply in_app_or in Hx. destruct Hx as [Hx|Hx].
        { destruct Hx as [<-|[]]. cbn [fst poff plen]. split; [right|]; lia. }
        destruct (B2 x Hx) as ([Hb1|Hb1] & Hb2); (split; [|lia]);
          [left; apply in_or_app; right; apply in_or_app; now right|right; lia].
Qed.

(* stage 2: write_nodes keeps the item locations; the new node records are laid end to end
   in [size, s1) *)
Lemma write_nodes_locs : forall t f size f1 s1 t1,
  write_nodes f size t = (f1, s1, t1) ->
  (forall p, In p (node_locs t) -> poff p + plen p <= size) ->
  ForallOrdPairs pdisj (node_locs t) ->
  item_locs t1 = item_locs t /\ ForallOrdPairs pdisj (node_locs t1) /\
  (forall p, In p (node_locs t1) -> (In p (node_locs t) \/ size <= poff p) /\ poff p + plen p <= s1).
Proof.
  induction t as [|nl l IHl il it nn nb r IHr]; intros f size f1 s1 t1 H Hlt Hd; cbn [write_nodes] in H.
  - inversion H; subst. split; [reflexivity|]. split; [constructor|intros x []].
  - destruct nl as [p|].
    { inversion H; subst. split; [reflexivity|]. split; [assumption|].
      intros x Hx. split; [now left|now apply Hlt]. }
    destruct (write_nodes f size l) as [[fa sa] la] eqn:El.
    destruct (write_nodes fa sa r) as [[fb sb] rb] eqn:Er.
    inversion H; subst; clear H.
    pose proof (write_nodes_mono _ _ _ _ _ _ El) as Hm1.
    pose proof (write_nodes_mono _ _ _ _ _ _ Er) as Hm2.
    cbn [node_locs app] in Hlt, Hd. apply FOP_app_iff in Hd. destruct Hd as (Dl & Dr & Dlr).
    assert (Hltl : forall x, In x (node_locs l) -> poff x + plen x <= size)
      by (intros; apply Hlt; apply in_or_app; now left).
    assert (Hltr : forall x, In x (node_locs r) -> poff x + plen x <= size)
      by (intros; apply Hlt; apply in_or_app; now right).
    destruct (IHl _ _ _ _ _ El Hltl Dl) as (A0 & A1 & A2).
    destruct (IHr _ _ _ _ _ Er) as (B0 & B1 & B2); [intros x Hx; specialize (Hltr x Hx); lia|assumption|].
    cbn [node_locs item_locs]. change node_len with 52. split; [now rewrite A0, B0|]. split.
    + apply FOP_three. split; [assumption|]. split; [apply FOP_single|]. split; [assumption|].
      split; [|split].
      * intros a b Ha [<-|[]]. destruct (A2 a Ha) as (_ & Ha2). unf. lia.
      * intros a b Ha Hb. destruct (A2 a Ha) as ([Ha1|Ha1] & Ha2); destruct (B2 b Hb) as ([Hb1|Hb1] & Hb2).
        -- now apply Dlr.
        -- specialize (Hltl a Ha1). unf. lia.
        -- specialize (Hltr b Hb1). unf. lia.
        -- unf. lia.
      * intros a b [<-|[]] Hb. destruct (B2 b Hb) as (_ & Hb2). unf. lia.
    + intros x Hx. apply in_app_or in Hx. destruct Hx as [Hx|Hx].
      { destruct (A2 x Hx) as ([Ha1|Ha1] & Ha2); (split; [|lia]);
          [left; apply in_or_app; now left|now right]. }
      apply in_app_or in Hx. destruct Hx as [Hx|Hx].
      { destruct Hx as [<-|[]]. cbn [poff plen]. split; [right|]; lia. }
      destruct (B2 x Hx) as ([Hb1|Hb1] & Hb2); (split; [|lia]);
        [left; apply in_or_app; now right|right; lia].
Qed.

(* L3, preservation.  Neither rep nor NoDup (node_offs t) is needed: below t size suffices. *)
Theorem L3_write_tree f size t f' size' t' :
  below t size -> records_disjoint t -> write_tree f size t = (f', size', t') ->
  records_disjoint t'.
Proof.
  intros Hb Hd H. unfold write_tree in H.
  destruct (write_items f size t) as [[f1 s1] t1] eqn:E1.
  apply records_disjoint_iff in Hd. destruct Hd as (Dn & Di & Dx).
  pose proof (write_items_mono _ _ _ _ _ _ E1) as Hm1.
  destruct (write_items_locs _ _ _ _ _ _ E1) as (A0 & A1 & A2);
    [intros x Hx; apply (below_item_locs t size Hb x Hx)|assumption|].
  destruct (write_nodes_locs _ _ _ _ _ _ H) as (B0 & B1 & B2);
    [rewrite A0; intros p Hp; pose proof (below_node_locs t size Hb p Hp); lia|now rewrite A0|].
  apply records_disjoint_iff. split; [assumption|]. rewrite B0. split; [assumption|].
  intros p x Hp Hx. destruct (A2 x Hx) as (Hx1 & Hx2). destruct (B2 p Hp) as ([Hp1|Hp1] & Hp2).
  - rewrite A0 in Hp1. destruct Hx1 as [Hx1|Hx1]; [now apply Dx|].
    pose proof (below_node_locs t size Hb p Hp1). unf. lia.
  - unf. lia.
Qed.

(* L3, establishment: a tree without locations (a new collection, or erase t) has no records *)
Lemma records_erase t : records (erase t) = [].
Proof.
  unfold records, node_records, item_records.
  induction t as [|nl l IHl il it nn nb r IHr]; [reflexivity|].
  cbn [erase node_locs item_locs app]. apply app_eq_nil in IHl, IHr.
  destruct IHl as (L1 & L2), IHr as (R1 & R2).
  apply map_eq_nil in L1, L2, R1, R2. now rewrite L1, L2, R1, R2.
Qed.

Theorem L3_empty : records_disjoint E.
Proof. constructor. Qed.

Theorem L3_erase t : records_disjoint (erase t).
Proof. unfold records_disjoint. rewrite records_erase. constructor. Qed.

(* a tree built in memory and flushed for the first time *)
Corollary L3_first_flush f size t f' size' t' :
  write_tree f size (erase t) = (f', size', t') -> records_disjoint t'.
Proof.
  apply L3_write_tree; [|apply L3_erase].
  induction t as [|nl l IHl il it nn nb r IHr]; cbn [erase below loc_below]; auto.
Qed.

(* ------------------------------------------------------------------ *)
(* putting L3 and L4 together with write_tree_spec: after a flush of a tree whose records
   were disjoint (in particular a new tree), key-only lookups in the flushed tree never
   read a value byte of the new file *)
Corollary L4_after_write_tree cmp f size t f' size' t' key fuel :
  rep f t -> below t size -> 0 <= size <= blen f -> tree_ok t -> size' < two63 ->
  records_disjoint t -> write_tree f size t = (f', size', t') -> (height t' <= fuel)%nat ->
  (forall r, In r (fst (get_reads fuel cmp f' (root_loc t') key false)) ->
     forall q it, In (q, it) (item_locs t') -> rd_disjoint r (value_range q it)) /\
  (forall left r, In r (fst (minmax_reads f' (root_loc t') left false)) ->
     forall q it, In (q, it) (item_locs t') -> rd_disjoint r (value_range q it)).
Proof.
  intros Hrep Hb Hsz Hok H63 Hd H Hh.
  destruct (write_tree_spec _ _ _ _ _ _ Hrep Hb Hsz Hok H63 H) as (_ & _ & _ & Hper & Hrep' & _).
  pose proof (L3_write_tree _ _ _ _ _ _ Hb Hd H) as Hd'.
  split.
  - apply (L4_get cmp f' t' (root_loc t') key fuel); auto.
  - intros left. apply (L4_minmax f' t' (root_loc t') left); auto.
Qed.

(* a freshly loaded tree (NewStore + full load) satisfies the hypotheses of L1 / L2 / L4 other
   than records_disjoint *)
Corollary loaded_hyps d f l b bud t rem :
  load d f l b bud = Some (t, rem) -> locs_b t = true ->
  rep f t /\ persisted t /\ root_loc t = l /\ below t b.
Proof.
  intros H Hl. destruct (load_sound _ _ _ _ _ _ _ H Hl) as (H1 & H2).
  repeat split; eauto using load_persisted, load_root_loc.
Qed.

(* REMARK (why records_disjoint is an invariant carried from the empty tree through write_tree
   and is NOT derived from load): load accepts adversarial files in which a node record is
   shared by two parents (within its node budget).  The 122-byte file below holds one item
   record, a leaf node, and a root whose left and right child are both that leaf; it loads, has
   consistent lengths (locs_b), and its records are not disjoint.  Files produced by the flush
   model from disjoint trees never look like this (L3_write_tree). *)
Definition cx_it : item := mkItem [1%N] [2%N] 0.
Definition cx_q : ploc := mkPloc 0 18.
Definition cx_c : ploc := mkPloc 18 52.
Definition cx_p : ploc := mkPloc 70 52.
Definition cx_file : file :=
  enc_item cx_it ++ enc_node (Some cx_q) None None 1 2 ++
  enc_node (Some cx_q) (Some cx_c) (Some cx_c) 3 6.
Definition cx_leaf : tree := T (Some cx_c) E (Some cx_q) cx_it 1 2 E.
Definition cx_tree : tree := T (Some cx_p) cx_leaf (Some cx_q) cx_it 3 6 cx_leaf.

Eval vm_compute in (blen cx_file, load 2 cx_file (Some cx_p) 122 3).

Lemma load_not_disjoint :
  load 2 cx_file (Some cx_p) 122 3 = Some (cx_tree, 0%nat) /\ locs_b cx_tree = true /\
  ~ records_disjoint cx_tree.
Proof.
  split; [vm_compute; reflexivity|]. split; [vm_compute; reflexivity|].
  intros H. unfold records_disjoint in H.
  change (records cx_tree) with
    [RNode cx_c; RNode cx_p; RNode cx_c; RItem cx_q cx_it; RItem cx_q cx_it; RItem cx_q cx_it] in H.
  inversion H as [|? ? Hx _]; subst. inversion Hx as [|? ? _ Hx']; subst.
  inversion Hx' as [|? ? Hc _]; subst.
  unfold rdisj, idisj in Hc. cbn in Hc. lia.
Qed.

(* ------------------------------------------------------------------ *)
(* records_disjoint is stronger than the no-sharing invariant NoDup (node_offs t) of DiskProofs.v *)
Lemma node_offs_perm t : Permutation (node_offs t) (map poff (node_locs t)).
Proof.
  induction t as [|nl l IHl il it nn nb r IHr]; [constructor|].
  cbn [node_offs node_locs]. rewrite !map_app.
  eapply Permutation_trans; [|apply Permutation_app_swap_app].
  replace (map poff (match nl with Some p => [p] | None => [] end)) with (oloc_off nl)
    by (destruct nl; reflexivity).
  apply Permutation_app_head. now apply Permutation_app.
Qed.

Lemma rep_node_lens f : forall t, rep f t -> forall p, In p (node_locs t) -> plen p = node_len.
Proof.
  induction t as [|nl l IHl il it nn nb r IHr]; intros Hrep p Hin; [destruct Hin|].
  assert (Hl : rep f l) by (destruct nl; cbn [rep] in Hrep; tauto).
  assert (Hr : rep f r) by (destruct nl; cbn [rep] in Hrep; tauto).
  cbn [node_locs] in Hin. apply in_app_or in Hin. destruct Hin as [Hin|Hin]; [eauto|].
  apply in_app_or in Hin. destruct Hin as [Hin|Hin]; [|eauto].
  destruct nl as [p0|]; [|destruct Hin]. destruct Hin as [<-|[]].
  cbn [rep] in Hrep. tauto.
Qed.

Lemma FOP_pdisj_nodup (l : list ploc) :
  (forall p, In p l -> 0 < plen p) -> ForallOrdPairs pdisj l -> NoDup (map poff l).
Proof.
  induction l as [|a l IH]; intros Hpos H; [constructor|].
  inversion H as [|? ? Ha Hr]; subst. cbn [map]. constructor.
  - intros Hin. apply in_map_iff in Hin. destruct Hin as (x & Hx & Hxl).
    rewrite Forall_forall in Ha. specialize (Ha x Hxl).
    pose proof (Hpos a (or_introl eq_refl)). pose proof (Hpos x (or_intror Hxl)). unf. lia.
  - apply IH; [|assumption]. intros p Hp. apply Hpos. now right.
Qed.

Theorem records_disjoint_nodup f t : rep f t -> records_disjoint t -> NoDup (node_offs t).
Proof.
  intros Hrep Hd. apply records_disjoint_iff in Hd. destruct Hd as (Dn & _ & _).
  eapply Permutation_NoDup; [apply Permutation_sym, node_offs_perm|].
  apply FOP_pdisj_nodup; [|assumption].
  intros p Hp. rewrite (rep_node_lens f t Hrep p Hp). reflexivity.
Qed.
