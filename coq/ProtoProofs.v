(* ProtoProofs.v — proofs about the protocol model Proto.v (no change to the model was needed).

   Method: an inductive invariant  Inv s ev k  ("version ev carries k references in hand",
   k = 0 in every reachable state; k > 0 only in the intermediate states of a step, e.g.
   between dropping a pin and the rootDecRef that follows, and inside the release cascade).
   Clauses (record Inv below):
     i_safe    cells of live trees are allocated and not on the free list;
     i_mark    a cell marked M u that lies in the tree of a live version w: u is live, in the
               lineage of w and not older than w (so stale marks of dead versions are in no live tree);
     i_lin     cells of live trees belong to one lineage;
     i_seq/i_max  inside a lineage v_seq identifies a live version; the unsuperseded one is the newest;
     i_chsup/i_super  a chain pointer implies superseded; a live superseded version is chained to
               its live successor (seq+1, same lineage) — except the version ev that is about to
               die: no chain and all its k >= 1 references are the ones in hand;
     i_curU    the tree of a live unsuperseded version is unmarked, or marked by that version
               while a mutation on its lineage pinned to it is in flight;
     i_handle/i_wruniq  open handles point to live versions of their lineage; a writable one to the
               unsuperseded version; at most one open writable handle per lineage;
     i_pin/i_mut  pins and mutations in flight point to live versions; the mutation's handle is
               open, writable and still points to the pinned version;
     i_fresh/i_frdisj  fresh cells of a mutation are U or marked by it, in no live tree, and
               disjoint from the fresh cells of other mutations;
     i_refs    v_refs = #open handles + #pins + #chain references of live versions + #mutations
               (+ k for ev).
   Key argument (lemmas walk / no_older): a live version without holders has no older live
   version in its lineage, because each older one is chained up to it.
   decref_inv: the release cascade preserves the invariant, by induction on the derivation
   (Inv s v (S k) -> decref s v s' -> Inv s' v k); the recursive call runs on the state from
   which the dying version is already removed, with the chain reference now "in hand". *)
From stdpp Require Import gmap.
From GK Require Import Proto.

(* ------------------------------------------------------------------ *)
(* counting the entries of a finite map that satisfy a predicate       *)
Section cnt.
  Context {K A : Type} `{Countable K} (P : A -> Prop) `{!forall a, Decision (P a)}.

  Definition cnt (m : gmap K A) : nat := size (filter (fun kv => P kv.2) m).

  Lemma cnt_empty : cnt ∅ = 0.
  Proof. unfold cnt. rewrite map_filter_empty. apply map_size_empty. Qed.

  Lemma cnt_delete_True m k a : m !! k = Some a -> P a -> cnt m = S (cnt (delete k m)).
  Proof.
    intros Hk Hp. unfold cnt. rewrite map_filter_delete.
    rewrite map_size_delete_Some.
    - assert (size (filter (fun kv => P kv.2) m) <> 0); [|lia].
      intros Hz. apply map_size_empty_inv in Hz.
      assert (filter (fun kv => P kv.2) m !! k = Some a) as Hl
        by (apply map_filter_lookup_Some; auto).
      rewrite Hz in Hl. rewrite lookup_empty in Hl. discriminate.
    - exists a. apply map_filter_lookup_Some; auto.
  Qed.

  Lemma cnt_delete_False m k a : m !! k = Some a -> ~ P a -> cnt m = cnt (delete k m).
  Proof.
    intros Hk Hp. unfold cnt. rewrite map_filter_delete.
    rewrite map_size_delete_None; auto.
    apply map_filter_lookup_None. right. intros b Hb. simpl. congruence.
  Qed.

  Lemma cnt_delete_None m k : m !! k = None -> cnt (delete k m) = cnt m.
  Proof. intros Hk. rewrite delete_notin; auto. Qed.

  Lemma cnt_insert_True m k a : P a -> cnt (<[k:=a]> m) = S (cnt (delete k m)).
  Proof.
    intros Hp. rewrite (cnt_delete_True (<[k:=a]> m) k a); [|apply lookup_insert|exact Hp].
    by rewrite delete_insert_delete.
  Qed.

  Lemma cnt_insert_False m k a : ~ P a -> cnt (<[k:=a]> m) = cnt (delete k m).
  Proof.
    intros Hp. rewrite (cnt_delete_False (<[k:=a]> m) k a); [|apply lookup_insert|exact Hp].
    by rewrite delete_insert_delete.
  Qed.

  Lemma cnt_pos m k a : m !! k = Some a -> P a -> 1 <= cnt m.
  Proof. intros Hk Hp. rewrite (cnt_delete_True m k a); auto. lia. Qed.

  (* replacing an entry by one with the same truth value *)
  Lemma cnt_insert_same m k a b : m !! k = Some a -> (P a <-> P b) -> cnt (<[k:=b]> m) = cnt m.
  Proof.
    intros Hk Hab. destruct (decide (P b)) as [Hb|Hb].
    - rewrite cnt_insert_True by auto. rewrite (cnt_delete_True m k a); tauto.
    - rewrite cnt_insert_False by auto. rewrite (cnt_delete_False m k a); tauto.
  Qed.
End cnt.

Lemma cnt_ext {K A} `{Countable K} (P Q : A -> Prop)
    `{!forall a, Decision (P a)} `{!forall a, Decision (Q a)} (m : gmap K A) :
  (forall k a, m !! k = Some a -> P a <-> Q a) -> cnt P m = cnt Q m.
Proof.
  intros HPQ. unfold cnt. f_equal. apply map_filter_ext. intros i x Hx. simpl. eauto.
Qed.

Lemma cnt_fmap {K A B} `{Countable K} (f : A -> B) (P : B -> Prop)
    `{!forall b, Decision (P b)} (m : gmap K A) :
  cnt P (f <$> m) = cnt (fun a => P (f a)) m.
Proof.
  unfold cnt. rewrite map_filter_fmap. rewrite map_size_fmap. done.
Qed.

(* ------------------------------------------------------------------ *)
Lemma setm_lookup X k m n :
  setm X k m !! n = if decide (n ∈ X) then Some k else m !! n.
Proof.
  unfold setm. destruct (decide (n ∈ X)) as [Hn|Hn].
  - apply lookup_union_Some_l. apply lookup_gset_to_gmap_Some. auto.
  - rewrite lookup_union_r; auto. apply lookup_gset_to_gmap_None. auto.
Qed.

(* ------------------------------------------------------------------ *)
(* basic facts about decref that need no invariant                     *)
Definition same_shape (y' y : version) : Prop :=
  v_lin y' = v_lin y /\ v_seq y' = v_seq y /\ v_tree y' = v_tree y /\
  v_later y' = v_later y /\ v_chain y' = v_chain y /\ v_super y' = v_super y.

Lemma same_shape_refl y : same_shape y y.
Proof. repeat split. Qed.

Lemma decref_vers s v s' : decref s v s' ->
  forall u y', vers s' !! u = Some y' -> exists y, vers s !! u = Some y /\ same_shape y' y.
Proof.
  induction 1; simpl; intros u y' Hu.
  - apply lookup_insert_Some in Hu as [[<- <-]|[_ Hu]].
    + eexists; split; eauto. repeat split.
    + eauto using same_shape_refl.
  - apply lookup_delete_Some in Hu as [_ Hu]. eauto using same_shape_refl.
  - destruct (IHdecref u y' Hu) as (y & Hy & Hs). simpl in Hy.
    apply lookup_delete_Some in Hy as [_ Hy]. eauto.
Qed.

Lemma decref_marks s v s' : decref s v s' ->
  forall n k, marks s' !! n = Some k -> k = F \/ marks s !! n = Some k.
Proof.
  induction 1; simpl; intros n0 k Hk; auto.
  - rewrite setm_lookup in Hk. destruct (decide (n0 ∈ fr)); [left; congruence|auto].
  - rewrite setm_lookup in Hk. destruct (decide (n0 ∈ fr)); [left; congruence|].
    destruct (IHdecref n0 k Hk); auto.
Qed.

Lemma decref_others s v s' : decref s v s' ->
  handles s' = handles s /\ pins s' = pins s /\ muts s' = muts s.
Proof. induction 1; simpl in *; auto. Qed.

(* ------------------------------------------------------------------ *)
(* the invariant; (ev,k): version ev carries k references "in hand"     *)
Definition holders (s : state) (u : vid) : nat :=
  cnt (fun hd => h_root hd = Some u) (handles s) + pin_count s u +
  cnt (fun y => v_chain y = Some u) (vers s) + cnt (fun m => m_ver m = u) (muts s).

Definition exc (ev : vid) (k : nat) (u : vid) : nat := if decide (u = ev) then k else 0.

Record Inv (s : state) (ev : vid) (k : nat) : Prop := {
  i_safe : forall w y n, vers s !! w = Some y -> n ∈ v_tree y ->
      exists c, marks s !! n = Some c /\ c <> F;
  i_mark : forall n u w y, marks s !! n = Some (M u) -> vers s !! w = Some y -> n ∈ v_tree y ->
      exists x, vers s !! u = Some x /\ v_lin y = v_lin x /\ v_seq y <= v_seq x;
  i_lin : forall n w y w' y', vers s !! w = Some y -> vers s !! w' = Some y' ->
      n ∈ v_tree y -> n ∈ v_tree y' -> v_lin y = v_lin y';
  i_seq : forall w y w' y', vers s !! w = Some y -> vers s !! w' = Some y' ->
      v_lin y = v_lin y' -> v_seq y = v_seq y' -> w = w';
  i_max : forall w y w' y', vers s !! w = Some y -> vers s !! w' = Some y' ->
      v_lin y = v_lin y' -> v_super y = false -> v_seq y' <= v_seq y;
  i_chsup : forall w y u, vers s !! w = Some y -> v_chain y = Some u -> v_super y = true;
  i_super : forall w y, vers s !! w = Some y -> v_super y = true ->
      (exists u x, v_chain y = Some u /\ vers s !! u = Some x /\
                   v_lin x = v_lin y /\ v_seq x = S (v_seq y))
      \/ (v_chain y = None /\ w = ev /\ 1 <= k /\ v_refs y = k);
  i_curU : forall w y n, vers s !! w = Some y -> v_super y = false -> n ∈ v_tree y ->
      marks s !! n = Some U \/
      (marks s !! n = Some (M w) /\ exists m, muts s !! (v_lin y) = Some m /\ m_ver m = w);
  i_handle : forall h hd v, handles s !! h = Some hd -> h_root hd = Some v ->
      exists x, vers s !! v = Some x /\ v_lin x = h_lin hd /\ (h_ro hd = false -> v_super x = false);
  i_wruniq : forall h1 hd1 h2 hd2, handles s !! h1 = Some hd1 -> handles s !! h2 = Some hd2 ->
      h_ro hd1 = false -> h_ro hd2 = false -> is_Some (h_root hd1) -> is_Some (h_root hd2) ->
      h_lin hd1 = h_lin hd2 -> h1 = h2;
  i_pin : forall v p, pins s !! v = Some (S p) -> is_Some (vers s !! v);
  i_mut : forall l m, muts s !! l = Some m ->
      exists hd x, handles s !! (m_handle m) = Some hd /\ h_lin hd = l /\ h_ro hd = false /\
                   h_root hd = Some (m_ver m) /\ vers s !! (m_ver m) = Some x;
  i_fresh : forall l m n, muts s !! l = Some m -> n ∈ m_fresh m ->
      (marks s !! n = Some U \/ marks s !! n = Some (M (m_ver m))) /\
      (forall w y, vers s !! w = Some y -> n ∉ v_tree y);
  i_frdisj : forall l1 m1 l2 m2 n, muts s !! l1 = Some m1 -> muts s !! l2 = Some m2 ->
      n ∈ m_fresh m1 -> n ∈ m_fresh m2 -> l1 = l2;
  i_refs : forall u x, vers s !! u = Some x -> v_refs x = holders s u + exc ev k u;
}.

(* solve a clause that is literally unchanged *)
Ltac same I :=
  solve [ exact (i_safe _ _ _ I) | exact (i_mark _ _ _ I) | exact (i_lin _ _ _ I)
        | exact (i_seq _ _ _ I) | exact (i_max _ _ _ I) | exact (i_chsup _ _ _ I)
        | exact (i_super _ _ _ I) | exact (i_curU _ _ _ I) | exact (i_handle _ _ _ I)
        | exact (i_wruniq _ _ _ I) | exact (i_pin _ _ _ I) | exact (i_mut _ _ _ I)
        | exact (i_fresh _ _ _ I) | exact (i_frdisj _ _ _ I) | exact (i_refs _ _ _ I) ].

Lemma exc_same ev k : exc ev k ev = k.
Proof. unfold exc. by rewrite decide_True. Qed.
Lemma exc_ne ev k u : u <> ev -> exc ev k u = 0.
Proof. unfold exc. intros. by rewrite decide_False. Qed.

(* the position of the excess is irrelevant when there is none *)
Lemma Inv_irrel s ev k ev' k' :
  Inv s ev k -> (vers s !! ev = None \/ k = 0) -> (vers s !! ev' = None \/ k' = 0) ->
  Inv s ev' k'.
Proof.
  intros I H1 H2. constructor; try same I.
  - intros w y Hy Hs. destruct (i_super _ _ _ I w y Hy Hs) as [?|(? & -> & ? & ?)]; auto.
    exfalso. destruct H1; [congruence|lia].
  - intros u x Hx. rewrite (i_refs _ _ _ I u x Hx). f_equal. unfold exc.
    destruct (decide (u = ev)), (decide (u = ev')); subst; auto;
      destruct H1, H2; congruence || lia.
Qed.

(* ------------------------------------------------------------------ *)
(* P1/P9: changing only the reference count of one version              *)
Lemma holders_upd_refs s v x r u :
  vers s !! v = Some x -> holders (upd_ver s v (with_refs x r)) u = holders s u.
Proof.
  intros Hx. unfold holders, pin_count. simpl.
  rewrite (cnt_insert_same _ _ _ x); auto.
Qed.

Ltac shape_rw :=
  repeat match goal with
  | H : same_shape _ _ |- _ =>
      let a := fresh "Hl" in let b := fresh "Hq" in let c := fresh "Ht" in
      let d := fresh "Hla" in let e := fresh "Hc" in let f := fresh "Hsu" in
      destruct H as (a & b & c & d & e & f);
      rewrite ?a, ?b, ?c, ?d, ?e, ?f in *
  end.

Lemma refs_inv s v x k k' r :
  Inv s v k -> vers s !! v = Some x -> r + k = v_refs x + k' -> 1 <= r ->
  Inv (upd_ver s v (with_refs x r)) v k'.
Proof.
  intros I Hx Hr Hr1.
  assert (Hlk : forall w y, <[v:=with_refs x r]> (vers s) !! w = Some y ->
     exists y0, vers s !! w = Some y0 /\ same_shape y y0 /\
       ((w <> v /\ y = y0) \/ (w = v /\ y0 = x /\ v_refs y = r))).
  { intros w y Hy. apply lookup_insert_Some in Hy as [[<- <-]|[Hne Hy]].
    - exists x. split; auto. split; [repeat split|]. right. auto.
    - exists y. split; auto. split; [apply same_shape_refl|]. left. auto. }
  assert (Hlv : forall w y0, vers s !! w = Some y0 ->
     exists y, <[v:=with_refs x r]> (vers s) !! w = Some y /\ same_shape y y0).
  { intros w y0 Hy0. destruct (decide (w = v)) as [->|Hne].
    - rewrite lookup_insert. eexists; split; eauto.
      assert (y0 = x) as -> by congruence. repeat split.
    - rewrite lookup_insert_ne by auto. eauto using same_shape_refl. }
  constructor; simpl; try same I.
  - intros w y n Hy Hn. apply Hlk in Hy as (y0 & Hy0 & Hs & _). shape_rw.
    eapply (i_safe _ _ _ I); eauto.
  - intros n u w y Hm Hy Hn. apply Hlk in Hy as (y0 & Hy0 & Hs & _). shape_rw.
    destruct (i_mark _ _ _ I n u w y0 Hm Hy0 Hn) as (x0 & Hx0 & ? & ?).
    destruct (Hlv _ _ Hx0) as (x1 & Hx1 & Hs1). shape_rw. exists x1. rewrite Hl0, Hq0. auto.
  - intros n w y w' y' Hy Hy' Hn Hn'.
    apply Hlk in Hy as (y0 & Hy0 & Hs & _). apply Hlk in Hy' as (y0' & Hy0' & Hs' & _).
    shape_rw. eapply (i_lin _ _ _ I); eauto.
  - intros w y w' y' Hy Hy' Hl Hq.
    apply Hlk in Hy as (y0 & Hy0 & Hs & _). apply Hlk in Hy' as (y0' & Hy0' & Hs' & _).
    shape_rw. eapply (i_seq _ _ _ I); eauto.
  - intros w y w' y' Hy Hy' Hl Hsup.
    apply Hlk in Hy as (y0 & Hy0 & Hs & _). apply Hlk in Hy' as (y0' & Hy0' & Hs' & _).
    shape_rw. eapply (i_max _ _ _ I); eauto.
  - intros w y u Hy Hc. apply Hlk in Hy as (y0 & Hy0 & Hs & _). shape_rw.
    eapply (i_chsup _ _ _ I); eauto.
  - intros w y Hy Hsup. apply Hlk in Hy as (y0 & Hy0 & Hs & Hcase). shape_rw.
    destruct (i_super _ _ _ I w y0 Hy0 Hsup) as [(u & x0 & Hc0 & Hx0 & ? & ?)|(Hc0 & -> & Hk & Hrk)].
    + left. destruct (Hlv _ _ Hx0) as (x1 & Hx1 & Hs1). shape_rw.
      exists u, x1. rewrite Hl0, Hq0. auto.
    + right. destruct Hcase as [[? _]|(_ & -> & Hry)]; [congruence|].
      repeat split; auto; lia.
  - intros w y n Hy Hsup Hn. apply Hlk in Hy as (y0 & Hy0 & Hs & _). shape_rw.
    eapply (i_curU _ _ _ I); eauto.
  - intros h hd u Hh Hr0. destruct (i_handle _ _ _ I h hd u Hh Hr0) as (x0 & Hx0 & ? & ?).
    destruct (Hlv _ _ Hx0) as (x1 & Hx1 & Hs1). shape_rw. exists x1. rewrite Hl, Hsu. auto.
  - intros u p Hp. destruct (i_pin _ _ _ I u p Hp) as [x0 Hx0].
    destruct (Hlv _ _ Hx0) as (x1 & Hx1 & _). eauto.
  - intros l m Hm. destruct (i_mut _ _ _ I l m Hm) as (hd & x0 & ? & ? & ? & ? & Hx0).
    destruct (Hlv _ _ Hx0) as (x1 & Hx1 & _). exists hd, x1. auto.
  - intros l m n Hm Hn. destruct (i_fresh _ _ _ I l m n Hm Hn) as [? Hnt]. split; auto.
    intros w y Hy. apply Hlk in Hy as (y0 & Hy0 & Hs & _). shape_rw. eauto.
  - intros u y Hy. rewrite holders_upd_refs by auto.
    apply Hlk in Hy as (y0 & Hy0 & Hs & Hcase).
    pose proof (i_refs _ _ _ I u y0 Hy0) as Hr0.
    destruct Hcase as [[Hne ->]|(-> & -> & Hry)].
    + rewrite exc_ne in * by auto. auto.
    + rewrite exc_same in *. lia.
Qed.

Lemma Inv_chained s v x :
  Inv s v 0 -> vers s !! v = Some x -> v_super x = true -> v_chain x <> None.
Proof.
  intros I Hx Hs. destruct (i_super _ _ _ I v x Hx Hs) as [(u & ? & Hc & _)|(_ & _ & ? & _)]; [|lia].
  congruence.
Qed.

(* ------------------------------------------------------------------ *)
(* P2/P3: reader pins                                                   *)
Lemma pin_up_inv s v k :
  Inv s v (S k) -> is_Some (vers s !! v) ->
  (forall x, vers s !! v = Some x -> v_super x = true -> v_chain x <> None) ->
  Inv (set_pins s v (S (pin_count s v))) v k.
Proof.
  intros I Hv Hch. constructor; simpl; try same I.
  - intros w y Hy Hs. destruct (i_super _ _ _ I w y Hy Hs) as [?|(Hc & -> & _)]; auto.
    exfalso. eapply Hch; eauto.
  - intros u p Hp. apply lookup_insert_Some in Hp as [[<- _]|[_ Hp]]; auto.
    eapply (i_pin _ _ _ I); eauto.
  - intros u x Hx. rewrite (i_refs _ _ _ I u x Hx). unfold holders, pin_count, exc. simpl.
    destruct (decide (u = v)) as [->|Hne].
    + rewrite lookup_insert. simpl. lia.
    + rewrite lookup_insert_ne by auto. lia.
Qed.

Lemma pin_down_inv s v p k :
  Inv s v k -> pins s !! v = Some (S p) -> Inv (set_pins s v p) v (S k).
Proof.
  intros I Hp. constructor; simpl; try same I.
  - intros w y Hy Hs. destruct (i_super _ _ _ I w y Hy Hs) as [?|(Hc & -> & ? & Hr)]; auto.
    exfalso. pose proof (i_refs _ _ _ I v y Hy) as Hr'. rewrite exc_same in Hr'.
    unfold holders, pin_count in Hr'. rewrite Hp in Hr'. simpl in Hr'. lia.
  - intros u q Hq. apply lookup_insert_Some in Hq as [[<- _]|[_ Hq]].
    + eapply (i_pin _ _ _ I); eauto.
    + eapply (i_pin _ _ _ I); eauto.
  - intros u x Hx. rewrite (i_refs _ _ _ I u x Hx). unfold holders, pin_count, exc. simpl.
    destruct (decide (u = v)) as [->|Hne].
    + rewrite lookup_insert, Hp. simpl. lia.
    + rewrite lookup_insert_ne by auto. lia.
Qed.

(* ------------------------------------------------------------------ *)
(* P5: closing a handle                                                 *)
Lemma close_inv s h hd v ro k :
  Inv s v k -> handles s !! h = Some hd -> h_root hd = Some v ->
  (forall l m, muts s !! l = Some m -> m_handle m <> h) ->
  Inv (set_handle s h (Hd (h_lin hd) None ro)) v (S k).
Proof.
  intros I Hh Hr Hnm.
  assert (Hcnt : forall u, cnt (fun hd0 => h_root hd0 = Some u) (handles s) =
     cnt (fun hd0 => h_root hd0 = Some u) (<[h:=Hd (h_lin hd) None ro]> (handles s)) +
     (if decide (u = v) then 1 else 0)).
  { intros u. rewrite cnt_insert_False by (simpl; congruence).
    destruct (decide (u = v)) as [->|Hne].
    - rewrite (cnt_delete_True _ _ h hd); auto. lia.
    - rewrite (cnt_delete_False _ _ h hd); auto. congruence. }
  constructor; simpl; try same I.
  - intros w y Hy Hs. destruct (i_super _ _ _ I w y Hy Hs) as [?|(Hc & -> & ? & Hrk)]; auto.
    exfalso. pose proof (i_refs _ _ _ I v y Hy) as Hr'. rewrite exc_same in Hr'.
    unfold holders in Hr'. rewrite Hcnt in Hr'. rewrite decide_True in Hr' by auto. lia.
  - intros g gd u Hg Hgr. apply lookup_insert_Some in Hg as [[_ <-]|[_ Hg]]; [discriminate|].
    eapply (i_handle _ _ _ I); eauto.
  - intros h1 hd1 h2 hd2 H1 H2 Hro1 Hro2 [? Ho1] [? Ho2].
    apply lookup_insert_Some in H1 as [[_ <-]|[_ H1]]; [discriminate|].
    apply lookup_insert_Some in H2 as [[_ <-]|[_ H2]]; [discriminate|].
    eapply (i_wruniq _ _ _ I); eauto.
  - intros l m Hm. destruct (i_mut _ _ _ I l m Hm) as (hd0 & x0 & ? & ?).
    exists hd0, x0. rewrite lookup_insert_ne; auto. intros Heq. eapply Hnm; eauto.
  - intros u x Hx. rewrite (i_refs _ _ _ I u x Hx). unfold holders, pin_count, exc. simpl.
    rewrite (Hcnt u). destruct (decide (u = v)); lia.
Qed.

(* P4: opening a handle on v, consuming one reference in hand *)
Lemma open_inv s h' l v ro x k :
  Inv s v (S k) -> handles s !! h' = None -> vers s !! v = Some x -> v_lin x = l ->
  (ro = false -> v_super x = false /\
     forall g gd, handles s !! g = Some gd -> h_ro gd = false -> is_Some (h_root gd) -> h_lin gd <> l) ->
  (v_super x = true -> v_chain x <> None) ->
  Inv (set_handle s h' (Hd l (Some v) ro)) v k.
Proof.
  intros I Hh Hx Hl Hw Hch.
  assert (Hcnt : forall u, cnt (fun hd0 => h_root hd0 = Some u) (<[h':=Hd l (Some v) ro]> (handles s)) =
     cnt (fun hd0 => h_root hd0 = Some u) (handles s) + (if decide (u = v) then 1 else 0)).
  { intros u. destruct (decide (u = v)) as [->|Hne].
    - rewrite cnt_insert_True by auto. rewrite cnt_delete_None by auto. lia.
    - rewrite cnt_insert_False by (simpl; congruence). rewrite cnt_delete_None by auto. lia. }
  constructor; simpl; try same I.
  - intros w y Hy Hs. destruct (i_super _ _ _ I w y Hy Hs) as [?|(Hc & -> & _)]; auto.
    exfalso. assert (y = x) as -> by congruence. by apply Hch.
  - intros g gd u Hg Hgr. apply lookup_insert_Some in Hg as [[_ <-]|[_ Hg]].
    + simpl in *. inversion Hgr; subst. exists x. split; auto. split; auto.
      intros Hro. apply Hw; auto.
    + eapply (i_handle _ _ _ I); eauto.
  - intros h1 hd1 h2 hd2 H1 H2 Hro1 Hro2 Ho1 Ho2 Hll.
    apply lookup_insert_Some in H1 as [[<- <-]|[Hn1 H1]];
    apply lookup_insert_Some in H2 as [[<- <-]|[Hn2 H2]]; auto; simpl in *.
    + exfalso. destruct (Hw Hro1) as [_ Hu]. eapply Hu; eauto.
    + exfalso. destruct (Hw Hro2) as [_ Hu]. eapply Hu; eauto.
    + eapply (i_wruniq _ _ _ I); eauto.
  - intros l0 m Hm. destruct (i_mut _ _ _ I l0 m Hm) as (hd0 & x0 & Hh0 & ?).
    exists hd0, x0. rewrite lookup_insert_ne; auto. congruence.
  - intros u y Hy. rewrite (i_refs _ _ _ I u y Hy). unfold holders, pin_count, exc. simpl.
    rewrite (Hcnt u). destruct (decide (u = v)); lia.
Qed.

(* P6: a mutation begins, consuming one reference in hand *)
Lemma mbegin_inv s h hd v x k :
  Inv s v (S k) -> handles s !! h = Some hd -> h_ro hd = false -> h_root hd = Some v ->
  vers s !! v = Some x -> muts s !! (h_lin hd) = None ->
  (v_super x = true -> v_chain x <> None) ->
  Inv (set_mut s (h_lin hd) (Some (Mut h v ∅))) v k.
Proof.
  intros I Hh Hro Hr Hx Hm Hch.
  constructor; simpl; try same I.
  - intros w y Hy Hs. destruct (i_super _ _ _ I w y Hy Hs) as [?|(Hc & -> & _)]; auto.
    exfalso. assert (y = x) as -> by congruence. by apply Hch.
  - intros w y n Hy Hs Hn. destruct (i_curU _ _ _ I w y n Hy Hs Hn) as [?|(? & m0 & Hm0 & ?)]; auto.
    right. split; auto. exists m0. split; auto. rewrite lookup_insert_ne; auto. congruence.
  - intros l m Hl. apply lookup_insert_Some in Hl as [[<- <-]|[Hne Hl]].
    + simpl. exists hd, x. auto.
    + eapply (i_mut _ _ _ I); eauto.
  - intros l m n Hl Hn. apply lookup_insert_Some in Hl as [[<- <-]|[Hne Hl]].
    + simpl in Hn. set_solver.
    + eapply (i_fresh _ _ _ I); eauto.
  - intros l1 m1 l2 m2 n H1 H2 Hn1 Hn2.
    apply lookup_insert_Some in H1 as [[<- <-]|[Hne1 H1]]; [simpl in Hn1; set_solver|].
    apply lookup_insert_Some in H2 as [[<- <-]|[Hne2 H2]]; [simpl in Hn2; set_solver|].
    eapply (i_frdisj _ _ _ I); eauto.
  - intros u y Hy. rewrite (i_refs _ _ _ I u y Hy). unfold holders, pin_count, exc. simpl.
    destruct (decide (u = v)) as [->|Hne].
    + rewrite cnt_insert_True by auto. rewrite cnt_delete_None by auto. lia.
    + rewrite cnt_insert_False by (simpl; congruence). rewrite cnt_delete_None by auto. lia.
Qed.

(* ------------------------------------------------------------------ *)
(* versions without holders, and the "live versions form a suffix" argument *)
Lemma no_holders s v : holders s v = 0 ->
  (forall h hd, handles s !! h = Some hd -> h_root hd <> Some v) /\
  pin_count s v = 0 /\
  (forall w y, vers s !! w = Some y -> v_chain y <> Some v) /\
  (forall l m, muts s !! l = Some m -> m_ver m <> v).
Proof.
  unfold holders. intros H0. repeat split.
  - intros h hd Hh Hr. pose proof (cnt_pos (fun hd => h_root hd = Some v) _ _ _ Hh Hr). lia.
  - lia.
  - intros w y Hy Hc. pose proof (cnt_pos (fun y => v_chain y = Some v) _ _ _ Hy Hc). lia.
  - intros l m Hm Hv. pose proof (cnt_pos (fun m => m_ver m = v) _ _ _ Hm Hv). lia.
Qed.

Lemma walk s v k x : Inv s v k -> vers s !! v = Some x ->
  forall d w y, vers s !! w = Some y -> v_lin y = v_lin x -> v_seq y + S d = v_seq x ->
  exists p yp, vers s !! p = Some yp /\ v_chain yp = Some v.
Proof.
  intros I Hx. induction d as [|d IH]; intros w y Hy Hl Hq.
  - assert (v_super y = true) as Hs.
    { destruct (v_super y) eqn:E; auto.
      pose proof (i_max _ _ _ I w y v x Hy Hx Hl E). lia. }
    destruct (i_super _ _ _ I w y Hy Hs) as [(u & x0 & Hc & Hx0 & Hl0 & Hq0)|(_ & -> & _)].
    + assert (u = v) as ->. { eapply (i_seq _ _ _ I); eauto; [congruence|lia]. }
      eauto.
    + assert (y = x) by congruence. subst. lia.
  - assert (v_super y = true) as Hs.
    { destruct (v_super y) eqn:E; auto.
      pose proof (i_max _ _ _ I w y v x Hy Hx Hl E). lia. }
    destruct (i_super _ _ _ I w y Hy Hs) as [(u & x0 & Hc & Hx0 & Hl0 & Hq0)|(_ & -> & _)].
    + apply (IH u x0 Hx0); [congruence|lia].
    + assert (y = x) by congruence. subst. lia.
Qed.

Lemma no_older s v k x w y : Inv s v k -> vers s !! v = Some x -> holders s v = 0 ->
  vers s !! w = Some y -> v_lin y = v_lin x -> v_seq y <= v_seq x -> w = v.
Proof.
  intros I Hx H0 Hy Hl Hq.
  destruct (decide (v_seq y = v_seq x)) as [Heq|Hne].
  - eapply (i_seq _ _ _ I); eauto.
  - exfalso. destruct (walk s v k x I Hx (v_seq x - v_seq y - 1) w y Hy Hl) as (p & yp & Hp & Hc); [lia|].
    destruct (no_holders s v H0) as (_ & _ & Hnc & _). eapply Hnc; eauto.
Qed.

(* P10: a version without holders is removed *)
Lemma del_inv s v x ev' k' :
  Inv s v 1 -> vers s !! v = Some x -> v_refs x = 1 ->
  (forall u, u <> v -> exc ev' k' u = if decide (v_chain x = Some u) then 1 else 0) ->
  Inv (St (marks s) (delete v (vers s)) (handles s) (pins s) (muts s)) ev' k'.
Proof.
  intros I Hx Hr1 Hex.
  assert (holders s v = 0) as H0.
  { pose proof (i_refs _ _ _ I v x Hx) as Hr. rewrite exc_same in Hr. lia. }
  destruct (no_holders s v H0) as (Hnh & Hnp & Hnc & Hnm).
  constructor; simpl; try same I.
  - intros w y n Hy. apply lookup_delete_Some in Hy as [_ Hy]. eapply (i_safe _ _ _ I); eauto.
  - intros n u w y Hm Hy Hn. apply lookup_delete_Some in Hy as [Hne Hy].
    destruct (i_mark _ _ _ I n u w y Hm Hy Hn) as (x0 & Hx0 & Hl & Hq).
    exists x0. split; auto. apply lookup_delete_Some. split; auto. intros <-.
    assert (x0 = x) as -> by congruence.
    apply Hne. symmetry. eapply no_older; eauto.
  - intros n w y w' y' Hy Hy'. apply lookup_delete_Some in Hy as [_ Hy].
    apply lookup_delete_Some in Hy' as [_ Hy']. eapply (i_lin _ _ _ I); eauto.
  - intros w y w' y' Hy Hy'. apply lookup_delete_Some in Hy as [_ Hy].
    apply lookup_delete_Some in Hy' as [_ Hy']. eapply (i_seq _ _ _ I); eauto.
  - intros w y w' y' Hy Hy'. apply lookup_delete_Some in Hy as [_ Hy].
    apply lookup_delete_Some in Hy' as [_ Hy']. eapply (i_max _ _ _ I); eauto.
  - intros w y u Hy. apply lookup_delete_Some in Hy as [_ Hy]. eapply (i_chsup _ _ _ I); eauto.
  - intros w y Hy Hs. apply lookup_delete_Some in Hy as [Hne Hy].
    destruct (i_super _ _ _ I w y Hy Hs) as [(u & x0 & Hc & Hx0 & ?)|(_ & -> & _)]; [|congruence].
    left. exists u, x0. split; auto. split; auto. apply lookup_delete_Some. split; auto.
    intros <-. eapply (Hnc w y); eauto.
  - intros w y n Hy. apply lookup_delete_Some in Hy as [_ Hy]. eapply (i_curU _ _ _ I); eauto.
  - intros h hd u Hh Hr. destruct (i_handle _ _ _ I h hd u Hh Hr) as (x0 & Hx0 & ?).
    exists x0. split; auto. apply lookup_delete_Some. split; auto.
    intros <-. eapply Hnh; eauto.
  - intros u p Hp. destruct (i_pin _ _ _ I u p Hp) as [x0 Hx0]. exists x0.
    apply lookup_delete_Some. split; auto. intros <-.
    unfold pin_count in Hnp. rewrite Hp in Hnp. discriminate.
  - intros l m Hm. destruct (i_mut _ _ _ I l m Hm) as (hd & x0 & ? & ? & ? & ? & Hx0).
    exists hd, x0. repeat split; auto. apply lookup_delete_Some. split; auto.
    intros Heq. eapply Hnm; eauto.
  - intros l m n Hm Hn. destruct (i_fresh _ _ _ I l m n Hm Hn) as [? Hnt]. split; auto.
    intros w y Hy. apply lookup_delete_Some in Hy as [_ Hy]. eauto.
  - intros u y Hy. apply lookup_delete_Some in Hy as [Hne Hy].
    rewrite (i_refs _ _ _ I u y Hy). rewrite exc_ne by auto. rewrite Hex by auto.
    unfold holders, pin_count. simpl.
    destruct (decide (v_chain x = Some u)) as [Hc|Hc].
    + rewrite (cnt_delete_True (fun y => v_chain y = Some u) (vers s) v x); auto; lia.
    + rewrite (cnt_delete_False (fun y => v_chain y = Some u) (vers s) v x); auto; lia.
Qed.

(* P11: cells that are in no live tree and in no fresh set go to the free list *)
Lemma free_inv s ev k (fr : gset cell) :
  Inv s ev k ->
  (forall n, n ∈ fr -> (forall w y, vers s !! w = Some y -> n ∉ v_tree y) /\
                      (forall l m, muts s !! l = Some m -> n ∉ m_fresh m)) ->
  Inv (St (setm fr F (marks s)) (vers s) (handles s) (pins s) (muts s)) ev k.
Proof.
  intros I Hfr.
  assert (Hnot : forall w y n, vers s !! w = Some y -> n ∈ v_tree y ->
            setm fr F (marks s) !! n = marks s !! n).
  { intros w y n Hy Hn. rewrite setm_lookup. destruct (decide (n ∈ fr)) as [Hin|]; auto.
    exfalso. destruct (Hfr n Hin) as [Ht _]. eapply Ht; eauto. }
  constructor; simpl; try same I.
  - intros w y n Hy Hn. rewrite (Hnot w y n Hy Hn). eapply (i_safe _ _ _ I); eauto.
  - intros n u w y Hm Hy Hn. rewrite (Hnot w y n Hy Hn) in Hm. eapply (i_mark _ _ _ I); eauto.
  - intros w y n Hy Hs Hn. rewrite (Hnot w y n Hy Hn). eapply (i_curU _ _ _ I); eauto.
  - intros l m n Hm Hn. destruct (i_fresh _ _ _ I l m n Hm Hn) as [Hk Hnt]. split; auto.
    rewrite setm_lookup. destruct (decide (n ∈ fr)) as [Hin|]; auto.
    exfalso. destruct (Hfr n Hin) as [_ Hf]. eapply Hf; eauto.
Qed.

(* cells carrying the mark of a dead version are in no live tree and no fresh set *)
Lemma dead_mark_free s ev k v n :
  Inv s ev k -> vers s !! v = None -> marks s !! n = Some (M v) ->
  (forall w y, vers s !! w = Some y -> n ∉ v_tree y) /\
  (forall l m, muts s !! l = Some m -> n ∉ m_fresh m).
Proof.
  intros I Hv Hm. split.
  - intros w y Hy Hn. destruct (i_mark _ _ _ I n v w y Hm Hy Hn) as (x0 & Hx0 & _). congruence.
  - intros l m Hl Hn. destruct (i_fresh _ _ _ I l m n Hl Hn) as [[Hk|Hk] _]; [congruence|].
    destruct (i_mut _ _ _ I l m Hl) as (? & x0 & _ & _ & _ & _ & Hx0).
    rewrite Hm in Hk. inversion Hk; subst. congruence.
Qed.

(* ------------------------------------------------------------------ *)
(* rootDecRef with its cascade preserves the invariant                   *)
Lemma decref_inv s v s' : decref s v s' -> forall k, Inv s v (S k) -> Inv s' v k.
Proof.
  induction 1 as [s v x n Hx Hr|s v x fr Hx Hr Hc Hfr|s v x w s1 fr Hx Hr Hc Hd IH Hfr]; intros k I.
  - eapply refs_inv; eauto; lia.
  - assert (k = 0) as ->.
    { pose proof (i_refs _ _ _ I v x Hx) as Hr'. rewrite exc_same in Hr'. lia. }
    assert (holders s v = 0) as H0.
    { pose proof (i_refs _ _ _ I v x Hx) as Hr'. rewrite exc_same in Hr'. lia. }
    assert (Inv (St (marks s) (delete v (vers s)) (handles s) (pins s) (muts s)) v 0) as I1.
    { eapply del_inv; eauto. intros u Hne. rewrite exc_ne by auto. rewrite Hc.
      rewrite decide_False; auto. }
    apply (free_inv _ _ _ fr I1).
    intros n Hn. destruct (Hfr n Hn) as [Hin [Hm|(Hs & Ht & Hm)]].
    + eapply dead_mark_free; eauto. simpl. apply lookup_delete.
    + simpl. split.
      * intros w y Hy Hny. apply lookup_delete_Some in Hy as [Hne Hy]. apply Hne. symmetry.
        eapply (no_older s v 1 x w y); eauto.
        -- eapply (i_lin _ _ _ I); eauto.
        -- eapply (i_max _ _ _ I v x w y); eauto. symmetry. eapply (i_lin _ _ _ I); eauto.
      * intros l m Hl Hnf. destruct (i_fresh _ _ _ I l m n Hl Hnf) as [_ Hnt]. eapply Hnt; eauto.
  - assert (k = 0) as ->.
    { pose proof (i_refs _ _ _ I v x Hx) as Hr'. rewrite exc_same in Hr'. lia. }
    assert (Inv (St (marks s) (delete v (vers s)) (handles s) (pins s) (muts s)) w 1) as I1.
    { eapply del_inv; eauto. intros u Hne. rewrite Hc. unfold exc.
      destruct (decide (u = w)) as [->|]; [rewrite decide_True; auto|rewrite decide_False; auto].
      congruence. }
    apply IH in I1.
    assert (vers s1 !! v = None) as Hdead.
    { destruct (vers s1 !! v) as [y'|] eqn:E; auto.
      destruct (decref_vers _ _ _ Hd v y' E) as (y0 & Hy0 & _). simpl in Hy0.
      rewrite lookup_delete in Hy0. discriminate. }
    apply (free_inv _ _ _ fr) in I1.
    + eapply Inv_irrel; eauto.
    + intros n Hn. destruct (Hfr n Hn) as [Hin [Hm|(Hs & _)]].
      * eapply dead_mark_free; eauto.
      * rewrite (i_chsup _ _ _ I v x w Hx Hc) in Hs. discriminate.
Qed.

(* ------------------------------------------------------------------ *)
Lemma cnt_zero {K A} `{Countable K} (P : A -> Prop) `{!forall a, Decision (P a)} (m : gmap K A) :
  (forall k a, m !! k = Some a -> ~ P a) -> cnt P m = 0.
Proof.
  intros Hn. unfold cnt. apply map_size_empty_iff. apply map_filter_empty_iff.
  intros k a Hk. simpl. eauto.
Qed.

Lemma dead_no_holders s ev k v : Inv s ev k -> vers s !! v = None -> holders s v = 0.
Proof.
  intros I Hv. unfold holders, pin_count.
  rewrite (cnt_zero (fun hd => h_root hd = Some v)), (cnt_zero (fun y => v_chain y = Some v)),
          (cnt_zero (fun m => m_ver m = v)).
  - destruct (pins s !! v) as [[|p]|] eqn:E; auto.
    destruct (i_pin _ _ _ I v p E). congruence.
  - intros l m Hm <-. destruct (i_mut _ _ _ I l m Hm) as (? & ? & _ & _ & _ & _ & ?). congruence.
  - intros w y Hy Hc. pose proof (i_chsup _ _ _ I w y v Hy Hc) as Hs.
    destruct (i_super _ _ _ I w y Hy Hs) as [(u & x0 & Hc' & Hx0 & _)|(Hc' & _)]; congruence.
  - intros h hd Hh Hr. destruct (i_handle _ _ _ I h hd v Hh Hr) as (? & ? & _). congruence.
Qed.

(* P12: a new collection *)
Lemma new_inv s h l v :
  Inv s v 0 -> handles s !! h = None -> vers s !! v = None ->
  (forall w y, vers s !! w = Some y -> v_lin y <> l) ->
  (forall g y, handles s !! g = Some y -> h_lin y <> l) ->
  Inv (St (marks s) (<[v := Ver l 0 ∅ ∅ 1 None false]> (vers s))
          (<[h := Hd l (Some v) false]> (handles s)) (pins s) (muts s)) v 0.
Proof.
  intros I Hh Hv Hlv Hlh.
  pose proof (dead_no_holders s v 0 v I Hv) as H0.
  assert (Hmono : forall w y, vers s !! w = Some y ->
            <[v := Ver l 0 ∅ ∅ 1 None false]> (vers s) !! w = Some y).
  { intros w y Hy. rewrite lookup_insert_ne; auto. congruence. }
  constructor; simpl.
  - intros w y n Hy Hn. apply lookup_insert_Some in Hy as [[_ <-]|[_ Hy]]; [set_solver|].
    eapply (i_safe _ _ _ I); eauto.
  - intros n u w y Hm Hy Hn. apply lookup_insert_Some in Hy as [[_ <-]|[_ Hy]]; [set_solver|].
    destruct (i_mark _ _ _ I n u w y Hm Hy Hn) as (x0 & Hx0 & ?). eauto.
  - intros n w y w' y' Hy Hy' Hn Hn'.
    apply lookup_insert_Some in Hy as [[_ <-]|[_ Hy]]; [set_solver|].
    apply lookup_insert_Some in Hy' as [[_ <-]|[_ Hy']]; [set_solver|].
    eapply (i_lin _ _ _ I); eauto.
  - intros w y w' y' Hy Hy' Hl Hq.
    apply lookup_insert_Some in Hy as [[<- <-]|[_ Hy]];
    apply lookup_insert_Some in Hy' as [[<- <-]|[_ Hy']]; auto; simpl in *.
    + exfalso. eapply Hlv; eauto.
    + exfalso. eapply Hlv; eauto.
    + eapply (i_seq _ _ _ I); eauto.
  - intros w y w' y' Hy Hy' Hl Hs.
    apply lookup_insert_Some in Hy as [[<- <-]|[_ Hy]];
    apply lookup_insert_Some in Hy' as [[<- <-]|[_ Hy']]; auto; simpl in *.
    + exfalso. eapply Hlv; eauto.
    + exfalso. eapply Hlv; eauto.
    + eapply (i_max _ _ _ I); eauto.
  - intros w y u Hy Hc. apply lookup_insert_Some in Hy as [[_ <-]|[_ Hy]]; [discriminate|].
    eapply (i_chsup _ _ _ I); eauto.
  - intros w y Hy Hs. apply lookup_insert_Some in Hy as [[_ <-]|[_ Hy]]; [discriminate|].
    destruct (i_super _ _ _ I w y Hy Hs) as [(u & x0 & ? & Hx0 & ?)|?]; auto.
    left. exists u, x0. auto.
  - intros w y n Hy Hs Hn. apply lookup_insert_Some in Hy as [[_ <-]|[_ Hy]]; [set_solver|].
    eapply (i_curU _ _ _ I); eauto.
  - intros g gd u Hg Hr. apply lookup_insert_Some in Hg as [[_ <-]|[_ Hg]].
    + simpl in *. inversion Hr; subst. rewrite lookup_insert. eexists; split; eauto.
    + destruct (i_handle _ _ _ I g gd u Hg Hr) as (x0 & Hx0 & ?). eauto.
  - intros h1 hd1 h2 hd2 H1 H2 Hro1 Hro2 Ho1 Ho2 Hll.
    apply lookup_insert_Some in H1 as [[<- <-]|[_ H1]];
    apply lookup_insert_Some in H2 as [[<- <-]|[_ H2]]; auto; simpl in *.
    + exfalso. eapply Hlh; eauto.
    + exfalso. eapply Hlh; eauto.
    + eapply (i_wruniq _ _ _ I); eauto.
  - intros u p Hp. destruct (i_pin _ _ _ I u p Hp) as [x0 Hx0]. eauto.
  - intros l0 m Hm. destruct (i_mut _ _ _ I l0 m Hm) as (hd & x0 & Hh0 & ? & ? & ? & Hx0).
    exists hd, x0. rewrite lookup_insert_ne by congruence. auto 10.
  - intros l0 m n Hm Hn. destruct (i_fresh _ _ _ I l0 m n Hm Hn) as [? Hnt]. split; auto.
    intros w y Hy. apply lookup_insert_Some in Hy as [[_ <-]|[_ Hy]]; [set_solver|eauto].
  - apply (i_frdisj _ _ _ I).
  - intros u y Hy. unfold holders, pin_count in *. simpl.
    apply lookup_insert_Some in Hy as [[<- <-]|[Hne Hy]].
    + rewrite exc_same. simpl.
      rewrite cnt_insert_True by auto. rewrite cnt_insert_False by (simpl; congruence).
      rewrite !cnt_delete_None by auto. lia.
    + rewrite (i_refs _ _ _ I u y Hy). unfold holders, pin_count.
      rewrite cnt_insert_False by (simpl; congruence).
      rewrite cnt_insert_False by (simpl; congruence).
      rewrite !cnt_delete_None by auto. lia.
Qed.

(* ------------------------------------------------------------------ *)
(* P13/P14: lazy loads: an allocatable cell c becomes U and is added to some trees *)
Definition grows (c : cell) (y' y : version) : Prop :=
  v_lin y' = v_lin y /\ v_seq y' = v_seq y /\ v_later y' = v_later y /\ v_refs y' = v_refs y /\
  v_chain y' = v_chain y /\ v_super y' = v_super y /\
  (v_tree y' = v_tree y \/ v_tree y' = v_tree y ∪ {[c]}).

Lemma alloc_not_tree s ev k c : Inv s ev k -> allocatable s c ->
  forall w y, vers s !! w = Some y -> c ∉ v_tree y.
Proof.
  intros I Ha w y Hy Hc. destruct (i_safe _ _ _ I w y c Hy Hc) as (m & Hm & HF).
  destruct Ha; congruence.
Qed.

Lemma alloc_not_fresh s ev k c : Inv s ev k -> allocatable s c ->
  forall l m, muts s !! l = Some m -> c ∉ m_fresh m.
Proof.
  intros I Ha l m Hm Hc. destruct (i_fresh _ _ _ I l m c Hm Hc) as [[?|?] _];
  destruct Ha; congruence.
Qed.

Lemma grow_inv s ev k c (vs' : gmap vid version) :
  Inv s ev k -> allocatable s c ->
  (forall w y', vs' !! w = Some y' -> exists y, vers s !! w = Some y /\ grows c y' y) ->
  (forall w y, vers s !! w = Some y -> is_Some (vs' !! w)) ->
  (forall w1 y1 w2 y2, vs' !! w1 = Some y1 -> vs' !! w2 = Some y2 ->
      c ∈ v_tree y1 -> c ∈ v_tree y2 -> v_lin y1 = v_lin y2) ->
  (forall u, cnt (fun y => v_chain y = Some u) vs' = cnt (fun y => v_chain y = Some u) (vers s)) ->
  Inv (St (<[c := U]> (marks s)) vs' (handles s) (pins s) (muts s)) ev k.
Proof.
  intros I Ha Hlk Hlv0 Hcl Hcnt.
  pose proof (alloc_not_tree s ev k c I Ha) as Hct.
  pose proof (alloc_not_fresh s ev k c I Ha) as Hcf.
  assert (Hlv : forall w y, vers s !! w = Some y -> exists y', vs' !! w = Some y' /\ grows c y' y).
  { intros w y Hy. destruct (Hlv0 w y Hy) as [y' Hy']. exists y'. split; auto.
    destruct (Hlk w y' Hy') as (y0 & Hy0 & Hg). congruence. }
  assert (Hin : forall w y' y n, vers s !! w = Some y -> grows c y' y -> n ∈ v_tree y' ->
            n = c \/ (n <> c /\ n ∈ v_tree y)).
  { intros w y' y n Hy (_ & _ & _ & _ & _ & _ & [Ht|Ht]) Hn; rewrite Ht in Hn.
    - right. split; auto. intros ->. eapply Hct; eauto.
    - apply elem_of_union in Hn as [Hn|Hn]; [|left; set_solver].
      right. split; auto. intros ->. eapply Hct; eauto. }
  constructor; simpl; try same I.
  - intros w y' n Hy' Hn. destruct (Hlk w y' Hy') as (y & Hy & Hg).
    destruct (Hin w y' y n Hy Hg Hn) as [->|[Hne Hn0]].
    + rewrite lookup_insert. exists U. split; [auto|discriminate].
    + rewrite lookup_insert_ne by auto. eapply (i_safe _ _ _ I); eauto.
  - intros n u w y' Hm Hy' Hn. destruct (Hlk w y' Hy') as (y & Hy & Hg).
    destruct (Hin w y' y n Hy Hg Hn) as [->|[Hne Hn0]].
    + rewrite lookup_insert in Hm. discriminate.
    + rewrite lookup_insert_ne in Hm by auto.
      destruct (i_mark _ _ _ I n u w y Hm Hy Hn0) as (x0 & Hx0 & Hl & Hq).
      destruct (Hlv u x0 Hx0) as (x1 & Hx1 & Hg1). exists x1. split; auto.
      destruct Hg as (-> & -> & _), Hg1 as (-> & -> & _). auto.
  - intros n w y1 w' y2 Hy1 Hy2 Hn1 Hn2.
    destruct (Hlk w y1 Hy1) as (y10 & Hy10 & Hg1). destruct (Hlk w' y2 Hy2) as (y20 & Hy20 & Hg2).
    destruct (Hin w y1 y10 n Hy10 Hg1 Hn1) as [->|[Hne Hn10]].
    + eapply Hcl; eauto.
    + destruct (Hin w' y2 y20 n Hy20 Hg2 Hn2) as [->|[_ Hn20]]; [congruence|].
      destruct Hg1 as (-> & _), Hg2 as (-> & _). eapply (i_lin _ _ _ I); eauto.
  - intros w y1 w' y2 Hy1 Hy2.
    destruct (Hlk w y1 Hy1) as (y10 & Hy10 & Hg1). destruct (Hlk w' y2 Hy2) as (y20 & Hy20 & Hg2).
    destruct Hg1 as (-> & -> & _), Hg2 as (-> & -> & _). eapply (i_seq _ _ _ I); eauto.
  - intros w y1 w' y2 Hy1 Hy2.
    destruct (Hlk w y1 Hy1) as (y10 & Hy10 & Hg1). destruct (Hlk w' y2 Hy2) as (y20 & Hy20 & Hg2).
    destruct Hg1 as (-> & -> & _ & _ & _ & -> & _), Hg2 as (-> & -> & _). eapply (i_max _ _ _ I); eauto.
  - intros w y' u Hy'. destruct (Hlk w y' Hy') as (y & Hy & Hg).
    destruct Hg as (_ & _ & _ & _ & -> & -> & _). eapply (i_chsup _ _ _ I); eauto.
  - intros w y' Hy' Hs. destruct (Hlk w y' Hy') as (y & Hy & Hg).
    destruct Hg as (Hl & Hq & _ & Hr & Hc & Hsu & _). rewrite Hsu in Hs. rewrite Hl, Hq, Hr, Hc.
    destruct (i_super _ _ _ I w y Hy Hs) as [(u & x0 & ? & Hx0 & ? & ?)|?]; auto.
    left. destruct (Hlv u x0 Hx0) as (x1 & Hx1 & Hg1). exists u, x1.
    destruct Hg1 as (-> & -> & _). auto.
  - intros w y' n Hy' Hs Hn. destruct (Hlk w y' Hy') as (y & Hy & Hg).
    destruct (Hin w y' y n Hy Hg Hn) as [->|[Hne Hn0]].
    + left. apply lookup_insert.
    + rewrite lookup_insert_ne by auto. destruct Hg as (-> & _ & _ & _ & _ & Hsu & _).
      rewrite Hsu in Hs. eapply (i_curU _ _ _ I); eauto.
  - intros h hd u Hh Hr. destruct (i_handle _ _ _ I h hd u Hh Hr) as (x0 & Hx0 & ? & ?).
    destruct (Hlv u x0 Hx0) as (x1 & Hx1 & Hg1). exists x1.
    destruct Hg1 as (-> & _ & _ & _ & _ & -> & _). auto.
  - intros u p Hp. destruct (i_pin _ _ _ I u p Hp) as [x0 Hx0]. eauto.
  - intros l m Hm. destruct (i_mut _ _ _ I l m Hm) as (hd & x0 & ? & ? & ? & ? & Hx0).
    destruct (Hlv _ x0 Hx0) as (x1 & Hx1 & _). exists hd, x1. auto.
  - intros l m n Hm Hn. destruct (i_fresh _ _ _ I l m n Hm Hn) as [Hk Hnt].
    assert (n <> c) as Hne by (intros ->; eapply Hcf; eauto).
    rewrite lookup_insert_ne by auto. split; auto.
    intros w y' Hy' Hn'. destruct (Hlk w y' Hy') as (y & Hy & Hg).
    destruct (Hin w y' y n Hy Hg Hn') as [->|[_ Hn0]]; [congruence|]. eapply Hnt; eauto.
  - intros u y' Hy'. destruct (Hlk u y' Hy') as (y & Hy & Hg).
    destruct Hg as (_ & _ & _ & -> & _). rewrite (i_refs _ _ _ I u y Hy).
    unfold holders, pin_count. simpl. rewrite Hcnt. auto.
Qed.

Lemma load_inv s ev k p c :
  Inv s ev k -> allocatable s c ->
  Inv (St (<[c := U]> (marks s))
          (fmap (fun y => if decide (p ∈ v_tree y)
                          then Ver (v_lin y) (v_seq y) (v_tree y ∪ {[c]}) (v_later y) (v_refs y) (v_chain y) (v_super y)
                          else y) (vers s))
          (handles s) (pins s) (muts s)) ev k.
Proof.
  intros I Ha.
  pose proof (alloc_not_tree s ev k c I Ha) as Hct.
  apply grow_inv; auto.
  - intros w y' Hy'. apply lookup_fmap_Some in Hy' as (y & <- & Hy). exists y. split; auto.
    destruct (decide (p ∈ v_tree y)); unfold grows; simpl; auto 10.
  - intros w y Hy. rewrite lookup_fmap, Hy. simpl. eauto.
  - intros w1 y1 w2 y2 H1 H2 Hc1 Hc2.
    apply lookup_fmap_Some in H1 as (y10 & <- & Hy1). apply lookup_fmap_Some in H2 as (y20 & <- & Hy2).
    revert Hc1 Hc2.
    destruct (decide (p ∈ v_tree y10)) as [Hp1|]; [|intros Hc1 _; exfalso; eapply (Hct w1 y10); eauto].
    destruct (decide (p ∈ v_tree y20)) as [Hp2|]; [|intros _ Hc2; exfalso; eapply (Hct w2 y20); eauto].
    intros _ _. simpl. eapply (i_lin _ _ _ I); eauto.
  - intros u. rewrite cnt_fmap. apply cnt_ext. intros w y Hy.
    destruct (decide (p ∈ v_tree y)); simpl; tauto.
Qed.

Lemma loadroot_inv s ev k v x c :
  Inv s ev k -> allocatable s c -> vers s !! v = Some x -> v_tree x = ∅ ->
  Inv (St (<[c := U]> (marks s))
          (<[v := Ver (v_lin x) (v_seq x) {[c]} (v_later x) (v_refs x) (v_chain x) (v_super x)]> (vers s))
          (handles s) (pins s) (muts s)) ev k.
Proof.
  intros I Ha Hx Ht.
  pose proof (alloc_not_tree s ev k c I Ha) as Hct.
  apply grow_inv; auto.
  - intros w y' Hy'. apply lookup_insert_Some in Hy' as [[<- <-]|[_ Hy']].
    + exists x. split; auto. unfold grows; simpl. rewrite Ht. repeat split; auto.
      right. set_solver.
    + exists y'. split; auto. unfold grows. auto 10.
  - intros w y Hy. destruct (decide (v = w)) as [->|].
    + rewrite lookup_insert. eauto.
    + rewrite lookup_insert_ne by auto. eauto.
  - intros w1 y1 w2 y2 H1 H2 Hc1 Hc2.
    apply lookup_insert_Some in H1 as [[<- <-]|[_ H1]]; [|exfalso; eapply Hct; eauto].
    apply lookup_insert_Some in H2 as [[<- <-]|[_ H2]]; [|exfalso; eapply Hct; eauto].
    auto.
  - intros u. apply (cnt_insert_same _ _ _ x); auto.
Qed.

(* ------------------------------------------------------------------ *)
(* facts about a mutation in flight *)
Lemma mut_facts s ev k l m : Inv s ev k -> muts s !! l = Some m ->
  exists hd x, handles s !! (m_handle m) = Some hd /\ h_lin hd = l /\ h_ro hd = false /\
    h_root hd = Some (m_ver m) /\ vers s !! (m_ver m) = Some x /\ v_lin x = l /\ v_super x = false.
Proof.
  intros I Hm. destruct (i_mut _ _ _ I l m Hm) as (hd & x & Hh & Hl & Hro & Hr & Hx).
  destruct (i_handle _ _ _ I _ hd _ Hh Hr) as (x' & Hx' & Hl' & Hs').
  assert (x' = x) as -> by congruence. exists hd, x. repeat split; auto. congruence.
Qed.

(* the unsuperseded version of a lineage is unique *)
Lemma cur_unique s ev k w y w' y' : Inv s ev k ->
  vers s !! w = Some y -> vers s !! w' = Some y' -> v_lin y = v_lin y' ->
  v_super y = false -> v_super y' = false -> w = w'.
Proof.
  intros I Hy Hy' Hl Hs Hs'. eapply (i_seq _ _ _ I); eauto.
  pose proof (i_max _ _ _ I w y w' y' Hy Hy' Hl Hs).
  pose proof (i_max _ _ _ I w' y' w y Hy' Hy (eq_sym Hl) Hs'). lia.
Qed.

(* P15: allocate and mark during a mutation *)
Lemma mbuild_inv s ev k l m x (new mkd : gset cell) :
  Inv s ev k -> muts s !! l = Some m -> vers s !! (m_ver m) = Some x ->
  (forall n, n ∈ new -> allocatable s n) ->
  mkd ⊆ v_tree x ∪ m_fresh m ∪ new ->
  (forall n, n ∈ mkd -> n ∉ new -> marks s !! n = Some U) ->
  Inv (set_mut (set_marks s (setm mkd (M (m_ver m)) (setm new U (marks s))))
               l (Some (Mut (m_handle m) (m_ver m) (m_fresh m ∪ new)))) ev k.
Proof.
  intros I Hm Hx Hnew Hmk HmkU.
  destruct (mut_facts s ev k l m I Hm) as (hd & x' & Hh & Hhl & Hro & Hr & Hx' & Hxl & Hxs).
  assert (x' = x) as -> by congruence. clear Hx'.
  set (mk' := setm mkd (M (m_ver m)) (setm new U (marks s))).
  assert (Hmk' : forall n, mk' !! n = if decide (n ∈ mkd) then Some (M (m_ver m))
                   else if decide (n ∈ new) then Some U else marks s !! n).
  { intros n. unfold mk'. rewrite !setm_lookup. auto. }
  assert (Hnt : forall n w y, n ∈ new -> vers s !! w = Some y -> n ∉ v_tree y).
  { intros n w y Hn. eapply alloc_not_tree; eauto. }
  assert (Hnf : forall n l0 m0, n ∈ new -> muts s !! l0 = Some m0 -> n ∉ m_fresh m0).
  { intros n l0 m0 Hn. eapply alloc_not_fresh; eauto. }
  assert (Htree : forall n w y, vers s !! w = Some y -> n ∈ v_tree y -> n ∈ mkd -> n ∈ v_tree x).
  { intros n w y Hy Hn Hin. apply Hmk in Hin. apply elem_of_union in Hin as [Hin|Hin].
    - apply elem_of_union in Hin as [Hin|Hin]; auto.
      exfalso. destruct (i_fresh _ _ _ I l m n Hm Hin) as [_ Hc]. eapply Hc; eauto.
    - exfalso. eapply Hnt; eauto. }
  constructor; simpl; fold mk'; try same I.
  - intros w y n Hy Hn. rewrite Hmk'.
    destruct (decide (n ∈ mkd)); [eexists; split; [eauto|discriminate]|].
    destruct (decide (n ∈ new)); [eexists; split; [eauto|discriminate]|].
    eapply (i_safe _ _ _ I); eauto.
  - intros n u w y Hk Hy Hn. rewrite Hmk' in Hk.
    destruct (decide (n ∈ mkd)) as [Hin|].
    + inversion Hk; subst. exists x. split; auto.
      pose proof (Htree n w y Hy Hn Hin) as Hnx.
      assert (v_lin y = v_lin x) as Hl by (eapply (i_lin _ _ _ I); eauto).
      split; auto. eapply (i_max _ _ _ I (m_ver m) x w y); eauto.
    + destruct (decide (n ∈ new)); [discriminate|]. eapply (i_mark _ _ _ I); eauto.
  - intros w y n Hy Hs Hn. rewrite Hmk'.
    destruct (decide (n ∈ mkd)) as [Hin|].
    + right. pose proof (Htree n w y Hy Hn Hin) as Hnx.
      assert (v_lin y = v_lin x) as Hl by (eapply (i_lin _ _ _ I); eauto).
      assert (w = m_ver m) as -> by (eapply cur_unique; eauto).
      split; auto. rewrite Hl, Hxl, lookup_insert. eauto.
    + destruct (decide (n ∈ new)) as [Hin'|]; [exfalso; eapply Hnt; eauto|].
      destruct (i_curU _ _ _ I w y n Hy Hs Hn) as [?|(? & m0 & Hm0 & Hv0)]; auto.
      right. split; auto. destruct (decide (v_lin y = l)) as [Hl|Hl].
      * rewrite Hl, lookup_insert. rewrite Hl in Hm0. assert (m0 = m) as -> by congruence. eauto.
      * rewrite lookup_insert_ne by auto. eauto.
  - intros l0 m0 Hm0. apply lookup_insert_Some in Hm0 as [[<- <-]|[_ Hm0]].
    + simpl. exists hd, x. auto.
    + eapply (i_mut _ _ _ I); eauto.
  - intros l0 m0 n Hm0 Hn. apply lookup_insert_Some in Hm0 as [[<- <-]|[Hne Hm0]].
    + simpl in *. rewrite Hmk'. split.
      * destruct (decide (n ∈ mkd)); auto. destruct (decide (n ∈ new)); auto.
        apply elem_of_union in Hn as [Hn|Hn]; [|contradiction].
        eapply (i_fresh _ _ _ I); eauto.
      * intros w y Hy. apply elem_of_union in Hn as [Hn|Hn].
        -- destruct (i_fresh _ _ _ I l m n Hm Hn) as [_ Hc]. eauto.
        -- eauto.
    + destruct (i_fresh _ _ _ I l0 m0 n Hm0 Hn) as [Hk Hc]. split; auto.
      rewrite Hmk'. destruct (decide (n ∈ mkd)) as [Hin|].
      * exfalso. apply Hmk in Hin. apply elem_of_union in Hin as [Hin|Hin].
        -- apply elem_of_union in Hin as [Hin|Hin]; [eapply Hc; eauto|].
           apply Hne. eapply (i_frdisj _ _ _ I); eauto.
        -- eapply Hnf; eauto.
      * destruct (decide (n ∈ new)) as [Hin|]; auto.
  - intros l1 m1 l2 m2 n H1 H2 Hn1 Hn2.
    apply lookup_insert_Some in H1 as [[<- <-]|[Hne1 H1]];
    apply lookup_insert_Some in H2 as [[<- <-]|[Hne2 H2]]; auto; simpl in *.
    + apply elem_of_union in Hn1 as [Hn1|Hn1]; [eapply (i_frdisj _ _ _ I); eauto|].
      exfalso. eapply Hnf; eauto.
    + apply elem_of_union in Hn2 as [Hn2|Hn2]; [eapply (i_frdisj _ _ _ I); eauto|].
      exfalso. eapply Hnf; eauto.
    + eapply (i_frdisj _ _ _ I); eauto.
  - intros u y Hy. rewrite (i_refs _ _ _ I u y Hy). unfold holders, pin_count. simpl.
    rewrite (cnt_insert_same (fun m0 => m_ver m0 = u) _ _ m); auto.
Qed.

(* P7: a failed mutation clears its marks on the current tree and goes away *)
Lemma abort_inv s k l m x :
  Inv s (m_ver m) k -> muts s !! l = Some m -> vers s !! (m_ver m) = Some x ->
  Inv (set_mut (set_marks s
          (setm (filter (fun n => marks s !! n = Some (M (m_ver m))) (v_tree x)) U (marks s)))
          l None) (m_ver m) (S k).
Proof.
  intros I Hm Hx.
  destruct (mut_facts s _ k l m I Hm) as (hd & x' & Hh & Hhl & Hro & Hr & Hx' & Hxl & Hxs).
  assert (x' = x) as -> by congruence. clear Hx'.
  set (R := filter (fun n => marks s !! n = Some (M (m_ver m))) (v_tree x)).
  assert (HR : forall n, n ∈ R <-> marks s !! n = Some (M (m_ver m)) /\ n ∈ v_tree x).
  { intros n. unfold R. rewrite elem_of_filter. tauto. }
  constructor; simpl; fold R; try same I.
  - intros w y n Hy Hn. rewrite setm_lookup.
    destruct (decide (n ∈ R)); [eexists; split; [eauto|discriminate]|].
    eapply (i_safe _ _ _ I); eauto.
  - intros n u w y Hk Hy Hn. rewrite setm_lookup in Hk.
    destruct (decide (n ∈ R)); [discriminate|]. eapply (i_mark _ _ _ I); eauto.
  - intros w y Hy Hs. destruct (i_super _ _ _ I w y Hy Hs) as [?|(_ & -> & _)]; auto.
    exfalso. congruence.
  - intros w y n Hy Hs Hn. rewrite setm_lookup.
    destruct (decide (n ∈ R)) as [Hin|Hin]; auto.
    destruct (i_curU _ _ _ I w y n Hy Hs Hn) as [?|(Hk & m0 & Hm0 & Hv0)]; auto.
    right. split; auto. exists m0. split; auto.
    rewrite lookup_delete_ne; auto. intros Heq. rewrite <- Heq in Hm0.
    assert (m0 = m) as -> by congruence. subst w.
    assert (y = x) as -> by congruence. apply Hin. apply HR. auto.
  - intros l0 m0 Hm0. apply lookup_delete_Some in Hm0 as [_ Hm0]. eapply (i_mut _ _ _ I); eauto.
  - intros l0 m0 n Hm0 Hn. apply lookup_delete_Some in Hm0 as [_ Hm0].
    destruct (i_fresh _ _ _ I l0 m0 n Hm0 Hn) as [Hk Hc]. split; auto.
    rewrite setm_lookup. destruct (decide (n ∈ R)) as [Hin|]; auto.
  - intros l1 m1 l2 m2 n H1 H2. apply lookup_delete_Some in H1 as [_ H1].
    apply lookup_delete_Some in H2 as [_ H2]. eapply (i_frdisj _ _ _ I); eauto.
  - intros u y Hy. rewrite (i_refs _ _ _ I u y Hy). unfold holders, pin_count, exc. simpl.
    destruct (decide (u = m_ver m)) as [->|Hne].
    + rewrite (cnt_delete_True (fun m0 => m_ver m0 = m_ver m) (muts s) l m); auto. lia.
    + rewrite (cnt_delete_False (fun m0 => m_ver m0 = u) (muts s) l m); auto.
Qed.


(* ------------------------------------------------------------------ *)
(* P8: publication of a new version (mkRootNodeLoc + reclaimMarkUpdate + rootCAS);
   afterwards the old version carries two references in hand *)
Lemma cas_inv s l m hd x v' (tr' lat' rm : gset cell) :
  Inv s (m_ver m) 0 ->
  muts s !! l = Some m -> handles s !! (m_handle m) = Some hd -> h_root hd = Some (m_ver m) ->
  vers s !! (m_ver m) = Some x -> vers s !! v' = None ->
  tr' ⊆ v_tree x ∪ m_fresh m ->
  (forall n, n ∈ tr' -> marks s !! n = Some U) ->
  rm ⊆ v_tree x ∪ m_fresh m ->
  (forall n, n ∈ rm -> marks s !! n = Some (M (m_ver m)) \/ (marks s !! n = Some U /\ n ∉ tr')) ->
  let chained := bool_decide (2 < v_refs x) in
  let xnew := Ver l (S (v_seq x)) tr' lat' (if chained then 2 else 1) None false in
  let xold := Ver (v_lin x) (v_seq x) (v_tree x) (v_later x) (v_refs x)
                  (if chained then Some v' else v_chain x) true in
  Inv (St (setm rm (M v') (marks s))
          (<[v' := xnew]> (<[m_ver m := xold]> (vers s)))
          (<[m_handle m := Hd (h_lin hd) (Some v') false]> (handles s))
          (pins s) (delete l (muts s))) (m_ver m) 2.
Proof.
  intros I Hm Hh Hr Hx Hv' Htr HtrU Hrm HrmM chained xnew xold.
  set (mv := m_ver m) in *. set (mh := m_handle m) in *.
  destruct (mut_facts s _ 0 l m I Hm) as (hd' & x' & Hh' & Hhl & Hro & _ & Hx' & Hxl & Hxs).
  fold mv mh in Hh', Hx'.
  assert (hd' = hd) as -> by congruence. assert (x' = x) as -> by congruence. clear Hh' Hx'.
  assert (Hxc : v_chain x = None).
  { destruct (v_chain x) as [u|] eqn:E; auto.
    pose proof (i_chsup _ _ _ I mv x u Hx E). congruence. }
  assert (Hne : v' <> mv) by (intros ->; congruence).
  pose proof (dead_no_holders s _ 0 v' I Hv') as H0.
  destruct (no_holders s v' H0) as (Hnh & Hnp & Hnc & Hnm).
  assert (Hfresh_tree : forall n w y, n ∈ m_fresh m -> vers s !! w = Some y -> n ∉ v_tree y).
  { intros n w y Hn Hy. destruct (i_fresh _ _ _ I l m n Hm Hn) as [_ Hc]. eauto. }
  (* cells of old trees that are in tr' or rm are in the tree of x *)
  assert (Hinx : forall n w y, vers s !! w = Some y -> n ∈ v_tree y ->
            n ∈ v_tree x ∪ m_fresh m -> n ∈ v_tree x /\ v_lin y = l /\ v_seq y <= v_seq x).
  { intros n w y Hy Hn Hin. apply elem_of_union in Hin as [Hin|Hin];
      [|exfalso; eapply Hfresh_tree; eauto].
    assert (v_lin y = v_lin x) as Hl by (eapply (i_lin _ _ _ I); eauto).
    repeat split; auto; [congruence|]. eapply (i_max _ _ _ I mv x w y); eauto. }
  assert (HA : forall n, n ∈ tr' -> n ∉ rm /\ marks s !! n = Some U).
  { intros n Hn. split; auto. intros Hin. pose proof (HtrU n Hn) as HU.
    destruct (HrmM n Hin) as [?|[_ ?]]; [congruence|contradiction]. }
  set (vs1 := <[v' := xnew]> (<[mv := xold]> (vers s))).
  assert (Hlk : forall w y, vs1 !! w = Some y ->
     (w = v' /\ y = xnew) \/
     (w <> v' /\ exists y0, vers s !! w = Some y0 /\ v_lin y = v_lin y0 /\ v_seq y = v_seq y0 /\
        v_tree y = v_tree y0 /\ ((w = mv /\ y0 = x /\ y = xold) \/ (w <> mv /\ y = y0)))).
  { intros w y Hy. unfold vs1 in Hy. apply lookup_insert_Some in Hy as [[<- <-]|[Hn1 Hy]]; auto.
    right. split; auto. apply lookup_insert_Some in Hy as [[<- <-]|[Hn2 Hy]].
    - exists x. simpl. auto 10.
    - exists y. auto 10. }
  assert (Hlv : forall w y0, vers s !! w = Some y0 ->
     exists y, vs1 !! w = Some y /\ v_lin y = v_lin y0 /\ v_seq y = v_seq y0).
  { intros w y0 Hy0. unfold vs1. rewrite lookup_insert_ne by congruence.
    destruct (decide (w = mv)) as [->|Hn].
    - rewrite lookup_insert. assert (y0 = x) as -> by congruence. eexists; split; eauto.
    - rewrite lookup_insert_ne by auto. eauto. }
  assert (Hnew : vs1 !! v' = Some xnew) by (unfold vs1; apply lookup_insert).
  assert (Hrefs : 2 <= v_refs x).
  { rewrite (i_refs _ _ _ I mv x Hx). unfold holders.
    pose proof (cnt_pos (fun hd0 => h_root hd0 = Some mv) _ _ _ Hh Hr).
    pose proof (cnt_pos (fun m0 => m_ver m0 = mv) _ _ _ Hm eq_refl). lia. }
  constructor; simpl; fold vs1.
  - (* i_safe *)
    intros w y n Hy Hn. rewrite setm_lookup.
    destruct (decide (n ∈ rm)); [eexists; split; [eauto|discriminate]|].
    destruct (Hlk w y Hy) as [[-> ->]|(_ & y0 & Hy0 & _ & _ & Ht & _)].
    + simpl in Hn. destruct (HA n Hn) as [_ HU]. eexists; split; [eauto|discriminate].
    + rewrite Ht in Hn. eapply (i_safe _ _ _ I); eauto.
  - (* i_mark *)
    intros n u w y Hk Hy Hn. rewrite setm_lookup in Hk.
    destruct (Hlk w y Hy) as [[-> ->]|(_ & y0 & Hy0 & Hl & Hq & Ht & _)].
    + simpl in Hn. destruct (HA n Hn) as [Hnr HU]. rewrite decide_False in Hk by auto. congruence.
    + rewrite Ht in Hn. rewrite Hl, Hq. destruct (decide (n ∈ rm)) as [Hin|Hin].
      * inversion Hk; subst u. exists xnew. split; auto. simpl.
        destruct (Hinx n w y0 Hy0 Hn (Hrm n Hin)) as (_ & ? & ?). split; auto.
      * destruct (i_mark _ _ _ I n u w y0 Hk Hy0 Hn) as (x0 & Hx0 & ? & ?).
        destruct (Hlv u x0 Hx0) as (x1 & Hx1 & Hl1 & Hq1). exists x1. rewrite Hl1, Hq1. auto.
  - (* i_lin *)
    intros n w y w' y' Hy Hy' Hn Hn'.
    destruct (Hlk w y Hy) as [[-> ->]|(_ & y0 & Hy0 & Hl & _ & Ht & _)];
    destruct (Hlk w' y' Hy') as [[-> ->]|(_ & y0' & Hy0' & Hl' & _ & Ht' & _)]; auto.
    + simpl in *. rewrite Ht' in Hn'. rewrite Hl'.
      destruct (Hinx n w' y0' Hy0' Hn' (Htr n Hn)) as (_ & ? & _). auto.
    + simpl in *. rewrite Ht in Hn. rewrite Hl.
      destruct (Hinx n w y0 Hy0 Hn (Htr n Hn')) as (_ & ? & _). auto.
    + rewrite Ht in Hn. rewrite Ht' in Hn'. rewrite Hl, Hl'. eapply (i_lin _ _ _ I); eauto.
  - (* i_seq *)
    intros w y w' y' Hy Hy' Hll Hqq.
    destruct (Hlk w y Hy) as [[-> ->]|(_ & y0 & Hy0 & Hl & Hq & _)];
    destruct (Hlk w' y' Hy') as [[-> ->]|(_ & y0' & Hy0' & Hl' & Hq' & _)]; auto; simpl in *.
    + exfalso. rewrite Hl' in Hll. rewrite Hq' in Hqq.
      assert (v_seq y0' <= v_seq x) by (eapply (i_max _ _ _ I mv x w' y0'); eauto; congruence). lia.
    + exfalso. rewrite Hl in Hll. rewrite Hq in Hqq.
      assert (v_seq y0 <= v_seq x) by (eapply (i_max _ _ _ I mv x w y0); eauto; congruence). lia.
    + rewrite Hl, Hl' in Hll. rewrite Hq, Hq' in Hqq. eapply (i_seq _ _ _ I); eauto.
  - (* i_max *)
    intros w y w' y' Hy Hy' Hll Hs.
    destruct (Hlk w y Hy) as [[-> ->]|(_ & y0 & Hy0 & Hl & Hq & _ & Hcase)];
    destruct (Hlk w' y' Hy') as [[-> ->]|(_ & y0' & Hy0' & Hl' & Hq' & _)]; auto; simpl in *.
    + rewrite Hl' in Hll. rewrite Hq'.
      assert (v_seq y0' <= v_seq x) by (eapply (i_max _ _ _ I mv x w' y0'); eauto; congruence). lia.
    + exfalso. destruct Hcase as [(-> & -> & ->)|[Hnmv ->]]; [discriminate|].
      apply Hnmv. eapply (cur_unique s _ 0 w y0 mv x); eauto. congruence.
    + destruct Hcase as [(-> & -> & ->)|[Hnmv ->]]; [discriminate|].
      rewrite Hl' in Hll. rewrite Hq'. eapply (i_max _ _ _ I); eauto.
  - (* i_chsup *)
    intros w y u Hy Hc.
    destruct (Hlk w y Hy) as [[-> ->]|(_ & y0 & Hy0 & _ & _ & _ & [(-> & -> & ->)|[_ ->]])]; auto.
    + discriminate.
    + eapply (i_chsup _ _ _ I); eauto.
  - (* i_super *)
    intros w y Hy Hs.
    destruct (Hlk w y Hy) as [[-> ->]|(_ & y0 & Hy0 & _ & _ & _ & [(-> & -> & ->)|[Hnmv ->]])].
    + discriminate.
    + simpl. unfold chained. destruct (bool_decide (2 < v_refs x)) eqn:E.
      * left. exists v', xnew. simpl. auto.
      * right. apply bool_decide_eq_false in E. repeat split; auto; lia.
    + destruct (i_super _ _ _ I w y0 Hy0 Hs) as [(u & x0 & Hc & Hx0 & Hl0 & Hq0)|(_ & _ & ? & _)]; [|lia].
      left. destruct (Hlv u x0 Hx0) as (x1 & Hx1 & Hl1 & Hq1). exists u, x1.
      rewrite Hl1, Hq1. auto.
  - (* i_curU *)
    intros w y n Hy Hs Hn. rewrite setm_lookup.
    destruct (Hlk w y Hy) as [[-> ->]|(_ & y0 & Hy0 & _ & _ & _ & [(-> & -> & ->)|[Hnmv ->]])].
    + simpl in Hn. destruct (HA n Hn) as [Hnr HU]. rewrite decide_False by auto. auto.
    + discriminate.
    + assert (v_lin y0 <> l) as Hnl.
      { intros Hl. apply Hnmv. eapply (cur_unique s _ 0 w y0 mv x); eauto. congruence. }
      destruct (decide (n ∈ rm)) as [Hin|Hin].
      * exfalso. destruct (Hinx n w y0 Hy0 Hn (Hrm n Hin)) as (_ & ? & _). auto.
      * destruct (i_curU _ _ _ I w y0 n Hy0 Hs Hn) as [?|(? & m0 & Hm0 & ?)]; auto.
        right. split; auto. exists m0. rewrite lookup_delete_ne by auto. auto.
  - (* i_handle *)
    intros g gd u Hg Hgr. apply lookup_insert_Some in Hg as [[<- <-]|[Hng Hg]].
    + simpl in *. inversion Hgr; subst u. exists xnew. auto.
    + destruct (i_handle _ _ _ I g gd u Hg Hgr) as (x0 & Hx0 & Hl0 & Hs0).
      destruct (decide (u = mv)) as [->|Hnu].
      * assert (x0 = x) as -> by congruence. exists xold. unfold vs1.
        rewrite lookup_insert_ne by auto. rewrite lookup_insert. simpl. split; auto. split; auto.
        intros Hgro. exfalso. apply Hng. symmetry.
        eapply (i_wruniq _ _ _ I g gd mh hd); eauto. congruence.
      * exists x0. unfold vs1. rewrite lookup_insert_ne by congruence.
        rewrite lookup_insert_ne by auto. auto.
  - (* i_wruniq *)
    intros h1 hd1 h2 hd2 H1 H2 Hro1 Hro2 Ho1 Ho2 Hll.
    apply lookup_insert_Some in H1 as [[<- <-]|[Hn1 H1]];
    apply lookup_insert_Some in H2 as [[<- <-]|[Hn2 H2]]; auto; simpl in *.
    + eapply (i_wruniq _ _ _ I mh hd h2 hd2); eauto.
    + eapply (i_wruniq _ _ _ I h1 hd1 mh hd); eauto.
    + eapply (i_wruniq _ _ _ I); eauto.
  - (* i_pin *)
    intros u p Hp. destruct (i_pin _ _ _ I u p Hp) as [x0 Hx0].
    destruct (Hlv u x0 Hx0) as (x1 & Hx1 & _). eauto.
  - (* i_mut *)
    intros l0 m0 Hm0. apply lookup_delete_Some in Hm0 as [Hnl Hm0].
    destruct (i_mut _ _ _ I l0 m0 Hm0) as (hd0 & x0 & Hh0 & Hl0 & ? & ? & Hx0).
    destruct (Hlv _ x0 Hx0) as (x1 & Hx1 & _). exists hd0, x1.
    rewrite lookup_insert_ne; auto. intros Heq. rewrite <- Heq in Hh0. congruence.
  - (* i_fresh *)
    intros l0 m0 n Hm0 Hn. apply lookup_delete_Some in Hm0 as [Hnl Hm0].
    destruct (i_fresh _ _ _ I l0 m0 n Hm0 Hn) as [Hk Hc].
    assert (Hnot : n ∉ v_tree x ∪ m_fresh m).
    { intros Hin. apply elem_of_union in Hin as [Hin|Hin]; [eapply Hc; eauto|].
      apply Hnl. eapply (i_frdisj _ _ _ I); eauto. }
    split.
    + rewrite setm_lookup. rewrite decide_False; auto.
    + intros w y Hy Hny.
      destruct (Hlk w y Hy) as [[-> ->]|(_ & y0 & Hy0 & _ & _ & Ht & _)].
      * simpl in Hny. auto.
      * rewrite Ht in Hny. eapply Hc; eauto.
  - (* i_frdisj *)
    intros l1 m1 l2 m2 n H1 H2. apply lookup_delete_Some in H1 as [_ H1].
    apply lookup_delete_Some in H2 as [_ H2]. eapply (i_frdisj _ _ _ I); eauto.
  - (* i_refs *)
    intros u y Hy. unfold holders, pin_count, exc. simpl. fold vs1.
    assert (Hc_h : forall u, cnt (fun hd0 => h_root hd0 = Some u) (handles s) =
        (if decide (u = mv) then 1 else 0) + cnt (fun hd0 => h_root hd0 = Some u) (delete mh (handles s))).
    { intros u0. destruct (decide (u0 = mv)) as [->|].
      - rewrite (cnt_delete_True _ _ mh hd); auto.
      - rewrite (cnt_delete_False _ _ mh hd); auto. congruence. }
    assert (Hc_h1 : forall u, cnt (fun hd0 => h_root hd0 = Some u)
                          (<[mh := Hd (h_lin hd) (Some v') false]> (handles s)) =
        (if decide (u = v') then 1 else 0) + cnt (fun hd0 => h_root hd0 = Some u) (delete mh (handles s))).
    { intros u0. destruct (decide (u0 = v')) as [->|].
      - rewrite cnt_insert_True; auto.
      - rewrite cnt_insert_False; auto. simpl. congruence. }
    assert (Hc_m : forall u, cnt (fun m0 => m_ver m0 = u) (muts s) =
        (if decide (u = mv) then 1 else 0) + cnt (fun m0 => m_ver m0 = u) (delete l (muts s))).
    { intros u0. destruct (decide (u0 = mv)) as [->|].
      - rewrite (cnt_delete_True _ _ l m); auto.
      - rewrite (cnt_delete_False _ _ l m); auto. }
    assert (Hc_v : forall u, cnt (fun y0 => v_chain y0 = Some u) (vers s) =
        cnt (fun y0 => v_chain y0 = Some u) (delete mv (vers s))).
    { intros u0. rewrite (cnt_delete_False _ _ mv x); auto. congruence. }
    assert (Hc_v1 : forall u, cnt (fun y0 => v_chain y0 = Some u) vs1 =
        (if decide (chained = true /\ u = v') then 1 else 0) +
        cnt (fun y0 => v_chain y0 = Some u) (delete mv (vers s))).
    { intros u0. unfold vs1. rewrite cnt_insert_False by (simpl; congruence).
      rewrite delete_notin by (rewrite lookup_insert_ne by auto; auto).
      destruct (decide (chained = true /\ u0 = v')) as [[Hch ->]|Hno].
      - rewrite cnt_insert_True; auto. simpl. rewrite Hch. auto.
      - rewrite cnt_insert_False; auto. simpl. intros Heq. apply Hno.
        destruct chained; [inversion Heq; auto|congruence]. }
    rewrite Hc_h1, Hc_v1.
    destruct (Hlk u y Hy) as [[-> ->]|(Hnu & y0 & Hy0 & _ & _ & _ & Hcase)].
    + (* the new version *)
      unfold holders, pin_count in H0. rewrite Hc_h, Hc_v, Hc_m in H0.
      rewrite decide_True by auto. rewrite (decide_False (P := v' = mv)) by auto.
      simpl. destruct chained.
      * rewrite decide_True by auto. lia.
      * rewrite decide_False by (intros [? _]; discriminate). lia.
    + pose proof (i_refs _ _ _ I u y0 Hy0) as Hr0. unfold holders, pin_count, exc in Hr0.
      rewrite Hc_h, Hc_v, Hc_m in Hr0.
      rewrite (decide_False (P := u = v')) by auto.
      rewrite (decide_False (P := chained = true /\ u = v')) by (intros [_ ?]; auto).
      destruct Hcase as [(-> & -> & ->)|[Hnmv ->]].
      * simpl. rewrite !decide_True in Hr0 by auto. rewrite decide_True by auto. lia.
      * rewrite !(decide_False (P := u = mv)) in Hr0 by auto.
        rewrite (decide_False (P := u = mv)) by auto. lia.
Qed.

(* ------------------------------------------------------------------ *)
(* every step preserves the invariant *)
Lemma Inv0 s v w : Inv s v 0 -> Inv s w 0.
Proof. intros I. eapply Inv_irrel; eauto. Qed.

Theorem step_inv s s' : step s s' -> forall v0, Inv s v0 0 -> Inv s' v0 0.
Proof.
  intros Hst v0 I0. destruct Hst.
  - (* new *) apply (Inv0 _ v). apply new_inv; auto. apply (Inv0 _ v0); auto.
  - (* pin *) apply (Inv0 _ v).
    pose proof (Inv0 _ _ v I0) as I.
    assert (Inv (upd_ver s v (with_refs x (S (v_refs x)))) v 1) as I1
      by (eapply refs_inv; eauto; lia).
    change (pin_count s v) with (pin_count (upd_ver s v (with_refs x (S (v_refs x)))) v).
    apply pin_up_inv; auto.
    + simpl. rewrite lookup_insert. eauto.
    + simpl. rewrite lookup_insert. intros x0 Hx0. inversion Hx0; subst. simpl.
      eapply Inv_chained; eauto.
  - (* unpin *) apply (Inv0 _ v). eapply decref_inv; eauto.
    apply pin_down_inv; auto. apply (Inv0 _ v0); auto.
  - (* load *) apply load_inv; auto.
  - (* loadroot *) apply loadroot_inv; auto.
  - (* snapshot *) apply (Inv0 _ v).
    pose proof (Inv0 _ _ v I0) as I.
    assert (Inv (upd_ver s v (with_refs x (S (v_refs x)))) v 1) as I1
      by (eapply refs_inv; eauto; lia).
    destruct (i_handle _ _ _ I h hd v H H0) as (x0 & Hx0 & Hl0 & _).
    assert (x0 = x) as -> by congruence.
    eapply (open_inv _ h' (h_lin hd) v true (with_refs x (S (v_refs x)))); eauto.
    + simpl. apply lookup_insert.
    + discriminate.
    + simpl. eapply Inv_chained; eauto.
  - (* share *) apply (Inv0 _ v).
    pose proof (Inv0 _ _ v I0) as I.
    destruct (i_handle _ _ _ I h hd v H H1) as (x & Hx & Hl & Hs).
    assert (Inv (set_handle s h (Hd (h_lin hd) None false)) v 1) as I1.
    { eapply close_inv; eauto. intros l m Hm Heq.
      destruct (i_mut _ _ _ I l m Hm) as (hd0 & _ & Hh0 & Hl0 & _).
      rewrite Heq in Hh0. assert (hd0 = hd) as -> by congruence. congruence. }
    assert (h <> h') as Hne by (intros ->; congruence).
    eapply (open_inv _ h' (h_lin hd) v false x); eauto.
    + simpl. rewrite lookup_insert_ne; auto.
    + intros _. split; auto. simpl. intros g gd Hg Hro Ho Hll.
      apply lookup_insert_Some in Hg as [[<- <-]|[Hng Hg]].
      * simpl in Ho. destruct Ho; discriminate.
      * apply Hng. eapply (i_wruniq _ _ _ I h hd g gd); eauto.
    + eapply Inv_chained; eauto.
  - (* close *) apply (Inv0 _ v). eapply decref_inv; eauto.
    pose proof (Inv0 _ _ v I0) as I.
    eapply close_inv; eauto. intros l m Hm Heq.
    destruct (i_mut _ _ _ I l m Hm) as (hd0 & _ & Hh0 & Hl0 & _).
    rewrite Heq in Hh0. assert (hd0 = hd) as -> by congruence.
    subst l. eapply H1; eauto.
  - (* mbegin *) apply (Inv0 _ v).
    pose proof (Inv0 _ _ v I0) as I.
    assert (Inv (upd_ver s v (with_refs x (S (v_refs x)))) v 1) as I1
      by (eapply refs_inv; eauto; lia).
    eapply (mbegin_inv _ h hd v (with_refs x (S (v_refs x)))); eauto.
    + simpl. apply lookup_insert.
    + simpl. eapply Inv_chained; eauto.
  - (* mbuild *) eapply mbuild_inv; eauto.
  - (* mabort *) apply (Inv0 _ (m_ver m)). eapply decref_inv; eauto.
    eapply abort_inv; eauto. apply (Inv0 _ v0); auto.
  - (* mcas *)
    pose proof (Inv0 _ _ (m_ver m) I0) as I.
    assert (Inv s1 (m_ver m) 2) as I1.
    { subst s1. eapply cas_inv; eauto. }
    destruct H10 as (s' & Hd1 & Hdead & Hlive).
    pose proof (decref_inv _ _ _ Hd1 1 I1) as I2.
    destruct (vers s' !! m_ver m) as [y|] eqn:E.
    + apply (Inv0 _ (m_ver m)). eapply decref_inv; [apply Hlive; congruence|exact I2].
    + assert (s2 = s') as -> by (apply Hdead; reflexivity). eapply Inv_irrel; eauto.
Qed.

Lemma init_inv v : Inv init v 0.
Proof.
  constructor; simpl; intros *; rewrite ?lookup_empty; try discriminate.
Qed.

Lemma reachable_inv s : reachable s -> forall v, Inv s v 0.
Proof.
  induction 1; intros v; [apply init_inv|]. eapply step_inv; eauto.
Qed.

(* ================================================================== *)
(* MAIN THEOREMS                                                        *)

(* 1. no cell of a live version's tree is on the free list (or unallocated) *)
Theorem proto_safe : forall s, reachable s -> forall v x n,
  vers s !! v = Some x -> n ∈ v_tree x -> exists k, marks s !! n = Some k /\ k <> F.
Proof.
  intros s Hr v x n Hx Hn. eapply (i_safe _ _ _ (reachable_inv s Hr v)); eauto.
Qed.

(* 2. a live version's tree only grows, by lazy loads of allocatable cells *)
Theorem tree_stable : forall s s', reachable s -> step s s' -> forall v x x',
  vers s !! v = Some x -> vers s' !! v = Some x' ->
  v_tree x ⊆ v_tree x' /\
  (forall n, n ∈ v_tree x' -> n ∉ v_tree x -> marks s' !! n = Some U /\ allocatable s n).
Proof.
  intros s s' _ Hst v x x' Hx Hx'.
  assert (Hsame : v_tree x' = v_tree x ->
     v_tree x ⊆ v_tree x' /\
     (forall n, n ∈ v_tree x' -> n ∉ v_tree x -> marks s' !! n = Some U /\ allocatable s n)).
  { intros ->. split; auto. intros n ? ?. contradiction. }
  assert (Hdec : forall s0 u, vers s0 = vers s -> decref s0 u s' -> v_tree x' = v_tree x).
  { intros s0 u Hv Hd. destruct (decref_vers _ _ _ Hd v x' Hx') as (y & Hy & Hs).
    rewrite Hv in Hy. assert (y = x) as -> by congruence. apply Hs. }
  destruct Hst; simpl in *.
  - apply Hsame. rewrite lookup_insert_ne in Hx' by congruence. congruence.
  - apply Hsame. apply lookup_insert_Some in Hx' as [[<- <-]|[_ Hx']]; simpl; congruence.
  - apply Hsame. match goal with Hd : decref _ _ _ |- _ => apply (fun E => Hdec _ _ E Hd); reflexivity end.
  - rewrite lookup_fmap, Hx in Hx'. simpl in Hx'. inversion Hx'; subst x'. clear Hx'.
    destruct (decide (p ∈ v_tree x)); simpl.
    + split; [set_solver|]. intros n0 Hn Hnn. assert (n0 = c) as -> by set_solver.
      rewrite lookup_insert. auto.
    + split; auto. intros n0 ? ?. contradiction.
  - apply lookup_insert_Some in Hx' as [[<- <-]|[_ Hx']]; simpl.
    + assert (x = x0) as <- by congruence. split; [set_solver|].
      intros n Hn Hnn. assert (n = c) as -> by set_solver. rewrite lookup_insert. auto.
    + apply Hsame. congruence.
  - apply Hsame. apply lookup_insert_Some in Hx' as [[<- <-]|[_ Hx']]; simpl; congruence.
  - apply Hsame. congruence.
  - apply Hsame. match goal with Hd : decref _ _ _ |- _ => apply (fun E => Hdec _ _ E Hd); reflexivity end.
  - apply Hsame. apply lookup_insert_Some in Hx' as [[<- <-]|[_ Hx']]; simpl; congruence.
  - apply Hsame. congruence.
  - apply Hsame. match goal with Hd : decref _ _ _ |- _ => apply (fun E => Hdec _ _ E Hd); reflexivity end.
  - apply Hsame.
    assert (Hs1 : forall y, vers s1 !! v = Some y -> v_tree y = v_tree x).
    { subst s1. simpl. intros y Hy.
      rewrite lookup_insert_ne in Hy by congruence.
      apply lookup_insert_Some in Hy as [[<- <-]|[_ Hy]]; simpl; congruence. }
    destruct H10 as (s' & Hd1 & Hdead & Hlive).
    assert (Hs' : forall y, vers s' !! v = Some y -> v_tree y = v_tree x).
    { intros y Hy. destruct (decref_vers _ _ _ Hd1 v y Hy) as (y0 & Hy0 & Hs).
      rewrite <- (Hs1 y0 Hy0). apply Hs. }
    destruct (vers s' !! m_ver m) eqn:E.
    + assert (decref s' (m_ver m) s2) as Hd2 by (apply Hlive; congruence).
      destruct (decref_vers _ _ _ Hd2 v x' Hx') as (y0 & Hy0 & Hs).
      rewrite <- (Hs' y0 Hy0). apply Hs.
    + assert (s2 = s') as -> by auto. auto.
Qed.

(* 3. whoever holds a reference can rely on the version being live *)
Theorem pinned_live : forall s, reachable s -> forall v p,
  pins s !! v = Some (S p) -> is_Some (vers s !! v).
Proof. intros s Hr v p. apply (i_pin _ _ _ (reachable_inv s Hr v)). Qed.

Theorem handle_live : forall s, reachable s -> forall h hd v,
  handles s !! h = Some hd -> h_root hd = Some v -> is_Some (vers s !! v).
Proof.
  intros s Hr h hd v Hh Hro.
  destruct (i_handle _ _ _ (reachable_inv s Hr v) h hd v Hh Hro) as (x & Hx & _). eauto.
Qed.

Theorem mut_live : forall s, reachable s -> forall l m,
  muts s !! l = Some m -> is_Some (vers s !! (m_ver m)).
Proof.
  intros s Hr l m Hm.
  destruct (i_mut _ _ _ (reachable_inv s Hr l) l m Hm) as (? & x & _ & _ & _ & _ & Hx). eauto.
Qed.

(* 4. exact reference accounting: open handles + reader pins + chain references of live
      predecessors + mutations in flight *)
Theorem refs_accounting : forall s, reachable s -> forall v x, vers s !! v = Some x ->
  v_refs x = cnt (fun hd => h_root hd = Some v) (handles s) + pin_count s v +
             cnt (fun y => v_chain y = Some v) (vers s) + cnt (fun m => m_ver m = v) (muts s).
Proof.
  intros s Hr v x Hx. rewrite (i_refs _ _ _ (reachable_inv s Hr v) v x Hx).
  unfold holders, exc. destruct (decide (v = v)); lia.
Qed.

Corollary refs_positive : forall s, reachable s -> forall v x, vers s !! v = Some x ->
  (forall h hd, handles s !! h = Some hd -> h_root hd = Some v -> 1 <= v_refs x) /\
  (pin_count s v <= v_refs x) /\
  (forall w y, vers s !! w = Some y -> v_chain y = Some v -> 1 <= v_refs x) /\
  (forall l m, muts s !! l = Some m -> m_ver m = v -> 1 <= v_refs x).
Proof.
  intros s Hr v x Hx. rewrite (refs_accounting s Hr v x Hx). repeat split.
  - intros h hd Hh Hro. pose proof (cnt_pos (fun hd => h_root hd = Some v) _ _ _ Hh Hro). lia.
  - lia.
  - intros w y Hy Hc. pose proof (cnt_pos (fun y => v_chain y = Some v) _ _ _ Hy Hc). lia.
  - intros l m Hm Hv. pose proof (cnt_pos (fun m => m_ver m = v) _ _ _ Hm Hv). lia.
Qed.

(* 5. the three protocol panics are unreachable *)
Theorem cas_enabled : forall s, reachable s -> forall l m, muts s !! l = Some m ->
  exists hd, handles s !! (m_handle m) = Some hd /\ h_root hd = Some (m_ver m) /\
             h_lin hd = l /\ h_ro hd = false.
Proof.
  intros s Hr l m Hm.
  destruct (mut_facts s l 0 l m (reachable_inv s Hr l) Hm) as (hd & x & ? & ? & ? & ? & _).
  exists hd. auto.
Qed.

Theorem chain_free_at_cas : forall s, reachable s -> forall l m x hd,
  muts s !! l = Some m -> vers s !! (m_ver m) = Some x ->
  handles s !! (m_handle m) = Some hd -> h_root hd = Some (m_ver m) ->
  v_super x = false /\ v_chain x = None.
Proof.
  intros s Hr l m x hd Hm Hx _ _. pose proof (reachable_inv s Hr l) as I.
  destruct (mut_facts s l 0 l m I Hm) as (_ & x' & _ & _ & _ & _ & Hx' & _ & Hs).
  assert (x' = x) as -> by congruence. split; auto.
  destruct (v_chain x) as [u|] eqn:E; auto.
  pose proof (i_chsup _ _ _ I _ x u Hx E). congruence.
Qed.

(* the cells freed by any rootDecRef are not already on the free list *)
Theorem no_double_free : forall s v x n, freeable s v x n -> marks s !! n <> Some F.
Proof. intros s v x n [_ [H|(_ & _ & H)]]; congruence. Qed.

(* 6. C07: marks are restored by a failed mutation *)
Theorem marks_restored : forall s s' l m x, reachable s ->
  muts s !! l = Some m -> vers s !! (m_ver m) = Some x ->
  decref (set_mut (set_marks s
            (setm (filter (fun n => marks s !! n = Some (M (m_ver m))) (v_tree x)) U (marks s)))
            l None) (m_ver m) s' ->
  forall x', vers s' !! (m_ver m) = Some x' ->
  forall n, n ∈ v_tree x' -> marks s' !! n <> Some (M (m_ver m)).
Proof.
  intros s s' l m x _ Hm Hx Hd x' Hx' n Hn Hk.
  destruct (decref_vers _ _ _ Hd _ x' Hx') as (y & Hy & Hs). simpl in Hy.
  assert (y = x) as -> by congruence. destruct Hs as (_ & _ & Ht & _). rewrite Ht in Hn.
  destruct (decref_marks _ _ _ Hd n _ Hk) as [?|Hk0]; [discriminate|]. simpl in Hk0.
  rewrite setm_lookup in Hk0.
  destruct (decide (n ∈ filter (fun n => marks s !! n = Some (M (m_ver m))) (v_tree x))) as [|Hnot];
    [discriminate|].
  apply Hnot. apply elem_of_filter. auto.
Qed.

Theorem current_tree_unmarked : forall s, reachable s -> forall h hd v x,
  handles s !! h = Some hd -> h_ro hd = false -> h_root hd = Some v ->
  muts s !! (h_lin hd) = None -> vers s !! v = Some x ->
  forall n, n ∈ v_tree x -> marks s !! n = Some U.
Proof.
  intros s Hr h hd v x Hh Hro Hrt Hm Hx n Hn. pose proof (reachable_inv s Hr v) as I.
  destruct (i_handle _ _ _ I h hd v Hh Hrt) as (x' & Hx' & Hl & Hs).
  assert (x' = x) as -> by congruence.
  destruct (i_curU _ _ _ I v x n Hx (Hs Hro) Hn) as [?|(_ & m0 & Hm0 & _)]; auto.
  rewrite Hl in Hm0. congruence.
Qed.

(* 7. every live superseded version keeps its successor alive *)
Theorem superseded_chained : forall s, reachable s -> forall v x,
  vers s !! v = Some x -> v_super x = true ->
  exists w, v_chain x = Some w /\ is_Some (vers s !! w).
Proof.
  intros s Hr v x Hx Hs.
  destruct (i_super _ _ _ (reachable_inv s Hr v) v x Hx Hs) as [(w & y & ? & ? & _)|(_ & _ & ? & _)];
    [eauto|lia].
Qed.

(* the form asked for, with its (vacuous) proviso *)
Corollary superseded_chained' : forall s, reachable s -> forall v x,
  vers s !! v = Some x -> v_super x = true ->
  (forall m, muts s !! (v_lin x) = Some m -> m_ver m <> v) ->
  exists w, v_chain x = Some w /\ is_Some (vers s !! w).
Proof. intros s Hr v x Hx Hs _. eapply superseded_chained; eauto. Qed.

Print Assumptions proto_safe.
Print Assumptions tree_stable.
Print Assumptions pinned_live.
Print Assumptions handle_live.
Print Assumptions mut_live.
Print Assumptions refs_accounting.
Print Assumptions refs_positive.
Print Assumptions cas_enabled.
Print Assumptions chain_free_at_cas.
Print Assumptions no_double_free.
Print Assumptions marks_restored.
Print Assumptions current_tree_unmarked.
Print Assumptions superseded_chained.

(* ================================================================== *)
(* non-vacuity: a reachable run in which a cell is freed by the release of a superseded
   version and then REUSED by a lazy load into the tree of the new version *)
Local Notation "1" := (1%positive). Local Notation "2" := (2%positive).

Example reuse_reachable :
  exists s s', reachable s /\ marks s !! 1 = Some F /\ step s s' /\
     marks s' !! 1 = Some U /\ exists v x, vers s' !! v = Some x /\ 1 ∈ v_tree x.
Proof.
  pose (x0 := Ver 1 0%nat ∅ ∅ 1%nat None false).
  pose (hd := Hd 1 (Some 1) false).
  pose (s1 := St (marks init) (<[1 := x0]> (vers init)) (<[1 := hd]> (handles init)) (pins init) (muts init)).
  assert (reachable s1) as R1.
  { eapply r_step; [apply r_init|]. apply (s_new init 1 1 1); simpl; intros *;
      rewrite ?lookup_empty; try discriminate; auto. }
  pose (x1 := Ver 1 0%nat {[1]} ∅ 1%nat None false).
  pose (s2 := St (<[1 := U]> (marks s1)) (<[1 := x1]> (vers s1)) (handles s1) (pins s1) (muts s1)).
  assert (reachable s2) as R2.
  { eapply r_step; [exact R1|]. apply (s_loadroot s1 1 x0 1); auto. left. reflexivity. }
  pose (x2 := with_refs x1 2%nat).
  pose (s3 := set_mut (upd_ver s2 1 x2) 1 (Some (Mut 1 1 ∅))).
  assert (reachable s3) as R3.
  { eapply r_step; [exact R2|]. apply (s_mbegin s2 1 hd 1 x1); reflexivity. }
  pose (m4 := Mut 1 1 (∅ ∪ {[2]})).
  pose (s4 := set_mut (set_marks s3 (setm {[1]} (M 1) (setm {[2]} U (marks s3)))) 1 (Some m4)).
  assert (reachable s4) as R4.
  { eapply r_step; [exact R3|]. apply (s_mbuild s3 1 (Mut 1 1 ∅) x2 {[2]} {[1]}); try reflexivity.
    - intros n Hn. apply elem_of_singleton in Hn as ->. left. reflexivity.
    - simpl. set_solver.
    - intros n Hn _. apply elem_of_singleton in Hn as ->. reflexivity. }
  pose (xnew := Ver 1 1%nat {[2]} ∅ 1%nat None false).
  pose (xold := Ver 1 0%nat {[1]} ∅ 2%nat None true).
  pose (s5 := St (setm ∅ (M 2) (marks s4)) (<[2 := xnew]> (<[1 := xold]> (vers s4)))
                 (<[1 := Hd 1 (Some 2) false]> (handles s4)) (pins s4) (delete 1 (muts s4))).
  pose (s6 := upd_ver s5 1 (with_refs xold 1%nat)).
  pose (s7 := St (setm {[1]} F (marks s6)) (delete 1 (vers s6)) (handles s6) (pins s6) (muts s6)).
  assert (reachable s7) as R7.
  { eapply r_step; [exact R4|].
    apply (s_mcas s4 1 m4 hd x2 2 {[2]} ∅ ∅ s5 s7); try reflexivity.
    - simpl. set_solver.
    - intros n Hn. apply elem_of_singleton in Hn as ->. reflexivity.
    - set_solver.
    - intros n Hn. set_solver.
    - exists s6. split; [|split].
      + apply (decref_live s5 1 xold 0%nat); reflexivity.
      + intros Hc. exfalso. revert Hc. vm_compute. discriminate.
      + intros _. apply (decref_die_nochain s6 1 (with_refs xold 1%nat) {[1]}); try reflexivity.
        intros n Hn. apply elem_of_singleton in Hn as ->. split; [simpl; set_solver|].
        left. reflexivity. }
  exists s7. eexists. split; [exact R7|]. split; [reflexivity|]. split.
  - apply (s_load s7 2 1); [right; reflexivity|]. exists 2, xnew. split; [reflexivity|]. simpl. set_solver.
  - split; [reflexivity|]. exists 2. eexists. split; [reflexivity|]. simpl. set_solver.
Qed.
Print Assumptions reuse_reachable.
