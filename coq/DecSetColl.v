(* DecSetColl.v — part of the decision theorems (see DecBase.v): re-registering a collection and copying the map of
   collections.  A handle that replaces an existing one shares its version record AND the lock that guards it (two handles
   counting references of one record under different locks race); every published map of collections is a fresh copy
   (a snapshot must never share the map the store goes on writing to). *)
From GK Require Import Base Treap Codec Blocks GExpr Generated DecBase.
From Coq Require Import ZArith NArith List String Bool Lia.
Import ListNotations.
Open Scope string_scope.
Open Scope list_scope.
Open Scope Z_scope.

Theorem set_collection_function :
  body "Store.SetCollection" =
    [SIf [] (GBin "==" (GVar "compare") GNil) [SAssign [GVar "compare"] "=" [GVar "bytes.Compare"]] [];
     SFor [] None []
       [SAssign [GVar "orig"] ":=" [GCall "s.getColl" []];
        SAssign [GVar "coll"] ":=" [GCall "copyColl" [GUn "*" (GCall "(*map[string]*Collection)" [GVar "orig"])]];
        SAssign [GVar "cnew"] ":=" [GCall "s.MakePrivateCollection" [GVar "compare"]];
        SAssign [GVar "cnew.name"] "=" [GVar "name"];
        SAssign [GVar "cold"] ":=" [GCall "[]" [GVar "coll"; GVar "name"]];
        SIf [] (GBin "!=" (GVar "cold") GNil)
          [SAssign [GVar "cnew.rootLock"] "=" [GVar "cold.rootLock"];
           SAssign [GVar "cnew.root"] "=" [GCall "cold.rootAddRef" []]] [];
        SAssign [GCall "[]" [GVar "coll"; GVar "name"]] "=" [GVar "cnew"];
        SIf [] (GCall "s.casColl" [GVar "orig"; GUn "&" (GVar "coll")])
          [SExpr (GCall "cold.closeCollection" []); SReturn [GVar "cnew"]] [];
        SExpr (GCall "cnew.closeCollection" [])]] /\
  body "copyColl" =
    [SAssign [GVar "res"] ":=" [GCall "make" [GOther "map[string]*Collection"]];
     SRange (GVar "name") (GVar "c") (GVar "orig")
       [SAssign [GCall "[]" [GVar "res"; GVar "name"]] "=" [GVar "c"]];
     SReturn [GVar "res"]].
Proof. split; vm_compute; reflexivity. Qed.
