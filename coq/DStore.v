(* DStore.v — the file-backed store on BYTES: the collections are treaps whose nodes carry their
   persisted locations, Flush appends records and a root record to the file (Disk.flush_bytes),
   re-opening DECODES the file (Disk.decode_store), FlushRevert scans back and truncates
   (Disk.revert_bytes).  All other operations are Store.step on the current collections.
   The file it predicts is compared byte for byte with the implementation's file after every Flush
   and FlushRevert; DStoreRefine.v proves that its visible behaviour is Store.run's, i.e. that
   re-opening really yields the state of the last Flush (C02) over whole histories. *)
From GK Require Import Base Treap Store Codec Disk.

Record dstore := mkDStore {
  d_file : file;
  d_size : Z;                     (* Store.size: where the next write goes *)
  d_cur : colls;
  d_cmpreg : list (bytes * nat)
}.

Definition dinit : dstore := mkDStore [] 0 [] [].

Definition colls_of_loaded (reg : list (bytes * nat)) (cs : list (bytes * tree)) : colls :=
  map (fun nt => (fst nt, mkColl (match cget reg (fst nt) with Some i => i | None => O end) (snd nt))) cs.

Definition dstep (s : dstore) (o : op) : dstore * out :=
  match o with
  | OFlush =>
    let '(f', size', cs') := flush_bytes (d_file s) (d_size s) (d_cur s) in
    (mkDStore f' size' cs' (d_cmpreg s), ROk)
  | OReopen =>
    (* NewStore: the size is the file length; scan back for the last root; nothing is loaded yet,
       which is unobservable: the trees are what the file says (load_all) *)
    match decode_store (d_file s) with
    | OpEmpty => (mkDStore (d_file s) 0 [] (d_cmpreg s), ROk)
    | OpOk e cs => (mkDStore (d_file s) e (colls_of_loaded (d_cmpreg s) cs) (d_cmpreg s), ROk)
    | OpNoRoots | OpBad => (s, RErr)
    end
  | ORevert =>
    let '(f', e, m) := revert_bytes (d_file s) (d_size s) in
    match load_all f' m e with
    | Some cs => (mkDStore f' e (colls_of_loaded (d_cmpreg s) cs) (d_cmpreg s), ROk)
    | None => (s, RErr)
    end
  | _ =>
    let '(s', r) := step (mkStore true (d_cur s) [] (d_cmpreg s)) o in
    (mkDStore (d_file s) (d_size s) (s_cur s') (s_cmpreg s'), r)
  end.

Fixpoint drun (s : dstore) (ops : list op) : list out :=
  match ops with
  | [] => []
  | o :: ops' => let '(s', r) := dstep s o in r :: drun s' ops'
  end.

(* the file after each step (what the correspondence check compares after Flush / FlushRevert) *)
Fixpoint dfiles (s : dstore) (ops : list op) : list file :=
  match ops with
  | [] => []
  | o :: ops' => let '(s', _) := dstep s o in d_file s' :: dfiles s' ops'
  end.
