(* Lazy.v — M4b: which bytes of the file an operation reads when nothing is
   cached (a store just opened): NewStore, GetItem, MinItem, MaxItem.
   Executable; the predicted read lists are compared with the ReadAt calls of
   the implementation (C19). *)
From GK Require Import Base Treap Codec Disk.

Inductive rd := Rd (off len : Z).

(* itemLoc.read: the 16-byte header, then the key, then (withValue) the value: three ReadAt calls *)
Definition item_reads (il : ploc) (it : item) (wv : bool) : list rd :=
  [Rd (poff il) item_hdr_len; Rd (poff il + item_hdr_len) (blen (ikey it))] ++
  (if wv then [Rd (poff il + item_hdr_len + blen (ikey it)) (blen (ival it))] else []).

(* nodeLoc.read: one ReadAt of the whole node record *)
Definition node_reads (p : ploc) : list rd := [Rd (poff p) (plen p)].

(* Collection.GetItem on an uncached tree rooted at l.  None as result = an error or a miss. *)
Fixpoint get_reads (fuel : nat) (cmp : bytes -> bytes -> comparison) (f : file) (l : option ploc)
         (key : bytes) (wv : bool) : list rd * option item :=
  match l with
  | None => ([], None)
  | Some p =>
    match fuel with
    | O => ([], None)
    | S k =>
      match dec_node f p with
      | None => (node_reads p, None)
      | Some nr =>
        match nr_item nr with
        | None => (node_reads p, None)
        | Some il =>
          match dec_item f il with
          | None => (node_reads p ++ [Rd (poff il) item_hdr_len], None)
          | Some it =>
            let r0 := node_reads p ++ item_reads il it false in
            match cmp key (ikey it) with
            | Lt => let '(r, res) := get_reads k cmp f (nr_left nr) key wv in (r0 ++ r, res)
            | Gt => let '(r, res) := get_reads k cmp f (nr_right nr) key wv in (r0 ++ r, res)
            | Eq => (r0 ++ (if wv then item_reads il it true else []), Some it)
            end
          end
        end
      end
    end
  end.

(* Store.walk for MinItem (left = true) / MaxItem: node records down one spine, then the item of
   the last node *)
Fixpoint walk_reads (fuel : nat) (f : file) (p : ploc) (left wv : bool) : list rd * option item :=
  match fuel with
  | O => ([], None)
  | S k =>
    match dec_node f p with
    | None => ([], None)
    | Some nr =>
      match (if left then nr_left nr else nr_right nr) with
      | Some c => let '(r, res) := walk_reads k f c left wv in (node_reads c ++ r, res)
      | None =>
        match nr_item nr with
        | None => ([], None)
        | Some il =>
          match dec_item f il with
          | None => ([Rd (poff il) item_hdr_len], None)
          | Some it => (item_reads il it wv, Some it)
          end
        end
      end
    end
  end.

Definition minmax_reads (f : file) (l : option ploc) (left wv : bool) : list rd * option item :=
  match l with
  | None => ([], None)
  | Some p => let '(r, res) := walk_reads (S (length f)) f p left wv in (node_reads p ++ r, res)
  end.

(* Store.visitNodes (VisitItemsAscend/Descend and their Ex/iterator variants) on an uncached tree:
   node record and key-only item read on the way down, the item re-read with its value (when asked
   for) just before it is delivered; b = number of deliveries the visitor answers true to. *)
Fixpoint visit_reads (fuel : nat) (cmp : bytes -> bytes -> comparison) (asc : bool) (f : file)
         (l : option ploc) (target : bytes) (wv : bool) (b : nat) : list rd * nat * bool :=
  match l with
  | None => ([], b, true)
  | Some p =>
    match fuel with
    | O => ([], b, true)
    | S k =>
      match dec_node f p with
      | None => (node_reads p, b, false)
      | Some nr =>
        match nr_item nr with
        | None => (node_reads p, b, false)
        | Some il =>
          match dec_item f il with
          | None => (node_reads p ++ [Rd (poff il) item_hdr_len], b, false)
          | Some it =>
            let r0 := node_reads p ++ item_reads il it false in
            let c := cmp target (ikey it) in
            let choice := if asc then match c with Gt => false | _ => true end
                          else match c with Gt => true | _ => false end in
            let choiceT := if asc then nr_left nr else nr_right nr in
            let choiceF := if asc then nr_right nr else nr_left nr in
            if choice then
              let '(r1, b1, k1) := visit_reads k cmp asc f choiceT target wv b in
              if k1 then
                let rv := if wv then item_reads il it true else [] in
                match b1 with
                | O => (r0 ++ r1 ++ rv, O, false)
                | S b' =>
                  let '(r2, b2, k2) := visit_reads k cmp asc f choiceF target wv b' in
                  (r0 ++ r1 ++ rv ++ r2, b2, k2)
                end
              else (r0 ++ r1, b1, false)
            else
              let '(r2, b2, k2) := visit_reads k cmp asc f choiceF target wv b in
              (r0 ++ r2, b2, k2)
          end
        end
      end
    end
  end.

(* NewStore on a file that ends in a root record: after Stat, the 24-byte trailer and the root record *)
Definition open_reads (f : file) : list rd :=
  let e := blen f in
  match read_at f (e - roots_end_len) roots_end_len with
  | None => []
  | Some t => [Rd (e - roots_end_len) roots_end_len;
               Rd (de (sub t 0 8)) (e - de (sub t 0 8) - roots_end_len)]
  end.

(* the byte range holding the value of the item stored at il *)
Definition value_range (il : ploc) (it : item) : Z * Z :=
  (poff il + item_hdr_len + blen (ikey it), poff il + item_hdr_len + blen (ikey it) + blen (ival it)).

Definition rd_disjoint (r : rd) (range : Z * Z) : Prop :=
  match r with Rd o n => n = 0 \/ o + n <= fst range \/ snd range <= o end.

(* all (item location, item) pairs of a tree *)
Fixpoint item_locs (t : tree) : list (ploc * item) :=
  match t with
  | E => []
  | T _ l il it _ _ r =>
    item_locs l ++ (match il with Some q => [(q, it)] | None => [] end) ++ item_locs r
  end.

(* all node locations of a tree *)
Fixpoint node_locs (t : tree) : list ploc :=
  match t with
  | E => []
  | T nl l _ _ _ _ r => node_locs l ++ (match nl with Some p => [p] | None => [] end) ++ node_locs r
  end.
