(* Iter.v -- labelled transition system for the channel-based iterator.

   Consumer (Next / Close) and producer goroutine (iterate + visit over n items)
   communicating over two UNBUFFERED channels `next` and `items`.
   The model mirrors STATEMENTS.md rule by rule; see the comments on [step]. *)

From Coq Require Import List Bool Arith Lia.
Import ListNotations.

Inductive cmd := CNext | CClose.

Inductive cphase :=
| CIdle        (* between two API calls *)
| CSending     (* inside Next, blocked in  it.next <- true *)
| CReceiving.  (* inside Next, blocked in  <-it.items      *)

Inductive pphase :=
| PWaitFirst            (* blocked in the first  <-it.next                    *)
| PSend (k : nat)       (* in the visitor for item k, blocked in it.items <- i *)
| PWaitNext (k : nat)   (* item k sent, blocked in  <-it.next                  *)
| PClosing              (* visit returned / never started; about to close(items) *)
| PDrain                (* items closed; `for range it.next {}`               *)
| PDone.                (* goroutine has exited                               *)

Record state := mkState {
  cmds         : list cmd;           (* commands the consumer still has to issue *)
  closed       : bool;               (* it.closed *)
  results      : list (option nat);  (* results of the Next calls so far *)
  cph          : cphase;
  pph          : pphase;
  pinned       : bool;               (* the visit holds a version pin *)
  next_closed  : bool;
  items_closed : bool;
  panicked     : bool }.

Definition init (cs : list cmd) : state :=
  mkState cs false [] CIdle PWaitFirst false false false false.

(* [n] = number of items the visit produces.
   Panics never block anything: they only raise the [panicked] flag, so T1 is a
   statement about every reachable state.  Besides the panics listed in
   STATEMENTS.md (send on closed next, close of closed next) we also flag
   close(items) on closed items and a send on closed items -- this only makes
   T1 stronger, it does not change which transitions are enabled. *)
Inductive step (n : nat) : state -> state -> Prop :=
(* --- consumer takes the next command (only when CIdle) --- *)
| S_next_closed : forall cs r pp pin nc ic pk,      (* Next: if it.closed { return false } *)
    step n (mkState (CNext :: cs) true r CIdle pp pin nc ic pk)
           (mkState cs true (r ++ [None]) CIdle pp pin nc ic pk)
| S_next_open : forall cs r pp pin nc ic pk,        (* Next: start  it.next <- true *)
    step n (mkState (CNext :: cs) false r CIdle pp pin nc ic pk)
           (mkState cs false r CSending pp pin nc ic (pk || nc))
| S_close_closed : forall cs r pp pin nc ic pk,     (* Close: if it.closed { return } *)
    step n (mkState (CClose :: cs) true r CIdle pp pin nc ic pk)
           (mkState cs true r CIdle pp pin nc ic pk)
| S_close_open : forall cs r pp pin nc ic pk,       (* Close: close(it.next); it.closed = true *)
    step n (mkState (CClose :: cs) false r CIdle pp pin nc ic pk)
           (mkState cs true r CIdle pp pin true ic (pk || nc))
(* --- rendezvous on next --- *)
| S_rv_first : forall cs cl r pin nc ic pk,         (* first receive; the visit starts (pins) *)
    step n (mkState cs cl r CSending PWaitFirst pin nc ic pk)
           (if n =? 0
            then mkState cs cl r CReceiving PClosing false nc ic pk
            else mkState cs cl r CReceiving (PSend 0) true nc ic (pk || ic))
| S_rv_next : forall cs cl r k pin nc ic pk,        (* visitor receives ok=true, returns true *)
    step n (mkState cs cl r CSending (PWaitNext k) pin nc ic pk)
           (if S k <? n
            then mkState cs cl r CReceiving (PSend (S k)) pin nc ic (pk || ic)
            else mkState cs cl r CReceiving PClosing false nc ic pk)
| S_rv_drain : forall cs cl r pin nc ic pk,         (* the drain loop swallows the value (!) *)
    step n (mkState cs cl r CSending PDrain pin nc ic pk)
           (mkState cs cl r CReceiving PDrain pin nc ic pk)
(* --- producer observes that next is closed --- *)
| S_nc_first : forall cs cl r cp pin ic pk,         (* `if _, ok := <-it.next; !ok { return }` *)
    step n (mkState cs cl r cp PWaitFirst pin true ic pk)
           (mkState cs cl r cp PClosing pin true ic pk)
| S_nc_next : forall cs cl r cp k pin ic pk,        (* visitor answers false; visit returns, unpins *)
    step n (mkState cs cl r cp (PWaitNext k) pin true ic pk)
           (mkState cs cl r cp PClosing false true ic pk)
| S_nc_drain : forall cs cl r cp pin ic pk,         (* `for range it.next` ends *)
    step n (mkState cs cl r cp PDrain pin true ic pk)
           (mkState cs cl r cp PDone pin true ic pk)
(* --- rendezvous on items --- *)
| S_rv_items : forall cs cl r k pin nc ic pk,       (* Next returns true with item k *)
    step n (mkState cs cl r CReceiving (PSend k) pin nc ic pk)
           (mkState cs cl (r ++ [Some k]) CIdle (PWaitNext k) pin nc ic pk)
(* --- deferred close(it.items) --- *)
| S_close_items : forall cs cl r cp pin nc ic pk,
    step n (mkState cs cl r cp PClosing pin nc ic pk)
           (mkState cs cl r cp PDrain pin nc true (pk || ic))
(* --- consumer receives !ok from the closed items channel --- *)
| S_recv_closed : forall cs cl r pp pin nc pk,      (* close(it.next); it.closed = true; return false *)
    step n (mkState cs cl r CReceiving pp pin nc true pk)
           (mkState cs true (r ++ [None]) CIdle pp pin true true (pk || nc)).

(* Executable version: all successor states. *)
Definition succs (n : nat) (s : state) : list state :=
  let '(mkState cs cl r cp pp pin nc ic pk) := s in
  (match cp, cs with
   | CIdle, CNext :: cs' =>
       if cl then [mkState cs' true (r ++ [None]) CIdle pp pin nc ic pk]
       else [mkState cs' false r CSending pp pin nc ic (pk || nc)]
   | CIdle, CClose :: cs' =>
       if cl then [mkState cs' true r CIdle pp pin nc ic pk]
       else [mkState cs' true r CIdle pp pin true ic (pk || nc)]
   | _, _ => []
   end) ++
  (match cp, pp with
   | CSending, PWaitFirst =>
       [if n =? 0
        then mkState cs cl r CReceiving PClosing false nc ic pk
        else mkState cs cl r CReceiving (PSend 0) true nc ic (pk || ic)]
   | CSending, PWaitNext k =>
       [if S k <? n
        then mkState cs cl r CReceiving (PSend (S k)) pin nc ic (pk || ic)
        else mkState cs cl r CReceiving PClosing false nc ic pk]
   | CSending, PDrain => [mkState cs cl r CReceiving PDrain pin nc ic pk]
   | CReceiving, PSend k => [mkState cs cl (r ++ [Some k]) CIdle (PWaitNext k) pin nc ic pk]
   | _, _ => []
   end) ++
  (if nc then
     match pp with
     | PWaitFirst => [mkState cs cl r cp PClosing pin true ic pk]
     | PWaitNext k => [mkState cs cl r cp PClosing false true ic pk]
     | PDrain => [mkState cs cl r cp PDone pin true ic pk]
     | _ => []
     end
   else []) ++
  (match pp with
   | PClosing => [mkState cs cl r cp PDrain pin nc true (pk || ic)]
   | _ => []
   end) ++
  (match cp with
   | CReceiving =>
       if ic then [mkState cs true (r ++ [None]) CIdle pp pin true true (pk || nc)] else []
   | _ => []
   end).

(* Reachability: every path from the initial state = every interleaving. *)
Inductive reachable (n : nat) (cs0 : list cmd) : state -> Prop :=
| R_init : reachable n cs0 (init cs0)
| R_step : forall s s', reachable n cs0 s -> step n s s' -> reachable n cs0 s'.

Inductive steps (n : nat) : state -> state -> Prop :=
| steps_refl : forall s, steps n s s
| steps_cons : forall s s' s'', step n s s' -> steps n s' s'' -> steps n s s''.

(* Final states. *)
Definition final (s : state) : Prop :=
  cmds s = [] /\ cph s = CIdle /\
  (pph s = PDone \/
   (closed s = false /\ (pph s = PWaitFirst \/ exists k, pph s = PWaitNext k))).

Definition finalb (s : state) : bool :=
  match cmds s, cph s with
  | [], CIdle =>
      match pph s with
      | PDone => true
      | PWaitFirst | PWaitNext _ => negb (closed s)
      | _ => false
      end
  | _, _ => false
  end.

(* Specification of the results.
   [expect n k cl cs]: results of running [cs] when [k] items have been delivered
   so far and [cl] tells whether the iterator is already closed. *)
Fixpoint expect (n k : nat) (cl : bool) (cs : list cmd) : list (option nat) :=
  match cs with
  | [] => []
  | CClose :: cs' => expect n k true cs'
  | CNext :: cs' =>
      if cl then None :: expect n k true cs'
      else if k <? n then Some k :: expect n (S k) false cs'
      else None :: expect n k true cs'      (* exhausted: Next closes the iterator *)
  end.

Definition expected (n : nat) (cs : list cmd) : list (option nat) := expect n 0 false cs.

(* [openfin n k cs]: starting open with k items delivered, does the command list
   leave the iterator open (Some d, d = items delivered) or closed (None)? *)
Fixpoint openfin (n k : nat) (cs : list cmd) : option nat :=
  match cs with
  | [] => Some k
  | CClose :: _ => None
  | CNext :: cs' => if k <? n then openfin n (S k) cs' else None
  end.

(* The unique final state (T6). *)
Definition final_state (n : nat) (cs : list cmd) : state :=
  match openfin n 0 cs with
  | None       => mkState [] true  (expected n cs) CIdle PDone         false true  true  false
  | Some 0     => mkState [] false (expected n cs) CIdle PWaitFirst    false false false false
  | Some (S k) => mkState [] false (expected n cs) CIdle (PWaitNext k) true  false false false
  end.

(* Small executable schedulers for sanity checks. *)
Fixpoint run_first (fuel n : nat) (s : state) : state :=
  match fuel with
  | 0 => s
  | S f => match succs n s with [] => s | s' :: _ => run_first f n s' end
  end.

Fixpoint run_last (fuel n : nat) (s : state) : state :=
  match fuel with
  | 0 => s
  | S f => match rev (succs n s) with [] => s | s' :: _ => run_last f n s' end
  end.

(* All terminal states reachable within [fuel] steps, over ALL interleavings
   (states still having successors when the fuel runs out are returned too). *)
Fixpoint all_ends (fuel n : nat) (s : state) : list state :=
  match fuel with
  | 0 => [s]
  | S f => match succs n s with
           | [] => [s]
           | l => flat_map (all_ends f n) l
           end
  end.

(* All reachable states within [fuel] steps (with repetitions). *)
Fixpoint all_states (fuel n : nat) (s : state) : list state :=
  s :: match fuel with
       | 0 => []
       | S f => flat_map (all_states f n) (succs n s)
       end.

(* All command lists of length exactly / at most len. *)
Fixpoint cmdlists (len : nat) : list (list cmd) :=
  match len with
  | 0 => [[]]
  | S l => flat_map (fun cs => [CNext :: cs; CClose :: cs]) (cmdlists l)
  end.

Fixpoint cmdlists_upto (len : nat) : list (list cmd) :=
  match len with
  | 0 => [[]]
  | S l => cmdlists (S l) ++ cmdlists_upto l
  end.
