(* Codec.v — M3: the version-4 file layout, written out independently of the
   Go code (the constants the Go source actually uses are regenerated into
   Generated.v and proved equal to these in Layout.v).
   item record : length(4) keyLength(4) valLength(4) priority(4) key value
   node record : item ploc, left ploc, right ploc (8+4 each), numNodes(8), numBytes(8)
   root record : MagicBeg MagicBeg version(4) length(4) JSON offset(8) length(4) MagicEnd MagicEnd
   All integers big-endian. *)
From GK Require Import Base Treap.

(* ---------- big-endian integers ---------- *)
Fixpoint be (n : nat) (z : Z) : bytes :=
  match n with
  | O => []
  | S k => be k (z / 256) ++ [Z.to_N (z mod 256)]
  end.

Fixpoint de_acc (acc : Z) (b : bytes) : Z :=
  match b with
  | [] => acc
  | x :: xs => de_acc (acc * 256 + Z.of_N x) xs
  end.
Definition de (b : bytes) : Z := de_acc 0 b.

Definition two32 : Z := 4294967296.
Definition two31 : Z := 2147483648.
Definition two63 : Z := 9223372036854775808.

(* ---------- constants of layout version 4 ---------- *)
Definition magic_beg : bytes := [48; 103; 49; 116; 50; 114]%N.  (* 0g1t2r *)
Definition magic_end : bytes := [51; 101; 52; 97; 53; 112]%N.   (* 3e4a5p *)
Definition version : Z := 4.
Definition item_hdr_len : Z := 16.
Definition ploc_len : Z := 12.
Definition node_len : Z := 52.
Definition roots_end_len : Z := 24.   (* offset(8) length(4) MagicEnd MagicEnd *)
Definition roots_len : Z := 44.       (* a root record with an empty JSON part *)

(* ---------- reading from a file ---------- *)
Definition file := bytes.

Definition read_at (f : file) (off len : Z) : option bytes :=
  if len =? 0 then Some []
  else if (0 <=? off) && (off + len <=? blen f)
       then Some (firstn (Z.to_nat len) (skipn (Z.to_nat off) f))
       else None.

(* WriteAt at an offset not beyond the end of the file *)
Definition write_at (f : file) (off : Z) (d : bytes) : file :=
  firstn (Z.to_nat off) f ++ d ++ skipn (Z.to_nat off + length d) f.

Definition sub (b : bytes) (off len : nat) : bytes := firstn len (skipn off b).

Fixpoint beq (a b : bytes) : bool :=
  match a, b with
  | [], [] => true
  | x :: xs, y :: ys => (x =? y)%N && beq xs ys
  | _, _ => false
  end.

(* ---------- item records (item.go, item_ba.go) ---------- *)
Definition enc_item_hdr (it : item) : bytes :=
  be 4 (item_hdr_len + blen (ikey it) + blen (ival it)) ++ be 4 (blen (ikey it)) ++
  be 4 (blen (ival it)) ++ be 4 (iprio it mod two32).
Definition enc_item (it : item) : bytes := enc_item_hdr it ++ ikey it ++ ival it.

Definition item_loc_len (it : item) : Z := item_hdr_len + blen (ikey it) + blen (ival it).

(* itemLoc.read(withValue=true) with its checks, in its order *)
Definition dec_item (f : file) (l : ploc) : option item :=
  if plen l <? item_hdr_len then None else
  match read_at f (poff l) item_hdr_len with
  | None => None
  | Some h =>
    let len := de (sub h 0 4) in
    let kl := de (sub h 4 4) in
    let vl := de (sub h 8 4) in
    let pr := de (sub h 12 4) in
    if negb (len =? (item_hdr_len + kl + vl) mod two32) then None else
    match read_at f (poff l + item_hdr_len) kl with
    | None => None
    | Some k =>
      match read_at f (poff l + item_hdr_len + kl) vl with
      | None => None
      | Some v => Some (mkItem k v (if pr <? two31 then pr else pr - two32))
      end
    end
  end.

(* ---------- plocs and node records (ploc.go, node.go) ---------- *)
Definition enc_ploc (p : option ploc) : bytes :=
  match p with
  | None => be 8 0 ++ be 4 0
  | Some l => be 8 (poff l) ++ be 4 (plen l)
  end.

Definition dec_ploc (b : bytes) : option ploc :=
  let o := de (sub b 0 8) in
  let l := de (sub b 8 4) in
  if (o =? 0) && (l =? 0) then None else Some (mkPloc o l).

Definition root_loc (t : tree) : option ploc :=
  match t with E => None | T nl _ _ _ _ _ _ => nl end.

Definition enc_node (il ll rl : option ploc) (nn nb : Z) : bytes :=
  enc_ploc il ++ enc_ploc ll ++ enc_ploc rl ++ be 8 nn ++ be 8 nb.

Record node_rec := mkNodeRec { nr_item : option ploc; nr_left : option ploc; nr_right : option ploc; nr_nn : Z; nr_nb : Z }.

Definition dec_node (f : file) (l : ploc) : option node_rec :=
  if negb (plen l =? node_len) then None else
  match read_at f (poff l) node_len with
  | None => None
  | Some b =>
    Some (mkNodeRec (dec_ploc (sub b 0 12)) (dec_ploc (sub b 12 12)) (dec_ploc (sub b 24 12))
                    (de (sub b 36 8)) (de (sub b 44 8)))
  end.

(* ---------- JSON of the root map: name -> (o: offset, l: length) ---------- *)
Definition hexdigit (n : N) : N := (if n <? 10 then 48 + n else 87 + n)%N.

(* Go's encoding/json string escaping (HTML-safe) for bytes below 0x80 *)
Definition esc_byte (c : N) : bytes :=
  (if c =? 34 then [92; 34]
   else if c =? 92 then [92; 92]
   else if c =? 8 then [92; 98]
   else if c =? 12 then [92; 102]
   else if c =? 10 then [92; 110]
   else if c =? 13 then [92; 114]
   else if c =? 9 then [92; 116]
   else if (c <? 32) || (c =? 60) || (c =? 62) || (c =? 38)
        then [92; 117; 48; 48; hexdigit (c / 16); hexdigit (c mod 16)]
   else [c])%N.

Definition esc_string (s : bytes) : bytes := flat_map esc_byte s.

Fixpoint digits_acc (fuel : nat) (n : N) (acc : bytes) : bytes :=
  match fuel with
  | O => acc
  | S k => let acc' := (48 + n mod 10)%N :: acc in
           if (n <? 10)%N then acc' else digits_acc k (n / 10)%N acc'
  end.
Definition decimal (z : Z) : bytes := digits_acc 40 (Z.to_N z) [].

Definition enc_json_entry (e : bytes * option ploc) : bytes :=
  let '(name, p) := e in
  let '(o, l) := match p with Some x => (poff x, plen x) | None => (0, 0) end in
  [34]%N ++ esc_string name ++ [34; 58; 123; 34; 111; 34; 58]%N ++ decimal o ++
  [44; 34; 108; 34; 58]%N ++ decimal l ++ [125]%N.

Fixpoint join_comma (l : list bytes) : bytes :=
  match l with
  | [] => []
  | [x] => x
  | x :: xs => x ++ [44]%N ++ join_comma xs
  end.

(* the map is written with its keys sorted bytewise (Go sorts map keys) *)
Definition enc_json (m : list (bytes * option ploc)) : bytes :=
  [123]%N ++ join_comma (map enc_json_entry m) ++ [125]%N.

(* ---- decoder: exactly this format; string escapes: quote, backslash, b f n r t, u00XX ---- *)
Definition unhex (c : N) : option N :=
  (if (48 <=? c) && (c <=? 57) then Some (c - 48)
   else if (97 <=? c) && (c <=? 102) then Some (c - 87)
   else if (65 <=? c) && (c <=? 70) then Some (c - 55)
   else None)%N.

(* parse a string body up to the closing quote; returns the string and the rest *)
Fixpoint dec_string (fuel : nat) (b : bytes) (acc : bytes) : option (bytes * bytes) :=
  match fuel with
  | O => None
  | S k =>
    match b with
    | [] => None
    | 34%N :: rest => Some (rev acc, rest)
    | 92%N :: c :: rest =>
      if (c =? 34)%N then dec_string k rest (34%N :: acc)
      else if (c =? 92)%N then dec_string k rest (92%N :: acc)
      else if (c =? 47)%N then dec_string k rest (47%N :: acc)
      else if (c =? 98)%N then dec_string k rest (8%N :: acc)
      else if (c =? 102)%N then dec_string k rest (12%N :: acc)
      else if (c =? 110)%N then dec_string k rest (10%N :: acc)
      else if (c =? 114)%N then dec_string k rest (13%N :: acc)
      else if (c =? 116)%N then dec_string k rest (9%N :: acc)
      else if (c =? 117)%N then
        match rest with
        | a :: b' :: c' :: d :: rest' =>
          match unhex a, unhex b', unhex c', unhex d with
          | Some 0%N, Some 0%N, Some h, Some l =>
            if (h <? 8)%N then dec_string k rest' ((h * 16 + l)%N :: acc) else None
          | _, _, _, _ => None
          end
        | _ => None
        end
      else None
    | c :: rest => if (c <? 32)%N then None else dec_string k rest (c :: acc)
    end
  end.

Fixpoint dec_number_acc (fuel : nat) (b : bytes) (acc : Z) (seen : bool) : option (Z * bytes) :=
  match fuel with
  | O => None
  | S k =>
    match b with
    | c :: rest =>
      if ((48 <=? c) && (c <=? 57))%N then dec_number_acc k rest (acc * 10 + Z.of_N (c - 48)) true
      else if seen then Some (acc, b) else None
    | [] => if seen then Some (acc, []) else None
    end
  end.
(* no leading zeros except a lone zero (Go rejects them) *)
Definition dec_number (b : bytes) : option (Z * bytes) :=
  match b with
  | 48%N :: rest =>
    match rest with
    | c :: _ => if ((48 <=? c) && (c <=? 57))%N then None else Some (0, rest)
    | [] => Some (0, rest)
    end
  | _ => dec_number_acc (S (length b)) b 0 false
  end.

Fixpoint expect (pat b : bytes) : option bytes :=
  match pat, b with
  | [], _ => Some b
  | p :: ps, c :: cs => if (p =? c)%N then expect ps cs else None
  | _ :: _, [] => None
  end.

Definition dec_json_entry (b : bytes) : option (bytes * option ploc * bytes) :=
  match expect [34]%N b with
  | None => None
  | Some b1 =>
    match dec_string (S (length b1)) b1 [] with
    | None => None
    | Some (name, b2) =>
      match expect [58; 123; 34; 111; 34; 58]%N b2 with
      | None => None
      | Some b3 =>
        match dec_number b3 with
        | None => None
        | Some (o, b4) =>
          match expect [44; 34; 108; 34; 58]%N b4 with
          | None => None
          | Some b5 =>
            match dec_number b5 with
            | None => None
            | Some (l, b6) =>
              match expect [125]%N b6 with
              | None => None
              | Some b7 =>
                Some (name, (if (o =? 0) && (l =? 0) then None else Some (mkPloc o l)), b7)
              end
            end
          end
        end
      end
    end
  end.

Fixpoint dec_json_entries (fuel : nat) (b : bytes) (acc : list (bytes * option ploc))
  : option (list (bytes * option ploc)) :=
  match fuel with
  | O => None
  | S k =>
    match dec_json_entry b with
    | None => None
    | Some (name, p, rest) =>
      match rest with
      | [125%N] => Some (rev ((name, p) :: acc))
      | 44%N :: rest' => dec_json_entries k rest' ((name, p) :: acc)
      | _ => None
      end
    end
  end.

Definition dec_json (b : bytes) : option (list (bytes * option ploc)) :=
  match b with
  | [123%N; 125%N] => Some []
  | 123%N :: rest => dec_json_entries (S (length rest)) rest []
  | _ => None
  end.

(* ---------- root records (store.go writeRoots / checkAndReadRoots) ---------- *)
Definition enc_root (m : list (bytes * option ploc)) (offset : Z) : bytes :=
  let j := enc_json m in
  let len := roots_len + blen j in
  magic_beg ++ magic_beg ++ be 4 version ++ be 4 len ++ j ++ be 8 offset ++ be 4 len ++
  magic_end ++ magic_end.

(* Is there a valid root record ending exactly at [e]?  The checks of
   scanBackwardsForMagicEnd / readRootsEnd / checkAndReadRoots /
   validateAndSetCollections, in their order. *)
Definition root_at (f : file) (e : Z) : option (list (bytes * option ploc)) :=
  if e <=? roots_len then None else
  match read_at f (e - roots_end_len) roots_end_len with
  | None => None
  | Some t =>
    if negb (beq (sub t 12 6) magic_end && beq (sub t 18 6) magic_end)
    then None else
    let offset := de (sub t 0 8) in
    let len := de (sub t 8 4) in
    if negb ((offset <? two63) && (offset <? e - roots_len) && (len =? (e - offset) mod two32)) then None else
    match read_at f offset (e - offset - roots_end_len) with
    | None => None
    | Some d =>
      if negb (beq (sub d 0 6) magic_beg && beq (sub d 6 6) magic_beg)
      then None else
      if negb (de (sub d 12 4) =? version) then None else
      if negb (de (sub d 16 4) =? len) then None else
      dec_json (skipn 20 d)
    end
  end.
